(* Correspondence harness for C18, unit routing (routing generators).

   Model-vs-code checks ("the Gallina post-processing reproduces what the real generator emitted on these raw
   samples") ALSO judge the implementation's own output for those (legal) raw samples by the property's predicates,
   independently of the model ([judge]): 1 = model differs, output fine; 6 = model agrees, property false on the
   output; 16 = model differs AND property false on the output (a concrete failing input: these draws); property checks (the executable wfb / solvableb predicates evaluated on the
   implementation's own output) return 6 when the property is false, 12 when the instance is outside the documented
   format, 10 when the property holds only within the stated float tolerance (counted, not a failure).  0 = fine. *)
From Coq Require Import ZArith QArith Qround List Bool Lia Arith.
From RL4CO Require Import Base.Num Env.CVRP Env.CVRPProofs Data.GenRouting Data.GenRouting2.
From RL4CO Require Env.TSP Env.TSPProofs Env.MTSP Env.MTSPProofs Env.PCTSP Env.PCTSPProofs Env.MDCPDP Env.MDCPDPDefs.
Import ListNotations.
Open Scope Z_scope.

Fixpoint list_eqb {A} (eqb : A -> A -> bool) (a b : list A) : bool :=
  match a, b with [], [] => true | x :: r, y :: t => eqb x y && list_eqb eqb r t | _, _ => false end.
Definition zz_eqb (a b : Z * Z) : bool := (fst a =? fst b) && (snd a =? snd b).
Definition oq_eqb (a b : option Q) : bool :=
  match a, b with None, None => true | Some x, Some y => Qeq_bool x y | _, _ => false end.
Definition qoq_eqb (a b : Q * option Q) : bool := Qeq_bool (fst a) (fst b) && oq_eqb (snd a) (snd b).
Definition Qabsq (x : Q) : Q := if Qle_bool 0 x then x else (- x)%Q.
Definition q_close (tol a b : Q) : bool := Qle_bool (Qabsq (a - b)) tol.

Definition judge (agree prop_ok : bool) : Z :=
  if prop_ok then (if agree then 0 else 1) else (if agree then 6 else 16).

(* ------------------------------------------------------------------ size tables *)
(* which: 0 = CVRP CAPACITIES, 1 = OP / PCTSP MAX_LENGTHS, 2 = MTVRP get_vehicle_capacity *)
Definition check_table (c : nat * Z * Z) : Z :=
  let '(which, n, obs) := c in
  let m := match which with
           | O => cvrp_capacity None n
           | S O => table_lookup MAX_LENGTHS n
           | _ => get_vehicle_capacity n
           end in
  if m =? obs then 0 else 1.

(* ------------------------------------------------------------------ CVRP *)
(* (num_loc, capacity override, min_demand, max_demand, raw demand samples, observed integer demands, observed capacity) *)
Definition check_cvrp (c : Z * option Z * Z * Z * list Q * list Z * Z) : Z :=
  let '(n, ovr, lo, hi, us, obs, cobs) := c in
  let i := gen_cvrp (cvrp_capacity ovr n) us [] in
  let io := {| dem := obs; cap := cobs; dist := []; tol := 0 |} in
  judge (list_eqb Z.eqb (dem i) obs && (cap i =? cobs))
        (cvrp_wfb io && cvrp_solvableb io && forallb (fun k => (lo <=? k) && (k <=? hi - 1)) obs).
(* property on a generated row: demands and vehicle capacity as scaled integers *)
Definition check_cvrp_prop (c : list Z * Z) : Z :=
  let '(d, cp) := c in
  let i := {| dem := d; cap := cp; dist := []; tol := 0 |} in
  if negb (cvrp_wfb i) then 12 else if negb (forallb (fun x => 0 <? x) d) then 12
  else if negb (cvrp_solvableb i) then 6 else 0.

(* ------------------------------------------------------------------ CVRPTW *)
Definition check_cvrptw (c : Q * list (Q * Q * Q * Q) * list (Z * Z)) : Z :=
  let '(T, cust, obs) := c in
  let w := gen_cvrptw T cust in
  judge (list_eqb zz_eqb w obs)
        (zz_eqb (hd (1, 0) obs) (cvrptw_depot_window T) && (length obs =? S (length cust))%nat &&
         (* judged against the deadline the environment will read: the EMITTED depot window end *)
         forallb (fun cw => let '(d, dur, _, _) := fst cw in cvrptw_customer_okb (inject_Z (snd (hd (1, 0) obs))) d dur (snd cw))
                 (combine cust (tl obs))).
(* property on a generated row (windows may be scaled floats): per customer (d, dur, lo, hi); H = depot deadline *)
Definition cvrptw_okq (tol H d dur lo hi : Q) : bool :=
  Qle_bool 0 lo && negb (Qle_bool hi lo) && Qle_bool d (hi + tol) && Qle_bool (hi + dur + d) (H + tol).
Definition check_cvrptw_prop (c : Q * Q * list (Q * Q * Q * Q)) : Z :=
  let '(tol, H, cust) := c in
  let ok t := forallb (fun x => let '(d, dur, lo, hi) := x in cvrptw_okq t H d dur lo hi) cust in
  if ok 0%Q then 0 else if ok tol then 10 else 6.

(* ------------------------------------------------------------------ MTVRP *)
(* generate_time_windows on one customer: (tol, T, speed, d, r1, r2, r3, observed start, end, service) *)
Definition check_mtvrp_tw (c : Q * Q * Q * Q * Q * Q * Q * Q * Q * Q) : Z :=
  let '(tol, T, speed, d, r1, r2, r3, olo, ohi, osvc) := c in
  let s := mtvrp_service r1 in
  let w := mtvrp_tw T speed d s (mtvrp_twlen r2) r3 in
  judge (q_close tol (fst w) olo && q_close tol (snd w) ohi && q_close tol s osvc)
        (Qle_bool (d / speed) (olo + tol) && negb (Qle_bool ohi olo) && Qle_bool (ohi + osvc + d / speed) (T + tol)
         && Qle_bool ((15 # 100) - tol) osvc && Qle_bool osvc ((18 # 100) + tol)).
(* generate_demands on one node: (ratio, ul, ub, r, observed linehaul, observed backhaul) *)
Definition check_mtvrp_dem (c : Q * Q * Q * Q * Z * Z) : Z :=
  let '(ratio, ul, ub, r, ol, ob) := c in
  judge (zz_eqb (mtvrp_demand ratio ul ub r) (ol, ob))
        (((ob =? 0) && (1 <=? ol) && (ol <=? 9)) || ((ol =? 0) && (1 <=? ob) && (ob <=? 9))).

Definition row_eqb (a b : mtvrp_row) : bool :=
  Bool.eqb (r_open a) (r_open b) && list_eqb qoq_eqb (r_tw a) (r_tw b) && list_eqb Qeq_bool (r_svc a) (r_svc b) &&
  oq_eqb (r_limit a) (r_limit b) && list_eqb zz_eqb (r_dem a) (r_dem b).
(* how keep_mask was computed: 0 fixed preset (probabilities), 1 one-hot over 5 (index), 2 one-hot over 6 (index),
   3 combinations (uniform draws, probabilities) *)
Definition keep_of (kind : nat) (idx : nat) (u p : Q * Q * Q * Q) : keep4 :=
  match kind with O => keep_fixed p | S O => keep_onehot5 idx | S (S O) => keep_onehot6 idx | _ => keep_comb u p end.
Definition check_mtvrp_sub (c : nat * nat * (Q * Q * Q * Q) * (Q * Q * Q * Q) * mtvrp_row * mtvrp_row) : Z :=
  let '(kind, idx, u, p, r0, obs) := c in
  if row_eqb (subsample (keep_of kind idx u p) r0) obs then 0 else 1.
(* expected features of a row, from the NAME of the preset (decoded by the harness, independently of the table):
   (O, TW, L, B) -- checked on the implementation's row *)
Definition check_mtvrp_features (c : keep4 * mtvrp_row) : Z :=
  let '((kO, kTW, kL, kB), r) := c in
  let custs := tl (r_tw r) in
  let has_tw := forallb (fun tw => match snd tw with Some _ => true | None => false end) custs in
  let no_tw := forallb (fun tw => match snd tw with Some _ => false | None => Qeq_bool (fst tw) 0 end) (r_tw r)
               && forallb (fun s => Qeq_bool s 0) (r_svc r) in
  let has_l := match r_limit r with Some _ => true | None => false end in
  let no_b := forallb (fun lb => snd lb =? 0) (r_dem r) in
  if negb (Bool.eqb (r_open r) kO) then 6
  else if negb (if kTW then has_tw else no_tw) then 6
  else if negb (Bool.eqb has_l kL) then 6
  else if negb kB && negb no_b then 6
  else if negb (forallb (fun lb => (fst lb =? 0) || (snd lb =? 0)) (r_dem r)) then 6 else 0.
(* solvability of a generated row: (capacity, speed, per customer distance to the depot, row) *)
Definition check_mtvrp_prop (c : Z * Q * list Q * mtvrp_row) : Z :=
  let '(cp, speed, ds, r) := c in
  let Tend := snd (hd (0%Q, None) (r_tw r)) in
  let n := length ds in
  if negb ((length (r_tw r) =? S n)%nat && (length (r_svc r) =? S n)%nat && (length (r_dem r) =? S n)%nat) then 12
  else if forallb (fun j => mtvrp_customer_okb cp (r_open r) speed (r_limit r) Tend (nth j ds 0%Q)
                              (nth (S j) (r_tw r) (0%Q, None)) (nth (S j) (r_svc r) 0%Q) (nth (S j) (r_dem r) (0, 0))
                            && (0 <? fst (nth (S j) (r_dem r) (0, 0)) + snd (nth (S j) (r_dem r) (0, 0))))
                  (seq 0 n) then 0 else 6.

(* ------------------------------------------------------------------ OP *)
(* prize_type "dist": (distances to the depot, observed prizes in hundredths) *)
Definition check_op_dist (c : list Q * list Z) : Z :=
  let '(ds, obs) := c in
  let dmax := match ds with [] => 0%Q | d0 :: r => qmaxl d0 r end in
  judge (list_eqb Z.eqb (map (fun d => op_prize_dist d dmax) ds) obs)
        (forallb (fun p => (1 <=? p) && (p <=? 100)) obs && existsb (fun p => p =? 100) obs).

(* prize_type "unif": (randint draws, observed prizes x100);  "const": (num_loc, observed prizes x100) *)
Definition check_op_unif (c : list Z * list Z) : Z :=
  let '(ks, obs) := c in
  judge (list_eqb Z.eqb (op_prizes_unif ks) obs) (forallb (fun p => (1 <=? p) && (p <=? 100)) obs && (length obs =? length ks)%nat).
Definition check_op_const (c : nat * list Z) : Z :=
  let '(n, obs) := c in judge (list_eqb Z.eqb (op_prizes_const n) obs) (forallb (fun p => p =? 100) obs && (length obs =? n)%nat).
(* property on a generated row: ptype 0 const / 1 unif / 2 dist; prizes as exact rationals of the float32 values:
   1/100 <= p <= 1 (up to tol), const: all exactly 1, dist: the largest prize is exactly 1, and 100 p is an integer up to tol *)
Definition near_hundredth (tol p : Q) : bool :=
  let k := Qfloor (p * 100 + (1 # 2)) in q_close tol (p * 100) (inject_Z k).
Definition check_op_prop (c : nat * Q * list Q) : Z :=
  let '(ptype, tol, ps) := c in
  if negb (forallb (fun p => Qle_bool ((1 # 100) - tol) p && Qle_bool p 1 && near_hundredth (tol * 100) p) ps) then 6
  else match ptype with
       | O => if forallb (fun p => Qeq_bool p 1) ps then 0 else 6
       | S O => 0
       | _ => if existsb (fun p => Qeq_bool p 1) ps then 0 else 6
       end.

(* ------------------------------------------------------------------ PCTSP / SPCTSP, TSP, mTSP, MDCPDP *)
(* PCTSP on chosen draws: (tol, num_loc, max_penalty override, penalty_factor, observed generator.max_penalty,
   draws (rp, rd, rs) per customer, observed (penalty, deterministic_prize, stochastic_prize) per customer) *)
Definition check_pctsp (c : Q * Z * option Q * Q * Q * list (Q * Q * Q) * list (Q * Q * Q)) : Z :=
  let '(tol, n, ovr, factor, omax, draws, obs) := c in
  let mp := pctsp_max_penalty ovr n factor in
  let model := map (fun t => let '(rp, rd, rs) := t in (pctsp_penalty mp rp, pctsp_det n rd, pctsp_sto n rd rs)) draws in
  let close3 a b := let '(a1, a2, a3) := a in let '(b1, b2, b3) := b in q_close tol a1 b1 && q_close tol a2 b2 && q_close tol a3 b3 in
  judge (q_close tol mp omax && list_eqb close3 model obs)
        (Qle_bool 0 omax && (length obs =? length draws)%nat &&
         forallb (fun o => let '(p, dp, sp) := o in
                    Qle_bool 0 p && Qle_bool p (omax + tol) && Qle_bool 0 dp && Qle_bool dp (4 / inject_Z n + tol)
                    && Qle_bool 0 sp && Qle_bool sp (2 * dp + tol)) obs).
(* generated rows, scaled integers, judged by the environments' own predicates *)
Definition check_pctsp_prop (c : bool * Z * Z * list Z * list Z * list Z) : Z :=
  let '(st, sc, maxpen, dp, sp, pn) := c in
  let i := {| PCTSP.dprize := dp; PCTSP.sprize := sp; PCTSP.stoch := st; PCTSP.pen := pn; PCTSP.pdist := []; PCTSP.preq := sc; PCTSP.pthr := sc |} in
  if negb (PCTSPProofs.pctsp_wfb i) then 12
  else if forallb (fun x => 0 <=? x) (dp ++ sp ++ pn) && forallb (fun x => x <=? maxpen) pn then 0 else 6.
Definition check_tsp_prop (c : list (list Z)) : Z := if TSPProofs.tsp_wfb (gen_tsp c) then 0 else 12.
Definition check_mtsp_prop (c : Z * Z * Z * list (list Z)) : Z :=
  let '(lo, hi, k, D) := c in
  let i := gen_mtsp k D in
  if negb (MTSPProofs.mtsp_wfb i) then 12 else if (lo <=? k) && (k <=? hi) && MTSPProofs.mtsp_solvableb i then 0 else 6.
(* MDCPDP: (num_loc argument, num_depot, min_capacity, max_capacity, capacity row, distance matrix, one, lateness weight) *)
Definition check_mdcpdp_prop (c : nat * nat * Z * Z * list Z * list (list Z) * Z * Z) : Z :=
  let '(n, nd, lo, hi, cps, D, one, lw) := c in
  match cps with
  | [cp] =>
      let i := gen_mdcpdp n nd cp D one lw false 0 in
      if negb (MDCPDPDefs.md_wfb i) then 12
      else if MDCPDPDefs.md_solvableb i && (lo <=? cp) && (cp <=? hi) then 0 else 6
  | _ => 12
  end.

(* ------------------------------------------------------------------ SVRP / PDP *)
Definition check_svrp (c : list Q * list Q * list Q * list Q) : Z :=
  let '(raw, us, otechs, oskills) := c in
  let techs := svrp_techs raw in
  judge (list_eqb Qeq_bool techs otechs && list_eqb Qeq_bool (svrp_skills techs us) oskills)
        (svrp_solvableb otechs oskills && (length otechs =? length raw)%nat && (length oskills =? length us)%nat).
Definition check_svrp_prop (c : list Q * list Q) : Z :=
  let '(techs, skills) := c in if svrp_solvableb techs skills then 0 else 6.
Definition check_pdp (c : Z * Z) : Z := let '(n, obs) := c in if pdp_num_loc n =? obs then 0 else 1.

Example check_routing_ex :
  check_table (0%nat, 17, 25) = 0 /\ check_table (2%nat, 2000, 260) = 0 /\ check_table (1%nat, 30, 2) = 0 /\
  check_cvrp (17, None, 1, 10, [0; 35 # 4]%Q, [1; 9], 25) = 0 /\
  check_cvrp (17, None, 1, 11, [0; 9]%Q, [1; 10], 25) = 0 /\
  check_cvrp (20, Some 5, 1, 10, [8]%Q, [9], 5) = 6 /\
  check_cvrptw (480%Q, [((101 # 2), 0, 0, 0)]%Q, [(0, 480); (49, 50)]) = 16 /\
  check_cvrptw (480%Q, [((101 # 2), 0, (1 # 1000), (2 # 1000))]%Q, [(0, 480); (50, 51)]) = 0 /\
  check_cvrptw (480%Q, [(300, 0, (1 # 4), (1 # 2))]%Q, [(0, 480); (240, 270)]) = 6 /\
  check_pdp (7, 8) = 0.
Proof. vm_compute. repeat split. Qed.
