(* C14 correspondence: the shape programs of Decoding/Shapes.v evaluated on the cases observed on the real
   rl4co modules.  Result codes: 0 agree; 1 the layout table differs from the real TensorDict on a modelled key;
   2 the output shape / "raises" differs; 3 the registry maps the environment to another class. *)
From Coq Require Import String.
From Coq Require Import List Arith Bool ZArith.
From RL4CO Require Import Decoding.Shapes.
Import ListNotations.
Open Scope string_scope.
Open Scope list_scope.
Open Scope nat_scope.

Definition eq_oshape (a b : option shape) : bool :=
  match a, b with
  | None, None => true
  | Some x, Some y => eq_shape x y
  | _, _ => false
  end.
Fixpoint eq_shapes (a b : list shape) : bool :=
  match a, b with
  | [], [] => true
  | x :: a', y :: b' => eq_shape x y && eq_shapes a' b'
  | _, _ => false
  end.
Definition eq_oshapes (a b : option (list shape)) : bool :=
  match a, b with
  | None, None => true
  | Some x, Some y => eq_shapes x y
  | _, _ => false
  end.

(* every key of the model layout is present in the observed TensorDict with the same shape *)
Definition layout_agrees (model observed : layout) : bool :=
  forallb (fun kv => eq_oshape (Some (snd kv)) (get observed (fst kv))) model.

Definition ctx_class_eqb (a b : ctx_class) : bool :=
  match a, b with
  | CEnvContext, CEnvContext | CFFSPContext, CFFSPContext | CTSPContext, CTSPContext | CVRPContext, CVRPContext
  | CVRPTWContext, CVRPTWContext | CSVRPContext, CSVRPContext | CPCTSPContext, CPCTSPContext | COPContext, COPContext
  | CDPPContext, CDPPContext | CPDPContext, CPDPContext | CMTSPContext, CMTSPContext | CSMTWTPContext, CSMTWTPContext
  | CMDCPDPContext, CMDCPDPContext | CSchedulingContext, CSchedulingContext | CMTVRPContext, CMTVRPContext => true
  | _, _ => false
  end.
Definition dyn_class_eqb (a b : dyn_class) : bool :=
  match a, b with DStatic, DStatic | DSDVRP, DSDVRP | DJSSP, DJSSP => true | _, _ => false end.
Definition init_class_eqb (a b : init_class) : bool :=
  match a, b with
  | ITSP, ITSP | IMatNet, IMatNet | IVRP, IVRP | IVRPTW, IVRPTW | ISVRP, ISVRP | IPCTSP, IPCTSP | IOP, IOP | IDPP, IDPP
  | IMDPP, IMDPP | IPDP, IPDP | IMTSP, IMTSP | ISMTWTP, ISMTWTP | IMDCPDP, IMDCPDP | IJSSP, IJSSP | IFJSP, IFJSP
  | IFJSPMatNet, IFJSPMatNet | IMTVRP, IMTVRP => true
  | _, _ => false
  end.

Definition mkd (B S N M O : nat) : dims := {| dB := B; dS := S; dN := N; dM := M; dO := O |}.

(* context module run on the TensorDict of environment e.  via_registry: the class is the one the real
   env_context_embedding(e) returned (compared with ctx_registry); otherwise the class was constructed directly. *)
Record ctx_case := {
  cc_env : env_name; cc_cls : ctx_class; cc_via_registry : bool; cc_stepped : bool; cc_first : bool;
  cc_dims : dims; cc_H : nat; cc_emb : shape; cc_td : layout; cc_out : option shape }.
Definition check_ctx (c : ctx_case) : Z :=
  let model_td := env_layout (cc_env c) (cc_stepped c) (cc_dims c) in
  if cc_via_registry c && negb (match ctx_registry (cc_env c) with Some k => ctx_class_eqb k (cc_cls c) | None => false end) then 3%Z
  else if negb (layout_agrees model_td (cc_td c)) then 1%Z
  else if negb (eq_oshape (ctx_forward (cc_cls c) (cc_H c) (cc_emb c) (bsz (cc_dims c)) model_td (cc_first c)) (cc_out c)) then 2%Z
  else 0%Z.

(* AttentionModelDecoder._compute_q on the same inputs *)
Record q_case := {
  qc_env : env_name; qc_stepped : bool; qc_first : bool; qc_dims : dims; qc_H : nat; qc_gc : bool; qc_out : option shape }.
Definition check_q (c : q_case) : Z :=
  if eq_oshape (q_out (qc_env c) (qc_stepped c) (qc_first c) (qc_dims c) (qc_H c) (qc_gc c)) (qc_out c) then 0%Z else 2%Z.

Record dyn_case := {
  dc_env : env_name; dc_cls : dyn_class; dc_dims : dims; dc_H : nat; dc_ma : shape; dc_td : layout;
  dc_out : option (list shape) }.
Definition check_dyn (c : dyn_case) : Z :=
  let model_td := env_layout (dc_env c) true (dc_dims c) in
  if negb (dyn_class_eqb (dyn_registry (dc_env c)) (dc_cls c)) then 3%Z
  else if negb (match dc_cls c with DStatic => true | _ => layout_agrees model_td (dc_td c) end) then 1%Z
  else if negb (eq_oshapes (dyn_forward (dc_cls c) (dc_H c) (dc_ma c) model_td) (dc_out c)) then 2%Z
  else 0%Z.

Record init_case := {
  ic_env : env_name; ic_cls : init_class; ic_via_registry : bool; ic_dims : dims; ic_H : nat; ic_td : layout;
  ic_out : option (list shape) }.
Definition check_init (c : init_case) : Z :=
  let model_td := env_layout (ic_env c) false (ic_dims c) in
  if ic_via_registry c && negb (match init_registry (ic_env c) with Some k => init_class_eqb k (ic_cls c) | None => false end) then 3%Z
  else if negb (layout_agrees model_td (ic_td c)) then 1%Z
  else if negb (eq_oshapes (init_forward (ic_cls c) (ic_H c) model_td) (ic_out c)) then 2%Z
  else 0%Z.

(* the first-step test: step counters of the rows of a batch; observed = per row, "was treated as first step" *)
Definition check_first (c : list nat * list bool) : Z :=
  let (is_, obs) := c in
  if forallb (fun p => Bool.eqb (fst p) (snd p)) (combine (map (fun _ => first_step_coded is_) is_) obs)
     && (length obs =? length is_) then 0%Z else 2%Z.

(* MTSPEnv._get_reward (minmax) on a finished batch of B rows: observed shape of the returned reward *)
Definition check_mtsp_reward (c : nat * option shape) : Z :=
  if eq_oshape (mtsp_minmax_reward_shape (fst c)) (snd c) then 0%Z else 2%Z.

Example ex_check_ctx :
  check_ctx {| cc_env := Ecvrp; cc_cls := CVRPContext; cc_via_registry := true; cc_stepped := true; cc_first := false;
               cc_dims := mkd 2 0 5 0 0; cc_H := 8; cc_emb := [2; 6; 8];
               cc_td := [("current_node", [2; 1]); ("used_capacity", [2; 1]); ("vehicle_capacity", [2; 1]);
                         ("locs", [2; 6; 2]); ("demand", [2; 5]); ("extra", [2])];
               cc_out := Some [2; 8] |} = 0%Z.
Proof. reflexivity. Qed.
Example ex_check_ctx_detects :
  check_ctx {| cc_env := Emtsp; cc_cls := CMTSPContext; cc_via_registry := true; cc_stepped := true; cc_first := false;
               cc_dims := mkd 1 0 5 0 0; cc_H := 8; cc_emb := [1; 5; 8];
               cc_td := env_layout Emtsp true (mkd 1 0 5 0 0); cc_out := None |} = 2%Z.   (* the pre-81bfd82 crash would be seen *)
Proof. reflexivity. Qed.
Example ex_check_first : check_first ([0; 1; 1], [true; true; true]) = 0%Z /\ check_first ([0; 1], [true; false]) = 2%Z.
Proof. split; reflexivity. Qed.
