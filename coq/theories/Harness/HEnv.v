(* Generic part of the correspondence harness for constructive environments: checks on recorded
   implementation traces that do not depend on a particular model. *)
From Coq Require Import ZArith List Bool Lia Arith.
From RL4CO Require Import Base.Num Base.EnvSig.
Import ListNotations.
Open Scope Z_scope.

(* C02 on the implementation's own observables: every mask seen (also by finished rows) has a True,
   a finished row stays finished, the row finishes within [bound] steps.
   codes: 1000*k+8 empty mask at step k, 1000*k+9 done -> not done at step k, 10 bound exceeded, 11 final mask empty *)
Fixpoint c02_steps (k : Z) (was_done : bool) (tr : list tstep) : Z :=
  match tr with
  | [] => 0
  | (m, a, d) :: rest =>
      if negb (anyb m) then 1000 * k + 8
      else if was_done && negb d then 1000 * k + 9
      else c02_steps (k + 1) d rest
  end.
Fixpoint steps_until_done (tr : list tstep) : nat :=
  match tr with
  | [] => 0
  | (m, a, d) :: rest => if d then 1 else S (steps_until_done rest)
  end.
Definition c02_impl (bound : nat) (tr : list tstep) (final_mask : list bool) : Z :=
  let r := c02_steps 1 false tr in
  if negb (r =? 0) then r
  else if Nat.ltb bound (steps_until_done tr) then 10
  else if negb (anyb final_mask) then 11 else 0.

Definition zabs_le (a b tol : Z) : bool := Z.abs (a - b) <=? tol.
