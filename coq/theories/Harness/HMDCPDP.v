(* Correspondence harness for MDCPDP (C01-C05): the faithful model ([as_is]) at float32 rounding against recorded
   traces, and the independent specification evaluated on the implementation's own episodes.  When the
   specification fails on an episode, the code says WHICH of the known mechanisms explains the failure (by
   re-running the model with the corresponding repairs); anything unexplained keeps the plain tag. *)
From Coq Require Import ZArith List Bool Lia Arith.
From RL4CO Require Import Base.Num Base.EnvSig Spec.MultiDepotPD Env.MDCPDP Env.MDCPDPDefs Harness.HEnv Harness.HBook.
Import ListNotations.
Open Scope Z_scope.

(* instance, trace, final mask, (impl reward, tolerance), episode complete?, checker accepted? (unused: no checker) *)
Definition md_case := (md_inst * list tstep * list bool * (Z * Z) * bool * bool)%type.

Definition mk_md (nd_ nl : nat) (cp : list Z) (m : list (list Z)) (st_ : nat) (op : bool) (md_ : nat) (on w : Z)
                 (so : bool) (l0 : list Z) : md_inst :=
  {| ndep := nd_; nloc := nl; caps := cp; dist := m; start := st_; opn := op; mode := md_; one := on; lw := w;
     solo := so; legs0 := l0 |}.

Definition c_inst (c : md_case) := match c with (i, _, _, _, _, _) => i end.
Definition c_trace (c : md_case) := match c with (_, t, _, _, _, _) => t end.
Definition c_final (c : md_case) := match c with (_, _, f, _, _, _) => f end.
Definition c_rew (c : md_case) := match c with (_, _, _, r, _, _) => r end.
Definition c_complete (c : md_case) := match c with (_, _, _, _, b, _) => b end.

(* actions up to and including the step at which the row first reported done (the episode proper) *)
Fixpoint md_episode (tr : list tstep) : list nat :=
  match tr with
  | [] => []
  | (m, a, d) :: rest => if d then [a] else a :: md_episode rest
  end.

(* WHICH CODE the correspondence compares with: the code as it is.  After the repairs have been applied to
   rl4co/envs/routing/mdcpdp/env.py this single definition becomes [repaired] (or the record of the repairs applied);
   the full-strength theorems for [repaired] are already proved (Properties/C0x_mdcpdp.v). *)
Definition current_code : mdfix := repaired.  (* /repo carries the four MDCPDP "fix:" commits since 2026-10-01 *)

Section Checks.
Variable CF : mdfix.
Notation EF := (MDCPDP f32 CF).

(* ---- what survives of the specification under the known defects (evaluated, not proved) ---- *)
(* (1) whatever the code takes for the number of depots: every node is visited, the nodes it takes for customers once *)
Definition weak_visits (i : md_inst) (acts : list nat) : bool :=
  forallb (fun j => Nat.eqb (occ j acts) 1) (seq (nd CF i) (nn i - nd CF i)) &&
  forallb (fun j => Nat.leb 1 (occ j acts)) (seq 0 (nd CF i)) &&
  forallb (fun a => Nat.ltb a (nn i)) acts.
(* (2) the depot count is right but current_depot never leaves the start depot: every vehicle "comes home" to the
   start depot and is loaded up to the start depot's capacity.  Re-homing those returns gives a feasible solution. *)
Fixpoint rehome (st_ nd_ : nat) (cur : option nat) (acts : list nat) : list nat :=
  match acts with
  | [] => []
  | a :: r =>
      if Nat.ltb a nd_ then
        match cur with
        | Some e => if Nat.eqb a st_ then e :: rehome st_ nd_ None r else a :: rehome st_ nd_ cur r
        | None => a :: rehome st_ nd_ (Some a) r
        end
      else a :: rehome st_ nd_ cur r
  end.
Definition weak_rehomed (i : md_inst) (acts : list nat) : bool :=
  md_feasibleb (ndep i) (hh i) (fun _ => vcap i (start i)) (rehome (start i) (ndep i) None acts).

(* C01: implementation masks inside model masks, done equal; specification on the completed episode.
   6 = infeasible and unexplained; 1006 = explained by the depot count taken from the capacity columns;
   2006 = explained by the current depot never switching *)
Definition check_C01_with (c : md_case) : Z :=
  let i := c_inst c in
  let r := check_trace (E:=EF) i 0 (c_trace c) in
  let spec :=
    if negb (c_complete c) then 0
    else let ep := md_episode (c_trace c) in
         if spec_feasibleb i ep then 0
         else if negb (Nat.eqb (nd CF i) (ndep i)) then (if weak_visits i ep then 1006 else 6)
         else if negb (md_good CF i) then (if weak_rehomed i ep then 2006 else 6)
         else 6 in
  if spec =? 6 then 6                    (* infeasible and not explained by a known mechanism: a concrete failure *)
  else if negb (r =? 0) then r
  else spec.

(* C02: on the implementation's observables (bound: nodes + depots - 1, with the depot count the code uses), then
   mask/done equality with the model *)
Definition hbound (i : md_inst) : nat := (nn i + nd CF i - 1)%nat.
Definition check_C02_with (c : md_case) : Z :=
  let i := c_inst c in
  let r := c02_impl (hbound i) (c_trace c) (c_final c) in
  if negb (r =? 0) then r
  else if negb (c_complete c) then 12
  else check_trace (E:=EF) i 2 (c_trace c).

(* C03: (a) the faithful model reproduces the reported reward (5 otherwise); (b) the reward equals the objective of
   the episode proper.  When (b) fails, k = 1 (final return leg missing) + 2 (row 0's legs accumulated) +
   4 (lengths booked on the start depot) names the smallest set of repairs after which the model's reward IS the
   objective: code 1000*k + 4; k = 0: unexplained. *)
Definition fixes (sw lg rt : bool) : mdfix :=
  {| fx_nd := fx_nd CF; fx_switch := fx_switch CF || sw; fx_leg := fx_leg CF || lg; fx_ret := fx_ret CF || rt; fx_sq := fx_sq CF |}.
Definition model_reward (F : mdfix) (i : md_inst) (acts : list nat) : option Z :=
  md_reward f32 F i (run (E:=MDCPDP f32 F) i acts).
Definition close_to (tol : Z) (a : option Z) (b : Z) : bool :=
  match a with Some x => zabs_le x b tol | None => false end.

Definition check_C03_with (c : md_case) : Z :=
  let i := c_inst c in
  if negb (c_complete c) then 0
  else
    let full := trace_actions (c_trace c) in
    let ep := md_episode (c_trace c) in
    let sc := if Nat.eqb (mode i) 3 then one i * one i else one i in      (* units of md_reward, see Spec/MultiDepotPD.v *)
    let tol := sc * snd (c_rew c) in
    let r := sc * fst (c_rew c) in
    let model_ok := close_to tol (model_reward CF i full) r in
    match spec_objective i ep with
    | None => if model_ok then 0 else 5        (* not a solution at all: C01's business *)
    | Some ob =>
        if zabs_le r ob tol then (if model_ok then 0 else 5)
        else if negb model_ok then 4             (* wrong, and not in the way the faithful model is wrong: unexplained *)
        else
          let try := fun sw lg =>
            if close_to tol (model_reward (fixes sw lg true) i ep) ob
            then Some ((if close_to tol (model_reward (fixes sw lg false) i full) ob then 0 else 1)
                       + (if lg then 2 else 0) + (if sw then 4 else 0))
            else None in
          match try false false with Some k => 1000 * k + 4 | None =>
          match try false true with Some k => 1000 * k + 4 | None =>
          match try true false with Some k => 1000 * k + 4 | None =>
          match try true true with Some k => 1000 * k + 4 | None => 4 end end end end
    end.

(* C05: model masks inside implementation masks *)
Definition check_C05_with (c : md_case) : Z := check_trace (E:=EF) (c_inst c) 1 (c_trace c).

End Checks.

Definition check_C01 := check_C01_with current_code.
Definition check_C02 := check_C02_with current_code.
Definition check_C03 := check_C03_with current_code.
Definition check_C05 := check_C05_with current_code.

(* evaluated on every generated instance: inside the documented format? solvable? *)
Definition check_wf (c : md_case) : Z :=
  (if md_wfb (c_inst c) then 0 else 1) + (if md_solvableb (c_inst c) then 0 else 2).

(* ---------------------------------------------------------------- bookkeeping (C02 / C04, see Harness/HBook.v)
   keys of the env's step output compared after every step, in this order:
   i (= number of steps taken), current_node (= the action just taken), current_depot, current_carry,
   available (bit j = node j), to_deliver (bit j = node j), current_length (one entry per depot),
   arrivetime_record (one entry per node) *)
Definition book_obs (s : md_st) : list Z :=
  [Z.of_nat (stepi s); Z.of_nat (node s); Z.of_nat (depot s); carry s; bitsZ (avail s); bitsZ (todel s)] ++ lens s ++ arr s.
Definition book_kinds : list nat := [1; 2; 0; 0; 0; 0]%nat.      (* the remaining entries have no model-free meaning *)
Definition md_book := (md_inst * list Z * list Z * list (nat * list Z))%type.
Definition check_book_with (CF : mdfix) (c : md_book) : Z :=
  match c with (i, tols, o0, tr) => book_check (MDCPDP f32 CF) i book_obs book_kinds tols o0 tr end.
Definition check_book := check_book_with current_code.
