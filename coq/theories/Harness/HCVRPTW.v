(* Correspondence harness for CVRPTW (C01-C06): the model at float32 rounding ([f32]) against recorded traces,
   and the exact specification evaluated on the implementation's own episodes. *)
From Coq Require Import ZArith List Bool Lia Arith.
From RL4CO Require Import Base.Num Base.EnvSig Spec.Routes Spec.TimeWindows Env.CVRP Env.CVRPProofs Env.CVRPTW Env.CVRPTWProofs
  Harness.HEnv Harness.HCVRP.
Import ListNotations.
Open Scope Z_scope.

(* instance, trace, final mask, (impl reward, tolerance), episode complete?, checker accepted? *)
Definition cvrptw_case := (cvrptw_inst * list tstep * list bool * (Z * Z) * bool * bool)%type.
Definition mk_cvrptw (b : cvrp_inst) (l h d : list Z) (u z s : Z) : cvrptw_inst :=
  {| base := b; twlo := l; twhi := h; durs := d; tu := u; hz0 := z; tsl := s |}.

Definition t_inst (c : cvrptw_case) := match c with (i, _, _, _, _, _) => i end.
Definition t_trace (c : cvrptw_case) := match c with (_, t, _, _, _, _) => t end.
Definition t_final (c : cvrptw_case) := match c with (_, _, f, _, _, _) => f end.
Definition t_rew (c : cvrptw_case) := match c with (_, _, _, r, _, _) => r end.
Definition t_complete (c : cvrptw_case) := match c with (_, _, _, _, b, _) => b end.
Definition t_checker (c : cvrptw_case) := match c with (_, _, _, _, _, b) => b end.

(* the part of the specification that holds without the "vehicle can return from every deadline" format bound:
   everything except the return leg of the last route *)
Definition cvrptw_feasible_coreb (i : cvrptw_inst) (csl sl : Z) (acts : list nat) : bool :=
  let rs := routes acts in
  cvrp_feasibleb (base i) csl acts &&
  forallb (route_times_okb (dd i) (lo i) (hi i) (du i) sl 0%nat 0) (removelast rs) &&
  starts_okb (dd i) (lo i) (hi i) (du i) sl 0%nat 0 (last rs []).

(* A row whose mask is empty (dead end: only on instances outside C02's solvability hypothesis) cannot take an offered
   action; the recorded trace is compared up to that state, where the model's mask must be related in the same way. *)
Fixpoint split_dead (tr : list tstep) : list tstep * option (list bool) :=
  match tr with
  | [] => ([], None)
  | (m, a, d) :: r => if anyb m then let (p, o) := split_dead r in ((m, a, d) :: p, o) else ([], Some m)
  end.
Definition check_trace_de (A : arith) (i : cvrptw_inst) (mode : nat) (tr : list tstep) : Z :=
  let (p, o) := split_dead tr in
  let r := check_trace (E:=CVRPTW A) i mode p in
  if negb (r =? 0) then r
  else match o with
       | None => 0
       | Some m => if mask_rel mode m (mask (CVRPTW A) i (run (E:=CVRPTW A) i (trace_actions p))) then 0
                   else 1000 * (Z.of_nat (length p) + 1) + 1
       end.

(* 20 = instance outside the documented format (reported by the harness as "outside the theorem", not a failure) *)
Definition check_wf (c : cvrptw_case) : Z := if cvrptw_wfb (t_inst c) then 0 else 20.

(* C01: implementation masks inside model masks, done equal; specification holds on the completed episode.
   code 6 = the independent feasibility predicate is false on the implementation's own episode *)
Definition check_C01 (c : cvrptw_case) : Z :=
  let i := t_inst c in
  let dead := match snd (split_dead (t_trace c)) with Some _ => true | None => false end in
  (* the property itself, on the implementation's own episode (complete, mask-confined, instance in the format):
     judged first, so that a model/implementation disagreement cannot hide it *)
  let spec_ok :=
    if negb (t_complete c) || negb (cvrptw_wfb i) || dead then true
    else let acts := episode_actions (t_trace c) in
         if cvrptw_returnb i then cvrptw_feasibleb i (tol (base i)) (tsl i) acts
         else cvrptw_feasible_coreb i (tol (base i)) (tsl i) acts in
  if negb spec_ok then 6 else check_trace_de f32 i 0 (t_trace c).

(* C02: on the implementation's observables (for solvable instances: the theorem's hypothesis), then mask/done
   equality with the model *)
Definition check_C02 (c : cvrptw_case) : Z :=
  let i := t_inst c in
  let solv := cvrptw_wfb i && cvrptw_solvableb i in
  let r := if solv then c02_impl (2 * tn_of i + 1) (t_trace c) (t_final c) else 0 in
  if negb (r =? 0) then r
  else if solv && negb (t_complete c) then 12
  else check_trace_de f32 i 2 (t_trace c).

(* C03: reported reward against the route-wise objective recomputed from instance data and actions *)
Definition check_C03 (c : cvrptw_case) : Z :=
  if negb (t_complete c) then 0
  else if zabs_le (fst (t_rew c)) (cvrp_objective (base (t_inst c)) (trace_actions (t_trace c))) (snd (t_rew c)) then 0 else 4.

(* C05: model masks inside implementation masks *)
Definition check_C05 (c : cvrptw_case) : Z := check_trace_de f32 (t_inst c) 1 (t_trace c).

(* C06: model of the checker agrees with the implementation's verdict (13); the verdict agrees with the
   specification: feasible => accepted (14), infeasible beyond the tolerance => rejected (15).
   1000 + code: the wrong verdict is the one the MODEL of the shipped checker predicts and the repaired checker would
   decide correctly, i.e. the mechanism is the truncation of arrival times (1015) resp. the use of batch row 0's
   horizon (1014); any other wrong verdict keeps the plain code.  The property's own failure (14/15, judged on the
   implementation's verdict alone) takes precedence over a model/implementation disagreement (13). *)
Definition c06_code (fx : bool) (i : cvrptw_inst) (acts : list nat) (verdict : bool) : Z :=
  let m := cvrptw_checker f32 fx i acts in                     (* the model of the checker the code is said to contain *)
  let inscope := cvrptw_wfb i && cvrptw_returnb i in           (* hypotheses of the theorems *)
  let v14 := inscope && cvrptw_strictb i && cvrptw_feasibleb i 0 0 acts && negb verdict in
  let v15 := inscope && negb (cvrptw_feasibleb i (3 * tol (base i)) (tsl i) acts) && verdict in
  if v14 then (if negb m && cvrptw_checker f32 true i acts then 1014 else 14)
  else if v15 then (if m && negb (cvrptw_checker f32 true i acts) then 1015 else 15)
  else if negb (Bool.eqb m verdict) then 13
  else 0.

(* [check_C06]: against the checker as shipped (.int() truncation, row 0's horizon).  [check_C06_fixed]: against the
   repaired checker; the adapter (vt/envs/cvrptw.py, CHECKER_FIXED) names the one that corresponds to the code. *)
Definition check_C06 (c : cvrptw_case) : Z := c06_code false (t_inst c) (trace_actions (t_trace c)) (t_checker c).
Definition check_C06_fixed (c : cvrptw_case) : Z := c06_code true (t_inst c) (trace_actions (t_trace c)) (t_checker c).

(* a solution given directly as an action list (hand-built or corrupted), with the implementation's verdict *)
Definition check_C06_sol (c : cvrptw_inst * list nat * bool) : Z :=
  match c with (i, acts, verdict) => c06_code false i acts verdict end.
Definition check_C06_sol_fixed (c : cvrptw_inst * list nat * bool) : Z :=
  match c with (i, acts, verdict) => c06_code true i acts verdict end.

(* evidence bookkeeping: bit 0 documented format, bit 1 solvable (C02's hypothesis), bit 2 "vehicle can return from every
   deadline", bit 3 strict windows + symmetric depot legs (the checker's instance assertions) *)
Definition instance_class (i : cvrptw_inst) : Z :=
  (if cvrptw_wfb i then 1 else 0) + (if cvrptw_solvableb i then 2 else 0) +
  (if cvrptw_returnb i then 4 else 0) + (if cvrptw_strictb i then 8 else 0).
