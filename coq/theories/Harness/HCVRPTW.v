(* Correspondence harness for CVRPTW (C01-C06): the model at float32 rounding ([f32]) against recorded traces,
   and the exact specification evaluated on the implementation's own episodes. *)
From Coq Require Import ZArith List Bool Lia Arith.
From RL4CO Require Import Base.Num Base.EnvSig Spec.Routes Spec.TimeWindows Env.CVRP Env.CVRPProofs Env.CVRPTW Env.CVRPTWProofs
  Harness.HEnv Harness.HCVRP Harness.HBook.
Import ListNotations.
Open Scope Z_scope.

(* instance, trace, final mask, (impl reward, tolerance), episode complete?, checker accepted? *)
Definition cvrptw_case := (cvrptw_inst * list tstep * list bool * (Z * Z) * bool * bool)%type.
Definition mk_cvrptw (b : cvrp_inst) (l h d : list Z) (u z s : Z) : cvrptw_inst :=
  {| base := b; twlo := l; twhi := h; durs := d; tu := u; hz0 := z; tsl := s |}.

Definition t_inst (c : cvrptw_case) := match c with (i, _, _, _, _, _) => i end.
Definition t_trace (c : cvrptw_case) := match c with (_, t, _, _, _, _) => t end.
Definition t_final (c : cvrptw_case) := match c with (_, _, f, _, _, _) => f end.
Definition t_rew (c : cvrptw_case) := match c with (_, _, _, r, _, _) => r end.
Definition t_complete (c : cvrptw_case) := match c with (_, _, _, _, b, _) => b end.
Definition t_checker (c : cvrptw_case) := match c with (_, _, _, _, _, b) => b end.

(* the part of the specification that holds without the "vehicle can return from every deadline" format bound:
   everything except the return leg of the last route *)
Definition cvrptw_feasible_coreb (i : cvrptw_inst) (csl sl : Z) (acts : list nat) : bool :=
  let rs := routes acts in
  cvrp_feasibleb (base i) csl acts &&
  forallb (route_times_okb (dd i) (lo i) (hi i) (du i) sl 0%nat 0) (removelast rs) &&
  starts_okb (dd i) (lo i) (hi i) (du i) sl 0%nat 0 (last rs []).

(* A row whose mask is empty (dead end: only on instances outside C02's solvability hypothesis) cannot take an offered
   action; the recorded trace is compared up to that state, where the model's mask must be related in the same way. *)
Fixpoint split_dead (tr : list tstep) : list tstep * option (list bool) :=
  match tr with
  | [] => ([], None)
  | (m, a, d) :: r => if anyb m then let (p, o) := split_dead r in ((m, a, d) :: p, o) else ([], Some m)
  end.
Definition check_trace_de (A : arith) (i : cvrptw_inst) (mode : nat) (tr : list tstep) : Z :=
  let (p, o) := split_dead tr in
  let r := check_trace (E:=CVRPTW A) i mode p in
  if negb (r =? 0) then r
  else match o with
       | None => 0
       | Some m => if mask_rel mode m (mask (CVRPTW A) i (run (E:=CVRPTW A) i (trace_actions p))) then 0
                   else 1000 * (Z.of_nat (length p) + 1) + 1
       end.

(* 20 = instance outside the documented format (reported by the harness as "outside the theorem", not a failure) *)
Definition check_wf (c : cvrptw_case) : Z := if cvrptw_wfb (t_inst c) then 0 else 20.

(* C01: implementation masks inside model masks, done equal; specification holds on the completed episode.
   code 6 = the independent feasibility predicate is false on the implementation's own episode *)
Definition check_C01 (c : cvrptw_case) : Z :=
  let i := t_inst c in
  let dead := match snd (split_dead (t_trace c)) with Some _ => true | None => false end in
  (* the property itself, on the implementation's own episode (complete, mask-confined, instance in the format):
     judged first, so that a model/implementation disagreement cannot hide it *)
  let spec_ok :=
    if negb (t_complete c) || negb (cvrptw_wfb i) || dead then true
    else let acts := episode_actions (t_trace c) in
         if cvrptw_returnb i then cvrptw_feasibleb i (tol (base i)) (tsl i) acts
         else cvrptw_feasible_coreb i (tol (base i)) (tsl i) acts in
  if negb spec_ok then 6 else check_trace_de f32 i 0 (t_trace c).

(* C02: on the implementation's observables (for solvable instances: the theorem's hypothesis), then mask/done
   equality with the model *)
Definition check_C02 (c : cvrptw_case) : Z :=
  let i := t_inst c in
  let solv := cvrptw_wfb i && cvrptw_solvableb i in
  let r := if solv then c02_impl (2 * tn_of i + 1) (t_trace c) (t_final c) else 0 in
  if negb (r =? 0) then r
  else if solv && negb (t_complete c) then 12
  else check_trace_de f32 i 2 (t_trace c).

(* C03: reported reward against the route-wise objective recomputed from instance data and actions *)
Definition check_C03 (c : cvrptw_case) : Z :=
  if negb (t_complete c) then 0
  else if zabs_le (fst (t_rew c)) (cvrp_objective (base (t_inst c)) (trace_actions (t_trace c))) (snd (t_rew c)) then 0 else 4.

(* C05: model masks inside implementation masks *)
Definition check_C05 (c : cvrptw_case) : Z := check_trace_de f32 (t_inst c) 1 (t_trace c).

(* ---------------------------------------------------------------- the checker's instance-sanity assertions, specification side
   What check_solution_validity documents about the INSTANCE before it looks at the solution (its five instance
   asserts, in exact arithmetic; [sl] = slack granted on the one assert that does arithmetic): distances from the depot,
   windows and service durations non-negative, every window of positive length, and "vehicle can perform service and get
   back to depot in time": window start + distance + duration within the depot's deadline.  An instance that fails it is
   outside the documented input format, whatever the solution: the checker must refuse it (23 otherwise). *)
Definition cvrptw_sanityb (i : cvrptw_inst) (sl : Z) : bool :=
  forallb (fun j => 0 <=? dd i 0 j) (nodes i) &&
  forallb (fun j => (0 <=? lo i j) && (0 <=? hi i j)) (nodes i) &&
  forallb (fun j => lo i j + dd i 0 j + du i j <=? hi i 0 + sl) (nodes i) &&
  forallb (fun j => 0 <=? du i j) (nodes i) &&
  forallb (fun j => lo i j <? hi i j) (nodes i).

Lemma forallb_eq_ext {X} (f g : X -> bool) (l : list X) : (forall x, f x = g x) -> forallb f l = forallb g l.
Proof. intros H. induction l as [|x l IH]; [reflexivity|]. cbn [forallb]. rewrite H, IH. reflexivity. Qed.

(* what the model's [inst_checks] (the five coded asserts) means: in exact arithmetic, for the repaired checker, it IS
   this sanity predicate *)
Lemma cvrptw_sanityb_is_inst_checks (i : cvrptw_inst) : cvrptw_sanityb i 0 = inst_checks exact true i.
Proof.
  unfold cvrptw_sanityb, inst_checks, horizon_used. cbn [rnd exact].
  rewrite (forallb_eq_ext (fun j => lo i j + dd i 0 j + du i j <=? hi i 0 + 0) (fun j => lo i j + dd i 0 j + du i j <=? hi i 0)).
  - reflexivity.
  - intros j. rewrite Z.add_0_r. reflexivity.
Qed.

(* an instance in the documented format (format + "a vehicle that starts service at the deadline can still return" +
   strict windows and symmetric depot legs) passes the sanity assertions: they never refuse an in-format instance *)
Lemma cvrptw_format_is_sane (i : cvrptw_inst) :
  cvrptw_wfb i = true -> cvrptw_returnb i = true -> cvrptw_strictb i = true -> cvrptw_sanityb i 0 = true.
Proof.
  intros Hwf Hret Hst. apply cvrptw_wfb_ok in Hwf. apply cvrptw_returnb_ok in Hret. apply cvrptw_strictb_ok in Hst.
  unfold cvrptw_sanityb. rewrite !andb_true_iff, !forallb_forall.
  pose proof (wf_lo i Hwf) as Hlo. pose proof (wf_lohi i Hwf) as Hlh. pose proof (wf_du i Hwf) as Hdu.
  repeat split; intros j Hj; apply nodes_in in Hj.
  - apply Z.leb_le. apply (wf_dd i Hwf); lia.
  - apply andb_true_iff. split; apply Z.leb_le; [apply Hlo | specialize (Hlo j); specialize (Hlh j); lia].
  - apply Z.leb_le. destruct Hst as [_ Hsym]. specialize (Hret j Hj). specialize (Hsym j Hj). specialize (Hlh j). lia.
  - apply Z.leb_le. apply Hdu.
  - apply Z.ltb_lt. destruct Hst as [Hs _]. apply Hs. exact Hj.
Qed.

Example cvrptw_sanity_examples :
  let b := {| dem := [16]; cap := 64; dist := [[0; 64]; [64; 0]]; tol := 0 |} in
  (* depot window [0,128], customer at distance 64: window [0,32] service 8 is sane; window [60,70] service 8 cannot return;
     a negative service duration and an empty window are refused *)
  cvrptw_sanityb {| base := b; twlo := [0; 0]; twhi := [128; 32]; durs := [0; 8]; tu := 128; hz0 := 128; tsl := 0 |} 0 = true /\
  cvrptw_sanityb {| base := b; twlo := [0; 60]; twhi := [128; 70]; durs := [0; 8]; tu := 128; hz0 := 128; tsl := 0 |} 0 = false /\
  cvrptw_sanityb {| base := b; twlo := [0; 0]; twhi := [128; 32]; durs := [0; -1]; tu := 128; hz0 := 128; tsl := 0 |} 0 = false /\
  cvrptw_sanityb {| base := b; twlo := [0; 32]; twhi := [128; 32]; durs := [0; 8]; tu := 128; hz0 := 128; tsl := 0 |} 0 = false.
Proof. vm_compute. repeat split; reflexivity. Qed.

(* C06: model of the checker agrees with the implementation's verdict (13); the verdict agrees with the
   specification: feasible => accepted (14), infeasible beyond the tolerance => rejected (15);
   23 = the instance fails the sanity assertions (beyond the slack [tsl]) and the checker accepted all the same: an
   instance outside the documented format passed -- judged first, it needs neither the model nor the solution.
   1000 + code: the wrong verdict is the one the MODEL of the shipped checker predicts and the repaired checker would
   decide correctly, i.e. the mechanism is the truncation of arrival times (1015) resp. the use of batch row 0's
   horizon (1014); any other wrong verdict keeps the plain code.  The property's own failure (14/15, judged on the
   implementation's verdict alone) takes precedence over a model/implementation disagreement (13). *)
Definition c06_code (fx : bool) (i : cvrptw_inst) (acts : list nat) (verdict : bool) : Z :=
  let m := cvrptw_checker f32 fx i acts in                     (* the model of the checker the code is said to contain *)
  let inscope := cvrptw_wfb i && cvrptw_returnb i in           (* hypotheses of the theorems *)
  let v14 := inscope && cvrptw_strictb i && cvrptw_feasibleb i 0 0 acts && negb verdict in
  let v15 := inscope && negb (cvrptw_feasibleb i (3 * tol (base i)) (tsl i) acts) && verdict in
  if negb (cvrptw_sanityb i (tsl i)) && verdict then 23
  else if v14 then (if negb m && cvrptw_checker f32 true i acts then 1014 else 14)
  else if v15 then (if m && negb (cvrptw_checker f32 true i acts) then 1015 else 15)
  else if negb (Bool.eqb m verdict) then 13
  else 0.

(* [check_C06]: against the checker as shipped (.int() truncation, row 0's horizon).  [check_C06_fixed]: against the
   repaired checker; the adapter (vt/envs/cvrptw.py, CHECKER_FIXED) names the one that corresponds to the code. *)
Definition check_C06 (c : cvrptw_case) : Z := c06_code false (t_inst c) (trace_actions (t_trace c)) (t_checker c).
Definition check_C06_fixed (c : cvrptw_case) : Z := c06_code true (t_inst c) (trace_actions (t_trace c)) (t_checker c).

(* a solution given directly as an action list (hand-built or corrupted), with the implementation's verdict *)
Definition check_C06_sol (c : cvrptw_inst * list nat * bool) : Z :=
  match c with (i, acts, verdict) => c06_code false i acts verdict end.
Definition check_C06_sol_fixed (c : cvrptw_inst * list nat * bool) : Z :=
  match c with (i, acts, verdict) => c06_code true i acts verdict end.

(* evidence bookkeeping: bit 0 documented format, bit 1 solvable (C02's hypothesis), bit 2 "vehicle can return from every
   deadline", bit 3 strict windows + symmetric depot legs (the checker's instance assertions) *)
Definition instance_class (i : cvrptw_inst) : Z :=
  (if cvrptw_wfb i then 1 else 0) + (if cvrptw_solvableb i then 2 else 0) +
  (if cvrptw_returnb i then 4 else 0) + (if cvrptw_strictb i then 8 else 0).

(* ---------------------------------------------------------------- bookkeeping (C02 / C04, see Harness/HBook.v)
   keys of the env's step output compared after every step, in this order:
   current_node (= the action just taken), used_capacity, visited (bit j = node j), current_time *)
Definition tw_book_obs (s : cvrptw_st) : list Z := [Z.of_nat (cur (cst s)); used (cst s); bitsZ (vis (cst s)); time s].
Definition tw_book_kinds : list nat := [2; 0; 0; 0]%nat.
Definition cvrptw_book := (cvrptw_inst * list Z * list Z * list (nat * list Z))%type.
Definition check_book_tw (c : cvrptw_book) : Z :=
  match c with (i, tols, o0, tr) => book_check (CVRPTW f32) i tw_book_obs tw_book_kinds tols o0 tr end.
