(* Correspondence harness for C18, unit atsp (ATSPGenerator).

   check_tmat  : (n, D, R)  the real `for i in range(n): dms = minimum(dms, dms[:, [i]] + dms[[i], :])` loop was run on
                 the exact-grid matrix D (scaled integers) and returned R; the model [tmat_loop] must return R.
   check_gen   : (tmat, n, S, mn, mx, U, R)  the real ATSPGenerator._generate was run with a recording dist_sampler
                 that returned U / S; the model [gen_atsp] must return R.
   check_prop  : (n, tol, R)  the property itself on a matrix emitted by the real generator (any floats, scaled):
                 n x n, non-negative, zero diagonal, triangle inequality up to [tol] (float32 additions are rounded,
                 the theorem is about exact arithmetic).
   Codes: 0 agree / holds;  1 model result differs;  2 input outside the hypotheses of the theorem (not square,
   negative entry, non-zero diagonal);  3 shape;  4 negative entry;  5 diagonal;  6 triangle inequality violated by
   more than tol;  10 holds within tol but not exactly (counted as ill-conditioned, not a failure). *)
From Coq Require Import ZArith List Bool Lia Arith.
From RL4CO Require Import Base.Num Data.GenATSP.
Import ListNotations.
Open Scope Z_scope.

Fixpoint zl_eqb (a b : list Z) : bool :=
  match a, b with [], [] => true | x :: r, y :: t => (x =? y) && zl_eqb r t | _, _ => false end.
Fixpoint zll_eqb (a b : list (list Z)) : bool :=
  match a, b with [], [] => true | x :: r, y :: t => zl_eqb x y && zll_eqb r t | _, _ => false end.

Definition triangle_tolb (tol : Z) (D : list (list Z)) : bool :=
  let n := length D in
  forallb (fun a => forallb (fun b => forallb (fun k => mget D a b <=? mget D a k + mget D k b + tol) (seq 0 n)) (seq 0 n))
          (seq 0 n).

Definition check_tmat (c : nat * list (list Z) * list (list Z)) : Z :=
  let '(n, D, R) := c in
  if negb (squareb n D && nonnegb D && zero_diagb D) then 2
  else if negb (zll_eqb (tmat_loop n D) R) then 1
  else if negb (triangleb R) then 6 else 0.

Definition check_gen (c : bool * nat * Z * Z * Z * list (list Z) * list (list Z)) : Z :=
  let '(tm, n, sc, mn, mx, U, R) := c in
  if negb (squareb n U && nonnegb U) then 2
  else if negb (zll_eqb (gen_atsp tm n sc mn mx U) R) then 1
  else if tm && negb (triangleb R) then 6 else 0.

Definition check_prop (c : nat * Z * list (list Z)) : Z :=
  let '(n, tol, R) := c in
  if negb (squareb n R) then 3
  else if negb (nonnegb R) then 4
  else if negb (zero_diagb R) then 5
  else if triangleb R then 0
  else if triangle_tolb tol R then 10 else 6.

Example check_tmat_ex :
  check_tmat (3%nat, [[0; 9; 1]; [9; 0; 9]; [9; 1; 0]], [[0; 2; 1]; [9; 0; 9]; [9; 1; 0]]) = 0 /\
  check_tmat (3%nat, [[0; 9; 1]; [9; 0; 9]; [9; 1; 0]], [[0; 9; 1]; [9; 0; 9]; [9; 1; 0]]) = 1 /\
  check_prop (3%nat, 0, [[0; 9; 1]; [9; 0; 9]; [9; 1; 0]]) = 6.
Proof. vm_compute. repeat split. Qed.
