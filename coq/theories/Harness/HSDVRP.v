(* Correspondence harness for SDVRP (C01-C06): the model at float32 rounding ([f32]) against recorded traces, and the
   exact specification (Spec/SplitDelivery) evaluated on the implementation's own episodes. *)
From Coq Require Import ZArith List Bool Lia Arith.
From RL4CO Require Import Base.Num Base.EnvSig Spec.Routes Spec.SplitDelivery Env.CVRP Env.CVRPProofs Env.SDVRP Env.SDVRPProofs Harness.HEnv Harness.HBook.
Import ListNotations.
Open Scope Z_scope.

(* (instance, slack), trace, final mask, (impl reward, tolerance), complete?, checker accepted?
   slack = 0 on the exact stream (demands k/64, capacity 1: every float32 operation of the env is exact), 1e-5 (scaled)
   otherwise: the specification is then evaluated in exact arithmetic on data the env processed with rounding *)
Definition sd_case := ((cvrp_inst * Z) * list tstep * list bool * (Z * Z) * bool * bool)%type.
Definition mk_sd (d : list Z) (c : Z) (m : list (list Z)) (t : Z) : cvrp_inst :=
  {| dem := d; cap := c; dist := m; tol := t |}.

Definition c_inst (c : sd_case) := match c with ((i, _), _, _, _, _, _) => i end.
Definition c_slack (c : sd_case) := match c with ((_, s), _, _, _, _, _) => s end.
Definition c_trace (c : sd_case) := match c with (_, t, _, _, _, _) => t end.
Definition c_final (c : sd_case) := match c with (_, _, f, _, _, _) => f end.
Definition c_rew (c : sd_case) := match c with (_, _, _, r, _, _) => r end.
Definition c_complete (c : sd_case) := match c with (_, _, _, _, b, _) => b end.
Definition c_checker (c : sd_case) := match c with (_, _, _, _, _, b) => b end.

Fixpoint episode_actions (tr : list tstep) : list nat :=
  match tr with
  | [] => []
  | (m, a, d) :: rest => if d then [a] else a :: episode_actions rest
  end.

(* 19 = the instance is outside the hypotheses of the theorems (format, capacity > 0) *)
Definition in_scope (i : cvrp_inst) : bool := cvrp_wfb i && sd_solvableb i.

(* C01: implementation masks inside model masks, done equal; on the completed episode the greedy decoding is a
   solution of the split-delivery problem (6), on the exact stream also without pointless visits *)
Definition check_C01 (c : sd_case) : Z :=
  if negb (in_scope (c_inst c)) then 19 else
  (* the specification on the implementation's own episode first (6, concrete), then the model *)
  if c_complete c &&
     negb (sd_feasibleb (c_inst c) (c_slack c) (episode_actions (c_trace c)) &&
           ((0 <? c_slack c) || sd_strictb (c_inst c) (episode_actions (c_trace c)))) then 6
  else check_trace (E:=SDVRP f32) (c_inst c) 0 (c_trace c).

Definition check_C02 (c : sd_case) : Z :=
  if negb (in_scope (c_inst c)) then 19 else
  let r := c02_impl (sd_bound (c_inst c)) (c_trace c) (c_final c) in
  if negb (r =? 0) then r
  else if negb (c_complete c) then 12
  else check_trace (E:=SDVRP f32) (c_inst c) 2 (c_trace c).

Definition check_C03 (c : sd_case) : Z :=
  if negb (c_complete c) then 0
  else if zabs_le (fst (c_rew c)) (cvrp_objective (c_inst c) (trace_actions (c_trace c))) (snd (c_rew c)) then 0 else 4.

Definition check_C05 (c : sd_case) : Z :=
  if negb (in_scope (c_inst c)) then 19 else check_trace (E:=SDVRP f32) (c_inst c) 1 (c_trace c).

(* C06: checker model = implementation's verdict (13); a solution of the problem in the checker's documented format
   (no early double depot) must be accepted (14, exact stream only); an accepted list must decode to a solution (15) *)
Definition verdict_code (i : cvrp_inst) (slack : Z) (acts : list nat) (verdict : bool) : Z :=
  (* the verdict against the specification first (14/15, concrete), then against the model (13) *)
  if (slack =? 0) && sd_feasibleb i 0 acts && no_early_double_depot (rem0 i) (cap i) 0 false acts && negb verdict then 14
  else if negb (sd_feasibleb i (3 * tol i) acts) && verdict then 15
  else if negb (Bool.eqb (sd_checker f32 i acts) verdict) then 13
  else 0.
Definition check_C06 (c : sd_case) : Z := verdict_code (c_inst c) (c_slack c) (trace_actions (c_trace c)) (c_checker c).
Definition check_C06_sol (c : (cvrp_inst * Z) * list nat * bool) : Z :=
  match c with ((i, s), acts, verdict) => verdict_code i s acts verdict end.

(* ---------------------------------------------------------------- bookkeeping (C02 / C04, see Harness/HBook.v)
   keys of the env's step output compared after every step, in this order:
   current_node (= the action just taken), used_capacity, demand_with_depot (n + 1 entries) *)
Definition book_obs (s : sd_st) : list Z := Z.of_nat (scur s) :: sused s :: sdwd s.
Definition book_kinds : list nat := [2; 0]%nat.      (* the remaining entries have no model-free meaning *)
Definition sd_book := ((cvrp_inst * Z) * list Z * list Z * list (nat * list Z))%type.
Definition check_book (c : sd_book) : Z :=
  match c with (i, tols, o0, tr) => book_check (SDVRP f32) (fst i) book_obs book_kinds tols o0 tr end.
