(* Correspondence harness for C07, unit ffsp (FFSPEnv, SMTWTPEnv).

   check_ffsp / check_smtwtp run the row MODEL on the recorded instance and actions and compare with what the real
   environment showed, in the soundness direction (impl mask inside model mask, done equal) plus equality of the
   final schedule / job_location / reward; they also evaluate the SPECIFICATION (FlowShop.validb, makespan,
   permutation, weighted tardiness) on the implementation's own outputs.
   Result = 10 * correspondence code + spec code.  Correspondence code 0 = agree, else 1000*step + tag:
     1 impl mask not inside model mask   2 action taken is outside the model mask   3 done differs
     4 reward differs   7 model step = None   8 stage_idx differs   9 stage_machine_idx differs
     10 schedule differs   11 job_location differs   12 instance not well-formed   13 episode not finished
     bookkeeping of the step output (every key of the TensorDict the row model has a counterpart for), compared after
     reset and after EVERY step when recorded (o_keys = true / s_keys non-empty):
       FFSP    14 time_idx   15 sub_time_idx   16 machine_idx   17 machine_wait_step   18 job_wait_step   19 job_location
       SMTWTP  14 current_time   15 current_job   16 s_keys has another length than s_steps
   Spec code: 0 ok, 5 reward is not minus the makespan / the weighted tardiness, 6 schedule invalid /
   episode not a permutation. *)
From Coq Require Import ZArith List Bool Lia ZifyBool Arith Permutation.
From RL4CO Require Import Base.FFSPLists Spec.FlowShop Env.FFSP Env.SMTWTP.
Import ListNotations.
Open Scope Z_scope.

Module HC07F.

Fixpoint subsetb (a b : list bool) : bool :=
  match a, b with
  | [], [] => true
  | x :: r, y :: t => (negb x || y) && subsetb r t
  | _, _ => false
  end.

Fixpoint zlist_eqb (a b : list Z) : bool :=
  match a, b with
  | [], [] => true
  | x :: r, y :: t => (x =? y) && zlist_eqb r t
  | _, _ => false
  end.
Fixpoint zmat_eqb (a b : list (list Z)) : bool :=
  match a, b with
  | [], [] => true
  | x :: r, y :: t => zlist_eqb x y && zmat_eqb r t
  | _, _ => false
  end.
Fixpoint natlist_eqb (a b : list nat) : bool :=
  match a, b with
  | [], [] => true
  | x :: r, y :: t => Nat.eqb x y && natlist_eqb r t
  | _, _ => false
  end.

(* ---------------------------------------------------------------- FFSP *)
(* what the policy sees after reset / after a step; o_cmp = false on the step that finishes the whole batch,
   where the code leaves action_mask / stage_idx / stage_machine_idx stale (see Env/FFSP.v) *)
Record obs := { o_mask : list bool; o_done : bool; o_stage : nat; o_sm : nat; o_cmp : bool;
                (* bookkeeping keys; never stale (the step that finishes the batch skips only _update_step_state) *)
                o_keys : bool; o_time : Z; o_sub : nat; o_mach : nat; o_mws : list Z; o_jws : list Z; o_jloc : list nat }.

Record ffsp_case := {
  f_inst : FFSP.inst;
  f_obs0 : obs;
  f_steps : list (nat * obs);
  f_sched : list (list Z);      (* td["schedule"] at the end, all J+1 columns *)
  f_jloc : list nat;            (* td["job_location"] at the end *)
  f_reward : Z                  (* td["reward"] at the end *)
}.

Definition cmp_keys (k : Z) (o : obs) (s : FFSP.st) : Z :=
  if negb (o_keys o) then 0
  else if negb (o_time o =? FFSP.time s) then 1000 * k + 14
  else if negb (Nat.eqb (o_sub o) (FFSP.sub s)) then 1000 * k + 15
  else if negb (Nat.eqb (o_mach o) (FFSP.mach s)) then 1000 * k + 16
  else if negb (zlist_eqb (o_mws o) (FFSP.mws s)) then 1000 * k + 17
  else if negb (zlist_eqb (o_jws o) (FFSP.jws s)) then 1000 * k + 18
  else if negb (natlist_eqb (o_jloc o) (FFSP.jloc s)) then 1000 * k + 19
  else 0.
Definition cmp_obs (k : Z) (o : obs) (s : FFSP.st) : Z :=
  if negb (Bool.eqb (o_done o) (FFSP.done s)) then 1000 * k + 3
  else if o_cmp o then
    if negb (subsetb (o_mask o) (FFSP.mask s)) then 1000 * k + 1
    else if negb (Nat.eqb (o_stage o) (FFSP.stage_idx s)) then 1000 * k + 8
    else if negb (Nat.eqb (o_sm o) (FFSP.sm_idx s)) then 1000 * k + 9
    else cmp_keys k o s
  else cmp_keys k o s.

Fixpoint ffsp_walk (i : FFSP.inst) (k : Z) (s : FFSP.st) (steps : list (nat * obs)) : Z * FFSP.st :=
  match steps with
  | [] => (0, s)
  | (a, o) :: r =>
      if negb (nth a (FFSP.mask s) false) then (1000 * k + 2, s)
      else match FFSP.step i s a with
           | None => (1000 * k + 7, s)
           | Some s' => let c := cmp_obs k o s' in
                        if c =? 0 then ffsp_walk i (k + 1) s' r else (c, s')
           end
  end.

Definition ffsp_corr (c : ffsp_case) : Z :=
  let i := f_inst c in
  if negb (FFSP.wfb i) then 12
  else
    let s0 := FFSP.reset i in
    let c0 := cmp_obs 0 (f_obs0 c) s0 in
    if negb (c0 =? 0) then c0
    else match ffsp_walk i 1 s0 (f_steps c) with
         | (code, s) =>
             if negb (code =? 0) then code
             else if negb (FFSP.done s) then 13
             else if negb (zmat_eqb (FFSP.sched s) (f_sched c)) then 10
             else if negb (natlist_eqb (FFSP.jloc s) (f_jloc c)) then 11
             else if negb (FFSP.reward_of i s =? f_reward c) then 4
             else 0
         end.

(* the specification evaluated on the implementation's own schedule and reward *)
Definition ffsp_spec (c : ffsp_case) : Z :=
  let i := f_inst c in
  let sch := FFSP.table_to_sched (FFSP.nJ i) (f_sched c) in
  if negb (FlowShop.validb (FFSP.nJ i) (FFSP.nS i) (FFSP.nM i) (FFSP.pt i) sch) then 6
  else if negb (FlowShop.is_makespanb (FFSP.nJ i) (FFSP.nS i) (FFSP.nM i) (FFSP.pt i) sch (- f_reward c)) then 5
  else 0.

Definition check_ffsp (c : ffsp_case) : Z := 10 * ffsp_corr c + ffsp_spec c.

(* spec code 0 really means: the implementation's schedule satisfies the Prop-level specification *)
Theorem ffsp_spec_sound c : ffsp_spec c = 0 ->
  let i := f_inst c in
  let sch := FFSP.table_to_sched (FFSP.nJ i) (f_sched c) in
  FlowShop.valid (FFSP.nJ i) (FFSP.nS i) (FFSP.nM i) (FFSP.pt i) sch /\
  FlowShop.is_makespan (FFSP.nJ i) (FFSP.nS i) (FFSP.nM i) (FFSP.pt i) sch (- f_reward c).
Proof.
  unfold ffsp_spec. cbv zeta.
  destruct (FlowShop.validb _ _ _ _ _) eqn:E1; cbn [negb]; [|discriminate].
  destruct (FlowShop.is_makespanb _ _ _ _ _ _) eqn:E2; cbn [negb]; [|discriminate].
  intros _. split; [apply FlowShop.validb_sound; exact E1|apply FlowShop.is_makespanb_sound; exact E2].
Qed.

(* ---------------------------------------------------------------- SMTWTP *)
Record smtwtp_case := {
  s_inst : SMTWTP.inst;
  s_mask0 : list bool;
  s_steps : list (nat * (list bool * bool));   (* action, impl mask after, impl done after *)
  s_reward : Z;                                 (* env.get_reward(td, actions), scaled *)
  s_keys : list (Z * nat)                       (* [] = not recorded; else per step td["current_time"] (scaled), td["current_job"] *)
}.

Definition smtwtp_keys_hd (k : Z) (s : SMTWTP.st) (keys : list (Z * nat)) : Z * list (Z * nat) :=
  match keys with
  | [] => (0, [])
  | (t, j) :: r => (if negb (t =? SMTWTP.cur_time s) then 1000 * k + 14
                    else if negb (Nat.eqb j (SMTWTP.cur_job s)) then 1000 * k + 15 else 0, r)
  end.
Fixpoint smtwtp_walk (i : SMTWTP.inst) (k : Z) (s : SMTWTP.st) (steps : list (nat * (list bool * bool))) (keys : list (Z * nat)) : Z :=
  match steps with
  | [] => if SMTWTP.done s then 0 else 13
  | (a, (m, d)) :: r =>
      if negb (nth a (SMTWTP.mask s) false) then 1000 * k + 2
      else match SMTWTP.step i s a with
           | None => 1000 * k + 7
           | Some s' =>
               if negb (Bool.eqb d (SMTWTP.done s')) then 1000 * k + 3
               else if negb (subsetb m (SMTWTP.mask s')) then 1000 * k + 1
               else match smtwtp_keys_hd k s' keys with
                    | (ck, keys') => if negb (ck =? 0) then ck else smtwtp_walk i (k + 1) s' r keys'
                    end
           end
  end.

Definition smtwtp_corr (c : smtwtp_case) : Z :=
  let i := s_inst c in
  if negb (SMTWTP.wfb i) then 12
  else if negb (subsetb (s_mask0 c) (SMTWTP.mask (SMTWTP.reset i))) then 1
  else if negb ((length (s_keys c) =? 0)%nat || (length (s_keys c) =? length (s_steps c))%nat) then 16
  else let code := smtwtp_walk i 1 (SMTWTP.reset i) (s_steps c) (s_keys c) in
       if negb (code =? 0) then code
       else if negb (SMTWTP.reward i (map fst (s_steps c)) =? s_reward c) then 4 else 0.

Definition permb (n : nat) (acts : list nat) : bool :=
  Nat.eqb (length acts) n && forallb (fun j => existsb (Nat.eqb j) acts) (seq 1 n).

Definition smtwtp_spec (c : smtwtp_case) : Z :=
  let i := s_inst c in
  let acts := map fst (s_steps c) in
  if negb (permb (SMTWTP.n_job i) acts) then 6
  else if negb (- SMTWTP.weighted_tardiness i 0 acts =? s_reward c) then 5
  else 0.

Definition check_smtwtp (c : smtwtp_case) : Z := 10 * smtwtp_corr c + smtwtp_spec c.

Theorem permb_sound n acts : permb n acts = true -> Permutation acts (seq 1 n).
Proof.
  unfold permb. intros H. apply andb_prop in H as [H1 H2]. apply Nat.eqb_eq in H1.
  apply Permutation_sym. apply NoDup_Permutation_bis.
  - apply seq_NoDup.
  - rewrite seq_length. lia.
  - intros j Hj. rewrite forallb_forall in H2. specialize (H2 j Hj).
    apply existsb_exists in H2 as [x [Hx E]]. apply Nat.eqb_eq in E. subst x. exact Hx.
Qed.

(* ---------------------------------------------------------------- self-test of the checkers *)
Definition ex_obs (m : list bool) (d : bool) (st sm : nat) : obs :=
  {| o_mask := m; o_done := d; o_stage := st; o_sm := sm; o_cmp := true;
     o_keys := false; o_time := 0; o_sub := 0; o_mach := 0; o_mws := []; o_jws := []; o_jloc := [] |}.
Definition ex_ffsp_case (mw_after : Z) : ffsp_case :=
  {| f_inst := {| FFSP.nJ := 1; FFSP.nS := 1; FFSP.nM := 1; FFSP.rt := [[3]]; FFSP.mtab := [0%nat]; FFSP.flat := true |};
     f_obs0 := {| o_mask := [true; false]; o_done := false; o_stage := 0; o_sm := 0; o_cmp := true;
                  o_keys := true; o_time := 0; o_sub := 0; o_mach := 0; o_mws := [0]; o_jws := [0; 0]; o_jloc := [0; 0]%nat |};
     f_steps := [(0%nat, {| o_mask := [true; false]; o_done := true; o_stage := 0; o_sm := 0; o_cmp := false;
                            o_keys := true; o_time := 0; o_sub := 0; o_mach := 0; o_mws := [mw_after]; o_jws := [3; 0];
                            o_jloc := [1; 0]%nat |})];
     f_sched := [[0; -999999]]; f_jloc := [1%nat; 0%nat]; f_reward := -3 |}.
Example check_ffsp_selftest : check_ffsp (ex_ffsp_case 3) = 0 /\ check_ffsp (ex_ffsp_case 0) = 10170.
Proof. vm_compute. split; reflexivity. Qed.
Example check_smtwtp_selftest :
  let c t := {| s_inst := SMTWTP.ex_i; s_mask0 := [false; true; true; true];
                s_steps := [(2%nat, ([false; true; false; true], false)); (3%nat, ([false; true; false; false], false));
                            (1%nat, ([false; false; false; false], true))];
                s_reward := -9; s_keys := [(1, 2%nat); (t, 3%nat); (5, 1%nat)] |} in
  check_smtwtp (c 3) = 0 /\ check_smtwtp (c (-3)) = 20140.
Proof. vm_compute. split; reflexivity. Qed.

End HC07F.
