(* Correspondence harness for C18, unit graph (MCP / FLP generators).
   Codes: 0 fine; 1 model differs from what the real generator emitted on the same raw draws; 12 emitted instance
   outside the environment's input format (mcp_wfb / flp_wfb false, wrong shapes); 6 quota above the number of
   selectable items, repeated / missing items in a set, weights or distances outside the documented range. *)
From Coq Require Import ZArith QArith Qround List Bool Lia Arith.
From RL4CO Require Import Base.Num Env.Selection Env.MCP Env.FLP Data.GenGraph.
Import ListNotations.
Open Scope Z_scope.

Fixpoint zl_eqb (a b : list Z) : bool :=
  match a, b with [], [] => true | x :: r, y :: t => (x =? y) && zl_eqb r t | _, _ => false end.
Fixpoint zll_eqb (a b : list (list Z)) : bool :=
  match a, b with [], [] => true | x :: r, y :: t => zl_eqb x y && zll_eqb r t | _, _ => false end.

Definition prop_mcp (n_items : nat) (minw maxw mins maxs : Z) (I : mcp_inst) : Z :=
  if negb (mcp_wfb I && Nat.eqb (length (m_w I)) n_items && forallb (fun r => Z.of_nat (length r) =? maxs) (m_mem I)) then 12
  else if negb ((m_q I <=? Z.of_nat (length (m_mem I))) && forallb (mcp_row_okb mins maxs) (m_mem I)
                && forallb (fun w => (minw <=? w) && (w <=? maxw)) (m_w I)) then 6 else 0.

(* (n_items, minw, maxw, mins, maxs, weight draws, size draws, raw membership, sort permutations, quota, observed membership, observed weights) *)
Definition check_mcp (c : nat * Z * Z * Z * Z * list Q * list Q * list (list Z) * list (list nat) * Z * list (list Z) * list Z) : Z :=
  let '(n_items, minw, maxw, mins, maxs, wu, su, raw, perms, q, omem, ow) := c in
  let I := gen_mcp minw maxw mins maxs wu su raw perms q in
  if negb (zll_eqb (m_mem I) omem && zl_eqb (m_w I) ow) then 1
  else prop_mcp n_items minw maxw mins maxs {| m_mem := omem; m_w := ow; m_q := q |}.
Definition check_mcp_prop (c : nat * Z * Z * Z * Z * Z * list (list Z) * list Z) : Z :=
  let '(n_items, minw, maxw, mins, maxs, q, mem, w) := c in
  prop_mcp n_items minw maxw mins maxs {| m_mem := mem; m_w := w; m_q := q |}.

(* FLP: (n, distance matrix, initial distances, quota) as scaled integers *)
Definition check_flp_prop (c : nat * list (list Z) * list Z * Z) : Z :=
  let '(n, D, d0, q) := c in
  let I := {| f_n := n; f_D := D; f_dist0 := d0; f_q := q |} in
  if negb (flp_wfb I) then 12
  else if negb ((q <=? Z.of_nat n)
                && forallb (fun a => (mget D a a =? 0) && forallb (fun b => (0 <=? mget D a b) && (mget D a b =? mget D b a)) (seq 0 n)) (seq 0 n)
                && forallb (fun x => (x =? hd 0 d0) && (0 <? x)) d0) then 6 else 0.

Example check_graph_ex :
  check_mcp (2%nat, 1, 10, 2, 4, [(7 # 2); (25 # 2)]%Q, [(7 # 2)]%Q, [[5; 2; 5; 9]], [[3; 1; 0; 2]%nat], 1, [[5; 2; 0; 0]], [3; 10]) = 12 /\
  check_mcp (9%nat, 1, 10, 2, 4, [1; 1; 1; 1; 1; 1; 1; 1; (25 # 2)]%Q, [(7 # 2)]%Q, [[5; 2; 5; 9]], [[3; 1; 0; 2]%nat], 1, [[5; 2; 0; 0]],
             [1; 1; 1; 1; 1; 1; 1; 1; 10]) = 0 /\
  check_mcp_prop (9%nat, 1, 10, 2, 4, 1, [[5; 2; 5; 0]], [1; 1; 1; 1; 1; 1; 1; 1; 10]) = 6.
Proof. vm_compute. repeat split. Qed.
