(* Correspondence harness for SVRP (C01-C06): the model with the behaviour [svrp_repaired] against recorded traces,
   and the specification evaluated on the implementation's own episodes.
   A recorded episode in which env.step raised inside its last step carries the final mask [] (the flag). *)
From Coq Require Import ZArith List Bool Lia Arith.
From RL4CO Require Import Base.Num Base.EnvSig Spec.Routes Env.SVRP Env.SVRPProofs Harness.HEnv Harness.HBook.
Import ListNotations.
Open Scope Z_scope.

Definition svrp_case := (svrp_inst * list tstep * list bool * (Z * Z) * bool * bool)%type.
Definition mk_svrp (t s c : list Z) (m : list (list Z)) : svrp_inst := {| techs := t; skills := s; tcosts := c; sdist := m |}.

Definition c_inst (c : svrp_case) := match c with (i, _, _, _, _, _) => i end.
Definition c_trace (c : svrp_case) := match c with (_, t, _, _, _, _) => t end.
Definition c_final (c : svrp_case) := match c with (_, _, f, _, _, _) => f end.
Definition c_rew (c : svrp_case) := match c with (_, _, _, r, _, _) => r end.
Definition c_complete (c : svrp_case) := match c with (_, _, _, _, b, _) => b end.
Definition c_checker (c : svrp_case) := match c with (_, _, _, _, _, b) => b end.
Definition c_crashed (c : svrp_case) : bool := match c_final c with [] => true | _ => false end.

Notation M := (SVRP svrp_repaired).

(* like EnvSig.check_trace, with the bookkeeping for a raise.  An episode that did not complete was stopped because
   env.step raised inside its last recorded step (whose done flag is therefore meaningless).  When the row ran alone
   the adapter marks it ([c_crashed]) and the model must say [stepok = false] for that step (20 otherwise); when it
   ran in a batch the culprit row is not observable and the last step is not compared.
   7 = the model says the step raises and the implementation went on *)
Fixpoint strace (i : svrp_inst) (mode : nat) (incomplete crashed : bool) (k : Z) (s : svrp_st) (tr : list tstep) : Z :=
  match tr with
  | [] => 0
  | (m, a, d) :: rest =>
      if negb (mask_rel mode m (mask M i s)) then 1000 * k + 1
      else if negb (offered (E:=M) i s a) then 1000 * k + 2
      else let last_raised := match rest with [] => incomplete | _ => false end in
           if negb (stepok M i s a) then (if last_raised then 0 else 1000 * k + 7)
           else if last_raised then (if crashed then 1000 * k + 20 else 0)
           else let s' := step M i s a in
                if negb (Bool.eqb d (done M i s')) then 1000 * k + 3
                else strace i mode incomplete crashed (k + 1) s' rest
  end.
Definition scheck_trace (c : svrp_case) (mode : nat) : Z :=
  strace (c_inst c) mode (negb (c_complete c)) (c_crashed c) 1 (reset M (c_inst c)) (c_trace c).

Definition check_C01 (c : svrp_case) : Z :=
  if negb (svrp_wfb (c_inst c)) then 19
  (* spec-on-impl first: it needs no model, so it still speaks when model and implementation have drifted apart *)
  else if c_complete c && negb (svrp_feasibleb (c_inst c) (trace_actions (c_trace c))) then 6
  else scheck_trace c 0.

(* C02 on the implementation's observables (bound n + m), then mask/done equality with the model.  A raise is
   reported by the driver itself (it needs no model); here it only has to be predicted by the model (see [strace]). *)
Definition check_C02 (c : svrp_case) : Z :=
  let i := c_inst c in
  let bound := (sn_of i + sm_of i)%nat in
  (* the done flag of a step inside which the implementation raised was never produced: observables up to there *)
  let obs := if c_complete c then c_trace c else removelast (c_trace c) in
  let r := c02_steps 1 false obs in
  if negb (r =? 0) then r
  else if Nat.ltb bound (steps_until_done obs) then 10
  else if c_complete c && negb (anyb (c_final c)) then 11
  else scheck_trace c 2.

Definition check_C03 (c : svrp_case) : Z :=
  if negb (c_complete c) then 0
  else let acts := trace_actions (c_trace c) in
       if negb (zabs_le (fst (c_rew c)) (svrp_objective (c_inst c) acts) (snd (c_rew c))) then 4
       else match svrp_reward svrp_repaired (c_inst c) acts with
            | Some v => if zabs_le (fst (c_rew c)) v (snd (c_rew c)) then 0 else 5
            | None => 5
            end.

Definition check_C05 (c : svrp_case) : Z := scheck_trace c 1.

(* 13 model verdict differs; 14 feasible by the definition but rejected; 15 infeasible but accepted
   (skill comparisons involve no arithmetic: no tolerance anywhere) *)
Definition c06_verdict (i : svrp_inst) (acts : list nat) (verdict : bool) : Z :=
  if svrp_feasibleb i acts && negb verdict then 14
  else if negb (svrp_feasibleb i acts) && verdict then 15
  else if negb (Bool.eqb (svrp_checker svrp_repaired i acts) verdict) then 13
  else 0.
Definition check_C06 (c : svrp_case) : Z := c06_verdict (c_inst c) (trace_actions (c_trace c)) (c_checker c).
Definition check_C06_sol (c : svrp_inst * list nat * bool) : Z :=
  match c with (i, acts, verdict) => c06_verdict i acts verdict end.

(* ---------------------------------------------------------------- bookkeeping (C02 / C04, see Harness/HBook.v)
   keys of the env's step output compared after every step (up to a step inside which the real code raises), in this
   order: current_node (= the action just taken), current_tech, visited (bit j = node j) *)
Definition book_obs (s : svrp_st) : list Z := [Z.of_nat (scur s); Z.of_nat (stech s); bitsZ (svis s)].
Definition book_kinds : list nat := [2; 0; 0]%nat.
Definition svrp_book := (svrp_inst * list Z * list Z * list (nat * list Z))%type.
Definition check_book (c : svrp_book) : Z :=
  match c with (i, tols, o0, tr) => book_check M i book_obs book_kinds tols o0 tr end.

(* ---------------------------------------------------------------- history: found by the batched / padded checker stream of C06 (2026-10-02)
   The FIRST repair of the checker (fix 9849631) only clamped the technician index to the last technician instead of
   raising; a route that starts after MORE depot visits than there are technicians was thereby checked against the last
   technician's skill and accepted, although no technician is left to drive it (Env/SVRPProofs.v [routes_okb]: a
   non-empty route number k needs k < number of technicians).  Witness: three technicians, one customer, action list
   0,0,0,1,0.  Signature of the finding: svrp/<variant>: checker-accepts-infeasible-solution(route-after-the-last-technician).
   Fix 335bbfb added "no customer after m or more depot visits"; the model of Env/SVRP.v follows it.  The clamp-only
   loop is kept here as a record, with its refutation; the current model rejects the same witness. *)
Fixpoint skill_loop_clamp_only (i : svrp_inst) (tech : nat) (seg : list nat) (acts : list nat) : bool :=
  match acts with
  | [] => true
  | a :: r =>
      if Nat.eqb a 0
      then forallb (fun j => sskill i j <=? tskill i (Nat.min tech (sm_of i - 1))) seg && skill_loop_clamp_only i (S tech) [] r
      else skill_loop_clamp_only i tech (a :: seg) r
  end.
Definition svrp_checker_clamp_only (i : svrp_inst) (acts : list nat) : bool := ssorted_ok i acts && skill_loop_clamp_only i 0 [] acts.

Theorem svrp_checker_clamped_route_refuted :
  exists i acts, svrp_wfb i = true /\ svrp_solvableb i = true /\
    svrp_checker_clamp_only i acts = true /\ svrp_feasibleb i acts = false /\
    svrp_checker true i acts = false.
Proof.
  exists {| techs := [1; 2; 3]; skills := [1]; tcosts := [1; 2; 3]; sdist := [] |}, [0; 0; 0; 1; 0]%nat.
  vm_compute. repeat split; reflexivity.
Qed.
