(* Correspondence harness for C20: the *translated* code (Gen/*.v, regenerated from /repo) is run at the
   executable field Qc on the recorded inputs and compared with what the real classes returned. *)
From Coq Require Import List ZArith QArith Qcanon Bool.
From RL4CO Require Import Base.OField Base.OFieldQc Train.Welford Train.Baselines Gen.GenWelford Gen.GenBaselines.
Import ListNotations.

Definition toQc (q : Q) : Qc := Q2Qc q.
Definition Qcabs (x : Qc) : Qc := if Qcleb 0%Qc x then x else Qcopp x.
(* |a - b| <= tol * (1 + |b|) *)
Definition close (tol a b : Qc) : bool := Qcleb (Qcabs (a - b)%Qc) (tol * (1 + Qcabs b))%Qc.

(* --- RewardScaler.update over a history; impl state after each batch --- *)
Definition scaler_obs := (Z * Q * Q)%type.   (* count, mean, M2 reported by the implementation *)
(* a batch is a tensor given as the list of its rows along the leading dimension *)
Fixpoint scaler_steps (tol : Qc) (k : Z) (st : nat * Qc * Qc) (h : list (list (list Q) * scaler_obs)) : Z :=
  match h with
  | [] => 0%Z
  | (b, (ic, im, iM)) :: rest =>
      match st with (c, m, M2) =>
        let st' := gen_scaler_update QcF c m M2 (map (map toQc) b) in
        match st' with (c', m', M2') =>
          if negb (Z.eqb (Z.of_nat c') ic) then (1000 * k + 1)%Z
          else if negb (close tol (toQc im) m') then (1000 * k + 2)%Z
          else if negb (close tol (toQc iM) M2') then (1000 * k + 3)%Z
          else scaler_steps tol (k + 1)%Z st' rest
        end
      end
  end.
Definition check_scaler (c : Q * list (list (list Q) * scaler_obs)) : Z :=
  scaler_steps (toQc (fst c)) 1%Z (0%nat, 0%Qc, 0%Qc) (snd c).

(* --- ExponentialBaseline over a history of reward batches --- *)
Fixpoint ema_steps (tol beta : Qc) (k : Z) (v : option Qc) (h : list (list Q * Q)) : Z :=
  match h with
  | [] => 0%Z
  | (r, iv) :: rest =>
      match gen_ema_eval QcF beta v (map toQc r) with
      | (v', val, loss) =>
          if negb (close tol (toQc iv) val) then (1000 * k + 4)%Z
          else if negb (Qc_eq_bool loss 0%Qc) then (1000 * k + 5)%Z
          else ema_steps tol beta (k + 1)%Z v' rest
      end
  end.
Definition check_ema (c : Q * Q * list (list Q * Q)) : Z :=
  match c with (tol, beta, h) => ema_steps (toQc tol) (toQc beta) 1%Z None h end.

(* --- WarmupBaseline: epoch callbacks then one eval with given inner results --- *)
Definition warm_case := (nat * list nat * (Q * Q * Q * Q) * (Q * Q * Q))%type.
(* n_epochs, epochs passed to epoch_callback in order, (v_b,l_b,v_wb,l_wb), impl (alpha, value, loss) *)
Definition check_warmup (tolc : Q * warm_case) : Z :=
  match tolc with (tol, (n, eps, (vb, lb, vwb, lwb), (ia, iv, il))) =>
    let alpha := fold_left (fun a e => gen_warmup_epoch_callback QcF a n e) eps 0%Qc in
    match gen_warmup_eval QcF alpha (toQc vb) (toQc lb) (toQc vwb) (toQc lwb) with
    | (v, l) =>
        if negb (close (toQc tol) (toQc ia) alpha) then 6%Z
        else if negb (close (toQc tol) (toQc iv) v) then 7%Z
        else if negb (close (toQc tol) (toQc il) l) then 8%Z else 0%Z
    end
  end.

(* --- RewardScaler.__call__ on single-valued histories (variance 0): exact comparison --------------------
   case = (norm?, eps = torch.finfo(dtype).eps, history of (batch, what the real __call__ returned)).
   The abstract square root is instantiated by a function with sq 0 = 0 (the hypothesis of
   C20_scaler_*_zero_variance); the check first verifies that the model's running variance IS 0, so no other
   value of sq is ever used.  Steps after which count = 1 are not compared (0/0: nan in the float code). *)
Definition sq_at_zero (x : Qc) : Qc := 0%Qc.
Fixpoint qc_list_eqb (a : list Qc) (b : list Q) : bool :=
  match a, b with
  | [], [] => true
  | x :: a', y :: b' => Qc_eq_bool x (toQc y) && qc_list_eqb a' b'
  | _, _ => false
  end.
Fixpoint call_steps (norm : bool) (eps : Qc) (k : Z) (s : wstate QcF) (h : list (list Q * list Q)) : Z :=
  match h with
  | [] => 0%Z
  | (b, out) :: rest =>
      let r := if norm then w_call_norm (K:=QcF) sq_at_zero eps s (map toQc b)
               else w_call_scale (K:=QcF) sq_at_zero eps s (map toQc b) in
      let s' := fst r in
      if Nat.leb (w_count s') 1 then call_steps norm eps (k + 1)%Z s' rest
      else if negb (Qc_eq_bool (w_var s') 0%Qc) then (1000 * k + 9)%Z
      else if negb (qc_list_eqb (snd r) out) then (1000 * k + 10)%Z
      else call_steps norm eps (k + 1)%Z s' rest
  end.
Definition check_call_zero_var (c : bool * Q * list (list Q * list Q)) : Z :=
  match c with (norm, eps, h) => call_steps norm (toQc eps) 1%Z (w_init (K:=QcF)) h end.
