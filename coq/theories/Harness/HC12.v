(* Correspondence harness for C12: the models of Decoding/*.v are run (vm_compute) on the inputs the real
   rl4co functions were run on and compared with the recorded outputs.  Result code 0 = agree. *)
From Coq Require Import List ZArith Bool Arith.
From RL4CO Require Import Decoding.Batchify Decoding.Nest Decoding.Layout Decoding.SelectBest Decoding.Starts.
Import ListNotations.

Definition eq_natlist (a b : list nat) : bool :=
  (length a =? length b) && forallb (fun p => fst p =? snd p) (combine a b).

Definition eq_optnat (a b : option nat) : bool :=
  match a, b with Some x, Some y => x =? y | None, None => true | _, _ => false end.

(* ---- batchify(x, shape): input rows tagged by [x], output tags recorded ---- *)
Definition batchify_case := (list Z * list nat * list nat)%type.
Definition check_batchify (c : batchify_case) : Z :=
  match c with (shape, x, out) =>
    let m := batchify shape x in
    if negb (length m =? length out) then 1%Z
    else if negb (eq_natlist m out) then 2%Z
    else (* the row theorem, evaluated: every output row r holds input row r mod B *)
      if negb (forallb (fun r => eq_optnat (nth_error out r) (nth_error x (r mod length x))) (seq 0 (length out))) then 3%Z
      else 0%Z
  end.

(* ---- unbatchify(x, shape): None = the implementation raised; Some (leading dims, row-major tags) ---- *)
Definition unbatchify_case := (list Z * list nat * option (list nat * list nat))%type.
Definition check_unbatchify (c : unbatchify_case) : Z :=
  match c with (shape, x, obs) =>
    match unbatchify shape (rows_of x), obs with
    | None, None => 0%Z
    | None, Some _ => 11%Z
    | Some _, None => 12%Z
    | Some u, Some (dims, fl) =>
        if negb (eq_natlist (dims_of u) dims) then 13%Z
        else if negb (eq_natlist (flat u) fl) then 14%Z
        else (* round trip back to rows with the model's inverse *)
          if negb (eq_natlist (flat (rebatchify_nat (posfactors shape) u)) x) then 15%Z else 0%Z
    end
  end.

(* ---- the same two checks with row tags of type N.  The models are polymorphic in the row type, so the tags
   can travel as binary numbers: a [nat] literal is unary, and a case with L rows tagged 0..L-1 costs ~L^2/2
   constructors to parse and type-check (L = 2744: 45 s and 2.9 GB for ONE case; with N tags 1.3 s).  Only
   the tags change type; dimensions, factors and the row arithmetic [r mod B] stay in nat. ---- *)
Definition eq_Nlist (a b : list N) : bool :=
  (length a =? length b) && forallb (fun p => N.eqb (fst p) (snd p)) (combine a b).
Definition eq_optN (a b : option N) : bool :=
  match a, b with Some x, Some y => N.eqb x y | None, None => true | _, _ => false end.

Definition batchify_caseN := (list Z * list N * list N)%type.
Definition check_batchifyN (c : batchify_caseN) : Z :=
  match c with (shape, x, out) =>
    let m := batchify shape x in
    if negb (length m =? length out) then 1%Z
    else if negb (eq_Nlist m out) then 2%Z
    else if negb (forallb (fun r => eq_optN (nth_error out r) (nth_error x (r mod length x))) (seq 0 (length out))) then 3%Z
      else 0%Z
  end.

Definition unbatchify_caseN := (list Z * list N * option (list nat * list N))%type.
Definition check_unbatchifyN (c : unbatchify_caseN) : Z :=
  match c with (shape, x, obs) =>
    match unbatchify shape (rows_of x), obs with
    | None, None => 0%Z
    | None, Some _ => 11%Z
    | Some _, None => 12%Z
    | Some u, Some (dims, fl) =>
        if negb (eq_natlist (dims_of u) dims) then 13%Z
        else if negb (eq_Nlist (flat u) fl) then 14%Z
        else if negb (eq_Nlist (flat (rebatchify_nat (posfactors shape) u)) x) then 15%Z else 0%Z
    end
  end.

(* ---- gather_by_index(unbatchify(x, shape), idx, dim=idx.dim())  (shape = [n]: unbatchify_and_gather) ---- *)
Definition gather_case := (list Z * list nat * nest nat * option (list nat * list nat))%type.
Definition check_gather (c : gather_case) : Z :=
  match c with (shape, x, idx, obs) =>
    let m := match unbatchify shape (rows_of x) with Some u => gather_nest idx u | None => None end in
    match m, obs with
    | None, None => 0%Z
    | None, Some _ => 21%Z
    | Some _, None => 22%Z
    | Some u, Some (dims, fl) =>
        if negb (eq_natlist (dims_of u) dims) then 23%Z
        else if negb (eq_natlist (flat u) fl) then 24%Z else 0%Z
    end
  end.

(* the same through ops.unbatchify_and_gather itself *)
Definition uag_case := (Z * list nat * nest nat * option (list nat * list nat))%type.
Definition check_uag (c : uag_case) : Z :=
  match c with (n, x, idx, obs) =>
    match unbatchify_and_gather (rows_of x) idx n, obs with
    | None, None => 0%Z
    | None, Some _ => 25%Z
    | Some _, None => 26%Z
    | Some u, Some (dims, fl) =>
        if negb (eq_natlist (dims_of u) dims) then 27%Z
        else if negb (eq_natlist (flat u) fl) then 28%Z else 0%Z
    end
  end.

(* ---- _select_best: rewards (scaled integers), rows tagged r / 1000+r / 2000+r ---- *)
Definition select_case := (nat * list Z * option (list nat * list nat * list nat))%type.
Definition check_select_best (c : select_case) : Z :=
  match c with (k, rewards, obs) =>
    let L := length rewards in
    match select_best k rewards (seq 0 L) (seq 1000 L) (seq 2000 L), obs with
    | None, None => 0%Z
    | None, Some _ => 31%Z
    | Some _, None => 32%Z
    | Some (l, a, t), Some (oa, ol, ot) =>
        if negb (eq_natlist (flat a) oa) then 33%Z
        else if negb (eq_natlist (flat l) ol) then 34%Z
        else if negb (eq_natlist (flat t) ot) then 35%Z else 0%Z
    end
  end.

(* ---- get_num_starts / select_start_nodes ---- *)
Definition numstarts_case := (env_name * bool * nat * Z)%type.   (* name, via env method, N, observed *)
Definition check_num_starts (c : numstarts_case) : Z :=
  match c with (name, via_env, N, obs) =>
    let m := if via_env then env_get_num_starts name N else ops_get_num_starts name N in
    if (m =? obs)%Z then 0%Z else 41%Z
  end.

(* the oracle is a table of the implementation's own draws (decoded from its output by the python side:
   draws[b][j] = selected[j*B + b] - 1 for OP); contract = every draw has positive weight *)
Definition table_draw (tbl : list (list nat)) (b j : nat) : nat := nth j (nth b tbl []) 0.
Definition draws_positiveb (k : nat) (weights : list (list bool)) (tbl : list (list nat)) : bool :=
  forallb (fun b => forallb (fun j => nth (table_draw tbl b j) (nth b weights []) false) (seq 0 k))
          (seq 0 (length weights)).

(* name, generator.num_loc, N, k, reset masks, via env method?, draw table, observed selection *)
Definition starts_case := (env_name * option nat * nat * nat * list (list bool) * bool * list (list nat) * option (list nat))%type.
Definition check_starts (c : starts_case) : Z :=
  match c with (name, gen, N, k, masks, via_env, tbl, obs) =>
    let m := if via_env then env_select_start_nodes name gen N k masks (table_draw tbl)
             else ops_select_start_nodes name gen k masks (table_draw tbl) in
    match m, obs with
    | None, None => 0%Z
    | None, Some _ => 51%Z
    | Some _, None => 52%Z
    | Some sel, Some o =>
        if negb (eq_natlist sel o) then 53%Z
        else match name with
             | Eop => if op_needs_resample k masks && negb (draws_positiveb k (map (@tl bool) masks) tbl) then 54%Z else 0%Z
             | _ => 0%Z
             end
    end
  end.

(* sample_n_random_actions: n, masks, draw table (draws[b][j] = selected[j*B+b]), observed; contract:
   positive weight, and pairwise distinct per row when drawn without replacement *)
Definition nodupb (l : list nat) : bool :=
  (fix go (l : list nat) : bool := match l with [] => true | a :: r => negb (existsb (Nat.eqb a) r) && go r end) l.
Definition sample_case := (nat * list (list bool) * list (list nat) * option (list nat))%type.
Definition check_sample (c : sample_case) : Z :=
  match c with (n, masks, tbl, obs) =>
    match sample_n_random_actions n masks (table_draw tbl), obs with
    | None, None => 0%Z
    | None, Some _ => 61%Z
    | Some _, None => 62%Z
    | Some sel, Some o =>
        if negb (eq_natlist sel o) then 63%Z
        else if negb (draws_positiveb n masks tbl) then 64%Z
        else if negb (sample_replace n masks) && negb (forallb (fun row => nodupb (firstn n row)) tbl) then 65%Z
        else 0%Z
    end
  end.

(* ---- DecodingStrategy.__init__ + pre_decoder_hook ---- *)
(* init args (multistart, multisample, num_starts, num_samples), env default, B, the start nodes the real
   selection returned (fed to the model as the selection), observed (num_starts, rows as (instance, action)) *)
Definition hook_case := (bool * bool * option Z * option Z * Z * nat * list nat * option (Z * list (nat * option nat)))%type.
Definition eq_rows (a b : list (nat * option nat)) : bool :=
  (length a =? length b) &&
  forallb (fun p => (fst (fst p) =? fst (snd p)) && eq_optnat (snd (fst p)) (snd (snd p))) (combine a b).
Definition check_hook (c : hook_case) : Z :=
  match c with (ms, mp, ns, nsamp, dflt, B, sel, obs) =>
    match strategy_init ms mp ns nsamp with
    | None => match obs with None => 0%Z | Some _ => 71%Z end
    | Some (ms', mp', ns') =>
        let n := hook_num_starts ms' mp' ns' dflt in
        match pre_decoder_hook_rows ms' n (fun _ => Some sel) (seq 0 B), obs with
        | None, None => 0%Z
        | None, Some _ => 72%Z
        | Some _, None => 73%Z
        | Some rows, Some (on, orows) =>
            if negb (n =? on)%Z then 74%Z else if negb (eq_rows rows orows) then 75%Z else 0%Z
        end
    end
  end.

(* ---- replica coordinates through the real pipeline (augment, then multistart; optionally runs first):
   observed, per row of the expanded batch, the instance and the copy indices (last stage first) ---- *)
Definition stages_case := (nat * list nat * list (nat * list nat))%type.
Definition check_stages (c : stages_case) : Z :=
  match c with (B, gs, obs) =>
    let m := expand_stages gs (seq 0 B) in
    if negb (length m =? length obs) then 81%Z
    else if forallb (fun p => (fst (fst p) =? fst (snd p)) && eq_natlist (snd (fst p)) (snd (snd p))) (combine m obs)
         then 0%Z else 82%Z
  end.

(* ---- the decoder's regrouping: rearrange(f(unbatchify(x, s)), "b s ... -> (s b) ...") ---- *)
Definition regroup_case := (nat * list nat * list nat)%type.
Definition check_regroup (c : regroup_case) : Z :=
  match c with (s, x, out) =>
    match unbatchify_single s x with
    | None => 91%Z
    | Some y => if eq_natlist (regroup s y) out then 0%Z else 92%Z
    end
  end.
