(* Correspondence harness of the units `graph` of C02 / C03 / C04: FLP, MCP, DPP, MDPP.
   Result codes  1000 * step + tag :
     concrete  4 reward differs from the objective recomputed from (instance, actions)   8 empty implementation mask row
               before done   9 finished row became unfinished   10 first done not exactly at the quota
     disagree  1 mask differs (C04) / mask emptiness differs (C02)   2 action outside the model mask   3 done differs
               5 model reward differs   7 model step = None   9xx see below   20 instance outside the documented format
               30 batched distance bookkeeping differs from the batched model   31 batched model raises *)
From Coq Require Import ZArith List Bool Lia Arith.
From RL4CO Require Import Env.Selection Env.FLP Env.MCP Env.DPP Env.GraphBatch Harness.HC08.
Import ListNotations.
Open Scope Z_scope.

Definition anyb (l : list bool) : bool := existsb (fun b => b) l.

(* ---------------------------------------------------------------- C02 (all four envs) *)
(* a step as observed: (action, implementation mask non-empty afterwards, implementation done afterwards) *)
Section C02.
  Variables (st : Type) (step : st -> nat -> option st) (mask : st -> list bool) (done : st -> bool).
  (* [dead_ok]: an empty mask is legitimate (quota exceeds the number of allowed items: outside the no-dead-end theorem) *)
  Fixpoint c02_walk (k : Z) (s : st) (prev_done : bool) (first : nat) (steps : list (nat * (bool * bool))) : Z * nat :=
    match steps with
    | [] => (if prev_done then 0 else 12, first)
    | (a, (ne, d)) :: r =>
        if negb (nth a (mask s) false) then (1000 * k + 2, first)
        else match step s a with
             | None => (1000 * k + 7, first)
             | Some s' =>
                 let first' := if prev_done then first else S first in
                 if prev_done && negb d then (1000 * k + 9, first')
                 else if negb (Bool.eqb ne (anyb (mask s'))) then (1000 * k + 1, first')
                 else if negb (Bool.eqb d (done s')) then (1000 * k + 3, first')
                 else c02_walk (k + 1) s' d first' r
             end
    end.
End C02.

(* every row: (instance, allowed-at-all count, quota, steps);  an empty mask BEFORE done with quota <= allowed is tag 8 *)
Definition c02_finish (q : Z) (allowed : nat) (res : Z * nat) (steps : list (nat * (bool * bool))) : Z :=
  match res with (code, first) =>
    if negb (code =? 0) then code
    else if existsb (fun x => match x with (_, (ne, d)) => negb ne && negb d end) steps && (q <=? Z.of_nat allowed) then 8
    else if negb (Z.of_nat first =? q) then 10 else 0
  end.
Definition check_C02_flp (c : flp_inst * list (nat * (bool * bool))) : Z :=
  match c with (ins, steps) =>
    if negb (flp_wfb ins) then 20
    else c02_finish (f_q ins) (f_n ins) (c02_walk flp_st (flp_step ins) f_mask f_done 1 (flp_reset ins) false 0 steps) steps end.
Definition check_C02_mcp (c : mcp_inst * list (nat * (bool * bool))) : Z :=
  match c with (ins, steps) =>
    if negb (mcp_wfb ins) then 20
    else c02_finish (m_q ins) (length (m_mem ins)) (c02_walk mcp_st (mcp_step ins) m_mask m_done 1 (mcp_reset ins) false 0 steps) steps end.
Definition check_C02_dpp (c : dpp_inst * list (nat * (bool * bool))) : Z :=
  match c with (ins, steps) =>
    if negb (dpp_wfb ins) then 20
    else c02_finish (d_q ins) (count_true (d_avail ins)) (c02_walk dpp_st (dpp_step ins) d_mask d_done 1 (dpp_reset ins) false 0 steps) steps end.
Definition check_C02_mdpp (c : mdpp_inst * list (nat * (bool * bool))) : Z :=
  match c with (ins, steps) =>
    if negb (mdpp_wfb ins) then 20
    else c02_finish (md_q ins) (count_true (mdpp_mask0 ins)) (c02_walk dpp_st (mdpp_step ins) d_mask d_done 1 (mdpp_reset ins) false 0 steps) steps end.

(* ---------------------------------------------------------------- C03 (FLP, MCP) *)
(* (instance, ALL actions the row executed, reported reward, tolerance) -- the objective from instance + actions only *)
Definition check_C03_flp (c : flp_inst * list nat * (Z * Z)) : Z :=
  match c with (ins, acts, (rew, tol)) =>
    if negb (flp_wfb ins) then 20
    else match acts with
         | [] => 12
         | _ =>
           let obj := - sumZ (map (spec_mindist ins acts) (seq 0 (f_n ins))) in
           if negb (Z.abs (rew - obj) <=? tol) then 4
           else match flp_run_all ins (flp_reset ins) acts with
                | None => 7
                | Some s => match flp_reward ins s with
                            | Some r => if Z.abs (rew - r) <=? tol then 0 else 5
                            | None => 7
                            end
                end
         end
  end.
Definition check_C03_mcp (c : mcp_inst * list nat * Z) : Z :=
  match c with (ins, acts, rew) =>
    if negb (mcp_wfb ins) then 20
    else let obj := sumZ (map (fun j => if coveredb (m_mem ins) acts j then nth j (m_w ins) 0 else 0) (seq 0 (length (m_w ins)))) in
         if negb (rew =? obj) then 4
         else match mcp_run_all ins (mcp_reset ins) acts with
              | None => 7
              | Some s => match mcp_reward ins s with Some r => if r =? rew then 0 else 5 | None => 7 end
              end
  end.

(* ---------------------------------------------------------------- C04 *)
(* the row model reproduces a row of a batch: mask (equal), done; (action, (impl mask, impl done)) *)
Section C04.
  Variables (st : Type) (step : st -> nat -> option st) (mask : st -> list bool) (done : st -> bool).
  Definition c04_cmp (s : st) (o : list bool * bool) : Z :=
    let t := mask_tag (fst o) (mask s) in if negb (t =? 0) then 1 else if negb (Bool.eqb (snd o) (done s)) then 3 else 0.
  Definition c04_walk (s0 : st) (m0 : list bool) (steps : list (nat * (list bool * bool))) : Z :=
    if negb (bl_eq m0 (mask s0)) then 1
    else match walk st (list bool * bool) step mask c04_cmp 1 s0 steps with inl code => code | inr _ => 0 end.
End C04.
Definition check_C04_flp (c : flp_inst * list bool * list (nat * (list bool * bool))) : Z :=
  match c with (ins, m0, steps) => if negb (flp_wfb ins) then 20 else c04_walk flp_st (flp_step ins) f_mask f_done (flp_reset ins) m0 steps end.
Definition check_C04_mcp (c : mcp_inst * list bool * list (nat * (list bool * bool))) : Z :=
  match c with (ins, m0, steps) => if negb (mcp_wfb ins) then 20 else c04_walk mcp_st (mcp_step ins) m_mask m_done (mcp_reset ins) m0 steps end.
Definition check_C04_dpp (c : dpp_inst * list bool * list (nat * (list bool * bool))) : Z :=
  match c with (ins, m0, steps) => if negb (dpp_wfb ins) then 20 else c04_walk dpp_st (dpp_step ins) d_mask d_done (dpp_reset ins) m0 steps end.
Definition check_C04_mdpp (c : mdpp_inst * list bool * list (nat * (list bool * bool))) : Z :=
  match c with (ins, m0, steps) => if negb (mdpp_wfb ins) then 20 else c04_walk dpp_st (mdpp_step ins) d_mask d_done (mdpp_reset ins) m0 steps end.

(* FLP's batched distance update: the whole batch (instance, chosen) after a step, and td["distances"] per row *)
Definition check_flp_bview (c : list (flp_inst * list bool) * list (list Z)) : Z :=
  match c with (rows, impl) =>
    match flp_b_curmin rows with
    | None => 31
    | Some ds => if zll_eq ds impl then 0 else 30
    end
  end.

Example c02_flp_selftest : check_C02_flp (flp_ex, [(3%nat, (true, false)); (1%nat, (true, true))]) = 0.
Proof. vm_compute. reflexivity. Qed.
Example c03_flp_selftest : check_C03_flp (flp_ex, [3%nat; 1%nat], (-9, 0)) = 0 /\ check_C03_flp (flp_ex, [3%nat; 1%nat], (-8, 0)) = 4.
Proof. vm_compute. split; reflexivity. Qed.
Example c03_mcp_selftest : check_C03_mcp (mcp_ex, [0%nat; 3%nat], 120) = 0.
Proof. vm_compute. reflexivity. Qed.
Example bview_selftest : check_flp_bview ([(flp_ex, [false; true; false; true]); (flp_ex, [true; false; false; true])],
                                          [[5; 0; 4; 0]; [0; 5; 4; 0]]) = 0.
Proof. vm_compute. reflexivity. Qed.
