(* Correspondence harness for C10: the model of Decoding/ProcessLogits.v is run at the executable instance
   (L := Z, K := Qc, e := 2^z) on the inputs the real process_logits / Greedy / Sampling were given
   (logits = z * ln 2, temperature = td / tm) and compared with what they returned.  Result codes:
     0  agree
     1  input outside the model's well-formedness (pl_wfb, or temperature division not exact)
     2  implementation vectors have the wrong length
     3  support differs
     4  a probability differs by more than the tolerance
     5  support differs, but a cumulative probability is within the margin of 1 - top_p : not comparable in floats
     6  the greedy action is not a maximiser of the model distribution
     7  a sampled action has model probability 0
     9  support differs only in WHICH of several equal logits was cut by top-p (tie-breaking of the sort) *)
From Coq Require Import List ZArith QArith Qcanon Bool.
From RL4CO Require Import Base.OField Base.OFieldQc Decoding.PLTensor Decoding.ProcessLogits Decoding.PLInst.
Import ListNotations.

Definition toQc (q : Q) : Qc := Q2Qc q.
Definition Qcabs (x : Qc) : Qc := if Qcleb 0%Qc x then x else Qcopp x.

Record pl_case := mk_pl {
  c_tm : Z; c_td : Z;                 (* temperature = td / tm : logits are multiplied by tm and divided by td *)
  c_topk : nat; c_topp : Q;
  c_logits : list Z; c_mask : list bool;
  c_isupp : list bool;                (* implementation: log-probability > -inf *)
  c_iprobs : list Q;                  (* implementation: exp(log-probability), exact value of the float *)
  c_greedy : Z;                       (* implementation: Greedy action, -1 = not recorded *)
  c_sampled : list nat;               (* implementation: distinct actions returned by Sampling *)
  c_tol : Q; c_margin : Q
}.

Definition case_tmp (c : pl_case) : Z -> Z := tdiv (c_tm c) (c_td c).
Definition case_pre (c : pl_case) : list (option Z) := preQ (fun z => z) (case_tmp c) (c_mask c) (c_logits c).
Definition case_model (c : pl_case) : list Qc :=
  plQ (fun z => z) (case_tmp c) (c_mask c) (toQc (c_topp c)) (c_topk c) (c_logits c).

Definition case_wfb (c : pl_case) : bool :=
  pl_wfb QcF Z (c_mask c) (toQc (c_topp c)) (c_logits c)
  && (0 <? c_tm c)%Z && (0 <? c_td c)%Z
  && forallb (fun z => Z.eqb ((z * c_tm c) mod c_td c) 0) (c_logits c).

Fixpoint list_eqb (a b : list bool) : bool :=
  match a, b with
  | [], [] => true
  | x :: a', y :: b' => Bool.eqb x y && list_eqb a' b'
  | _, _ => false
  end.

(* distance of the top-p threshold to the nearest cumulative probability the model compares it with *)
Definition case_margin_ok (c : pl_case) : bool :=
  let p := toQc (c_topp c) in
  if (Qcleb p 0%Qc) || (Qcleb 1%Qc p) then true else
  let a := topk_stage Z Z.leb (c_topk c) (case_pre c) in
  let cum := tp_cum QcF Z Z.leb pow2 a in
  (* margin 0 = exact stream (all probabilities dyadic, float arithmetic exact): always comparable *)
  Qcleb (toQc (c_margin c)) 0%Qc
  || forallb (fun x => negb (Qcleb (Qcabs (x - (1 - p))%Qc) (toQc (c_margin c)))) cum.

Definition oZ_eqb (a b : option Z) : bool :=
  match a, b with Some x, Some y => Z.eqb x y | None, None => true | _, _ => false end.

(* same number of survivors in every class of equal (scaled, masked) logits *)
Definition tie_equiv (pre : list (option Z)) (s1 s2 : list bool) : bool :=
  forallb (fun v =>
    Nat.eqb (count (fun vb => oZ_eqb (fst vb) v && snd vb) (combine pre s1))
            (count (fun vb => oZ_eqb (fst vb) v && snd vb) (combine pre s2))) pre.

Fixpoint probs_close (tol : Qc) (ip : list Q) (mp : list Qc) : bool :=
  match ip, mp with
  | [], [] => true
  | x :: ip', y :: mp' => Qcleb (Qcabs (toQc x - y)%Qc) tol && probs_close tol ip' mp'
  | _, _ => false
  end.

Definition is_maximiser (mp : list Qc) (g : nat) : bool :=
  let v := nth g mp (Qcopp 1%Qc) in forallb (fun x => Qcleb x v) mp.

Definition check_pl (c : pl_case) : Z :=
  if negb (case_wfb c) then 1%Z else
  let mp := case_model c in
  let msupp := map (fun x : Qc => negb (Qcleb x 0%Qc)) mp in
  if negb (Nat.eqb (length (c_isupp c)) (length mp) && Nat.eqb (length (c_iprobs c)) (length mp)) then 2%Z else
  if negb (list_eqb msupp (c_isupp c)) then
    (if negb (case_margin_ok c) then 5%Z
     else if tie_equiv (case_pre c) msupp (c_isupp c) then 9%Z else 3%Z)
  else if negb (probs_close (toQc (c_tol c)) (c_iprobs c) mp) then 4%Z
  else if (0 <=? c_greedy c)%Z && negb (is_maximiser mp (Z.to_nat (c_greedy c))) then 6%Z
  else if negb (forallb (fun a => negb (Qcleb (nth a mp 0%Qc) 0%Qc)) (c_sampled c)) then 7%Z
  else 0%Z.

(* self-test of the harness on the documented example (Decoding/PLInst.v, plQ_example_1) *)
Example check_pl_selftest :
  check_pl (mk_pl 1 1 2 (1 # 2) [3; 9; 1; 3]%Z [true; false; true; true]
                  [false; false; false; true] [0; 0; 0; 1]%Q 3 [3%nat] (1 # 100000) (1 # 1000)) = 0%Z
  /\ check_pl (mk_pl 1 1 2 (1 # 2) [3; 9; 1; 3]%Z [true; false; true; true]
                  [true; false; false; false] [1; 0; 0; 0]%Q 0 [0%nat] (1 # 100000) (1 # 1000)) = 5%Z
  /\ check_pl (mk_pl 1 1 2 (2 # 5) [3; 9; 1; 3]%Z [true; false; true; true]
                  [true; false; false; false] [1; 0; 0; 0]%Q 0 [0%nat] (1 # 100000) (1 # 1000)) = 9%Z
  /\ check_pl (mk_pl 1 1 2 (2 # 5) [3; 9; 1; 3]%Z [true; false; true; true]
                  [true; false; true; true] [1 # 3; 0; 1 # 3; 1 # 3]%Q 0 [0%nat] (1 # 100000) (1 # 1000)) = 3%Z.
Proof. vm_compute. repeat split. Qed.
