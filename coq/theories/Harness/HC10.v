(* Correspondence harness for C10: the model of Decoding/ProcessLogits.v is run at the executable instance
   (L := Z, K := Qc, e := 2^z) on the inputs the real process_logits / Greedy / Sampling were given
   (logits = z * ln 2, temperature = td / tm) and compared with what they returned.  Result codes:
     0  agree
     1  input outside the model's well-formedness (pl_wfb, or temperature division not exact)
     2  implementation vectors have the wrong length
     3  support differs
     4  a probability differs by more than the tolerance
     5  support differs, but a cumulative probability is within the margin of 1 - top_p : not comparable in floats
     6  the greedy action is not a maximiser of the model distribution
     7  a sampled action has model probability 0
     9  support differs only in WHICH of several equal logits was cut by top-p (tie-breaking of the sort) *)
From Coq Require Import List ZArith QArith Qcanon Bool.
From RL4CO Require Import Base.OField Base.OFieldQc Decoding.PLTensor Decoding.ProcessLogits Decoding.PLInst.
Import ListNotations.

Definition toQc (q : Q) : Qc := Q2Qc q.
Definition Qcabs (x : Qc) : Qc := if Qcleb 0%Qc x then x else Qcopp x.

Record pl_case := mk_pl {
  c_tm : Z; c_td : Z;                 (* temperature = td / tm : logits are multiplied by tm and divided by td *)
  c_topk : nat; c_topp : Q;
  c_logits : list Z; c_mask : list bool;
  c_isupp : list bool;                (* implementation: log-probability > -inf *)
  c_iprobs : list Q;                  (* implementation: exp(log-probability), exact value of the float *)
  c_greedy : Z;                       (* implementation: Greedy action, -1 = not recorded *)
  c_sampled : list nat;               (* implementation: distinct actions returned by Sampling *)
  c_tol : Q; c_margin : Q
}.

Definition case_tmp (c : pl_case) : Z -> Z := tdiv (c_tm c) (c_td c).
Definition case_pre (c : pl_case) : list (option Z) := preQ (fun z => z) (case_tmp c) (c_mask c) (c_logits c).
Definition case_model (c : pl_case) : list Qc :=
  plQ (fun z => z) (case_tmp c) (c_mask c) (toQc (c_topp c)) (c_topk c) (c_logits c).

Definition case_wfb (c : pl_case) : bool :=
  pl_wfb QcF Z (c_mask c) (toQc (c_topp c)) (c_logits c)
  && (0 <? c_tm c)%Z && (0 <? c_td c)%Z
  && forallb (fun z => Z.eqb ((z * c_tm c) mod c_td c) 0) (c_logits c).

Fixpoint list_eqb (a b : list bool) : bool :=
  match a, b with
  | [], [] => true
  | x :: a', y :: b' => Bool.eqb x y && list_eqb a' b'
  | _, _ => false
  end.

(* distance of the top-p threshold to the nearest cumulative probability the model compares it with *)
Definition case_margin_ok (c : pl_case) : bool :=
  let p := toQc (c_topp c) in
  if (Qcleb p 0%Qc) || (Qcleb 1%Qc p) then true else
  let a := topk_stage Z Z.leb (c_topk c) (case_pre c) in
  let cum := tp_cum QcF Z Z.leb pow2 a in
  (* margin 0 = exact stream (all probabilities dyadic, float arithmetic exact): always comparable *)
  Qcleb (toQc (c_margin c)) 0%Qc
  || forallb (fun x => negb (Qcleb (Qcabs (x - (1 - p))%Qc) (toQc (c_margin c)))) cum.

Definition oZ_eqb (a b : option Z) : bool :=
  match a, b with Some x, Some y => Z.eqb x y | None, None => true | _, _ => false end.

(* same number of survivors in every class of equal (scaled, masked) logits *)
Definition tie_equiv (pre : list (option Z)) (s1 s2 : list bool) : bool :=
  forallb (fun v =>
    Nat.eqb (count (fun vb => oZ_eqb (fst vb) v && snd vb) (combine pre s1))
            (count (fun vb => oZ_eqb (fst vb) v && snd vb) (combine pre s2))) pre.

Fixpoint probs_close (tol : Qc) (ip : list Q) (mp : list Qc) : bool :=
  match ip, mp with
  | [], [] => true
  | x :: ip', y :: mp' => Qcleb (Qcabs (toQc x - y)%Qc) tol && probs_close tol ip' mp'
  | _, _ => false
  end.

Definition is_maximiser (mp : list Qc) (g : nat) : bool :=
  let v := nth g mp (Qcopp 1%Qc) in forallb (fun x => Qcleb x v) mp.

Definition check_pl (c : pl_case) : Z :=
  if negb (case_wfb c) then 1%Z else
  let mp := case_model c in
  let msupp := map (fun x : Qc => negb (Qcleb x 0%Qc)) mp in
  if negb (Nat.eqb (length (c_isupp c)) (length mp) && Nat.eqb (length (c_iprobs c)) (length mp)) then 2%Z else
  if negb (list_eqb msupp (c_isupp c)) then
    (if negb (case_margin_ok c) then 5%Z
     else if tie_equiv (case_pre c) msupp (c_isupp c) then 9%Z else 3%Z)
  else if negb (probs_close (toQc (c_tol c)) (c_iprobs c) mp) then 4%Z
  else if (0 <=? c_greedy c)%Z && negb (is_maximiser mp (Z.to_nat (c_greedy c))) then 6%Z
  else if negb (forallb (fun a => negb (Qcleb (nth a mp 0%Qc) 0%Qc)) (c_sampled c)) then 7%Z
  else 0%Z.

(* self-test of the harness on the documented example (Decoding/PLInst.v, plQ_example_1) *)
Example check_pl_selftest :
  check_pl (mk_pl 1 1 2 (1 # 2) [3; 9; 1; 3]%Z [true; false; true; true]
                  [false; false; false; true] [0; 0; 0; 1]%Q 3 [3%nat] (1 # 100000) (1 # 1000)) = 0%Z
  /\ check_pl (mk_pl 1 1 2 (1 # 2) [3; 9; 1; 3]%Z [true; false; true; true]
                  [true; false; false; false] [1; 0; 0; 0]%Q 0 [0%nat] (1 # 100000) (1 # 1000)) = 5%Z
  /\ check_pl (mk_pl 1 1 2 (2 # 5) [3; 9; 1; 3]%Z [true; false; true; true]
                  [true; false; false; false] [1; 0; 0; 0]%Q 0 [0%nat] (1 # 100000) (1 # 1000)) = 9%Z
  /\ check_pl (mk_pl 1 1 2 (2 # 5) [3; 9; 1; 3]%Z [true; false; true; true]
                  [true; false; true; true] [1 # 3; 0; 1 # 3; 1 # 3]%Q 0 [0%nat] (1 # 100000) (1 # 1000)) = 3%Z.
Proof. vm_compute. repeat split. Qed.

(* ================================================================== calculate_entropy (rl4co.utils.ops)
   One case = ONE call calculate_entropy(logprobs[B, T, N]) whose logprobs are the stacked outputs of the real
   process_logits on logits z * ln 2; the model recomputes every step distribution (plQ, exact rationals) and evaluates
   Decoding/Entropy.v's entropy_steps at (QcF, lnQ) (Decoding/EntropyInst.v).  Result codes:
     0 agree      21 a step is outside the model's well-formedness      22 number of rows differs
     1000 * (row + 1) + 3  the value of that row differs by more than the tolerance
     1000 * (row + 1) + 4  ... and has the wrong SIGN (model > tol, implementation < -tol)                          *)
From RL4CO Require Import Decoding.Entropy Decoding.EntropyInst Decoding.BatchGuards.

Record ent_case := mk_ent {
  n_tm : Z; n_td : Z; n_topk : nat;
  n_rows : list (list (list Z * list bool));      (* batch row |-> decoding step |-> (z, mask) *)
  n_obs : list Q;                                 (* calculate_entropy's output, exact value of the float *)
  n_tol : Q
}.

Definition ent_step_wfb (c : ent_case) (zm : list Z * list bool) : bool :=
  pl_wfb QcF Z (snd zm) 0%Qc (fst zm) && forallb (fun z => Z.eqb ((z * n_tm c) mod n_td c) 0) (fst zm).
Definition ent_step_dist (c : ent_case) (zm : list Z * list bool) : list Qc :=
  plQ (fun z => z) (tdiv (n_tm c) (n_td c)) (snd zm) 0%Qc (n_topk c) (fst zm).
Definition ent_row_model (c : ent_case) (row : list (list Z * list bool)) : Qc :=
  entropy_stepsQ (map (ent_step_dist c) row).

Fixpoint check_ent_rows (c : ent_case) (k : Z) (rows : list (list (list Z * list bool))) (obs : list Q) : Z :=
  match rows, obs with
  | [], [] => 0%Z
  | row :: rows', o :: obs' =>
      let hm := ent_row_model c row in
      let tol := toQc (n_tol c) in
      if Qcleb (Qcabs (toQc o - hm)%Qc) tol then check_ent_rows c (k + 1)%Z rows' obs'
      else if Qcleb (toQc o) (Qcopp tol) && negb (Qcleb hm tol) then (1000 * k + 4)%Z else (1000 * k + 3)%Z
  | _, _ => 22%Z
  end.

Definition check_ent (c : ent_case) : Z :=
  if negb ((0 <? n_tm c)%Z && (0 <? n_td c)%Z && forallb (fun row => forallb (ent_step_wfb c) row) (n_rows c)) then 21%Z
  else check_ent_rows c 1%Z (n_rows c) (n_obs c).

(* the audit's input: calculate_entropy(log([[[.5, .5]]])) = + ln 2 = 0.6931...; its negative and its half are rejected *)
Example check_ent_selftest :
  check_ent (mk_ent 1 1 0 [[([0; 0]%Z, [true; true])]] [6931472 # 10000000]%Q (1 # 1000000)) = 0%Z /\
  check_ent (mk_ent 1 1 0 [[([0; 0]%Z, [true; true])]] [-6931472 # 10000000]%Q (1 # 1000000)) = 1004%Z /\
  check_ent (mk_ent 1 1 0 [[([0; 0]%Z, [true; true])]] [3465736 # 10000000]%Q (1 # 1000000)) = 1003%Z /\
  check_ent (mk_ent 1 1 0 [[([0; 0]%Z, [true; true])]; [([1; 0; 0]%Z, [true; true; true]); ([5; 7]%Z, [true; false])]]
                    [6931472 # 10000000; 10397208 # 10000000]%Q (1 # 1000000)) = 0%Z.
Proof. vm_compute. repeat split. Qed.

(* ---- the guard `assert entropy.isfinite().all()`: entry classes per row (0 finite, 1 -inf, 2 +inf, 3 nan), observed:
   did the call raise?   codes: 0 agree, 25 model raises / implementation returned, 26 implementation raised / model not *)
Definition entg_case := (list (list nat) * bool)%type.
Definition check_entg (c : entg_case) : Z :=
  match c with (rows, raised) =>
    let m := negb (entropy_guard rows) in
    if Bool.eqb m raised then 0%Z else if m then 25%Z else 26%Z
  end.

(* ================================================================== batch-level guards of greedy / sampling / BeamSearch._step
   rows = (probabilities exp(logprob) as exact rationals, mask) -- the masks need NOT be the ones the probabilities were
   made with; sel = the selection handed to the guard (BeamSearch._step with a stubbed _make_beam_step); observed:
   None = "infeasible action selected" raised, Some actions = returned.
   kind 0 greedy(logprobs, mask), 1 sampling(logprobs, mask), 2 BeamSearch._step.
     0 agree   31 model raises, implementation returned   32 model returns, implementation raised
     33 returned actions are not the model's (greedy: row-wise first arg-max; beam step: the given selection)
     34 sampling returned an action that its row's mask forbids or that has probability 0
     35 sampling: some row has no admissible action of positive probability (the loop cannot end: input outside the stream) *)
Record guard_case := mk_guard {
  g_kind : nat; g_rows : list (list Q * list bool); g_sel : list nat; g_obs : option (list nat) }.

Definition g_probs (c : guard_case) : list (list Qc * list bool) := map (fun r => (map toQc (fst r), snd r)) (g_rows c).
Fixpoint eqb_nats (a b : list nat) : bool :=
  match a, b with [] , [] => true | x :: a', y :: b' => Nat.eqb x y && eqb_nats a' b' | _, _ => false end.
Definition row_can_sample (r : list Qc * list bool) : bool :=
  existsb (fun pm => snd pm && negb (Qcleb (fst pm) 0%Qc)) (combine (fst r) (snd r)).

Definition check_guard (c : guard_case) : Z :=
  let rows := g_probs c in
  let masks := map snd rows in
  match g_kind c with
  | O => match greedy_batch (K := QcF) rows, g_obs c with
         | None, None => 0%Z | None, Some _ => 31%Z | Some _, None => 32%Z
         | Some a, Some b => if eqb_nats a b then 0%Z else 33%Z
         end
  | S O => if negb (forallb row_can_sample rows) then 35%Z else
           match g_obs c with
           | None => 32%Z
           | Some b => if Nat.eqb (length b) (length rows) && guard_batch masks b
                          && forallb (fun rb => negb (Qcleb (nth (snd rb) (fst (fst rb)) 0%Qc) 0%Qc)) (combine rows b)
                       then 0%Z else 34%Z
           end
  | _ => match beam_step_guard masks (g_sel c), g_obs c with
         | None, None => 0%Z | None, Some _ => 31%Z | Some _, None => 32%Z
         | Some a, Some b => if eqb_nats a b then 0%Z else 33%Z
         end
  end.

(* the audit's inputs *)
Example check_guard_selftest :
  check_guard (mk_guard 0 [([1 # 4; 3 # 4]%Q, [true; false]); ([3 # 4; 1 # 4]%Q, [true; true])] [] None) = 0%Z /\
  check_guard (mk_guard 0 [([1 # 4; 3 # 4]%Q, [true; false]); ([3 # 4; 1 # 4]%Q, [true; true])] [] (Some [1; 0]%nat)) = 31%Z /\
  check_guard (mk_guard 1 [([1 # 50; 49 # 50]%Q, [true; false]); ([1 # 2; 1 # 2]%Q, [true; true])] [] (Some [0; 0]%nat)) = 0%Z /\
  check_guard (mk_guard 1 [([1 # 50; 49 # 50]%Q, [true; false]); ([1 # 2; 1 # 2]%Q, [true; true])] [] None) = 32%Z /\
  check_guard (mk_guard 2 [([1 # 2; 1 # 2]%Q, [true; false]); ([1 # 2; 1 # 2]%Q, [true; true])] [1; 0]%nat (Some [1; 0]%nat)) = 31%Z /\
  check_guard (mk_guard 2 [([1 # 2; 1 # 2]%Q, [true; false]); ([1 # 2; 1 # 2]%Q, [true; true])] [1; 0]%nat None) = 0%Z /\
  check_entg ([[0; 0]; [2; 0]]%nat, true) = 0%Z /\ check_entg ([[0; 0]; [2; 0]]%nat, false) = 25%Z.
Proof. vm_compute. repeat split. Qed.
