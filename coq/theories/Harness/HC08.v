(* Correspondence harness for C08 (selection environments).

   A case carries the instance exactly as the real env received it (scaled integers), the observables the
   real env exposed after reset and after every step, and the final reward.  [check_*] runs the *model*
   (Env/FLP.v, Env/MCP.v, Env/DPP.v) on the same actions and compares after every step; when the model
   agrees it additionally evaluates the property's executable specification on the implementation's own
   observables (spec-on-impl).  Result codes: 0 = agree;  1000*step + tag  otherwise, with
     1  impl admits what the model forbids     2  model admits what impl forbids (or mask length differs)
     3  done differs                           4  reward differs
     6  specification false on the implementation's observables
     7  model step = None (the real code did not raise)
     8  chosen differs      9  distances / weights differ      10  membership differs      11  keepout differs
    12  instance outside the documented format (wfb false)
   [ending]: 0 = the episode was stopped at the first done, 1 = it was continued past done (done must stay
   true), 2 = the mask became empty before done (dead end: only legitimate when quota > allowed items). *)
From Coq Require Import ZArith List Bool Lia Arith.
From RL4CO Require Import Env.Selection Env.FLP Env.MCP Env.DPP.
Import ListNotations.
Open Scope Z_scope.

Fixpoint list_beq {A} (eqb : A -> A -> bool) (l1 l2 : list A) : bool :=
  match l1, l2 with
  | [], [] => true
  | x :: r, y :: t => eqb x y && list_beq eqb r t
  | _, _ => false
  end.
Definition bl_eq := list_beq Bool.eqb.
Definition zl_eq := list_beq Z.eqb.
Definition zll_eq := list_beq zl_eq.

Definition mask_tag (impl model : list bool) : Z :=
  if bl_eq impl model then 0
  else if existsb (fun k => nth k impl false && negb (nth k model false)) (seq 0 (length impl)) then 1 else 2.

Fixpoint nodupb (l : list nat) : bool :=
  match l with [] => true | a :: r => negb (memb a r) && nodupb r end.

Definition first_nz (l : list Z) : Z := fold_right (fun x acc => if x =? 0 then acc else x) 0 l.

Section Walk.
  Variables (st obs : Type).
  Variable step : st -> nat -> option st.
  Variable mask : st -> list bool.
  Variable cmp : st -> obs -> Z.            (* 0 or the tag of the first observable that differs *)
  Fixpoint walk (k : Z) (s : st) (steps : list (nat * obs)) : Z + st :=
    match steps with
    | [] => inr s
    | (a, o) :: r =>
        if negb (nth a (mask s) false) then inl (1000 * k + 1)
        else match step s a with
             | None => inl (1000 * k + 7)
             | Some s' => let t := cmp s' o in if t =? 0 then walk (k + 1) s' r else inl (1000 * k + t)
             end
    end.
End Walk.

(* ---------------------------------------------------------------- the part of the specification all four share *)
(* impl observables per step: (mask, done).  allowed0 = which items may be selected at all. *)
Section SpecCommon.
  Variables (allowed0 : list bool) (q : Z).
  Let n := length allowed0.
  Definition spec_mask (prefix : list nat) : list bool :=
    map (fun c => nth c allowed0 false && negb (memb c prefix)) (seq 0 n).
  Fixpoint spec_steps (k : nat) (acts : list nat) (obs : list (list bool * bool)) {struct obs} : Z :=
    match obs with
    | [] => 0
    | (m, d) :: r =>
        let prefix := firstn k acts in
        if negb (bl_eq m (spec_mask prefix)) then 1000 * Z.of_nat k + 6
        else if negb (Bool.eqb d (q <=? Z.of_nat k)) then 1000 * Z.of_nat k + 6
        else spec_steps (S k) acts r
    end.
  Definition spec_common (ending : Z) (acts : list nat) (obs : list (list bool * bool)) : Z :=
    if negb (nodupb acts) then 6
    else if negb (forallb (fun a => nth a allowed0 false) acts) then 6
    else if negb (Nat.eqb (length acts) (length obs)) then 6
    else if (ending =? 0) && negb (Z.of_nat (length acts) =? q) then 6
    else if (ending =? 1) && negb (q <? Z.of_nat (length acts)) then 6
    else if (ending =? 2) && negb ((Z.of_nat (count_true allowed0) <? q) && (Z.of_nat (length acts) <? q)) then 6
    else spec_steps 1 acts obs.
End SpecCommon.

(* ---------------------------------------------------------------- FLP *)
Definition flp_obs := (list bool * bool * list bool * list Z)%type.      (* mask, done, chosen, distances *)
Definition flp_case := (flp_inst * Z * flp_obs * list (nat * flp_obs) * (Z * Z))%type.
(* instance, ending, observation after reset, steps, (reward, tolerance) *)

Definition flp_cmp (s : flp_st) (o : flp_obs) : Z :=
  match o with (m, d, ch, ds) =>
    let t := mask_tag m (f_mask s) in
    if negb (t =? 0) then t
    else if negb (Bool.eqb d (f_done s)) then 3
    else if negb (bl_eq ch (f_chosen s)) then 8
    else if negb (zl_eq ds (f_dist s)) then 9 else 0
  end.

Fixpoint flp_spec_steps (ins : flp_inst) (k : nat) (acts : list nat) (obs : list flp_obs) {struct obs} : Z :=
  match obs with
  | [] => 0
  | (_, _, ch, ds) :: r =>
      let prefix := firstn k acts in
      if negb (bl_eq ch (map (fun c => memb c prefix) (seq 0 (f_n ins)))) then 1000 * Z.of_nat k + 6
      else if negb (zl_eq ds (map (spec_mindist ins prefix) (seq 0 (f_n ins)))) then 1000 * Z.of_nat k + 6
      else flp_spec_steps ins (S k) acts r
  end.

Definition flp_spec (c : flp_case) : Z :=
  match c with (ins, ending, o0, steps, (rew, tol)) =>
    let acts := map fst steps in
    let obs := map snd steps in
    let t := spec_common (repeat true (f_n ins)) (f_q ins) ending acts (map (fun o => match o with (m, d, _, _) => (m, d) end) obs) in
    if negb (t =? 0) then t
    else let t2 := flp_spec_steps ins 1 acts obs in
    if negb (t2 =? 0) then t2
    else match acts with
         | [] => 0
         | _ => let r := - sumZ (map (spec_mindist ins acts) (seq 0 (f_n ins))) in
                if Z.abs (rew - r) <=? tol then 0 else 6
         end
  end.

Definition check_flp (c : flp_case) : Z :=
  match c with (ins, ending, o0, steps, (rew, tol)) =>
    if negb (flp_wfb ins) then 12
    else let t0 := flp_cmp (flp_reset ins) o0 in
    if negb (t0 =? 0) then t0
    else match walk flp_st flp_obs (flp_step ins) f_mask flp_cmp 1 (flp_reset ins) steps with
         | inl code => code
         | inr s =>
             let rcode := match steps with
                          | [] => 0
                          | _ => match flp_reward ins s with
                                 | None => 7
                                 | Some r => if Z.abs (rew - r) <=? tol then 0 else 4
                                 end
                          end in
             if negb (rcode =? 0) then rcode else flp_spec c
         end
  end.

(* ---------------------------------------------------------------- MCP *)
Definition mcp_obs := (list bool * bool * list bool * list Z * list (list Z))%type. (* mask, done, chosen, weights, membership *)
Definition mcp_case := (mcp_inst * Z * mcp_obs * list (nat * mcp_obs) * Z)%type.

Definition mcp_cmp (s : mcp_st) (o : mcp_obs) : Z :=
  match o with (m, d, ch, ws, mm) =>
    let t := mask_tag m (m_mask s) in
    if negb (t =? 0) then t
    else if negb (Bool.eqb d (m_done s)) then 3
    else if negb (bl_eq ch (m_chosen s)) then 8
    else if negb (zl_eq ws (m_weights s)) then 9
    else if negb (zll_eq mm (m_membership s)) then 10 else 0
  end.

Fixpoint mcp_spec_steps (ins : mcp_inst) (k : nat) (acts : list nat) (obs : list mcp_obs) {struct obs} : Z :=
  match obs with
  | [] => 0
  | (_, _, ch, ws, mm) :: r =>
      let prefix := firstn k acts in
      let ns := length (m_mem ins) in
      if negb (bl_eq ch (map (fun c => memb c prefix) (seq 0 ns))) then 1000 * Z.of_nat k + 6
      else if negb (zl_eq ws (map (fun j => if coveredb (m_mem ins) prefix j then 0 else nth j (m_w ins) 0)
                                  (seq 0 (length (m_w ins))))) then 1000 * Z.of_nat k + 6
      else if negb (zll_eq mm (map (fun c => if memb c prefix then zero_row (nth c (m_mem ins) []) else nth c (m_mem ins) [])
                                   (seq 0 ns))) then 1000 * Z.of_nat k + 6
      else mcp_spec_steps ins (S k) acts r
  end.

Definition mcp_spec (c : mcp_case) : Z :=
  match c with (ins, ending, o0, steps, rew) =>
    let acts := map fst steps in
    let obs := map snd steps in
    let t := spec_common (repeat true (length (m_mem ins))) (m_q ins) ending acts
                         (map (fun o => match o with (m, d, _, _, _) => (m, d) end) obs) in
    if negb (t =? 0) then t
    else let t2 := mcp_spec_steps ins 1 acts obs in
    if negb (t2 =? 0) then t2
    else let r := sumZ (map (fun j => if coveredb (m_mem ins) acts j then nth j (m_w ins) 0 else 0) (seq 0 (length (m_w ins)))) in
         if rew =? r then 0 else 6
  end.

Definition check_mcp (c : mcp_case) : Z :=
  match c with (ins, ending, o0, steps, rew) =>
    if negb (mcp_wfb ins) then 12
    else let t0 := mcp_cmp (mcp_reset ins) o0 in
    if negb (t0 =? 0) then t0
    else match walk mcp_st mcp_obs (mcp_step ins) m_mask mcp_cmp 1 (mcp_reset ins) steps with
         | inl code => code
         | inr s =>
             let rcode := match mcp_reward ins s with
                          | None => 7
                          | Some r => if rew =? r then 0 else 4
                          end in
             if negb (rcode =? 0) then rcode else mcp_spec c
         end
  end.

(* ---------------------------------------------------------------- DPP / MDPP *)
Definition eda_obs := (list bool * bool * list bool)%type.               (* mask, done, keepout *)
Definition eda_cmp (s : dpp_st) (o : eda_obs) : Z :=
  match o with (m, d, ko) =>
    let t := mask_tag m (d_mask s) in
    if negb (t =? 0) then t
    else if negb (Bool.eqb d (d_done s)) then 3
    else if negb (bl_eq ko (d_keepout s)) then 11 else 0
  end.

Definition eda_spec (allowed0 keep : list bool) (q ending : Z) (o0 : eda_obs) (steps : list (nat * eda_obs)) : Z :=
  let acts := map fst steps in
  let obs := map snd steps in
  let t := spec_common allowed0 q ending acts (map (fun o => match o with (m, d, _) => (m, d) end) obs) in
  if negb (t =? 0) then t
  else if negb (forallb (fun o => match o with (_, _, ko) => bl_eq ko keep end) (o0 :: obs)) then 6
  else if negb (forallb (fun a => negb (nth a keep true)) acts) then 6      (* never a keep-out cell *)
  else 0.

Definition dpp_case := (dpp_inst * Z * eda_obs * list (nat * eda_obs))%type.
Definition check_dpp (c : dpp_case) : Z :=
  match c with (ins, ending, o0, steps) =>
    if negb (dpp_wfb ins) then 12
    else let t0 := eda_cmp (dpp_reset ins) o0 in
    if negb (t0 =? 0) then t0
    else match walk dpp_st eda_obs (dpp_step ins) d_mask eda_cmp 1 (dpp_reset ins) steps with
         | inl code => code
         | inr s =>
             (* allowed = generator mask (which excludes the probe: wfb); never the probing port *)
             if existsb (Nat.eqb (d_probe ins)) (map fst steps) then 6
             else eda_spec (d_avail ins) (map negb (d_avail ins)) (d_q ins) ending o0 steps
         end
  end.

Definition mdpp_case := (mdpp_inst * Z * eda_obs * list (nat * eda_obs))%type.
Definition check_mdpp (c : mdpp_case) : Z :=
  match c with (ins, ending, o0, steps) =>
    if negb (mdpp_wfb ins) then 12
    else let t0 := eda_cmp (mdpp_reset ins) o0 in
    if negb (t0 =? 0) then t0
    else match walk dpp_st eda_obs (mdpp_step ins) d_mask eda_cmp 1 (mdpp_reset ins) steps with
         | inl code => code
         | inr s =>
             if existsb (fun a => nth a (md_probe ins) true) (map fst steps) then 6   (* never a probing port *)
             else eda_spec (map (fun k => nth k (md_avail ins) false && negb (nth k (md_probe ins) false))
                                (seq 0 (length (md_avail ins))))
                           (map negb (md_avail ins)) (md_q ins) ending o0 steps
         end
  end.

(* which quota the env object ends up with, given the generator's max_decaps (constructor model, Env/DPP.v) *)
Definition check_eda_quota (c : bool * Z * Z) : Z :=
  match c with (is_mdpp, gen_max_decaps, env_max_decaps) =>
    let m := if is_mdpp then mdpp_env_max_decaps gen_max_decaps else dpp_env_max_decaps gen_max_decaps in
    if negb (m =? env_max_decaps) then 13                  (* model of __init__ differs from the code *)
    else if negb (env_max_decaps =? gen_max_decaps) then 6 (* spec: the env enforces the generator's quota *)
    else 0
  end.

(* ---------------------------------------------------------------- batched done of FLP / MCP *)
(* (counters before the step, quotas, the td["done"] tensor flattened row-major, its number of columns) *)
Definition check_done_bxb (c : list Z * list Z * list (list bool)) : Z :=
  match c with (is_, qs, m) => if list_beq bl_eq m (done_bxb is_ qs) then 0 else 3 end.

(* sanity of the harness itself *)
Example check_flp_ex :
  check_flp (flp_ex, 0, ([true; true; true; true], false, [false; false; false; false], [99; 99; 99; 99]),
             [(3%nat, ([true; true; true; false], false, [false; false; false; true], [13; 8; 4; 0]));
              (1%nat, ([true; false; true; false], true, [false; true; false; true], [5; 0; 4; 0]))], (-9, 0)) = 0.
Proof. vm_compute. reflexivity. Qed.
Example check_flp_ex_bad_done :
  check_flp (flp_ex, 0, ([true; true; true; true], false, [false; false; false; false], [99; 99; 99; 99]),
             [(3%nat, ([true; true; true; false], true, [false; false; false; true], [13; 8; 4; 0]))], (-25, 0)) = 1003.
Proof. vm_compute. reflexivity. Qed.
Example check_mcp_ex :
  check_mcp (mcp_ex, 0, ([true; true; true; true], false, [false; false; false; false], [10; 20; 30; 40; 50; 60],
                         [[1; 5; 0]; [2; 0; 3]; [0; 0; 0]; [5; 6; 0]]),
             [(0%nat, ([false; true; true; true], false, [true; false; false; false], [0; 20; 30; 40; 0; 60],
                       [[0; 0; 0]; [2; 0; 3]; [0; 0; 0]; [5; 6; 0]]));
              (3%nat, ([false; true; true; false], true, [true; false; false; true], [0; 20; 30; 40; 0; 0],
                       [[0; 0; 0]; [2; 0; 3]; [0; 0; 0]; [0; 0; 0]]))], 120) = 0.
Proof. vm_compute. reflexivity. Qed.
Example check_dpp_ex :
  check_dpp (dpp_ex, 0, ([true; false; true; true; false; true; true; false; true], false,
                         [false; true; false; false; true; false; false; true; false]),
             [(8%nat, ([true; false; true; true; false; true; true; false; false], false,
                       [false; true; false; false; true; false; false; true; false]));
              (0%nat, ([false; false; true; true; false; true; true; false; false], false,
                       [false; true; false; false; true; false; false; true; false]));
              (5%nat, ([false; false; true; true; false; false; true; false; false], true,
                       [false; true; false; false; true; false; false; true; false]))]) = 0.
Proof. vm_compute. reflexivity. Qed.
