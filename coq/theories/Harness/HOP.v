(* Correspondence harness for OP (C01-C06): the model at float32 rounding ([f32]) against recorded traces, and the
   exact specification evaluated on the implementation's own episodes. *)
From Coq Require Import ZArith List Bool Lia Arith.
From RL4CO Require Import Base.Num Base.EnvSig Spec.Routes Env.OP Env.OPProofs Harness.HEnv Harness.HBook.
Import ListNotations.
Open Scope Z_scope.

(* (instance, slack of the spec-on-impl length test), trace, final mask, (impl reward, tolerance), complete?, checker accepted?
   slack = 0 on the exact stream (every float32 operation of the env is exact there), the checker's tolerance otherwise *)
Definition op_case := ((op_inst * Z) * list tstep * list bool * (Z * Z) * bool * bool)%type.
Definition mk_op (p : list Z) (ml e : Z) (m : list (list Z)) (t : Z) : op_inst :=
  {| prz := p; maxlen := ml; eps := e; odist := m; otol := t |}.

Definition c_inst (c : op_case) := match c with ((i, _), _, _, _, _, _) => i end.
Definition c_slack (c : op_case) := match c with ((_, s), _, _, _, _, _) => s end.
Definition c_trace (c : op_case) := match c with (_, t, _, _, _, _) => t end.
Definition c_final (c : op_case) := match c with (_, _, f, _, _, _) => f end.
Definition c_rew (c : op_case) := match c with (_, _, _, r, _, _) => r end.
Definition c_complete (c : op_case) := match c with (_, _, _, _, b, _) => b end.
Definition c_checker (c : op_case) := match c with (_, _, _, _, _, b) => b end.

Fixpoint episode_actions (tr : list tstep) : list nat :=
  match tr with
  | [] => []
  | (m, a, d) :: rest => if d then [a] else a :: episode_actions rest
  end.

(* 19 = the instance is outside the documented format (the theorems do not speak about it) *)
Definition check_C01 (c : op_case) : Z :=
  if negb (op_wfb (c_inst c)) then 19 else
  (* the specification on the implementation's own episode first (6, concrete), then the model *)
  if c_complete c && negb (op_feasibleb (c_inst c) (c_slack c) (episode_actions (c_trace c))) then 6
  else check_trace (E:=OP f32) (c_inst c) 0 (c_trace c).

Definition check_C02 (c : op_case) : Z :=
  if negb (op_wfb (c_inst c)) then 19 else
  let r := c02_impl (Nat.max (op_n (c_inst c) + 1) 2) (c_trace c) (c_final c) in
  if negb (r =? 0) then r
  else if negb (c_complete c) then 12
  else check_trace (E:=OP f32) (c_inst c) 2 (c_trace c).

(* reported reward against the objective recomputed from instance data and ALL actions (padding included) *)
Definition check_C03 (c : op_case) : Z :=
  if negb (c_complete c) then 0
  else if zabs_le (fst (c_rew c)) (op_objective (c_inst c) (trace_actions (c_trace c))) (snd (c_rew c)) then 0 else 4.

Definition check_C05 (c : op_case) : Z :=
  if negb (op_wfb (c_inst c)) then 19 else check_trace (E:=OP f32) (c_inst c) 1 (c_trace c).

(* The implementation sums the leg lengths in float32; the model sums them exactly.  A verdict is compared only when
   it does not depend on [delta] = 2^-18 (scaled) added to or subtracted from the length. *)
Definition delta : Z := 2 ^ 46.
Definition verdict_code (i : op_inst) (acts : list nat) (verdict : bool) : Z :=
  let hi := op_checker_m f32 delta i acts in
  let lo := op_checker_m f32 (- delta) i acts in
  (* the verdict against the specification first (14/15, concrete), then against the model (13) *)
  if op_feasibleb i 0 acts && negb verdict then 14
  else if negb (op_feasibleb i (3 * otol i) acts) && verdict then 15
  else if Bool.eqb hi lo && negb (Bool.eqb hi verdict) then 13
  else 0.

Definition check_C06 (c : op_case) : Z := verdict_code (c_inst c) (trace_actions (c_trace c)) (c_checker c).

Definition check_C06_sol (c : (op_inst * Z) * list nat * bool) : Z :=
  match c with ((i, _), acts, verdict) => verdict_code i acts verdict end.

(* ---------------------------------------------------------------- bookkeeping (C02 / C04, see Harness/HBook.v)
   keys of the env's step output compared after every step, in this order:
   i (= number of steps taken), current_node (= the action just taken), tour_length, current_total_prize,
   visited (bit j = node j) *)
Definition book_obs (s : op_st) : list Z := [Z.of_nat (ocnt s); Z.of_nat (ocur s); otl s; otot s; bitsZ (ovis s)].
Definition book_kinds : list nat := [1; 2; 0; 0; 0]%nat.
Definition op_book := ((op_inst * Z) * list Z * list Z * list (nat * list Z))%type.
Definition check_book (c : op_book) : Z :=
  match c with (i, tols, o0, tr) => book_check (OP f32) (fst i) book_obs book_kinds tols o0 tr end.
