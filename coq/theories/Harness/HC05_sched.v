(* Correspondence harness of C05 / unit sched (SMTWTPEnv, FJSPEnv, JSSPEnv, FFSPEnv).

   A case = one tiny instance + the complete sequences the real env admits from reset (exhaustive expansion over all True
   mask entries; [complete = true] when the expansion was not cut by the cap), each with the implementation's mask before
   every action and its final reward.  Completeness direction: the model runs every implementation sequence; at every
   visited state the model mask must lie inside the implementation's mask; the model must be done exactly at the end with
   the same reward; the model's own exhaustive expansion ([count_leaves], proved sound in Env/SchedComplete.v) must find
   exactly as many complete sequences.  Spec side: SMTWTP -- all n! permutations present, best reward = minimum weighted
   tardiness over all permutations enumerated in Gallina; FJSP/JSSP -- the optimal schedule found by the harness's
   independent enumeration must be a [valid_schedule] of the specification and, with mask_no_ops = false, its makespan
   must be the best reachable one.
   Result codes: 0 agree; 1000*j + t for sequence j with t = 1 action outside the model mask, 2 model mask offers what the
   implementation hides, 3 model done too early / not at the end, 4 reward differs from the model, 6 reward differs from
   the objective (SMTWTP), 7 model step = None, 13 malformed;  20 instance outside the documented format,
   1000*j + 21 permutation j missing (SMTWTP), 22 number of complete sequences differs from the model's expansion,
   23 best reachable reward differs from the optimum, 24 no complete sequence, 25 the harness's optimal schedule is not a
   valid schedule of the specification. *)
From Coq Require Import ZArith List Bool Lia Arith.
From RL4CO Require Import Base.FFSPLists Spec.Schedule Env.Selection Env.FJSP Env.FFSP Env.SMTWTP Env.SchedComplete
                          Harness.HC08 Harness.HC05_graph.
Import ListNotations.
Open Scope Z_scope.

Section One.
  Variables (st : Type) (step : st -> nat -> option st) (mask : st -> list bool) (done : st -> bool)
            (rew : st -> list nat -> option Z).
  Definition sched_one (s0 : st) (x : c05_seq) : Z :=
    match x with (acts, masks, r) =>
      match c05_walk st step mask done s0 acts masks with
      | inl t => t
      | inr s => if negb (done s) then 3
                 else match rew s acts with None => 7 | Some r' => if r =? r' then 0 else 4 end
      end
    end.
End One.

Definition best_of (seqs : list c05_seq) : option Z :=
  match seqs with [] => None | (_, _, r0) :: sr => Some (maxz r0 (map snd sr)) end.

(* ---------------------------------------------------------------- SMTWTP *)
Definition smtwtp_obj (i : SMTWTP.inst) (p : list nat) : Z := - SMTWTP.weighted_tardiness i 0 p.
Definition check_C05_smtwtp (c : SMTWTP.inst * list c05_seq) : Z :=
  match c with (ins, seqs) =>
    if negb (SMTWTP.wfb ins) then 20
    else
      let one := sched_one SMTWTP.st (SMTWTP.step ins) SMTWTP.mask SMTWTP.done (fun _ acts => Some (SMTWTP.reward ins acts))
                           (SMTWTP.reset ins) in
      let t := c05_first 0 (fun x => let t1 := one x in
                                     if negb (t1 =? 0) then t1
                                     else match x with (acts, _, r) => if r =? smtwtp_obj ins acts then 0 else 6 end) seqs in
      if negb (t =? 0) then t
      else
        let perms := kperms (SMTWTP.n_job ins) (seq 1 (SMTWTP.n_job ins)) in
        let t2 := c05_missing 0 (map (fun x => fst (fst x)) seqs) perms in
        if negb (t2 =? 0) then t2
        else match best_of seqs, perms with
             | Some best, p0 :: pr => if best =? maxz (smtwtp_obj ins p0) (map (smtwtp_obj ins) pr) then 0 else 23
             | _, _ => 24
             end
  end.

(* ---------------------------------------------------------------- FJSP / JSSP *)
(* jssp?, mask_no_ops, instance, (a sample of) the complete sequences, total number of complete sequences of the
   implementation (-1 = the expansion hit its cap), best reward over ALL of them, optimal schedule (harness), its makespan *)
Definition fj_case := (bool * bool * FJSP.inst * list c05_seq * Z * Z * list entry * Z)%type.
Definition fj_fuel (i : FJSP.inst) : nat := (2 * FJSP.total_ops i + 2)%nat.
Definition check_C05_fjsp (c : fj_case) : Z :=
  match c with (jssp, cfg, ins, seqs, total, best, opt, optmk) =>
    if negb (FJSP.wfb ins) || negb (FJSP.solvableb ins) || (jssp && negb (FJSP.jssp_wfb ins)) then 20
    else
      let stp := if jssp then FJSP.jssp_step cfg ins else FJSP.step cfg ins in
      let msk := if jssp then FJSP.jssp_mask cfg ins else FJSP.mask cfg ins in
      let mb := if jssp then FJSP.jssp_maskb cfg ins else FJSP.maskb cfg ins in
      let cands := if jssp then NonDelay.jssp_cands ins else NonDelay.fjsp_cands ins in
      let t := c05_first 0 (sched_one FJSP.st stp msk FJSP.done (fun s _ => FJSP.reward ins s) (FJSP.reset ins)) seqs in
      if negb (t =? 0) then t
      else if (0 <=? total) &&
              negb (Z.of_nat (count_leaves FJSP.st stp mb FJSP.done cands (fj_fuel ins) (FJSP.reset ins)) =? total)
      then 22
      else if negb (valid_scheduleb (FJSP.sinst_of ins) opt optmk) then 25
      else match seqs with
           | [] => 24
           | _ => if (0 <=? total) && negb cfg && negb (best =? - optmk) then 23 else 0
           end
  end.

(* ---------------------------------------------------------------- FFSP *)
(* instance, (a sample of) the complete sequences, total number (-1 = cap), fuel = longest sequence + 2 *)
Definition check_C05_ffsp (c : FFSP.inst * list c05_seq * Z * nat) : Z :=
  match c with (ins, seqs, total, fuel) =>
    if negb (FFSP.wfb ins) then 20
    else
      let t := c05_first 0 (sched_one FFSP.st (FFSP.step ins) FFSP.mask FFSP.done (fun s _ => Some (FFSP.reward_of ins s))
                                      (FFSP.reset ins)) seqs in
      if negb (t =? 0) then t
      else if (0 <=? total) &&
              negb (Z.of_nat (count_leaves FFSP.st (FFSP.step ins) FFSPWait.ffsp_maskb FFSP.done FFSPWait.ffsp_cands
                                           fuel (FFSP.reset ins)) =? total)
      then 22
      else match seqs with [] => 24 | _ => 0 end
  end.

(* ---------------------------------------------------------------- sanity on the two witnesses *)
Example check_C05_ffsp_ex :
  check_C05_ffsp (FFSPWait.fw_i, [([0; 1]%nat, [[true; true; false]; [false; true; false]], -3);
                                  ([1; 0]%nat, [[true; true; false]; [true; false; false]], -3)], 2, 4%nat) = 0 /\
  check_C05_ffsp (FFSPWait.fw_i, [([0; 1]%nat, [[true; true; false]; [false; true; false]], -3)], 1, 4%nat) = 22 /\
  check_C05_ffsp (FFSPWait.fw_i, [([0; 1]%nat, [[true; false; false]; [false; true; false]], -3)], -1, 4%nat) = 2.
Proof. vm_compute. repeat split; reflexivity. Qed.
Example check_C05_fjsp_ex :
  check_C05_fjsp (true, true, NonDelay.nd_i,
     [([1; 2; 1; 2; 2]%nat, [[false; true; true]; [false; false; true]; [false; true; true]; [false; false; true]; [false; false; true]], -21)],
     4, -21, NonDelay.nd_opt, 13) = 0 /\
  check_C05_fjsp (true, false, NonDelay.nd_i,
     [([2; 0; 2; 0; 1; 2; 0; 1; 0]%nat, [[false; true; true]; [true; true; false]; [false; true; true]; [true; true; false]; [false; true; true];
                                         [true; false; true]; [true; false; false]; [false; true; false]; [true; false; false]], -13)],
     26, -13, NonDelay.nd_opt, 13) = 0.
Proof. vm_compute. repeat split; reflexivity. Qed.
