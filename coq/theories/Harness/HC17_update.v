(* Correspondence harness for C17 / unit "update": the decision model of Data/BaselineUpdate.v is run (vm_compute, exact on Q)
   on the reward vectors the REAL RolloutBaseline.epoch_callback was driven with.  The abstract p-value function is
   instantiated by its value at the one point the case needs: scipy's own one-sided p (survival function of Student's t at
   sqrt(t^2), n-1 degrees of freedom), evaluated by the harness at the exact t^2 it computed -- the check verifies that this
   t^2 IS the model's, so only the comparison with alpha is taken from the model.  check_pmono tests the monotonicity
   assumption on the sampled points.  Result codes: 0 = agree. *)
From Coq Require Import List ZArith Bool Arith QArith.
From RL4CO Require Import Data.BaselineUpdate.
Import ListNotations.
Close Scope Q_scope.

Record dcase := DC {
  dc_cand : list Q;          (* the candidate's rewards on the stored evaluation set, dataset order *)
  dc_bl : list Q;            (* the stored bl_vals *)
  dc_alpha : Q;
  dc_t2 : option Q;          (* the exact t^2 at which the oracle was evaluated; None = no finite statistic (n <= 1 or zero variance) *)
  dc_p : Q;                  (* the oracle's one-sided p-value there *)
  dc_obs : option bool       (* was the baseline policy replaced; None = the callback raised *)
}.
Definition check_decision (c : dcase) : Z :=
  let d := diffs (dc_cand c) (dc_bl c) in
  let finite := (2 <=? length d) && negb (Qeq_bool (t2_den d) 0) in
  let t2ok := match dc_t2 c with
              | Some x => finite && Qeq_bool x (t2_num d / t2_den d)%Q
              | None => negb finite
              end in
  if negb t2ok then 3%Z else
  match update_decision (fun _ _ => dc_p c) (dc_cand c) (dc_bl c) (dc_alpha c), dc_obs c with
  | Some a, Some b => if Bool.eqb a b then 0%Z else 1%Z
  | None, None => 0%Z
  | None, Some _ => 5%Z
  | Some _, None => 6%Z
  end.

(* points (degrees of freedom, t^2, p): same df and t^2 <= t^2' must give p' <= p; returns the number of violating pairs *)
Definition check_pmono (pts : list (nat * Q * Q)) : Z :=
  Z.of_nat (length (filter (fun ab =>
     let '(df1, x1, p1) := fst ab in let '(df2, x2, p2) := snd ab in
     (df1 =? df2) && Qle_bool x1 x2 && negb (Qle_bool p2 p1)) (list_prod pts pts))).

Example check_decision_selftest :
  map check_decision
    [ DC [-1; -3]%Q [-2; -6]%Q (1#20)%Q (Some 4%Q) (147#1000)%Q (Some false);
      DC [-1; -3]%Q [-2; -6]%Q (1#5)%Q (Some 4%Q) (147#1000)%Q (Some true);
      DC [-1; -3]%Q [-2; -6]%Q (1#5)%Q (Some 4%Q) (147#1000)%Q (Some false);
      DC [-1; -3]%Q [-2; -6]%Q (1#5)%Q (Some 5%Q) (147#1000)%Q (Some true);
      DC [-1; -2]%Q [-2; -3]%Q (1#20)%Q None 0%Q (Some true);
      DC [-2; -6]%Q [-1; -3]%Q (1#20)%Q (Some 4%Q) (147#1000)%Q (Some false);
      DC [-1]%Q [-2]%Q (1#20)%Q None 0%Q None ]
  = [0; 0; 1; 3; 0; 0; 0]%Z /\
  check_pmono [(1, 4%Q, (147#1000)%Q); (1, 1089%Q, (96#10000)%Q); (3, 4%Q, (7#100)%Q)]%nat = 0%Z /\
  check_pmono [(1, 4%Q, (147#1000)%Q); (1, 1089%Q, (2#10)%Q)]%nat = 1%Z.
Proof. vm_compute. repeat split. Qed.
