(* Correspondence harness for MTVRP (C01-C06): the model at float32 rounding ([f32]) with the [<=] time comparisons
   of the code as it is since /repo 9b8ead8 (R = true) against recorded traces, and the exact specification evaluated on the
   implementation's own episodes. *)
From Coq Require Import ZArith List Bool Lia Arith.
From RL4CO Require Import Base.Num Base.EnvSig Spec.Routes Spec.VRPFeatures Env.MTVRP Env.MTVRPProofs Harness.HEnv Harness.HBook.
Import ListNotations.
Open Scope Z_scope.

(* which variant of the time comparison the implementation is expected to have: true = [<=] (/repo 9b8ead8);
   false = the former strict [<] (C05 finding recorded as fixed) *)
Definition impl_repaired : bool := true.
Notation M := (MTVRP f32 impl_repaired).

(* (instance, slack for spec-on-impl: 0 on exact-grid data), trace, final mask, (impl reward, tolerance),
   episode complete?, checker accepted? *)
Definition mtvrp_case := ((mtvrp_inst * Z) * list tstep * list bool * (Z * Z) * bool * bool)%type.
Definition mk_mtvrp (l b : list Z) (c lm : Z) (o : bool) (wl wh s : list Z) (m mt : list (list Z)) (slack : Z)
  : mtvrp_inst * Z :=
  ({| dl := l; db := b; cap := c; lim := lm; opn := o; tlo := wl; thi := wh; svc := s; dist := m; tt := mt |}, slack).

Definition c_inst (c : mtvrp_case) := match c with (i, _, _, _, _, _) => fst i end.
Definition c_slack (c : mtvrp_case) := match c with (i, _, _, _, _, _) => snd i end.
Definition c_trace (c : mtvrp_case) := match c with (_, t, _, _, _, _) => t end.
Definition c_final (c : mtvrp_case) := match c with (_, _, f, _, _, _) => f end.
Definition c_rew (c : mtvrp_case) := match c with (_, _, _, r, _, _) => r end.
Definition c_complete (c : mtvrp_case) := match c with (_, _, _, _, b, _) => b end.
Definition c_checker (c : mtvrp_case) := match c with (_, _, _, _, _, b) => b end.

(* actions up to and including the step at which the row first reported done (the episode proper) *)
Fixpoint episode_actions (tr : list tstep) : list nat :=
  match tr with
  | [] => []
  | (m, a, d) :: rest => if d then [a] else a :: episode_actions rest
  end.

(* C01: the specification evaluated on the implementation's completed episode first (code 6 = the independent
   feasibility predicate is false on it: a concrete failing input, whatever the model says), then implementation
   masks inside model masks and done equal *)
Definition check_C01 (c : mtvrp_case) : Z :=
  if c_complete c && negb (mtvrp_feasibleb (c_inst c) (c_slack c) (episode_actions (c_trace c))) then 6
  else check_trace (E:=M) (c_inst c) 0 (c_trace c).

(* C02: on the implementation's observables, then mask/done equality with the model *)
Definition check_C02 (c : mtvrp_case) : Z :=
  let r := c02_impl (2 * n_of (c_inst c) + 1) (c_trace c) (c_final c) in
  if negb (r =? 0) then r
  else if negb (c_complete c) then 12
  else check_trace (E:=M) (c_inst c) 2 (c_trace c).

(* C03: reported reward against the route-wise objective recomputed from instance data and actions
   (all actions, padding included: this is what get_reward is given) *)
Definition check_C03 (c : mtvrp_case) : Z :=
  if negb (c_complete c) then 0
  else if zabs_le (fst (c_rew c)) (mtvrp_objective (c_inst c) (trace_actions (c_trace c))) (snd (c_rew c)) then 0 else 4.

(* C05: model masks inside implementation masks *)
Definition check_C05 (c : mtvrp_case) : Z := check_trace (E:=M) (c_inst c) 1 (c_trace c).

(* ---------------------------------------------------------------- the checker's instance-sanity assertions, specification side
   What check_solution_validity documents about the INSTANCE before it looks at the solution (its instance asserts, in
   exact arithmetic; [sl] = slack on the one that does arithmetic): distance limit, time windows and service times
   non-negative, every window of positive length, and "vehicle can perform service and get back to depot in time":
   window start + travel time to the depot + service time within the depot's deadline.  An instance that fails it is
   outside the documented input format, whatever the solution. *)
Definition mtvrp_sanityb (i : mtvrp_inst) (sl : Z) : bool :=
  (0 <=? lim i) &&
  forallb (fun x => 0 <=? x) (tlo i) && forallb (fun x => 0 <=? x) (thi i) &&
  forallb (fun x => 0 <=? x) (svc i) &&
  forallb (fun j => lo i j <? hi i j) (seq 0 (nn i)) &&
  forallb (fun j => lo i j + tfun i j 0 + sv i j <=? hi i 0%nat + sl) (seq 0 (nn i)).

Lemma forallb_eq_ext {X} (f g : X -> bool) (l : list X) : (forall x, f x = g x) -> forallb f l = forallb g l.
Proof. intros H. induction l as [|x l IH]; [reflexivity|]. cbn [forallb]. rewrite H, IH. reflexivity. Qed.

(* what the model's [data_ok] (the coded asserts) means: in exact arithmetic it IS this sanity predicate *)
Lemma mtvrp_sanityb_is_data_ok (i : mtvrp_inst) : mtvrp_sanityb i 0 = data_ok exact i.
Proof.
  unfold mtvrp_sanityb, data_ok. cbn [rnd exact].
  rewrite (forallb_eq_ext (fun j => lo i j + tfun i j 0 + sv i j <=? hi i 0%nat + 0) (fun j => lo i j + tfun i j 0 + sv i j <=? hi i 0%nat)).
  - reflexivity.
  - intros j. rewrite Z.add_0_r. reflexivity.
Qed.

Example mtvrp_sanity_examples :
  let mk := fun wl wh s => {| dl := [0; 16]; db := [0; 0]; cap := 64; lim := 1000; opn := false; tlo := wl; thi := wh; svc := s;
                             dist := [[0; 64]; [64; 0]]; tt := [[0; 64]; [64; 0]] |} in
  mtvrp_sanityb (mk [0; 0] [200; 100] [0; 8]) 0 = true /\
  mtvrp_sanityb (mk [0; -1] [200; 100] [0; 8]) 0 = false /\       (* negative window start *)
  mtvrp_sanityb (mk [0; 0] [200; 100] [0; -8]) 0 = false /\       (* negative service time *)
  mtvrp_sanityb (mk [0; 100] [200; 100] [0; 8]) 0 = false /\      (* empty window *)
  mtvrp_sanityb (mk [0; 130] [200; 140] [0; 8]) 0 = false.         (* 130 + 64 + 8 > 200: cannot return *)
Proof. vm_compute. repeat split; reflexivity. Qed.

(* C06: 23 = the instance fails the sanity assertions (beyond the slack) and the checker accepted all the same (an
   instance outside the documented format passed; needs neither the model nor the solution); on an instance that fails
   them only the model's verdict is compared (13).  Otherwise the implementation's verdict against the specification:
   feasible => accepted (14), infeasible beyond the slack => rejected (15) -- concrete failing inputs; then the model of
   the checker against the verdict (13) *)
Definition c06 (i : mtvrp_inst) (slack : Z) (acts : list nat) (verdict : bool) : Z :=
  if negb (mtvrp_sanityb i (3 * slack)) then
    (if verdict then 23 else if negb (Bool.eqb (mtvrp_checker f32 i acts) verdict) then 13 else 0)
  else
  if mtvrp_feasibleb i 0 acts && negb verdict then 14
  else if negb (mtvrp_feasibleb i (3 * slack) acts) && verdict then 15
  else if negb (Bool.eqb (mtvrp_checker f32 i acts) verdict) then 13
  else 0.
Definition check_C06 (c : mtvrp_case) : Z := c06 (c_inst c) (c_slack c) (trace_actions (c_trace c)) (c_checker c).

(* a solution given directly as an action list (hand-built or corrupted), with the implementation's verdict *)
Definition check_C06_sol (c : (mtvrp_inst * Z) * list nat * bool) : Z :=
  match c with (i, acts, verdict) => c06 (fst i) (snd i) acts verdict end.

(* well-formedness / solvability / metric flags of an instance, evaluated on every generated instance:
   bit 0 wfb, bit 1 solvableb (for the expected comparison), bit 2 metricb *)
Definition check_flags (c : mtvrp_inst * Z) : Z :=
  (if mtvrp_wfb (fst c) then 1 else 0) + (if mtvrp_solvableb impl_repaired (fst c) then 2 else 0)
  + (if mtvrp_metricb (fst c) then 4 else 0).

(* ---------------------------------------------------------------- bookkeeping (C02 / C04, see Harness/HBook.v)
   keys of the env's step output compared after every step, in this order:
   current_node (= the action just taken), current_route_length, current_time, used_capacity_linehaul,
   used_capacity_backhaul, visited (bit j = node j) *)
Definition book_obs (s : mtvrp_st) : list Z := [Z.of_nat (cur s); rlen s; tim s; usedl s; usedb s; bitsZ (vis s)].
Definition book_kinds : list nat := [2; 0; 0; 0; 0; 0]%nat.
Definition mtvrp_book := ((mtvrp_inst * Z) * list Z * list Z * list (nat * list Z))%type.
Definition check_book (c : mtvrp_book) : Z :=
  match c with (i, tols, o0, tr) => book_check M (fst i) book_obs book_kinds tols o0 tr end.
