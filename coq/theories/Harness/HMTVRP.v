(* Correspondence harness for MTVRP (C01-C06): the model at float32 rounding ([f32]) with the [<=] time comparisons
   of the code as it is since /repo 9b8ead8 (R = true) against recorded traces, and the exact specification evaluated on the
   implementation's own episodes. *)
From Coq Require Import ZArith List Bool Lia Arith.
From RL4CO Require Import Base.Num Base.EnvSig Spec.Routes Spec.VRPFeatures Env.MTVRP Env.MTVRPProofs Harness.HEnv.
Import ListNotations.
Open Scope Z_scope.

(* which variant of the time comparison the implementation is expected to have: true = [<=] (/repo 9b8ead8);
   false = the former strict [<] (C05 finding recorded as fixed) *)
Definition impl_repaired : bool := true.
Notation M := (MTVRP f32 impl_repaired).

(* (instance, slack for spec-on-impl: 0 on exact-grid data), trace, final mask, (impl reward, tolerance),
   episode complete?, checker accepted? *)
Definition mtvrp_case := ((mtvrp_inst * Z) * list tstep * list bool * (Z * Z) * bool * bool)%type.
Definition mk_mtvrp (l b : list Z) (c lm : Z) (o : bool) (wl wh s : list Z) (m mt : list (list Z)) (slack : Z)
  : mtvrp_inst * Z :=
  ({| dl := l; db := b; cap := c; lim := lm; opn := o; tlo := wl; thi := wh; svc := s; dist := m; tt := mt |}, slack).

Definition c_inst (c : mtvrp_case) := match c with (i, _, _, _, _, _) => fst i end.
Definition c_slack (c : mtvrp_case) := match c with (i, _, _, _, _, _) => snd i end.
Definition c_trace (c : mtvrp_case) := match c with (_, t, _, _, _, _) => t end.
Definition c_final (c : mtvrp_case) := match c with (_, _, f, _, _, _) => f end.
Definition c_rew (c : mtvrp_case) := match c with (_, _, _, r, _, _) => r end.
Definition c_complete (c : mtvrp_case) := match c with (_, _, _, _, b, _) => b end.
Definition c_checker (c : mtvrp_case) := match c with (_, _, _, _, _, b) => b end.

(* actions up to and including the step at which the row first reported done (the episode proper) *)
Fixpoint episode_actions (tr : list tstep) : list nat :=
  match tr with
  | [] => []
  | (m, a, d) :: rest => if d then [a] else a :: episode_actions rest
  end.

(* C01: the specification evaluated on the implementation's completed episode first (code 6 = the independent
   feasibility predicate is false on it: a concrete failing input, whatever the model says), then implementation
   masks inside model masks and done equal *)
Definition check_C01 (c : mtvrp_case) : Z :=
  if c_complete c && negb (mtvrp_feasibleb (c_inst c) (c_slack c) (episode_actions (c_trace c))) then 6
  else check_trace (E:=M) (c_inst c) 0 (c_trace c).

(* C02: on the implementation's observables, then mask/done equality with the model *)
Definition check_C02 (c : mtvrp_case) : Z :=
  let r := c02_impl (2 * n_of (c_inst c) + 1) (c_trace c) (c_final c) in
  if negb (r =? 0) then r
  else if negb (c_complete c) then 12
  else check_trace (E:=M) (c_inst c) 2 (c_trace c).

(* C03: reported reward against the route-wise objective recomputed from instance data and actions
   (all actions, padding included: this is what get_reward is given) *)
Definition check_C03 (c : mtvrp_case) : Z :=
  if negb (c_complete c) then 0
  else if zabs_le (fst (c_rew c)) (mtvrp_objective (c_inst c) (trace_actions (c_trace c))) (snd (c_rew c)) then 0 else 4.

(* C05: model masks inside implementation masks *)
Definition check_C05 (c : mtvrp_case) : Z := check_trace (E:=M) (c_inst c) 1 (c_trace c).

(* C06: the implementation's verdict against the specification first: feasible => accepted (14), infeasible beyond
   the slack => rejected (15) -- concrete failing inputs; then the model of the checker against the verdict (13) *)
Definition c06 (i : mtvrp_inst) (slack : Z) (acts : list nat) (verdict : bool) : Z :=
  if mtvrp_feasibleb i 0 acts && negb verdict then 14
  else if negb (mtvrp_feasibleb i (3 * slack) acts) && verdict then 15
  else if negb (Bool.eqb (mtvrp_checker f32 i acts) verdict) then 13
  else 0.
Definition check_C06 (c : mtvrp_case) : Z := c06 (c_inst c) (c_slack c) (trace_actions (c_trace c)) (c_checker c).

(* a solution given directly as an action list (hand-built or corrupted), with the implementation's verdict *)
Definition check_C06_sol (c : (mtvrp_inst * Z) * list nat * bool) : Z :=
  match c with (i, acts, verdict) => c06 (fst i) (snd i) acts verdict end.

(* well-formedness / solvability / metric flags of an instance, evaluated on every generated instance:
   bit 0 wfb, bit 1 solvableb (for the expected comparison), bit 2 metricb *)
Definition check_flags (c : mtvrp_inst * Z) : Z :=
  (if mtvrp_wfb (fst c) then 1 else 0) + (if mtvrp_solvableb impl_repaired (fst c) then 2 else 0)
  + (if mtvrp_metricb (fst c) then 4 else 0).
