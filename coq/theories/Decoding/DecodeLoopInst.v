(* C11 -- the two closings of Decoding/DecodeLoop.v and a small concrete environment for the Examples.

     executable:  K = Qc, logits Z, e = 2^z (Decoding/PLInst.v);  log domain (G, g0, gadd, lg) = (Qc, 1, *, id):
                  the "log-likelihood" of the model is the PRODUCT of the per-step probabilities, an exact rational;
                  gsub = /, ex = id, so the PPO ratio exp(new - old) is new / old.
     real:        K = R, logits R, e = exp;  (G, g0, gadd, lg) = (R, 0, +, ln), gsub = -, ex = exp, nplp p = - p ln p.

   Why the product representation: with weights 2^z every step probability is rational, so "returned LL = sum_t
   logp_t[a_t]" becomes the exact identity "exp(returned LL) = prod_t p_t[a_t]" in Qc, which the correspondence can
   compare with the float the code returns (theorem ll_is_log_of_product connects the two readings: for any log
   with lg 1 = 0 and lg (x y) = lg x + lg y, the model's sum of logs is the log of that product). *)
From Coq Require Import ZArith QArith Qcanon List Bool Lia Reals Lra Arith.
From RL4CO Require Import Base.OField Base.OFieldExtra Base.OFieldQc Base.OFieldR Base.EnvSig
                          Decoding.PLTensor Decoding.ProcessLogits Decoding.PLInst Decoding.DecodeLoop.
Import ListNotations.

(* ------------------------------------------------------------------ the log domains *)
Definition idQc (x : Qc) : Qc := x.

Lemma Qc_lg_1 : idQc (f1 (o := QcF)) = 1%Qc.
Proof. reflexivity. Qed.
Lemma Qc_lg_mul : forall x y : QcF, flt f0 x -> flt f0 y -> idQc (fmul x y) = Qcmult (idQc x) (idQc y).
Proof. reflexivity. Qed.
Lemma Qc_gsub_diag : forall x : QcF, flt f0 x -> Qcdiv (idQc x) (idQc x) = 1%Qc.
Proof.
  intros x Hx. unfold idQc, Qcdiv. apply Qcmult_inv_r. intros E. subst x. exact (flt_irrefl QcF _ Hx).
Qed.
Lemma Qc_ex_0 : idQc 1%Qc = f1 (o := QcF).
Proof. reflexivity. Qed.

Local Open Scope R_scope.
Lemma RF_flt_pos (x : RF) : flt f0 x -> 0 < x.
Proof.
  unfold flt, fltb. cbn [fleb f0 RF]. intros H. apply negb_true_iff in H.
  destruct (Rle_lt_dec x 0) as [C|C]; [|exact C]. apply Rleb_iff in C. congruence.
Qed.
Lemma R_lg_1 : ln (f1 (o := RF)) = 0.
Proof. exact ln_1. Qed.
Lemma R_lg_mul : forall x y : RF, flt f0 x -> flt f0 y -> ln (fmul x y) = ln x + ln y.
Proof. intros x y Hx Hy. apply ln_mult; apply RF_flt_pos; assumption. Qed.
Lemma R_gsub_diag : forall x : RF, flt f0 x -> ln x - ln x = 0.
Proof. intros x _. ring. Qed.
Lemma R_ex_0 : exp 0 = f1 (o := RF).
Proof. exact exp_0. Qed.
Definition R_nplp (p : R) : R := - p * ln p.
Local Close Scope R_scope.

(* ------------------------------------------------------------------ a small environment with rows that finish at
   different times: n customers 1..n and a depot 0; customers are offered until visited, the depot is offered (and is
   the only action offered) once every customer is visited; done = every customer visited.  A finished row is
   therefore padded with depot visits, as in the routing environments of rl4co. *)
Definition toy_mask (vis : list bool) : list bool := forallb (fun b => b) vis :: map negb vis.
Definition toy_step (vis : list bool) (a : nat) : list bool :=
  match a with O => vis | S j => set_nth j true vis end.
Definition ToyEnv : Env :=
  {| inst := nat; st := list bool;
     reset := fun n => repeat false n;
     step := fun _ s a => toy_step s a;
     stepok := fun n _ a => (a <=? n)%nat;
     mask := fun _ s => toy_mask s;
     done := fun _ s => forallb (fun b => b) s |}.
(* a "network": integer logits that depend on the hidden value h and on the state *)
Definition toy_dec (h : Z) (n : nat) (s : list bool) : list Z * list bool :=
  (map (fun j => ((h + Z.of_nat j * (1 + Z.of_nat (count (fun b => b) s))) mod 4)%Z) (seq 0 (S (length s))), toy_mask s).
(* a reward that select_best can compare: minus the weighted position of customer 1 *)
Fixpoint toy_rew_from (k : Z) (acts : list nat) : Z :=
  match acts with [] => 0%Z | a :: r => (- k * Z.of_nat a + toy_rew_from (k + 1) r)%Z end.
Definition toy_rew (n : nat) (s : list bool) (acts : list nat) : Z := toy_rew_from 1 acts.
Definition toy_flags (n : nat) (s : list bool) : option (list bool) := None.

Definition tfwd := forward QcF Z Z.leb pow2 (fun z => z) (fun z => z) f0 0 true ToyEnv Z toy_dec toy_rew.
Definition tps := out_ps QcF ToyEnv Z toy_flags.
Definition tll := out_ll QcF ToyEnv Z toy_flags Qc 1%Qc Qcmult idQc.
Definition tview (o : brow QcF ToyEnv Z) : list nat * list Q := (r_acts (snd o), map this (tps o)).
Definition tviews (r : option (list (brow QcF ToyEnv Z))) : option (list (list nat * list Q)) := option_map (map tview) r.

(* greedy on a batch of two instances (2 and 3 customers, different hidden values): row 0 finishes one step earlier
   and is padded with the depot, which has probability 1 *)
Example toy_greedy :
  tviews (tfwd Greedy false false 0 false 20 [(1%Z, 2%nat); (2%Z, 3%nat)] [] [[]; []])
  = Some [([2; 1; 0]%nat, [2 # 3; 1; 1]%Q); ([1; 2; 3]%nat, [8 # 11; 4 # 5; 1]%Q)].
Proof. vm_compute. reflexivity. Qed.

(* sampling: the oracle lists are the draws of torch.multinomial *)
Example toy_sampling :
  tviews (tfwd Sampling false false 0 false 20 [(1%Z, 2%nat); (2%Z, 3%nat)] [] [[1; 2; 0]; [3; 1; 2]]%nat)
  = Some [([1; 2; 0]%nat, [1 # 3; 1; 1]%Q); ([3; 1; 2]%nat, [2 # 11; 1 # 5; 1]%Q)].
Proof. vm_compute. reflexivity. Qed.

(* evaluate on the sampled actions reproduces them (instance of eval_roundtrip), also with store_all_logp = True *)
Example toy_evaluate :
  tviews (tfwd Evaluate true false 0 false 20 [(1%Z, 2%nat); (2%Z, 3%nat)] [] [[1; 2; 0]; [3; 1; 2]]%nat)
  = tviews (tfwd Sampling false false 0 false 20 [(1%Z, 2%nat); (2%Z, 3%nat)] [] [[1; 2; 0]; [3; 1; 2]]%nat).
Proof. vm_compute. reflexivity. Qed.

Example toy_forward_ok :
  forward_ok QcF Z Z.leb pow2 (fun z => z) (fun z => z) f0 0 true ToyEnv Z toy_dec Sampling false false 0 20
             [(1%Z, 2%nat); (2%Z, 3%nat)] [] [[1; 2; 0]; [3; 1; 2]]%nat = true.
Proof. vm_compute. reflexivity. Qed.

(* the padding step of the finished row 0 is taken in a state that offers the depot only: probability one
   (hypotheses of probs_single_feasible, at the state after [1; 2]) *)
Example toy_padding_state :
  let s := [true; true] in
  snd (toy_dec 1 2 s) = [true; false; false] /\ length (snd (toy_dec 1 2 s)) = length (fst (toy_dec 1 2 s)).
Proof. vm_compute. split; reflexivity. Qed.

(* multistart greedy, 2 starts per instance, one instance with 2 customers: forced starts 1 and 2 with probability 1 *)
Example toy_multistart :
  tviews (tfwd Greedy false true 2 false 20 [(1%Z, 2%nat)] [1; 2]%nat [[]; []])
  = Some [([1; 2]%nat, [1; 1]%Q); ([2; 1]%nat, [1; 1]%Q)].
Proof. vm_compute. reflexivity. Qed.

(* ... three customers: rows r = j * B + b (start j of instance b), the steps after the forced one are scored *)
Example toy_multistart_3 :
  tviews (tfwd Greedy false true 3 false 20 [(2%Z, 3%nat)] [1; 2; 3]%nat [[]; []; []])
  = Some [([1; 2; 3]%nat, [1; 4 # 5; 1]%Q); ([2; 1; 3]%nat, [1; 1 # 2; 1]%Q); ([3; 2; 1]%nat, [1; 4 # 5; 1]%Q)].
Proof. vm_compute. reflexivity. Qed.

(* select_best keeps, per instance, the rollout with the best reward (-14, -13, -10 here) together with ITS actions
   and probabilities *)
Example toy_multistart_best :
  tviews (tfwd Greedy false true 3 true 20 [(2%Z, 3%nat)] [1; 2; 3]%nat [[]; []; []])
  = Some [([3; 2; 1]%nat, [1; 4 # 5; 1]%Q)].
Proof. vm_compute. reflexivity. Qed.

(* evaluating a multistart pass the way that aligns (same starts, tail of the actions) reproduces it *)
Example toy_multistart_tail :
  tviews (tfwd Evaluate false true 3 false 20 [(2%Z, 3%nat)] [1; 2; 3]%nat [[2; 3]; [1; 3]; [2; 1]]%nat)
  = tviews (tfwd Greedy false true 3 false 20 [(2%Z, 3%nat)] [1; 2; 3]%nat [[]; []; []]).
Proof. vm_compute. reflexivity. Qed.

(* ------------------------------------------------------------------ THE REFUTATION
   policy(td, env, actions = the actions a multistart pass returned) -- on the batchified instances, which is the only
   way the shapes fit -- returns the same actions and final states, but scores the forced first move as an ordinary
   step: the log-likelihoods differ (row 0: 4/5 in the multistart pass, 8/11 * 4/5 = 32/55 when evaluated). *)
(* stated through matches so that the (large) intermediate rows never have to be written down *)
Definition lls (outs : list (brow QcF ToyEnv Z)) : list Q := map (fun o => this (tll o)) outs.

Theorem eval_roundtrip_multistart_refuted :
  exists (cfgs : list (Z * nat)) (S : nat) (starts : list nat) (ors : list (list nat)),
    (1 <= S)%nat /\
    match tfwd Greedy false true S false 20 cfgs starts ors with
    | None => False
    | Some outs =>
        match tfwd Evaluate false false 0 false 20 (map (fun o => (rc_h (fst o), rc_i (fst o))) outs) []
                   (map (fun o => r_acts (snd o)) outs) with
        | None => False
        | Some outsE =>
            map (fun o => r_acts (snd o)) outsE = map (fun o => r_acts (snd o)) outs /\
            map (fun o => r_s (snd o)) outsE = map (fun o => r_s (snd o)) outs /\
            length outsE = length outs /\
            exists r, nth r (lls outsE) 0%Q <> nth r (lls outs) 0%Q
        end
    end.
Proof.
  exists [(2%Z, 3%nat)], 3%nat, [1; 2; 3]%nat, [[]; []; []]. split; [lia|].
  vm_compute. split; [reflexivity|]. split; [reflexivity|]. split; [reflexivity|]. exists 0%nat. discriminate.
Qed.

Example toy_refutation_values :
  option_map (map (fun o => this (tll o))) (tfwd Greedy false true 3 false 20 [(2%Z, 3%nat)] [1; 2; 3]%nat [[]; []; []])
    = Some [4 # 5; 1 # 2; 4 # 5]%Q /\
  option_map (map (fun o => this (tll o)))
    (tfwd Evaluate false false 0 false 20 [(2%Z, 3%nat); (2%Z, 3%nat); (2%Z, 3%nat)] [] [[1; 2; 3]; [2; 1; 3]; [3; 2; 1]]%nat)
    = Some [32 # 55; 1 # 22; 8 # 55]%Q.
Proof. vm_compute. split; reflexivity. Qed.
