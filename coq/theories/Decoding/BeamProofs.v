(* C13 -- proofs about the beam-search model of Decoding/Beam.v.
   Part A: torch.topk on one row (sorted prefix of a stable descending argsort).
   Part B: list plumbing (gathers, zips).
   Part C: the invariant "the code's bookkeeping describes the ghost history of the state in each row",
           its preservation by _make_beam_step/_step, and the C13 theorems.
   Part D: instances (ordered field of probabilities with the C10 model of process_logits; option Z). *)
From Coq Require Import List Bool Arith Lia ZArith Permutation Sorted Ring Field.
From RL4CO Require Import Base.OField Base.OFieldExtra Base.EnvSig Decoding.PLTensor Decoding.ProcessLogits Decoding.Batchify Decoding.Nest Decoding.SelectBest
     Decoding.Layout Decoding.Beam.
Import ListNotations.

(* ================================================================================================ *)
(** * Part B first: list plumbing *)

Lemma nth_error_map2 {A B C} (f : A -> B -> C) (a : list A) (b : list B) i :
  nth_error (map2 f a b) i =
  match nth_error a i, nth_error b i with Some x, Some y => Some (f x y) | _, _ => None end.
Proof.
  revert b i. induction a as [|x a IH]; intros [|y b] [|i]; cbn [map2 nth_error]; try reflexivity.
  - destruct (nth_error a i); reflexivity.
  - apply IH.
Qed.

Lemma nth_error_map_seq {X} (f : nat -> X) n r : r < n -> nth_error (map f (seq 0 n)) r = Some (f r).
Proof.
  intros H. rewrite nth_error_map. rewrite nth_error_nth' with (d := 0) by (rewrite seq_length; exact H).
  rewrite seq_nth by exact H. reflexivity.
Qed.

Lemma nth_error_Some_lt {X} (l : list X) i x : nth_error l i = Some x -> i < length l.
Proof. intros H. apply nth_error_Some. congruence. Qed.

Lemma nth_error_lt_Some {X} (l : list X) i : i < length l -> exists x, nth_error l i = Some x.
Proof. intros H. destruct (nth_error l i) eqn:E; [eauto|]. apply nth_error_None in E. lia. Qed.

Lemma forallb2_spec {A B} (f : A -> B -> bool) a b :
  forallb2 f a b = true <->
  length a = length b /\ forall i x y, nth_error a i = Some x -> nth_error b i = Some y -> f x y = true.
Proof.
  revert b. induction a as [|x a IH]; intros [|y b]; cbn [forallb2 length].
  - split; [intros _; split; [reflexivity|intros [|i] ? ? H; discriminate] | reflexivity].
  - split; [discriminate | intros [H _]; discriminate].
  - split; [discriminate | intros [H _]; discriminate].
  - rewrite andb_true_iff, IH. split.
    + intros [Hf [Hl Hn]]. split; [lia|]. intros [|i] x' y' Hx Hy; cbn [nth_error] in *.
      * injection Hx as <-. injection Hy as <-. exact Hf.
      * eapply Hn; eassumption.
    + intros [Hl Hn]. split; [apply (Hn 0 x y); reflexivity|]. split; [lia|].
      intros i x' y' Hx Hy. apply (Hn (S i)); assumption.
Qed.

Lemma gather_rows_spec {X} (l : list X) idx out :
  gather_rows l idx = Some out ->
  length out = length idx /\
  forall r q, nth_error idx r = Some q -> exists x, nth_error l q = Some x /\ nth_error out r = Some x.
Proof.
  unfold gather_rows. intros H. destruct (mapM_spec _ _ H) as [Hl Hn]. split; [exact Hl|].
  intros r q Hq. destruct (Hn r q Hq) as (v & Hv & Ho). exists v. split; assumption.
Qed.

Lemma gather_rows_total {X} (l : list X) idx :
  (forall q, In q idx -> q < length l) -> exists out, gather_rows l idx = Some out.
Proof.
  intros H. unfold gather_rows. apply mapM_total. intros q Hq E. apply nth_error_None in E.
  specialize (H q Hq). lia.
Qed.

Lemma gather_rows_none {X} (l : list X) idx :
  gather_rows l idx = None -> exists q, In q idx /\ length l <= q.
Proof.
  unfold gather_rows. induction idx as [|q idx IH]; cbn [mapM]; [discriminate|].
  destruct (nth_error l q) eqn:E.
  - destruct (mapM (nth_error l) idx) eqn:E2; [discriminate|]. intros _.
    destruct (IH eq_refl) as (q' & Hin & Hq'). exists q'. split; [right; exact Hin|exact Hq'].
  - intros _. exists q. split; [left; reflexivity|]. apply nth_error_None. exact E.
Qed.

Lemma NoDup_app_left {A} (a b : list A) : NoDup (a ++ b) -> NoDup a.
Proof.
  induction a as [|x a IH]; intros H; [constructor|]. cbn [app] in H. inversion H as [|? ? Hx Hn]; subst.
  constructor; [intros Hc; apply Hx; apply in_app_iff; left; exact Hc | apply IH; exact Hn].
Qed.

Lemma count_app {A} (P : A -> bool) a b : count P (a ++ b) = count P a + count P b.
Proof. induction a as [|x a IH]; cbn [app count]; [reflexivity|]. rewrite IH. lia. Qed.

Lemma count_seq_nth {A} (P : A -> bool) (xs : list A) d :
  count (fun i => P (nth i xs d)) (seq 0 (length xs)) = count P xs.
Proof. rewrite <- (count_map (fun i => nth i xs d) P). rewrite map_nth_seq. reflexivity. Qed.

Lemma StronglySorted_app_cross {A} (R : A -> A -> Prop) a b :
  StronglySorted R (a ++ b) -> forall x y, In x a -> In y b -> R x y.
Proof.
  induction a as [|z a IH]; intros H x y Hx Hy; [destruct Hx|].
  cbn [app] in H. apply StronglySorted_inv in H as [Hs Hall]. destruct Hx as [->|Hx].
  - rewrite Forall_forall in Hall. apply Hall. apply in_app_iff. right. exact Hy.
  - apply IH; assumption.
Qed.

Lemma StronglySorted_app_l {A} (R : A -> A -> Prop) a b : StronglySorted R (a ++ b) -> StronglySorted R a.
Proof.
  induction a as [|z a IH]; intros H; [constructor|].
  cbn [app] in H. apply StronglySorted_inv in H as [Hs Hall]. constructor; [apply IH; exact Hs|].
  rewrite Forall_forall in *. intros x Hx. apply Hall. apply in_app_iff. left. exact Hx.
Qed.

Lemma StronglySorted_app_r {A} (R : A -> A -> Prop) a b : StronglySorted R (a ++ b) -> StronglySorted R b.
Proof.
  induction a as [|z a IH]; intros H; [exact H|].
  cbn [app] in H. apply StronglySorted_inv in H as [Hs _]. apply IH. exact Hs.
Qed.

Lemma StronglySorted_nth {A} (R : A -> A -> Prop) l d :
  StronglySorted R l -> forall a c, a < c -> c < length l -> R (nth a l d) (nth c l d).
Proof.
  induction 1 as [|x l Hs IH Hall]; intros a c Hac Hc; cbn [length] in Hc; [lia|].
  destruct c as [|c]; [lia|]. destruct a as [|a]; cbn [nth].
  - rewrite Forall_forall in Hall. apply Hall. apply nth_In. lia.
  - apply IH; lia.
Qed.

(* ================================================================================================ *)
(** * Part A: torch.topk on one row *)
Section TopKFacts.
  Variable Sc : Type.
  Variable sleb : Sc -> Sc -> bool.
  Variable sbot : Sc.
  Hypothesis sleb_total : forall x y, sleb x y = true \/ sleb y x = true.
  Hypothesis sleb_trans : forall x y z, sleb x y = true -> sleb y z = true -> sleb x z = true.

  Notation desc := (desc Sc sleb sbot).
  Notation argsort_desc := (argsort_desc Sc sleb sbot).
  Notation topk_idx := (topk_idx Sc sleb sbot).

  Lemma desc_total xs i j : desc xs i j = true \/ desc xs j i = true.
  Proof. unfold Beam.desc. destruct (sleb_total (nth j xs sbot) (nth i xs sbot)); auto. Qed.
  Lemma desc_trans xs i j k : desc xs i j = true -> desc xs j k = true -> desc xs i k = true.
  Proof. unfold Beam.desc. intros H1 H2. eapply sleb_trans; eassumption. Qed.

  Lemma argsort_perm xs : Permutation (argsort_desc xs) (seq 0 (length xs)).
  Proof. apply isort_perm. Qed.
  Lemma argsort_length xs : length (argsort_desc xs) = length xs.
  Proof. rewrite (Permutation_length (argsort_perm xs)). apply seq_length. Qed.
  Lemma argsort_in xs i : In i (argsort_desc xs) <-> i < length xs.
  Proof.
    split; intros H.
    - apply (Permutation_in _ (argsort_perm xs)) in H. apply in_seq in H. lia.
    - apply (Permutation_in _ (Permutation_sym (argsort_perm xs))). apply in_seq. lia.
  Qed.
  Lemma argsort_nodup xs : NoDup (argsort_desc xs).
  Proof. eapply Permutation_NoDup; [apply Permutation_sym; apply argsort_perm | apply seq_NoDup]. Qed.
  Lemma argsort_sorted xs : StronglySorted (lebP _ (desc xs)) (argsort_desc xs).
  Proof. apply isort_sorted; [apply desc_total | apply desc_trans]. Qed.

  Lemma topk_split k xs : argsort_desc xs = topk_idx k xs ++ skipn k (argsort_desc xs).
  Proof. unfold Beam.topk_idx. symmetry. apply firstn_skipn. Qed.

  Lemma topk_length k xs : k <= length xs -> length (topk_idx k xs) = k.
  Proof. intros H. unfold Beam.topk_idx. rewrite firstn_length, argsort_length. lia. Qed.

  Lemma topk_in_range k xs i : In i (topk_idx k xs) -> i < length xs.
  Proof. intros H. apply argsort_in. rewrite (topk_split k xs). apply in_app_iff. left. exact H. Qed.

  Lemma topk_nodup k xs : NoDup (topk_idx k xs).
  Proof. pose proof (argsort_nodup xs) as H. rewrite (topk_split k xs) in H. apply NoDup_app_left in H. exact H. Qed.

  (* every kept entry is at least as large as every entry that is not kept *)
  Theorem topk_dominates k xs i j :
    In i (topk_idx k xs) -> j < length xs -> ~ In j (topk_idx k xs) ->
    sleb (nth j xs sbot) (nth i xs sbot) = true.
  Proof.
    intros Hi Hj Hnj. pose proof (argsort_sorted xs) as Hs. rewrite (topk_split k xs) in Hs.
    assert (Hin : In j (skipn k (argsort_desc xs))).
    { apply argsort_in in Hj. rewrite (topk_split k xs) in Hj. apply in_app_iff in Hj as [Hj|Hj]; [contradiction|exact Hj]. }
    exact (StronglySorted_app_cross _ _ _ Hs i j Hi Hin).
  Qed.

  (* best first *)
  Theorem topk_sorted k xs a c :
    a < c -> c < length (topk_idx k xs) ->
    sleb (nth (nth c (topk_idx k xs) 0) xs sbot) (nth (nth a (topk_idx k xs) 0) xs sbot) = true.
  Proof.
    intros Hac Hc. pose proof (argsort_sorted xs) as Hs. rewrite (topk_split k xs) in Hs.
    apply StronglySorted_app_l in Hs. exact (StronglySorted_nth _ _ 0 Hs a c Hac Hc).
  Qed.

  (* ---- finite entries come first *)
  Variable fin : Sc -> bool.
  Hypothesis fin_low : forall x y, fin x = false -> fin y = true -> sleb y x = false.

  Lemma count_fin_argsort xs : count (fun i => fin (nth i xs sbot)) (argsort_desc xs) = count fin xs.
  Proof. rewrite (count_perm _ _ _ (argsort_perm xs)). apply count_seq_nth. Qed.

  (* with at least k finite entries, no -inf entry is selected *)
  Theorem topk_finite k xs i : k <= count fin xs -> In i (topk_idx k xs) -> fin (nth i xs sbot) = true.
  Proof.
    intros Hk Hi. destruct (fin (nth i xs sbot)) eqn:E; [reflexivity|]. exfalso.
    apply in_split in Hi as (l1 & l2 & Hsplit).
    pose proof (argsort_sorted xs) as Hs. pose proof (count_fin_argsort xs) as Hc.
    rewrite (topk_split k xs), Hsplit in Hs, Hc.
    assert (Hlen : length l1 + 1 + length l2 <= k).
    { assert (length (topk_idx k xs) <= k) by (unfold Beam.topk_idx; rewrite firstn_length; lia).
      rewrite Hsplit, app_length in H. cbn [length] in H. lia. }
    (* everything after i in the sorted order is non-finite *)
    set (rest := l2 ++ skipn k (argsort_desc xs)) in *.
    assert (Hs' : StronglySorted (lebP _ (desc xs)) (l1 ++ i :: rest)).
    { unfold rest. rewrite <- app_assoc in Hs. exact Hs. }
    apply StronglySorted_app_r in Hs'. apply StronglySorted_inv in Hs' as [_ Hall].
    assert (Hafter : forall y, In y rest -> fin (nth y xs sbot) = false).
    { intros y Hy. rewrite Forall_forall in Hall. specialize (Hall y Hy). unfold lebP, Beam.desc in Hall.
      destruct (fin (nth y xs sbot)) eqn:Ey; [|reflexivity].
      rewrite (fin_low _ _ E Ey) in Hall. discriminate. }
    assert (Hc' : count (fun i0 => fin (nth i0 xs sbot)) (l1 ++ i :: rest) = count fin xs).
    { rewrite <- Hc. unfold rest. rewrite <- app_assoc. reflexivity. }
    rewrite count_app in Hc'. cbn [count] in Hc'. rewrite E in Hc'.
    rewrite (count_none _ rest) in Hc' by (intros y Hy; apply Hafter; exact Hy).
    pose proof (count_le_length (fun i0 => fin (nth i0 xs sbot)) l1). lia.
  Qed.

  (* with fewer than k finite entries a -inf entry IS selected *)
  Theorem topk_selects_nonfinite k xs :
    k <= length xs -> count fin xs < k -> exists i, In i (topk_idx k xs) /\ fin (nth i xs sbot) = false.
  Proof.
    intros Hk Hc.
    destruct (forallb (fun i => fin (nth i xs sbot)) (topk_idx k xs)) eqn:E.
    - exfalso. rewrite forallb_forall in E.
      pose proof (count_fin_argsort xs) as Hc2. rewrite (topk_split k xs), count_app in Hc2.
      rewrite (count_all _ (topk_idx k xs)) in Hc2 by exact E. rewrite topk_length in Hc2 by exact Hk. lia.
    - assert (H : exists i, In i (topk_idx k xs) /\ fin (nth i xs sbot) = false).
      { clear -E. induction (topk_idx k xs) as [|a l IH]; cbn [forallb] in E; [discriminate|].
        destruct (fin (nth a xs sbot)) eqn:Ea.
        - destruct (IH E) as (i & Hi & Hf). exists i. split; [right; exact Hi|exact Hf].
        - exists a. split; [left; reflexivity|exact Ea]. }
      exact H.
  Qed.
End TopKFacts.

(* ---- the tie rule of the model's topk: among equal values the smaller stacked index comes first *)
Section TopKTies.
  Variable Sc : Type.
  Variable sleb : Sc -> Sc -> bool.
  Variable sbot : Sc.
  Hypothesis sleb_total : forall x y, sleb x y = true \/ sleb y x = true.
  Hypothesis sleb_trans : forall x y z, sleb x y = true -> sleb y z = true -> sleb x z = true.
  Notation desc := (desc Sc sleb sbot).

  Definition lex (xs : list Sc) (i j : nat) : Prop := desc xs i j = true /\ (desc xs j i = true -> i < j).

  Lemma insert_lex xs x s :
    StronglySorted (lex xs) s -> (forall y, In y s -> x < y) -> StronglySorted (lex xs) (insert (desc xs) x s).
  Proof.
    induction 1 as [|y r Hs IH Hall]; intros Hlt; cbn [insert].
    - constructor; constructor.
    - destruct (desc xs x y) eqn:Exy.
      + constructor; [constructor; assumption|]. constructor.
        * split; [exact Exy|]. intros _. apply Hlt. left. reflexivity.
        * rewrite Forall_forall in *. intros z Hz. split.
          -- eapply (desc_trans Sc sleb sbot sleb_trans); [exact Exy|]. apply (Hall z Hz).
          -- intros _. apply Hlt. right. exact Hz.
      + constructor.
        * apply IH. intros z Hz. apply Hlt. right. exact Hz.
        * eapply Permutation_Forall; [apply Permutation_sym; apply insert_perm|].
          constructor; [|exact Hall]. split.
          -- destruct (desc_total Sc sleb sbot sleb_total xs x y) as [C|C]; [congruence|exact C].
          -- intros C. congruence.
  Qed.

  Lemma isort_lex xs l : StronglySorted lt l -> StronglySorted (lex xs) (isort (desc xs) l).
  Proof.
    induction 1 as [|x l Hs IH Hall]; cbn [isort fold_right]; [constructor|].
    apply insert_lex; [exact IH|]. intros y Hy. rewrite Forall_forall in Hall. apply Hall.
    exact (Permutation_in _ (isort_perm _ (desc xs) l) Hy).
  Qed.

  Lemma seq_sorted a n : StronglySorted lt (seq a n).
  Proof.
    revert a. induction n as [|n IH]; intros a; cbn [seq]; constructor; [apply IH|].
    apply Forall_forall. intros y Hy. apply in_seq in Hy. lia.
  Qed.

  Theorem topk_tie_rule k xs a c :
    a < c -> c < length (topk_idx Sc sleb sbot k xs) ->
    let i := nth a (topk_idx Sc sleb sbot k xs) 0 in
    let j := nth c (topk_idx Sc sleb sbot k xs) 0 in
    sleb (nth j xs sbot) (nth i xs sbot) = true /\ (sleb (nth i xs sbot) (nth j xs sbot) = true -> i < j).
  Proof.
    intros Hac Hc. pose proof (isort_lex xs (seq 0 (length xs)) (seq_sorted 0 _)) as Hs.
    change (isort (desc xs) (seq 0 (length xs))) with (argsort_desc Sc sleb sbot xs) in Hs.
    rewrite (topk_split Sc sleb sbot k xs) in Hs. apply StronglySorted_app_l in Hs.
    exact (StronglySorted_nth _ _ 0 Hs a c Hac Hc).
  Qed.
End TopKTies.

(* ================================================================================================ *)
(** * Part C: the beam bookkeeping *)

Lemma nth_map_seq0 {X} (f : nat -> X) n j d : j < n -> nth j (map f (seq 0 n)) d = f j.
Proof.
  intros H. rewrite (nth_map_in f (seq 0 n) j 0 d) by (rewrite seq_length; exact H).
  rewrite seq_nth by exact H. reflexivity.
Qed.

Lemma div_mod_stack n N j : n < N -> (j * N + n) / N = j /\ (j * N + n) mod N = n.
Proof.
  intros H. assert (HN : N <> 0) by lia. split.
  - rewrite Nat.add_comm, Nat.div_add by exact HN. rewrite Nat.div_small by exact H. reflexivity.
  - rewrite Nat.add_comm, Nat.mod_add by exact HN. apply Nat.mod_small. exact H.
Qed.

Lemma stack_decompose ind W N : 0 < N -> ind < W * N -> ind / N < W /\ ind mod N < N /\ ind = (ind / N) * N + ind mod N.
Proof.
  intros HN H. assert (HN' : N <> 0) by lia. split; [|split].
  - apply Nat.div_lt_upper_bound; [exact HN'|lia].
  - apply Nat.mod_upper_bound. exact HN'.
  - pose proof (Nat.div_mod ind N HN'). lia.
Qed.

Lemma row_index_lt b j W B : b < B -> j < W -> b + j * B < W * B.
Proof. intros. nia. Qed.

Lemma row_index_mod b j B : b < B -> (b + j * B) mod B = b /\ (b + j * B) / B = j.
Proof.
  intros H. assert (HB : B <> 0) by lia. split.
  - rewrite Nat.mod_add by exact HB. apply Nat.mod_small. exact H.
  - rewrite Nat.div_add by exact HB. rewrite Nat.div_small by exact H. reflexivity.
Qed.

Section BeamFacts.
  Variable E : Env.
  Variable Sc : Type.
  Variable sop : Sc -> Sc -> Sc.
  Variables sone sbot : Sc.
  Variable sleb : Sc -> Sc -> bool.
  Variable fin : Sc -> bool.
  Variable lp : inst E -> st E -> list Sc.
  Variable rew : inst E -> st E -> list nat -> Z.

  Hypothesis sleb_total : forall x y, sleb x y = true \/ sleb y x = true.
  Hypothesis sleb_trans : forall x y z, sleb x y = true -> sleb y z = true -> sleb x z = true.

  (* the decoder emits one score per node, for every state (logprobs is an [R, N] tensor) *)
  Variable N : nat.
  Hypothesis N_pos : 0 < N.
  Hypothesis lp_len : forall i s, length (lp i s) = N.

  Notation row := (row E).
  Notation bstate := (bstate E Sc).
  Notation r_inst := (r_inst E).
  Notation r_st := (r_st E).
  Notation r_hist := (r_hist E).
  Notation row_step := (row_step E).
  Notation row_stepok := (row_stepok E).
  Notation row_mask := (row_mask E).
  Notation row_lp := (row_lp E Sc lp).
  Notation row_done := (row_done E).
  Notation pre_hook := (pre_hook E Sc sone).
  Notation beam_step := (beam_step E Sc sop sbot sleb lp).
  Notation loop := (loop E Sc sop sbot sleb lp).
  Notation backtrack := (backtrack E Sc).
  Notation lbp_row := (lbp_row Sc sop).
  Notation hstack := (hstack Sc).
  Notation topk_idx := (topk_idx Sc sleb sbot).
  Notation lps_from := (lps_from E Sc lp).
  Notation lps_along := (lps_along E Sc sone lp).
  Notation score_from := (score_from E Sc sop sbot lp).
  Notation score := (score E Sc sop sone sbot lp).
  Notation steps_from := (steps_from E Sc sbot lp).
  Notation steps := (steps E Sc sone sbot lp).
  Notation gat := (fun (a : nat) (v : list Sc) => nth_error v a).

  (* ---------------------------------------------------------------- specification vocabulary: append one move *)
  Lemma lps_from_snoc i s acts a :
    lps_from i s (acts ++ [a]) = lps_from i s acts ++ [lp i (run_from i s acts)].
  Proof. revert s. induction acts as [|x acts IH]; intros s; cbn [app Beam.lps_from run_from]; [reflexivity|]. rewrite IH. reflexivity. Qed.

  Lemma lps_along_snoc i h a : h <> [] -> lps_along i (h ++ [a]) = lps_along i h ++ [lp i (run i h)].
  Proof.
    destruct h as [|a0 r]; [congruence|]. intros _. cbn [app Beam.lps_along]. rewrite lps_from_snoc. reflexivity.
  Qed.

  Lemma score_from_snoc i s acts a acc :
    score_from i s (acts ++ [a]) acc = sop (nth a (lp i (run_from i s acts)) sbot) (score_from i s acts acc).
  Proof. revert s acc. induction acts as [|x acts IH]; intros s acc; cbn [app Beam.score_from run_from]; [reflexivity|]. apply IH. Qed.

  Lemma score_snoc i h a : h <> [] -> score i (h ++ [a]) = sop (nth a (lp i (run i h)) sbot) (score i h).
  Proof. destruct h as [|a0 r]; [congruence|]. intros _. cbn [app Beam.score]. apply score_from_snoc. Qed.

  Lemma steps_from_snoc i s acts a :
    steps_from i s (acts ++ [a]) = steps_from i s acts ++ [nth a (lp i (run_from i s acts)) sbot].
  Proof. revert s. induction acts as [|x acts IH]; intros s; cbn [app Beam.steps_from run_from]; [reflexivity|]. rewrite IH. reflexivity. Qed.

  Lemma steps_snoc i h a : h <> [] -> steps i (h ++ [a]) = steps i h ++ [nth a (lp i (run i h)) sbot].
  Proof. destruct h as [|a0 r]; [congruence|]. intros _. cbn [app Beam.steps]. rewrite steps_from_snoc. reflexivity. Qed.

  Lemma zipM_snoc {A B' C} (g : C -> A -> option B') cs l c a r v :
    zipM g cs l = Some r -> g c a = Some v -> zipM g (cs ++ [c]) (l ++ [a]) = Some (r ++ [v]).
  Proof.
    revert l r. induction cs as [|c0 cs IH]; intros [|a0 l] r H Hg; cbn [zipM app] in *; try discriminate.
    - injection H as <-. rewrite Hg. reflexivity.
    - destruct (g c0 a0); [|discriminate]. destruct (zipM g cs l) as [r'|] eqn:EZ2; [|discriminate].
      injection H as <-. rewrite (IH l r' EZ2 Hg). reflexivity.
  Qed.

  (* ---------------------------------------------------------------- backtracking only looks at r mod B *)
  Lemma bt_from_mod {X} B r r' (cols : list (list X)) path q :
    r mod B = r' mod B -> bt_from B r cols path q = bt_from B r' cols path q.
  Proof.
    intros Hm. revert path q. induction cols as [|c cols IH]; intros [|p path] q; cbn [bt_from]; try reflexivity.
    destruct (nth_error c q); [|reflexivity]. destruct (nth_error p q); [|reflexivity].
    rewrite Hm, IH. reflexivity.
  Qed.

  (* ---------------------------------------------------------------- the stacked score matrix *)
  Lemma hstack_length B W (lb : list (list Sc)) b :
    length lb = W * B -> Forall (fun v => length v = N) lb -> b < B -> length (hstack B W lb b) = W * N.
  Proof.
    intros Hl Hall Hb. unfold Beam.hstack. rewrite concat_length_uniform with (n := N).
    - rewrite map_length, seq_length. reflexivity.
    - apply Forall_forall. intros v Hv. apply in_map_iff in Hv as (j & <- & Hj). apply in_seq in Hj.
      rewrite Forall_forall in Hall. apply Hall. apply nth_In. nia.
  Qed.

  Lemma hstack_nth B W (lb : list (list Sc)) b j n d :
    length lb = W * B -> Forall (fun v => length v = N) lb -> b < B -> j < W -> n < N ->
    nth (j * N + n) (hstack B W lb b) d = nth n (nth (j * B + b) lb []) d.
  Proof.
    intros Hl Hall Hb Hj Hn. unfold Beam.hstack.
    rewrite nth_concat_uniform.
    - rewrite nth_map_seq0 by exact Hj. reflexivity.
    - apply Forall_forall. intros v Hv. apply in_map_iff in Hv as (j' & <- & Hj'). apply in_seq in Hj'.
      rewrite Forall_forall in Hall. apply Hall. apply nth_In. nia.
    - rewrite map_length, seq_length. exact Hj.
    - exact Hn.
  Qed.

  (* ---------------------------------------------------------------- the invariant *)
  Variables W B : nat.
  Variable insts : list (inst E).
  Hypothesis W_pos : 0 < W.
  Hypothesis insts_len : length insts = B.

  Definition row_ok (bs : bstate) (r : nat) (rw : row) : Prop :=
    nth_error insts (r mod B) = Some (r_inst rw) /\
    r_st rw = run (r_inst rw) (r_hist rw) /\
    r_hist rw <> [] /\
    bt_from B r (b_acts E Sc bs) (b_path E Sc bs) r = Some (rev (r_hist rw)) /\
    bt_from B r (b_lps E Sc bs) (b_path E Sc bs) r = Some (rev (lps_along (r_inst rw) (r_hist rw))) /\
    nth_error (b_pbl E Sc bs) r = Some (score (r_inst rw) (r_hist rw)) /\
    zipM gat (r_hist rw) (lps_along (r_inst rw) (r_hist rw)) = Some (steps (r_inst rw) (r_hist rw)).

  Record Inv (bs : bstate) : Prop := mkInv {
    inv_rows : length (b_rows E Sc bs) = W * B;
    inv_pbl : length (b_pbl E Sc bs) = W * B;
    inv_hd : length (hd [] (b_acts E Sc bs)) = W * B;
    inv_row : forall r rw, nth_error (b_rows E Sc bs) r = Some rw -> row_ok bs r rw
  }.

  Lemma WB_div : (W * B) / W = B.
  Proof. clear N_pos lp_len insts_len. rewrite Nat.mul_comm. apply Nat.div_mul. lia. Qed.

  (* the score matrix of a state that satisfies the invariant *)
  Definition lb_of (bs : bstate) : list (list Sc) := map2 lbp_row (map row_lp (b_rows E Sc bs)) (b_pbl E Sc bs).

  Lemma lb_of_length bs : Inv bs -> length (lb_of bs) = W * B.
  Proof. intros HI. unfold lb_of. rewrite map2_length, map_length, (inv_rows _ HI), (inv_pbl _ HI). lia. Qed.

  Lemma lb_of_widths bs : Forall (fun v => length v = N) (lb_of bs).
  Proof.
    apply Forall_forall. intros v Hv. apply (In_nth_error) in Hv as (q & Hq). unfold lb_of in Hq.
    rewrite nth_error_map2, nth_error_map in Hq.
    destruct (nth_error (b_rows E Sc bs) q) as [rq|]; cbn [option_map] in Hq; [|discriminate].
    destruct (nth_error (b_pbl E Sc bs) q) as [pq|]; [|discriminate]. injection Hq as <-.
    unfold Beam.lbp_row. rewrite map_length. apply lp_len.
  Qed.

  Lemma lb_of_nth bs q rq pq :
    nth_error (b_rows E Sc bs) q = Some rq -> nth_error (b_pbl E Sc bs) q = Some pq ->
    nth q (lb_of bs) [] = lbp_row (row_lp rq) pq.
  Proof.
    intros Hr Hp. apply nth_error_nth. unfold lb_of. rewrite nth_error_map2, nth_error_map, Hr, Hp. reflexivity.
  Qed.

  (* candidate (j, n) of instance b = expanding row j*B+b with action n; its place in the stacked row is j*N+n *)
  Lemma cand_score bs b j n rq pq :
    Inv bs -> b < B -> j < W -> n < N ->
    nth_error (b_rows E Sc bs) (j * B + b) = Some rq -> nth_error (b_pbl E Sc bs) (j * B + b) = Some pq ->
    nth (j * N + n) (hstack B W (lb_of bs) b) sbot = sop (nth n (row_lp rq) sbot) pq.
  Proof.
    intros HI Hb Hj Hn Hr Hp.
    rewrite hstack_nth by (try apply lb_of_length; try apply lb_of_widths; assumption).
    rewrite (lb_of_nth bs _ rq pq Hr Hp). unfold Beam.lbp_row.
    rewrite (nth_map_in (fun x => sop x pq) (row_lp rq) n sbot sbot); [reflexivity|].
    unfold Beam.row_lp. rewrite lp_len. exact Hn.
  Qed.

  (* ---------------------------------------------------------------- what one successful step does, row by row *)
  Notation topk_all := (topk_all Sc sbot sleb).

  Lemma stack_ind_eq lb r : r < W * B ->
    stack_ind B (topk_all W B lb) r = nth (r / B) (topk_idx W (hstack B W lb (r mod B))) 0.
  Proof.
    intros Hr. unfold Beam.stack_ind, Beam.topk_all.
    rewrite nth_map_seq0; [reflexivity|]. apply Nat.mod_upper_bound. nia.
  Qed.

  (* the stacked index selected for row r *)
  Definition ind_of (bs : bstate) (r : nat) : nat :=
    nth (r / B) (topk_idx W (hstack B W (lb_of bs) (r mod B))) 0.

  Lemma ind_of_in bs r : Inv bs -> r < W * B ->
    In (ind_of bs r) (topk_idx W (hstack B W (lb_of bs) (r mod B))) /\ ind_of bs r < W * N.
  Proof.
    intros HI Hr. assert (HB : B <> 0) by nia.
    assert (Hb : r mod B < B) by (apply Nat.mod_upper_bound; exact HB).
    assert (Hk : r / B < W) by (apply Nat.div_lt_upper_bound; [exact HB|nia]).
    assert (Hlen : length (hstack B W (lb_of bs) (r mod B)) = W * N)
      by (apply hstack_length; [apply lb_of_length; exact HI | apply lb_of_widths | exact Hb]).
    assert (Hin : In (ind_of bs r) (topk_idx W (hstack B W (lb_of bs) (r mod B)))).
    { unfold ind_of. apply nth_In. rewrite topk_length by (rewrite Hlen; nia). exact Hk. }
    split; [exact Hin|]. rewrite <- Hlen. eapply topk_in_range. exact Hin.
  Qed.

  Lemma beam_step_spec bs bs' : Inv bs -> beam_step W bs = Some bs' ->
    exists sel par lpv1,
      b_acts E Sc bs' = sel :: b_acts E Sc bs /\ b_path E Sc bs' = par :: b_path E Sc bs /\
      b_lps E Sc bs' = lpv1 :: b_lps E Sc bs /\
      length sel = W * B /\ length (b_rows E Sc bs') = W * B /\ length (b_pbl E Sc bs') = W * B /\
      forall r, r < W * B ->
        let ind := ind_of bs r in
        let q := r mod B + (ind / N) * B in
        exists rq pq, nth_error (b_rows E Sc bs) q = Some rq /\ nth_error (b_pbl E Sc bs) q = Some pq /\
          nth_error sel r = Some (ind mod N) /\ nth_error par r = Some (ind / N) /\
          nth_error lpv1 r = Some (row_lp rq) /\
          nth_error (b_rows E Sc bs') r = Some (row_step rq (ind mod N)) /\
          nth (ind mod N) (row_mask rq) false = true /\
          row_stepok rq (ind mod N) = true /\
          nth_error (b_pbl E Sc bs') r = Some (sop (nth (ind mod N) (row_lp rq) sbot) pq).
  Proof.
    intros HI H. unfold Beam.beam_step in H. cbv zeta in H.
    rewrite (inv_rows _ HI), WB_div in H.
    set (N0 := length (hd [] (map row_lp (b_rows E Sc bs)))) in H.
    destruct (N0 =? 0) eqn:EN0; [discriminate|]. apply Nat.eqb_neq in EN0.
    assert (HN0 : N0 = N).
    { unfold N0 in *. destruct (b_rows E Sc bs) as [|r0 rows]; cbn [map hd length] in *; [lia|]. apply lp_len. }
    rewrite HN0 in H. clear EN0 HN0 N0.
    fold (lb_of bs) in H.
    set (tk := topk_all W B (lb_of bs)) in H.
    set (bbi := map (fun r => r mod B + stack_ind B tk r / N * B) (seq 0 (W * B))) in H.
    set (sel := map (fun r => stack_ind B tk r mod N) (seq 0 (W * B))) in H.
    destruct (gather_rows (b_rows E Sc bs) bbi) as [rows1|] eqn:G1; [|discriminate].
    destruct (gather_rows (map row_lp (b_rows E Sc bs)) bbi) as [lpv1|] eqn:G2; [|discriminate].
    destruct (gather_rows (map row_mask (b_rows E Sc bs)) bbi) as [msk1|] eqn:G3; [|discriminate].
    destruct (forallb2 (fun (m : list bool) a => nth a m false) msk1 sel) eqn:F1; cbn [negb] in H; [|discriminate].
    destruct (forallb2 row_stepok rows1 sel) eqn:F2; cbn [negb] in H; [|discriminate].
    injection H as <-. cbn [b_rows b_acts b_lps b_path b_pbl].
    destruct (gather_rows_spec _ _ _ G1) as [L1 S1]. destruct (gather_rows_spec _ _ _ G2) as [L2 S2].
    destruct (gather_rows_spec _ _ _ G3) as [L3 S3].
    apply forallb2_spec in F1 as [_ F1]. apply forallb2_spec in F2 as [_ F2].
    assert (Lbbi : length bbi = W * B) by (unfold bbi; rewrite map_length, seq_length; reflexivity).
    assert (Lsel : length sel = W * B) by (unfold sel; rewrite map_length, seq_length; reflexivity).
    eexists sel, _, lpv1. repeat (split; [reflexivity|]).
    split; [exact Lsel|]. split; [rewrite map2_length; lia|]. split; [rewrite map_length, seq_length; reflexivity|].
    intros r Hr. cbv zeta.
    assert (Eind : stack_ind B tk r = ind_of bs r) by (unfold tk; rewrite stack_ind_eq by exact Hr; reflexivity).
    assert (Hq : nth_error bbi r = Some (r mod B + ind_of bs r / N * B)).
    { unfold bbi. rewrite nth_error_map_seq by exact Hr. rewrite Eind. reflexivity. }
    assert (Hs : nth_error sel r = Some (ind_of bs r mod N)).
    { unfold sel. rewrite nth_error_map_seq by exact Hr. rewrite Eind. reflexivity. }
    destruct (S1 _ _ Hq) as (rq & Hrq & Ho1). destruct (S2 _ _ Hq) as (v & Hv & Ho2). destruct (S3 _ _ Hq) as (m & Hm & Ho3).
    rewrite nth_error_map, Hrq in Hv, Hm. cbn [option_map] in Hv, Hm. injection Hv as <-. injection Hm as <-.
    destruct (nth_error_lt_Some (b_pbl E Sc bs) (r mod B + ind_of bs r / N * B)) as (pq & Hpq).
    { rewrite (inv_pbl _ HI). rewrite <- (inv_rows _ HI). eapply nth_error_Some_lt. exact Hrq. }
    exists rq, pq. split; [exact Hrq|]. split; [exact Hpq|]. split; [exact Hs|].
    split; [rewrite nth_error_map_seq by exact Hr; rewrite Eind; reflexivity|].
    split; [exact Ho2|]. split; [rewrite nth_error_map2, Ho1, Hs; reflexivity|].
    split; [exact (F1 r _ _ Ho3 Hs)|]. split; [exact (F2 r _ _ Ho1 Hs)|].
    rewrite nth_error_map_seq by exact Hr. rewrite Eind. f_equal.
    (* the selected value is the score of that expansion *)
    destruct (ind_of_in bs r HI Hr) as [_ Hlt].
    destruct (stack_decompose _ _ _ N_pos Hlt) as (Hj & Hn & Hdec).
    assert (HB : B <> 0) by nia.
    assert (Hb : r mod B < B) by (apply Nat.mod_upper_bound; exact HB).
    rewrite Hdec at 1.
    apply cand_score; try assumption.
    - rewrite Nat.add_comm. exact Hrq.
    - rewrite Nat.add_comm. exact Hpq.
  Qed.

  Lemma Inv_row bs r : Inv bs -> r < W * B -> exists rw, nth_error (b_rows E Sc bs) r = Some rw /\ row_ok bs r rw.
  Proof.
    intros HI Hr. destruct (nth_error_lt_Some (b_rows E Sc bs) r) as (rw & Hrw); [rewrite (inv_rows _ HI); exact Hr|].
    exists rw. split; [exact Hrw|]. apply (inv_row _ HI). exact Hrw.
  Qed.

  (* ---------------------------------------------------------------- the invariant is preserved by a step *)
  Theorem Inv_step bs bs' : Inv bs -> beam_step W bs = Some bs' -> Inv bs'.
  Proof.
    intros HI H. destruct (beam_step_spec bs bs' HI H) as (sel & par & lpv1 & Ea & Ep & El & Lsel & Lrows & Lpbl & Hrow).
    constructor.
    - exact Lrows.
    - exact Lpbl.
    - rewrite Ea. exact Lsel.
    - intros r rw' Hrw'. assert (Hr : r < W * B) by (rewrite <- Lrows; eapply nth_error_Some_lt; exact Hrw').
      destruct (Hrow r Hr) as (rq & pq & Hrq & Hpq & Hs & Hp & Hl & Hnew & _ & _ & Hscore).
      rewrite Hnew in Hrw'. injection Hrw' as <-.
      destruct (ind_of_in bs r HI Hr) as [_ Hlt].
      destruct (stack_decompose _ _ _ N_pos Hlt) as (Hj & Hn & _).
      assert (HB : B <> 0) by nia.
      assert (Hb : r mod B < B) by (apply Nat.mod_upper_bound; exact HB).
      destruct (row_index_mod (r mod B) (ind_of bs r / N) B Hb) as [Hqm _].
      set (q := r mod B + ind_of bs r / N * B) in *.
      destruct (inv_row _ HI q rq Hrq) as (Hi & Hst & Hne & Hbt & Hbl & Hsc & Hzip).
      unfold row_ok, Beam.row_step. cbn [Beam.r_inst Beam.r_st Beam.r_hist fst snd].
      fold (r_inst rq) (r_st rq) (r_hist rq).
      split; [rewrite <- Hqm; exact Hi|].
      split; [rewrite run_snoc, <- Hst; reflexivity|].
      split; [intros C; apply app_eq_nil in C as [_ C]; discriminate|].
      rewrite Ea, Ep, El. cbn [bt_from]. rewrite Hs, Hp, Hl.
      rewrite (bt_from_mod B r q _ _ q) by (symmetry; exact Hqm).
      rewrite (bt_from_mod B r q _ _ q) by (symmetry; exact Hqm).
      rewrite Hbt, Hbl. cbn [option_map].
      split; [rewrite rev_unit; reflexivity|].
      split; [rewrite lps_along_snoc by exact Hne; rewrite rev_unit; unfold Beam.row_lp; rewrite Hst; reflexivity|].
      split.
      + rewrite Hscore. rewrite Hsc in Hpq. injection Hpq as <-.
        rewrite score_snoc by exact Hne. unfold Beam.row_lp. rewrite Hst. reflexivity.
      + rewrite lps_along_snoc, steps_snoc by exact Hne. apply zipM_snoc; [exact Hzip|].
        apply nth_error_nth'. rewrite lp_len. exact Hn.
  Qed.

  (* ---------------------------------------------------------------- ... and established by pre_decoder_hook *)
  Theorem Inv_pre_hook starts bs0 : pre_hook W insts starts = Some bs0 ->
    Inv bs0 /\ 2 <= W /\ length starts = W * B /\
    forall r, r < W * B -> exists i a, nth_error insts (r mod B) = Some i /\ nth_error starts r = Some a /\
      nth_error (b_rows E Sc bs0) r = Some (i, step E i (reset E i) a, [a]).
  Proof.
    unfold Beam.pre_hook. destruct (W <=? 1) eqn:EW; [discriminate|]. apply Nat.leb_gt in EW.
    set (tdb := batchify_single W insts).
    assert (Ltdb : length tdb = W * B) by (unfold tdb; rewrite batchify_single_length, insts_len; reflexivity).
    destruct (length starts =? length tdb) eqn:EL; cbn [negb]; [|discriminate]. apply Nat.eqb_eq in EL. rewrite Ltdb in EL.
    set (rows0 := map2 (fun (i : inst E) (_ : nat) => (i, reset E i, @nil nat)) tdb starts).
    destruct (forallb2 row_stepok rows0 starts); cbn [negb]; [|discriminate].
    set (rows1 := map2 row_step rows0 starts).
    set (lp0 := map (fun r : row => map (fun _ : bool => sone) (row_mask r)) rows1).
    destruct (zipM (fun (a : nat) (v : list Sc) => nth_error v a) starts lp0) as [pbl|] eqn:EZ; [|discriminate].
    intros Hbs. injection Hbs as <-.
    destruct (zipM_nth _ _ _ EZ) as (Lp & _ & Zn).
    assert (Lrows0 : length rows0 = W * B) by (unfold rows0; rewrite map2_length; lia).
    assert (Lrows1 : length rows1 = W * B) by (unfold rows1, rows0; rewrite !map2_length; lia).
    assert (Llp0 : length lp0 = W * B) by (unfold lp0; rewrite map_length; exact Lrows1).
    assert (Hrows : forall r, r < W * B -> exists i a, nth_error insts (r mod B) = Some i /\ nth_error starts r = Some a /\
              nth_error rows1 r = Some (i, step E i (reset E i) a, [a])).
    { intros r Hr.
      destruct (nth_error_lt_Some starts r) as (a & Ha); [lia|].
      destruct (nth_error_lt_Some tdb r) as (i & Hi); [lia|].
      exists i, a. split; [|split; [exact Ha|]].
      - rewrite <- Hi. unfold tdb. rewrite <- insts_len. symmetry. apply nth_error_batchify_single. rewrite insts_len. exact Hr.
      - unfold rows1, rows0. rewrite !nth_error_map2, Hi, Ha. reflexivity. }
    split; [|split; [lia|split; [exact EL|exact Hrows]]].
    constructor; cbn [b_rows b_acts b_lps b_path b_pbl hd].
    - exact Lrows1.
    - rewrite Lp. exact Llp0.
    - exact EL.
    - intros r rw Hrw. assert (Hr : r < W * B) by (rewrite <- Lrows1; eapply nth_error_Some_lt; exact Hrw).
      destruct (Hrows r Hr) as (i & a & Hi & Ha & Hrow). rewrite Hrow in Hrw. injection Hrw as <-.
      unfold row_ok. cbn [Beam.r_inst Beam.r_st Beam.r_hist fst snd b_rows b_acts b_lps b_path b_pbl].
      split; [exact Hi|]. split; [reflexivity|]. split; [discriminate|].
      assert (Hz : nth_error (map (fun _ : nat => 0) starts) r = Some 0) by (rewrite nth_error_map, Ha; reflexivity).
      assert (Hl : nth_error lp0 r = Some (map (fun _ : bool => sone) (mask E i (step E i (reset E i) a)))).
      { unfold lp0. rewrite nth_error_map, Hrow. reflexivity. }
      cbn [bt_from]. rewrite Ha, Hz, Hl. cbn [option_map rev app].
      split; [reflexivity|]. split; [reflexivity|].
      destruct (Zn r a _ Ha Hl) as (v & Hv & Hp). rewrite Hp.
      assert (Ev : v = sone).
      { rewrite nth_error_map in Hv. destruct (nth_error (mask E i (step E i (reset E i) a)) a); cbn [option_map] in Hv; [|discriminate].
        injection Hv as <-. reflexivity. }
      subst v. split; [reflexivity|]. cbn [zipM Beam.lps_along Beam.steps Beam.lps_from Beam.steps_from]. rewrite Hv. reflexivity.
  Qed.

  Theorem Inv_loop fuel bs bs' : Inv bs -> loop fuel W bs = Some bs' -> Inv bs'.
  Proof.
    revert bs. induction fuel as [|f IH]; intros bs HI H; cbn [Beam.loop] in H.
    - destruct (all_done E Sc bs); injection H as <-; exact HI.
    - destruct (all_done E Sc bs); [injection H as <-; exact HI|].
      destruct (beam_step W bs) as [bs1|] eqn:E1; [|discriminate].
      apply (IH bs1); [eapply Inv_step; eassumption|exact H].
  Qed.

  (* ---------------------------------------------------------------- C13: backtrack_is_history *)
  Theorem backtrack_of_Inv bs : Inv bs ->
    exists acts lps, backtrack W bs = Some (acts, lps) /\ length acts = W * B /\ length lps = W * B /\
      forall r, r < W * B -> exists rw, nth_error (b_rows E Sc bs) r = Some rw /\ row_ok bs r rw /\
        nth_error acts r = Some (r_hist rw) /\ nth_error lps r = Some (lps_along (r_inst rw) (r_hist rw)).
  Proof.
    intros HI. unfold Beam.backtrack. rewrite (inv_hd _ HI), WB_div.
    destruct (mapM_total (fun r => bt_from B r (b_acts E Sc bs) (b_path E Sc bs) r) (seq 0 (W * B))) as (a & Ha).
    { intros r Hr. apply in_seq in Hr. destruct (Inv_row bs r HI) as (rw & _ & Hok); [lia|].
      destruct Hok as (_ & _ & _ & Hbt & _ & _ & _). rewrite Hbt. discriminate. }
    destruct (mapM_total (fun r => bt_from B r (b_lps E Sc bs) (b_path E Sc bs) r) (seq 0 (W * B))) as (l & Hl).
    { intros r Hr. apply in_seq in Hr. destruct (Inv_row bs r HI) as (rw & _ & Hok); [lia|].
      destruct Hok as (_ & _ & _ & _ & Hbl & _ & _). rewrite Hbl. discriminate. }
    rewrite Ha, Hl. eexists _, _. split; [reflexivity|].
    destruct (mapM_spec _ _ Ha) as [La Sa]. destruct (mapM_spec _ _ Hl) as [Ll Sl]. rewrite seq_length in La, Ll.
    split; [rewrite map_length; exact La|]. split; [rewrite map_length; exact Ll|].
    intros r Hr. destruct (Inv_row bs r HI Hr) as (rw & Hrw & Hok). exists rw. split; [exact Hrw|]. split; [exact Hok|].
    destruct Hok as (_ & _ & _ & Hbt & Hbl & _ & _).
    assert (Hseq : nth_error (seq 0 (W * B)) r = Some r).
    { rewrite nth_error_nth' with (d := 0) by (rewrite seq_length; exact Hr). rewrite seq_nth by exact Hr. reflexivity. }
    destruct (Sa r r Hseq) as (va & Hva & Hna). destruct (Sl r r Hseq) as (vl & Hvl & Hnl).
    rewrite Hbt in Hva. rewrite Hbl in Hvl. injection Hva as <-. injection Hvl as <-.
    rewrite !nth_error_map, Hna, Hnl. cbn [option_map]. rewrite !rev_involutive. split; reflexivity.
  Qed.

  (* ---------------------------------------------------------------- C13: beam_topk *)
  Notation expansion_score := (expansion_score E Sc sop sbot lp).

  (* entry j*N + n of instance b's stacked row is the score of expanding its beam j (row j*B+b) by action n *)
  Lemma cand_is_expansion bs b j n : Inv bs -> b < B -> j < W -> n < N ->
    nth (j * N + n) (hstack B W (lb_of bs) b) sbot = expansion_score bs (j * B + b) n.
  Proof.
    intros HI Hb Hj Hn. assert (Hq : j * B + b < W * B) by nia.
    destruct (nth_error_lt_Some (b_rows E Sc bs) (j * B + b)) as (rq & Hrq); [rewrite (inv_rows _ HI); exact Hq|].
    destruct (nth_error_lt_Some (b_pbl E Sc bs) (j * B + b)) as (pq & Hpq); [rewrite (inv_pbl _ HI); exact Hq|].
    unfold Beam.expansion_score. rewrite Hrq, Hpq. apply cand_score; assumption.
  Qed.

  Lemma ind_of_row bs b k : b < B -> ind_of bs (k * B + b) = nth k (topk_idx W (hstack B W (lb_of bs) b)) 0.
  Proof.
    intros Hb. unfold ind_of. destruct (row_index_mod b k B Hb) as [Hm Hd].
    rewrite (Nat.add_comm (k * B) b), Hm, Hd. reflexivity.
  Qed.

  (* parent beam and action selected for rank k of instance b *)
  Definition parent_of (bs : bstate) (b k : nat) : nat := ind_of bs (k * B + b) / N.
  Definition action_of (bs : bstate) (b k : nat) : nat := ind_of bs (k * B + b) mod N.

  Theorem beam_topk bs bs' : Inv bs -> beam_step W bs = Some bs' -> forall b, b < B ->
    (* the W rows of instance b after the step are expansions of its own rows before the step *)
    (forall k, k < W ->
       parent_of bs b k < W /\ action_of bs b k < N /\
       exists rq, nth_error (b_rows E Sc bs) (parent_of bs b k * B + b) = Some rq /\
         nth_error (b_rows E Sc bs') (k * B + b) = Some (row_step rq (action_of bs b k)) /\
         nth_error (b_pbl E Sc bs') (k * B + b) = Some (expansion_score bs (parent_of bs b k * B + b) (action_of bs b k))) /\
    (* pairwise different (parent, action) *)
    (forall k k', k < W -> k' < W -> parent_of bs b k = parent_of bs b k' -> action_of bs b k = action_of bs b k' -> k = k') /\
    (* every expansion that is not kept scores at most as much as every kept one *)
    (forall k j n, k < W -> j < W -> n < N ->
       (forall k', k' < W -> ~ (parent_of bs b k' = j /\ action_of bs b k' = n)) ->
       sleb (expansion_score bs (j * B + b) n) (expansion_score bs (parent_of bs b k * B + b) (action_of bs b k)) = true) /\
    (* best first; among equal scores the smaller stacked index (parent * N + action) first *)
    (forall k k', k < k' -> k' < W ->
       let s := expansion_score bs (parent_of bs b k * B + b) (action_of bs b k) in
       let s' := expansion_score bs (parent_of bs b k' * B + b) (action_of bs b k') in
       sleb s' s = true /\
       (sleb s s' = true -> parent_of bs b k * N + action_of bs b k < parent_of bs b k' * N + action_of bs b k')).
  Proof.
    intros HI H b Hb.
    destruct (beam_step_spec bs bs' HI H) as (sel & par & lpv1 & Ea & Ep & El & Lsel & Lrows & Lpbl & Hrow).
    set (xs := hstack B W (lb_of bs) b).
    assert (Hlen : length xs = W * N) by (apply hstack_length; [apply lb_of_length; exact HI|apply lb_of_widths|exact Hb]).
    assert (Hklen : length (topk_idx W xs) = W) by (apply topk_length; rewrite Hlen; nia).
    assert (Hdec : forall k, k < W -> ind_of bs (k * B + b) < W * N /\ parent_of bs b k < W /\ action_of bs b k < N /\
               ind_of bs (k * B + b) = parent_of bs b k * N + action_of bs b k).
    { intros k Hk. destruct (ind_of_in bs (k * B + b) HI) as [_ Hlt]; [nia|].
      destruct (stack_decompose _ _ _ N_pos Hlt) as (H1 & H2 & H3). repeat split; assumption. }
    assert (Hval : forall k, k < W -> nth (ind_of bs (k * B + b)) xs sbot =
               expansion_score bs (parent_of bs b k * B + b) (action_of bs b k)).
    { intros k Hk. destruct (Hdec k Hk) as (_ & Hj & Hn & Heq). rewrite Heq at 1. apply cand_is_expansion; assumption. }
    split; [|split; [|split]].
    - intros k Hk. destruct (Hdec k Hk) as (Hlt & Hj & Hn & Heq). split; [exact Hj|]. split; [exact Hn|].
      assert (Hr : k * B + b < W * B) by nia.
      destruct (Hrow _ Hr) as (rq & pq & Hrq & Hpq & _ & _ & _ & Hnew & _ & _ & Hsc). cbv zeta in *.
      assert (Hm : (k * B + b) mod B = b) by (rewrite Nat.add_comm; apply row_index_mod; exact Hb).
      rewrite Hm in Hrq, Hpq. rewrite (Nat.add_comm b) in Hrq, Hpq.
      exists rq. split; [exact Hrq|]. split; [exact Hnew|]. rewrite Hsc.
      unfold Beam.expansion_score, parent_of. rewrite Hrq, Hpq. reflexivity.
    - intros k k' Hk Hk' HP HA. destruct (Hdec k Hk) as (_ & _ & _ & Heq). destruct (Hdec k' Hk') as (_ & _ & _ & Heq').
      assert (Hi : ind_of bs (k * B + b) = ind_of bs (k' * B + b)) by (rewrite Heq, Heq', HP, HA; reflexivity).
      rewrite !ind_of_row in Hi by exact Hb. fold xs in Hi.
      apply (proj1 (NoDup_nth (topk_idx W xs) 0) (topk_nodup Sc sleb sbot W xs)); [rewrite Hklen; exact Hk|rewrite Hklen; exact Hk'|exact Hi].
    - intros k j n Hk Hj Hn Hnot. rewrite <- (Hval k Hk). rewrite <- (cand_is_expansion bs b j n HI Hb Hj Hn). fold xs.
      apply (topk_dominates Sc sleb sbot sleb_total sleb_trans W xs).
      + rewrite ind_of_row by exact Hb. fold xs. apply nth_In. rewrite Hklen. exact Hk.
      + rewrite Hlen. nia.
      + intros Hin. apply (In_nth _ _ 0) in Hin as (k' & Hk' & Hnth). rewrite Hklen in Hk'.
        apply (Hnot k' Hk'). unfold parent_of, action_of. rewrite ind_of_row by exact Hb. fold xs. rewrite Hnth.
        destruct (div_mod_stack n N j Hn) as [Hd Hm]. split; assumption.
    - intros k k' Hkk Hk' s0 s0'. assert (Hk : k < W) by lia.
      destruct (Hdec k Hk) as (_ & _ & _ & Heq). destruct (Hdec k' Hk') as (_ & _ & _ & Heq').
      unfold s0, s0'. rewrite <- (Hval k Hk), <- (Hval k' Hk'). rewrite <- Heq, <- Heq'.
      rewrite !ind_of_row by exact Hb. fold xs.
      apply (topk_tie_rule Sc sleb sbot sleb_total sleb_trans W xs k k' Hkk). rewrite Hklen. exact Hk'.
  Qed.

  (* ---------------------------------------------------------------- C13: beams_distinct *)
  Definition hist_at (bs : bstate) (r : nat) : list nat :=
    match nth_error (b_rows E Sc bs) r with Some rw => r_hist rw | None => [] end.
  (* the W beams of instance b are pairwise distinct sequences *)
  Definition distinct_beams (bs : bstate) (b : nat) : Prop :=
    forall j j', j < W -> j' < W -> hist_at bs (j * B + b) = hist_at bs (j' * B + b) -> j = j'.

  Theorem distinct_step bs bs' b : Inv bs -> beam_step W bs = Some bs' -> b < B ->
    distinct_beams bs b -> distinct_beams bs' b.
  Proof.
    intros HI H Hb Hd k k' Hk Hk' Heq.
    destruct (beam_topk bs bs' HI H b Hb) as (Hexp & Hinj & _ & _).
    destruct (Hexp k Hk) as (HP & HA & rq & Hrq & Hnew & _). destruct (Hexp k' Hk') as (HP' & HA' & rq' & Hrq' & Hnew' & _).
    unfold hist_at in Heq. rewrite Hnew, Hnew' in Heq. unfold Beam.row_step in Heq. cbn [Beam.r_hist snd] in Heq.
    apply app_inj_tail in Heq as [Hh Ha].
    apply Hinj; try assumption.
    apply Hd; try assumption. unfold hist_at. rewrite Hrq, Hrq'. exact Hh.
  Qed.

  Theorem distinct_loop fuel bs bs' b : Inv bs -> loop fuel W bs = Some bs' -> b < B ->
    distinct_beams bs b -> distinct_beams bs' b.
  Proof.
    revert bs. induction fuel as [|f IH]; intros bs HI H Hb Hd; cbn [Beam.loop] in H.
    - destruct (all_done E Sc bs); injection H as <-; exact Hd.
    - destruct (all_done E Sc bs); [injection H as <-; exact Hd|].
      destruct (beam_step W bs) as [bs1|] eqn:E1; [|discriminate].
      apply (IH bs1); [eapply Inv_step; eassumption|exact H|exact Hb|eapply distinct_step; eassumption].
  Qed.

  (* ---------------------------------------------------------------- C13: beams_feasible *)
  Definition rows_adm (bs : bstate) : Prop :=
    forall r rw, nth_error (b_rows E Sc bs) r = Some rw -> adm (r_inst rw) (r_hist rw) = true.
  Definition pbl_finite (bs : bstate) : Prop := forall r p, nth_error (b_pbl E Sc bs) r = Some p -> fin p = true.

  (* whatever is selected passed the assertion: every move of every row was offered by the mask of its state *)
  Theorem adm_step bs bs' : Inv bs -> beam_step W bs = Some bs' -> rows_adm bs -> rows_adm bs'.
  Proof.
    intros HI H Hadm r rw' Hrw'.
    destruct (beam_step_spec bs bs' HI H) as (sel & par & lpv1 & _ & _ & _ & _ & Lrows & _ & Hrow).
    assert (Hr : r < W * B) by (rewrite <- Lrows; eapply nth_error_Some_lt; exact Hrw').
    destruct (Hrow r Hr) as (rq & pq & Hrq & _ & _ & _ & _ & Hnew & Hmask & _). cbv zeta in *.
    rewrite Hnew in Hrw'. injection Hrw' as <-.
    destruct (inv_row _ HI _ rq Hrq) as (_ & Hst & _).
    unfold Beam.row_step. cbn [Beam.r_inst Beam.r_hist fst snd]. fold (r_inst rq) (r_hist rq).
    rewrite adm_snoc, (Hadm _ rq Hrq). cbn [andb]. unfold offered. rewrite <- Hst. exact Hmask.
  Qed.

  Theorem adm_loop fuel bs bs' : Inv bs -> loop fuel W bs = Some bs' -> rows_adm bs -> rows_adm bs'.
  Proof.
    revert bs. induction fuel as [|f IH]; intros bs HI H Hd; cbn [Beam.loop] in H.
    - destruct (all_done E Sc bs); injection H as <-; exact Hd.
    - destruct (all_done E Sc bs); [injection H as <-; exact Hd|].
      destruct (beam_step W bs) as [bs1|] eqn:E1; [|discriminate].
      apply (IH bs1); [eapply Inv_step; eassumption|exact H|eapply adm_step; eassumption].
  Qed.

  (* ---------------------------------------------------------------- no assertion fires under no-dead-end *)
  Lemma count_concat_ge {A} (P : A -> bool) (t : list (list A)) :
    (forall v, In v t -> 1 <= count P v) -> length t <= count P (concat t).
  Proof.
    induction t as [|v t IH]; intros H; cbn [concat length]; [lia|].
    rewrite count_app. specialize (H v (or_introl eq_refl)) as Hv.
    assert (length t <= count P (concat t)) by (apply IH; intros v' Hv'; apply H; right; exact Hv'). lia.
  Qed.

  Section Finite.
    Hypothesis fin_op : forall a b, fin a = true -> fin b = true -> fin (sop b a) = true.
    Hypothesis fin_op_inv : forall a b, fin (sop b a) = true -> fin a = true -> fin b = true.
    Hypothesis fin_low : forall x y, fin x = false -> fin y = true -> sleb y x = false.
    (* C10: a finite step score is only ever given to an action the mask offers ... *)
    Hypothesis lp_support : forall i h a, adm i h = true -> h <> [] ->
      fin (nth a (lp i (run i h)) sbot) = true -> offered i (run i h) a = true.
    (* ... C02 + C10: and along admitted histories some action always has a finite step score *)
    Hypothesis lp_nde : forall i h, adm i h = true -> h <> [] -> exists a, a < N /\ fin (nth a (lp i (run i h)) sbot) = true.
    Hypothesis step_ok : forall i h a, adm i h = true -> h <> [] -> offered i (run i h) a = true -> stepok E i (run i h) a = true.

    Lemma count_fin_ge bs b : Inv bs -> rows_adm bs -> pbl_finite bs -> b < B ->
      W <= count fin (hstack B W (lb_of bs) b).
    Proof.
      intros HI Hadm Hfin Hb. unfold Beam.hstack.
      eapply Nat.le_trans; [|apply count_concat_ge].
      - rewrite map_length, seq_length. apply Nat.le_refl.
      - intros v Hv. apply in_map_iff in Hv as (j & <- & Hj). apply in_seq in Hj.
        assert (Hq : j * B + b < W * B) by nia.
        destruct (Inv_row bs _ HI Hq) as (rq & Hrq & Hok).
        destruct Hok as (_ & Hst & Hne & _ & _ & Hsc & _).
        rewrite (lb_of_nth bs _ rq _ Hrq Hsc).
        destruct (lp_nde (r_inst rq) (r_hist rq) (Hadm _ _ Hrq) Hne) as (a & Ha & Hfa).
        apply (count_exists_pos fin _ (sop (nth a (row_lp rq) sbot) (score (r_inst rq) (r_hist rq)))).
        + unfold Beam.lbp_row. apply in_map_iff. exists (nth a (row_lp rq) sbot). split; [reflexivity|].
          apply nth_In. unfold Beam.row_lp. rewrite lp_len. exact Ha.
        + apply fin_op; [apply (Hfin _ _ Hsc)|]. unfold Beam.row_lp. rewrite Hst. exact Hfa.
    Qed.

    Lemma selected_finite bs r : Inv bs -> rows_adm bs -> pbl_finite bs -> r < W * B ->
      forall rq pq, nth_error (b_rows E Sc bs) (r mod B + ind_of bs r / N * B) = Some rq ->
        nth_error (b_pbl E Sc bs) (r mod B + ind_of bs r / N * B) = Some pq ->
        fin (sop (nth (ind_of bs r mod N) (row_lp rq) sbot) pq) = true /\
        nth (ind_of bs r mod N) (row_mask rq) false = true /\ row_stepok rq (ind_of bs r mod N) = true.
    Proof.
      intros HI Hadm Hfin Hr rq pq Hrq Hpq. assert (HB : B <> 0) by nia.
      assert (Hb : r mod B < B) by (apply Nat.mod_upper_bound; exact HB).
      destruct (ind_of_in bs r HI Hr) as [Hin Hlt].
      destruct (stack_decompose _ _ _ N_pos Hlt) as (Hj & Hn & Hdec).
      assert (Hf : fin (nth (ind_of bs r) (hstack B W (lb_of bs) (r mod B)) sbot) = true).
      { apply (topk_finite Sc sleb sbot sleb_total sleb_trans fin fin_low W); [|exact Hin].
        apply count_fin_ge; assumption. }
      rewrite Hdec in Hf at 1.
      rewrite (cand_score bs (r mod B) _ _ rq pq HI Hb Hj Hn) in Hf
        by (rewrite Nat.add_comm; assumption).
      split; [exact Hf|].
      destruct (inv_row _ HI _ rq Hrq) as (_ & Hst & Hne & _).
      assert (Hoff : offered (r_inst rq) (run (r_inst rq) (r_hist rq)) (ind_of bs r mod N) = true).
      { apply lp_support; [apply (Hadm _ _ Hrq)|exact Hne|]. rewrite <- Hst.
        apply (fin_op_inv pq); [exact Hf|apply (Hfin _ _ Hpq)]. }
      split.
      - unfold Beam.row_mask. rewrite Hst. exact Hoff.
      - unfold Beam.row_stepok. rewrite Hst. apply step_ok; [apply (Hadm _ _ Hrq)|exact Hne|exact Hoff].
    Qed.

    (* C13 (beams_feasible, totality): with no dead ends there are always at least W finite expansions, no -inf
       entry is selected, the "infeasible action selected" assertion does not fire, scores stay finite *)
    Theorem beam_step_total bs : 0 < B -> Inv bs -> rows_adm bs -> pbl_finite bs ->
      exists bs', beam_step W bs = Some bs' /\ rows_adm bs' /\ pbl_finite bs'.
    Proof.
      intros HBpos HI Hadm Hfin.
      assert (Hsome : exists bs', beam_step W bs = Some bs').
      { unfold Beam.beam_step. cbv zeta. rewrite (inv_rows _ HI), WB_div.
        set (N0 := length (hd [] (map row_lp (b_rows E Sc bs)))).
        assert (HN0 : N0 = N).
        { unfold N0. pose proof (inv_rows _ HI) as HL. destruct (b_rows E Sc bs) as [|r0 rows]; cbn [map hd length] in *; [nia|]. apply lp_len. }
        rewrite HN0. destruct (N =? 0) eqn:EN; [apply Nat.eqb_eq in EN; lia|]. clear EN HN0 N0.
        fold (lb_of bs). set (tk := topk_all W B (lb_of bs)).
        set (bbi := map (fun r => r mod B + stack_ind B tk r / N * B) (seq 0 (W * B))).
        set (sel := map (fun r => stack_ind B tk r mod N) (seq 0 (W * B))).
        assert (Hbbi : forall q, In q bbi -> q < W * B).
        { intros q Hq. apply in_map_iff in Hq as (r & <- & Hr). apply in_seq in Hr. assert (Hr' : r < W * B) by lia.
          unfold tk. rewrite stack_ind_eq by exact Hr'. fold (ind_of bs r).
          destruct (ind_of_in bs r HI Hr') as [_ Hlt]. destruct (stack_decompose _ _ _ N_pos Hlt) as (Hj & _ & _).
          apply row_index_lt; [apply Nat.mod_upper_bound; lia|exact Hj]. }
        destruct (gather_rows_total (b_rows E Sc bs) bbi) as (rows1 & G1); [intros q Hq; rewrite (inv_rows _ HI); auto|].
        destruct (gather_rows_total (map row_lp (b_rows E Sc bs)) bbi) as (lpv1 & G2); [intros q Hq; rewrite map_length, (inv_rows _ HI); auto|].
        destruct (gather_rows_total (map row_mask (b_rows E Sc bs)) bbi) as (msk1 & G3); [intros q Hq; rewrite map_length, (inv_rows _ HI); auto|].
        rewrite G1, G2, G3.
        destruct (gather_rows_spec _ _ _ G1) as [L1 S1]. destruct (gather_rows_spec _ _ _ G3) as [L3 S3].
        assert (Lbbi : length bbi = W * B) by (unfold bbi; rewrite map_length, seq_length; reflexivity).
        assert (Lsel : length sel = W * B) by (unfold sel; rewrite map_length, seq_length; reflexivity).
        assert (Hpoint : forall r, r < W * B -> exists rq,
                  nth_error rows1 r = Some rq /\ nth_error msk1 r = Some (row_mask rq) /\
                  nth_error sel r = Some (ind_of bs r mod N) /\
                  nth (ind_of bs r mod N) (row_mask rq) false = true /\ row_stepok rq (ind_of bs r mod N) = true).
        { intros r Hr.
          assert (Eind : stack_ind B tk r = ind_of bs r) by (unfold tk; rewrite stack_ind_eq by exact Hr; reflexivity).
          assert (Hq : nth_error bbi r = Some (r mod B + ind_of bs r / N * B)).
          { unfold bbi. rewrite nth_error_map_seq by exact Hr. rewrite Eind. reflexivity. }
          destruct (S1 _ _ Hq) as (rq & Hrq & Ho1). destruct (S3 _ _ Hq) as (m & Hm & Ho3).
          rewrite nth_error_map, Hrq in Hm. cbn [option_map] in Hm. injection Hm as <-.
          destruct (nth_error_lt_Some (b_pbl E Sc bs) (r mod B + ind_of bs r / N * B)) as (pq & Hpq).
          { rewrite (inv_pbl _ HI). rewrite <- (inv_rows _ HI). eapply nth_error_Some_lt. exact Hrq. }
          destruct (selected_finite bs r HI Hadm Hfin Hr rq pq Hrq Hpq) as (_ & Hm & Hs).
          exists rq. split; [exact Ho1|]. split; [exact Ho3|]. split; [|split; assumption].
          unfold sel. rewrite nth_error_map_seq by exact Hr. rewrite Eind. reflexivity. }
        assert (F1 : forallb2 (fun (m : list bool) a => nth a m false) msk1 sel = true).
        { apply forallb2_spec. split; [lia|]. intros i m a Hm Ha.
          assert (Hi : i < W * B) by (rewrite <- Lsel; eapply nth_error_Some_lt; exact Ha).
          destruct (Hpoint i Hi) as (rq & _ & Hm' & Ha' & Hok & _). rewrite Hm' in Hm. rewrite Ha' in Ha.
          injection Hm as <-. injection Ha as <-. exact Hok. }
        assert (F2 : forallb2 row_stepok rows1 sel = true).
        { apply forallb2_spec. split; [lia|]. intros i rq0 a Hrq0 Ha.
          assert (Hi : i < W * B) by (rewrite <- Lsel; eapply nth_error_Some_lt; exact Ha).
          destruct (Hpoint i Hi) as (rq & Hrq & _ & Ha' & _ & Hok). rewrite Hrq in Hrq0. rewrite Ha' in Ha.
          injection Hrq0 as <-. injection Ha as <-. exact Hok. }
        rewrite F1, F2. cbn [negb]. eexists. reflexivity. }
      destruct Hsome as (bs' & Hbs'). exists bs'. split; [exact Hbs'|]. split; [eapply adm_step; eassumption|].
      intros r p Hp. destruct (beam_step_spec bs bs' HI Hbs') as (sel & par & lpv1 & _ & _ & _ & _ & _ & Lpbl & Hrow).
      assert (Hr : r < W * B) by (rewrite <- Lpbl; eapply nth_error_Some_lt; exact Hp).
      destruct (Hrow r Hr) as (rq & pq & Hrq & Hpq & _ & _ & _ & _ & _ & _ & Hsc). cbv zeta in *.
      rewrite Hsc in Hp. injection Hp as <-.
      apply (selected_finite bs r HI Hadm Hfin Hr rq pq Hrq Hpq).
    Qed.

    (* ... so the loop never raises *)
    Theorem loop_total fuel bs : 0 < B -> Inv bs -> rows_adm bs -> pbl_finite bs ->
      exists bs', loop fuel W bs = Some bs' /\ rows_adm bs' /\ pbl_finite bs'.
    Proof.
      intros HB. revert bs. induction fuel as [|f IH]; intros bs HI Hadm Hfin; cbn [Beam.loop].
      - destruct (all_done E Sc bs); exists bs; repeat split; assumption.
      - destruct (all_done E Sc bs); [exists bs; repeat split; assumption|].
        destruct (beam_step_total bs HB HI Hadm Hfin) as (bs1 & H1 & Hadm1 & Hfin1). rewrite H1.
        apply IH; [eapply Inv_step; eassumption|assumption|assumption].
    Qed.

    (* ... and with FEWER than W finite expansions a -inf entry is selected for some row of the instance *)
    Theorem step_selects_nonfinite bs bs' b : Inv bs -> beam_step W bs = Some bs' -> b < B ->
      count fin (hstack B W (lb_of bs) b) < W ->
      exists k p, k < W /\ nth_error (b_pbl E Sc bs') (k * B + b) = Some p /\ fin p = false.
    Proof.
      intros HI H Hb Hc. set (xs := hstack B W (lb_of bs) b) in *.
      assert (Hlen : length xs = W * N) by (apply hstack_length; [apply lb_of_length; exact HI|apply lb_of_widths|exact Hb]).
      destruct (topk_selects_nonfinite Sc sleb sbot fin W xs) as (i & Hi & Hf); [rewrite Hlen; nia|exact Hc|].
      apply (In_nth _ _ 0) in Hi as (k & Hk & Hnth). rewrite topk_length in Hk by (rewrite Hlen; nia).
      destruct (beam_topk bs bs' HI H b Hb) as (Hexp & _). destruct (Hexp k Hk) as (HP & HA & rq & Hrq & _ & Hsc).
      exists k, (expansion_score bs (parent_of bs b k * B + b) (action_of bs b k)). split; [exact Hk|]. split; [exact Hsc|].
      rewrite <- (cand_is_expansion bs b _ _ HI Hb HP HA). fold xs.
      destruct (ind_of_in bs (k * B + b) HI) as [_ Hlt]; [nia|].
      destruct (stack_decompose _ _ _ N_pos Hlt) as (_ & _ & Hdec). unfold parent_of, action_of. rewrite <- Hdec.
      rewrite ind_of_row by exact Hb. fold xs. rewrite Hnth. exact Hf.
    Qed.
  End Finite.

  (* ---------------------------------------------------------------- C13: best_beam_max *)
  Lemma best_flat_spec (rewards : list Z) : length rewards = W * B ->
    exists flat, best_flat W rewards = Some flat /\ length flat = B /\
      forall b, b < B -> exists r, nth_error flat b = Some r /\ is_best B W rewards b r.
  Proof.
    clear N_pos lp_len insts_len. intros Hlen. unfold Beam.best_flat. rewrite Hlen, WB_div.
    set (M := map (fun b => map (fun j => nth (j * B + b) rewards 0%Z) (seq 0 W)) (seq 0 B)).
    destruct (mapM_total argmax_row M) as (idx & Hidx).
    { intros row Hrow. apply in_map_iff in Hrow as (b & <- & _). destruct W; [lia|]. discriminate. }
    rewrite Hidx. eexists. split; [reflexivity|].
    destruct (mapM_spec _ _ Hidx) as [Li Si]. unfold M in Li. rewrite map_length, seq_length in Li.
    split; [rewrite map2_length, seq_length; lia|].
    intros b Hb. assert (HB : B <> 0) by lia.
    assert (HMb : nth_error M b = Some (map (fun j => nth (j * B + b) rewards 0%Z) (seq 0 W)))
      by (unfold M; exact (nth_error_map_seq (fun b => map (fun j => nth (j * B + b) rewards 0%Z) (seq 0 W)) B b Hb)).
    destruct (Si b _ HMb) as (m & Hm & Hnm).
    destruct (argmax_row_spec _ Hm) as (Hlt & Hmax & Hfirst). rewrite map_length, seq_length in Hlt, Hmax.
    assert (Hent : forall j, j < W -> nth j (map (fun j => nth (j * B + b) rewards 0%Z) (seq 0 W)) 0%Z = nth (j * B + b) rewards 0%Z)
      by (intros j Hj; exact (nth_map_seq0 (fun j => nth (j * B + b) rewards 0%Z) W j 0%Z Hj)).
    exists (b + m * B). split.
    - rewrite nth_error_map2, Hnm. rewrite nth_error_nth' with (d := 0) by (rewrite seq_length; exact Hb).
      rewrite seq_nth by exact Hb. reflexivity.
    - unfold is_best. destruct (row_index_mod b m B Hb) as [Hmod Hdiv]. repeat split.
      + nia.
      + exact Hmod.
      + intros r' Hr' Hm'. pose proof (Nat.div_mod r' B HB) as Hdm. rewrite Hm' in Hdm.
        assert (Hj : r' / B < W) by (apply Nat.div_lt_upper_bound; [exact HB|lia]).
        specialize (Hmax _ Hj). rewrite !Hent in Hmax by assumption.
        replace r' with (r' / B * B + b) by lia. rewrite (Nat.add_comm b). exact Hmax.
      + intros r' Hr' Hm'. pose proof (Nat.div_mod r' B HB) as Hdm. rewrite Hm' in Hdm.
        assert (Hj : r' / B < m) by nia.
        specialize (Hfirst _ Hj). rewrite !Hent in Hfirst by lia.
        replace r' with (r' / B * B + b) by lia. rewrite (Nat.add_comm b). exact Hfirst.
  Qed.

  Notation rewards_of := (rewards_of E rew).
  Notation select_best_beam := (select_best_beam E Sc rew).
  Notation post_hook := (post_hook E Sc rew).

  Theorem select_best_beam_spec (lps : list (list (list Sc))) (acts : list (list nat)) (rows : list row) :
    length lps = W * B -> length acts = W * B -> length rows = W * B ->
    exists l a t, select_best_beam W (lps, acts, rows) = Some (l, a, t) /\
      length l = B /\ length a = B /\ length t = B /\
      forall b, b < B -> exists r, is_best B W (rewards_of rows acts) b r /\
        nth_error a b = nth_error acts r /\ nth_error l b = nth_error lps r /\ nth_error t b = nth_error rows r.
  Proof.
    clear N_pos lp_len insts_len. intros Ll La Lr. unfold Beam.select_best_beam.
    assert (Lrw : length (rewards_of rows acts) = W * B) by (unfold Beam.rewards_of; rewrite map2_length; lia).
    destruct (best_flat_spec _ Lrw) as (flat & Hflat & Lf & Hbest). rewrite Hflat.
    assert (Hrange : forall q, In q flat -> q < W * B).
    { intros q Hq. apply In_nth_error in Hq as (b & Hb). assert (b < B) by (rewrite <- Lf; eapply nth_error_Some_lt; exact Hb).
      destruct (Hbest b H) as (r & Hr & Hbr & _). rewrite Hb in Hr. injection Hr as <-. exact Hbr. }
    destruct (gather_rows_total lps flat) as (l & Gl); [intros q Hq; rewrite Ll; auto|].
    destruct (gather_rows_total acts flat) as (a & Ga); [intros q Hq; rewrite La; auto|].
    destruct (gather_rows_total rows flat) as (t & Gt); [intros q Hq; rewrite Lr; auto|].
    rewrite Gl, Ga, Gt. exists l, a, t. split; [reflexivity|].
    destruct (gather_rows_spec _ _ _ Gl) as [L1 S1]. destruct (gather_rows_spec _ _ _ Ga) as [L2 S2].
    destruct (gather_rows_spec _ _ _ Gt) as [L3 S3].
    split; [lia|]. split; [lia|]. split; [lia|].
    intros b Hb. destruct (Hbest b Hb) as (r & Hr & Hbr). exists r. split; [exact Hbr|].
    destruct (S1 _ _ Hr) as (x1 & Hx1 & Ho1). destruct (S2 _ _ Hr) as (x2 & Hx2 & Ho2). destruct (S3 _ _ Hr) as (x3 & Hx3 & Ho3).
    rewrite Ho1, Ho2, Ho3, Hx1, Hx2, Hx3. repeat split.
  Qed.

  (* ---------------------------------------------------------------- C13: score = sum of the step log-probabilities *)
  Notation ll_row := (ll_row Sc sop sone fin).
  Section ScoreSum.
    Hypothesis sop_comm : forall a b, sop a b = sop b a.
    Hypothesis sop_one_l : forall a, sop sone a = a.

    Lemma fold_steps_from i s acts acc : fold_left sop (steps_from i s acts) acc = score_from i s acts acc.
    Proof.
      revert s acc. induction acts as [|a r IH]; intros s acc; cbn [Beam.steps_from Beam.score_from fold_left]; [reflexivity|].
      rewrite (sop_comm acc). apply IH.
    Qed.

    (* what get_log_likelihood sums (left to right, starting from 0) is what the beam step accumulated *)
    Theorem fold_steps_score i h : fold_left sop (steps i h) sone = score i h.
    Proof.
      destruct h as [|a0 r]; [reflexivity|]. cbn [Beam.steps Beam.score fold_left]. rewrite sop_one_l. apply fold_steps_from.
    Qed.
  End ScoreSum.

  Lemma ll_row_steps i h : zipM gat h (lps_along i h) = Some (steps i h) ->
    ll_row (lps_along i h) h = if forallb fin (steps i h) then Some (fold_left sop (steps i h) sone) else None.
  Proof. intros H. unfold Beam.ll_row. rewrite H. reflexivity. Qed.

  (* ---------------------------------------------------------------- end to end *)
  Notation forward := (forward E Sc sop sone sbot sleb fin lp rew).

  (* every row r of the final state: instance r mod B, its state is the one reached by its own history, the
     returned sequence / step log-probabilities / accumulated score / summed log-likelihood are those of that history *)
  Definition beam_of_row (bs : bstate) (r : nat) (i : inst E) (h : list nat) : Prop :=
    nth_error insts (r mod B) = Some i /\ nth_error (b_rows E Sc bs) r = Some (i, run i h, h) /\ h <> [].

  Theorem final_rows starts bs0 fuel bs : pre_hook W insts starts = Some bs0 -> loop fuel W bs0 = Some bs ->
    Inv bs /\
    exists acts lps, backtrack W bs = Some (acts, lps) /\ length acts = W * B /\ length lps = W * B /\
      forall r, r < W * B -> exists i h, beam_of_row bs r i h /\
        nth_error acts r = Some h /\ nth_error lps r = Some (lps_along i h) /\
        nth_error (b_pbl E Sc bs) r = Some (score i h) /\
        ll_row (lps_along i h) h = if forallb fin (steps i h) then Some (fold_left sop (steps i h) sone) else None.
  Proof.
    intros Hpre Hloop. destruct (Inv_pre_hook starts bs0 Hpre) as (HI0 & _).
    pose proof (Inv_loop fuel bs0 bs HI0 Hloop) as HI. split; [exact HI|].
    destruct (backtrack_of_Inv bs HI) as (acts & lps & Hbt & La & Ll & Hrows).
    exists acts, lps. split; [exact Hbt|]. split; [exact La|]. split; [exact Ll|].
    intros r Hr. destruct (Hrows r Hr) as (rw & Hrw & Hok & Ha & Hl).
    destruct Hok as (Hi & Hst & Hne & _ & _ & Hsc & Hzip).
    destruct rw as [[i s] h]. cbn [Beam.r_inst Beam.r_st Beam.r_hist fst snd] in *. subst s.
    exists i, h. split; [split; [exact Hi|split; [exact Hrw|exact Hne]]|].
    split; [exact Ha|]. split; [exact Hl|]. split; [exact Hsc|]. apply ll_row_steps. exact Hzip.
  Qed.

  (* select_best = False: what the policy returns, row by row *)
  Theorem forward_all_beams fuel starts ll acts rws rows :
    forward fuel W false insts starts = Some (ll, acts, rws, rows) ->
    length acts = W * B /\ length ll = W * B /\
    forall r, r < W * B -> exists i h,
      nth_error insts (r mod B) = Some i /\ nth_error rows r = Some (i, run i h, h) /\
      nth_error acts r = Some h /\ forallb fin (steps i h) = true /\
      nth_error ll r = Some (fold_left sop (steps i h) sone) /\
      nth_error rws r = Some (rew i (run i h) h).
  Proof.
    unfold Beam.forward. destruct (pre_hook W insts starts) as [bs0|] eqn:Hpre; [|discriminate].
    destruct (loop fuel W bs0) as [bs|] eqn:Hloop; [|discriminate].
    destruct (final_rows starts bs0 fuel bs Hpre Hloop) as (HI & acts0 & lps0 & Hbt & La & Ll & Hrows).
    unfold Beam.post_hook. rewrite Hbt.
    destruct (zipM (fun a l => ll_row l a) acts0 lps0) as [ll0|] eqn:Hz; [|discriminate].
    intros Hout. injection Hout as <- <- <- <-.
    destruct (zipM_nth _ _ _ Hz) as (Lll & _ & Zn).
    split; [exact La|]. split; [lia|].
    intros r Hr. destruct (Hrows r Hr) as (i & h & (Hi & Hrw & Hne) & Ha & Hl & _ & Hllr).
    destruct (Zn r _ _ Ha Hl) as (v & Hv & Hnv). rewrite Hllr in Hv.
    destruct (forallb fin (steps i h)) eqn:Ef; [|discriminate]. injection Hv as <-.
    exists i, h. split; [exact Hi|]. split; [exact Hrw|]. split; [exact Ha|]. split; [exact Ef|]. split; [exact Hnv|].
    unfold Beam.rewards_of. rewrite nth_error_map2, Hrw, Ha. reflexivity.
  Qed.

  (* select_best = True: for every instance the returned row is the best (first maximal reward, torch.max) of
     the instance's own final beams, with that beam's actions, log-likelihood, reward and state *)
  Theorem forward_best_beam fuel starts ll acts rws rows :
    forward fuel W true insts starts = Some (ll, acts, rws, rows) ->
    exists bs0 bs acts0 lps0,
      pre_hook W insts starts = Some bs0 /\ loop fuel W bs0 = Some bs /\ backtrack W bs = Some (acts0, lps0) /\
      length acts = B /\ length ll = B /\
      forall b, b < B -> exists r i h,
        is_best B W (rewards_of (b_rows E Sc bs) acts0) b r /\
        nth_error insts b = Some i /\ nth_error (b_rows E Sc bs) r = Some (i, run i h, h) /\ nth_error acts0 r = Some h /\
        nth_error rows b = Some (i, run i h, h) /\ nth_error acts b = Some h /\
        forallb fin (steps i h) = true /\ nth_error ll b = Some (fold_left sop (steps i h) sone) /\
        nth_error rws b = Some (rew i (run i h) h).
  Proof.
    unfold Beam.forward. destruct (pre_hook W insts starts) as [bs0|] eqn:Hpre; [|discriminate].
    destruct (loop fuel W bs0) as [bs|] eqn:Hloop; [|discriminate].
    destruct (final_rows starts bs0 fuel bs Hpre Hloop) as (HI & acts0 & lps0 & Hbt & La & Ll & Hrows).
    unfold Beam.post_hook. rewrite Hbt.
    destruct (select_best_beam_spec lps0 acts0 (b_rows E Sc bs) Ll La (inv_rows _ HI))
      as (l & a & t & Hsel & L1 & L2 & L3 & Hbest).
    rewrite Hsel.
    destruct (zipM (fun a l => ll_row l a) a l) as [ll0|] eqn:Hz; [|discriminate].
    intros Hout. injection Hout as <- <- <- <-.
    destruct (zipM_nth _ _ _ Hz) as (Lll & _ & Zn).
    exists bs0, bs, acts0, lps0. split; [reflexivity|]. split; [exact Hloop|]. split; [exact Hbt|]. split; [exact L2|]. split; [lia|].
    intros b Hb. destruct (Hbest b Hb) as (r & Hbr & Ea & El & Et).
    assert (Hr : r < W * B) by (destruct Hbr as (Hr & _); exact Hr).
    assert (Hmod : r mod B = b) by (destruct Hbr as (_ & Hm & _); exact Hm).
    destruct (Hrows r Hr) as (i & h & (Hi & Hrw & Hne) & Ha & Hl & _ & Hllr).
    rewrite Hmod in Hi. rewrite Ha in Ea. rewrite Hl in El. rewrite Hrw in Et.
    destruct (Zn b _ _ Ea El) as (v & Hv & Hnv). rewrite Hllr in Hv.
    destruct (forallb fin (steps i h)) eqn:Ef; [|discriminate]. injection Hv as <-.
    exists r, i, h. split; [exact Hbr|]. split; [exact Hi|]. split; [exact Hrw|]. split; [exact Ha|].
    split; [exact Et|]. split; [exact Ea|]. split; [exact Ef|]. split; [exact Hnv|].
    unfold Beam.rewards_of. rewrite nth_error_map2, Et, Ea. reflexivity.
  Qed.

  (* ---------------------------------------------------------------- composed statements (whole run) *)
  Lemma hist_at_pre starts bs0 r : pre_hook W insts starts = Some bs0 -> r < W * B ->
    exists a, nth_error starts r = Some a /\ hist_at bs0 r = [a].
  Proof.
    intros Hpre Hr. destruct (Inv_pre_hook starts bs0 Hpre) as (_ & _ & _ & Hrows).
    destruct (Hrows r Hr) as (i & a & _ & Ha & Hrow). exists a. split; [exact Ha|].
    unfold hist_at. rewrite Hrow. reflexivity.
  Qed.

  (* C13 beams_distinct: distinct forced first moves of an instance => pairwise distinct returned sequences *)
  Theorem distinct_final starts bs0 fuel bs b :
    pre_hook W insts starts = Some bs0 -> loop fuel W bs0 = Some bs -> b < B ->
    (forall j j', j < W -> j' < W -> nth_error starts (j * B + b) = nth_error starts (j' * B + b) -> j = j') ->
    distinct_beams bs b.
  Proof.
    intros Hpre Hloop Hb Hst. destruct (Inv_pre_hook starts bs0 Hpre) as (HI0 & _).
    apply (distinct_loop fuel bs0 bs b HI0 Hloop Hb).
    intros j j' Hj Hj' Heq.
    destruct (hist_at_pre starts bs0 (j * B + b) Hpre) as (a & Ha & Hh); [nia|].
    destruct (hist_at_pre starts bs0 (j' * B + b) Hpre) as (a' & Ha' & Hh'); [nia|].
    rewrite Hh, Hh' in Heq. injection Heq as <-. apply Hst; try assumption. rewrite Ha, Ha'. reflexivity.
  Qed.

  (* the forced first move of every row is offered by the reset mask of the row's instance (C12: starts_feasible) *)
  Definition starts_offered (starts : list nat) : Prop :=
    forall r i a, nth_error insts (r mod B) = Some i -> nth_error starts r = Some a -> offered i (reset E i) a = true.

  Lemma rows_adm_pre starts bs0 : pre_hook W insts starts = Some bs0 -> starts_offered starts -> rows_adm bs0.
  Proof.
    intros Hpre Hoff r rw Hrw. destruct (Inv_pre_hook starts bs0 Hpre) as (HI0 & _ & _ & Hrows).
    assert (Hr : r < W * B) by (rewrite <- (inv_rows _ HI0); eapply nth_error_Some_lt; exact Hrw).
    destruct (Hrows r Hr) as (i & a & Hi & Ha & Hrow). rewrite Hrow in Hrw. injection Hrw as <-.
    cbn [Beam.r_inst Beam.r_hist fst snd]. unfold adm. cbn [adm_from]. rewrite (Hoff r i a Hi Ha). reflexivity.
  Qed.

  (* C13 beams_feasible (what the assertion guarantees): every move of every returned beam was offered by the
     mask of the state it was taken in *)
  Theorem adm_final starts bs0 fuel bs :
    pre_hook W insts starts = Some bs0 -> starts_offered starts -> loop fuel W bs0 = Some bs ->
    forall r, r < W * B -> exists i h, beam_of_row bs r i h /\ adm i h = true.
  Proof.
    intros Hpre Hoff Hloop r Hr. destruct (Inv_pre_hook starts bs0 Hpre) as (HI0 & _).
    pose proof (adm_loop fuel bs0 bs HI0 Hloop (rows_adm_pre starts bs0 Hpre Hoff)) as Hadm.
    destruct (final_rows starts bs0 fuel bs Hpre Hloop) as (HI & acts & lps & _ & _ & _ & Hrows).
    destruct (Hrows r Hr) as (i & h & Hb & _). exists i, h. split; [exact Hb|].
    destruct Hb as (_ & Hrw & _). exact (Hadm r _ Hrw).
  Qed.

  Section FiniteRun.
    Hypothesis fin_one : fin sone = true.
    Hypothesis fin_op : forall a b, fin a = true -> fin b = true -> fin (sop b a) = true.
    Hypothesis fin_op_inv : forall a b, fin (sop b a) = true -> fin a = true -> fin b = true.
    Hypothesis fin_low : forall x y, fin x = false -> fin y = true -> sleb y x = false.
    Hypothesis lp_support : forall i h a, adm i h = true -> h <> [] ->
      fin (nth a (lp i (run i h)) sbot) = true -> offered i (run i h) a = true.
    Hypothesis lp_nde : forall i h, adm i h = true -> h <> [] -> exists a, a < N /\ fin (nth a (lp i (run i h)) sbot) = true.
    Hypothesis step_ok : forall i h a, adm i h = true -> h <> [] -> offered i (run i h) a = true -> stepok E i (run i h) a = true.

    Lemma pbl_finite_pre starts bs0 : pre_hook W insts starts = Some bs0 -> pbl_finite bs0.
    Proof.
      intros Hpre r p Hp. destruct (Inv_pre_hook starts bs0 Hpre) as (HI0 & _ & _ & Hrows).
      assert (Hr : r < W * B) by (rewrite <- (inv_pbl _ HI0); eapply nth_error_Some_lt; exact Hp).
      destruct (Hrows r Hr) as (i & a & _ & _ & Hrow). destruct (inv_row _ HI0 r _ Hrow) as (_ & _ & _ & _ & _ & Hsc & _).
      cbn [Beam.r_inst Beam.r_hist fst snd] in Hsc. rewrite Hsc in Hp. injection Hp as <-. exact fin_one.
    Qed.

    (* C13 beams_feasible (totality): with no dead ends the decoding loop never raises -- no index out of range,
       no "infeasible action selected" -- and every final beam is admitted and has a finite accumulated score *)
    Theorem run_total starts bs0 fuel : 0 < B ->
      pre_hook W insts starts = Some bs0 -> starts_offered starts ->
      exists bs, loop fuel W bs0 = Some bs /\
        forall r, r < W * B -> exists i h, beam_of_row bs r i h /\ adm i h = true /\ fin (score i h) = true.
    Proof.
      intros HB Hpre Hoff. destruct (Inv_pre_hook starts bs0 Hpre) as (HI0 & _).
      destruct (loop_total fin_op fin_op_inv fin_low lp_support lp_nde step_ok fuel bs0 HB HI0
                  (rows_adm_pre starts bs0 Hpre Hoff) (pbl_finite_pre starts bs0 Hpre)) as (bs & Hloop & Hadm & Hfin).
      exists bs. split; [exact Hloop|]. intros r Hr.
      destruct (final_rows starts bs0 fuel bs Hpre Hloop) as (HI & acts & lps & _ & _ & _ & Hrows).
      destruct (Hrows r Hr) as (i & h & Hb & _ & _ & Hsc & _). exists i, h. split; [exact Hb|].
      destruct Hb as (_ & Hrw & _). split; [exact (Hadm r _ Hrw)|exact (Hfin r _ Hsc)].
    Qed.
  End FiniteRun.
End BeamFacts.

(* ================================================================================================ *)
(** * Part D: instances of the score structure *)

(* ---- (K, *, 1, 0, <=, 0 < .): probabilities in an ordered field; the step scores are the C10 model of
        process_logits applied to the decoder's logits.  (Sums of log-probabilities are the logarithms of these
        products, -inf is the logarithm of 0, and the order is the same.) *)
Section BeamField.
  Variable K : ofield.
  Open Scope of_scope.
  Add Field Kf_beam : (Fth K).

  Definition finK (x : K) : bool := fltb f0 x.

  Lemma finK_one : finK f1 = true.
  Proof. exact (flt_0_1 K). Qed.
  Lemma finK_bot : finK f0 = false.
  Proof. unfold finK, fltb. rewrite fle_refl. reflexivity. Qed.
  Lemma finK_op (a b : K) : finK a = true -> finK b = true -> finK (b * a) = true.
  Proof. intros Ha Hb. apply (fmul_pos K); assumption. Qed.
  Lemma finK_op_inv (a b : K) : finK (b * a) = true -> finK a = true -> finK b = true.
  Proof.
    intros Hba Ha. destruct (fle_flt_dec K b f0) as [Hb|Hb]; [|exact Hb]. exfalso.
    (* b <= 0 < a  gives  b * a <= 0 *)
    assert (Hn : fle f0 ((- b) * a)) by (apply fmul_nonneg; [apply fle_opp'; exact Hb | apply flt_le; exact Ha]).
    apply fle_opp in Hn. replace (- (- b * a)) with (b * a) in Hn by ring.
    exact (fle_not_flt K _ _ Hn Hba).
  Qed.
  Lemma finK_low (x y : K) : finK x = false -> finK y = true -> (y <=? x) = false.
  Proof.
    intros Hx Hy. unfold finK, fltb in Hx. apply negb_false_iff in Hx.
    destruct (y <=? x) eqn:E; [|reflexivity]. exfalso.
    exact (fle_not_flt K _ _ (fle_trans K _ _ _ E Hx) Hy).
  Qed.
  Lemma fmul_comm_K (a b : K) : a * b = b * a.
  Proof. ring. Qed.
  Lemma fmul_one_l_K (a : K) : f1 * a = a.
  Proof. ring. Qed.

  Variable L : Type.
  Variable lleb : L -> L -> bool.
  Variable e : L -> K.
  Hypothesis e_pos : forall x, flt f0 (e x).
  Hypothesis e_mono : forall x y, lleb x y = (e x <=? e y).
  Variables clip tmp : L -> L.
  Variable top_p : K.
  Variable top_k : nat.

  Variable E : Env.
  Variable dec : inst E -> st E -> list L.       (* the neural decoder: logits of one row *)
  Variable N : nat.
  Hypothesis dec_len : forall i s, length (dec i s) = N.
  Hypothesis mask_len : forall i s, length (mask E i s) = N.

  Definition lpK (i : inst E) (s : st E) : list K :=
    process_logits K L lleb e clip tmp (mask E i s) top_p top_k (dec i s).

  Lemma lpK_len i s : length (lpK i s) = N.
  Proof. unfold lpK. rewrite pl_length by (rewrite mask_len, dec_len; reflexivity). apply dec_len. Qed.

  (* C02: along admitted histories the mask never becomes empty *)
  Hypothesis env_nde : forall (i : inst E) h, adm i h = true -> h <> [] -> exists a, offered i (run i h) a = true.

  Lemma lpK_wf (i : inst E) h : adm i h = true -> h <> [] -> pl_wf L (mask E i (run i h)) (dec i (run i h)).
  Proof.
    intros Ha Hne. split; [rewrite mask_len, dec_len; reflexivity|].
    destruct (env_nde i h Ha Hne) as (a & Hoff). exists a. split; [|exact Hoff].
    destruct (Nat.lt_ge_cases a (length (mask E i (run i h)))) as [Hlt|Hge]; [exact Hlt|].
    unfold offered in Hoff. rewrite nth_overflow in Hoff by exact Hge. discriminate.
  Qed.

  Lemma lpK_support (i : inst E) h a : adm i h = true -> h <> [] ->
    finK (nth a (lpK i (run i h)) f0) = true -> offered i (run i h) a = true.
  Proof.
    intros Ha Hne Hf. unfold offered.
    exact (proj2 (pl_positive_unmasked K L lleb e e_pos clip tmp _ top_p top_k _ a (lpK_wf i h Ha Hne) Hf)).
  Qed.

  Lemma lpK_nde (i : inst E) h : adm i h = true -> h <> [] -> exists a, a < N /\ finK (nth a (lpK i (run i h)) f0) = true.
  Proof.
    intros Ha Hne.
    destruct (pl_keeps_argmax K L lleb e e_pos e_mono clip tmp _ top_p top_k _ (lpK_wf i h Ha Hne)) as (a & Hlt & _ & _ & Hpos & _).
    exists a. split; [rewrite dec_len in Hlt; exact Hlt|exact Hpos].
  Qed.

  Hypothesis N_pos : 0 < N.
  Hypothesis env_stepok : forall (i : inst E) h a, adm i h = true -> h <> [] -> offered i (run i h) a = true ->
    stepok E i (run i h) a = true.

  (* C13, over any ordered field and any weights e: under C02 (no dead ends) beam search never raises in the
     decoding loop and every final beam is an admitted action sequence of its own instance with positive probability *)
  Theorem field_run_total W B (insts : list (inst E)) starts bs0 fuel :
    0 < W -> length insts = B -> 0 < B ->
    pre_hook E K f1 W insts starts = Some bs0 -> starts_offered E B insts starts ->
    exists bs, loop E K fmul f0 fleb lpK fuel W bs0 = Some bs /\
      forall r, r < W * B -> exists i h, beam_of_row E K B insts bs r i h /\ adm i h = true /\
        flt f0 (score E K fmul f1 f0 lpK i h).
  Proof.
    intros HW HL HB Hpre Hoff.
    exact (run_total E K fmul f1 f0 fleb finK lpK (fle_total K) (fle_trans K) N N_pos lpK_len W B insts HW HL
             finK_one finK_op finK_op_inv finK_low lpK_support lpK_nde env_stepok starts bs0 fuel HB Hpre Hoff).
  Qed.
End BeamField.

(* ---- (option Z, +, Some 0, None): exact scaled log-probabilities, None = -inf *)
Definition zadd (a b : option Z) : option Z := match a, b with Some x, Some y => Some (x + y)%Z | _, _ => None end.
Definition zleb (a b : option Z) : bool :=
  match a, b with None, _ => true | Some _, None => false | Some x, Some y => (x <=? y)%Z end.
Definition zfin (a : option Z) : bool := match a with Some _ => true | None => false end.

Lemma zleb_total x y : zleb x y = true \/ zleb y x = true.
Proof. destruct x as [x|], y as [y|]; cbn; auto. destruct (Z.leb_spec x y); [left; reflexivity|right; apply Z.leb_le; lia]. Qed.
Lemma zleb_trans x y z : zleb x y = true -> zleb y z = true -> zleb x z = true.
Proof. destruct x as [x|], y as [y|], z as [z|]; cbn; intros H1 H2; try reflexivity; try discriminate. apply Z.leb_le in H1, H2. apply Z.leb_le. lia. Qed.
Lemma zfin_op a b : zfin a = true -> zfin b = true -> zfin (zadd b a) = true.
Proof. destruct a, b; cbn; auto. Qed.
Lemma zfin_op_inv a b : zfin (zadd b a) = true -> zfin a = true -> zfin b = true.
Proof. destruct a, b; cbn; auto. Qed.
Lemma zfin_low x y : zfin x = false -> zfin y = true -> zleb y x = false.
Proof. destruct x, y; cbn; auto; discriminate. Qed.
Lemma zadd_comm a b : zadd a b = zadd b a.
Proof. destruct a, b; cbn; try reflexivity. f_equal. lia. Qed.
Lemma zadd_one_l a : zadd (Some 0%Z) a = a.
Proof. destruct a; reflexivity. Qed.

(* the same closed at the two instances of C10: (Z, Qc, 2^z), executable and axiom-free, and (R, R, exp) *)
From Coq Require Import QArith Qcanon Reals.
From RL4CO Require Import Base.OFieldQc Base.OFieldR Decoding.PLInst.
Local Open Scope nat_scope.

Definition lpQc (clip tmp : Z -> Z) (top_p : Qc) (top_k : nat) (E : Env) (dec : inst E -> st E -> list Z) :=
  lpK QcF Z Z.leb pow2 clip tmp top_p top_k E dec.
Definition lpR (clip tmp : R -> R) (top_p : R) (top_k : nat) (E : Env) (dec : inst E -> st E -> list R) :=
  lpK RF R Rleb exp clip tmp top_p top_k E dec.

Theorem beam_run_total_Qc (clip tmp : Z -> Z) (top_p : Qc) (top_k : nat) (E : Env) (dec : inst E -> st E -> list Z) (N : nat) :
  (forall i s, length (dec i s) = N) -> (forall i s, length (mask E i s) = N) ->
  (forall (i : inst E) h, adm i h = true -> h <> [] -> exists a, offered i (run i h) a = true) ->
  0 < N ->
  (forall (i : inst E) h a, adm i h = true -> h <> [] -> offered i (run i h) a = true -> stepok E i (run i h) a = true) ->
  forall W B (insts : list (inst E)) starts bs0 fuel,
    0 < W -> length insts = B -> 0 < B ->
    pre_hook E Qc 1%Qc W insts starts = Some bs0 -> starts_offered E B insts starts ->
    exists bs, loop E Qc Qcmult 0%Qc Qcleb (lpQc clip tmp top_p top_k E dec) fuel W bs0 = Some bs /\
      forall r, r < W * B -> exists i h, beam_of_row E Qc B insts bs r i h /\ adm i h = true /\
        (0 < score E Qc Qcmult 1%Qc 0%Qc (lpQc clip tmp top_p top_k E dec) i h)%Qc.
Proof.
  intros Hd Hm Hn HN Hs W B insts starts bs0 fuel HW HL HB Hpre Hoff.
  destruct (field_run_total QcF Z Z.leb pow2 pow2_pos pow2_mono clip tmp top_p top_k E dec N Hd Hm Hn HN Hs
              W B insts starts bs0 fuel HW HL HB Hpre Hoff) as (bs & Hloop & Hrows).
  exists bs. split; [exact Hloop|]. intros r Hr. destruct (Hrows r Hr) as (i & h & Hb & Ha & Hpos).
  exists i, h. split; [exact Hb|]. split; [exact Ha|].
  unfold flt, fltb in Hpos. cbn [fleb f0 QcF] in Hpos. apply negb_true_iff in Hpos.
  apply Qcnot_le_lt. intros C. apply Qcleb_iff in C. exact (Bool.diff_false_true (eq_trans (eq_sym Hpos) C)).
Qed.

Theorem beam_run_total_R (clip tmp : R -> R) (top_p : R) (top_k : nat) (E : Env) (dec : inst E -> st E -> list R) (N : nat) :
  (forall i s, length (dec i s) = N) -> (forall i s, length (mask E i s) = N) ->
  (forall (i : inst E) h, adm i h = true -> h <> [] -> exists a, offered i (run i h) a = true) ->
  0 < N ->
  (forall (i : inst E) h a, adm i h = true -> h <> [] -> offered i (run i h) a = true -> stepok E i (run i h) a = true) ->
  forall W B (insts : list (inst E)) starts bs0 fuel,
    0 < W -> length insts = B -> 0 < B ->
    pre_hook E R 1%R W insts starts = Some bs0 -> starts_offered E B insts starts ->
    exists bs, loop E R Rmult 0%R Rleb (lpR clip tmp top_p top_k E dec) fuel W bs0 = Some bs /\
      forall r, r < W * B -> exists i h, beam_of_row E R B insts bs r i h /\ adm i h = true /\
        (0 < score E R Rmult 1%R 0%R (lpR clip tmp top_p top_k E dec) i h)%R.
Proof.
  intros Hd Hm Hn HN Hs W B insts starts bs0 fuel HW HL HB Hpre Hoff.
  destruct (field_run_total RF R Rleb exp exp_pos_F exp_mono_F clip tmp top_p top_k E dec N Hd Hm Hn HN Hs
              W B insts starts bs0 fuel HW HL HB Hpre Hoff) as (bs & Hloop & Hrows).
  exists bs. split; [exact Hloop|]. intros r Hr. destruct (Hrows r Hr) as (i & h & Hb & Ha & Hpos).
  exists i, h. split; [exact Hb|]. split; [exact Ha|].
  unfold flt, fltb in Hpos. cbn [fleb f0 RF] in Hpos. apply negb_true_iff in Hpos.
  apply Rnot_le_lt. intros C. apply Rleb_iff in C. exact (Bool.diff_false_true (eq_trans (eq_sym Hpos) C)).
Qed.

(* ... and for exact scaled log-probabilities (the instance the real policy's runs are checked with) *)
Theorem beam_run_total_logZ (E : Env) (lp : inst E -> st E -> list (option Z)) (N : nat) :
  0 < N -> (forall i s, length (lp i s) = N) ->
  (forall (i : inst E) h a, adm i h = true -> h <> [] -> zfin (nth a (lp i (run i h)) None) = true -> offered i (run i h) a = true) ->
  (forall (i : inst E) h, adm i h = true -> h <> [] -> exists a, a < N /\ zfin (nth a (lp i (run i h)) None) = true) ->
  (forall (i : inst E) h a, adm i h = true -> h <> [] -> offered i (run i h) a = true -> stepok E i (run i h) a = true) ->
  forall W B (insts : list (inst E)) starts bs0 fuel,
    0 < W -> length insts = B -> 0 < B ->
    pre_hook E (option Z) (Some 0%Z) W insts starts = Some bs0 -> starts_offered E B insts starts ->
    exists bs, loop E (option Z) zadd None zleb lp fuel W bs0 = Some bs /\
      forall r, r < W * B -> exists i h, beam_of_row E (option Z) B insts bs r i h /\ adm i h = true /\
        zfin (score E (option Z) zadd (Some 0%Z) None lp i h) = true.
Proof.
  intros HN Hl Hsup Hnde Hs W B insts starts bs0 fuel HW HL HB Hpre Hoff.
  exact (run_total E (option Z) zadd (Some 0%Z) None zleb zfin lp zleb_total zleb_trans N HN Hl W B insts HW HL
           eq_refl zfin_op zfin_op_inv zfin_low Hsup Hnde Hs starts bs0 fuel HB Hpre Hoff).
Qed.

(* ================================================================================================ *)
(** * Part E: a concrete total environment and decoder (non-vacuity of the hypotheses; worked examples) *)

(* nodes 0..3; node 0 (the depot) is always offered, nodes 1..3 while unvisited; done when 1, 2, 3 are visited;
   state = list of the actions taken *)
Definition toy_visited (s : list nat) (n : nat) : bool := existsb (Nat.eqb n) s.
Definition toy_mask (s : list nat) : list bool := true :: map (fun n => negb (toy_visited s n)) [1; 2; 3].
Definition toyE : Env :=
  {| inst := unit; st := list nat; reset := fun _ => []; step := fun _ s a => s ++ [a];
     stepok := fun _ _ _ => true; mask := fun _ s => toy_mask s;
     done := fun _ s => forallb (toy_visited s) [1; 2; 3] |}.
(* a "decoder": integer logits (times ln 2) that depend on the state *)
Definition toy_dec (_ : unit) (s : list nat) : list Z := [0; 2; 1; 3 - Z.of_nat (length s)]%Z.
Definition toy_rew (_ : unit) (_ : list nat) (acts : list nat) : Z := (- Z.of_nat (length acts) - Z.of_nat (hd 0%nat acts))%Z.

Lemma toy_dec_len : forall i s, length (toy_dec i s) = 4.
Proof. reflexivity. Qed.
Lemma toy_mask_len : forall i s, length (mask toyE i s) = 4.
Proof. reflexivity. Qed.
Lemma toy_nde : forall (i : inst toyE) h, adm i h = true -> h <> [] -> exists a, offered i (run i h) a = true.
Proof. intros i h _ _. exists 0. reflexivity. Qed.
Lemma toy_stepok : forall (i : inst toyE) h a, adm i h = true -> h <> [] -> offered i (run i h) a = true -> stepok toyE i (run i h) a = true.
Proof. reflexivity. Qed.

(* the same environment with a dead end (state [2] offers nothing), used with top_k = 1 *)
Definition deadE : Env :=
  {| inst := unit; st := list nat; reset := fun _ => []; step := fun _ s a => s ++ [a];
     stepok := fun _ _ _ => true;
     mask := fun _ s => match s with [2] => [false; false; false; false] | _ => toy_mask s end;
     done := fun _ s => forallb (toy_visited s) [1; 2; 3] |}.

Definition toy_lp := lpQc (fun z => z) (fun z => z) 0%Qc 0 toyE toy_dec.
Definition dead_lp := lpQc (fun z => z) (fun z => z) 0%Qc 1 deadE toy_dec.
(* readable view of what forward returns: probabilities as fractions, histories of the returned states *)
Definition toy_show (E : Env) (o : option (list Qc * list (list nat) * list Z * list (row E))) :=
  match o with Some (ll, acts, rws, rows) => Some (map (fun x : Qc => this x) ll, acts, rws, map (r_hist E) rows) | None => None end.
