(* C12 part 3: which replica sits in which row -- POMO / SymNCO / active-search regroupings and the
   attention-model decoder's regrouping.

   Pipelines in the source (all replication is ops.batchify on the leading axis):
     POMO.shared_step / SymNCO.shared_step / *Eval._inner:
         td = self.augment(td)                 -> StateAugmentation: batchify(td, num_augment)      (stage 1)
         out = self.policy(td, num_starts=S)   -> pre_decoder_hook: batchify(td, num_starts)        (stage 2)
       POMO   : reward = unbatchify(out["reward"], (n_aug, n_start))
       SymNCO : reward = unbatchify(out["reward"], (n_start, n_aug))
     ActiveSearch: batchify(td_init, n_runs); augment; multistart;
                   unbatchify(out["reward"], (n_runs, n_aug, n_start))
     AttentionModelDecoder.forward (num_starts > 1, static embeddings):
         td = unbatchify(td, num_starts); logits = pointer(...)   # [B, S, L]
         logits = rearrange(logits, "b s l -> (s b) l", s=num_starts)

   To say *which* copy a row is, every replication stage is given a ghost tag: [expand_tagged k] is
   batchify_single k that also pushes the copy index j < k on the row's tag list.  Forgetting the tags
   gives batchify_single back ([expand_tagged_untag]), so the tags do not change the model. *)
From Coq Require Import ZArith List Bool Lia ZifyBool Arith.
From RL4CO Require Import Decoding.Batchify Decoding.Nest.
Import ListNotations.

Set Implicit Arguments.

Section Layout.
Context {X : Type}.
Notation trow := (X * list nat)%type.

Definition tag_with (j : nat) (r : trow) : trow := (fst r, j :: snd r).

Definition expand_from (j0 k : nat) (x : list trow) : list trow :=
  concat (map (fun j => map (tag_with j) x) (seq j0 k)).
Definition expand_tagged (k : nat) (x : list trow) : list trow := expand_from 0 k x.

(* stages applied in list order: the first element is the first (innermost) replication *)
Definition expand_stages (gs : list nat) (x : list X) : list trow :=
  fold_left (fun acc g => expand_tagged g acc) gs (map (fun v => (v, [])) x).

Lemma expand_from_untag : forall k j0 x, map fst (expand_from j0 k x) = batchify_single k (map fst x).
Proof.
  unfold expand_from, batchify_single. induction k as [|k IH]; intros j0 x; [reflexivity|].
  cbn [seq map concat repeat]. rewrite map_app, IH. f_equal.
  rewrite map_map. apply map_ext. reflexivity.
Qed.

(* the tags are ghost state: without them a stage is exactly _batchify_single *)
Lemma expand_tagged_untag : forall k x, map fst (expand_tagged k x) = batchify_single k (map fst x).
Proof. intros. apply expand_from_untag. Qed.

Lemma expand_stages_untag : forall gs x,
  map fst (expand_stages gs x) = fold_left (fun acc g => batchify_single g acc) gs x.
Proof.
  intros gs x. unfold expand_stages.
  assert (H : forall (y : list trow),
             map fst (fold_left (fun acc g => expand_tagged g acc) gs y) =
             fold_left (fun acc g => batchify_single g acc) gs (map fst y)).
  { induction gs as [|g gs IH]; intro y; [reflexivity|]. cbn [fold_left]. rewrite IH, expand_tagged_untag. reflexivity. }
  rewrite H, map_map. cbn [fst]. now rewrite map_id.
Qed.

Lemma expand_from_length : forall k j0 x, length (expand_from j0 k x) = k * length x.
Proof.
  intros. rewrite <- (map_length fst), expand_from_untag, batchify_single_length, map_length. reflexivity.
Qed.

(* row r of a tagged stage: instance row r mod B, copy index r / B *)
Lemma expand_from_row : forall k j0 x r,
  r < k * length x ->
  nth_error (expand_from j0 k x) r = option_map (tag_with (j0 + r / length x)) (nth_error x (r mod length x)).
Proof.
  unfold expand_from. induction k as [|k IH]; intros j0 x r Hr; [lia|].
  cbn [seq map concat].
  assert (HB : length x <> 0) by (intro E; rewrite E in Hr; lia).
  destruct (Nat.lt_ge_cases r (length x)) as [Hlt|Hge].
  - rewrite nth_error_app1 by (now rewrite map_length).
    rewrite Nat.div_small, Nat.mod_small, Nat.add_0_r by exact Hlt. apply nth_error_map.
  - rewrite nth_error_app2 by (now rewrite map_length). rewrite map_length.
    rewrite IH by lia. rewrite mod_sub_self by assumption.
    rewrite <- (div_sub_self HB Hge). do 2 f_equal. lia.
Qed.

Lemma expand_tagged_row : forall k x r,
  r < k * length x ->
  nth_error (expand_tagged k x) r = option_map (tag_with (r / length x)) (nth_error x (r mod length x)).
Proof. intros. unfold expand_tagged. now rewrite expand_from_row. Qed.

(* ------------------------------------------------------------------------------------------------ *)
(** * mixed-radix bookkeeping *)

Lemma radix_lt : forall js fs, Forall2 lt js fs -> radix js fs < prod fs.
Proof.
  induction 1 as [|j f js fs Hj H IH]; cbn [radix prod fold_right]; [lia|]. fold (prod fs).
  assert (f * (radix js fs + 1) <= f * prod fs) by (apply Nat.mul_le_mono_l; lia). lia.
Qed.

Lemma prod_app : forall a b, prod (a ++ b) = prod a * prod b.
Proof.
  induction a as [|f a IH]; intro b; cbn [app].
  - unfold prod. cbn [fold_right]. lia.
  - unfold prod in *. cbn [fold_right]. rewrite IH. lia.
Qed.

Lemma radix_snoc : forall js fs j f, Forall2 lt js fs ->
  radix (js ++ [j]) (fs ++ [f]) = radix js fs + prod fs * j.
Proof.
  induction 1 as [|j0 f0 js fs Hj H IH]; cbn [app radix prod fold_right]; [lia|].
  fold (prod fs). rewrite IH. lia.
Qed.

Lemma expand_stages_snoc : forall gs g x,
  expand_stages (gs ++ [g]) x = expand_tagged g (expand_stages gs x).
Proof. intros. unfold expand_stages. now rewrite fold_left_app. Qed.

Lemma expand_stages_length : forall gs x, length (expand_stages gs x) = length x * prod gs.
Proof.
  induction gs as [|g gs IH] using rev_ind; intro x.
  - unfold expand_stages. cbn. rewrite map_length. lia.
  - rewrite expand_stages_snoc. unfold expand_tagged. rewrite expand_from_length, IH, prod_app.
    cbn [prod fold_right]. lia.
Qed.

(* The row with instance b and copy indices j1 (first stage) ... jm (last stage) is row
   b + B*(j1 + g1*(j2 + g2*(...))) ; its tag list is the copy indices, last stage first. *)
Theorem expand_stages_row : forall gs x b js,
  b < length x -> Forall2 lt js gs ->
  nth_error (expand_stages gs x) (b + length x * radix js gs) =
  option_map (fun v => (v, rev js)) (nth_error x b).
Proof.
  induction gs as [|g gs IH] using rev_ind; intros x b js Hb Hjs.
  - inversion Hjs; subst. cbn [radix rev]. rewrite Nat.mul_0_r, Nat.add_0_r.
    unfold expand_stages. cbn [fold_left]. now rewrite nth_error_map.
  - apply Forall2_app_inv_r in Hjs. destruct Hjs as (js' & jl & Hjs' & Hl & ->).
    inversion Hl as [|j g' ? ? Hj Hnil]; subst. inversion Hnil; subst.
    rewrite radix_snoc by exact Hjs'. rewrite expand_stages_snoc.
    pose proof (radix_lt Hjs') as Hlt.
    set (L := length (expand_stages gs x)).
    assert (HL : L = length x * prod gs) by apply expand_stages_length.
    set (r' := b + length x * radix js' gs).
    assert (Hr' : r' < L) by (unfold r'; nia).
    replace (b + length x * (radix js' gs + prod gs * j)) with (r' + j * L) by (unfold r'; nia).
    rewrite expand_tagged_row by (fold L; nia). fold L.
    assert (HLnz : L <> 0) by lia.
    rewrite Nat.mod_add, Nat.div_add, Nat.mod_small, Nat.div_small by assumption.
    unfold r'. rewrite IH by assumption. rewrite rev_app_distr. cbn [rev app Nat.add].
    destruct (nth_error x b); reflexivity.
Qed.

(* ------------------------------------------------------------------------------------------------ *)
(** * unbatchify with the stage factors in stage order recovers every replica coordinate *)

(* entry [b][j1]...[jm] of unbatchify (g1..gm) is instance b, copy j1 of stage 1, ..., copy jm of stage m *)
Theorem unbatchify_stages_entry : forall gs x,
  Forall (fun g => g <> 0) gs ->
  exists u, unbatchify_nat gs (rows_of (expand_stages gs x)) = Some u /\
    forall b js, b < length x -> Forall2 lt js gs ->
      get (b :: js) u = option_map (fun v => Leaf (v, rev js)) (nth_error x b).
Proof.
  intros gs x Hnz.
  destruct (@unbatchify_nat_entry trow gs (length x) (map Leaf (expand_stages gs x)) Hnz)
    as (rows' & Hrun & _ & Hent); [now rewrite map_length, expand_stages_length|].
  exists (Node rows'). split; [exact Hrun|].
  intros b js Hb Hjs. rewrite (Hent b js Hb Hjs), nth_error_map, expand_stages_row by assumption.
  destruct (nth_error x b); reflexivity.
Qed.

(* ------------------------------------------------------------------------------------------------ *)
(** * Two stages: augmentation (a copies) then multistart (s copies) *)

Lemma two_stage_row : forall a s (x : list X) r,
  a <> 0 -> r < s * (a * length x) ->
  nth_error (expand_stages [a; s] x) r =
  option_map (fun v => (v, [r / (length x * a); (r / length x) mod a])) (nth_error x (r mod length x)).
Proof.
  intros a s x r Ha Hr. unfold expand_stages. cbn [fold_left].
  set (x0 := map (fun v : X => (v, @nil nat)) x).
  assert (HB : length x <> 0) by (intro E; rewrite E in Hr; lia).
  assert (Hx0 : length x0 = length x) by (unfold x0; apply map_length).
  assert (Hl1 : length (expand_tagged a x0) = a * length x)
    by (unfold expand_tagged; now rewrite expand_from_length, Hx0).
  rewrite expand_tagged_row by (rewrite Hl1; exact Hr). rewrite Hl1.
  assert (Hm : r mod (a * length x) < a * length x) by (apply Nat.mod_upper_bound; lia).
  rewrite expand_tagged_row by (rewrite Hx0; exact Hm). rewrite Hx0.
  rewrite (Nat.mul_comm a (length x)).
  rewrite Nat.mod_mul_r by assumption.
  replace (r mod length x + length x * ((r / length x) mod a)) with
          (r mod length x + ((r / length x) mod a) * length x) by lia.
  rewrite Nat.mod_add, Nat.div_add, Nat.mod_mod, (Nat.div_small (r mod length x)) by
    (try assumption; apply Nat.mod_upper_bound; assumption).
  unfold x0. rewrite nth_error_map. destruct (nth_error x (r mod length x)); reflexivity.
Qed.

(* POMO: unbatchify(reward, (n_aug, n_start))[b][p][j] is instance b, augmentation p, start j *)
Theorem pomo_regrouping : forall a s (x : list X),
  a <> 0 -> s <> 0 ->
  exists u, unbatchify [Z.of_nat a; Z.of_nat s] (rows_of (expand_stages [a; s] x)) = Some u /\
    forall b p j, b < length x -> p < a -> j < s ->
      get [b; p; j] u = option_map (fun v => Leaf (v, [j; p])) (nth_error x b).
Proof.
  intros a s x Ha Hs. rewrite unbatchify_posfactors. cbn [posfactors].
  destruct (0 <? Z.of_nat a)%Z eqn:Ea; [|lia]. destruct (0 <? Z.of_nat s)%Z eqn:Es; [|lia].
  rewrite !Nat2Z.id.
  destruct (@unbatchify_stages_entry [a; s] x) as (u & Hrun & Hent); [repeat constructor; assumption|].
  exists u. split; [exact Hrun|]. intros b p j Hb Hp Hj.
  rewrite (Hent b [p; j]); [reflexivity|exact Hb|repeat constructor; assumption].
Qed.

(* SymNCO: unbatchify(reward, (n_start, n_aug))[b][j'][p'] keeps instance b; the replica it holds is the
   one with flat replica number q = j' + n_start * p', i.e. start q / n_aug and augmentation q mod n_aug. *)
Theorem symnco_regrouping : forall a s (x : list X),
  a <> 0 -> s <> 0 ->
  exists u, unbatchify [Z.of_nat s; Z.of_nat a] (rows_of (expand_stages [a; s] x)) = Some u /\
    forall b j' p', b < length x -> j' < s -> p' < a ->
      get [b; j'; p'] u =
      option_map (fun v => Leaf (v, [(j' + s * p') / a; (j' + s * p') mod a])) (nth_error x b).
Proof.
  intros a s x Ha Hs. rewrite unbatchify_posfactors. cbn [posfactors].
  destruct (0 <? Z.of_nat a)%Z eqn:Ea; [|lia]. destruct (0 <? Z.of_nat s)%Z eqn:Es; [|lia].
  rewrite !Nat2Z.id.
  destruct (@unbatchify_nat_entry trow [s; a] (length x) (map Leaf (expand_stages [a; s] x)))
    as (rows' & Hrun & _ & Hent).
  { repeat constructor; assumption. }
  { rewrite map_length, expand_stages_length. cbn [prod fold_right]. lia. }
  exists (Node rows'). split; [exact Hrun|]. intros b j' p' Hb Hj Hp.
  rewrite (Hent b [j'; p']); [|exact Hb|repeat constructor; assumption].
  cbn [radix]. rewrite Nat.mul_0_r, Nat.add_0_r, nth_error_map.
  assert (HB : length x <> 0) by lia.
  set (q := j' + s * p'). assert (Hq : q < s * a) by (unfold q; nia).
  rewrite two_stage_row; [|exact Ha|nia].
  replace (b + length x * q) with (b + q * length x) by lia.
  assert (E1 : (b + q * length x) mod length x = b) by (rewrite Nat.mod_add, Nat.mod_small by assumption; reflexivity).
  assert (E2 : (b + q * length x) / length x = q) by (rewrite Nat.div_add, Nat.div_small by assumption; reflexivity).
  assert (E3 : (b + q * length x) / (length x * a) = q / a) by (rewrite <- Nat.div_div, E2 by assumption; reflexivity).
  rewrite E1, E2, E3.
  destruct (nth_error x b); reflexivity.
Qed.

(* consequences: the two orders agree when one factor is 1; with n_start = n_aug = n the two inner axes
   are transposed (entry [b][j'][p'] holds start p', augmentation j') *)
Corollary symnco_axes_when_square : forall n j' p', j' < n -> p' < n ->
  (j' + n * p') / n = p' /\ (j' + n * p') mod n = j'.
Proof.
  intros n j' p' Hj Hp. assert (Hn : n <> 0) by lia.
  replace (j' + n * p') with (j' + p' * n) by lia.
  rewrite Nat.div_add, Nat.mod_add, Nat.div_small, Nat.mod_small by assumption. split; reflexivity.
Qed.

Corollary symnco_axes_no_augmentation : forall s j', j' < s -> (j' + s * 0) / 1 = j' /\ (j' + s * 0) mod 1 = 0.
Proof. intros. rewrite Nat.mul_0_r, Nat.add_0_r, Nat.div_1_r, Nat.mod_1_r. split; reflexivity. Qed.

Corollary symnco_axes_single_start : forall a p', a <> 0 -> p' < a -> (0 + 1 * p') / a = 0 /\ (0 + 1 * p') mod a = p'.
Proof. intros a p' Ha Hp. cbn [Nat.add]. rewrite Nat.mul_1_l, Nat.div_small, Nat.mod_small by assumption. split; reflexivity. Qed.

(* ActiveSearch: three stages (runs, augmentation, starts) and unbatchify (n_runs, n_aug, n_start) *)
Theorem active_search_regrouping : forall nr a s (x : list X),
  nr <> 0 -> a <> 0 -> s <> 0 ->
  exists u, unbatchify [Z.of_nat nr; Z.of_nat a; Z.of_nat s] (rows_of (expand_stages [nr; a; s] x)) = Some u /\
    forall b q p j, b < length x -> q < nr -> p < a -> j < s ->
      get [b; q; p; j] u = option_map (fun v => Leaf (v, [j; p; q])) (nth_error x b).
Proof.
  intros nr a s x Hr Ha Hs. rewrite unbatchify_posfactors. cbn [posfactors].
  destruct (0 <? Z.of_nat nr)%Z eqn:Er; [|lia].
  destruct (0 <? Z.of_nat a)%Z eqn:Ea; [|lia]. destruct (0 <? Z.of_nat s)%Z eqn:Es; [|lia].
  rewrite !Nat2Z.id.
  destruct (@unbatchify_stages_entry [nr; a; s] x) as (u & Hrun & Hent); [repeat constructor; assumption|].
  exists u. split; [exact Hrun|]. intros b q p j Hb Hq Hp Hj.
  rewrite (Hent b [q; p; j]); [reflexivity|exact Hb|repeat constructor; assumption].
Qed.

(* ------------------------------------------------------------------------------------------------ *)
(** * The attention-model decoder's regrouping *)

Lemma nth_concat_uniform : forall B (t : list (list X)) j b d,
  Forall (fun c => length c = B) t -> j < length t -> b < B ->
  nth (j * B + b) (concat t) d = nth b (nth j t []) d.
Proof.
  intros B t j b d Hw Hj Hb.
  rewrite <- (chunks_concat (n := length t) eq_refl Hw) at 2.
  symmetry. now apply nth_chunks.
Qed.

(* "b s l -> (s b) l":  out[j*B + b] = y[b][j] *)
Theorem regroup_entry : forall k (y : list (list X)) b j d,
  Forall (fun r => length r = k) y -> b < length y -> j < k ->
  nth (j * length y + b) (regroup k y) d = nth j (nth b y []) d.
Proof.
  intros k y b j d Hy Hb Hj. unfold regroup.
  rewrite nth_concat_uniform; [|now apply transpose_widths|now rewrite transpose_length|exact Hb].
  rewrite nth_transpose with (d := d) by assumption.
  rewrite nth_indep with (d' := nth j [] d) by (now rewrite map_length).
  now rewrite map_nth with (f := fun r => nth j r d).
Qed.

End Layout.

(* The decoder computes, for instance b (its cached embeddings) and the state in td[b][j], some value
   h b (td[b][j]); after the regrouping row r holds h (r mod B) (x[r]): the row's own state with the
   embeddings of its own instance. *)
Theorem am_decoder_regrouping : forall (X Y : Type) (h : nat -> X -> Y) k B (x : list X) r dx dy,
  k <> 0 -> length x = k * B -> r < k * B ->
  nth r (regroup k (map (fun br => map (h (fst br)) (snd br)) (combine (seq 0 B) (unb1 k x)))) dy =
  h (r mod B) (nth r x dx).
Proof.
  intros X Y h k B x r dx dy Hk Hx Hr.
  assert (HB : B <> 0) by (intro E; subst B; lia).
  set (y := map (fun br => map (h (fst br)) (snd br)) (combine (seq 0 B) (unb1 k x))).
  assert (Hly : length y = B).
  { unfold y. rewrite map_length, combine_length, seq_length, unb1_length with (B := B) by assumption. lia. }
  assert (Hrow : forall b, b < B -> nth b y [] = map (h b) (nth b (unb1 k x) [])).
  { intros b Hb. unfold y.
    rewrite nth_map' with (d := (0, []))
      by (rewrite combine_length, seq_length, unb1_length with (B := B) by assumption; lia).
    rewrite combine_nth by (rewrite seq_length, unb1_length with (B := B) by assumption; reflexivity).
    cbn [fst snd]. now rewrite seq_nth. }
  assert (Hwy : Forall (fun row => length row = k) y).
  { apply Forall_forall. intros row Hin. destruct (In_nth _ _ [] Hin) as (b & Hb & <-).
    rewrite Hly in Hb. rewrite Hrow, map_length by exact Hb.
    pose proof (@unb1_widths _ k B x Hk Hx) as Hall. rewrite Forall_forall in Hall.
    apply Hall, nth_In. now rewrite unb1_length with (B := B). }
  pose proof (Nat.div_mod r B HB) as Hdm.
  assert (Hj : r / B < k) by (apply Nat.div_lt_upper_bound; [exact HB|lia]).
  assert (Hb : r mod B < B) by now apply Nat.mod_upper_bound.
  replace r with ((r / B) * length y + r mod B) at 1 by (rewrite Hly; lia).
  rewrite regroup_entry by (try assumption; now rewrite Hly).
  rewrite Hrow by exact Hb.
  rewrite nth_map' with (d := dx).
  - rewrite unb1_entry with (B := B) by assumption. f_equal. f_equal. lia.
  - pose proof (@unb1_widths _ k B x Hk Hx) as Hall. rewrite Forall_forall in Hall.
    rewrite (Hall (nth (r mod B) (unb1 k x) [])); [exact Hj|]. apply nth_In. now rewrite unb1_length with (B := B).
Qed.

(* ------------------------------------------------------------------------------------------------ *)
(** * Examples *)

(* B = 2 instances (10, 20), 2 augmentations then 3 starts: 12 rows *)
Example ex_pomo :
  match unbatchify [2%Z; 3%Z] (rows_of (expand_stages [2; 3] [10; 20])) with
  | Some u => get [1; 1; 2] u | None => None end = Some (Leaf (20, [2; 1])).
Proof. reflexivity. Qed.
(* SymNCO's order on the same rows: entry [1][2][1] (labelled start 2, augmentation 1) holds start 2, aug 1?
   q = 2 + 3*1 = 5, start = 5 / 2 = 2, aug = 5 mod 2 = 1: here it coincides; entry [1][0][1]: q = 3, start 1, aug 1 *)
Example ex_symnco :
  match unbatchify [3%Z; 2%Z] (rows_of (expand_stages [2; 3] [10; 20])) with
  | Some u => get [1; 0; 1] u | None => None end = Some (Leaf (20, [1; 1])).
Proof. reflexivity. Qed.
