(* C12 -- replicated rollouts keep their instance.  Part 1: batchify / unbatchify on rows.

   Source: rl4co/utils/ops.py

     def _batchify_single(x, repeats):
         s = x.shape
         return x.expand(repeats, *s).contiguous().view(s[0] * repeats, *s[1:])
     def batchify(x, shape):
         shape = [shape] if isinstance(shape, int) else shape
         for s in reversed(shape):
             x = _batchify_single(x, s) if s > 0 else x
         return x
     def _unbatchify_single(x, repeats):
         s = x.shape
         return x.view(repeats, s[0] // repeats, *s[1:]).permute(1, 0, *range(2, len(s) + 1))
     def unbatchify(x, shape):   (same loop with _unbatchify_single)

   A tensor / TensorDict is modelled by the list of its rows along the leading (batch) dimension; a row
   is an opaque value of type X (all trailing dimensions / all keys of the TensorDict row).
   expand(repeats, *s) puts [repeats] copies of x along a new leading axis, view(s[0]*repeats, ...) glues
   them one after the other:  batchify_single = concat of [repeats] copies.
   view(repeats, B, ...) cuts the rows into [repeats] chunks of B rows; permute(1, 0, ...) transposes the
   two leading axes.  The model follows that literally (chunks, then transpose); the index formula
   result[b][j] = x[j*B + b] is a theorem (unb1_entry), not the definition.  *)
From Coq Require Import ZArith List Bool Lia ZifyBool Arith.
Import ListNotations.

Set Implicit Arguments.

Section Rows.
Context {X : Type}.

(* ------------------------------------------------------------------------------------------------ *)
(** * Model *)

Definition batchify_single (repeats : nat) (x : list X) : list X := concat (repeat x repeats).

(* one iteration of the loop body:  x = _batchify_single(x, s) if s > 0 else x   (s is a python int) *)
Definition batchify_step (x : list X) (s : Z) : list X :=
  if (0 <? s)%Z then batchify_single (Z.to_nat s) x else x.

(* an int argument k is the one-element shape [k] *)
Definition batchify (shape : list Z) (x : list X) : list X := fold_left batchify_step (rev shape) x.

(* view(n, B, ...): n chunks of B consecutive rows *)
Fixpoint chunks (B n : nat) (x : list X) : list (list X) :=
  match n with
  | 0 => []
  | S n' => firstn B x :: chunks B n' (skipn B x)
  end.

Fixpoint zipcons (r : list X) (cols : list (list X)) : list (list X) :=
  match r, cols with
  | a :: r', c :: cols' => (a :: c) :: zipcons r' cols'
  | _, _ => []
  end.

(* permute(1, 0, ...) of an [n, w, ...] block given as n rows of width w: w rows of width n *)
Fixpoint transpose (w : nat) (rows : list (list X)) : list (list X) :=
  match rows with
  | [] => repeat [] w
  | r :: rs => zipcons r (transpose w rs)
  end.

Definition unb1 (repeats : nat) (x : list X) : list (list X) :=
  let B := length x / repeats in transpose B (chunks B repeats x).

(* None = the real code raises (view with a size that does not divide; s[0] // 0) *)
Definition unbatchify_single (repeats : nat) (x : list X) : option (list (list X)) :=
  if (repeats =? 0) || negb (length x mod repeats =? 0) then None else Some (unb1 repeats x).

(* einops.rearrange(y, "b s ... -> (s b) ...", s=s)   (models/zoo/am/decoder.py, the regrouping of the
   logits and mask after the decoder ran on unbatchify(td, num_starts)) *)
Definition regroup (s : nat) (y : list (list X)) : list X := concat (transpose s y).

(* ------------------------------------------------------------------------------------------------ *)
(** * batchify: lengths and rows *)

Lemma batchify_single_length : forall k x, length (batchify_single k x) = k * length x.
Proof.
  unfold batchify_single. induction k as [|k IH]; intro x; cbn [repeat concat]; [reflexivity|].
  rewrite app_length, IH. lia.
Qed.

Lemma mod_sub_self : forall r B, B <> 0 -> B <= r -> (r - B) mod B = r mod B.
Proof.
  intros r B HB Hle. replace r with ((r - B) + 1 * B) at 2 by lia. now rewrite Nat.mod_add.
Qed.

Lemma div_sub_self : forall r B, B <> 0 -> B <= r -> S ((r - B) / B) = r / B.
Proof.
  intros r B HB Hle. replace r with ((r - B) + 1 * B) at 2 by lia. rewrite Nat.div_add by exact HB. lia.
Qed.

(* row r of the k-fold expansion is row (r mod B) of the original *)
Lemma nth_error_batchify_single : forall k x r,
  r < k * length x -> nth_error (batchify_single k x) r = nth_error x (r mod length x).
Proof.
  unfold batchify_single. induction k as [|k IH]; intros x r Hr; [lia|].
  cbn [repeat concat]. destruct (Nat.lt_ge_cases r (length x)) as [Hlt|Hge].
  - rewrite nth_error_app1 by exact Hlt. now rewrite Nat.mod_small.
  - rewrite nth_error_app2 by exact Hge.
    assert (HB : length x <> 0) by (intro E; rewrite E in Hr; lia).
    rewrite IH by lia. now rewrite mod_sub_self.
Qed.

Lemma batchify_single_1 : forall x, batchify_single 1 x = x.
Proof. intro x. unfold batchify_single. cbn. apply app_nil_r. Qed.

Lemma batchify_single_0 : forall x, batchify_single 0 x = [].
Proof. reflexivity. Qed.

Lemma batchify_single_mul : forall a b x,
  batchify_single a (batchify_single b x) = batchify_single (a * b) x.
Proof.
  unfold batchify_single. induction a as [|a IH]; intros b x; [reflexivity|].
  cbn [repeat concat Nat.mul]. rewrite IH, repeat_app, concat_app. reflexivity.
Qed.

Lemma batchify_single_nil : forall k, batchify_single k (@nil X) = [].
Proof. unfold batchify_single. induction k as [|k IH]; [reflexivity|]. cbn. exact IH. Qed.

(* the product of the factors that the loop does not skip *)
Fixpoint prodpos (shape : list Z) : nat :=
  match shape with
  | [] => 1
  | s :: rest => if (0 <? s)%Z then Z.to_nat s * prodpos rest else prodpos rest
  end.

Lemma batchify_cons : forall s shape x, batchify (s :: shape) x = batchify_step (batchify shape x) s.
Proof. intros. unfold batchify. cbn [rev]. rewrite fold_left_app. reflexivity. Qed.

Lemma batchify_nil : forall x, batchify [] x = x.
Proof. reflexivity. Qed.

Lemma batchify_is_single : forall shape x, batchify shape x = batchify_single (prodpos shape) x.
Proof.
  induction shape as [|s shape IH]; intro x.
  - now rewrite batchify_nil, batchify_single_1.
  - rewrite batchify_cons, IH. unfold batchify_step. cbn [prodpos].
    destruct (0 <? s)%Z; [apply batchify_single_mul|reflexivity].
Qed.

Lemma batchify_length : forall shape x, length (batchify shape x) = prodpos shape * length x.
Proof. intros. rewrite batchify_is_single. apply batchify_single_length. Qed.

(* nth_batchify: for any nesting of factors, row r of the expanded batch is row (r mod B) of the input *)
Theorem nth_batchify : forall shape x r,
  r < prodpos shape * length x -> nth_error (batchify shape x) r = nth_error x (r mod length x).
Proof. intros. rewrite batchify_is_single. now apply nth_error_batchify_single. Qed.

(* the order of the factors is irrelevant for the *content* (not for replica coordinates, see Layout.v) *)
Lemma batchify_perm_content : forall shape shape' x,
  prodpos shape = prodpos shape' -> batchify shape x = batchify shape' x.
Proof. intros. rewrite !batchify_is_single. congruence. Qed.

(* ------------------------------------------------------------------------------------------------ *)
(** * list helpers: nth of skipn / firstn, chunks, zipcons, transpose *)

Lemma nth_skipn' : forall n (l : list X) i d, nth i (skipn n l) d = nth (n + i) l d.
Proof.
  induction n as [|n IH]; intros l i d; [reflexivity|].
  destruct l as [|a l]; cbn [skipn Nat.add nth]; [now destruct i|apply IH].
Qed.

Lemma nth_firstn' : forall n (l : list X) i d, i < n -> nth i (firstn n l) d = nth i l d.
Proof.
  induction n as [|n IH]; intros l i d Hi; [lia|].
  destruct l as [|a l]; [reflexivity|]. destruct i as [|i]; [reflexivity|].
  cbn [firstn nth]. apply IH. lia.
Qed.

Lemma chunks_length : forall B n x, length (chunks B n x) = n.
Proof. induction n as [|n IH]; intro x; cbn [chunks length]; [reflexivity|now rewrite IH]. Qed.

Lemma chunks_widths : forall B n x, length x = n * B -> Forall (fun c => length c = B) (chunks B n x).
Proof.
  induction n as [|n IH]; intros x Hx; cbn [chunks]; constructor.
  - rewrite firstn_length. lia.
  - apply IH. rewrite skipn_length. lia.
Qed.

Lemma concat_chunks : forall B n x, length x = n * B -> concat (chunks B n x) = x.
Proof.
  induction n as [|n IH]; intros x Hx; cbn [chunks concat].
  - destruct x; [reflexivity|discriminate].
  - rewrite IH by (rewrite skipn_length; lia). apply firstn_skipn.
Qed.

Lemma chunks_concat : forall B n (y : list (list X)),
  length y = n -> Forall (fun c => length c = B) y -> chunks B n (concat y) = y.
Proof.
  induction n as [|n IH]; intros y Hy Hw.
  - destruct y; [reflexivity|discriminate].
  - destruct y as [|c y]; [discriminate|]. inversion Hw as [|? ? Hc Hw']; subst.
    cbn [concat chunks]. rewrite firstn_app, Nat.sub_diag, firstn_all, firstn_O, app_nil_r.
    rewrite skipn_app, Nat.sub_diag, skipn_all, skipn_O. cbn [app].
    rewrite IH; [reflexivity|now injection Hy|exact Hw'].
Qed.

Lemma nth_chunks : forall B n x j d b,
  j < n -> b < B -> nth b (nth j (chunks B n x) []) d = nth (j * B + b) x d.
Proof.
  induction n as [|n IH]; intros x j d b Hj Hb; [lia|].
  cbn [chunks]. destruct j as [|j]; cbn [nth].
  - rewrite nth_firstn' by exact Hb. reflexivity.
  - rewrite IH by lia. rewrite nth_skipn'. f_equal. lia.
Qed.

Lemma zipcons_length : forall r cols, length r = length cols -> length (zipcons r cols) = length cols.
Proof.
  induction r as [|a r IH]; intros [|c cols] H; try discriminate; [reflexivity|].
  cbn [zipcons length]. f_equal. apply IH. now injection H.
Qed.

Lemma zipcons_widths : forall n r cols,
  length r = length cols -> Forall (fun c => length c = n) cols ->
  Forall (fun c => length c = S n) (zipcons r cols).
Proof.
  induction r as [|a r IH]; intros [|c cols] H Hw; try discriminate; cbn [zipcons]; constructor.
  - inversion Hw; subst. reflexivity.
  - apply IH; [now injection H|now inversion Hw].
Qed.

Lemma nth_zipcons : forall r cols b d,
  length r = length cols -> b < length r ->
  nth b (zipcons r cols) [] = nth b r d :: nth b cols [].
Proof.
  induction r as [|a r IH]; intros [|c cols] b d H Hb; try discriminate; cbn [length] in *; [lia|].
  cbn [zipcons]. destruct b as [|b]; [reflexivity|]. cbn [nth]. apply IH; [now injection H|lia].
Qed.

Lemma transpose_length : forall w rows,
  Forall (fun r => length r = w) rows -> length (transpose w rows) = w.
Proof.
  induction rows as [|r rs IH]; intro Hw; cbn [transpose]; [apply repeat_length|].
  inversion Hw as [|? ? Hr Hrs]; subst. rewrite zipcons_length; rewrite IH by exact Hrs; reflexivity.
Qed.

Lemma transpose_widths : forall w rows,
  Forall (fun r => length r = w) rows ->
  Forall (fun c => length c = length rows) (transpose w rows).
Proof.
  induction rows as [|r rs IH]; intro Hw; cbn [transpose length].
  - apply Forall_forall. intros c Hc. apply repeat_spec in Hc. now subst.
  - inversion Hw as [|? ? Hr Hrs]; subst. apply zipcons_widths; [|now apply IH].
    rewrite transpose_length by exact Hrs. reflexivity.
Qed.

Lemma nth_transpose : forall w rows b d,
  Forall (fun r => length r = w) rows -> b < w ->
  nth b (transpose w rows) [] = map (fun r => nth b r d) rows.
Proof.
  induction rows as [|r rs IH]; intros b d Hw Hb; cbn [transpose map].
  - apply nth_repeat.
  - inversion Hw as [|? ? Hr Hrs]; subst.
    rewrite nth_zipcons with (d := d); [|now rewrite transpose_length|exact Hb].
    now rewrite IH with (d := d).
Qed.

Lemma transpose_zipcons : forall n r cols,
  length r = length cols -> Forall (fun c => length c = n) cols ->
  transpose (S n) (zipcons r cols) = r :: transpose n cols.
Proof.
  induction r as [|a r IH]; intros [|c cols] H Hw; try discriminate; [reflexivity|].
  cbn [zipcons transpose]. inversion Hw as [|? ? Hc Hw']; subst.
  rewrite IH; [reflexivity|now injection H|exact Hw'].
Qed.

Theorem transpose_involutive : forall w rows,
  Forall (fun r => length r = w) rows -> transpose (length rows) (transpose w rows) = rows.
Proof.
  induction rows as [|r rs IH]; intro Hw; cbn [transpose length].
  - destruct w; reflexivity.
  - inversion Hw as [|? ? Hr Hrs]; subst.
    rewrite transpose_zipcons; [now rewrite IH|now rewrite transpose_length|now apply transpose_widths].
Qed.

Lemma zipcons_map : forall (f : X -> list X) (ys : list X),
  zipcons ys (map f ys) = map (fun y => y :: f y) ys.
Proof. induction ys as [|y ys IH]; [reflexivity|]. cbn [map zipcons]. now rewrite IH. Qed.

Lemma map_const_repeat : forall (A B : Type) (c : B) (l : list A), map (fun _ => c) l = repeat c (length l).
Proof. induction l as [|a l IH]; [reflexivity|]. cbn. now rewrite IH. Qed.

Lemma transpose_repeat : forall k (ys : list X),
  transpose (length ys) (repeat ys k) = map (fun y => repeat y k) ys.
Proof.
  induction k as [|k IH]; intro ys; cbn [repeat transpose].
  - symmetry. apply (map_const_repeat (@nil X)).
  - rewrite IH. apply zipcons_map.
Qed.

(* ------------------------------------------------------------------------------------------------ *)
(** * unbatchify (one factor): shape, entries, inverse *)

Lemma div_exact : forall k B, k <> 0 -> (k * B) / k = B.
Proof. intros. rewrite Nat.mul_comm. now apply Nat.div_mul. Qed.

Lemma unb1_length : forall k B x, k <> 0 -> length x = k * B -> length (unb1 k x) = B.
Proof.
  intros k B x Hk Hx. unfold unb1. rewrite Hx, div_exact by exact Hk.
  apply transpose_length, chunks_widths. lia.
Qed.

Lemma unb1_widths : forall k B x, k <> 0 -> length x = k * B ->
  Forall (fun r => length r = k) (unb1 k x).
Proof.
  intros k B x Hk Hx. unfold unb1. rewrite Hx, div_exact by exact Hk.
  pose proof (transpose_widths (w := B) (rows := chunks B k x)) as H.
  rewrite chunks_length in H. apply H, chunks_widths. lia.
Qed.

(* unbatchify_entry: result[b][j] = x[j*B + b] *)
Theorem unb1_entry : forall k B x b j d,
  length x = k * B -> b < B -> j < k ->
  nth j (nth b (unb1 k x) []) d = nth (j * B + b) x d.
Proof.
  intros k B x b j d Hx Hb Hj. unfold unb1. assert (Hk : k <> 0) by lia.
  rewrite Hx, div_exact by exact Hk.
  rewrite nth_transpose with (d := d); [|apply chunks_widths; lia|exact Hb].
  rewrite nth_indep with (d' := nth b [] d) by (rewrite map_length, chunks_length; exact Hj).
  rewrite map_nth with (f := fun r => nth b r d). apply nth_chunks; assumption.
Qed.

Lemma unbatchify_single_some : forall k B x, k <> 0 -> length x = k * B ->
  unbatchify_single k x = Some (unb1 k x).
Proof.
  intros k B x Hk Hx. unfold unbatchify_single.
  destruct (k =? 0) eqn:E; [apply Nat.eqb_eq in E; contradiction|].
  rewrite Hx, Nat.mul_comm, Nat.mod_mul by exact Hk. reflexivity.
Qed.

Lemma unbatchify_single_none : forall k x, length x mod k <> 0 -> unbatchify_single k x = None.
Proof.
  intros k x H. unfold unbatchify_single. destruct (k =? 0); [reflexivity|].
  destruct (length x mod k =? 0) eqn:E; [apply Nat.eqb_eq in E; contradiction|reflexivity].
Qed.

(* regroup_roundtrip: the decoder's "b s l -> (s b) l" undoes unbatchify(td, s): identity on rows *)
Theorem regroup_unb1 : forall k B x, k <> 0 -> length x = k * B -> regroup k (unb1 k x) = x.
Proof.
  intros k B x Hk Hx. unfold regroup, unb1. rewrite Hx, div_exact by exact Hk.
  pose proof (transpose_involutive (w := B) (rows := chunks B k x)) as H.
  rewrite chunks_length in H. rewrite H by (apply chunks_widths; lia).
  apply concat_chunks. lia.
Qed.

Lemma concat_length_uniform : forall n (t : list (list X)),
  Forall (fun c => length c = n) t -> length (concat t) = length t * n.
Proof.
  induction 1 as [|c t Hc Hw IH]; cbn [concat length]; [reflexivity|]. rewrite app_length, Hc, IH. lia.
Qed.

Lemma regroup_length : forall k (y : list (list X)),
  Forall (fun r => length r = k) y -> length (regroup k y) = k * length y.
Proof.
  intros k y Hy. unfold regroup.
  rewrite concat_length_uniform with (n := length y) by now apply transpose_widths.
  now rewrite transpose_length.
Qed.

(* the other direction: unbatchify of a regrouped [B, k] block gives the block back *)
Theorem unb1_regroup : forall k (y : list (list X)),
  k <> 0 -> Forall (fun r => length r = k) y -> unb1 k (regroup k y) = y.
Proof.
  intros k y Hk Hy. unfold unb1. rewrite regroup_length by exact Hy. rewrite div_exact by exact Hk.
  unfold regroup. rewrite chunks_concat.
  - now apply transpose_involutive.
  - now apply transpose_length.
  - now apply transpose_widths.
Qed.

(* unbatchify after batchify (one factor): every instance gets its k identical copies *)
Theorem unb1_batchify_single : forall k (x : list X),
  k <> 0 -> unb1 k (batchify_single k x) = map (fun v => repeat v k) x.
Proof.
  intros k x Hk. unfold unb1. rewrite batchify_single_length, div_exact by exact Hk.
  unfold batchify_single. rewrite chunks_concat.
  - apply transpose_repeat.
  - apply repeat_length.
  - apply Forall_forall. intros c Hc. apply repeat_spec in Hc. now subst.
Qed.

(* batchify commutes with a per-row map (used for TensorDict keys and for tagging) *)
Lemma concat_repeat_map : forall (Y : Type) (f : X -> Y) k (x : list X),
  map f (concat (repeat x k)) = concat (repeat (map f x) k).
Proof.
  induction k as [|k IH]; intro x; [reflexivity|]. cbn [repeat concat]. now rewrite map_app, IH.
Qed.

End Rows.

Lemma nth_map' : forall (A B : Type) (f : A -> B) l i d d',
  i < length l -> nth i (map f l) d' = f (nth i l d).
Proof. intros. rewrite nth_indep with (d' := f d) by now rewrite map_length. apply map_nth. Qed.

Lemma batchify_single_map : forall (X Y : Type) (f : X -> Y) k (x : list X),
  map f (batchify_single k x) = batchify_single k (map f x).
Proof. intros. apply concat_repeat_map. Qed.

Lemma batchify_map : forall (X Y : Type) (f : X -> Y) shape (x : list X),
  map f (batchify shape x) = batchify shape (map f x).
Proof. intros. rewrite !batchify_is_single. apply batchify_single_map. Qed.

(* ------------------------------------------------------------------------------------------------ *)
(** * Examples (non-vacuity) *)

Example ex_batchify : batchify [2%Z; 0%Z; 3%Z] [10; 11] = [10; 11; 10; 11; 10; 11; 10; 11; 10; 11; 10; 11].
Proof. reflexivity. Qed.
Example ex_unb1 : unbatchify_single 3 [0; 1; 2; 3; 4; 5] = Some [[0; 2; 4]; [1; 3; 5]].
Proof. reflexivity. Qed.
Example ex_unb1_raises : unbatchify_single 4 [0; 1; 2; 3; 4; 5] = None.
Proof. reflexivity. Qed.
Example ex_regroup : regroup 3 [[0; 2; 4]; [1; 3; 5]] = [0; 1; 2; 3; 4; 5].
Proof. reflexivity. Qed.
