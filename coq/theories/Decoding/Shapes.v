(* C14, part A: a tensor SHAPE calculus and the shape programs of rl4co's environment embeddings.

   Why shapes: the only logic inside the neural modules that can make an instance's result depend on the
   batch it sits in is (i) rank shortcuts -- [.squeeze()] with no dimension drops EVERY size-1 axis, so a
   batch of one instance loses its batch axis --, (ii) accidental broadcasting ([B,1,H] + [B,H] is a BxB
   matrix) and (iii) batch-global tests such as the first-step test of TSPContext.  None of these can be
   stated in a one-row model; all of them are statements about shapes for every batch size B.

   A shape is a list of sizes; an operation returns [None] where torch raises.  The programs below follow
     rl4co/utils/ops.py::gather_by_index
     rl4co/models/nn/env_embeddings/context.py   (every class)
     rl4co/models/nn/env_embeddings/dynamic.py   (every class)
     rl4co/models/nn/env_embeddings/init.py      (every class)
     rl4co/models/zoo/am/decoder.py::_compute_q / _compute_kvl / _precompute_cache
   line by line; the TensorDict of an environment is a table key -> shape ([layout]), given per environment
   as a function of the batch size B, the number of starts S (0 = flat batch) and the instance sizes.  The
   correspondence check (Harness/HC14.v, vt/props/c14.py) compares, on every run, (a) the layout table with
   the TensorDicts of the real environments and (b) the output shape / "raises" of every real embedding
   module with the program evaluated here, for B in {1,2,3}. *)
From Coq Require Import String.
From Coq Require Import List Arith Bool Lia.
Import ListNotations.
Open Scope string_scope.
Open Scope list_scope.
Open Scope nat_scope.

Definition shape := list nat.

Notation "x <- e ;; f" := (match e with Some x => f | None => None end)
  (at level 61, e at next level, right associativity).

Definition numel (s : shape) : nat := fold_right Nat.mul 1 s.

(* ------------------------------------------------------------------------------------------------ *)
(** * Axes: [Fr k] = python dim k >= 0, [Bk k] = python dim -(k+1) *)
Inductive axis := Fr (k : nat) | Bk (k : nat).

(* an existing axis of a rank-r tensor *)
Definition ax_idx (a : axis) (r : nat) : option nat :=
  match a with
  | Fr k => if k <? r then Some k else None
  | Bk k => if k <? r then Some (r - 1 - k) else None
  end.
(* a position for a NEW axis (unsqueeze / stack): r+1 positions *)
Definition ax_ins (a : axis) (r : nat) : option nat :=
  match a with
  | Fr k => if k <=? r then Some k else None
  | Bk k => if k <=? r then Some (r - k) else None
  end.

Fixpoint remove_at (k : nat) (s : shape) : shape :=
  match s, k with
  | [], _ => []
  | _ :: t, 0 => t
  | x :: t, S k' => x :: remove_at k' t
  end.
Fixpoint insert_at (k : nat) (v : nat) (s : shape) : shape :=
  match k, s with
  | 0, _ => v :: s
  | S k', x :: t => x :: insert_at k' v t
  | S _, [] => [v]
  end.
Fixpoint set_at (k : nat) (v : nat) (s : shape) : shape :=
  match s, k with
  | [], _ => []
  | _ :: t, 0 => v :: t
  | x :: t, S k' => x :: set_at k' v t
  end.

(* ------------------------------------------------------------------------------------------------ *)
(** * Operations *)

(* torch broadcasting of a binary operation, aligned from the right *)
Fixpoint bcast_rev (a b : list nat) : option (list nat) :=
  match a, b with
  | [], _ => Some b
  | _, [] => Some a
  | x :: a', y :: b' =>
      r <- bcast_rev a' b' ;;
      if x =? y then Some (x :: r)
      else if x =? 1 then Some (y :: r)
      else if y =? 1 then Some (x :: r) else None
  end.
Definition bcast (a b : shape) : option shape :=
  r <- bcast_rev (rev a) (rev b) ;; Some (rev r).

(* x.squeeze(): EVERY axis of size 1 disappears *)
Definition squeeze_all (s : shape) : shape := filter (fun d => negb (d =? 1)) s.
(* x.squeeze(dim): the axis disappears only if its size is 1 *)
Definition squeeze (a : axis) (s : shape) : option shape :=
  k <- ax_idx a (length s) ;;
  Some (if nth k s 0 =? 1 then remove_at k s else s).
(* x.unsqueeze(dim), x[..., None], x[:, None] *)
Definition unsqueeze (a : axis) (s : shape) : option shape :=
  k <- ax_ins a (length s) ;; Some (insert_at k 1 s).
(* x[..., 0], x[..., 0, :]: integer index on an axis (its size must be >= 1) *)
Definition select (a : axis) (s : shape) : option shape :=
  k <- ax_idx a (length s) ;;
  if 1 <=? nth k s 0 then Some (remove_at k s) else None.
(* x[..., lo:] and x[..., :hi] (python slices clip, they never raise) *)
Definition slice_from (a : axis) (lo : nat) (s : shape) : option shape :=
  k <- ax_idx a (length s) ;; Some (set_at k (nth k s 0 - lo) s).
Definition slice_to (a : axis) (hi : nat) (s : shape) : option shape :=
  k <- ax_idx a (length s) ;;
  Some (set_at k (if hi <=? nth k s 0 then hi else nth k s 0) s).
(* reductions over one axis: norm(dim=-1), mean(1), sum(1), min(dim=1) *)
Definition reduce (a : axis) (s : shape) : option shape :=
  k <- ax_idx a (length s) ;; Some (remove_at k s).
Definition transpose (a b : axis) (s : shape) : option shape :=
  i <- ax_idx a (length s) ;; j <- ax_idx b (length s) ;;
  Some (set_at i (nth j s 0) (set_at j (nth i s 0) s)).

(* nn.Linear(fin, fout) acts on the last axis *)
Definition linear (fin fout : nat) (s : shape) : option shape :=
  match rev s with
  | [] => None
  | l :: r => if l =? fin then Some (rev (fout :: r)) else None
  end.

Fixpoint eq_shape (a b : shape) : bool :=
  match a, b with
  | [], [] => true
  | x :: a', y :: b' => (x =? y) && eq_shape a' b'
  | _, _ => false
  end.
(* all sizes equal except at position k *)
Fixpoint eq_except (k : nat) (a b : shape) : bool :=
  match a, b with
  | [], [] => true
  | x :: a', y :: b' =>
      match k with 0 => eq_shape a' b' | S k' => (x =? y) && eq_except k' a' b' end
  | _, _ => false
  end.

(* torch.cat(xs, dim): same rank ("Tensors must have same number of dimensions"), same sizes off the axis *)
Fixpoint cat_at (k : nat) (acc : shape) (ss : list shape) : option shape :=
  match ss with
  | [] => Some acc
  | s :: r => if eq_except k acc s then cat_at k (set_at k (nth k acc 0 + nth k s 0) acc) r else None
  end.
Definition cat (a : axis) (ss : list shape) : option shape :=
  match ss with
  | [] => None
  | s :: r => k <- ax_idx a (length s) ;; cat_at k s r
  end.
(* torch.stack(xs, dim): all shapes equal, new axis of size len(xs) *)
Definition stack (a : axis) (ss : list shape) : option shape :=
  match ss with
  | [] => None
  | s :: r => if forallb (eq_shape s) r
              then k <- ax_ins a (length s) ;; Some (insert_at k (length ss) s) else None
  end.

(* x.expand(tgt): aligned from the right; a source size must be 1 or equal to the target *)
Fixpoint expand_rev (s tgt : list nat) : bool :=
  match s, tgt with
  | [], _ => true
  | _ :: _, [] => false
  | x :: s', y :: t' => ((x =? y) || (x =? 1)) && expand_rev s' t'
  end.
Definition expand (s tgt : shape) : option shape :=
  if expand_rev (rev s) (rev tgt) then Some tgt else None.

(* x.view(tgt) with at most one -1 ([None]) *)
Definition vknown (tgt : list (option nat)) : nat :=
  fold_right (fun o acc => match o with Some k => k * acc | None => acc end) 1 tgt.
Definition vholes (tgt : list (option nat)) : nat :=
  length (filter (fun o => match o with None => true | Some _ => false end) tgt).
Definition vfill (tgt : list (option nat)) (v : nat) : shape :=
  map (fun o => match o with Some k => k | None => v end) tgt.
Definition view (s : shape) (tgt : list (option nat)) : option shape :=
  let n := numel s in let kn := vknown tgt in
  match vholes tgt with
  | 0 => if n =? kn then Some (vfill tgt 0) else None
  | 1 => if kn =? 0 then None else if n mod kn =? 0 then Some (vfill tgt (n / kn)) else None
  | _ => None
  end.

(* rl4co/utils/ops.py
     def gather_by_index(src, idx, dim=1, squeeze=True):
         expanded_shape = list(src.shape); expanded_shape[dim] = -1
         idx = idx.view(idx.shape + (1,) * (src.dim() - idx.dim())).expand(expanded_shape)
         squeeze = idx.size(dim) == 1 and squeeze
         return src.gather(dim, idx).squeeze(dim) if squeeze else src.gather(dim, idx)
   view pads idx with trailing 1s up to src's rank (nothing if idx has more axes: expand then raises);
   expand keeps idx's own size at [dim] (-1) and needs size 1 or src's size elsewhere; gather returns idx's
   shape. *)
Fixpoint gbi_expand_rest (src idx : shape) : option shape :=
  match src, idx with
  | [], [] => Some []
  | x :: src', y :: idx' => if (y =? 1) || (y =? x) then (r <- gbi_expand_rest src' idx' ;; Some (x :: r)) else None
  | _, _ => None
  end.
Fixpoint gbi_expand (k : nat) (src idx : shape) : option shape :=
  match src, idx with
  | [], [] => Some []
  | x :: src', y :: idx' =>
      match k with
      | 0 => r <- gbi_expand_rest src' idx' ;; Some (y :: r)
      | S k' => if (y =? 1) || (y =? x) then (r <- gbi_expand k' src' idx' ;; Some (x :: r)) else None
      end
  | _, _ => None
  end.
Definition gather_by_index (src idx : shape) (dim : nat) (sq : bool) : option shape :=
  if length src <=? dim then None else
  let idx1 := idx ++ repeat 1 (length src - length idx) in
  g <- gbi_expand dim src idx1 ;;
  Some (if (nth dim g 0 =? 1) && sq then remove_at dim g else g).

(* torch.gather(src, dim, idx): same rank, idx no larger than src off the axis; result has idx's shape *)
Fixpoint le_except_rest (idx src : shape) : bool :=
  match idx, src with
  | [], [] => true
  | y :: i', x :: s' => (y <=? x) && le_except_rest i' s'
  | _, _ => false
  end.
Fixpoint le_except (k : nat) (idx src : shape) : bool :=
  match idx, src with
  | [], [] => true
  | y :: i', x :: s' =>
      match k with 0 => le_except_rest i' s' | S k' => (y <=? x) && le_except k' i' s' end
  | _, _ => false
  end.
Definition tgather (src : shape) (dim : nat) (idx : shape) : option shape :=
  if le_except dim idx src then Some idx else None.

(* param[idx] for a 2-d parameter [cnt, H] and an integer index tensor *)
Definition index_rows (param idx : shape) : option shape :=
  match param with _ :: rest => Some (idx ++ rest) | [] => None end.
(* x.chunk(3, dim=-1) unpacked into three names: the last axis is split in three equal parts *)
Definition chunk3 (s : shape) : option shape :=
  match rev s with
  | [] => None
  | l :: r => if (l mod 3 =? 0) && (1 <=? l) then Some (rev (l / 3 :: r)) else None
  end.
(* x[m] = v for a boolean mask m: the mask's shape must be a prefix of x's shape *)
Fixpoint is_prefix (m x : shape) : bool :=
  match m, x with
  | [], _ => true
  | a :: m', b :: x' => (a =? b) && is_prefix m' x'
  | _ :: _, [] => false
  end.
Definition mask_assign (x m : shape) : option shape := if is_prefix m x then Some x else None.
(* torch.einsum("ijkl,ikm->ijlm", a, b) *)
Definition einsum_ijkl_ikm (a b : shape) : option shape :=
  match a, b with
  | [i; j; k; l], [i'; k'; m] => if (i =? i') && (k =? k') then Some [i; j; l; m] else None
  | _, _ => None
  end.
(* torch.cdist(x, y) on [B,n,d], [B,m,d] *)
Definition cdist (a b : shape) : option shape :=
  match a, b with
  | [i; n; d], [i'; m; d'] => if (i =? i') && (d =? d') then Some [i; n; m] else None
  | _, _ => None
  end.

(* a - b, a + b ... on optional operands; python numbers have shape [] *)
Definition bop (a b : option shape) : option shape := x <- a ;; y <- b ;; bcast x y.

(* ------------------------------------------------------------------------------------------------ *)
(** * TensorDicts as key -> shape tables *)
Definition layout := list (string * shape).
Fixpoint get (td : layout) (k : string) : option shape :=
  match td with
  | [] => None                                    (* KeyError *)
  | (k', s) :: r => if String.eqb k k' then Some s else get r k
  end.

(* ------------------------------------------------------------------------------------------------ *)
(** * context.py *)

(* EnvContext._cur_node_embedding *)
Definition cur_node_embedding (emb : shape) (td : layout) (key : string) : option shape :=
  idx <- get td key ;; gather_by_index emb idx 1 true.

(* EnvContext.forward: cat([cur_node_embedding, state_embedding], -1) then project_context *)
Definition env_context_forward (H ctx_dim : nat) (cur state : option shape) : option shape :=
  c <- cur ;; s <- state ;; x <- cat (Bk 0) [c; s] ;; linear ctx_dim H x.

Inductive ctx_class :=
  | CEnvContext | CFFSPContext | CTSPContext | CVRPContext | CVRPTWContext | CSVRPContext | CPCTSPContext
  | COPContext | CDPPContext | CPDPContext | CMTSPContext | CSMTWTPContext | CMDCPDPContext
  | CSchedulingContext | CMTVRPContext.

(* TSPContext.forward.  [bs] = td.batch_size, [first] = the outcome of the batch-global first-step test. *)
Definition tsp_context (H : nat) (emb bs : shape) (td : layout) (first : bool) : option shape :=
  let batch_size := hd 0 emb in
  fn <- get td "first_node" ;; cn <- get td "current_node" ;;
  let node_dim := match fn with [_] => [None] | _ => [Some (last fn 0); None] end in
  ce <- (if first then
           (if length bs <? 2 then expand [1; 2 * H] [batch_size; 2 * H]
            else expand [1; 1; 2 * H] [batch_size; nth 1 bs 0; 2 * H])
         else
           (st <- stack (Bk 0) [fn; cn] ;;
            ix <- view st [Some batch_size; None] ;;
            g <- gather_by_index emb ix 1 true ;;
            view g (Some batch_size :: node_dim))) ;;
  linear (2 * H) H ce.

Definition vrp_state (td : layout) : option shape := bop (get td "vehicle_capacity") (get td "used_capacity").

(* MTSPContext._cur_node_embedding = gather_by_index(embeddings, td["current_node"])
   (until /repo commit 81bfd82 it ended in a bare .squeeze(), which lost the batch axis at B = 1: recorded as fixed in
   known_findings.json, signature "am/mtsp: crash-at-batch-size-1") *)
Definition mtsp_cur (emb : shape) (td : layout) : option shape :=
  cur_node_embedding emb td "current_node".
Definition mtsp_state (H : nat) (td : layout) : option shape :=
  a <- bop (get td "num_agents") (get td "agent_idx") ;;
  b <- get td "current_length" ;; c <- get td "max_subtour_length" ;;
  locs <- get td "locs" ;; cn <- get td "current_node" ;;
  cur_loc <- gather_by_index locs cn 1 true ;;
  l0 <- select (Bk 1) locs ;;
  df <- bcast cur_loc l0 ;; d <- reduce (Bk 0) df ;;
  f <- stack (Bk 0) [a; b; c; d] ;; linear 4 H f.

(* SVRPContext / PDPContext / MDCPDPContext.forward: project_context(cur_node_embedding(...))
   (the bare .squeeze() in between was removed by /repo commit 81bfd82: fixed findings "am-no-graph-context/{pdp,svrp,mdcpdp}:
   crash-at-batch-size-1") *)
Definition cur_only_context (H : nat) (emb : shape) (td : layout) : option shape :=
  c <- cur_node_embedding emb td "current_node" ;; linear H H c.

Definition ctx_forward (c : ctx_class) (H : nat) (emb bs : shape) (td : layout) (first : bool) : option shape :=
  match c with
  | CEnvContext => None                              (* _state_embedding raises NotImplementedError *)
  | CFFSPContext =>                                  (* stage_cnt=None as constructed by the MatNet decoder *)
      idx <- get td "stage_machine_idx" ;; c <- gather_by_index emb idx 1 true ;; linear H H c
  | CTSPContext => tsp_context H emb bs td first
  | CVRPContext =>
      env_context_forward H (H + 1) (cur_node_embedding emb td "current_node") (vrp_state td)
  | CVRPTWContext =>
      env_context_forward H (H + 2) (cur_node_embedding emb td "current_node")
        (cap <- vrp_state td ;; t <- get td "current_time" ;; cat (Bk 0) [cap; t])
  | CSVRPContext | CPDPContext | CMDCPDPContext => cur_only_context H emb td
  | CPCTSPContext =>
      env_context_forward H (H + 1) (cur_node_embedding emb td "current_node")
        (d <- bop (get td "prize_required") (get td "cur_total_prize") ;; unsqueeze (Bk 0) d)
  | COPContext =>
      env_context_forward H (H + 1) (cur_node_embedding emb td "current_node")
        (ml <- get td "max_length" ;; m0 <- select (Bk 0) ml ;; tl <- get td "tour_length" ;;
         d <- bcast m0 tl ;; unsqueeze (Bk 0) d)
  | CDPPContext => Some [hd 0 emb; H]                (* embeddings.new_zeros(embeddings.size(0), embed_dim) *)
  | CMTSPContext => env_context_forward H (2 * H) (mtsp_cur emb td) (mtsp_state H td)
  | CSMTWTPContext =>
      env_context_forward H (H + 1) (cur_node_embedding emb td "current_job") (get td "current_time")
  | CSchedulingContext =>                            (* forward(h, td): h + proj_busy(busy_for.unsqueeze(-1)) *)
      t <- get td "time" ;; t1 <- unsqueeze (Fr 1) t ;; bf <- bop (get td "busy_until") (Some t1) ;;
      b1 <- unsqueeze (Bk 0) bf ;; p <- linear 1 H b1 ;; bcast emb p
  | CMTVRPContext =>
      env_context_forward H (H + 5) (cur_node_embedding emb td "current_node")
        (a <- bop (get td "vehicle_capacity") (get td "used_capacity_linehaul") ;;
         b <- bop (get td "vehicle_capacity") (get td "used_capacity_backhaul") ;;
         t <- get td "current_time" ;; l <- get td "current_route_length" ;; o <- get td "open_route" ;;
         cat (Bk 0) [a; b; t; l; o])
  end.

(* ------------------------------------------------------------------------------------------------ *)
(** * am/decoder.py: _precompute_cache, _compute_q, _compute_kvl (shape level) *)

(* graph_context = project_fixed_context(embeddings.mean(1)) : [B,H]   (or the number 0: shape []) *)
Definition graph_context (H : nat) (emb : shape) (use_graph_context : bool) : option shape :=
  if use_graph_context then (m <- reduce (Fr 1) emb ;; linear H H m) else Some [].

(* _compute_q: if td.dim() == 2 and graph_context is a tensor: unsqueeze(1);
   glimpse_q = step_context + graph_context;  if glimpse_q.ndim == 2: glimpse_q.unsqueeze(1) *)
Definition compute_q (step_context : option shape) (gc : option shape) (bs : shape) (gc_is_tensor : bool) : option shape :=
  sc <- step_context ;; g <- gc ;;
  g' <- (if (length bs =? 2) && gc_is_tensor then unsqueeze (Fr 1) g else Some g) ;;
  q <- bcast sc g' ;;
  if length q =? 2 then unsqueeze (Fr 1) q else Some q.

(* ------------------------------------------------------------------------------------------------ *)
(** * dynamic.py *)
Inductive dyn_class := DStatic | DSDVRP | DJSSP.

(* the three outputs have the same shape; python's 0 has shape [] *)
Definition dyn_forward (c : dyn_class) (H : nat) (ma_emb : shape) (td : layout) : option (list shape) :=
  match c with
  | DStatic => Some [[]; []; []]
  | DSDVRP =>
      d <- get td "demand_with_depot" ;; d1 <- unsqueeze (Bk 0) d ;;
      _ <- select (Bk 1) d1 ;;                          (* demands_with_depot[..., 0, :] = 0 *)
      p <- linear 1 (3 * H) d1 ;; o <- chunk3 p ;; Some [o; o; o]
  | DJSSP =>
      match ma_emb with
      | [bs; _; E] =>
          nop <- get td "next_op" ;;
          let num_jobs := nth 1 nop 0 in
          if length nop <? 2 then None else
          let updates := [bs; num_jobs; 3 * E] in
          t <- get td "time" ;; t1 <- unsqueeze (Fr 1) t ;;
          lbs <- bop (get td "lbs") (Some t1) ;;
          rdy <- get td "is_ready" ;;
          uf <- stack (Bk 0) [lbs; rdy] ;;
          jf <- gather_by_index uf nop 1 true ;;
          pn <- linear 2 (3 * H) jf ;;
          u1 <- bcast updates pn ;;
          busy <- bop (get td "busy_until") (Some t1) ;;
          pt <- get td "proc_times" ;;
          pt' <- mask_assign pt busy ;;
          pe <- unsqueeze (Bk 0) pt' ;; pe' <- linear 1 3 pe ;; ef <- transpose (Fr 1) (Fr 2) pe' ;;
          je <- gather_by_index ef nop 1 true ;;
          es <- einsum_ijkl_ikm je ma_emb ;;
          eu <- view es [Some bs; Some num_jobs; Some (3 * E)] ;;
          u2 <- bcast u1 eu ;;
          o <- chunk3 u2 ;; Some [o; o; o]
      | _ => None
      end
  end.

(* ------------------------------------------------------------------------------------------------ *)
(** * init.py *)
Inductive init_class :=
  | ITSP | IMatNet | IVRP | IVRPTW | ISVRP | IPCTSP | IOP | IDPP | IMDPP | IPDP | IMTSP | ISMTWTP | IMDCPDP
  | IJSSP | IFJSP | IFJSPMatNet | IMTVRP.

(* depot, cities = td["locs"][:, :1, :], td["locs"][:, 1:, :];  out = cat((Linear(2,H)(depot), Linear(nd,H)(cat(cities, feats..., -1))), -2) *)
Definition depot_cities_init (H node_dim : nat) (locs : shape) (feats : list (option shape)) : option shape :=
  if length locs <? 3 then None else                      (* three indices: "too many indices" below rank 3 *)
  depot <- slice_to (Fr 1) 1 locs ;; cities <- slice_from (Fr 1) 1 locs ;;
  de <- linear 2 H depot ;;
  fs <- fold_right (fun o acc => a <- acc ;; x <- o ;; Some (x :: a)) (Some []) feats ;;
  nf <- cat (Bk 0) (cities :: fs) ;;
  ne <- linear node_dim H nf ;;
  cat (Bk 1) [de; ne].

(* PDPInitEmbedding / MDCPDPInitEmbedding with [nd] depots *)
Definition pdp_init (H nd : nat) (locs0 : shape) : option shape :=
  depot <- slice_to (Bk 1) nd locs0 ;; locs <- slice_from (Bk 1) nd locs0 ;;
  let num_locs := nth (length locs - 2) locs 0 in
  if length locs =? 3 then
    p1 <- slice_to (Fr 1) (num_locs / 2) locs ;; p2 <- slice_from (Fr 1) (num_locs / 2) locs ;;
    pick <- cat (Bk 0) [p1; p2] ;;
    de <- linear 2 H depot ;; pe <- linear 4 H pick ;; dl <- linear 2 H p2 ;;
    cat (Bk 1) [de; pe; dl]
  else None.

(* JSSPInitEmbedding._init_ops_embed *)
Definition jssp_ops_embed (H : nat) (td : layout) : option shape :=
  pt <- get td "proc_times" ;;
  s1 <- reduce (Fr 1) pt ;;                               (* proc_times.sum(1), proc_times.gt(0).sum(1) *)
  rdy <- get td "is_ready" ;; ne <- get td "num_eligible" ;; jm <- get td "ops_job_map" ;; sch <- get td "op_scheduled" ;;
  f <- stack (Bk 0) [s1; rdy; ne; jm; sch] ;;
  e <- linear 5 H f ;;
  (* pos_encoder: pe [1,1000,H].expand(B,-1,-1).gather(1, seq_pos.unsqueeze(-1).expand(-1,-1,H)); hidden + pes *)
  sp <- get td "ops_sequence_order" ;;
  if negb (length sp =? 2) then None else
  sp1 <- unsqueeze (Bk 0) sp ;; spx <- expand sp1 [nth 0 sp 0; nth 1 sp 0; H] ;;
  pes <- tgather [hd 0 e; 1000; H] 1 spx ;;
  e' <- bcast e pes ;;
  pm <- get td "pad_mask" ;; pm1 <- unsqueeze (Bk 0) pm ;; _ <- expand pm1 e' ;;
  Some e'.
Definition machine_embed (H : nat) (td : layout) : option shape :=
  t <- get td "time" ;; t1 <- unsqueeze (Fr 1) t ;; bf <- bop (get td "busy_until") (Some t1) ;;
  b2 <- unsqueeze (Fr 2) bf ;; linear 1 H b2.

Definition init_forward (c : init_class) (H : nat) (td : layout) : option (list shape) :=
  match c with
  | ITSP => l <- get td "locs" ;; o <- linear 2 H l ;; Some [o]
  | IMatNet =>
      d <- get td "cost_matrix" ;;
      match d with
      | [b; r; c] => if c <=? H then Some [[b; r; H]; [b; c; H]; d] else None    (* col_emb[b, n, rand_idx] = 1: index c-1 < H *)
      | _ => None
      end
  | IVRP =>
      l <- get td "locs" ;;
      o <- depot_cities_init H 3 l [d <- get td "demand" ;; unsqueeze (Bk 0) d] ;; Some [o]
  | IVRPTW =>
      l <- get td "locs" ;;
      o <- depot_cities_init H 6 l
             [d <- get td "demand" ;; unsqueeze (Bk 0) d;
              tw <- get td "time_windows" ;; slice_from (Bk 1) 1 tw;
              du <- get td "durations" ;; d1 <- slice_from (Bk 0) 1 du ;; unsqueeze (Bk 0) d1] ;; Some [o]
  | ISVRP => l <- get td "locs" ;; o <- depot_cities_init H 3 l [get td "skills"] ;; Some [o]
  | IPCTSP =>
      l <- get td "locs" ;;
      o <- depot_cities_init H 4 l
             [p <- get td "expected_prize" ;; unsqueeze (Bk 0) p;
              q <- get td "penalty" ;; q1 <- slice_from (Bk 0) 1 q ;; unsqueeze (Bk 0) q1] ;; Some [o]
  | IOP =>
      l <- get td "locs" ;;
      o <- depot_cities_init H 3 l [p <- get td "prize" ;; p1 <- slice_from (Bk 0) 1 p ;; unsqueeze (Bk 0) p1] ;; Some [o]
  | IDPP =>
      l <- get td "locs" ;; pr <- get td "probe" ;;
      ne <- linear 2 (H / 2) l ;;
      p1 <- unsqueeze (Bk 0) pr ;;
      if negb (length p1 =? 3) then None else       (* .expand(-1, -1, 2) *)
      px <- expand p1 [nth 0 p1 0; nth 1 p1 0; 2] ;;
      pl <- tgather l 1 px ;;
      df <- bcast l pl ;; nm <- reduce (Bk 0) df ;; d1 <- unsqueeze (Bk 0) nm ;;
      pe <- linear 1 (H / 2) d1 ;;
      o <- cat (Bk 0) [ne; pe] ;; Some [o]
  | IMDPP =>
      l <- get td "locs" ;; pr <- get td "probe" ;;
      ne <- linear 2 H l ;;
      dist <- cdist l l ;; dist' <- mask_assign dist pr ;;
      md <- reduce (Fr 1) dist' ;; m1 <- unsqueeze (Bk 0) md ;;
      me <- linear 1 H m1 ;;
      x <- cat (Bk 0) [ne; me] ;; o <- linear (H * 2) H x ;; Some [o]
  | IPDP => l <- get td "locs" ;; o <- pdp_init H 1 l ;; Some [o]
  | IMTSP =>
      l <- get td "locs" ;; d <- slice_to (Bk 1) 1 l ;; c <- slice_from (Bk 1) 1 l ;;
      de <- linear 2 H d ;; ce <- linear 2 H c ;; o <- cat (Bk 1) [de; ce] ;; Some [o]
  | ISMTWTP =>
      a <- get td "job_due_time" ;; b <- get td "job_weight" ;; c <- get td "job_process_time" ;;
      f <- stack (Bk 0) [a; b; c] ;; o <- linear 3 H f ;; Some [o]
  | IMDCPDP =>
      cap <- get td "capacity" ;; l <- get td "locs" ;; o <- pdp_init H (last cap 0) l ;; Some [o]
  | IJSSP => o <- jssp_ops_embed H td ;; Some [o]
  | IFJSP =>
      ops <- jssp_ops_embed H td ;; ma <- machine_embed H td ;;
      pt <- get td "proc_times" ;; ptt <- transpose (Fr 1) (Fr 2) pt ;; p1 <- unsqueeze (Bk 0) ptt ;;
      ee <- linear 1 H p1 ;;
      adj <- get td "ops_ma_adj" ;; edges <- transpose (Fr 1) (Fr 2) adj ;;
      Some [ops; ma; ee; edges]
  | IFJSPMatNet =>
      pt <- get td "proc_times" ;;
      ops <- jssp_ops_embed H td ;; ma <- machine_embed H td ;;
      w <- transpose (Fr 1) (Fr 2) pt ;; Some [ops; ma; w]
  | IMTVRP =>
      l <- get td "locs" ;;
      o <- depot_cities_init H 7 l
             [d <- get td "demand_linehaul" ;; d1 <- slice_from (Bk 0) 1 d ;; unsqueeze (Bk 0) d1;
              d <- get td "demand_backhaul" ;; d1 <- slice_from (Bk 0) 1 d ;; unsqueeze (Bk 0) d1;
              tw <- get td "time_windows" ;; slice_from (Bk 1) 1 tw;
              s <- get td "service_time" ;; s1 <- slice_from (Bk 0) 1 s ;; unsqueeze (Bk 0) s1] ;; Some [o]
  end.

(* ------------------------------------------------------------------------------------------------ *)
(** * Layout tables: the TensorDict of each environment (only the keys the embeddings read)

   [b] = td.batch_size: [B] for a flat batch, [B; S] after unbatchify(td, S) (multistart without dynamic
   embedding).  [stepped] = false right after env.reset, true after at least one env.step (ATSP and SMTWTP
   change the rank of current_node / current_job between the two).  N = generator size parameter
   (num_loc / num_job), so routing problems with a depot have N + 1 nodes; M = second size (machines,
   technicians); O = number of operations. *)
Inductive env_name :=
  | Etsp | Eatsp | Ecvrp | Ecvrptw | Effsp | Esvrp | Esdvrp | Epctsp | Espctsp | Eop | Edpp | Emdpp | Epdp
  | Emtsp | Esmtwtp | Emdcpdp | Emtvrp | Ejssp | Efjsp.

Record dims := { dB : nat; dS : nat; dN : nat; dM : nat; dO : nat }.
Definition bsz (d : dims) : shape := if dS d =? 0 then [dB d] else [dB d; dS d].

(* number of nodes = size of the action axis / of the node embeddings *)
Definition nodes (e : env_name) (d : dims) : nat :=
  match e with
  | Etsp | Eatsp | Emtsp | Edpp | Emdpp => dN d
  | Emdcpdp => dN d + dM d                (* M depots, N = 2 * pairs *)
  | Effsp => dM d                          (* machine embeddings of the current stage *)
  | Ejssp | Efjsp => dO d
  | _ => dN d + 1
  end.

Definition env_layout (e : env_name) (stepped : bool) (d : dims) : layout :=
  let b := bsz d in let B0 := b in let N := dN d in   (* unbatchify(td, S) reshapes EVERY key to [B, S, ...] *)
  match e with
  | Etsp => [("locs", B0 ++ [N; 2]); ("first_node", b); ("current_node", b); ("i", b ++ [1])]
  | Eatsp => [("cost_matrix", B0 ++ [N; N]); ("first_node", if stepped then b else b ++ [1]);
              ("current_node", if stepped then b else b ++ [1]); ("i", b ++ [1])]
  | Ecvrp => [("locs", B0 ++ [N + 1; 2]); ("demand", B0 ++ [N]); ("current_node", b ++ [1]);
              ("used_capacity", b ++ [1]); ("vehicle_capacity", b ++ [1])]
  | Esdvrp => [("locs", B0 ++ [N + 1; 2]); ("demand", B0 ++ [N]); ("current_node", b ++ [1]);
               ("used_capacity", b ++ [1]); ("vehicle_capacity", b ++ [1]); ("demand_with_depot", b ++ [N + 1])]
  | Ecvrptw => [("locs", B0 ++ [N + 1; 2]); ("demand", B0 ++ [N]); ("current_node", b ++ [1]);
                ("used_capacity", b ++ [1]); ("vehicle_capacity", b ++ [1]); ("current_time", b ++ [1]);
                ("durations", B0 ++ [N + 1]); ("time_windows", B0 ++ [N + 1; 2])]
  | Esvrp => [("locs", B0 ++ [N + 1; 2]); ("skills", B0 ++ [N; 1]); ("current_node", b ++ [1])]
  | Epctsp | Espctsp =>
      [("locs", B0 ++ [N + 1; 2]); ("expected_prize", B0 ++ [N]); ("penalty", B0 ++ [N + 1]);
       ("current_node", b); ("prize_required", b); ("cur_total_prize", b)]
  | Eop => [("locs", B0 ++ [N + 1; 2]); ("prize", B0 ++ [N + 1]); ("max_length", b ++ [N + 1]);
            ("tour_length", b); ("current_node", b ++ [1])]
  | Edpp => [("locs", B0 ++ [N; 2]); ("probe", B0 ++ [1])]
  | Emdpp => [("locs", B0 ++ [N; 2]); ("probe", B0 ++ [N])]
  | Epdp => [("locs", B0 ++ [N + 1; 2]); ("current_node", b ++ [1])]
  | Emtsp => [("locs", b ++ [N; 2]); ("num_agents", b); ("agent_idx", b); ("current_length", b);
              ("max_subtour_length", b); ("current_node", b); ("first_node", b); ("i", b)]
  | Esmtwtp => [("job_due_time", B0 ++ [N + 1]); ("job_weight", B0 ++ [N + 1]); ("job_process_time", B0 ++ [N + 1]);
                ("current_job", if stepped then b else b ++ [1]); ("current_time", b ++ [1])]
  | Emdcpdp => [("locs", B0 ++ [N + dM d; 2]); ("capacity", B0 ++ [1]); ("current_node", b ++ [1])]
  | Emtvrp => [("locs", B0 ++ [N + 1; 2]); ("demand_linehaul", B0 ++ [N + 1]); ("demand_backhaul", B0 ++ [N + 1]);
               ("time_windows", B0 ++ [N + 1; 2]); ("service_time", B0 ++ [N + 1]);
               ("current_node", b); ("vehicle_capacity", b ++ [1]);
               ("used_capacity_linehaul", b ++ [1]); ("used_capacity_backhaul", b ++ [1]);
               ("current_time", b ++ [1]); ("current_route_length", b ++ [1]); ("open_route", b ++ [1])]
  | Effsp => [("stage_machine_idx", b); ("stage_idx", b)]
  | Ejssp | Efjsp =>
      [("proc_times", B0 ++ [dM d; dO d]); ("is_ready", B0 ++ [dO d]); ("num_eligible", B0 ++ [dO d]);
       ("ops_job_map", B0 ++ [dO d]); ("op_scheduled", B0 ++ [dO d]); ("ops_sequence_order", B0 ++ [dO d]);
       ("pad_mask", B0 ++ [dO d]); ("busy_until", B0 ++ [dM d]); ("time", B0); ("lbs", B0 ++ [dO d]);
       ("next_op", B0 ++ [N]); ("ops_ma_adj", B0 ++ [dM d; dO d])]
  end.

(* the registries of context.py / dynamic.py / init.py, as coded *)
Definition ctx_registry (e : env_name) : option ctx_class :=
  match e with
  | Etsp | Eatsp => Some CTSPContext | Ecvrp | Esdvrp => Some CVRPContext | Ecvrptw => Some CVRPTWContext
  | Effsp => Some CFFSPContext | Esvrp => Some CSVRPContext | Epctsp | Espctsp => Some CPCTSPContext
  | Eop => Some COPContext | Edpp | Emdpp => Some CDPPContext | Epdp => Some CPDPContext
  | Emtsp => Some CMTSPContext | Esmtwtp => Some CSMTWTPContext | Emdcpdp => Some CMDCPDPContext
  | Emtvrp => Some CMTVRPContext | Ejssp | Efjsp => None
  end.
Definition dyn_registry (e : env_name) : dyn_class :=
  match e with Esdvrp => DSDVRP | Ejssp | Efjsp => DJSSP | _ => DStatic end.
Definition init_registry (e : env_name) : option init_class :=
  match e with
  | Etsp | Eatsp => Some ITSP | Ecvrp | Esdvrp => Some IVRP | Ecvrptw => Some IVRPTW | Esvrp => Some ISVRP
  | Epctsp | Espctsp => Some IPCTSP | Eop => Some IOP | Edpp => Some IDPP | Emdpp => Some IMDPP
  | Epdp => Some IPDP | Emtsp => Some IMTSP | Esmtwtp => Some ISMTWTP | Emdcpdp => Some IMDCPDP
  | Efjsp | Ejssp => Some IFJSP | Emtvrp => Some IMTVRP | Effsp => None
  end.

(* the node embeddings handed to a context: [B, nodes, H] *)
Definition emb_shape (e : env_name) (d : dims) (H : nat) : shape := [dB d; nodes e d; H].

(* context output of environment e (through the registry) on its own layout *)
Definition ctx_out (e : env_name) (stepped first : bool) (d : dims) (H : nat) : option shape :=
  c <- ctx_registry e ;; ctx_forward c H (emb_shape e d H) (bsz d) (env_layout e stepped d) first.

(* the glimpse query the AM decoder builds from it *)
Definition q_out (e : env_name) (stepped first : bool) (d : dims) (H : nat) (use_gc : bool) : option shape :=
  compute_q (ctx_out e stepped first d H) (graph_context H (emb_shape e d H) use_gc) (bsz d) use_gc.

(* what the decoder needs: [B, 1, H] for a flat batch, [B, S, H] for multistart *)
Definition q_expected (d : dims) (H : nat) : shape := if dS d =? 0 then [dB d; 1; H] else [dB d; dS d; H].
Definition ctx_expected (d : dims) (H : nat) : shape := bsz d ++ [H].

(* ------------------------------------------------------------------------------------------------ *)
(** * The batch-global first-step test of TSPContext

     if td["i"][(0,) * td["i"].dim()].item() < 1:      # "get first item fast"

   reads the step counter of batch row 0 (start 0) and applies the verdict to every row.  On a batch given
   as the list of its rows' counters: *)
Definition first_step_coded (is_ : list nat) : bool := hd 0 is_ <? 1.
Definition first_step_row (i : nat) : bool := i <? 1.

(* all rows share the counter: the verdict for the batch is every row's own verdict *)
Theorem first_step_rowwise_if_shared (is_ : list nat) (c : nat) :
  (forall x, In x is_ -> x = c) -> forall r, r < length is_ ->
  first_step_coded is_ = first_step_row (nth r is_ 0).
Proof.
  intros Hall r Hr. unfold first_step_coded, first_step_row.
  destruct is_ as [|x0 rest]; [cbn in Hr; lia|].
  assert (E : nth r (x0 :: rest) 0 = c) by (apply Hall, nth_In; exact Hr).
  assert (E0 : x0 = c) by (apply Hall; left; reflexivity).
  cbn [hd]. rewrite E, E0. reflexivity.
Qed.

(* TSPEnv/ATSPEnv: reset sets i = 0 in every row, step adds 1 in every row: the counters stay shared *)
Definition i_reset (B : nat) : list nat := repeat 0 B.
Definition i_step (is_ : list nat) : list nat := map S is_.
Fixpoint i_after (B k : nat) : list nat := match k with 0 => i_reset B | S k' => i_step (i_after B k') end.
Lemma i_after_shared B k : forall x, In x (i_after B k) -> x = k.
Proof.
  induction k as [|k IH]; cbn [i_after]; intros x Hx.
  - apply repeat_spec in Hx. exact Hx.
  - unfold i_step in Hx. apply in_map_iff in Hx as (y & <- & Hy). f_equal. apply IH. exact Hy.
Qed.
Lemma i_after_length B k : length (i_after B k) = B.
Proof. induction k; cbn [i_after]; [apply repeat_length | unfold i_step; rewrite map_length; assumption]. Qed.

Theorem first_step_test_rowwise (B k r : nat) :
  r < B -> first_step_coded (i_after B k) = first_step_row (nth r (i_after B k) 0).
Proof.
  intros Hr. apply first_step_rowwise_if_shared with (c := k); [apply i_after_shared | rewrite i_after_length; exact Hr].
Qed.

(* without the invariant the coded test is NOT row-wise: row 1 is past its first step but is treated as first *)
Theorem first_step_coded_not_rowwise_refuted :
  exists is_ r, r < length is_ /\ first_step_coded is_ <> first_step_row (nth r is_ 0).
Proof. exists [0; 1], 1. split; [cbn; lia | vm_compute; discriminate]. Qed.

Example ex_first_step : first_step_coded (i_after 3 0) = true /\ first_step_coded (i_after 3 2) = false.
Proof. split; reflexivity. Qed.

(* ------------------------------------------------------------------------------------------------ *)
(** * Tactics for symbolic sizes *)

Lemma mod3_mul n : (3 * n) mod 3 = 0.
Proof. rewrite Nat.mul_comm. apply Nat.mod_mul. discriminate. Qed.
Lemma div3_mul n : (3 * n) / 3 = n.
Proof. rewrite Nat.mul_comm. apply Nat.div_mul. discriminate. Qed.

Ltac no_if t := lazymatch t with context [if _ then _ else _] => fail | _ => idtac end.
Ltac shape_case :=
  match goal with
  | |- context [Nat.eqb ?a ?b] =>
      no_if a; no_if b;
      let E := fresh "E" in destruct (Nat.eqb a b) eqn:E;
      [apply Nat.eqb_eq in E | apply Nat.eqb_neq in E]; rewrite ?mod3_mul, ?div3_mul in E; try (exfalso; lia)
  | |- context [Nat.leb ?a ?b] =>
      no_if a; no_if b;
      let E := fresh "E" in destruct (Nat.leb a b) eqn:E;
      [apply Nat.leb_le in E | apply Nat.leb_gt in E]; try (exfalso; lia)
  | |- context [Nat.ltb ?a ?b] =>
      no_if a; no_if b;
      let E := fresh "E" in destruct (Nat.ltb a b) eqn:E;
      [apply Nat.ltb_lt in E | apply Nat.ltb_ge in E]; try (exfalso; lia)
  end.
Ltac shape_fin :=
  match goal with
  | |- Some _ = Some _ => f_equal; repeat (f_equal; try lia); try lia
  | |- None = None => reflexivity
  | |- _ => idtac
  end.
(* comparisons compute on literals and stay folded on symbolic sizes *)
#[global] Arguments Nat.eqb !n !m : simpl nomatch.
#[global] Arguments Nat.leb !n !m : simpl nomatch.
#[global] Arguments view : simpl never.
Ltac shape_cbn := cbn -[Nat.div Nat.modulo Nat.mul].
Ltac shape_step :=
  shape_cbn;
  rewrite ?Nat.eqb_refl, ?Nat.leb_refl, ?mod3_mul, ?div3_mul, ?Nat.sub_0_r, ?Nat.add_sub, ?orb_true_r, ?andb_true_r,
          ?orb_false_r, ?andb_false_r;
  shape_cbn.
Ltac shape_unfold :=
  unfold q_out, ctx_out, q_expected, ctx_expected, compute_q, graph_context, ctx_forward, dyn_forward, init_forward,
    env_context_forward, tsp_context, vrp_state, mtsp_cur, mtsp_state, cur_only_context, cur_node_embedding,
    depot_cities_init, pdp_init, jssp_ops_embed, machine_embed, emb_shape, nodes, env_layout, bsz,
    ctx_registry, dyn_registry, init_registry, bop;
  unfold bcast, squeeze_all, squeeze, unsqueeze, select, slice_from, slice_to, reduce, transpose, linear, cat, stack,
    expand, gather_by_index, tgather, index_rows, chunk3, mask_assign, einsum_ijkl_ikm, cdist, ax_idx, ax_ins.
Ltac shape_crush := shape_unfold; repeat (shape_step; try reflexivity; try shape_case); shape_step; shape_fin.

(* ------------------------------------------------------------------------------------------------ *)
(** * gather_by_index: the three uses *)

(* idx [B] or [B,1] on src [B,n,H] -> [B,H]  (the index axis, of size 1, is squeezed) *)
Lemma gbi_flat B n H : gather_by_index [B; n; H] [B] 1 true = Some [B; H].
Proof. unfold gather_by_index. shape_crush. Qed.
Lemma gbi_col B n H : gather_by_index [B; n; H] [B; 1] 1 true = Some [B; H].
Proof. unfold gather_by_index. shape_crush. Qed.
(* idx [B,k], k <> 1 -> [B,k,H] *)
Lemma gbi_multi B n k H : k <> 1 -> gather_by_index [B; n; H] [B; k] 1 true = Some [B; k; H].
Proof. intros. unfold gather_by_index. shape_crush. Qed.
(* the squeeze inside gather_by_index is on the INDEX axis only: a single start (k = 1) loses the start axis,
   never the batch axis *)
Lemma gbi_single_start B n H : gather_by_index [B; n; H] [B; 1] 1 true = Some [B; H].
Proof. apply gbi_col. Qed.

(* ------------------------------------------------------------------------------------------------ *)
(** * view with one inferred size *)
Lemma vholes_somes l : vholes (map Some l) = 0.
Proof. induction l; [reflexivity | exact IHl]. Qed.
Lemma vknown_somes l : vknown (map Some l) = numel l.
Proof. induction l as [|x l IH]; [reflexivity|]. cbn. unfold vknown in IH. rewrite IH. reflexivity. Qed.
Lemma vfill_somes l v : vfill (map Some l) v = l.
Proof. induction l as [|x l IH]; [reflexivity|]. cbn. unfold vfill in IH. rewrite IH. reflexivity. Qed.
Lemma vholes_one pre post : vholes (map Some pre ++ None :: map Some post) = 1.
Proof.
  induction pre as [|x pre IH]; [|exact IH].
  cbn. f_equal. apply vholes_somes.
Qed.
Lemma vknown_one pre post : vknown (map Some pre ++ None :: map Some post) = numel pre * numel post.
Proof.
  induction pre as [|x pre IH].
  - cbn. rewrite Nat.add_0_r. apply vknown_somes.
  - cbn. unfold vknown in IH. rewrite IH. fold (numel pre). apply Nat.mul_assoc.
Qed.
Lemma vfill_one pre post v : vfill (map Some pre ++ None :: map Some post) v = pre ++ v :: post.
Proof.
  induction pre as [|x pre IH].
  - cbn. f_equal. apply vfill_somes.
  - cbn. unfold vfill in IH. rewrite IH. reflexivity.
Qed.
Lemma view_hole s pre post k :
  numel s = k * (numel pre * numel post) -> numel pre * numel post <> 0 ->
  view s (map Some pre ++ None :: map Some post) = Some (pre ++ k :: post).
Proof.
  intros Hn Hk. unfold view. rewrite vholes_one, vknown_one, vfill_one.
  destruct (Nat.eqb_spec (numel pre * numel post) 0) as [E|_]; [contradiction|].
  rewrite Hn, Nat.mod_mul by exact Hk. cbn [Nat.eqb]. rewrite Nat.div_mul by exact Hk. reflexivity.
Qed.
Lemma view_full s l : numel s = numel l -> view s (map Some l) = Some l.
Proof.
  intros Hn. unfold view. rewrite vholes_somes, vknown_somes, vfill_somes, Hn, Nat.eqb_refl. reflexivity.
Qed.

Lemma view_B2 B : 1 <= B -> view [B; 2] [Some B; None] = Some [B; 2].
Proof. intros. apply (view_hole [B; 2] [B] [] 2); cbn; lia. Qed.
Lemma view_B2H B H : 1 <= B -> view [B; 2; H] [Some B; None] = Some [B; 2 * H].
Proof. intros. apply (view_hole [B; 2; H] [B] [] (2 * H)); cbn; lia. Qed.
Lemma view_BS2 B S : 1 <= B -> view [B; S; 2] [Some B; None] = Some [B; S * 2].
Proof. intros. apply (view_hole [B; S; 2] [B] [] (S * 2)); cbn; lia. Qed.
Lemma view_BS2H B S H : 1 <= B -> 1 <= S -> view [B; S * 2; H] [Some B; Some S; None] = Some [B; S; 2 * H].
Proof. intros. apply (view_hole [B; S * 2; H] [B; S] [] (2 * H)); cbn; nia. Qed.
Lemma view_J3E B J E : view [B; J; 3; E] [Some B; Some J; Some (3 * E)] = Some [B; J; 3 * E].
Proof. apply (view_full [B; J; 3; E] [B; J; 3 * E]). cbn. nia. Qed.

(* ------------------------------------------------------------------------------------------------ *)
(** * Theorems: context embeddings *)
Definition flat (B N M O : nat) : dims := {| dB := B; dS := 0; dN := N; dM := M; dO := O |}.
Definition multi (B S N M O : nat) : dims := {| dB := B; dS := S; dN := N; dM := M; dO := O |}.

(* the two reachable phases: right after reset the first-step test is true, afterwards false *)
Definition reachable (stepped first : bool) : Prop := first = negb stepped.

Ltac tsp_views HB :=
  repeat (first [ rewrite (view_B2 _ HB) | rewrite (view_B2H _ _ HB) ]; shape_crush).

(* EVERY registered context returns [B, H] for every batch size, including 1, every instance size and every
   embedding width, in both phases.  (Before /repo commit 81bfd82 this was false at B = 1 for the SVRP, PDP, MDCPDP
   and mTSP contexts -- a bare .squeeze() -- and at H = 1 for every B >= 2; the refutations that stood here are
   recorded as fixed in known_findings.json and the check still looks for their signatures on every run.) *)
Theorem ctx_shape_ok (e : env_name) (c : ctx_class) (stepped first : bool) (B N M H : nat) :
  ctx_registry e = Some c -> reachable stepped first ->
  1 <= B -> 1 <= N -> 1 <= M -> 1 <= H ->
  ctx_out e stepped first (flat B N M 0) H = Some [B; H].
Proof.
  intros Hr Hreach HB HN HM HH. unfold reachable in Hreach. subst first.
  destruct e; cbn in Hr; inversion Hr; subst c; clear Hr;
    destruct stepped; unfold flat; shape_crush; tsp_views HB.
Qed.

(* what the calculus says a bare squeeze does: at batch size 1 the batch axis goes with the index axis, and the
   following cat / Linear sees a tensor of the wrong rank *)
Lemma bare_squeeze_drops_batch_axis (H : nat) :
  2 <= H -> squeeze_all [1; H] = [H] /\ cat (Bk 0) [[H]; [1; H]] = None /\ squeeze_all [1; 1; H] = [H].
Proof. intros. repeat split; shape_crush. Qed.

(* MTSPEnv._get_reward (minmax) returns td["reward"], shape [B]  (until /repo commit 46a31b8: .squeeze(-1), which is []
   at B = 1 -- fixed finding "mtsp/minmax: get_reward-loses-batch-axis-at-batch-size-1") *)
Definition mtsp_minmax_reward_shape (B : nat) : option shape := Some [B].
Theorem mtsp_reward_shape_ok (B : nat) : 1 <= B -> mtsp_minmax_reward_shape B = Some [B].
Proof. reflexivity. Qed.
Lemma squeeze_last_of_batch_vector : squeeze (Bk 0) [1] = Some [] /\ forall B, 2 <= B -> squeeze (Bk 0) [B] = Some [B].
Proof. split; [reflexivity|]. intros. shape_crush. Qed.

(* ------------------------------------------------------------------------------------------------ *)
(** * Theorems: the glimpse query of the AM decoder *)

(* with the graph context (AttentionModelPolicy default) and without it (POMO's configuration: graph_context = 0) the
   query is [B, 1, H] for every registered context and every B >= 1 *)
Theorem q_shape_ok (e : env_name) (c : ctx_class) (stepped first use_gc : bool) (B N M H : nat) :
  ctx_registry e = Some c -> reachable stepped first ->
  1 <= B -> 1 <= N -> 1 <= M -> 1 <= H ->
  q_out e stepped first (flat B N M 0) H use_gc = Some [B; 1; H].
Proof.
  intros Hr Hreach HB HN HM HH. unfold reachable in Hreach. subst first.
  destruct e; cbn in Hr; inversion Hr; subst c; clear Hr;
    destruct stepped; destruct use_gc; unfold flat; shape_crush; tsp_views HB.
Qed.

(* multistart layout [B, S] (S >= 2 starts, after the forced first move): [B, S, H].  Excluded: DPPContext (ignores the
   start axis, below) and MTSPContext (its _distance_from_depot gathers td["locs"] = [B, S, N, 2] along the start axis and
   raises for every B: AM-on-mTSP multistart is not a working configuration, independent of the batch size) *)
Theorem q_shape_ok_multistart (e : env_name) (c : ctx_class) (B S N M H : nat) (use_gc : bool) :
  ctx_registry e = Some c -> c <> CDPPContext -> c <> CMTSPContext ->
  1 <= B -> 2 <= S -> 1 <= N -> 1 <= M -> 1 <= H ->
  q_out e true false (multi B S N M 0) H use_gc = Some [B; S; H].
Proof.
  intros Hr Hf Hm HB HS HN HM HH.
  destruct e; cbn in Hr; inversion Hr; subst c; try (exfalso; apply Hf; reflexivity); try (exfalso; apply Hm; reflexivity);
    clear Hr Hf Hm; destruct use_gc; unfold multi; shape_crush;
    repeat (first [ rewrite (view_BS2 _ _ HB) | rewrite (view_BS2H B S H HB) by lia ]; shape_crush).
Qed.
Example mtsp_multistart_raises :
  q_out Emtsp true false (multi 2 3 5 0 0) 8 true = None /\ q_out Emtsp true false (multi 1 3 5 0 0) 8 false = None.
Proof. split; reflexivity. Qed.

(* DPPContext ignores the start axis (new_zeros(embeddings.size(0), embed_dim)): with S starts the query is a
   B x B matrix with the graph context and [B, 1, H] without it -- never [B, S, H] *)
Theorem dpp_multistart_refuted (e : env_name) (B S N H : nat) :
  e = Edpp \/ e = Emdpp -> 2 <= B -> 2 <= S -> 1 <= N -> 2 <= H ->
  q_out e true false (multi B S N 0 0) H true = Some [B; B; H] /\
  q_out e true false (multi B S N 0 0) H false = Some [B; 1; H].
Proof. intros He HB HS HN HH. destruct He as [-> | ->]; split; unfold multi; shape_crush. Qed.

(* what the calculus says about a rank slip of the other kind: a context that returned [B, 1, H] (TSPContext on
   ATSP's reset layout if the first-step test were false there) plus the [B, H] graph context is a B x B matrix *)
Example extra_axis_would_be_bxb :
  ctx_out Eatsp false false (flat 3 5 0 0) 8 = Some [3; 1; 8] /\
  q_out Eatsp false false (flat 3 5 0 0) 8 true = Some [3; 3; 8] /\
  q_out Eatsp false false (flat 3 5 0 0) 8 false = Some [3; 1; 8].
Proof. repeat split. Qed.

(* ------------------------------------------------------------------------------------------------ *)
(** * Theorems: dynamic embeddings *)
Theorem dyn_static_ok (td : layout) (H : nat) (m : shape) : dyn_forward DStatic H m td = Some [[]; []; []].
Proof. reflexivity. Qed.
Theorem dyn_sdvrp_ok (B N H : nat) :
  1 <= B -> 1 <= N -> 1 <= H ->
  dyn_forward DSDVRP H [] (env_layout Esdvrp true (flat B N 0 0)) = Some [[B; N + 1; H]; [B; N + 1; H]; [B; N + 1; H]].
Proof. intros. unfold flat. shape_crush. Qed.
(* JSSPDynamicEmbedding with J jobs, M machines, O operations *)
Theorem dyn_jssp_ok (e : env_name) (B J M O H : nat) :
  e = Ejssp \/ e = Efjsp -> 1 <= B -> 2 <= J -> 1 <= M -> 1 <= O -> 1 <= H ->
  dyn_forward DJSSP H [B; M; H] (env_layout e true (flat B J M O)) = Some [[B; J; H]; [B; J; H]; [B; J; H]].
Proof.
  intros He HB HJ HM HO HH. destruct He as [-> | ->]; unfold flat; shape_crush; rewrite view_J3E; shape_crush.
Qed.
(* a single job: gather_by_index squeezes the job axis ([B,1,M,3] -> [B,M,3]) and the einsum raises *)
Theorem dyn_jssp_single_job_refuted (e : env_name) (B M O H : nat) :
  e = Ejssp \/ e = Efjsp -> 2 <= B -> 2 <= M -> 1 <= O -> 1 <= H ->
  dyn_forward DJSSP H [B; M; H] (env_layout e true (flat B 1 M O)) = None.
Proof. intros He HB HM HO HH. destruct He as [-> | ->]; unfold flat; shape_crush. Qed.

(* ------------------------------------------------------------------------------------------------ *)
(** * Theorems: init embeddings ([B, nodes, H] for every B >= 1, N >= 1) *)
Theorem init_shape_ok (e : env_name) (c : init_class) (B N H : nat) :
  init_registry e = Some c -> e <> Epdp -> e <> Emdcpdp -> e <> Edpp -> e <> Ejssp -> e <> Efjsp -> e <> Eatsp ->
  1 <= B -> 1 <= N -> 1 <= H ->
  init_forward c H (env_layout e false (flat B N 0 0)) = Some [[B; nodes e (flat B N 0 0); H]].
Proof.
  intros Hr n1 n2 n3 n4 n5 n6 HB HN HH.
  destruct e; cbn in Hr; inversion Hr; subst c; try congruence; clear Hr n1 n2 n3 n4 n5 n6; unfold flat; shape_crush.
Qed.
(* the registry gives ATSP the TSP init embedding, which reads td["locs"]: ATSPEnv has no such key (KeyError for
   every batch size; MatNet brings its own init embedding) *)
Lemma init_atsp_keyerror (B N H : nat) : init_forward ITSP H (env_layout Eatsp false (flat B N 0 0)) = None.
Proof. reflexivity. Qed.
(* PDP: N = 2 P locations (P pickups, P deliveries) + depot;  MDCPDP: M depots (capacity has one column: the
   generator's format, so the code takes num_depots = 1 whatever M is) *)
Theorem init_shape_ok_pdp (B P H : nat) :
  1 <= B -> 1 <= P -> 1 <= H ->
  init_forward IPDP H (env_layout Epdp false (flat B (2 * P) 0 0)) = Some [[B; 2 * P + 1; H]].
Proof.
  intros. unfold flat. shape_unfold. cbn -[Nat.div Nat.mul Nat.modulo].
  rewrite ?Nat.add_sub. replace ((2 * P) / 2) with P by (rewrite Nat.mul_comm, Nat.div_mul; lia).
  shape_crush.
Qed.
Theorem init_shape_ok_dpp (B N H : nat) :
  1 <= B -> 1 <= N -> 1 <= H ->
  init_forward IDPP H (env_layout Edpp false (flat B N 0 0)) = Some [[B; N; H / 2 + H / 2]].
Proof. intros. unfold flat. shape_crush. Qed.
(* an odd number of locations: the pickup/delivery halves differ by one and the cat of the pick features raises *)
Theorem init_pdp_odd_refuted (B P H : nat) :
  1 <= B -> 1 <= H -> init_forward IPDP H (env_layout Epdp false (flat B (2 * P + 1) 0 0)) = None.
Proof.
  intros. unfold flat. shape_unfold. cbn -[Nat.div Nat.mul Nat.modulo].
  rewrite ?Nat.add_sub.
  replace ((2 * P + 1) / 2) with P.
  2:{ apply (Nat.div_unique (2 * P + 1) 2 P 1); lia. }
  shape_crush.
Qed.
(* scheduling: (ops, machines, edges, adjacency) *)
Theorem init_shape_ok_fjsp (e : env_name) (B J M O H : nat) :
  e = Ejssp \/ e = Efjsp -> 1 <= B -> 1 <= J -> 1 <= M -> 1 <= O -> 1 <= H ->
  init_forward IFJSP H (env_layout e false (flat B J M O)) = Some [[B; O; H]; [B; M; H]; [B; O; M; H]; [B; O; M]].
Proof. intros He HB HJ HM HO HH. destruct He as [-> | ->]; unfold flat; shape_crush. Qed.
Theorem init_shape_ok_matnet (B N H : nat) :
  1 <= B -> 1 <= N -> N <= H ->
  init_forward IMatNet H (env_layout Eatsp false (flat B N 0 0)) = Some [[B; N; H]; [B; N; H]; [B; N; N]].
Proof. intros. unfold flat. shape_crush. Qed.
(* MatNet's one-hot column embedding needs N <= embed_dim *)
Theorem init_matnet_wide_refuted (B N H : nat) :
  H < N -> init_forward IMatNet H (env_layout Eatsp false (flat B N 0 0)) = None.
Proof. intros. unfold flat. shape_crush. Qed.

(* ------------------------------------------------------------------------------------------------ *)
(** * Examples (non-vacuity; concrete sizes by computation) *)
Example ex_ctx_cvrp : ctx_out Ecvrp true false (flat 3 5 0 0) 8 = Some [3; 8]. Proof. reflexivity. Qed.
Example ex_ctx_tsp_first : ctx_out Etsp false true (flat 1 5 0 0) 8 = Some [1; 8]. Proof. reflexivity. Qed.
Example ex_ctx_tsp_later : ctx_out Etsp true false (flat 1 5 0 0) 8 = Some [1; 8]. Proof. reflexivity. Qed.
Example ex_ctx_mtsp_b2 : ctx_out Emtsp true false (flat 2 5 0 0) 8 = Some [2; 8]. Proof. reflexivity. Qed.
Example ex_ctx_mtsp_b1 : ctx_out Emtsp true false (flat 1 5 0 0) 8 = Some [1; 8]. Proof. reflexivity. Qed.
Example ex_ctx_pdp_b1 : ctx_out Epdp true false (flat 1 4 0 0) 8 = Some [1; 8]. Proof. reflexivity. Qed.
Example ex_q_pdp_b1_gc : q_out Epdp true false (flat 1 4 0 0) 8 true = Some [1; 1; 8]. Proof. reflexivity. Qed.
Example ex_q_pdp_b1_nogc : q_out Epdp true false (flat 1 4 0 0) 8 false = Some [1; 1; 8]. Proof. reflexivity. Qed.
Example ex_q_pdp_b1_nogc_ms : q_out Epdp true false (multi 1 3 4 0 0) 8 false = Some [1; 3; 8]. Proof. reflexivity. Qed.
Example ex_q_tsp_ms : q_out Etsp true false (multi 2 3 5 0 0) 8 true = Some [2; 3; 8]. Proof. reflexivity. Qed.
Example ex_init_cvrptw : init_forward IVRPTW 8 (env_layout Ecvrptw false (flat 1 1 0 0)) = Some [[1; 2; 8]]. Proof. reflexivity. Qed.
Example ex_dyn_jssp : dyn_forward DJSSP 8 [2; 2; 8] (env_layout Ejssp true (flat 2 3 2 6)) = Some [[2; 3; 8]; [2; 3; 8]; [2; 3; 8]].
Proof. reflexivity. Qed.
Example ex_squeeze_all : squeeze_all [1; 5; 1; 8] = [5; 8] /\ squeeze (Fr 1) [1; 5; 1] = Some [1; 5; 1] /\ squeeze (Bk 0) [1; 5; 1] = Some [1; 5].
Proof. repeat split. Qed.
Example ex_cat_rank : cat (Bk 0) [[8]; [1; 8]] = None /\ cat (Bk 0) [[2; 8]; [2; 1]] = Some [2; 9]. Proof. split; reflexivity. Qed.
