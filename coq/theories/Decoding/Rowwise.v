(* C14, part B: the composition theorem [policy_rowwise].

   ConstructivePolicy.forward (rl4co/models/common/constructive/base.py), greedy decoding, on a batch given as
   the LIST OF ITS ROWS:

       hidden, _ = self.encoder(td)                         benc : list inst -> list hidden
       while not td["done"].all():                          all_done rows          (batch-global stop test)
           logits, mask = self.decoder(td, hidden)          bdec : list hidden -> list row -> list logit
           td = decode_strategy.step(logits, mask, td)      choose : logit -> mask -> action * logprob   (per row)
           td = env.step(td)["next"]                        step of the row's environment
       reward = env.get_reward(td, actions); ll = logprobs.sum(1)

   The encoder and the decoder are the neural network: they are Section variables that take the WHOLE batch, and
   the hypothesis under which the theorem holds is that they are row-wise -- [benc is = map enc is] and
   [bdec hs rows = map2 dec hs rows] on every batch satisfying a batch invariant [BInv] that the caller must
   show to hold after reset and to be preserved by steps.  A batch-global construct inside the decoder (the
   first-step test of TSPContext) therefore has to be discharged explicitly: see [FirstStep] below.
   The environment is an arbitrary [Env] of Base/EnvSig.v; rows that finish early keep being stepped until the
   whole batch is done ("padding"), and the three padding hypotheses are what Env/CVRPProofs.v::cvrp_padding_inert
   proves for CVRP (a finished row stays finished, the padded reward is the unpadded reward) plus the fact that
   a finished row offers a single action, whose log-probability is log 1 = 0.

   Conclusion: for an instance at ANY position of ANY batch, the greedy actions are those of the instance decoded
   alone (batch [i], batch size 1) followed by padding actions, and reward and log-likelihood are equal. *)
From Coq Require Import List Arith Bool Lia.
From RL4CO Require Import Base.EnvSig Decoding.Shapes.
Import ListNotations.


Fixpoint map2 {A B C : Type} (f : A -> B -> C) (xs : list A) (ys : list B) : list C :=
  match xs, ys with
  | x :: xs', y :: ys' => f x y :: map2 f xs' ys'
  | _, _ => []
  end.
Lemma map2_length {A B C} (f : A -> B -> C) xs ys : length xs = length ys -> length (map2 f xs ys) = length xs.
Proof. revert ys; induction xs as [|x xs IH]; intros [|y ys] H; cbn in *; try lia. rewrite IH; lia. Qed.
Lemma nth_map2 {A B C} (f : A -> B -> C) xs ys r da db dc :
  r < length xs -> length xs = length ys -> nth r (map2 f xs ys) dc = f (nth r xs da) (nth r ys db).
Proof.
  revert ys r; induction xs as [|x xs IH]; intros [|y ys] r Hr Hl; cbn in *; try lia.
  destruct r; [reflexivity|]. apply IH; lia.
Qed.
Lemma map2_map_r {A B C D} (f : A -> C -> D) (g : B -> C) xs ys : map2 f xs (map g ys) = map2 (fun x y => f x (g y)) xs ys.
Proof. revert ys; induction xs as [|x xs IH]; intros [|y ys]; cbn; auto. rewrite IH. reflexivity. Qed.
Lemma map2_ext_in {A B C} (f g : A -> B -> C) xs ys :
  (forall x y, In x xs -> In y ys -> f x y = g x y) -> map2 f xs ys = map2 g xs ys.
Proof.
  revert ys; induction xs as [|x xs IH]; intros [|y ys] H; cbn; auto.
  rewrite H by (left; reflexivity). f_equal. apply IH. intros; apply H; right; assumption.
Qed.

Section Rowwise.
  Variable E : Env.
  Variables hidden logit : Type.
  Variable L : Type.                      (* log-probabilities: any type with a zero and an addition *)
  Variable lzero : L.
  Variable ladd : L -> L -> L.
  Variable Rw : Type.                     (* rewards *)
  Variable reward : inst E -> list nat -> Rw.

  Definition row := (inst E * st E)%type.
  Definition rmask (rw : row) : list bool := mask E (fst rw) (snd rw).
  Definition rdone (rw : row) : bool := done E (fst rw) (snd rw).
  Definition rstep (rw : row) (a : nat) : row := (fst rw, step E (fst rw) (snd rw) a).
  Definition rreset (i : inst E) : row := (i, reset E i).

  (* the network, on whole batches, and its per-row reading *)
  Variable benc : list (inst E) -> list hidden.
  Variable enc : inst E -> hidden.
  Variable bdec : list hidden -> list row -> list logit.
  Variable dec : hidden -> row -> logit.
  (* DecodingStrategy.step for one row: process_logits + argmax + gather of the chosen log-probability *)
  Variable choose : logit -> list bool -> nat * L.

  (* batch invariant under which the decoder is row-wise *)
  Variable BInv : list row -> Prop.
  Hypothesis enc_rowwise : forall is_, benc is_ = map enc is_.
  Hypothesis dec_rowwise : forall hs rows, BInv rows -> length hs = length rows -> bdec hs rows = map2 dec hs rows.
  Hypothesis BInv_reset : forall is_, BInv (map rreset is_).
  Hypothesis BInv_step : forall rows acts, BInv rows -> length acts = length rows -> BInv (map2 rstep rows acts).

  Definition pick (h : hidden) (rw : row) : nat * L := choose (dec h rw) (rmask rw).

  (* padding: a finished row stays finished under the action chosen for it and that action has log-prob 0 *)
  Hypothesis pad_done : forall h rw, rdone rw = true -> rdone (rstep rw (fst (pick h rw))) = true.
  Hypothesis pad_lp : forall h rw, rdone rw = true -> snd (pick h rw) = lzero.
  (* ... and does not change the reward (cvrp_padding_inert; false for mTSP min-max, see known findings of C04) *)
  Hypothesis pad_reward : forall h i acts,
    rdone (i, run i acts) = true -> reward i (acts ++ [fst (pick h (i, run i acts))]) = reward i acts.
  Hypothesis ladd_0_r : forall x, ladd x lzero = x.

  (* ---------------------------------------------------------------- the batched loop, as coded *)
  Definition all_done (rows : list row) : bool := forallb rdone rows.
  Definition bpick (hs : list hidden) (rows : list row) : list (nat * L) :=
    map2 (fun lg rw => choose lg (rmask rw)) (bdec hs rows) rows.

  (* returns the per-step lists of (action, logprob) of all rows, and the final rows *)
  Fixpoint bloop (fuel : nat) (hs : list hidden) (rows : list row) : list (list (nat * L)) * list row :=
    match fuel with
    | 0 => ([], rows)
    | S f =>
        if all_done rows then ([], rows)
        else let ch := bpick hs rows in
             let (tr, fin) := bloop f hs (map2 rstep rows (map fst ch)) in (ch :: tr, fin)
    end.

  Definition bpolicy (fuel : nat) (is_ : list (inst E)) : list (list (nat * L)) * list row :=
    bloop fuel (benc is_) (map rreset is_).

  (* what the caller reads off for batch row r *)
  Definition dflt : nat * L := (0, lzero).
  Definition row_traj (r : nat) (tr : list (list (nat * L))) : list (nat * L) := map (fun l => nth r l dflt) tr.
  Definition traj_actions (t : list (nat * L)) : list nat := map fst t.
  Definition traj_ll (t : list (nat * L)) : L := fold_left ladd (map snd t) lzero.

  (* ---------------------------------------------------------------- one row on its own *)
  (* n unconditional greedy steps of one row (padding included) *)
  Fixpoint straj (n : nat) (h : hidden) (rw : row) : list (nat * L) :=
    match n with 0 => [] | S k => let c := pick h rw in c :: straj k h (rstep rw (fst c)) end.
  Fixpoint srun (n : nat) (h : hidden) (rw : row) : row :=
    match n with 0 => rw | S k => srun k h (rstep rw (fst (pick h rw))) end.
  (* the loop of a batch of one: stop at the first finished state *)
  Fixpoint slen (fuel : nat) (h : hidden) (rw : row) : nat :=
    match fuel with
    | 0 => 0
    | S f => if rdone rw then 0 else S (slen f h (rstep rw (fst (pick h rw))))
    end.
  Definition solo (fuel : nat) (i : inst E) : list (nat * L) := straj (slen fuel (enc i) (rreset i)) (enc i) (rreset i).

  Lemma straj_length n h rw : length (straj n h rw) = n.
  Proof. revert rw; induction n; intros; cbn; auto. Qed.
  Lemma straj_split a b h rw : straj (a + b) h rw = straj a h rw ++ straj b h (srun a h rw).
  Proof. revert rw; induction a as [|a IH]; intros rw; cbn; [reflexivity|]. rewrite IH. reflexivity. Qed.
  Lemma srun_split a b h rw : srun (a + b) h rw = srun b h (srun a h rw).
  Proof. revert rw; induction a as [|a IH]; intros rw; cbn; [reflexivity|]. apply IH. Qed.

  Lemma pads_inert n h rw :
    rdone rw = true -> Forall (fun c => snd c = lzero) (straj n h rw) /\ rdone (srun n h rw) = true.
  Proof.
    revert rw; induction n as [|n IH]; intros rw Hd; cbn; [split; [constructor | exact Hd]|].
    destruct (IH _ (pad_done h rw Hd)) as [F D]. split; [constructor; [apply pad_lp; exact Hd | exact F] | exact D].
  Qed.

  Lemma slen_le fuel h rw k : k <= fuel -> rdone (srun k h rw) = true -> slen fuel h rw <= k.
  Proof.
    revert rw k; induction fuel as [|f IH]; intros rw k Hk Hd; cbn; [lia|].
    destruct (rdone rw) eqn:D; [lia|].
    destruct k as [|k]; [cbn in Hd; congruence|]. cbn in Hd. specialize (IH _ k ltac:(lia) Hd). lia.
  Qed.
  Lemma slen_done fuel h rw k : k <= fuel -> rdone (srun k h rw) = true -> rdone (srun (slen fuel h rw) h rw) = true.
  Proof.
    revert rw k; induction fuel as [|f IH]; intros rw k Hk Hd; cbn.
    - assert (k = 0) by lia. subst k. exact Hd.
    - destruct (rdone rw) eqn:D; [exact D|].
      destruct k as [|k]; [cbn in Hd; congruence|]. cbn in Hd. cbn. apply (IH _ k); [lia | exact Hd].
  Qed.

  Lemma fold_pads (ps : list L) x : Forall (fun p => p = lzero) ps -> fold_left ladd ps x = x.
  Proof.
    revert x; induction ps as [|p ps IH]; intros x F; cbn; [reflexivity|].
    inversion F; subst. rewrite ladd_0_r. apply IH. assumption.
  Qed.

  (* ---------------------------------------------------------------- the batched loop is row-wise *)
  Lemma bpick_rowwise hs rows :
    BInv rows -> length hs = length rows -> bpick hs rows = map2 pick hs rows.
  Proof.
    intros HI Hl. unfold bpick. rewrite dec_rowwise by assumption.
    clear HI. revert rows Hl. induction hs as [|h hs IH]; intros [|rw rows] Hl; cbn in *; try lia; [reflexivity|].
    unfold pick at 1. f_equal. apply IH. lia.
  Qed.

  Lemma bloop_rowwise fuel hs rows tr fin dh drw :
    BInv rows -> length hs = length rows -> bloop fuel hs rows = (tr, fin) ->
    length tr <= fuel /\ length fin = length rows /\
    forall r, r < length rows ->
      row_traj r tr = straj (length tr) (nth r hs dh) (nth r rows drw) /\
      nth r fin drw = srun (length tr) (nth r hs dh) (nth r rows drw).
  Proof.
    revert rows tr fin. induction fuel as [|f IH]; intros rows tr fin HI Hl Hb; cbn in Hb.
    - inversion Hb; subst. cbn. repeat split; auto.
    - destruct (all_done rows) eqn:AD.
      + inversion Hb; subst. cbn. repeat split; auto; lia.
      + rewrite bpick_rowwise in Hb by assumption.
        destruct (bloop f hs (map2 rstep rows (map fst (map2 pick hs rows)))) as [tr' fin'] eqn:Eb.
        inversion Hb; subst tr fin. clear Hb.
        assert (Lp : length (map2 pick hs rows) = length rows) by (rewrite map2_length; lia).
        assert (Ls : length (map2 rstep rows (map fst (map2 pick hs rows))) = length rows)
          by (apply map2_length; rewrite map_length; lia).
        apply IH in Eb; [| apply BInv_step; [exact HI | rewrite map_length; exact Lp] | lia].
        destruct Eb as (Hlen & Hfin & Hrows). cbn [length]. split; [lia|]. split; [lia|].
        intros r Hr. destruct (Hrows r ltac:(lia)) as [Ht Hf].
        assert (Enext : nth r (map2 rstep rows (map fst (map2 pick hs rows))) drw
                        = rstep (nth r rows drw) (fst (pick (nth r hs dh) (nth r rows drw)))).
        { rewrite (nth_map2 rstep rows (map fst (map2 pick hs rows)) r drw 0 drw) by (rewrite ?map_length; lia).
          f_equal. change 0 with (fst dflt). rewrite (map_nth fst (map2 pick hs rows) dflt r).
          rewrite (nth_map2 pick hs rows r dh drw dflt) by lia. reflexivity. }
        rewrite Enext in Ht, Hf. split; [|exact Hf].
        unfold row_traj in *. cbn [map straj]. rewrite Ht. f_equal.
        rewrite (nth_map2 pick hs rows r dh drw dflt) by lia. reflexivity.
  Qed.

  (* a batch of one is the solo loop *)
  Lemma bloop_single fuel h rw tr fin :
    BInv [rw] -> bloop fuel [h] [rw] = (tr, fin) -> row_traj 0 tr = straj (slen fuel h rw) h rw.
  Proof.
    revert rw tr fin. induction fuel as [|f IH]; intros rw tr fin HI Hb; cbn in Hb.
    - inversion Hb; subst. reflexivity.
    - unfold all_done in Hb. cbn [forallb] in Hb. rewrite andb_true_r in Hb. cbn [slen].
      destruct (rdone rw) eqn:D.
      + inversion Hb; subst. reflexivity.
      + rewrite bpick_rowwise in Hb by (auto). cbn [map2 map fst] in Hb.
        destruct (bloop f [h] [rstep rw (fst (pick h rw))]) as [tr' fin'] eqn:Eb.
        inversion Hb; subst. cbn [row_traj map nth straj]. f_equal.
        apply (IH _ _ _ (@BInv_step [rw] [fst (pick h rw)] HI eq_refl) Eb).
  Qed.

  Theorem batch_of_one_is_solo fuel i tr fin : bpolicy fuel [i] = (tr, fin) -> row_traj 0 tr = solo fuel i.
  Proof.
    unfold bpolicy, solo. rewrite enc_rowwise. cbn [map]. intros Hb.
    apply (bloop_single fuel (enc i) (rreset i) tr fin (BInv_reset [i]) Hb).
  Qed.

  (* state reached by a row = run of its environment on the actions taken so far *)
  Lemma rstep_run h i acts :
    rstep (i, run i acts) (fst (pick h (i, run i acts))) = (i, run i (acts ++ [fst (pick h (i, run i acts))])).
  Proof. unfold rstep. cbn [fst snd]. rewrite (run_snoc E i). reflexivity. Qed.

  Lemma srun_is_run n h i acts :
    srun n h (i, run i acts) = (i, run i (acts ++ traj_actions (straj n h (i, run i acts)))).
  Proof.
    revert acts; induction n as [|n IH]; intros acts.
    - cbn. rewrite app_nil_r. reflexivity.
    - change (srun (S n) h (i, run i acts)) with (srun n h (rstep (i, run i acts) (fst (pick h (i, run i acts))))).
      change (straj (S n) h (i, run i acts))
        with (pick h (i, run i acts) :: straj n h (rstep (i, run i acts) (fst (pick h (i, run i acts))))).
      rewrite rstep_run, IH. unfold traj_actions. cbn [map]. rewrite <- app_assoc. reflexivity.
  Qed.

  Lemma pads_reward n h i acts :
    rdone (i, run i acts) = true ->
    reward i (acts ++ traj_actions (straj n h (i, run i acts))) = reward i acts.
  Proof.
    revert acts; induction n as [|n IH]; intros acts Hd.
    - cbn. rewrite app_nil_r. reflexivity.
    - pose proof (pad_done h (i, run i acts) Hd) as Hd'. rewrite rstep_run in Hd'.
      change (straj (S n) h (i, run i acts))
        with (pick h (i, run i acts) :: straj n h (rstep (i, run i acts) (fst (pick h (i, run i acts))))).
      rewrite rstep_run. unfold traj_actions. cbn [map].
      change (acts ++ fst (pick h (i, run i acts)) :: map fst (straj n h (i, run i (acts ++ [fst (pick h (i, run i acts))]))))
        with (acts ++ [fst (pick h (i, run i acts))] ++ traj_actions (straj n h (i, run i (acts ++ [fst (pick h (i, run i acts))])))).
      rewrite app_assoc, IH by exact Hd'. apply pad_reward. exact Hd.
  Qed.

  (* ---------------------------------------------------------------- the theorem *)
  (* Instance i sits at position r of the batch is_; the batch was decoded to the end (every row finished within
     the fuel = max_steps).  Then row r's actions are the actions of i decoded ALONE, followed by padding actions
     taken in finished states; reward and log-likelihood are those of i decoded alone. *)
  Theorem policy_rowwise (fuel : nat) (is_ : list (inst E)) (r : nat) (i : inst E) tr fin :
    nth_error is_ r = Some i ->
    bpolicy fuel is_ = (tr, fin) -> all_done fin = true ->
    let batched := row_traj r tr in
    let alone := solo fuel i in
    exists pad,
      traj_actions batched = traj_actions alone ++ pad /\
      rdone (i, run i (traj_actions alone)) = true /\
      reward i (traj_actions batched) = reward i (traj_actions alone) /\
      traj_ll batched = traj_ll alone.
  Proof.
    intros Hi Hb Hfin. cbv zeta. unfold bpolicy in Hb. rewrite enc_rowwise in Hb.
    assert (Hr : r < length is_) by (apply nth_error_Some; congruence).
    destruct (@bloop_rowwise fuel (map enc is_) (map rreset is_) tr fin (enc i) (rreset i) (BInv_reset is_)
                ltac:(rewrite !map_length; reflexivity) Hb) as (Hk & Hlf & Hrows).
    destruct (Hrows r ltac:(rewrite map_length; exact Hr)) as [Ht Hf].
    assert (Ei : nth r is_ i = i) by (apply nth_error_nth; exact Hi).
    rewrite (map_nth enc is_ i), (map_nth rreset is_ i), Ei in Ht, Hf.
    set (k := length tr) in *. set (h := enc i) in *. set (rw := rreset i) in *.
    assert (Hdk : rdone (srun k h rw) = true).
    { rewrite <- Hf. unfold all_done in Hfin. rewrite forallb_forall in Hfin. apply Hfin. apply nth_In.
      rewrite Hlf, map_length. exact Hr. }
    set (t := slen fuel h rw).
    assert (Htk : t <= k) by (apply slen_le; assumption).
    assert (Hdt : rdone (srun t h rw) = true) by (apply (slen_done fuel h rw k); assumption).
    unfold solo. fold h rw t.
    replace k with (t + (k - t)) in Ht by lia. rewrite straj_split in Ht.
    destruct (pads_inert (k - t) h (srun t h rw) Hdt) as [Fp _].
    pose proof (srun_is_run t h i []) as Es. cbn [app] in Es. change (i, run i []) with rw in Es.
    exists (traj_actions (straj (k - t) h (srun t h rw))).
    rewrite Ht. unfold traj_actions, traj_ll. rewrite !map_app, fold_left_app.
    split; [reflexivity|]. split.
    { rewrite Es in Hdt. exact Hdt. }
    split.
    { rewrite Es. fold (traj_actions (straj t h rw)).
      apply (pads_reward (k - t) h i (traj_actions (straj t h rw))). rewrite Es in Hdt. exact Hdt. }
    apply fold_pads. rewrite Forall_map. exact Fp.
  Qed.
End Rowwise.

Arguments policy_rowwise {E hidden logit L} lzero ladd {Rw} reward benc enc bdec dec choose BInv.
Arguments pick E {hidden logit L} dec choose h rw.
Arguments bpolicy E {hidden logit L} benc bdec choose fuel is_.
Arguments row_traj {L} lzero r tr.
Arguments traj_actions {L} t.
Arguments traj_ll {L} lzero ladd t.
Arguments solo E {hidden logit L} enc dec choose fuel i.

(* ------------------------------------------------------------------------------------------------ *)
(** * Two batches: same reward, same log-likelihood, actions equal up to padding *)
Section TwoBatches.
  Variable E : Env.
  Variables hidden logit L Rw : Type.
  Variable lzero : L. Variable ladd : L -> L -> L.
  Variable reward : inst E -> list nat -> Rw.
  Variable benc : list (inst E) -> list hidden. Variable enc : inst E -> hidden.
  Variable bdec : list hidden -> list (row E) -> list logit. Variable dec : hidden -> row E -> logit.
  Variable choose : logit -> list bool -> nat * L.
  Variable BInv : list (row E) -> Prop.
  Hypothesis enc_rowwise : forall is_, benc is_ = map enc is_.
  Hypothesis dec_rowwise : forall hs rows, BInv rows -> length hs = length rows -> bdec hs rows = map2 dec hs rows.
  Hypothesis BInv_reset : forall is_, BInv (map (rreset E) is_).
  Hypothesis BInv_step : forall rows acts, BInv rows -> length acts = length rows -> BInv (map2 (rstep E) rows acts).
  Hypothesis pad_done : forall h rw, rdone E rw = true -> rdone E (rstep E rw (fst (pick E dec choose h rw))) = true.
  Hypothesis pad_lp : forall h rw, rdone E rw = true -> snd (pick E dec choose h rw) = lzero.
  Hypothesis pad_reward : forall h i acts,
    rdone E (i, run i acts) = true -> reward i (acts ++ [fst (pick E dec choose h (i, run i acts))]) = reward i acts.
  Hypothesis ladd_0_r : forall x, ladd x lzero = x.

  (* the same instance in two different batches (any sizes, any positions, any batch-mates) *)
  Theorem policy_batch_independent (fuel : nat) (is1 is2 : list (inst E)) (r1 r2 : nat) (i : inst E) tr1 fin1 tr2 fin2 :
    nth_error is1 r1 = Some i -> nth_error is2 r2 = Some i ->
    bpolicy E benc bdec choose fuel is1 = (tr1, fin1) -> all_done E fin1 = true ->
    bpolicy E benc bdec choose fuel is2 = (tr2, fin2) -> all_done E fin2 = true ->
    let t1 := row_traj lzero r1 tr1 in let t2 := row_traj lzero r2 tr2 in
    reward i (traj_actions t1) = reward i (traj_actions t2) /\
    traj_ll lzero ladd t1 = traj_ll lzero ladd t2 /\
    exists common pad1 pad2, traj_actions t1 = common ++ pad1 /\ traj_actions t2 = common ++ pad2 /\
                             rdone E (i, run i common) = true.
  Proof.
    intros H1 H2 B1 D1 B2 D2. cbv zeta.
    destruct (policy_rowwise lzero ladd reward benc enc bdec dec choose BInv enc_rowwise dec_rowwise BInv_reset BInv_step
                pad_done pad_lp pad_reward ladd_0_r fuel is1 r1 i tr1 fin1 H1 B1 D1) as (p1 & A1 & Dn & R1 & L1).
    destruct (policy_rowwise lzero ladd reward benc enc bdec dec choose BInv enc_rowwise dec_rowwise BInv_reset BInv_step
                pad_done pad_lp pad_reward ladd_0_r fuel is2 r2 i tr2 fin2 H2 B2 D2) as (p2 & A2 & _ & R2 & L2).
    split; [congruence|]. split; [congruence|].
    exists (traj_actions (solo E enc dec choose fuel i)), p1, p2. auto.
  Qed.
End TwoBatches.

(* ------------------------------------------------------------------------------------------------ *)
(** * A batch-global construct inside the decoder has to be discharged: the first-step test

   TSPContext asks [td["i"][0,...,0] < 1] ONCE for the batch ([Shapes.first_step_coded]) and uses the verdict for
   every row.  A decoder of that kind is [bdec_fs]; it is row-wise only on batches whose rows share the step
   counter, and that invariant holds because reset zeroes and step increments the counter of every row. *)
Section FirstStep.
  Variable E : Env.
  Variables hidden logit : Type.
  Variable decf : bool -> hidden -> row E -> logit.    (* the decoder, given the first-step verdict *)
  Variable cnt : row E -> nat.                          (* td["i"] of a row *)
  Hypothesis cnt_reset : forall i, cnt (rreset E i) = 0.
  Hypothesis cnt_step : forall rw a, cnt (rstep E rw a) = S (cnt rw).

  Definition bdec_fs (hs : list hidden) (rows : list (row E)) : list logit :=
    map2 (decf (first_step_coded (map cnt rows))) hs rows.
  Definition dec_fs (h : hidden) (rw : row E) : logit := decf (first_step_row (cnt rw)) h rw.
  Definition shared (rows : list (row E)) : Prop := exists c, forall rw, In rw rows -> cnt rw = c.

  Lemma bdec_fs_rowwise hs rows : shared rows -> length hs = length rows -> bdec_fs hs rows = map2 dec_fs hs rows.
  Proof.
    intros [c Hc] _. unfold bdec_fs, dec_fs. apply map2_ext_in. intros h rw _ Hrw.
    destruct rows as [|rw0 rest]; [destruct Hrw|].
    unfold first_step_coded, first_step_row. cbn [map hd].
    rewrite (Hc rw0 (or_introl eq_refl)), (Hc rw Hrw). reflexivity.
  Qed.
  Lemma shared_reset is_ : shared (map (rreset E) is_).
  Proof. exists 0. intros rw Hrw. apply in_map_iff in Hrw as (i & <- & _). apply cnt_reset. Qed.
  Lemma shared_step rows acts : shared rows -> length acts = length rows -> shared (map2 (rstep E) rows acts).
  Proof.
    intros [c Hc] _. exists (S c). revert acts. induction rows as [|rw rows IH]; intros [|a acts] x Hx; cbn in Hx; try contradiction.
    destruct Hx as [<- | Hx].
    - rewrite cnt_step. f_equal. apply Hc. left; reflexivity.
    - apply (IH (fun y Hy => Hc y (or_intror Hy)) acts x Hx).
  Qed.
End FirstStep.
Arguments bdec_fs E {hidden logit} decf cnt hs rows.
Arguments dec_fs E {hidden logit} decf cnt h rw.

(* ------------------------------------------------------------------------------------------------ *)
(** * Non-vacuity: a closed instance (toy environment, decoder WITH the first-step test) *)
Module Toy.
  (* instance = number of moves n; state = moves made so far; two actions until finished, one afterwards *)
  Definition toyE : Env := {|
    inst := nat; st := nat;
    reset := fun _ => 0;
    step := fun _ s _ => S s;
    stepok := fun _ _ _ => true;
    mask := fun n s => if n <=? s then [true] else [true; true];
    done := fun n s => n <=? s |}.
  Definition cnt (rw : row toyE) : nat := snd rw.
  Definition enc (n : nat) : nat := 7 * n + 3.
  Definition benc (ns : list nat) : list nat := map enc ns.
  Definition decf (first : bool) (h : nat) (rw : row toyE) : nat := if first then 1 else h + snd rw.
  (* greedy choice: the only action when one is offered (log-prob 0), else parity of the logit (log-prob -1 ~ 1) *)
  Definition choose (lg : nat) (m : list bool) : nat * nat :=
    if length m =? 1 then (0, 0) else (lg mod 2, 1).
  Definition reward (n : nat) (acts : list nat) : nat := fold_right Nat.add 0 (firstn n acts).

  Lemma toy_run_from n s acts : run_from (E := toyE) n s acts = s + length acts.
  Proof. revert s; induction acts as [|a acts IH]; intros s; cbn; [lia|]. rewrite IH. lia. Qed.
  Lemma toy_run n acts : run (E := toyE) n acts = length acts.
  Proof. unfold run. rewrite toy_run_from. reflexivity. Qed.

  Theorem toy_policy_rowwise (fuel : nat) (is1 is2 : list nat) (r1 r2 i : nat) tr1 fin1 tr2 fin2 :
    nth_error is1 r1 = Some i -> nth_error is2 r2 = Some i ->
    bpolicy toyE benc (bdec_fs toyE decf cnt) choose fuel is1 = (tr1, fin1) -> all_done toyE fin1 = true ->
    bpolicy toyE benc (bdec_fs toyE decf cnt) choose fuel is2 = (tr2, fin2) -> all_done toyE fin2 = true ->
    let t1 := row_traj 0 r1 tr1 in let t2 := row_traj 0 r2 tr2 in
    reward i (traj_actions t1) = reward i (traj_actions t2) /\
    traj_ll 0 Nat.add t1 = traj_ll 0 Nat.add t2 /\
    exists common pad1 pad2, traj_actions t1 = common ++ pad1 /\ traj_actions t2 = common ++ pad2 /\
                             rdone toyE (i, run (E := toyE) i common) = true.
  Proof.
    apply (@policy_batch_independent toyE nat nat nat nat 0 Nat.add reward benc enc (bdec_fs toyE decf cnt)
             (dec_fs toyE decf cnt) choose (shared toyE cnt)).
    - reflexivity.
    - apply bdec_fs_rowwise.
    - apply shared_reset. reflexivity.
    - apply shared_step. reflexivity.
    - intros h [n s] Hd. unfold rdone, rstep in *. cbn in *. apply Nat.leb_le in Hd. apply Nat.leb_le. lia.
    - intros h [n s] Hd. unfold rdone, pick, rmask, choose in *. cbn in *. rewrite Hd. reflexivity.
    - intros h n acts Hd. unfold rdone in Hd. cbn [fst snd done toyE] in Hd. rewrite toy_run in Hd.
      apply Nat.leb_le in Hd. unfold reward. rewrite firstn_app.
      replace (n - length acts) with 0 by lia. cbn [firstn]. rewrite app_nil_r. reflexivity.
    - intros x. lia.
  Qed.

  (* the instance 5 decoded alone and at position 1 of the batch [2; 5; 3]: same moves, then padding *)
  Example toy_alone :
    map (fun l => nth 0 l (0, 0)) (fst (bpolicy toyE benc (bdec_fs toyE decf cnt) choose 20 [5]))
    = [(1, 1); (1, 1); (0, 1); (1, 1); (0, 1)].
  Proof. reflexivity. Qed.
  Example toy_in_batch :
    map (fun l => nth 1 l (0, 0)) (fst (bpolicy toyE benc (bdec_fs toyE decf cnt) choose 20 [2; 5; 3]))
    = [(1, 1); (1, 1); (0, 1); (1, 1); (0, 1)]
    /\ all_done toyE (snd (bpolicy toyE benc (bdec_fs toyE decf cnt) choose 20 [2; 5; 3])) = true.
  Proof. split; reflexivity. Qed.
  Example toy_padded_row :
    map (fun l => nth 0 l (0, 0)) (fst (bpolicy toyE benc (bdec_fs toyE decf cnt) choose 20 [2; 5; 3]))
    = [(1, 1); (0, 1); (0, 0); (0, 0); (0, 0)].
  Proof. reflexivity. Qed.

  (* without the shared-counter invariant the coded first-step decoder is NOT row-wise: row 1 (counter 1) is
     decoded as if it were at its first step because row 0 is *)
  Theorem bdec_fs_not_rowwise_refuted :
    exists (hs : list nat) (rows : list (row toyE)),
      length hs = length rows /\ bdec_fs toyE decf cnt hs rows <> map2 (dec_fs toyE decf cnt) hs rows.
  Proof. exists [10; 10], [(5, 0); (5, 1)]. split; [reflexivity | vm_compute; discriminate]. Qed.
End Toy.
