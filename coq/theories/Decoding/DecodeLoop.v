(* C11 -- model of the common decode loop of rl4co:

     rl4co/models/common/constructive/base.py   ConstructivePolicy.forward
     rl4co/utils/decoding.py                     DecodingStrategy.pre_decoder_hook / step / post_decoder_hook,
                                                 Greedy / Sampling / Evaluate ._step, _select_best, get_log_likelihood
     rl4co/utils/ops.py                          calculate_entropy

   The model follows the code variable by variable, PER BATCH ROW, for a whole batch (the loop test
   `while not td["done"].all()` is a batch-level test, so rows that finish early keep being stepped).

   What is NOT modelled (Section variables = uninterpreted):
     E      : Env                    the environment (Base/EnvSig.v): reset / step / mask / done, stepok = "does not raise"
     Hd, dec: Hd -> inst -> st -> list L * list bool
                                     the neural network: per row, the decoder maps the encoder output for that
                                     instance and the current state to (logits, mask).  That the network IS a per-row
                                     function of (hidden, state) -- no dropout, no batch statistics, no dependence on
                                     the pass -- is the K3 assumption of C11, it is not provable here.
     rew    : inst -> st -> list nat -> Z       env.get_reward(td, actions) per row (C03's business)
     flagf  : inst -> st -> option (list bool)  td.get("mask", None) of the final td, per row
     starts : list nat               env.select_start_nodes (C12's business), an input
     oracle lists                    the results of torch.multinomial (Sampling) / the given actions (Evaluate)

   Numbers.  As in Decoding/ProcessLogits.v the model stores PROBABILITIES p = exp(logprob) in an ordered field K
   (a log-probability of 0 is the probability f1, -inf is f0).  The log-likelihood is formed at the very end by an
   abstract  lg : K -> G  applied entry by entry and summed in (G, g0, gadd); see the instances in
   Decoding/DecodeLoopInst.v:  (G, g0, gadd, lg) = (Qc, 1, *, id)  [executable: "log-likelihood" = product of the
   probabilities, an exact rational]  and  (R, 0, +, ln)  [the real statement]. *)
From Coq Require Import List Bool Arith Lia ZArith.
From RL4CO Require Import Base.OField Base.OFieldExtra Base.EnvSig Decoding.PLTensor Decoding.ProcessLogits
                          Decoding.Batchify Decoding.Nest Decoding.SelectBest.
Import ListNotations.

Inductive mode := Greedy | Sampling | Evaluate.

Section DecodeLoop.
  Variable K : ofield.
  Variable L : Type.
  Variable lleb : L -> L -> bool.
  Variable e : L -> K.
  (* configuration of the decoding strategy (process_logits arguments) *)
  Variables (clip tmp : L -> L) (top_p : K) (top_k : nat) (mask_logits : bool).

  Variable E : Env.
  Variable Hd : Type.
  Variable dec : Hd -> inst E -> st E -> list L * list bool.
  Variable rew : inst E -> st E -> list nat -> Z.
  Variable flagf : inst E -> st E -> option (list bool).

  Variable G : Type.
  Variable g0 : G.
  Variable gadd : G -> G -> G.
  Variable lg : K -> G.           (* log *)
  Variable nplp : K -> G.         (* p |-> - p * log p  (with nan_to_num: 0 at p = 0) *)

  Definition gsum (l : list G) : G := fold_right gadd g0 l.

  (* ------------------------------------------------------------------ one decoding step *)
  (* DecodingStrategy.step:  if not self.mask_logits: mask = None ; logprobs = process_logits(logits, mask, ...) *)
  Definition eff_mask (lm : list L * list bool) : list bool :=
    if mask_logits then snd lm else map (fun _ => true) (fst lm).
  Definition probs (h : Hd) (i : inst E) (s : st E) : list K :=
    let lm := dec h i s in process_logits K L lleb e clip tmp (eff_mask lm) top_p top_k (fst lm).

  (* one row of the batch: what does not change during decoding ... *)
  Record rowcfg := mkcfg { rc_h : Hd; rc_i : inst E; rc_or : list nat }.
  (* ... and what does: env state, self.logprobs, self.actions (this row's column of every appended tensor) *)
  Inductive pent := PScal (p : K) | PVec (v : list K).   (* store_all_logp = False / True *)
  Record rowst := mkrow { r_s : st E; r_buf : list pent; r_acts : list nat }.

  (* Greedy._step: logprobs.argmax ; Sampling._step: multinomial (oracle) ; Evaluate._step: action = actions[..., step] *)
  Definition select (m : mode) (k : nat) (c : rowcfg) (pr : list K) : nat :=
    match m with Greedy => greedy K pr | _ => nth k (rc_or c) 0 end.
  (* the asserts of greedy()/sampling() ("infeasible action selected", only when a mask is passed), and the index into
     the given actions *)
  Definition feas (msk : list bool) (a : nat) : bool := if mask_logits then nth a msk false else true.
  Definition select_ok (m : mode) (k : nat) (c : rowcfg) (msk : list bool) (a : nat) : bool :=
    match m with
    | Greedy => feas msk a
    | Sampling => (k <? length (rc_or c)) && feas msk a
    | Evaluate => (k <? length (rc_or c))
    end.

  (* if not self.store_all_logp: logprobs = gather_by_index(logprobs, selected_action, dim=1) *)
  Definition entry (sa : bool) (pr : list K) (a : nat) : pent := if sa then PVec pr else PScal (nth a pr f0).

  (* td = decode_strategy.step(logits, mask, td, action=...) ; td = env.step(td)["next"]      (k = the loop counter `step`) *)
  Definition step_row (m : mode) (sa : bool) (k : nat) (c : rowcfg) (r : rowst) : rowst :=
    let pr := probs (rc_h c) (rc_i c) (r_s r) in
    let a := select m k c pr in
    {| r_s := step E (rc_i c) (r_s r) a; r_buf := r_buf r ++ [entry sa pr a]; r_acts := r_acts r ++ [a] |}.
  (* "nothing raised in this step": selection asserts, gather index in range, env.step *)
  Definition step_ok (m : mode) (k : nat) (c : rowcfg) (r : rowst) : bool :=
    let lm := dec (rc_h c) (rc_i c) (r_s r) in
    let pr := probs (rc_h c) (rc_i c) (r_s r) in
    let a := select m k c pr in
    select_ok m k c (snd lm) a && (a <? length pr) && stepok E (rc_i c) (r_s r) a.

  (* n consecutive steps of one row, loop counter starting at k *)
  Fixpoint iter (m : mode) (sa : bool) (c : rowcfg) (n k : nat) (r : rowst) : rowst :=
    match n with O => r | S n' => iter m sa c n' (S k) (step_row m sa k c r) end.
  Fixpoint iter_ok (m : mode) (sa : bool) (c : rowcfg) (n k : nat) (r : rowst) : bool :=
    match n with O => true | S n' => step_ok m k c r && iter_ok m sa c n' (S k) (step_row m sa k c r) end.

  (* ------------------------------------------------------------------ the batch *)
  Definition brow := (rowcfg * rowst)%type.
  Definition row_done (cr : brow) : bool := done E (rc_i (fst cr)) (r_s (snd cr)).
  Definition bstep (m : mode) (sa : bool) (k : nat) (cr : brow) : brow := (fst cr, step_row m sa k (fst cr) (snd cr)).

  (* step = 0 ; while not td["done"].all(): ... step += 1 ; if step > max_steps: break        (fuel = max_steps + 1) *)
  Fixpoint loop (m : mode) (sa : bool) (fuel k : nat) (rows : list brow) : list brow :=
    match fuel with
    | O => rows
    | S f => if forallb row_done rows then rows else loop m sa f (S k) (map (bstep m sa k) rows)
    end.
  Fixpoint loop_ok (m : mode) (sa : bool) (fuel k : nat) (rows : list brow) : bool :=
    match fuel with
    | O => true
    | S f => if forallb row_done rows then true
             else forallb (fun cr => step_ok m k (fst cr) (snd cr)) rows && loop_ok m sa f (S k) (map (bstep m sa k) rows)
    end.

  (* pre_decoder_hook.  S = self.num_starts after the hook's first block (0 unless multistart / multisample),
     ms = self.multistart.   batchify(td, S) ; multistart: td.set("action", start) ; td = env.step(td)["next"] ;
     logprobs = zeros_like(action_mask) [store_all_logp] / zeros_like(action) ; append *)
  Definition fresh (c : rowcfg) : brow := (c, {| r_s := reset E (rc_i c); r_buf := []; r_acts := [] |}).
  Definition forced_entry (sa : bool) (i : inst E) (s' : st E) : pent :=
    if sa then PVec (map (fun _ => f1) (mask E i s')) else PScal f1.
  Definition forced (sa : bool) (c : rowcfg) (a0 : nat) : brow :=
    let s' := step E (rc_i c) (reset E (rc_i c)) a0 in
    (c, {| r_s := s'; r_buf := [forced_entry sa (rc_i c) s']; r_acts := [a0] |}).
  Definition forced_ok (sa : bool) (c : rowcfg) (a0 : nat) : bool :=
    stepok E (rc_i c) (reset E (rc_i c)) a0.

  Definition mkc (hi : Hd * inst E) (o : list nat) : rowcfg := mkcfg (fst hi) (snd hi) o.
  Definition expand (S : nat) (cfgs : list (Hd * inst E)) : list (Hd * inst E) :=
    if (1 <=? S) then batchify_single S cfgs else cfgs.
  Definition ms_eff (ms : bool) (S : nat) : bool := (1 <=? S) && ms.
  Definition pre_hook (sa ms : bool) (S : nat) (cfgs : list (Hd * inst E)) (starts : list nat) (ors : list (list nat))
    : list brow :=
    let cs := map2 mkc (expand S cfgs) ors in
    if ms_eff ms S then map2 (forced sa) cs starts else map fresh cs.
  Definition pre_hook_ok (sa ms : bool) (S : nat) (cfgs : list (Hd * inst E)) (starts : list nat) (ors : list (list nat))
    : bool :=
    let cs := map2 mkc (expand S cfgs) ors in
    (length ors =? length (expand S cfgs)) &&
    (if ms_eff ms S then (length starts =? length cs) && forallb (fun b => b) (map2 (forced_ok sa) cs starts) else true).

  (* post_decoder_hook: assert len(self.logprobs) > 0 ; stack ; if self.num_starts > 0 and self.select_best: _select_best *)
  Definition rewards (rows : list brow) : list Z :=
    map (fun cr => rew (rc_i (fst cr)) (r_s (snd cr)) (r_acts (snd cr))) rows.
  Fixpoint zip3 (ts : list (rowcfg * st E)) (bs : list (list pent)) (as_ : list (list nat)) : list brow :=
    match ts, bs, as_ with
    | t :: ts', b :: bs', a :: as' => (fst t, {| r_s := snd t; r_buf := b; r_acts := a |}) :: zip3 ts' bs' as'
    | _, _, _ => []
    end.
  Definition nobuf (cr : brow) : bool := match r_buf (snd cr) with [] => true | _ => false end.
  Definition post_hook (S : nat) (sb : bool) (rows : list brow) : option (list brow) :=
    if forallb nobuf rows then None else
    if (0 <? S) && sb then
      match select_best S (rewards rows) (map (fun cr => r_acts (snd cr)) rows) (map (fun cr => r_buf (snd cr)) rows)
                        (map (fun cr => (fst cr, r_s (snd cr))) rows) with
      | Some (lb, la, lt) => Some (zip3 (flat lt) (flat lb) (flat la))
      | None => None
      end
    else Some rows.

  (* ConstructivePolicy.forward up to and including post_decoder_hook: the returned rows *)
  Definition forward (m : mode) (sa ms : bool) (S : nat) (sb : bool) (fuel : nat)
             (cfgs : list (Hd * inst E)) (starts : list nat) (ors : list (list nat)) : option (list brow) :=
    post_hook S sb (loop m sa fuel 0 (pre_hook sa ms S cfgs starts ors)).
  Definition forward_ok (m : mode) (sa ms : bool) (S : nat) (fuel : nat)
             (cfgs : list (Hd * inst E)) (starts : list nat) (ors : list (list nat)) : bool :=
    pre_hook_ok sa ms S cfgs starts ors && loop_ok m sa fuel 0 (pre_hook sa ms S cfgs starts ors).

  (* ------------------------------------------------------------------ the output dictionary, per returned row *)
  (* get_log_likelihood: if logprobs.dim() == 3: logprobs = logprobs.gather(-1, actions) *)
  Definition gathered (ent : pent) (a : nat) : K := match ent with PScal p => p | PVec v => nth a v f0 end.
  Definition gather_ps (buf : list pent) (acts : list nat) : list K := map2 gathered buf acts.
  (* if mask is not None: logprobs[~mask] = 0 *)
  Definition flagz (fl : option (list bool)) (ps : list K) : list K :=
    match fl with None => ps | Some bs => map2 (fun (b : bool) p => if b then p else f1) bs ps end.
  Definition out_flags (cr : brow) : option (list bool) := flagf (rc_i (fst cr)) (r_s (snd cr)).
  Definition out_ps (cr : brow) : list K := flagz (out_flags cr) (gather_ps (r_buf (snd cr)) (r_acts (snd cr))).
  (* return_sum_log_likelihood = False / True *)
  Definition out_ll_steps (cr : brow) : list G := map lg (out_ps cr).
  Definition out_ll (cr : brow) : G := gsum (out_ll_steps cr).
  (* the index put needs matching shapes ; assert (logprobs > -1000).all() *)
  Definition out_ll_ok (cr : brow) : bool :=
    match out_flags cr with None => true | Some bs => length bs =? length (r_acts (snd cr)) end
    && forallb (fun p => fltb f0 p) (out_ps cr).
  Definition out_reward (cr : brow) : Z := rew (rc_i (fst cr)) (r_s (snd cr)) (r_acts (snd cr)).
  (* calculate_entropy(logprobs): -(exp(lp) * lp).sum(-1).sum(1)   (needs store_all_logp) *)
  Definition ent_entry (ent : pent) : G := match ent with PVec v => gsum (map nplp v) | PScal _ => g0 end.
  Definition out_entropy (cr : brow) : G := gsum (map ent_entry (r_buf (snd cr))).
  Definition out_vectors (cr : brow) : list (list K) :=
    map (fun ent => match ent with PVec v => v | PScal p => [p] end) (r_buf (snd cr)).

  (* ================================================================== SPECIFICATION
     Everything below is defined from the RETURNED ACTIONS alone (plus instance and hidden), by re-running the
     environment from reset: the state in which the t-th action was taken, the masked normalised distribution the
     policy assigns in that state (C10's process_logits), the probability of the action taken. *)
  Fixpoint spec_ps (h : Hd) (i : inst E) (s : st E) (acts : list nat) : list K :=
    match acts with [] => [] | a :: r => nth a (probs h i s) f0 :: spec_ps h i (step E i s a) r end.
  Fixpoint spec_vecs (h : Hd) (i : inst E) (s : st E) (acts : list nat) : list (list K) :=
    match acts with [] => [] | a :: r => probs h i s :: spec_vecs h i (step E i s a) r end.
  (* multistart: the first returned action is the forced start, taken from the reset state *)
  Definition spec_s0 (mse : bool) (i : inst E) (acts : list nat) : st E :=
    if mse then step E i (reset E i) (hd 0 acts) else reset E i.
  Definition spec_free (mse : bool) (acts : list nat) : list nat := if mse then tl acts else acts.
  Definition spec_state (mse : bool) (i : inst E) (acts : list nat) : st E :=
    run_from i (spec_s0 mse i acts) (spec_free mse acts).
  (* per-step probability of the action taken; the forced step has probability 1 (log-prob 0) *)
  Definition spec_probs (mse : bool) (h : Hd) (i : inst E) (acts : list nat) : list K :=
    (if mse then [f1] else []) ++ spec_ps h i (spec_s0 mse i acts) (spec_free mse acts).
  (* steps that count: not forced, and flagged relevant *)
  Fixpoint keep (bs : list bool) (ps : list K) : list K :=
    match bs, ps with
    | b :: bs', p :: ps' => if b then p :: keep bs' ps' else keep bs' ps'
    | _, _ => []
    end.
  Definition relevant (fl : option (list bool)) (ps : list K) : list K :=
    match fl with None => ps | Some bs => keep bs ps end.

  (* the buffers as a function of the returned actions *)
  Fixpoint trace_buf (sa : bool) (h : Hd) (i : inst E) (s : st E) (acts : list nat) : list pent :=
    match acts with [] => [] | a :: r => entry sa (probs h i s) a :: trace_buf sa h i (step E i s a) r end.
  Definition buf_spec (sa mse : bool) (h : Hd) (i : inst E) (acts : list nat) : list pent :=
    (if mse then [forced_entry sa i (spec_s0 mse i acts)] else [])
    ++ trace_buf sa h i (spec_s0 mse i acts) (spec_free mse acts).

  (* ------------------------------------------------------------------ basic list facts *)
  Lemma trace_buf_snoc sa h i s acts a :
    trace_buf sa h i s (acts ++ [a]) = trace_buf sa h i s acts ++ [entry sa (probs h i (run_from i s acts)) a].
  Proof. revert s. induction acts as [|x acts IH]; intros s; cbn [app trace_buf run_from]; [reflexivity|]. rewrite IH. reflexivity. Qed.

  Lemma trace_buf_length sa h i s acts : length (trace_buf sa h i s acts) = length acts.
  Proof. revert s. induction acts as [|x acts IH]; intros s; cbn [trace_buf length]; [reflexivity|]. rewrite IH. reflexivity. Qed.

  Lemma gathered_entry sa pr a : gathered (entry sa pr a) a = nth a pr f0.
  Proof. unfold entry. destruct sa; reflexivity. Qed.

  Lemma gather_trace_buf sa h i s acts : gather_ps (trace_buf sa h i s acts) acts = spec_ps h i s acts.
  Proof.
    unfold gather_ps. revert s. induction acts as [|a acts IH]; intros s; cbn [trace_buf map2 spec_ps]; [reflexivity|].
    rewrite gathered_entry, IH. reflexivity.
  Qed.

  Lemma vectors_trace_buf h i s acts :
    map (fun ent => match ent with PVec v => v | PScal p => [p] end) (trace_buf true h i s acts) = spec_vecs h i s acts.
  Proof. revert s. induction acts as [|a acts IH]; intros s; cbn [trace_buf map spec_vecs entry]; [reflexivity|]. rewrite IH. reflexivity. Qed.

  Lemma run_from_snoc (i : inst E) s acts a : run_from i s (acts ++ [a]) = step E i (run_from i s acts) a.
  Proof. rewrite run_from_app. reflexivity. Qed.

  (* ------------------------------------------------------------------ the row invariant *)
  (* "this row is what the specification computes from its own action list" *)
  Definition Inv (sa mse : bool) (cr : brow) : Prop :=
    let c := fst cr in let r := snd cr in
    (mse = true -> r_acts r <> []) /\
    r_s r = spec_state mse (rc_i c) (r_acts r) /\
    r_buf r = buf_spec sa mse (rc_h c) (rc_i c) (r_acts r).

  Lemma Inv_fresh sa c : Inv sa false (fresh c).
  Proof. unfold Inv, fresh. cbn. repeat split. discriminate. Qed.

  Lemma Inv_forced sa c a0 : Inv sa true (forced sa c a0).
  Proof. unfold Inv, forced. cbn. repeat split. discriminate. Qed.

  Lemma spec_free_snoc mse acts a : (mse = true -> acts <> []) -> spec_free mse (acts ++ [a]) = spec_free mse acts ++ [a].
  Proof. destruct mse; cbn; [|reflexivity]. intros H. destruct acts; [exfalso; apply H; reflexivity | reflexivity]. Qed.

  Lemma spec_s0_snoc mse i acts a : (mse = true -> acts <> []) -> spec_s0 mse i (acts ++ [a]) = spec_s0 mse i acts.
  Proof. destruct mse; cbn; [|reflexivity]. intros H. destruct acts; [exfalso; apply H; reflexivity | reflexivity]. Qed.

  Lemma Inv_step m sa mse k cr : Inv sa mse cr -> Inv sa mse (bstep m sa k cr).
  Proof.
    destruct cr as [c r]. unfold Inv, bstep. cbn [fst snd]. intros (Hne & Hs & Hb).
    set (a := select m k c (probs (rc_h c) (rc_i c) (r_s r))).
    unfold step_row. fold a. cbn [r_s r_buf r_acts]. split; [|split].
    - intros _ C. apply app_eq_nil in C as [_ C]. discriminate.
    - unfold spec_state. rewrite spec_s0_snoc, spec_free_snoc by exact Hne. rewrite run_from_snoc.
      unfold spec_state in Hs. rewrite <- Hs. reflexivity.
    - unfold buf_spec. rewrite spec_s0_snoc, spec_free_snoc by exact Hne. rewrite trace_buf_snoc, app_assoc.
      unfold buf_spec in Hb. rewrite <- Hb. unfold spec_state in Hs. rewrite <- Hs. reflexivity.
  Qed.

  Lemma Inv_loop m sa mse fuel k rows : Forall (Inv sa mse) rows -> Forall (Inv sa mse) (loop m sa fuel k rows).
  Proof.
    revert k rows. induction fuel as [|f IH]; intros k rows H; cbn [loop]; [exact H|].
    destruct (forallb row_done rows); [exact H|]. apply IH.
    apply Forall_forall. intros x Hx. apply in_map_iff in Hx as (cr & <- & Hcr). apply Inv_step.
    rewrite Forall_forall in H. apply H. exact Hcr.
  Qed.

  Lemma Forall_map2 {A B C} (P : C -> Prop) (f : A -> B -> C) a b : (forall x y, P (f x y)) -> Forall P (map2 f a b).
  Proof. intros H. revert b. induction a as [|x a IH]; intros [|y b]; cbn [map2]; constructor; auto. Qed.

  Lemma Inv_pre sa ms S cfgs starts ors : Forall (Inv sa (ms_eff ms S)) (pre_hook sa ms S cfgs starts ors).
  Proof.
    unfold pre_hook. destruct (ms_eff ms S).
    - apply Forall_map2. intros c a0. apply Inv_forced.
    - apply Forall_forall. intros x Hx. apply in_map_iff in Hx as (c & <- & _). apply Inv_fresh.
  Qed.

  (* _select_best returns rows of the batch it was given (rows, action lists and buffers of the SAME rollout) *)
  Lemma zip3_leaves (ot : list (nest (rowcfg * st E))) (ol : list (nest (list pent))) (oa : list (nest (list nat)))
        (rows : list brow) (P : brow -> Prop) :
    Forall P rows ->
    (forall b, b < length ot -> exists r,
        nth_error oa b = option_map (@Leaf _) (nth_error (map (fun cr => r_acts (snd cr)) rows) r) /\
        nth_error ol b = option_map (@Leaf _) (nth_error (map (fun cr => r_buf (snd cr)) rows) r) /\
        nth_error ot b = option_map (@Leaf _) (nth_error (map (fun cr => (fst cr, r_s (snd cr))) rows) r)) ->
    length ol = length ot -> length oa = length ot ->
    Forall P (zip3 (flat (Node ot)) (flat (Node ol)) (flat (Node oa))).
  Proof.
    intros HP. revert ol oa. induction ot as [|t ot IH]; intros ol oa H Hl Ha.
    - cbn. constructor.
    - destruct ol as [|l ol]; [discriminate|]. destruct oa as [|a oa]; [discriminate|].
      destruct (H 0 ltac:(cbn; lia)) as (r & Ea & El & Et). cbn [nth_error] in Ea, El, Et.
      rewrite !nth_error_map in Ea, El, Et.
      revert Ea El Et. destruct (@nth_error (rowcfg * rowst) rows r) as [cr|] eqn:Er; cbn [option_map]; intros Ea El Et; [|discriminate].
      inversion Ea; inversion El; inversion Et; subst.
      cbn [flat]. cbn [flat concat map app zip3].
      change (concat (map (@flat _) ot)) with (flat (Node ot)).
      change (concat (map (@flat _) ol)) with (flat (Node ol)).
      change (concat (map (@flat _) oa)) with (flat (Node oa)).
      constructor.
      + cbn [fst snd]. assert (Hin : In cr rows) by (eapply nth_error_In; eassumption).
        rewrite Forall_forall in HP. specialize (HP cr Hin). destruct cr as [c [s b a']]. exact HP.
      + apply IH; [|cbn in Hl; lia | cbn in Ha; lia].
        intros b Hb. destruct (H (S b) ltac:(cbn; lia)) as (r' & E1 & E2 & E3). exists r'. cbn [nth_error] in E1, E2, E3. auto.
  Qed.

  Lemma post_hook_sub S sb rows outs (P : brow -> Prop) :
    post_hook S sb rows = Some outs -> Forall P rows -> Forall P outs.
  Proof.
    unfold post_hook. match goal with |- context [if ?b then None else _] => destruct b end; [discriminate|].
    destruct ((0 <? S) && sb) eqn:Esb; [|intros Hx; inversion Hx; subst; auto].
    intros Hsel HP.
    destruct (select_best S (rewards rows) _ _ _) as [[[lb la] lt]|] eqn:Esel; [|discriminate].
    inversion Hsel; subst outs; clear Hsel.
    (* use C12's select_best_correct when the shapes are right; otherwise select_best = None *)
    apply andb_prop in Esb as [HS _]. apply Nat.ltb_lt in HS.
    destruct (Nat.eq_dec (length rows mod S) 0) as [Hmod|Hmod].
    - assert (Hlen : length rows = S * (length rows / S)).
      { pose proof (Nat.div_mod (length rows) S ltac:(lia)). lia. }
      destruct (select_best_correct (k := S) (length rows / S) (rewards rows)
                  (map (fun cr => r_acts (snd cr)) rows) (map (fun cr => r_buf (snd cr)) rows)
                  (map (fun cr => (fst cr, r_s (snd cr))) rows))
        as (ol & oa & ot & Hsb & Hlol & Hloa & Hlot & Hrows);
        try (unfold rewards; rewrite map_length; exact Hlen); try lia.
      rewrite Hsb in Esel. inversion Esel; subst.
      apply zip3_leaves with (rows := rows); try assumption; try lia.
      intros b Hb. destruct (Hrows b ltac:(lia)) as (r & _ & E1 & E2 & E3). exists r. auto.
    - exfalso. unfold select_best, max_idxs in Esel.
      rewrite unbatchify_single_none in Esel by (unfold rewards; rewrite map_length; exact Hmod). discriminate.
  Qed.

  (* ================================================================== THEOREM ll_is_sum (structural core) *)
  (* every returned row is what the specification computes from the row's own returned actions *)
  Theorem forward_rows_spec m sa ms S sb fuel cfgs starts ors outs :
    forward m sa ms S sb fuel cfgs starts ors = Some outs ->
    Forall (Inv sa (ms_eff ms S)) outs.
  Proof.
    unfold forward. intros H. eapply post_hook_sub; [exact H|]. apply Inv_loop. apply Inv_pre.
  Qed.

  (* the gathered per-step probabilities of a row satisfying the invariant *)
  Definition forced_p (sa : bool) (i : inst E) (acts : list nat) : K :=
    gathered (forced_entry sa i (spec_s0 true i acts)) (hd 0 acts).

  Lemma gather_buf_spec sa mse h i acts : (mse = true -> acts <> []) ->
    gather_ps (buf_spec sa mse h i acts) acts =
    (if mse then [forced_p sa i acts] else []) ++ spec_ps h i (spec_s0 mse i acts) (spec_free mse acts).
  Proof.
    intros Hne. unfold buf_spec. destruct mse.
    - destruct acts as [|a0 t]; [exfalso; apply Hne; reflexivity|].
      cbn [spec_free tl app]. unfold gather_ps. cbn [map2]. fold (gather_ps (trace_buf sa h i (spec_s0 true i (a0 :: t)) t) t).
      rewrite gather_trace_buf. reflexivity.
    - cbn [app spec_free]. apply gather_trace_buf.
  Qed.

  Lemma forced_p_one sa i acts :
    (sa = true -> hd 0 acts < length (mask E i (spec_s0 true i acts))) -> forced_p sa i acts = f1.
  Proof.
    unfold forced_p, forced_entry. destruct sa; [|reflexivity]. intros H. cbn [gathered].
    rewrite (nth_map_in _ _ _ false) by (apply H; reflexivity). reflexivity.
  Qed.

  (* the observables of a returned row, as functions of its returned actions *)
  Definition spec_ll_steps (sa mse : bool) (c : rowcfg) (s : st E) (acts : list nat) : list G :=
    map lg (flagz (flagf (rc_i c) s)
                  ((if mse then [forced_p sa (rc_i c) acts] else [])
                   ++ spec_ps (rc_h c) (rc_i c) (spec_s0 mse (rc_i c) acts) (spec_free mse acts))).

  Theorem row_ll_steps sa mse cr : Inv sa mse cr ->
    out_ll_steps cr = spec_ll_steps sa mse (fst cr) (spec_state mse (rc_i (fst cr)) (r_acts (snd cr))) (r_acts (snd cr)).
  Proof.
    intros (Hne & Hs & Hb). unfold out_ll_steps, out_ps, out_flags, spec_ll_steps.
    rewrite Hb, gather_buf_spec by exact Hne. rewrite <- Hs. reflexivity.
  Qed.

  (* in a plain (non-multistart) pass: LL = sum_t lg ( P(s_t)[a_t] ), s_t = the state reached by a_0 .. a_{t-1} *)
  Theorem ll_is_sum_plain m sa S sb fuel cfgs starts ors outs :
    forward m sa false S sb fuel cfgs starts ors = Some outs ->
    forall cr, In cr outs ->
      let c := fst cr in let acts := r_acts (snd cr) in
      r_s (snd cr) = run_from (rc_i c) (reset E (rc_i c)) acts /\
      out_ll_steps cr = map lg (flagz (out_flags cr) (spec_ps (rc_h c) (rc_i c) (reset E (rc_i c)) acts)) /\
      out_ll cr = gsum (map lg (flagz (out_flags cr) (spec_ps (rc_h c) (rc_i c) (reset E (rc_i c)) acts))) /\
      out_reward cr = rew (rc_i c) (run_from (rc_i c) (reset E (rc_i c)) acts) acts.
  Proof.
    intros H cr Hin. pose proof (forward_rows_spec _ _ _ _ _ _ _ _ _ _ H) as HI.
    rewrite Forall_forall in HI. specialize (HI cr Hin).
    replace (ms_eff false S) with false in HI by (unfold ms_eff; rewrite andb_false_r; reflexivity).
    pose proof (row_ll_steps _ _ _ HI) as Hll. destruct HI as (_ & Hs & _).
    cbv zeta. unfold spec_state, spec_s0, spec_free in Hs. repeat split.
    - exact Hs.
    - rewrite Hll. unfold spec_ll_steps, out_flags, spec_state. cbn [spec_s0 spec_free app]. rewrite <- Hs. reflexivity.
    - unfold out_ll. rewrite Hll. unfold spec_ll_steps, out_flags, spec_state. cbn [spec_s0 spec_free app]. rewrite <- Hs. reflexivity.
    - unfold out_reward. rewrite Hs at 1. reflexivity.
  Qed.

  (* in a multistart pass: the first returned action is the forced start a0, taken from reset; its entry is forced_p
     (= 1, i.e. log-prob 0, see forced_p_one); the others are scored in the states reached from step(reset, a0) *)
  Theorem ll_is_sum_multistart m sa S sb fuel cfgs starts ors outs :
    (1 <= S) ->
    forward m sa true S sb fuel cfgs starts ors = Some outs ->
    forall cr, In cr outs ->
      let c := fst cr in
      exists a0 rest, r_acts (snd cr) = a0 :: rest /\
        let s1 := step E (rc_i c) (reset E (rc_i c)) a0 in
        r_s (snd cr) = run_from (rc_i c) s1 rest /\
        out_ll_steps cr = map lg (flagz (out_flags cr) (forced_p sa (rc_i c) (a0 :: rest) :: spec_ps (rc_h c) (rc_i c) s1 rest)) /\
        out_ll cr = gsum (map lg (flagz (out_flags cr) (forced_p sa (rc_i c) (a0 :: rest) :: spec_ps (rc_h c) (rc_i c) s1 rest))).
  Proof.
    intros HS H cr Hin. pose proof (forward_rows_spec _ _ _ _ _ _ _ _ _ _ H) as HI.
    rewrite Forall_forall in HI. specialize (HI cr Hin).
    replace (ms_eff true S) with true in HI by (unfold ms_eff; symmetry; rewrite andb_true_r; apply Nat.leb_le; exact HS).
    pose proof (row_ll_steps _ _ _ HI) as Hll. destruct HI as (Hne & Hs & _).
    destruct (r_acts (snd cr)) as [|a0 rest] eqn:Ea; [exfalso; apply Hne; reflexivity|].
    cbv zeta. exists a0, rest. split; [reflexivity|].
    unfold spec_state in Hs. cbn [spec_s0 spec_free hd tl] in Hs. repeat split.
    - exact Hs.
    - rewrite Hll. unfold spec_ll_steps, out_flags, spec_state. cbn [spec_s0 spec_free hd tl app]. rewrite <- Hs. reflexivity.
    - unfold out_ll. rewrite Hll. unfold spec_ll_steps, out_flags, spec_state. cbn [spec_s0 spec_free hd tl app]. rewrite <- Hs. reflexivity.
  Qed.


  (* ================================================================== the batch loop as n synchronous row steps *)
  Definition after (m : mode) (sa : bool) (j k : nat) (rows : list brow) : list brow :=
    map (fun cr => (fst cr, iter m sa (fst cr) j k (snd cr))) rows.

  Lemma after_0 m sa k rows : after m sa 0 k rows = rows.
  Proof. unfold after. induction rows as [|[c r] rows IH]; cbn [map]; [reflexivity|]. rewrite IH. reflexivity. Qed.

  Lemma after_S m sa j k rows : after m sa (S j) k rows = after m sa j (S k) (map (bstep m sa k) rows).
  Proof. unfold after. rewrite map_map. reflexivity. Qed.

  Lemma after_length m sa j k rows : length (after m sa j k rows) = length rows.
  Proof. apply map_length. Qed.

  (* the loop runs n rounds, n = the first round after which every row is done (or the fuel) *)
  Lemma loop_iter m sa fuel k rows :
    exists n, n <= fuel /\ loop m sa fuel k rows = after m sa n k rows /\
              (forall j, j < n -> forallb row_done (after m sa j k rows) = false) /\
              (n = fuel \/ forallb row_done (after m sa n k rows) = true).
  Proof.
    revert k rows. induction fuel as [|f IH]; intros k rows.
    - exists 0. cbn [loop]. rewrite after_0. repeat split; auto; try (intros j Hj; lia).
    - cbn [loop]. destruct (forallb row_done rows) eqn:D.
      + exists 0. rewrite after_0. repeat split; auto; try lia; try (intros j Hj; lia).
      + destruct (IH (S k) (map (bstep m sa k) rows)) as (n & Hn & Hl & Hlt & Hend).
        exists (S n). rewrite after_S. repeat split; try lia; try assumption.
        intros [|j] Hj; [rewrite after_0; exact D | rewrite after_S; apply Hlt; lia].
  Qed.

  (* ------------------------------------------------------------------ one row: actions only grow *)
  Lemma iter_add m sa c j d k r : iter m sa c (j + d) k r = iter m sa c d (k + j) (iter m sa c j k r).
  Proof.
    revert k r. induction j as [|j IH]; intros k r; cbn [plus iter].
    - rewrite Nat.add_0_r. reflexivity.
    - rewrite IH. replace (S k + j) with (k + S j) by lia. reflexivity.
  Qed.

  Lemma iter_acts m sa c n k r : exists suf, length suf = n /\ r_acts (iter m sa c n k r) = r_acts r ++ suf.
  Proof.
    revert k r. induction n as [|n IH]; intros k r; cbn [iter].
    - exists []. rewrite app_nil_r. auto.
    - destruct (IH (S k) (step_row m sa k c r)) as (suf & Hl & Hs). unfold step_row in Hs at 2. cbn [r_acts] in Hs.
      eexists (_ :: suf). split; [cbn [length]; rewrite Hl; reflexivity|]. rewrite Hs, <- app_assoc. reflexivity.
  Qed.

  Lemma iter_acts_length m sa c n k r : length (r_acts (iter m sa c n k r)) = length (r_acts r) + n.
  Proof. destruct (iter_acts m sa c n k r) as (suf & Hl & ->). rewrite app_length, Hl. reflexivity. Qed.

  Lemma iter_acts_prefix m sa c j n k r : j <= n ->
    exists suf, r_acts (iter m sa c n k r) = r_acts (iter m sa c j k r) ++ suf.
  Proof.
    intros Hj. replace n with (j + (n - j)) by lia. rewrite iter_add.
    destruct (iter_acts m sa c (n - j) (k + j) (iter m sa c j k r)) as (suf & _ & Hs). exists suf. exact Hs.
  Qed.

  Lemma step_row_acts_length m sa k c r : length (r_acts (step_row m sa k c r)) = S (length (r_acts r)).
  Proof. unfold step_row. cbn [r_acts]. rewrite app_length. cbn [length]. lia. Qed.

  (* ------------------------------------------------------------------ evaluate replays a row *)
  (* Evaluate on a row whose given actions, from position k on, are the actions the other run appended:
     same states, same actions (whatever store_all_logp is in either run) *)
  Lemma iter_replay m sa sa' c cE : rc_h cE = rc_h c -> rc_i cE = rc_i c ->
    forall j k r rE, r_s rE = r_s r -> r_acts rE = r_acts r ->
      (forall t, t < j -> nth (k + t) (rc_or cE) 0 = nth (length (r_acts r) + t) (r_acts (iter m sa c j k r)) 0) ->
      r_s (iter Evaluate sa' cE j k rE) = r_s (iter m sa c j k r) /\
      r_acts (iter Evaluate sa' cE j k rE) = r_acts (iter m sa c j k r).
  Proof.
    intros Hh Hi. induction j as [|j IH]; intros k r rE Hs Ha Hor; cbn [iter]; [auto|].
    set (a := select m k c (probs (rc_h c) (rc_i c) (r_s r))).
    assert (Ea : select Evaluate k cE (probs (rc_h cE) (rc_i cE) (r_s rE)) = a).
    { cbn [select]. specialize (Hor 0 ltac:(lia)). rewrite !Nat.add_0_r in Hor. rewrite Hor. cbn [iter].
      destruct (iter_acts m sa c j (S k) (step_row m sa k c r)) as (suf & _ & ->).
      unfold step_row at 1. cbn [r_acts]. fold a. rewrite <- app_assoc. rewrite app_nth2 by lia.
      rewrite Nat.sub_diag. reflexivity. }
    apply IH.
    - unfold step_row. cbn [r_s]. rewrite Ea. fold a. rewrite Hi, Hs. reflexivity.
    - unfold step_row. cbn [r_acts]. rewrite Ea. fold a. rewrite Ha. reflexivity.
    - intros t Ht. specialize (Hor (S t) ltac:(lia)). cbn [iter] in Hor.
      replace (S k + t) with (k + S t) by lia. rewrite Hor. rewrite step_row_acts_length. f_equal. lia.
  Qed.

  (* ... and raises nothing that the other run did not raise *)
  Lemma iter_ok_replay m sa sa' c cE : rc_h cE = rc_h c -> rc_i cE = rc_i c ->
    forall j k r rE, r_s rE = r_s r -> r_acts rE = r_acts r ->
      (forall t, t < j -> nth (k + t) (rc_or cE) 0 = nth (length (r_acts r) + t) (r_acts (iter m sa c j k r)) 0) ->
      k + j <= length (rc_or cE) ->
      iter_ok m sa c j k r = true -> iter_ok Evaluate sa' cE j k rE = true.
  Proof.
    intros Hh Hi. induction j as [|j IH]; intros k r rE Hs Ha Hor Hlen Hok; cbn [iter_ok]; [reflexivity|].
    cbn [iter_ok] in Hok. apply andb_prop in Hok as [Hok1 Hok2].
    set (a := select m k c (probs (rc_h c) (rc_i c) (r_s r))).
    assert (Ea : select Evaluate k cE (probs (rc_h cE) (rc_i cE) (r_s rE)) = a).
    { cbn [select]. specialize (Hor 0 ltac:(lia)). rewrite !Nat.add_0_r in Hor. rewrite Hor. cbn [iter].
      destruct (iter_acts m sa c j (S k) (step_row m sa k c r)) as (suf & _ & ->).
      unfold step_row at 1. cbn [r_acts]. fold a. rewrite <- app_assoc. rewrite app_nth2 by lia.
      rewrite Nat.sub_diag. reflexivity. }
    apply andb_true_intro. split.
    - unfold step_ok in *. rewrite Ea. fold a in Hok1. rewrite Hh, Hi, Hs.
      apply andb_prop in Hok1 as [Hok1 Hc]. apply andb_prop in Hok1 as [_ Hb].
      rewrite Hb, Hc, !andb_true_r. cbn [select_ok]. apply Nat.ltb_lt. lia.
    - apply (IH (S k) (step_row m sa k c r)).
      + unfold step_row. cbn [r_s]. rewrite Ea. fold a. rewrite Hi, Hs. reflexivity.
      + unfold step_row. cbn [r_acts]. rewrite Ea. fold a. rewrite Ha. reflexivity.
      + intros t Ht. specialize (Hor (S t) ltac:(lia)). cbn [iter] in Hor.
        replace (S k + t) with (k + S t) by lia. rewrite Hor. rewrite step_row_acts_length. f_equal. lia.
      + lia.
      + exact Hok2.
  Qed.

  (* ------------------------------------------------------------------ the batch: evaluate replays the batch *)
  Definition same_core (o oE : brow) : Prop :=
    rc_h (fst oE) = rc_h (fst o) /\ rc_i (fst oE) = rc_i (fst o) /\
    r_s (snd oE) = r_s (snd o) /\ r_acts (snd oE) = r_acts (snd o).

  Lemma row_done_core a b : Forall2 same_core a b -> forallb row_done b = forallb row_done a.
  Proof.
    induction 1 as [|x y a b (Hh & Hi & Hs & Ha) _ IH]; [reflexivity|]. cbn [forallb]. rewrite IH.
    unfold row_done. rewrite Hi, Hs. reflexivity.
  Qed.

  Lemma Forall2_map_both {A B C D} (R : C -> D -> Prop) (f : A -> C) (g : B -> D) a b :
    Forall2 (fun x y => R (f x) (g y)) a b -> Forall2 R (map f a) (map g b).
  Proof. induction 1; cbn [map]; constructor; auto. Qed.

  Lemma Forall2_impl' {A B} (R R' : A -> B -> Prop) a b :
    (forall x y, In x a -> R x y -> R' x y) -> Forall2 R a b -> Forall2 R' a b.
  Proof.
    intros H F. induction F as [|x y a b Hxy _ IH]; constructor.
    - apply H; [left; reflexivity | exact Hxy].
    - apply IH. intros x' y' Hin. apply H. right. exact Hin.
  Qed.

  (* rowsE : the rows the evaluating pass starts from; its given actions continue each row of the other pass *)
  Definition replays (m : mode) (sa : bool) (n : nat) (cr crE : brow) : Prop :=
    rc_h (fst crE) = rc_h (fst cr) /\ rc_i (fst crE) = rc_i (fst cr) /\
    r_s (snd crE) = r_s (snd cr) /\ r_acts (snd crE) = r_acts (snd cr) /\
    rc_or (fst crE) = skipn (length (r_acts (snd cr))) (r_acts (iter m sa (fst cr) n 0 (snd cr))).

  Lemma after_replay m sa sa' n rows rowsE j : j <= n ->
    Forall2 (replays m sa n) rows rowsE ->
    Forall2 same_core (after m sa j 0 rows) (after Evaluate sa' j 0 rowsE).
  Proof.
    intros Hj F. unfold after. apply Forall2_map_both. revert F. apply Forall2_impl'.
    intros [c r] [cE rE] _ (Hh & Hi & Hs & Ha & Hor). cbn [fst snd] in *.
    unfold same_core. cbn [fst snd]. split; [exact Hh|]. split; [exact Hi|].
    apply (iter_replay m sa sa' c cE Hh Hi j 0 r rE Hs Ha).
    intros t Ht. rewrite Hor. cbn [plus]. rewrite nth_skipn'.
    destruct (iter_acts_prefix m sa c j n 0 r Hj) as (suf & ->).
    rewrite app_nth1 by (rewrite iter_acts_length; lia). reflexivity.
  Qed.

  Theorem loop_replay m sa sa' fuel rows rowsE n :
    n <= fuel ->
    (forall j, j < n -> forallb row_done (after m sa j 0 rows) = false) ->
    (n = fuel \/ forallb row_done (after m sa n 0 rows) = true) ->
    Forall2 (replays m sa n) rows rowsE ->
    loop Evaluate sa' fuel 0 rowsE = after Evaluate sa' n 0 rowsE /\
    Forall2 same_core (after m sa n 0 rows) (after Evaluate sa' n 0 rowsE).
  Proof.
    intros Hn Hlt Hend F.
    destruct (loop_iter Evaluate sa' fuel 0 rowsE) as (nE & HnE & HlE & HltE & HendE).
    assert (Hdn : forall j, j <= n -> forallb row_done (after Evaluate sa' j 0 rowsE) = forallb row_done (after m sa j 0 rows)).
    { intros j Hj. apply row_done_core. apply after_replay with (n := n); assumption. }
    assert (nE = n) as ->.
    { destruct (Nat.lt_trichotomy nE n) as [C|[C|C]]; [|exact C|]; exfalso.
      - destruct HendE as [->|HendE]; [lia|]. rewrite Hdn in HendE by lia. rewrite Hlt in HendE by exact C. discriminate.
      - pose proof (HltE n C) as D. rewrite Hdn in D by lia. destruct Hend as [->|Hend]; [lia|]. rewrite Hend in D. discriminate. }
    split; [exact HlE|]. apply after_replay with (n := n); [lia | exact F].
  Qed.

  (* ------------------------------------------------------------------ rows satisfying the invariant: buffers and actions *)
  Lemma Inv_buf_length sa mse cr : Inv sa mse cr -> length (r_buf (snd cr)) = length (r_acts (snd cr)).
  Proof.
    intros (Hne & _ & Hb). rewrite Hb. unfold buf_spec. rewrite app_length, trace_buf_length.
    destruct mse; cbn [length spec_free]; [|reflexivity].
    destruct (r_acts (snd cr)); [exfalso; apply Hne; reflexivity | reflexivity].
  Qed.

  Lemma nobuf_core sa sa' mse a b :
    Forall (Inv sa mse) a -> Forall (Inv sa' mse) b -> Forall2 same_core a b -> forallb nobuf b = forallb nobuf a.
  Proof.
    intros Ia Ib F. induction F as [|x y a b (_ & _ & _ & Hacts) _ IH]; [reflexivity|].
    inversion Ia; inversion Ib; subst. cbn [forallb]. rewrite IH by assumption. f_equal.
    unfold nobuf.
    pose proof (Inv_buf_length _ _ _ H1) as L1. pose proof (Inv_buf_length _ _ _ H5) as L2. rewrite Hacts in L2.
    destruct (r_buf (snd y)), (r_buf (snd x)); cbn [length] in *; try reflexivity; lia.
  Qed.

  Lemma Forall2_map_r {A B} (R : A -> B -> Prop) (f : A -> B) l : (forall x, In x l -> R x (f x)) -> Forall2 R l (map f l).
  Proof. induction l as [|x l IH]; intros H; cbn [map]; constructor; [apply H; left; reflexivity | apply IH; intros y Hy; apply H; right; exact Hy]. Qed.

  Lemma Forall2_diag {A} (R : A -> A -> Prop) l : (forall x, In x l -> R x x) -> Forall2 R l l.
  Proof. induction l as [|x l IH]; intros H; constructor; [apply H; left; reflexivity | apply IH; intros y Hy; apply H; right; exact Hy]. Qed.

  Lemma map2_map_same {A B C D} (f : B -> C -> D) (g : A -> B) (h : A -> C) l :
    map2 f (map g l) (map h l) = map (fun x => f (g x) (h x)) l.
  Proof. induction l as [|x l IH]; cbn [map map2]; [reflexivity|]. rewrite IH. reflexivity. Qed.

  (* ================================================================== THEOREM eval_roundtrip (plain passes) *)
  (* A pass in any mode without forced starts and without select_best (greedy, sampling, multisample), then
     policy(td, env, actions=returned actions) on the SAME batch: evaluate returns, row by row, the same actions and
     the same final state; every returned row is again the specification's function of its actions (Inv), so
     per-step vectors, log-likelihood, reward and entropy are those of the first pass. *)
  Theorem eval_roundtrip m sa sa' ms S fuel cfgs starts ors outs :
    ms_eff ms S = false ->
    forward m sa ms S false fuel cfgs starts ors = Some outs ->
    exists outsE,
      forward Evaluate sa' false 0 false fuel
              (map (fun cr => (rc_h (fst cr), rc_i (fst cr))) outs) [] (map (fun cr => r_acts (snd cr)) outs) = Some outsE /\
      Forall2 same_core outs outsE /\ Forall (Inv sa' false) outsE.
  Proof.
    intros Hms H. unfold forward in H.
    set (rows0 := pre_hook sa ms S cfgs starts ors) in *.
    destruct (loop_iter m sa fuel 0 rows0) as (n & Hn & Hl & Hlt & Hend).
    assert (Hout : outs = after m sa n 0 rows0).
    { unfold post_hook in H. destruct (forallb _ _) in H; [discriminate|]. rewrite andb_false_r in H. inversion H. exact Hl. }
    assert (Hfresh : forall cr, In cr rows0 -> cr = fresh (fst cr)).
    { intros cr Hin. unfold rows0, pre_hook in Hin. rewrite Hms in Hin. apply in_map_iff in Hin as (c & <- & _). reflexivity. }
    set (rowsE := pre_hook sa' false 0 (map (fun cr => (rc_h (fst cr), rc_i (fst cr))) outs) []
                          (map (fun cr => r_acts (snd cr)) outs)).
    assert (HrowsE : rowsE = map (fun cr => fresh (mkc (rc_h (fst cr), rc_i (fst cr)) (r_acts (iter m sa (fst cr) n 0 (snd cr))))) rows0).
    { unfold rowsE, pre_hook, expand, ms_eff. cbn [Nat.leb andb]. rewrite map2_map_same, map_map.
      rewrite Hout. unfold after. rewrite map_map. reflexivity. }
    assert (F : Forall2 (replays m sa n) rows0 rowsE).
    { rewrite HrowsE. apply Forall2_map_r. intros cr Hin. rewrite (Hfresh cr Hin) at 1.
      unfold replays, fresh, mkc. cbn [fst snd rc_h rc_i rc_or r_s r_acts length skipn].
      repeat split. rewrite (Hfresh cr Hin) at 2. reflexivity. }
    destruct (loop_replay m sa sa' fuel rows0 rowsE n Hn Hlt Hend F) as (HlE & Fc).
    exists (after Evaluate sa' n 0 rowsE). rewrite <- Hout in Fc.
    assert (IE : Forall (Inv sa' false) (after Evaluate sa' n 0 rowsE)).
    { rewrite <- HlE. apply Inv_loop. unfold rowsE. apply (Inv_pre sa' false 0). }
    split; [|split; assumption].
    unfold forward. fold rowsE. rewrite HlE. unfold post_hook. cbn [Nat.ltb Nat.leb andb].
    assert (I0 : Forall (Inv sa false) outs).
    { rewrite Hout, <- Hl. apply Inv_loop. unfold rows0. rewrite <- Hms. apply Inv_pre. }
    rewrite (nobuf_core sa sa' false outs _ I0 IE Fc).
    unfold post_hook in H. rewrite Hl, <- Hout in H. destruct (forallb nobuf outs); [discriminate | reflexivity].
  Qed.

  (* what same_core + Inv give for the observables (plain passes) *)
  Lemma same_core_observables sa sa' o oE :
    Inv sa false o -> Inv sa' false oE -> same_core o oE ->
    out_ps oE = out_ps o /\ out_ll_steps oE = out_ll_steps o /\ out_ll oE = out_ll o /\ out_ll_ok oE = out_ll_ok o /\
    out_reward oE = out_reward o /\
    (sa' = sa -> r_buf (snd oE) = r_buf (snd o) /\ out_entropy oE = out_entropy o /\ out_vectors oE = out_vectors o).
  Proof.
    intros (Hne & _ & Hb) (HneE & _ & HbE) (Hh & Hi & Hs & Ha).
    assert (Hps : out_ps oE = out_ps o).
    { unfold out_ps, out_flags. rewrite Hb, HbE, !gather_buf_spec by assumption. rewrite Hh, Hi, Hs, Ha. reflexivity. }
    assert (Hbuf : sa' = sa -> r_buf (snd oE) = r_buf (snd o)).
    { intros ->. rewrite Hb, HbE, Hh, Hi, Ha. reflexivity. }
    repeat split.
    - exact Hps.
    - unfold out_ll_steps. rewrite Hps. reflexivity.
    - unfold out_ll, out_ll_steps. rewrite Hps. reflexivity.
    - unfold out_ll_ok, out_flags. rewrite Hps, Hi, Hs, Ha. reflexivity.
    - unfold out_reward. rewrite Hi, Hs, Ha. reflexivity.
    - apply Hbuf. assumption.
    - unfold out_entropy. rewrite Hbuf by assumption. reflexivity.
    - unfold out_vectors. rewrite Hbuf by assumption. reflexivity.
  Qed.


  (* same rows when both passes use the same store_all_logp, with or without forced starts *)
  Lemma same_core_rows sa mse o oE :
    Inv sa mse o -> Inv sa mse oE -> same_core o oE ->
    snd oE = snd o /\ out_ps oE = out_ps o /\ out_ll_steps oE = out_ll_steps o /\ out_ll oE = out_ll o /\
    out_ll_ok oE = out_ll_ok o /\ out_reward oE = out_reward o /\ out_entropy oE = out_entropy o /\
    out_vectors oE = out_vectors o.
  Proof.
    intros (_ & _ & Hb) (_ & _ & HbE) (Hh & Hi & Hs & Ha).
    assert (Hr : snd oE = snd o).
    { destruct o as [c [s b a]], oE as [cE [sE bE aE]]. cbn [fst snd r_s r_buf r_acts] in *. subst. rewrite Hh, Hi. reflexivity. }
    cbv beta delta [out_ps out_ll_steps out_ll out_ll_ok out_flags out_reward out_entropy out_vectors].
    rewrite Hr, Hi. repeat split; reflexivity.
  Qed.

  Lemma Forall2_and3 {A B} (P : A -> Prop) (Q : B -> Prop) (R : A -> B -> Prop) a b :
    Forall P a -> Forall Q b -> Forall2 R a b -> Forall2 (fun x y => P x /\ Q y /\ R x y) a b.
  Proof.
    intros HP HQ F. induction F as [|x y a b Hxy _ IH]; constructor; inversion HP; inversion HQ; subst; auto.
  Qed.

  (* the round trip, on the observables of the output dictionary *)
  Theorem eval_roundtrip_observables m sa sa' ms S fuel cfgs starts ors outs :
    ms_eff ms S = false ->
    forward m sa ms S false fuel cfgs starts ors = Some outs ->
    exists outsE,
      forward Evaluate sa' false 0 false fuel
              (map (fun cr => (rc_h (fst cr), rc_i (fst cr))) outs) [] (map (fun cr => r_acts (snd cr)) outs) = Some outsE /\
      Forall2 (fun o oE =>
                 r_acts (snd oE) = r_acts (snd o) /\ r_s (snd oE) = r_s (snd o) /\
                 out_ll_steps oE = out_ll_steps o /\ out_ll oE = out_ll o /\ out_ll_ok oE = out_ll_ok o /\
                 out_reward oE = out_reward o /\
                 (sa' = sa -> out_vectors oE = out_vectors o /\ out_entropy oE = out_entropy o)) outs outsE.
  Proof.
    intros Hms H. destruct (eval_roundtrip m sa sa' ms S fuel cfgs starts ors outs Hms H) as (outsE & HE & Fc & IE).
    exists outsE. split; [exact HE|].
    pose proof (forward_rows_spec _ _ _ _ _ _ _ _ _ _ H) as I0. rewrite Hms in I0.
    pose proof (Forall2_and3 _ _ _ _ _ I0 IE Fc) as F. revert F. apply Forall2_impl'.
    intros o oE _ (Io & IoE & Hc).
    destruct (same_core_observables sa sa' o oE Io IoE Hc) as (_ & H2 & H3 & H4 & H5 & H6).
    destruct Hc as (_ & _ & Hs & Ha).
    split; [exact Ha|]. split; [exact Hs|]. split; [exact H2|]. split; [exact H3|]. split; [exact H4|]. split; [exact H5|].
    intros Esa. destruct (H6 Esa) as (_ & X & Y). split; assumption.
  Qed.

  (* ------------------------------------------------------------------ multistart: what evaluate does with the forced move *)
  (* Row level, flags absent: a multistart pass returned (a0 :: rest); a plain evaluating pass (the only thing
     policy(td, env, actions=...) can do with those actions) returned the same actions for the same instance.
     The per-step probabilities agree from the second entry on; the first is forced_p (= 1, log-prob 0) in the
     multistart pass and the policy's probability of a0 in the reset state in the evaluating pass. *)
  Theorem eval_scores_forced_move sa sa' o oE :
    Inv sa true o -> Inv sa' false oE ->
    rc_h (fst oE) = rc_h (fst o) -> rc_i (fst oE) = rc_i (fst o) -> r_acts (snd oE) = r_acts (snd o) ->
    exists a0 rest tailps,
      r_acts (snd o) = a0 :: rest /\
      gather_ps (r_buf (snd o)) (r_acts (snd o)) = forced_p sa (rc_i (fst o)) (a0 :: rest) :: tailps /\
      gather_ps (r_buf (snd oE)) (r_acts (snd oE)) =
        nth a0 (probs (rc_h (fst o)) (rc_i (fst o)) (reset E (rc_i (fst o)))) f0 :: tailps /\
      r_s (snd oE) = r_s (snd o).
  Proof.
    intros (Hne & Hs & Hb) (_ & HsE & HbE) Hh Hi Ha.
    destruct (r_acts (snd o)) as [|a0 rest] eqn:Eo; [exfalso; apply Hne; reflexivity|].
    exists a0, rest, (spec_ps (rc_h (fst o)) (rc_i (fst o)) (step E (rc_i (fst o)) (reset E (rc_i (fst o))) a0) rest).
    split; [reflexivity|]. rewrite Hb, HbE, Ha, !gather_buf_spec by (intros; discriminate).
    rewrite Hh, Hi. cbn [spec_s0 spec_free hd tl app spec_ps]. repeat split.
    rewrite Hs, HsE, Hi, Ha. unfold spec_state. cbn [spec_s0 spec_free hd tl run_from]. reflexivity.
  Qed.

  (* ------------------------------------------------------------------ multistart, evaluated the only way that aligns:
     policy(td, env, actions=returned[:, 1:], multistart=True, num_starts=S) with the same start nodes *)
  Lemma map2_map2_combine {A B C D F} (f : D -> C -> F) (g : A -> B -> D) a b c :
    map2 f (map2 g a b) c = map (fun z => f (g (fst (fst z)) (snd (fst z))) (snd z)) (combine (combine a b) c).
  Proof.
    revert b c. induction a as [|x a IH]; intros [|y b] [|z c]; cbn [map2 combine map fst snd]; try reflexivity.
    rewrite IH. reflexivity.
  Qed.

  Lemma combine_reinsert {A B C B'} (f : A * B * C -> B') (a : list A) (b : list B) (c : list C) :
    combine (combine a (map f (combine (combine a b) c))) c
    = map (fun z => (fst (fst z), f z, snd z)) (combine (combine a b) c).
  Proof.
    revert f b c. induction a as [|x a IH]; intros f [|y b] [|z c]; cbn [map combine fst snd]; try reflexivity.
    f_equal. set (g := fun u : A * B * C => f u). specialize (IH f b c). exact IH.
  Qed.

  Theorem eval_roundtrip_multistart_tail m sa S fuel cfgs starts ors outs :
    1 <= S ->
    forward m sa true S false fuel cfgs starts ors = Some outs ->
    exists outsE,
      forward Evaluate sa true S false fuel cfgs starts (map (fun o => tl (r_acts (snd o))) outs) = Some outsE /\
      Forall2 same_core outs outsE /\ Forall (Inv sa true) outsE.
  Proof.
    intros HS H. unfold forward in H.
    assert (Hms : ms_eff true S = true) by (unfold ms_eff; rewrite andb_true_r; apply Nat.leb_le; exact HS).
    set (rows0 := pre_hook sa true S cfgs starts ors) in *.
    destruct (loop_iter m sa fuel 0 rows0) as (n & Hn & Hl & Hlt & Hend).
    assert (Hout : outs = after m sa n 0 rows0).
    { unfold post_hook in H. destruct (forallb _ _) in H; [discriminate|]. rewrite andb_false_r in H. inversion H. exact Hl. }
    set (Z := combine (combine (expand S cfgs) ors) starts).
    set (mk := fun z : (Hd * inst E) * list nat * nat => forced sa (mkc (fst (fst z)) (snd (fst z))) (snd z)).
    assert (Hrows0 : rows0 = map mk Z).
    { unfold rows0, pre_hook. rewrite Hms. apply map2_map2_combine. }
    set (orsE := map (fun o : brow => tl (r_acts (snd o))) outs).
    set (rowsE := pre_hook sa true S cfgs starts orsE).
    set (phi := fun z => tl (r_acts (iter m sa (fst (mk z)) n 0 (snd (mk z))))).
    assert (HorsE : orsE = map phi Z).
    { unfold orsE. rewrite Hout, Hrows0. unfold after. rewrite !map_map. reflexivity. }
    assert (HrowsE : rowsE = map (fun z => forced sa (mkc (fst (fst z)) (phi z)) (snd z)) Z).
    { unfold rowsE, pre_hook. rewrite Hms, map2_map2_combine, HorsE. unfold Z. rewrite combine_reinsert, map_map. reflexivity. }
    assert (F : Forall2 (replays m sa n) rows0 rowsE).
    { rewrite Hrows0, HrowsE. apply Forall2_map_both. apply Forall2_diag. intros z _.
      unfold replays, mk, forced, mkc, phi. cbn [fst snd rc_h rc_i rc_or r_s r_acts length]. repeat split. }
    destruct (loop_replay m sa sa fuel rows0 rowsE n Hn Hlt Hend F) as (HlE & Fc).
    exists (after Evaluate sa n 0 rowsE). rewrite <- Hout in Fc.
    assert (IE : Forall (Inv sa true) (after Evaluate sa n 0 rowsE)).
    { rewrite <- HlE. apply Inv_loop. unfold rowsE. pose proof (Inv_pre sa true S cfgs starts orsE) as X. rewrite Hms in X. exact X. }
    split; [|split; assumption].
    change (post_hook S false (loop Evaluate sa fuel 0 rowsE) = Some (after Evaluate sa n 0 rowsE)).
    rewrite HlE. unfold post_hook. rewrite andb_false_r.
    assert (I0 : Forall (Inv sa true) outs).
    { rewrite Hout, <- Hl. apply Inv_loop. unfold rows0. pose proof (Inv_pre sa true S cfgs starts ors) as X. rewrite Hms in X. exact X. }
    rewrite (nobuf_core sa sa true outs _ I0 IE Fc).
    unfold post_hook in H. rewrite Hl, <- Hout in H. destruct (forallb nobuf outs); [discriminate | reflexivity].
  Qed.

  (* ------------------------------------------------------------------ "contributing zero" *)
  Section Zero.
    Hypothesis lg_1 : lg f1 = g0.
    Hypothesis gadd_0_l : forall x, gadd g0 x = x.

    (* zeroed entries (td["mask"] False) drop out of the sum *)
    Lemma gsum_flagz_keep bs ps : length bs = length ps ->
      gsum (map lg (flagz (Some bs) ps)) = gsum (map lg (keep bs ps)).
    Proof.
      unfold flagz. revert ps. induction bs as [|b bs IH]; intros [|p ps] Hl; cbn in Hl; try lia; cbn [map2 keep map gsum fold_right]; [reflexivity|].
      fold (gsum (map lg (map2 (fun (b0 : bool) p0 => if b0 then p0 else f1) bs ps))). rewrite (IH ps) by lia.
      destruct b; cbn [map gsum fold_right]; [reflexivity|]. rewrite lg_1, gadd_0_l. reflexivity.
    Qed.

    Lemma gsum_flagz_relevant fl ps :
      match fl with None => True | Some bs => length bs = length ps end ->
      gsum (map lg (flagz fl ps)) = gsum (map lg (relevant fl ps)).
    Proof. destruct fl as [bs|]; [apply gsum_flagz_keep | reflexivity]. Qed.

    (* a forced multistart step contributes zero *)
    Lemma gsum_forced ps : gsum (map lg (f1 :: ps)) = gsum (map lg ps).
    Proof. cbn [map gsum fold_right]. rewrite lg_1, gadd_0_l. reflexivity. Qed.
  End Zero.

  (* ------------------------------------------------------------------ log-likelihood = log of the product; PPO ratio *)
  Definition fprod (ps : list K) : K := fold_right fmul f1 ps.

  Lemma fprod_pos ps : forallb (fun p => fltb f0 p) ps = true -> flt f0 (fprod ps).
  Proof.
    induction ps as [|p ps IH]; cbn [forallb fprod fold_right]; intros H.
    - apply (flt_0_1 K).
    - apply andb_prop in H as [Hp H]. apply (fmul_pos K); [exact Hp | apply IH; exact H].
  Qed.

  Section Log.
    Hypothesis lg_1 : lg f1 = g0.
    Hypothesis lg_mul : forall x y, flt f0 x -> flt f0 y -> lg (fmul x y) = gadd (lg x) (lg y).

    Lemma gsum_lg_prod ps : forallb (fun p => fltb f0 p) ps = true -> gsum (map lg ps) = lg (fprod ps).
    Proof.
      induction ps as [|p ps IH]; cbn [forallb map gsum fold_right fprod]; intros H.
      - symmetry. exact lg_1.
      - apply andb_prop in H as [Hp H]. fold (gsum (map lg ps)). fold (fprod ps).
        rewrite IH by exact H. symmetry. apply lg_mul; [exact Hp | apply fprod_pos; exact H].
    Qed.

    (* whenever get_log_likelihood's assertion passes, the returned value is the log of the product of the
       per-step probabilities (this is what ties the executable product representation to the additive one) *)
    Theorem ll_is_log_of_product cr : out_ll_ok cr = true -> out_ll cr = lg (fprod (out_ps cr)).
    Proof.
      unfold out_ll_ok, out_ll, out_ll_steps. intros H. apply andb_prop in H as [_ H]. apply gsum_lg_prod. exact H.
    Qed.

    (* PPO.shared_step: ratio = exp(ll.sum(-1) - sub_td["logprobs"]) *)
    Variable gsub : G -> G -> G.
    Variable ex : G -> K.
    Hypothesis gsub_lg_diag : forall x, flt f0 x -> gsub (lg x) (lg x) = g0.
    Hypothesis ex_0 : ex g0 = f1.
    Definition ppo_ratio (new_steps : list G) (old : G) : K := ex (gsub (gsum new_steps) old).

    Theorem ppo_ratio_one m sa sa' ms S fuel cfgs starts ors outs :
      ms_eff ms S = false ->
      forward m sa ms S false fuel cfgs starts ors = Some outs ->
      exists outsE,
        forward Evaluate sa' false 0 false fuel
                (map (fun cr => (rc_h (fst cr), rc_i (fst cr))) outs) [] (map (fun cr => r_acts (snd cr)) outs) = Some outsE /\
        Forall2 (fun o oE => out_ll_ok o = true -> ppo_ratio (out_ll_steps oE) (out_ll o) = f1) outs outsE.
    Proof.
      intros Hms H. destruct (eval_roundtrip_observables m sa sa' ms S fuel cfgs starts ors outs Hms H) as (outsE & HE & F).
      exists outsE. split; [exact HE|]. revert F. apply Forall2_impl'.
      intros o oE _ (_ & _ & Hst & _) Hok. unfold ppo_ratio. rewrite Hst. fold (out_ll o).
      rewrite (ll_is_log_of_product o Hok). rewrite gsub_lg_diag; [exact ex_0|].
      apply fprod_pos. unfold out_ll_ok in Hok. apply andb_prop in Hok as [_ Hok]. exact Hok.
    Qed.
  End Log.

  (* ------------------------------------------------------------------ padding steps of finished rows *)
  Section Padding.
    Hypothesis e_pos : forall x, flt f0 (e x).
    Hypothesis e_mono : forall x y, lleb x y = fleb (e x) (e y).

    Add Field Kf_dl : (Fth K).

    Lemma fsum_all_zero (l : list K) : (forall t, nth t l f0 = f0) -> fsum l = f0.
    Proof.
      induction l as [|y l IH]; intros H; cbn [fsum]; [reflexivity|].
      pose proof (H 0) as H0. cbn [nth] in H0. rewrite H0, IH by (intros t; apply (H (S t))). ring.
    Qed.

    Lemma fsum_single (l : list K) j : j < length l -> (forall j', j' <> j -> nth j' l f0 = f0) -> fsum l = nth j l f0.
    Proof.
      revert j. induction l as [|x l IH]; intros j Hj Hz; cbn [length] in Hj; [lia|].
      destruct j as [|j]; cbn [fsum nth].
      - rewrite fsum_all_zero by (intros t; apply (Hz (S t)); lia). ring.
      - pose proof (Hz 0 ltac:(lia)) as H0. cbn [nth] in H0. rewrite H0.
        rewrite (IH j) by (try lia; intros j' Hj'; apply (Hz (S j')); lia). ring.
    Qed.

    (* a state that offers exactly one action: the policy gives it probability one (log-prob 0), whatever the network
       says.  This is why the padding steps of finished rows contribute nothing in the routing environments, where a
       finished row is offered the depot only; it is an ENVIRONMENT property, not one of the decode loop. *)
    Theorem probs_single_feasible h i s a :
      mask_logits = true ->
      length (snd (dec h i s)) = length (fst (dec h i s)) ->
      a < length (snd (dec h i s)) -> nth a (snd (dec h i s)) false = true ->
      (forall b, b <> a -> nth b (snd (dec h i s)) false = false) ->
      nth a (probs h i s) f0 = f1.
    Proof.
      intros Hml Hlen Ha Hta Hothers. unfold probs, eff_mask. rewrite Hml.
      set (msk := snd (dec h i s)) in *. set (lgt := fst (dec h i s)) in *.
      assert (Hwf : pl_wf L msk lgt) by (split; [exact Hlen | exists a; auto]).
      rewrite <- (pl_normalised K L lleb e e_pos e_mono clip tmp msk top_p top_k lgt Hwf).
      symmetry. apply fsum_single.
      - rewrite pl_length by exact Hlen. lia.
      - intros b Hb. apply pl_support_masked; [exact e_pos | exact Hlen | apply Hothers; exact Hb].
    Qed.
  End Padding.
End DecodeLoop.

Arguments rc_h {E Hd}. Arguments rc_i {E Hd}. Arguments rc_or {E Hd}. Arguments mkcfg {E Hd}. Arguments mkc {E Hd}.
Arguments r_s {K E}. Arguments r_buf {K E}. Arguments r_acts {K E}. Arguments mkrow {K E}.
Arguments PScal {K}. Arguments PVec {K}.
