(* C12 -- ops.sample_n_random_actions: the replacement test counts the admissible actions WITHOUT column 0, the draw is
   over ALL admissible columns (additions to Decoding/Starts.v; nothing there is changed).

     n_valid_actions = torch.sum(action_mask[:, 1:], 1).min()          # columns 1.. only
     replace = n_valid_actions < n
     ps = torch.rand(action_mask.shape); ps[~action_mask] = -inf; ps = softmax(ps, dim=1)      # column 0 included
     selected = torch.multinomial(ps, n, replacement=replace)

   So an instance whose column 0 is admissible and which has exactly n admissible actions (column 0 among them) is drawn
   WITH replacement although n distinct admissible starts exist: the property "pairwise distinct per instance whenever
   at least n feasible starts exist" fails on a SINGLE-row batch (every TSP-like reset state with n = number of nodes).

     sample_replace_false_iff        the code draws without replacement iff every instance has n admissible actions
                                     among columns 1..
     sample_replace_col0_boundary    column 0 admissible and exactly n admissible actions: with replacement
     sample_n_col0_duplicates_refuted  the witness (n = 3, mask [T;T;T]) *)
From Coq Require Import List Bool Arith Lia ZArith.
From RL4CO Require Import Decoding.Batchify Decoding.Nest Decoding.Starts.
Import ListNotations.

Theorem sample_replace_false_iff n masks :
  sample_replace n masks = false <-> forall m, In m masks -> n <= count_true (tl m).
Proof.
  unfold sample_replace. split.
  - intros H m Hm. destruct (Nat.le_gt_cases n (count_true (tl m))) as [C|C]; [exact C|]. exfalso.
    assert (X : existsb (fun m => count_true (tl m) <? n) masks = true).
    { apply existsb_exists. exists m. split; [exact Hm | apply Nat.ltb_lt; exact C]. }
    congruence.
  - intros H. destruct (existsb _ masks) eqn:Ex; [|reflexivity]. exfalso.
    apply existsb_exists in Ex as (m & Hm & Hlt). apply Nat.ltb_lt in Hlt. specialize (H m Hm). lia.
Qed.

Lemma count_true_hd_tl m : count_true m = (if hd false m then 1 else 0) + count_true (tl m).
Proof. destruct m as [|[|] m]; reflexivity. Qed.

Theorem sample_replace_col0_boundary n masks m :
  In m masks -> hd false m = true -> count_true m = n -> sample_replace n masks = true.
Proof.
  intros Hm Hh Hc. unfold sample_replace. apply existsb_exists. exists m. split; [exact Hm|].
  apply Nat.ltb_lt. rewrite count_true_hd_tl, Hh in Hc. lia.
Qed.

(* the witness: one instance, three admissible actions (column 0 among them), n = 3: the code draws with replacement, and
   a draw that satisfies the contract of torch.multinomial(replacement=True) repeats a start *)
Theorem sample_n_col0_duplicates_refuted :
  exists (n : nat) (masks : list (list bool)) (draw : nat -> nat -> nat) (sel : list nat),
    Forall (fun m => n <= count_true m) masks /\
    draw_positive n masks draw /\
    sample_replace n masks = true /\
    sample_n_random_actions n masks draw = Some sel /\
    starts_of sel (length masks) n 0 = [2; 0; 2].
Proof.
  exists 3, [[true; true; true]], (fun _ j => match j with 1 => 0 | _ => 2 end), [2; 0; 2].
  repeat split.
  - repeat constructor.
  - intros b w j Hb Hj. destruct b as [|b]; cbn in Hb; [injection Hb as <-|destruct b; discriminate].
    destruct j as [|[|j]]; reflexivity.
Qed.
