(* C10 -- model of rl4co/utils/decoding.py : process_logits, modify_logits_for_top_k_filtering,
   modify_logits_for_top_p_filtering, DecodingStrategy.greedy / sampling, for ONE batch row.

   Numbers: an abstract ordered field K (Base/OField.v); logits live in a type L with a boolean order
   [lleb] and weights [e : L -> K] (the exponential): e_pos, e_mono.  [e_mono] is stated as the
   order embedding  lleb x y = (e x <=? e y) ; for a total antisymmetric order on L this is the same as
   "e is strictly increasing" (lemma [e_mono_of_strict] at the end of the first section).
   A masked / filtered logit (-inf in the code) is [None], of weight 0.
   tanh clipping is an arbitrary monotone map  clip : L -> L  (identity when tanh_clipping = 0),
   the temperature division an arbitrary monotone map  tmp : L -> L  (strictly monotone maps are monotone;
   nothing below needs strictness, so float saturation of tanh and of the division is covered too).
   The model returns the probabilities p = exp(log_softmax(..)) ; [log] itself is not modelled. *)
From Coq Require Import List Bool Arith Lia Ring Field Permutation Sorted.
From RL4CO Require Import Base.OField Base.OFieldExtra Decoding.PLTensor.
Import ListNotations.

Section PL.
  Variable K : ofield.
  Open Scope of_scope.
  Add Field Kf_pl : (Fth K).

  Variable L : Type.
  Variable lleb : L -> L -> bool.
  Variable e : L -> K.
  Hypothesis e_pos : forall x, flt f0 (e x).
  Hypothesis e_mono : forall x y, lleb x y = (e x <=? e y).

  (* ------------------------------------------------------------------ masked logits *)
  Definition w (o : option L) : K := match o with None => f0 | Some x => e x end.
  Definition ole (a b : option L) : bool :=
    match a, b with None, _ => true | Some _, None => false | Some x, Some y => lleb x y end.
  Definition oltb (a b : option L) : bool := negb (ole b a).        (* a < b *)
  Definition oeqb (a b : option L) : bool := ole a b && ole b a.
  Definition is_some (o : option L) : bool := match o with Some _ => true | None => false end.
  Definition nfeas (m : list (option L)) : nat := count is_some m.

  (* ------------------------------------------------------------------ the code, line by line *)
  (* logits[~mask] = float("-inf") *)
  Definition mask_fill (mask : list bool) (l : list L) : list (option L) :=
    map2 (fun (b : bool) x => if b then Some x else None) mask l.
  (* logits = logits / temperature *)
  Definition scale (tmp : L -> L) (m : list (option L)) : list (option L) := map (option_map tmp) m.

  (* torch.topk(logits, top_k)[0][..., -1, None] : the k-th largest value *)
  Definition ogeb (a b : option L) : bool := ole b a.
  Definition kth_largest (k : nat) (m : list (option L)) : option L := nth (k - 1) (isort ogeb m) None.
  (* indices_to_remove = logits < kth ; logits.masked_fill(indices_to_remove, -inf) *)
  Definition topk_filter (k : nat) (m : list (option L)) : list (option L) :=
    let v := kth_largest k m in map (fun x => if oltb x v then None else x) m.
  (* if top_k > 0: top_k = min(top_k, logits.size(-1)); ... *)
  Definition topk_stage (top_k : nat) (m : list (option L)) : list (option L) :=
    if (0 <? top_k)%nat then topk_filter (Nat.min top_k (length m)) m else m.

  (* softmax(dim=-1) of a row with -inf entries *)
  Definition softmax (m : list (option L)) : list K :=
    let z := fsum (map w m) in map (fun x => w x / z) m.
  (* cumsum(dim=-1) *)
  Fixpoint cumsum_from (acc : K) (l : list K) : list K :=
    match l with [] => [] | x :: r => (acc + x) :: cumsum_from (acc + x) r end.
  Definition cumsum (l : list K) : list K := cumsum_from f0 l.
  (* torch.sort(logits, descending=False) : sorted_indices (stable: ties keep index order) *)
  Definition argsort_asc (m : list (option L)) : list nat :=
    isort (fun i j => ole (nth i m None) (nth j m None)) (seq 0 (length m)).
  (* logits.masked_fill(indices_to_remove, -inf) *)
  Definition masked_fill (rem : list bool) (m : list (option L)) : list (option L) :=
    map2 (fun (r : bool) x => if r then None else x) rem m.

  Definition topp_filter (p : K) (m : list (option L)) : list (option L) :=
    if (p <=? f0) || (f1 <=? p) then m else                      (* if top_p <= 0.0 or top_p >= 1.0: return logits *)
    let sorted_indices := argsort_asc m in
    let sorted_logits := gather None m sorted_indices in
    let cumulative_probs := cumsum (softmax sorted_logits) in
    let sorted_indices_to_remove := map (fun c => c <=? f1 - p) cumulative_probs in
    let indices_to_remove := scatter sorted_indices sorted_indices_to_remove sorted_indices_to_remove in
    masked_fill indices_to_remove m.
  (* if top_p > 0: ... *)
  Definition topp_stage (p : K) (m : list (option L)) : list (option L) :=
    if fltb f0 p then topp_filter p m else m.

  Definition pre_logits (clip tmp : L -> L) (mask : list bool) (logits : list L) : list (option L) :=
    scale tmp (mask_fill mask (map clip logits)).
  Definition filtered (clip tmp : L -> L) (mask : list bool) (top_p : K) (top_k : nat) (logits : list L) :=
    topp_stage top_p (topk_stage top_k (pre_logits clip tmp mask logits)).
  (* exp of the returned log-probabilities *)
  Definition process_logits (clip tmp : L -> L) (mask : list bool) (top_p : K) (top_k : nat) (logits : list L) : list K :=
    softmax (filtered clip tmp mask top_p top_k logits).

  (* what the code accepts without raising / producing NaN: same lengths, a feasible action, 0 <= top_p <= 1 *)
  Definition pl_wfb (mask : list bool) (top_p : K) (logits : list L) : bool :=
    (length mask =? length logits)%nat && existsb (fun b => b) mask && (f0 <=? top_p) && (top_p <=? f1).

  (* DecodingStrategy.greedy: logprobs.argmax(dim=-1) : (index, value) of the first maximal entry *)
  Fixpoint argmax (l : list K) : nat * K :=
    match l with
    | [] => (0%nat, f0)
    | x :: r =>
        match r with
        | [] => (0%nat, x)
        | _ => let jv := argmax r in if snd jv <=? x then (0%nat, x) else (S (fst jv), snd jv)
        end
    end.
  Definition greedy (pr : list K) : nat := fst (argmax pr).
  (* DecodingStrategy.sampling: torch.multinomial(probs, 1) is any function [draw] that satisfies the contract
     "returns an index of positive weight whenever there is one" (trusted base, DESIGN.md section 7) *)
  Definition multinomial_contract (draw : list K -> nat) : Prop :=
    forall pr, (exists i, flt f0 (nth i pr f0)) -> flt f0 (nth (draw pr) pr f0).
  Definition sampling (draw : list K -> nat) (pr : list K) : nat := draw pr.

  (* ------------------------------------------------------------------ order on masked logits *)
  Lemma ole_w a b : ole a b = (w a <=? w b).
  Proof.
    destruct a as [x|], b as [y|]; cbn [ole w].
    - apply e_mono.
    - symmetry. apply flt_fleb_false. apply e_pos.
    - symmetry. apply (flt_le K). apply e_pos.
    - symmetry. apply fle_refl.
  Qed.

  Lemma ole_refl a : ole a a = true.
  Proof. rewrite ole_w. apply fle_refl. Qed.
  Lemma ole_trans a b c : ole a b = true -> ole b c = true -> ole a c = true.
  Proof. rewrite !ole_w. apply fle_trans. Qed.
  Lemma ole_total a b : ole a b = true \/ ole b a = true.
  Proof. rewrite !ole_w. apply fle_total. Qed.
  Lemma ole_none a : ole None a = true.
  Proof. reflexivity. Qed.
  Lemma ole_some_none x : ole (Some x) None = false.
  Proof. reflexivity. Qed.
  Lemma ogeb_total a b : ogeb a b = true \/ ogeb b a = true.
  Proof. unfold ogeb. apply ole_total. Qed.
  Lemma ogeb_trans a b c : ogeb a b = true -> ogeb b c = true -> ogeb a c = true.
  Proof. unfold ogeb. intros H1 H2. eapply ole_trans; eassumption. Qed.
  Lemma oltb_false_ole a b : oltb a b = false -> ole b a = true.
  Proof. unfold oltb. destruct (ole b a); [reflexivity | discriminate]. Qed.
  Lemma oltb_true_ole a b : oltb a b = true -> ole a b = true.
  Proof. unfold oltb. intros H. destruct (ole_total a b) as [C|C]; [exact C|]. rewrite C in H. discriminate. Qed.
  Lemma ole_some_is_some x b : ole (Some x) b = true -> is_some b = true.
  Proof. destruct b; [reflexivity | discriminate]. Qed.

  Lemma w_nonneg a : fle f0 (w a).
  Proof. destruct a; cbn [w]; [apply (flt_le K); apply e_pos | apply fle_refl]. Qed.
  Lemma w_pos_iff a : flt f0 (w a) <-> is_some a = true.
  Proof.
    destruct a; cbn [w is_some]; split; intros H; try reflexivity; try discriminate.
    - apply e_pos.
    - exfalso. exact (flt_irrefl K _ H).
  Qed.
  Lemma w_zero_iff a : w a = f0 <-> is_some a = false.
  Proof.
    destruct a; cbn [w is_some]; split; intros H; try reflexivity; try discriminate.
    exfalso. pose proof (e_pos l) as P. rewrite H in P. exact (flt_irrefl K _ P).
  Qed.

  (* strict monotonicity is what e_mono says, when the order on L is total and antisymmetric *)
  Lemma e_strict x y : lleb y x = false -> flt (e x) (e y).
  Proof. intros H. rewrite e_mono in H. apply fleb_false_flt. exact H. Qed.

  (* ------------------------------------------------------------------ small list facts *)
  Lemma fdiv_zero (z : K) : f0 / z = f0.
  Proof. rewrite (Fdiv_def (Fth K)). ring. Qed.

  (* ------------------------------------------------------------------ mass and softmax *)
  Definition mass (m : list (option L)) : K := fsum (map w m).
  Definition has_some (m : list (option L)) : Prop := exists x, In x m /\ is_some x = true.

  Lemma mass_nonneg m : fle f0 (mass m).
  Proof. apply fsum_map_nonneg. intros x _. apply w_nonneg. Qed.

  Lemma mass_pos m : has_some m -> flt f0 (mass m).
  Proof.
    intros (x & Hx & Hs). apply fsum_map_pos; [intros y _; apply w_nonneg|].
    exists x. split; [exact Hx | apply w_pos_iff; exact Hs].
  Qed.

  Lemma mass_perm m m' : Permutation m m' -> mass m = mass m'.
  Proof. apply fsum_map_perm. Qed.

  Lemma softmax_length m : length (softmax m) = length m.
  Proof. unfold softmax. apply map_length. Qed.

  Lemma softmax_nth m i : nth i (softmax m) f0 = w (nth i m None) / mass m.
  Proof.
    unfold softmax. fold (mass m). rewrite <- (fdiv_zero (mass m)) at 1.
    change (f0 / mass m) with ((fun x => w x / mass m) None). apply map_nth.
  Qed.

  Lemma softmax_sum m : has_some m -> fsum (softmax m) = f1.
  Proof.
    intros H. pose proof (mass_pos m H) as P. unfold softmax. fold (mass m).
    rewrite <- (map_map w (fun x => x / mass m)). rewrite fsum_map_div by (apply flt_neq'; exact P).
    apply fdiv_self. apply flt_neq'. exact P.
  Qed.

  Lemma softmax_nonneg m i : has_some m -> fle f0 (nth i (softmax m) f0).
  Proof. intros H. rewrite softmax_nth. apply (fdiv_nonneg K); [apply w_nonneg | apply mass_pos; exact H]. Qed.

  Lemma softmax_pos_iff m i : has_some m -> (flt f0 (nth i (softmax m) f0) <-> is_some (nth i m None) = true).
  Proof.
    intros H. rewrite softmax_nth. pose proof (mass_pos m H) as P. split.
    - intros Hq. destruct (is_some (nth i m None)) eqn:E; [reflexivity|].
      apply w_zero_iff in E. rewrite E, fdiv_zero in Hq. exfalso. exact (flt_irrefl K _ Hq).
    - intros Hs. apply (fdiv_pos K); [apply w_pos_iff; exact Hs | exact P].
  Qed.

  Lemma softmax_zero m i : is_some (nth i m None) = false -> nth i (softmax m) f0 = f0.
  Proof. intros H. rewrite softmax_nth. apply w_zero_iff in H. rewrite H. apply fdiv_zero. Qed.

  Lemma softmax_le m i j : has_some m ->
    (nth j (softmax m) f0 <=? nth i (softmax m) f0) = ole (nth j m None) (nth i m None).
  Proof. intros H. rewrite !softmax_nth, ole_w. apply fleb_div_pos. apply mass_pos. exact H. Qed.

  (* ------------------------------------------------------------------ "b is a with some entries set to -inf" *)
  Definition subR (x y : option L) : Prop := y = x \/ y = None.
  Definition sub (a b : list (option L)) : Prop := Forall2 subR a b.

  Lemma sub_refl a : sub a a.
  Proof. induction a; constructor; [left; reflexivity | assumption]. Qed.

  Lemma sub_trans a b c : sub a b -> sub b c -> sub a c.
  Proof.
    intros H. revert c. induction H as [|x y a b Hxy Hab IH]; intros c Hc; inversion Hc; subst; constructor.
    - destruct Hxy as [-> | ->]; [assumption|]. match goal with H : subR None _ |- _ => destruct H as [-> | ->] end; right; reflexivity.
    - apply IH. assumption.
  Qed.

  Lemma sub_length a b : sub a b -> length b = length a.
  Proof. induction 1; simpl; auto. Qed.

  Lemma sub_nth a b i : sub a b -> subR (nth i a None) (nth i b None).
  Proof.
    intros H. revert i. induction H as [|x y a b Hxy Hab IH]; intros [|i]; cbn [nth]; auto; left; reflexivity.
  Qed.

  Lemma sub_mass a b : sub a b -> fle (mass b) (mass a).
  Proof.
    unfold mass. induction 1 as [|x y a b Hxy Hab IH]; cbn [map fsum]; [apply fle_refl|].
    apply (fle_add K); [|exact IH]. destruct Hxy as [-> | ->]; [apply fle_refl | apply w_nonneg].
  Qed.

  Lemma sub_some a b i : sub a b -> is_some (nth i b None) = true -> nth i b None = nth i a None.
  Proof. intros H Hs. destruct (sub_nth a b i H) as [E|E]; [exact E|]. rewrite E in Hs. discriminate. Qed.

  Lemma sub_map (f : option L -> option L) m : (forall x, subR x (f x)) -> sub m (map f m).
  Proof. intros H. induction m; constructor; auto. Qed.

  Lemma masked_fill_sub rem m : length rem = length m -> sub m (masked_fill rem m).
  Proof.
    unfold masked_fill. revert rem. induction m as [|x m IH]; intros [|r rem] H; simpl in H; try lia; cbn [map2].
    - constructor.
    - constructor; [destruct r; [right | left]; reflexivity | apply IH; lia].
  Qed.

  Lemma masked_fill_nth rem m i : length rem = length m -> (i < length m)%nat ->
    nth i (masked_fill rem m) None = if nth i rem false then None else nth i m None.
  Proof.
    intros H Hi. unfold masked_fill.
    rewrite (nth_map2 (fun (r : bool) (x : option L) => if r then None else x) rem m i false None None) by lia.
    reflexivity.
  Qed.

  Lemma cumsum_from_length acc l : length (cumsum_from acc l) = length l.
  Proof. revert acc. induction l as [|x l IH]; intros acc; simpl; auto. Qed.

  Lemma cumsum_from_last' l : forall acc x d, nth (length l) (cumsum_from acc (x :: l)) d = acc + x + fsum l.
  Proof.
    induction l as [|y l IH]; intros acc x d.
    - cbn [length cumsum_from nth fsum]. ring.
    - cbn [length]. change (cumsum_from acc (x :: y :: l)) with ((acc + x) :: cumsum_from (acc + x) (y :: l)).
      cbn [nth]. rewrite IH. cbn [fsum]. ring.
  Qed.

  Lemma cumsum_from_last acc l d : l <> [] -> nth (length l - 1)%nat (cumsum_from acc l) d = acc + fsum l.
  Proof.
    destruct l as [|x l]; intros H; [congruence|]. cbn [length].
    replace (S (length l) - 1)%nat with (length l) by lia. rewrite cumsum_from_last'. cbn [fsum]. ring.
  Qed.

  (* ------------------------------------------------------------------ maxima survive the filters *)
  Definition is_max (m : list (option L)) (i : nat) : Prop :=
    (i < length m)%nat /\ forall j, ole (nth j m None) (nth i m None) = true.

  Lemma kth_in_or_none k m : kth_largest k m = None \/ In (kth_largest k m) m.
  Proof.
    unfold kth_largest. destruct (nth_in_or_default (k - 1)%nat (isort ogeb m) None) as [H|H].
    - right. eapply Permutation_in; [apply isort_perm | exact H].
    - left. exact H.
  Qed.

  Lemma topk_filter_nth k m i :
    nth i (topk_filter k m) None = if oltb (nth i m None) (kth_largest k m) then None else nth i m None.
  Proof.
    unfold topk_filter. cbv zeta. destruct (Nat.lt_ge_cases i (length m)) as [H|H].
    - rewrite (nth_map_in _ _ _ None) by exact H. reflexivity.
    - rewrite !nth_overflow by (rewrite ?map_length; exact H).
      destruct (oltb None (kth_largest k m)); reflexivity.
  Qed.

  Lemma topk_filter_sub k m : sub m (topk_filter k m).
  Proof. unfold topk_filter. cbv zeta. apply sub_map. intros x. unfold subR. destruct (oltb x _); auto. Qed.

  Lemma topk_filter_length k m : length (topk_filter k m) = length m.
  Proof. apply sub_length. apply topk_filter_sub. Qed.

  Lemma is_max_ge m i x : is_max m i -> In x m -> ole x (nth i m None) = true.
  Proof. intros [_ H] Hx. apply (In_nth _ _ None) in Hx as (j & _ & <-). apply H. Qed.

  Lemma topk_keeps_max k m i : is_max m i -> nth i (topk_filter k m) None = nth i m None.
  Proof.
    intros Hm. rewrite topk_filter_nth. unfold oltb.
    destruct (kth_in_or_none k m) as [E|E].
    - rewrite E. cbn [ole negb]. reflexivity.
    - rewrite (is_max_ge m i _ Hm E). reflexivity.
  Qed.

  Lemma topk_stage_sub top_k m : sub m (topk_stage top_k m).
  Proof. unfold topk_stage. destruct (0 <? top_k)%nat; [apply topk_filter_sub | apply sub_refl]. Qed.

  Lemma topk_stage_keeps_max top_k m i : is_max m i -> nth i (topk_stage top_k m) None = nth i m None.
  Proof. unfold topk_stage. destruct (0 <? top_k)%nat; [apply topk_keeps_max | reflexivity]. Qed.

  Lemma sub_ole a b j : sub a b -> ole (nth j b None) (nth j a None) = true.
  Proof. intros H. destruct (sub_nth a b j H) as [-> | ->]; [apply ole_refl | reflexivity]. Qed.

  Lemma is_max_sub a b i : sub a b -> is_max a i -> nth i b None = nth i a None -> is_max b i.
  Proof.
    intros Hs [Hi Hm] E. split; [rewrite (sub_length _ _ Hs); exact Hi|].
    intros j. rewrite E. eapply ole_trans; [apply sub_ole; exact Hs | apply Hm].
  Qed.

  (* argsort: a sorted permutation of the positions *)
  Definition idx_leb (m : list (option L)) (i j : nat) : bool := ole (nth i m None) (nth j m None).

  Lemma argsort_perm m : Permutation (argsort_asc m) (seq 0 (length m)).
  Proof. apply isort_perm. Qed.
  Lemma argsort_length m : length (argsort_asc m) = length m.
  Proof. unfold argsort_asc. rewrite isort_length. apply seq_length. Qed.
  Lemma argsort_in m i : In i (argsort_asc m) <-> (i < length m)%nat.
  Proof.
    split; intros H.
    - apply (Permutation_in _ (argsort_perm m)) in H. apply in_seq in H. lia.
    - apply (Permutation_in _ (Permutation_sym (argsort_perm m))). apply in_seq. lia.
  Qed.
  Lemma argsort_nodup m : NoDup (argsort_asc m).
  Proof. eapply Permutation_NoDup; [apply Permutation_sym; apply argsort_perm | apply seq_NoDup]. Qed.
  Lemma argsort_sorted m : StronglySorted (lebP _ (idx_leb m)) (argsort_asc m).
  Proof.
    apply isort_sorted.
    - intros x y. apply ole_total.
    - intros x y z. apply ole_trans.
  Qed.

  Lemma argsort_last_is_max m : m <> [] -> is_max m (last (argsort_asc m) 0%nat).
  Proof.
    intros Hne. assert (Hidx : argsort_asc m <> []).
    { intros E. apply (f_equal (@length nat)) in E. rewrite argsort_length in E. destruct m; [congruence | discriminate]. }
    pose proof (last_in _ (argsort_asc m) 0%nat Hidx) as Hin. split; [apply argsort_in; exact Hin|].
    intros j. destruct (Nat.lt_ge_cases j (length m)) as [Hj|Hj].
    - apply (sorted_last _ (idx_leb m)).
      + intros x y. apply ole_total.
      + apply argsort_sorted.
      + apply argsort_in. exact Hj.
    - rewrite (nth_overflow m) by exact Hj. reflexivity.
  Qed.

  Lemma gather_argsort_perm m : Permutation (gather None m (argsort_asc m)) m.
  Proof.
    unfold gather. eapply perm_trans; [apply Permutation_map; apply argsort_perm|].
    rewrite map_nth_seq. apply Permutation_refl.
  Qed.

  Lemma has_some_nonempty m : has_some m -> m <> [].
  Proof. intros (x & Hx & _) E. rewrite E in Hx. destruct Hx. Qed.

  Lemma has_some_perm m m' : Permutation m m' -> has_some m -> has_some m'.
  Proof. intros P (x & Hx & Hs). exists x. split; [eapply Permutation_in; eassumption | exact Hs]. Qed.

  (* the pieces of topp_filter, named *)
  Definition tp_idx (m : list (option L)) := argsort_asc m.
  Definition tp_sl (m : list (option L)) := gather None m (tp_idx m).
  Definition tp_cum (m : list (option L)) := cumsum (softmax (tp_sl m)).
  Definition tp_rs (p : K) (m : list (option L)) := map (fun c => c <=? f1 - p) (tp_cum m).
  Definition tp_rem (p : K) (m : list (option L)) := scatter (tp_idx m) (tp_rs p m) (tp_rs p m).

  Lemma topp_filter_unfold p m :
    topp_filter p m = if (p <=? f0) || (f1 <=? p) then m else masked_fill (tp_rem p m) m.
  Proof. reflexivity. Qed.

  Lemma tp_sl_length m : length (tp_sl m) = length m.
  Proof. unfold tp_sl, tp_idx. rewrite gather_length. apply argsort_length. Qed.
  Lemma tp_cum_length m : length (tp_cum m) = length m.
  Proof. unfold tp_cum, cumsum. rewrite cumsum_from_length, softmax_length. apply tp_sl_length. Qed.
  Lemma tp_rs_length p m : length (tp_rs p m) = length m.
  Proof. unfold tp_rs. rewrite map_length. apply tp_cum_length. Qed.
  Lemma tp_rem_length p m : length (tp_rem p m) = length m.
  Proof. unfold tp_rem. rewrite scatter_length. apply tp_rs_length. Qed.

  (* position j of the sorted order decides position idx[j] of the row *)
  Lemma tp_rem_nth p m j : (j < length m)%nat -> nth (nth j (tp_idx m) 0%nat) (tp_rem p m) false = nth j (tp_rs p m) false.
  Proof.
    intros Hj. unfold tp_rem. apply scatter_nodup_nth.
    - apply argsort_nodup.
    - intros i Hi. rewrite tp_rs_length. apply argsort_in. exact Hi.
    - unfold tp_idx. rewrite argsort_length, tp_rs_length. reflexivity.
    - unfold tp_idx. rewrite argsort_length. exact Hj.
  Qed.

  Lemma topp_filter_sub p m : sub m (topp_filter p m).
  Proof.
    rewrite topp_filter_unfold. destruct ((p <=? f0) || (f1 <=? p)); [apply sub_refl|].
    apply masked_fill_sub. apply tp_rem_length.
  Qed.

  Lemma topp_stage_sub p m : sub m (topp_stage p m).
  Proof. unfold topp_stage. destruct (fltb f0 p); [apply topp_filter_sub | apply sub_refl]. Qed.

  Lemma tp_sl_has_some m : has_some m -> has_some (tp_sl m).
  Proof. apply has_some_perm. apply Permutation_sym. apply gather_argsort_perm. Qed.

  (* the last cumulative probability is 1, so the last sorted position is never removed when top_p > 0 *)
  Lemma tp_cum_last m : has_some m -> nth (length m - 1)%nat (tp_cum m) f0 = f1.
  Proof.
    intros H. unfold tp_cum, cumsum.
    assert (Hl : length (softmax (tp_sl m)) = length m) by (rewrite softmax_length; apply tp_sl_length).
    rewrite <- Hl. rewrite cumsum_from_last.
    - rewrite softmax_sum by (apply tp_sl_has_some; exact H). ring.
    - intros E. rewrite E in Hl. simpl in Hl. apply (has_some_nonempty m H). destruct m; [reflexivity | discriminate].
  Qed.

  Lemma topp_filter_keeps_last p m :
    has_some m -> flt f0 p ->
    let i := last (argsort_asc m) 0%nat in is_max m i /\ nth i (topp_filter p m) None = nth i m None.
  Proof.
    intros H Hp i. pose proof (has_some_nonempty m H) as Hne.
    pose proof (argsort_last_is_max m Hne) as Hmax. fold i in Hmax. split; [exact Hmax|].
    rewrite topp_filter_unfold. destruct ((p <=? f0) || (f1 <=? p)); [reflexivity|].
    destruct Hmax as [Hi _]. rewrite masked_fill_nth by (try apply tp_rem_length; exact Hi).
    assert (Hn : (length m - 1 < length m)%nat) by (destruct m; [congruence | simpl; lia]).
    assert (Ei : i = nth (length m - 1)%nat (tp_idx m) 0%nat).
    { unfold i, tp_idx. rewrite last_nth, argsort_length. reflexivity. }
    rewrite Ei, tp_rem_nth by exact Hn.
    unfold tp_rs. rewrite (nth_map_in _ _ _ f0) by (rewrite tp_cum_length; exact Hn).
    rewrite tp_cum_last by exact H.
    replace (f1 <=? f1 - p) with false; [reflexivity|].
    symmetry. apply flt_fleb_false.
    apply (flt_iff K). split.
    - apply (fle_of_sub K). replace (f1 - (f1 - p)) with p by ring. apply (flt_le K). exact Hp.
    - intros E. apply (flt_neq K _ _ Hp). replace p with (f1 - (f1 - p)) by ring. rewrite E. ring.
  Qed.

  Lemma exists_max m : m <> [] -> exists i, is_max m i.
  Proof. intros H. exists (last (argsort_asc m) 0%nat). apply argsort_last_is_max. exact H. Qed.

  Lemma topp_stage_keeps_some_max p m :
    has_some m -> exists i, is_max m i /\ nth i (topp_stage p m) None = nth i m None.
  Proof.
    intros H. unfold topp_stage. destruct (fltb f0 p) eqn:E.
    - exists (last (argsort_asc m) 0%nat). apply topp_filter_keeps_last; assumption.
    - destruct (exists_max m (has_some_nonempty m H)) as (i & Hi). exists i. split; [exact Hi | reflexivity].
  Qed.

  Lemma is_max_some m i : has_some m -> is_max m i -> is_some (nth i m None) = true.
  Proof.
    intros (x & Hx & Hs) Hm. pose proof (is_max_ge m i x Hm Hx) as H.
    destruct x; [|discriminate]. eapply ole_some_is_some. exact H.
  Qed.

  (* ------------------------------------------------------------------ top-p keeps mass >= p *)
  Definition sel_rm (r : bool) (x : K) : K := if r then x else f0.   (* the part that is removed *)
  Definition sel_kp (r : bool) (x : K) : K := if r then f0 else x.   (* the part that is kept *)

  (* whatever the order of the entries: the removed prefix never weighs more than the threshold *)
  Lemma cut_mass (l : list K) : forall acc thr,
    (forall x, In x l -> fle f0 x) ->
    fle (acc + fsum (map2 sel_rm (map (fun c => c <=? thr) (cumsum_from acc l)) l)) (fmax acc thr).
  Proof.
    induction l as [|x l IH]; intros acc thr Hnn.
    - cbn [cumsum_from map map2 fsum]. replace (acc + f0) with acc by ring. apply (fmax_ge_l K).
    - cbn [cumsum_from map map2 fsum].
      assert (Hx : fle f0 x) by (apply Hnn; left; reflexivity).
      assert (Hl : forall y, In y l -> fle f0 y) by (intros y Hy; apply Hnn; right; exact Hy).
      specialize (IH (acc + x) thr Hl).
      set (S := fsum (map2 sel_rm (map (fun c => c <=? thr) (cumsum_from (acc + x) l)) l)) in *.
      destruct (acc + x <=? thr) eqn:E; cbn [sel_rm].
      + (* removed: acc + x <= thr *)
        replace (acc + (x + S)) with (acc + x + S) by ring.
        eapply fle_trans; [exact IH|].
        unfold fmax at 1. rewrite E. apply (fmax_ge_r K).
      + (* kept: every later cumulative sum is above thr as well, so nothing later is removed *)
        unfold fmax in IH at 1. rewrite E in IH.
        assert (HS : fle S f0).
        { apply (fle_of_sub K). replace (f0 - S) with (acc + x - (acc + x + S)) by ring.
          apply (fle_sub_nonneg K). exact IH. }
        replace (acc + (f0 + S)) with (acc + S) by ring.
        eapply fle_trans; [|apply (fmax_ge_l K)].
        replace acc with (acc + f0) at 2 by ring. apply (fle_add K); [apply fle_refl | exact HS].
  Qed.

  Lemma sel_split (rs : list bool) (l : list K) : length rs = length l ->
    fsum (map2 sel_kp rs l) + fsum (map2 sel_rm rs l) = fsum l.
  Proof.
    revert l. induction rs as [|r rs IH]; intros [|x l] H; simpl in H; try lia; cbn [map2 fsum]; [ring|].
    specialize (IH l ltac:(lia)). rewrite <- IH. destruct r; cbn [sel_kp sel_rm]; ring.
  Qed.

  Lemma sel_rm_scale (rs : list bool) (l : list K) (z : K) : z <> f0 ->
    fsum (map2 sel_rm rs (map (fun x => x / z) l)) = fsum (map2 sel_rm rs l) / z.
  Proof.
    intros Hz. revert l. induction rs as [|r rs IH]; intros [|x l]; cbn [map map2 fsum]; try (field; exact Hz).
    rewrite IH. destruct r; cbn [sel_rm]; field; exact Hz.
  Qed.

  Lemma mass_as_index_sum m : mass m = fsum (map (fun i => w (nth i m None)) (seq 0 (length m))).
  Proof. unfold mass. rewrite <- (map_map (fun i => nth i m None) w). rewrite map_nth_seq. reflexivity. Qed.

  Lemma tp_sl_mass m : mass (tp_sl m) = mass m.
  Proof. apply mass_perm. apply gather_argsort_perm. Qed.

  (* the kept weight, summed along the sorted order *)
  Lemma topp_kept_mass p m :
    mass (masked_fill (tp_rem p m) m) = fsum (map2 sel_kp (tp_rs p m) (map w (tp_sl m))).
  Proof.
    set (g := fun i => if nth i (tp_rem p m) false then f0 else w (nth i m None)).
    assert (E1 : map w (masked_fill (tp_rem p m) m) = map g (seq 0 (length m))).
    { apply (nth_ext _ _ f0 f0).
      - rewrite !map_length, seq_length. apply sub_length. apply masked_fill_sub. apply tp_rem_length.
      - intros i Hi. rewrite map_length in Hi.
        assert (Hi' : (i < length m)%nat).
        { rewrite <- (sub_length m (masked_fill (tp_rem p m) m)); [exact Hi|]. apply masked_fill_sub. apply tp_rem_length. }
        rewrite (nth_map_in _ _ _ None) by exact Hi.
        rewrite (nth_map_in _ _ _ 0%nat) by (rewrite seq_length; exact Hi').
        rewrite seq_nth by exact Hi'. cbn [plus]. unfold g.
        rewrite masked_fill_nth by (try apply tp_rem_length; exact Hi').
        destruct (nth i (tp_rem p m) false); reflexivity. }
    unfold mass. rewrite E1.
    rewrite (fsum_map_perm K g _ _ (Permutation_sym (argsort_perm m))).
    f_equal. apply (nth_ext _ _ f0 f0).
    - rewrite map_length, map2_length, tp_rs_length, map_length, tp_sl_length, argsort_length. lia.
    - intros j Hj. rewrite map_length, argsort_length in Hj.
      rewrite (nth_map_in _ _ _ 0%nat) by (rewrite argsort_length; exact Hj).
      rewrite (nth_map2 sel_kp _ _ j false f0 f0)
        by (rewrite ?tp_rs_length, ?map_length, ?tp_sl_length; exact Hj).
      rewrite (nth_map_in _ _ _ None) by (rewrite tp_sl_length; exact Hj).
      unfold tp_sl, gather. rewrite (nth_map_in _ _ _ 0%nat) by (unfold tp_idx; rewrite argsort_length; exact Hj).
      unfold g. fold (tp_idx m). rewrite tp_rem_nth by exact Hj. reflexivity.
  Qed.

  Lemma topp_filter_mass p m : has_some m -> fle p f1 -> fle (p * mass m) (mass (topp_filter p m)).
  Proof.
    intros H Hp1. pose proof (mass_pos m H) as HZ. pose proof (flt_neq' K _ _ HZ) as HZ0.
    rewrite topp_filter_unfold. destruct ((p <=? f0) || (f1 <=? p)) eqn:E.
    - (* no filtering: p <= 0 or p >= 1 (hence p = 1) *)
      apply orb_true_iff in E as [E|E].
      + eapply fle_trans; [|apply mass_nonneg].
        replace (p * mass m) with (- ((- p) * mass m)) by ring. apply (fle_opp K).
        apply fmul_nonneg; [apply (fle_opp' K); exact E | apply mass_nonneg].
      + rewrite (fle_antisym K p f1 Hp1 E). replace (f1 * mass m) with (mass m) by ring. apply fle_refl.
    - apply orb_false_iff in E as [E0 E1].
      rewrite topp_kept_mass.
      set (ws := map w (tp_sl m)). set (rs := tp_rs p m).
      assert (Hws : fsum ws = mass m) by (unfold ws; apply tp_sl_mass).
      assert (Hlen : length rs = length ws).
      { unfold rs, ws. rewrite tp_rs_length, map_length, tp_sl_length. reflexivity. }
      pose proof (sel_split rs ws Hlen) as Hsplit.
      (* the removed probability is at most 1 - p *)
      assert (Hprobs : softmax (tp_sl m) = map (fun x => x / mass m) ws).
      { unfold softmax, ws. fold (mass (tp_sl m)). rewrite tp_sl_mass, map_map. reflexivity. }
      assert (Hcut : fle (fsum (map2 sel_rm rs (map (fun x => x / mass m) ws))) (f1 - p)).
      { pose proof (cut_mass (map (fun x => x / mass m) ws) f0 (f1 - p)) as C.
        replace (fmax f0 (f1 - p)) with (f1 - p) in C.
        - unfold rs, tp_rs, tp_cum, cumsum. rewrite Hprobs.
          match type of C with _ -> fle (f0 + ?a) _ => replace (f0 + a) with a in C by ring end.
          apply C. intros x Hx. apply in_map_iff in Hx as (y & <- & Hy).
          apply (fdiv_nonneg K); [|exact HZ]. unfold ws in Hy. apply in_map_iff in Hy as (o & <- & _). apply w_nonneg.
        - unfold fmax. replace (f0 <=? f1 - p) with true; [reflexivity|]. symmetry.
          apply (fle_sub_nonneg K). exact Hp1. }
      rewrite sel_rm_scale in Hcut by exact HZ0.
      (* kept = Z - removed >= Z - (1 - p) Z *)
      set (R := fsum (map2 sel_rm rs ws)) in *.
      assert (HR : fle R ((f1 - p) * mass m)).
      { replace R with (R / mass m * mass m) by (field; exact HZ0).
        apply fle_mul_nonneg_r; [exact Hcut | apply mass_nonneg]. }
      replace (fsum (map2 sel_kp rs ws)) with (mass m - R) by (rewrite <- Hws, <- Hsplit; ring).
      apply (fle_of_sub K). replace (mass m - R - p * mass m) with ((f1 - p) * mass m - R) by ring.
      apply (fle_sub_nonneg K). exact HR.
  Qed.

  Theorem topp_stage_mass p m : has_some m -> fle f0 p -> fle p f1 -> fle (p * mass m) (mass (topp_stage p m)).
  Proof.
    intros H Hp0 Hp1. unfold topp_stage. destruct (fltb f0 p) eqn:E.
    - apply topp_filter_mass; assumption.
    - (* top_p = 0: stage skipped *)
      assert (p = f0) as ->.
      { apply fle_antisym; [|exact Hp0]. unfold fltb in E. unfold fle. destruct (p <=? f0); [reflexivity | discriminate]. }
      replace (f0 * mass m) with (f0 : K) by ring. apply mass_nonneg.
  Qed.

  (* the same as a ratio: kept mass / mass before >= top_p *)
  Corollary topp_mass p m : has_some m -> fle f0 p -> fle p f1 -> fle p (mass (topp_stage p m) / mass m).
  Proof.
    intros H Hp0 Hp1. pose proof (mass_pos m H) as P.
    replace p with (p * mass m / mass m) at 1 by (field; apply flt_neq'; exact P).
    apply fle_div_pos; [exact P | apply topp_stage_mass; assumption].
  Qed.

  (* ------------------------------------------------------------------ top-k: how many survive, and which *)
  Lemma kth_count_gt k m : (1 <= k <= length m)%nat -> (count (oltb (kth_largest k m)) m <= k - 1)%nat.
  Proof.
    intros Hk. rewrite <- (count_perm _ _ _ (isort_perm _ ogeb m)). unfold kth_largest.
    pose proof (sorted_count_before _ ogeb ogeb_total (isort ogeb m) None (k - 1)%nat) as C.
    eapply Nat.le_trans; [|apply C].
    - apply Nat.eq_le_incl. apply count_ext. intros x _. reflexivity.
    - apply isort_sorted; [apply ogeb_total | apply ogeb_trans].
    - rewrite isort_length. lia.
  Qed.

  Lemma kth_count_ge k m : (1 <= k <= length m)%nat -> (k <= count (ole (kth_largest k m)) m)%nat.
  Proof.
    intros Hk. rewrite <- (count_perm _ _ _ (isort_perm _ ogeb m)). unfold kth_largest.
    pose proof (sorted_count_upto _ ogeb ogeb_total (isort ogeb m) None (k - 1)%nat) as C.
    eapply Nat.le_trans; [|eapply Nat.le_trans; [apply C|]].
    - lia.
    - apply isort_sorted; [apply ogeb_total | apply ogeb_trans].
    - rewrite isort_length. lia.
    - apply Nat.eq_le_incl. apply count_ext. intros x _. reflexivity.
  Qed.

  Lemma nfeas_topk_filter k m :
    nfeas (topk_filter k m) = count (fun x => is_some x && ole (kth_largest k m) x) m.
  Proof.
    unfold nfeas, topk_filter. cbv zeta. rewrite count_map. apply count_ext. intros x _.
    unfold oltb. destruct (ole (kth_largest k m) x); cbn [negb]; [rewrite andb_true_r | rewrite andb_false_r]; reflexivity.
  Qed.

  Lemma ole_split v x : ole v x = oltb v x || oeqb v x.
  Proof.
    unfold oltb, oeqb. destruct (ole x v) eqn:E; cbn [negb orb]; [rewrite andb_true_r; reflexivity|].
    destruct (ole_total v x) as [C|C]; [exact C | congruence].
  Qed.

  (* kept >= min(k, #feasible) ; kept <= (k - 1) + #ties at the k-th value ; strictly above the k-th value: < k *)
  Theorem topk_card k m : (1 <= k <= length m)%nat ->
    let v := kth_largest k m in
    (Nat.min k (nfeas m) <= nfeas (topk_filter k m))%nat /\
    (nfeas (topk_filter k m) <= (k - 1) + count (oeqb v) m)%nat /\
    (nfeas (topk_filter k m) <= nfeas m)%nat.
  Proof.
    intros Hk v. rewrite nfeas_topk_filter. fold v. repeat split.
    - destruct v as [y|] eqn:Ev.
      + (* k-th largest finite: everything >= it is feasible and there are >= k of those *)
        eapply Nat.le_trans; [apply Nat.le_min_l|].
        eapply Nat.le_trans; [apply (kth_count_ge k m Hk)|]. fold v. rewrite Ev.
        apply count_mono. intros x _ Hx. rewrite Hx, andb_true_r. eapply ole_some_is_some. exact Hx.
      + (* k-th largest is -inf: nothing is removed *)
        eapply Nat.le_trans; [apply Nat.le_min_r|]. unfold nfeas. apply Nat.eq_le_incl.
        apply count_ext. intros x _. cbn [ole]. rewrite andb_true_r. reflexivity.
    - eapply Nat.le_trans; [apply (count_mono _ (ole v)); intros x _ Hx; apply andb_prop in Hx as [_ Hx]; exact Hx|].
      rewrite (count_split (ole v) (oltb v) (oeqb v)).
      + pose proof (kth_count_gt k m Hk) as C. fold v in C. lia.
      + apply ole_split.
      + intros x. unfold oltb, oeqb. destruct (ole x v); cbn [negb andb]; [reflexivity|]. rewrite andb_false_r. reflexivity.
    - unfold nfeas. apply count_mono. intros x _ Hx. apply andb_prop in Hx as [Hx _]. exact Hx.
  Qed.

  (* no ties among feasible logits: exactly min(k, #feasible) survive *)
  Definition no_ties (m : list (option L)) : Prop :=
    forall i j, (i < length m)%nat -> (j < length m)%nat ->
      is_some (nth i m None) = true -> oeqb (nth i m None) (nth j m None) = true -> i = j.

  Corollary topk_card_no_ties k m : (1 <= k <= length m)%nat -> no_ties m ->
    nfeas (topk_filter k m) = Nat.min k (nfeas m).
  Proof.
    intros Hk Hnt. destruct (topk_card k m Hk) as (H1 & H2 & H3). cbv zeta in *.
    apply Nat.le_antisymm; [|exact H1]. apply Nat.min_glb; [|exact H3].
    destruct (kth_largest k m) as [y|] eqn:Ev.
    - assert (C : (count (oeqb (Some y)) m <= 1)%nat).
      { apply (count_le_1 _ _ None). intros i j Hi Hj Pi Pj.
        apply Hnt; try assumption.
        - unfold oeqb in Pi. apply andb_prop in Pi as [Pi _]. eapply ole_some_is_some. exact Pi.
        - unfold oeqb in *. apply andb_prop in Pi as [Pi1 Pi2]. apply andb_prop in Pj as [Pj1 Pj2].
          apply andb_true_intro. split; eapply ole_trans; eassumption. }
      lia.
    - (* k-th largest is -inf: fewer than k feasible *)
      pose proof (kth_count_gt k m Hk) as C. rewrite Ev in C.
      assert (E : count (oltb None) m = nfeas m).
      { unfold nfeas. apply count_ext. intros x _. unfold oltb. destruct x; reflexivity. }
      rewrite E in C. lia.
  Qed.

  (* the independent description of top-k with ties: an entry survives iff it is feasible and
     fewer than k entries are strictly larger *)
  Lemma oltb_ole_trans a b c : ole a b = true -> oltb b c = true -> oltb a c = true.
  Proof.
    unfold oltb. intros H1 H2. destruct (ole c a) eqn:E; [|reflexivity].
    rewrite (ole_trans c a b E H1) in H2. discriminate.
  Qed.
  Lemma oltb_ole_trans' a b c : oltb a b = true -> ole b c = true -> oltb a c = true.
  Proof.
    unfold oltb. intros H1 H2. destruct (ole c a) eqn:E; [|reflexivity].
    rewrite (ole_trans b c a H2 E) in H1. discriminate.
  Qed.

  Theorem topk_filter_rank k m i : (1 <= k <= length m)%nat -> (i < length m)%nat ->
    (is_some (nth i (topk_filter k m) None) = true <->
     is_some (nth i m None) = true /\ (count (oltb (nth i m None)) m < k)%nat).
  Proof.
    intros Hk Hi. rewrite topk_filter_nth. set (x := nth i m None). set (v := kth_largest k m). split.
    - intros H. destruct (oltb x v) eqn:E; [discriminate|]. split; [exact H|].
      apply oltb_false_ole in E.
      pose proof (kth_count_gt k m Hk) as C. fold v in C.
      eapply Nat.le_lt_trans; [apply (count_mono _ (oltb v))|lia].
      intros y _ Hy. eapply oltb_ole_trans; eassumption.
    - intros [Hs Hc]. destruct (oltb x v) eqn:E; [|exact Hs]. exfalso.
      pose proof (kth_count_ge k m Hk) as C. fold v in C.
      assert ((count (ole v) m <= count (oltb x) m)%nat); [|lia].
      apply count_mono. intros y _ Hy. eapply oltb_ole_trans'; eassumption.
  Qed.

  Theorem topk_stage_rank top_k m i : (0 < top_k)%nat -> (i < length m)%nat ->
    (is_some (nth i (topk_stage top_k m) None) = true <->
     is_some (nth i m None) = true /\ (count (oltb (nth i m None)) m < top_k)%nat).
  Proof.
    intros Hk Hi. unfold topk_stage. replace (0 <? top_k)%nat with true by (symmetry; apply Nat.ltb_lt; exact Hk).
    rewrite topk_filter_rank by lia.
    assert (Hlt : (count (oltb (nth i m None)) m < length m)%nat).
    { apply (count_lt_length _ _ (nth i m None)); [apply nth_In; exact Hi|]. unfold oltb. rewrite ole_refl. reflexivity. }
    split; intros [H1 H2]; (split; [exact H1 | lia]).
  Qed.

  Lemma topk_stage_off m : topk_stage 0 m = m.
  Proof. reflexivity. Qed.

  (* ------------------------------------------------------------------ the whole pipeline *)
  Definition pl_wf (mask : list bool) (logits : list L) : Prop :=
    length mask = length logits /\ exists i, (i < length mask)%nat /\ nth i mask false = true.

  Lemma pl_wfb_wf mask p logits : pl_wfb mask p logits = true -> pl_wf mask logits /\ fle f0 p /\ fle p f1.
  Proof.
    unfold pl_wfb. intros H. apply andb_prop in H as [H Hp1]. apply andb_prop in H as [H Hp0].
    apply andb_prop in H as [Hl He]. apply Nat.eqb_eq in Hl. repeat split; try assumption.
    apply existsb_exists in He as (b & Hb & ->). apply (In_nth _ _ false) in Hb as (i & Hi & E). exists i. auto.
  Qed.

  Lemma mask_fill_length mask l : length mask = length l -> length (mask_fill mask l) = length l.
  Proof. intros H. unfold mask_fill. rewrite map2_length. lia. Qed.

  Lemma mask_fill_nth mask l i x : length mask = length l -> nth_error l i = Some x ->
    nth i (mask_fill mask l) None = if nth i mask false then Some x else None.
  Proof.
    unfold mask_fill. revert l i. induction mask as [|b mask IH]; intros [|y l] [|i] Hlen Hx; simpl in *; try discriminate.
    - inversion Hx. reflexivity.
    - apply IH; [lia | exact Hx].
  Qed.

  Lemma pre_length clip tmp mask logits : length mask = length logits ->
    length (pre_logits clip tmp mask logits) = length logits.
  Proof. intros H. unfold pre_logits, scale. rewrite map_length, mask_fill_length; rewrite map_length; auto. Qed.

  Lemma pre_nth clip tmp mask logits i x : length mask = length logits -> nth_error logits i = Some x ->
    nth i (pre_logits clip tmp mask logits) None = if nth i mask false then Some (tmp (clip x)) else None.
  Proof.
    intros Hlen Hx. unfold pre_logits, scale. rewrite nth_map_fix by reflexivity.
    rewrite (mask_fill_nth mask (map clip logits) i (clip x)).
    - destruct (nth i mask false); reflexivity.
    - rewrite map_length. exact Hlen.
    - apply map_nth_error. exact Hx.
  Qed.

  Lemma pre_masked clip tmp mask logits i : length mask = length logits -> nth i mask false = false ->
    nth i (pre_logits clip tmp mask logits) None = None.
  Proof.
    intros Hlen Hm. destruct (nth_error logits i) as [x|] eqn:E.
    - rewrite (pre_nth _ _ _ _ _ x Hlen E), Hm. reflexivity.
    - apply nth_overflow. rewrite pre_length by exact Hlen. apply nth_error_None. exact E.
  Qed.

  Lemma pre_has_some clip tmp mask logits : pl_wf mask logits -> has_some (pre_logits clip tmp mask logits).
  Proof.
    intros [Hlen (i & Hi & Hm)].
    destruct (nth_error logits i) as [x|] eqn:E; [|apply nth_error_None in E; lia].
    exists (nth i (pre_logits clip tmp mask logits) None). split.
    - apply nth_In. rewrite pre_length by exact Hlen. lia.
    - rewrite (pre_nth _ _ _ _ _ x Hlen E), Hm. reflexivity.
  Qed.

  Lemma topp_stage_off m : topp_stage f0 m = m.
  Proof. unfold topp_stage, fltb. rewrite fle_refl. reflexivity. Qed.

  Lemma filtered_off clip tmp mask logits : filtered clip tmp mask f0 0 logits = pre_logits clip tmp mask logits.
  Proof. unfold filtered. rewrite topp_stage_off. reflexivity. Qed.

  Lemma filtered_topk_only clip tmp mask k logits :
    filtered clip tmp mask f0 k logits = topk_stage k (pre_logits clip tmp mask logits).
  Proof. unfold filtered. apply topp_stage_off. Qed.

  Lemma filtered_sub clip tmp mask p k logits : sub (pre_logits clip tmp mask logits) (filtered clip tmp mask p k logits).
  Proof. unfold filtered. eapply sub_trans; [apply topk_stage_sub | apply topp_stage_sub]. Qed.

  Lemma has_some_of_nth m i : is_some (nth i m None) = true -> has_some m.
  Proof.
    intros H. exists (nth i m None). split; [|exact H].
    destruct (Nat.lt_ge_cases i (length m)) as [Hi|Hi]; [apply nth_In; exact Hi|].
    rewrite nth_overflow in H by exact Hi. discriminate.
  Qed.

  Lemma topk_stage_has_some k m : has_some m -> has_some (topk_stage k m).
  Proof.
    intros H. destruct (exists_max m (has_some_nonempty m H)) as (i & Hi).
    apply (has_some_of_nth _ i). rewrite topk_stage_keeps_max by exact Hi. apply is_max_some; assumption.
  Qed.

  (* a maximum of the unfiltered row survives both filters, and stays a maximum *)
  Lemma filters_keep_a_max p k m : has_some m ->
    exists i, is_max m i /\ is_some (nth i m None) = true /\ nth i (topp_stage p (topk_stage k m)) None = nth i m None.
  Proof.
    intros H. set (a := topk_stage k m).
    destruct (exists_max m (has_some_nonempty m H)) as (i0 & Hi0).
    pose proof (topk_stage_keeps_max k m i0 Hi0) as Ea. fold a in Ea.
    pose proof (is_max_some m i0 H Hi0) as Hs0.
    destruct (topp_stage_keeps_some_max p a (topk_stage_has_some k m H)) as (i1 & Hi1 & Eb).
    pose proof (topk_stage_sub k m) as Hsub. fold a in Hsub.
    assert (Hge : ole (nth i0 m None) (nth i1 a None) = true).
    { rewrite <- Ea. apply Hi1. }
    assert (Hs1 : is_some (nth i1 a None) = true).
    { destruct (nth i0 m None); [|discriminate]. eapply ole_some_is_some. exact Hge. }
    pose proof (sub_some m a i1 Hsub Hs1) as E1.
    exists i1. split; [|split].
    - split.
      + destruct Hi1 as [Hlt _]. rewrite (sub_length _ _ Hsub) in Hlt. exact Hlt.
      + intros j. rewrite <- E1. eapply ole_trans; [apply Hi0 | exact Hge].
    - rewrite <- E1. exact Hs1.
    - rewrite Eb. exact E1.
  Qed.

  Lemma filtered_has_some clip tmp mask p k logits : pl_wf mask logits -> has_some (filtered clip tmp mask p k logits).
  Proof.
    intros Hwf. destruct (filters_keep_a_max p k _ (pre_has_some clip tmp mask logits Hwf)) as (i & _ & Hs & E).
    apply (has_some_of_nth _ i). unfold filtered. rewrite E. exact Hs.
  Qed.

  Theorem pl_length clip tmp mask p k logits : length mask = length logits ->
    length (process_logits clip tmp mask p k logits) = length logits.
  Proof.
    intros H. unfold process_logits. rewrite softmax_length, (sub_length _ _ (filtered_sub clip tmp mask p k logits)).
    apply pre_length. exact H.
  Qed.

  (* C10: normalised *)
  Theorem pl_normalised clip tmp mask p k logits : pl_wf mask logits ->
    fsum (process_logits clip tmp mask p k logits) = f1.
  Proof. intros H. apply softmax_sum. apply filtered_has_some. exact H. Qed.

  Theorem pl_nonneg clip tmp mask p k logits i : pl_wf mask logits ->
    fle f0 (nth i (process_logits clip tmp mask p k logits) f0).
  Proof. intros H. apply softmax_nonneg. apply filtered_has_some. exact H. Qed.

  (* C10: zero probability on masked actions; positive exactly on the entries that survived *)
  Theorem pl_support_masked clip tmp mask p k logits i : length mask = length logits ->
    nth i mask false = false -> nth i (process_logits clip tmp mask p k logits) f0 = f0.
  Proof.
    intros Hlen Hm. apply softmax_zero.
    destruct (sub_nth _ _ i (filtered_sub clip tmp mask p k logits)) as [E|E]; rewrite E; [|reflexivity].
    rewrite pre_masked by assumption. reflexivity.
  Qed.

  Theorem pl_support_pos clip tmp mask p k logits i : pl_wf mask logits ->
    (flt f0 (nth i (process_logits clip tmp mask p k logits) f0) <->
     is_some (nth i (filtered clip tmp mask p k logits) None) = true).
  Proof. intros H. apply softmax_pos_iff. apply filtered_has_some. exact H. Qed.

  Theorem pl_positive_unmasked clip tmp mask p k logits i : pl_wf mask logits ->
    flt f0 (nth i (process_logits clip tmp mask p k logits) f0) -> (i < length logits)%nat /\ nth i mask false = true.
  Proof.
    intros Hwf Hp. pose proof Hwf as [Hlen _]. split.
    - destruct (Nat.lt_ge_cases i (length logits)) as [Hi|Hi]; [exact Hi|]. exfalso.
      rewrite nth_overflow in Hp by (rewrite pl_length by exact Hlen; exact Hi). exact (flt_irrefl K _ Hp).
    - destruct (nth i mask false) eqn:E; [reflexivity|]. exfalso.
      rewrite pl_support_masked in Hp by assumption. exact (flt_irrefl K _ Hp).
  Qed.

  (* both halves of "the support is confined" in one statement *)
  Theorem pl_support clip tmp mask p k logits i : pl_wf mask logits ->
    (nth i mask false = false -> nth i (process_logits clip tmp mask p k logits) f0 = f0) /\
    (is_some (nth i (filtered clip tmp mask p k logits) None) = true <->
     flt f0 (nth i (process_logits clip tmp mask p k logits) f0)).
  Proof.
    intros Hwf. split.
    - apply pl_support_masked. apply Hwf.
    - symmetry. apply pl_support_pos. exact Hwf.
  Qed.

  (* C10: the most likely feasible action of the unfiltered distribution is always kept (one of them, when tied),
     and it is a most likely action of the returned distribution *)
  Theorem pl_keeps_argmax clip tmp mask p k logits : pl_wf mask logits ->
    let q := process_logits clip tmp mask f0 0 logits in          (* no top-k, no top-p *)
    let pr := process_logits clip tmp mask p k logits in
    exists i, (i < length logits)%nat /\ nth i mask false = true /\
              (forall j, fle (nth j q f0) (nth i q f0)) /\
              flt f0 (nth i pr f0) /\ (forall j, fle (nth j pr f0) (nth i pr f0)).
  Proof.
    intros Hwf q pr. set (pre := pre_logits clip tmp mask logits).
    pose proof (pre_has_some clip tmp mask logits Hwf) as Hpre. fold pre in Hpre.
    destruct (filters_keep_a_max p k pre Hpre) as (i & Hmax & Hs & E).
    pose proof (filtered_has_some clip tmp mask p k logits Hwf) as Hb.
    assert (Hpos : flt f0 (nth i pr f0)).
    { unfold pr, process_logits. apply softmax_pos_iff; [exact Hb|]. unfold filtered. fold pre. rewrite E. exact Hs. }
    destruct (pl_positive_unmasked clip tmp mask p k logits i Hwf Hpos) as [Hi Hm].
    exists i. repeat split; try assumption.
    - intros j. unfold q, process_logits. rewrite filtered_off. fold pre. unfold fle. rewrite softmax_le by exact Hpre. apply Hmax.
    - intros j. unfold pr, process_logits. unfold fle. rewrite softmax_le by exact Hb.
      unfold filtered. fold pre. rewrite E. eapply ole_trans; [|apply Hmax].
      apply sub_ole. apply (filtered_sub clip tmp mask p k logits).
  Qed.

  (* ... in particular a unique most likely action is kept *)
  Corollary pl_keeps_unique_argmax clip tmp mask p k logits i : pl_wf mask logits ->
    let q := process_logits clip tmp mask f0 0 logits in
    let pr := process_logits clip tmp mask p k logits in
    (forall j, j <> i -> flt (nth j q f0) (nth i q f0)) ->
    flt f0 (nth i pr f0) /\ (forall j, fle (nth j pr f0) (nth i pr f0)).
  Proof.
    intros Hwf q pr Hu. destruct (pl_keeps_argmax clip tmp mask p k logits Hwf) as (i1 & _ & _ & Hq & Hpos & Hmx).
    fold q in Hq. fold pr in Hpos, Hmx.
    destruct (Nat.eq_dec i1 i) as [->|Hne]; [split; assumption|].
    exfalso. exact (fle_not_flt K _ _ (Hq i) (Hu i1 Hne)).
  Qed.

  (* with monotone clipping and temperature maps a raw arg-max over the feasible actions is a mode of the
     unfiltered distribution *)
  Theorem pl_raw_argmax_is_mode clip tmp mask logits i x :
    (forall a b, lleb a b = true -> lleb (clip a) (clip b) = true) ->
    (forall a b, lleb a b = true -> lleb (tmp a) (tmp b) = true) ->
    pl_wf mask logits -> nth_error logits i = Some x -> nth i mask false = true ->
    (forall j y, nth_error logits j = Some y -> nth j mask false = true -> lleb y x = true) ->
    let q := process_logits clip tmp mask f0 0 logits in
    forall j, fle (nth j q f0) (nth i q f0).
  Proof.
    intros Hclip Htmp Hwf Hx Hm Hraw q j. pose proof Hwf as [Hlen _].
    unfold q, process_logits. rewrite filtered_off. unfold fle.
    rewrite softmax_le by (apply pre_has_some; exact Hwf).
    rewrite (pre_nth clip tmp mask logits i x Hlen Hx), Hm.
    destruct (nth_error logits j) as [y|] eqn:Ey.
    - rewrite (pre_nth clip tmp mask logits j y Hlen Ey). destruct (nth j mask false) eqn:Emj; [|reflexivity].
      cbn [ole]. apply Htmp, Hclip. eapply Hraw; eassumption.
    - rewrite nth_overflow; [reflexivity|]. rewrite pre_length by exact Hlen. apply nth_error_None. exact Ey.
  Qed.

  (* C10: top-p keeps at least mass p of the distribution it filters (the one after top-k) *)
  Definition support (pr : list K) : list bool := map (fun x => fltb f0 x) pr.
  Definition mass_on (keep : list bool) (q : list K) : K := fsum (map2 sel_rm keep q).

  Lemma support_softmax m : has_some m -> support (softmax m) = map is_some m.
  Proof.
    intros H. unfold support, softmax. fold (mass m). rewrite map_map. apply map_ext. intros x.
    pose proof (mass_pos m H) as P. destruct x as [y|]; cbn [w is_some].
    - apply (fdiv_pos K); [apply e_pos | exact P].
    - rewrite fdiv_zero. unfold fltb. rewrite fle_refl. reflexivity.
  Qed.

  Lemma mass_on_sub a b z : sub a b -> fsum (map2 sel_rm (map is_some b) (map (fun x => w x / z) a)) = mass b / z.
  Proof.
    unfold mass. induction 1 as [|x y a b Hxy Hab IH]; cbn [map map2 fsum].
    - rewrite fdiv_zero. reflexivity.
    - rewrite IH. rewrite !(Fdiv_def (Fth K)). destruct Hxy as [-> | ->].
      + destruct x; cbn [is_some sel_rm w]; ring.
      + cbn [is_some sel_rm w]. ring.
  Qed.

  Theorem pl_topp_mass clip tmp mask p k logits : pl_wf mask logits -> fle f0 p -> fle p f1 ->
    let q := process_logits clip tmp mask f0 k logits in            (* top-k only *)
    let pr := process_logits clip tmp mask p k logits in
    fle p (mass_on (support pr) q).
  Proof.
    intros Hwf Hp0 Hp1 q pr. set (a := topk_stage k (pre_logits clip tmp mask logits)).
    assert (Ha : has_some a) by (apply topk_stage_has_some, pre_has_some; exact Hwf).
    pose proof (filtered_has_some clip tmp mask p k logits Hwf) as Hb.
    unfold mass_on, pr, q, process_logits. rewrite support_softmax by exact Hb.
    rewrite filtered_topk_only. fold a. unfold softmax at 1. fold (mass a). unfold filtered. fold a.
    rewrite mass_on_sub by apply topp_stage_sub.
    pose proof (mass_pos a Ha) as P.
    replace p with (p * mass a / mass a) at 1 by (field; apply flt_neq'; exact P).
    apply fle_div_pos; [exact P|]. apply topp_stage_mass; assumption.
  Qed.

  (* C10: top-k, stated on the returned probabilities (top_p off): an action keeps positive probability iff it is
     feasible and fewer than k actions are strictly more likely in the unfiltered distribution *)
  Theorem pl_topk_spec clip tmp mask k logits i : pl_wf mask logits -> (0 < k)%nat -> (i < length logits)%nat ->
    let q := process_logits clip tmp mask f0 0 logits in
    let pr := process_logits clip tmp mask f0 k logits in
    (flt f0 (nth i pr f0) <-> nth i mask false = true /\ (count (fun y => fltb (nth i q f0) y) q < k)%nat).
  Proof.
    intros Hwf Hk Hi q pr. pose proof Hwf as [Hlen _]. set (pre := pre_logits clip tmp mask logits).
    pose proof (pre_has_some clip tmp mask logits Hwf) as Hpre. fold pre in Hpre.
    assert (Hcount : count (fun y => fltb (nth i q f0) y) q = count (oltb (nth i pre None)) pre).
    { unfold q, process_logits. rewrite filtered_off. fold pre. rewrite softmax_nth.
      unfold softmax. fold (mass pre). rewrite count_map. apply count_ext. intros x _.
      unfold fltb, oltb. rewrite ole_w. f_equal. apply fleb_div_pos. apply mass_pos. exact Hpre. }
    rewrite Hcount. unfold pr. rewrite pl_support_pos by exact Hwf. rewrite filtered_topk_only. fold pre.
    rewrite topk_stage_rank by (try (unfold pre; rewrite pre_length by exact Hlen); assumption).
    destruct (nth_error logits i) as [x|] eqn:Ex; [|apply nth_error_None in Ex; lia].
    unfold pre at 1 3. rewrite (pre_nth clip tmp mask logits i x Hlen Ex).
    destruct (nth i mask false); cbn [is_some]; split; intros [H1 H2]; split; auto; discriminate.
  Qed.

  (* how many actions keep positive probability = how many logits survive *)
  Lemma pl_support_count clip tmp mask p k logits : pl_wf mask logits ->
    count (fun x => fltb f0 x) (process_logits clip tmp mask p k logits) = nfeas (filtered clip tmp mask p k logits).
  Proof.
    intros Hwf. pose proof (support_softmax _ (filtered_has_some clip tmp mask p k logits Hwf)) as E.
    unfold support in E. unfold process_logits, nfeas.
    rewrite <- (count_map (fun x => fltb f0 x) (fun b : bool => b)), E, count_map. reflexivity.
  Qed.

  (* ------------------------------------------------------------------ greedy and sampling *)
  Lemma argmax_spec l : l <> [] ->
    (fst (argmax l) < length l)%nat /\ nth (fst (argmax l)) l f0 = snd (argmax l) /\
    (forall j, fle (nth j l f0) (snd (argmax l)) \/ (length l <= j)%nat) /\
    (forall j, (j < fst (argmax l))%nat -> flt (nth j l f0) (snd (argmax l))).
  Proof.
    induction l as [|x r IH]; intros Hne; [congruence|].
    destruct r as [|y r'].
    - cbn [argmax fst snd length nth]. repeat split; try lia.
      intros [|j]; [left; apply fle_refl | right; simpl; lia].
    - specialize (IH ltac:(discriminate)). destruct IH as (I1 & I2 & I3 & I4).
      change (argmax (x :: y :: r')) with
        (let jv := argmax (y :: r') in if snd jv <=? x then (0%nat, x) else (S (fst jv), snd jv)).
      cbv zeta. set (jv := argmax (y :: r')) in *. destruct (snd jv <=? x) eqn:E; cbn [fst snd].
      + repeat split; try (simpl; lia).
        intros [|j]; [left; apply fle_refl|]. destruct (I3 j) as [H|H]; [left | right; simpl in *; lia].
        cbn [nth]. eapply fle_trans; eassumption.
      + repeat split.
        * simpl in *. lia.
        * cbn [nth]. exact I2.
        * intros [|j]; [left; cbn [nth]; apply (flt_le K); apply fleb_false_flt; exact E|].
          destruct (I3 j) as [H|H]; [left; exact H | right; simpl in *; lia].
        * intros [|j] Hj; cbn [nth]; [apply fleb_false_flt; exact E | apply I4; lia].
  Qed.

  Lemma pl_nonempty clip tmp mask p k logits : pl_wf mask logits -> process_logits clip tmp mask p k logits <> [].
  Proof.
    intros Hwf E. pose proof (pl_normalised clip tmp mask p k logits Hwf) as S. rewrite E in S. cbn [fsum] in S.
    apply (one_neq_zero K). symmetry. exact S.
  Qed.

  (* any most likely action of the returned distribution is feasible *)
  Theorem pl_mode_feasible clip tmp mask p k logits i : pl_wf mask logits ->
    let pr := process_logits clip tmp mask p k logits in
    (forall j, fle (nth j pr f0) (nth i pr f0)) -> (i < length logits)%nat /\ nth i mask false = true /\ flt f0 (nth i pr f0).
  Proof.
    intros Hwf pr Hmx. destruct (pl_keeps_argmax clip tmp mask p k logits Hwf) as (i1 & _ & _ & _ & Hpos & _).
    fold pr in Hpos. assert (Hp : flt f0 (nth i pr f0)) by (eapply (flt_le_trans K); [exact Hpos | apply Hmx]).
    destruct (pl_positive_unmasked clip tmp mask p k logits i Hwf Hp). auto.
  Qed.

  (* C10: greedy returns a maximiser of the distribution, and it is feasible *)
  Theorem greedy_feasible clip tmp mask p k logits : pl_wf mask logits ->
    let pr := process_logits clip tmp mask p k logits in
    let g := greedy pr in
    (g < length logits)%nat /\ nth g mask false = true /\ flt f0 (nth g pr f0) /\
    (forall j, fle (nth j pr f0) (nth g pr f0)) /\ (forall j, (j < g)%nat -> flt (nth j pr f0) (nth g pr f0)).
  Proof.
    intros Hwf pr g. destruct (argmax_spec pr (pl_nonempty clip tmp mask p k logits Hwf)) as (A1 & A2 & A3 & A4).
    fold pr in A1. fold g in A1, A2, A4. rewrite <- A2 in A3, A4.
    assert (Hmx : forall j, fle (nth j pr f0) (nth g pr f0)).
    { intros j. destruct (A3 j) as [H|H]; [exact H|]. rewrite (nth_overflow pr) by exact H.
      apply pl_nonneg. exact Hwf. }
    destruct (pl_mode_feasible clip tmp mask p k logits g Hwf Hmx) as (G1 & G2 & G3).
    repeat split; assumption.
  Qed.

  (* C10: sampling can only return an action of positive probability, hence a feasible one *)
  Theorem sampling_support clip tmp mask p k logits (draw : list K -> nat) : pl_wf mask logits ->
    multinomial_contract draw ->
    let pr := process_logits clip tmp mask p k logits in
    let a := sampling draw pr in
    (a < length logits)%nat /\ nth a mask false = true /\ flt f0 (nth a pr f0).
  Proof.
    intros Hwf Hdraw pr a.
    assert (Hp : flt f0 (nth a pr f0)).
    { apply Hdraw. destruct (pl_keeps_argmax clip tmp mask p k logits Hwf) as (i & _ & _ & _ & Hpos & _). exists i. exact Hpos. }
    destruct (pl_positive_unmasked clip tmp mask p k logits a Hwf Hp). auto.
  Qed.

  (* ------------------------------------------------------------------ shift invariance (tanh clipping off) *)
  Section Shift.
    (* after the temperature map every finite logit is moved by the same amount: y |-> sh y, and the weight of
       every finite logit is multiplied by the same positive factor *)
    Variable sh : L -> L.
    Variable kappa : K.
    Hypothesis kappa_pos : flt f0 kappa.
    Hypothesis e_sh : forall y, e (sh y) = e y * kappa.

    Definition osh (a : option L) : option L := option_map sh a.

    Lemma w_osh a : w (osh a) = w a * kappa.
    Proof. destruct a; cbn [osh option_map w]; [apply e_sh | ring]. Qed.

    Lemma ole_osh a b : ole (osh a) (osh b) = ole a b.
    Proof. rewrite !ole_w, !w_osh. apply fleb_mul_pos_r. exact kappa_pos. Qed.

    Lemma oltb_osh a b : oltb (osh a) (osh b) = oltb a b.
    Proof. unfold oltb. rewrite ole_osh. reflexivity. Qed.

    Lemma mass_osh m : mass (map osh m) = mass m * kappa.
    Proof.
      unfold mass. rewrite map_map. rewrite <- fsum_map_mul_r, map_map.
      apply fsum_map_ext_in. intros x _. apply w_osh.
    Qed.

    Lemma has_some_osh m : has_some m -> has_some (map osh m).
    Proof. intros (x & Hx & Hs). exists (osh x). split; [apply in_map; exact Hx | destruct x; [reflexivity | discriminate]]. Qed.

    Lemma softmax_osh m : has_some m -> softmax (map osh m) = softmax m.
    Proof.
      intros H. pose proof (mass_pos m H) as P. unfold softmax. fold (mass (map osh m)). fold (mass m).
      rewrite mass_osh, map_map. apply map_ext. intros x. rewrite w_osh.
      field. split; apply flt_neq'; assumption.
    Qed.

    Lemma kth_largest_osh k m : kth_largest k (map osh m) = osh (kth_largest k m).
    Proof.
      unfold kth_largest. rewrite (isort_map ogeb ogeb osh) by (intros a b; unfold ogeb; apply ole_osh).
      apply nth_map_fix. reflexivity.
    Qed.

    Lemma topk_filter_osh k m : topk_filter k (map osh m) = map osh (topk_filter k m).
    Proof.
      unfold topk_filter. cbv zeta. rewrite kth_largest_osh, !map_map. apply map_ext. intros x.
      rewrite oltb_osh. destruct (oltb x (kth_largest k m)); reflexivity.
    Qed.

    Lemma topk_stage_osh k m : topk_stage k (map osh m) = map osh (topk_stage k m).
    Proof. unfold topk_stage. rewrite map_length. destruct (0 <? k)%nat; [apply topk_filter_osh | reflexivity]. Qed.

    Lemma argsort_osh m : argsort_asc (map osh m) = argsort_asc m.
    Proof.
      unfold argsort_asc. rewrite map_length. apply isort_ext. intros i j.
      rewrite !(nth_map_fix osh) by reflexivity. apply ole_osh.
    Qed.

    Lemma tp_sl_osh m : tp_sl (map osh m) = map osh (tp_sl m).
    Proof.
      unfold tp_sl, tp_idx, gather. rewrite argsort_osh, map_map. apply map_ext. intros i.
      apply nth_map_fix. reflexivity.
    Qed.

    Lemma tp_rem_osh p m : has_some m -> tp_rem p (map osh m) = tp_rem p m.
    Proof.
      intros H. unfold tp_rem, tp_rs, tp_cum, tp_idx. rewrite argsort_osh, tp_sl_osh.
      rewrite softmax_osh by (apply tp_sl_has_some; exact H). reflexivity.
    Qed.

    Lemma masked_fill_osh rem m : masked_fill rem (map osh m) = map osh (masked_fill rem m).
    Proof.
      unfold masked_fill. revert m. induction rem as [|r rem IH]; intros [|x m]; cbn [map map2]; try reflexivity.
      rewrite IH. destruct r; reflexivity.
    Qed.

    Lemma topp_filter_osh p m : has_some m -> topp_filter p (map osh m) = map osh (topp_filter p m).
    Proof.
      intros H. rewrite !topp_filter_unfold. destruct ((p <=? f0) || (f1 <=? p)); [reflexivity|].
      rewrite tp_rem_osh by exact H. apply masked_fill_osh.
    Qed.

    Lemma topp_stage_osh p m : has_some m -> topp_stage p (map osh m) = map osh (topp_stage p m).
    Proof. intros H. unfold topp_stage. destruct (fltb f0 p); [apply topp_filter_osh; exact H | reflexivity]. Qed.

    Lemma mask_fill_map (f : L -> L) mask l : mask_fill mask (map f l) = map (option_map f) (mask_fill mask l).
    Proof.
      unfold mask_fill. revert l. induction mask as [|b mask IH]; intros [|x l]; cbn [map map2]; try reflexivity.
      rewrite IH. destruct b; reflexivity.
    Qed.

    (* shraw : the shift of the raw logits (x |-> x + c); the temperature map turns it into sh *)
    Theorem pl_shift_invariant_gen (shraw tmp : L -> L) mask p k logits :
      (forall x, tmp (shraw x) = sh (tmp x)) -> pl_wf mask logits ->
      process_logits (fun x => x) tmp mask p k (map shraw logits) = process_logits (fun x => x) tmp mask p k logits.
    Proof.
      intros Htmp Hwf. unfold process_logits, filtered.
      set (pre := pre_logits (fun x => x) tmp mask logits).
      assert (Epre : pre_logits (fun x => x) tmp mask (map shraw logits) = map osh pre).
      { unfold pre, pre_logits, scale. rewrite !map_id, mask_fill_map, !map_map. apply map_ext.
        intros [x|]; cbn [option_map osh]; [rewrite Htmp|]; reflexivity. }
      rewrite Epre. pose proof (pre_has_some (fun x => x) tmp mask logits Hwf) as Hpre. fold pre in Hpre.
      rewrite topk_stage_osh, topp_stage_osh by (apply topk_stage_has_some; exact Hpre).
      apply softmax_osh. apply (filtered_has_some (fun x => x) tmp mask p k logits Hwf).
    Qed.
  End Shift.

  (* the usual reading: L has an addition, e turns it into multiplication, the temperature map is additive *)
  Theorem pl_shift_invariant (add : L -> L -> L) (tmp : L -> L) (c c' : L) mask p k logits :
    (forall x y, e (add x y) = e x * e y) ->
    (forall x, tmp (add x c) = add (tmp x) c') ->
    pl_wf mask logits ->
    process_logits (fun x => x) tmp mask p k (map (fun x => add x c) logits) =
    process_logits (fun x => x) tmp mask p k logits.
  Proof.
    intros He Htmp Hwf.
    apply (pl_shift_invariant_gen (fun y => add y c') (e c') (e_pos c') (fun y => He y c') (fun x => add x c) tmp);
      assumption.
  Qed.
End PL.

(* e_mono from "strictly increasing" on a total antisymmetric order *)
Lemma e_mono_of_strict (K : ofield) (L : Type) (lleb : L -> L -> bool) (e : L -> K) :
  (forall x y, lleb x y = true \/ lleb y x = true) ->
  (forall x y, lleb x y = true -> lleb y x = true -> x = y) ->
  (forall x y, lleb y x = false -> flt (e x) (e y)) ->
  forall x y, lleb x y = fleb (e x) (e y).
Proof.
  intros Htot Hanti Hstrict x y. destruct (lleb x y) eqn:E.
  - symmetry. destruct (lleb y x) eqn:E'.
    + rewrite (Hanti x y E E'). apply fle_refl.
    + apply (flt_le K). apply Hstrict. exact E'.
  - symmetry. apply flt_fleb_false. apply Hstrict. exact E.
Qed.
