(* C11 -- the step budget of ConstructivePolicy.forward (additions to Decoding/DecodeLoop.v; nothing there is changed).

     step = 0
     while not td["done"].all():
         ... one decoding step of every row ...
         step += 1
         if step > max_steps:
             log.error(f"Exceeded maximum number of steps ({max_steps}) duing decoding")
             break

   The test `step > max_steps` comes AFTER the step and the increment, so the loop body runs at most max_steps + 1
   times: the model's fuel is  max_steps + 1  (DecodeLoop.loop stops when its fuel is used up or every row is done).

     loop_fuel_exhausted     a budget that runs out before the batch is done: the loop returns the rows after exactly
                             `fuel` synchronous steps (this is what the code hands to post_decoder_hook after log.error)
     loop_fuel_enough        if the batch is done after n <= fuel rounds, the loop returns the rows after the FIRST round at
                             which every row is done
     loop_fuel_independent   ... hence the same rows for any two budgets >= n : with max_steps + 1 >= the episode's step bound
                             (C02) the result of the loop does not depend on max_steps
     forward_fuel_independent   the same for the whole pass (post_decoder_hook, select_best included)
     forward_ok_fuel_independent  ... and for "nothing raises"
     post_hook_no_replicas / forward_select_best_without_replicas
                             `if self.num_starts > 0 and self.select_best`: with num_starts = 0 (no multistart, no multisample)
                             select_best=True is ignored, the plain rollout is returned *)
From Coq Require Import List Bool Arith Lia ZArith.
From RL4CO Require Import Base.OField Base.EnvSig Decoding.PLTensor Decoding.ProcessLogits Decoding.DecodeLoop.
Import ListNotations.

Section Fuel.
  Variable K : ofield.
  Variable L : Type.
  Variable lleb : L -> L -> bool.
  Variable e : L -> K.
  Variables (clip tmp : L -> L) (top_p : K) (top_k : nat) (mask_logits : bool).
  Variable E : Env.
  Variable Hd : Type.
  Variable dec : Hd -> inst E -> st E -> list L * list bool.
  Variable rew : inst E -> st E -> list nat -> Z.

  Let loop' := loop K L lleb e clip tmp top_p top_k mask_logits E Hd dec.
  Let loop_ok' := loop_ok K L lleb e clip tmp top_p top_k mask_logits E Hd dec.
  Let after' := after K L lleb e clip tmp top_p top_k mask_logits E Hd dec.
  Let bstep' := bstep K L lleb e clip tmp top_p top_k mask_logits E Hd dec.
  Let all_done (rows : list (brow K E Hd)) : bool := forallb (row_done K E Hd) rows.

  (* the budget runs out first: exactly `fuel` rounds *)
  Theorem loop_fuel_exhausted m sa fuel k rows :
    (forall j, j < fuel -> all_done (after' m sa j k rows) = false) ->
    loop' m sa fuel k rows = after' m sa fuel k rows.
  Proof.
    intros Hnd. destruct (loop_iter K L lleb e clip tmp top_p top_k mask_logits E Hd dec m sa fuel k rows)
      as (n & Hn & Hl & _ & Hend).
    unfold loop', after'. rewrite Hl. destruct Hend as [->|Hd']; [reflexivity|].
    destruct (Nat.eq_dec n fuel) as [->|Hne]; [reflexivity|].
    exfalso. specialize (Hnd n ltac:(lia)). unfold all_done, after' in Hnd. rewrite Hd' in Hnd. discriminate.
  Qed.

  (* the number of rounds the loop makes when the batch is done within the budget: the least n with every row done *)
  Lemma loop_first_done m sa fuel k rows n :
    n <= fuel -> all_done (after' m sa n k rows) = true ->
    exists n0, n0 <= n /\ loop' m sa fuel k rows = after' m sa n0 k rows /\
               all_done (after' m sa n0 k rows) = true /\
               (forall j, j < n0 -> all_done (after' m sa j k rows) = false).
  Proof.
    intros Hn Hdone. destruct (loop_iter K L lleb e clip tmp top_p top_k mask_logits E Hd dec m sa fuel k rows)
      as (n0 & Hn0 & Hl & Hlt & Hend).
    assert (Hle : n0 <= n).
    { destruct (Nat.le_gt_cases n0 n) as [C|C]; [exact C|]. exfalso.
      specialize (Hlt n C). unfold all_done, after' in Hdone. rewrite Hdone in Hlt. discriminate. }
    exists n0. split; [exact Hle|]. split; [exact Hl|]. split; [|exact Hlt].
    destruct Hend as [->|Hd']; [|exact Hd'].
    assert (n = fuel) by lia. subst n. exact Hdone.
  Qed.

  Theorem loop_fuel_enough m sa fuel k rows n :
    n <= fuel -> all_done (after' m sa n k rows) = true ->
    (forall j, j < n -> all_done (after' m sa j k rows) = false) ->
    loop' m sa fuel k rows = after' m sa n k rows.
  Proof.
    intros Hn Hdone Hlt. destruct (loop_first_done m sa fuel k rows n Hn Hdone) as (n0 & Hle & Hl & Hd0 & _).
    destruct (Nat.eq_dec n0 n) as [->|Hne]; [exact Hl|]. exfalso.
    specialize (Hlt n0 ltac:(lia)). rewrite Hd0 in Hlt. discriminate.
  Qed.

  (* ================================================================== THEOREM: independence of the budget *)
  Theorem loop_fuel_independent m sa fuel fuel' k rows n :
    n <= fuel -> n <= fuel' -> all_done (after' m sa n k rows) = true ->
    loop' m sa fuel k rows = loop' m sa fuel' k rows.
  Proof.
    intros H1 H2 Hdone.
    destruct (loop_first_done m sa fuel k rows n H1 Hdone) as (a & Ha & Hla & Hda & Hlta).
    destruct (loop_first_done m sa fuel' k rows n H2 Hdone) as (b & Hb & Hlb & Hdb & Hltb).
    assert (a = b).
    { destruct (Nat.lt_trichotomy a b) as [C|[C|C]]; [|exact C|]; exfalso.
      - specialize (Hltb a C). rewrite Hda in Hltb. discriminate.
      - specialize (Hlta b C). rewrite Hdb in Hlta. discriminate. }
    subst b. rewrite Hla, Hlb. reflexivity.
  Qed.

  (* "nothing raises" is independent of the budget as well: the rounds after the first all-done round are never run *)
  Theorem loop_ok_fuel_independent m sa fuel : forall fuel' k rows n,
    n <= fuel -> n <= fuel' -> all_done (after' m sa n k rows) = true ->
    loop_ok' m sa fuel k rows = loop_ok' m sa fuel' k rows.
  Proof.
    unfold loop_ok', after', all_done. induction fuel as [|f IH]; intros fuel' k rows n H1 H2 Hdone.
    - assert (n = 0) by lia. subst n. rewrite after_0 in Hdone.
      destruct fuel' as [|f']; cbn [loop_ok]; [reflexivity|]. rewrite Hdone. reflexivity.
    - destruct fuel' as [|f'].
      + assert (n = 0) by lia. subst n. rewrite after_0 in Hdone. cbn [loop_ok]. rewrite Hdone. reflexivity.
      + cbn [loop_ok]. destruct (forallb (row_done K E Hd) rows) eqn:D; [reflexivity|].
        destruct n as [|n]; [rewrite after_0 in Hdone; congruence|].
        rewrite after_S in Hdone. f_equal. apply (IH f' (S k) _ n); [lia | lia | exact Hdone].
  Qed.

  (* ================================================================== the whole pass *)
  Let forward' := forward K L lleb e clip tmp top_p top_k mask_logits E Hd dec rew.
  Let forward_ok' := forward_ok K L lleb e clip tmp top_p top_k mask_logits E Hd dec.
  Let pre_hook' := pre_hook K E Hd.

  Theorem forward_fuel_independent m sa ms S sb fuel fuel' cfgs starts ors n :
    n <= fuel -> n <= fuel' -> all_done (after' m sa n 0 (pre_hook' sa ms S cfgs starts ors)) = true ->
    forward' m sa ms S sb fuel cfgs starts ors = forward' m sa ms S sb fuel' cfgs starts ors.
  Proof.
    intros H1 H2 Hdone. unfold forward', forward. f_equal.
    exact (loop_fuel_independent m sa fuel fuel' 0 _ n H1 H2 Hdone).
  Qed.

  Theorem forward_ok_fuel_independent m sa ms S fuel fuel' cfgs starts ors n :
    n <= fuel -> n <= fuel' -> all_done (after' m sa n 0 (pre_hook' sa ms S cfgs starts ors)) = true ->
    forward_ok' m sa ms S fuel cfgs starts ors = forward_ok' m sa ms S fuel' cfgs starts ors.
  Proof.
    intros H1 H2 Hdone. unfold forward_ok', forward_ok. f_equal.
    exact (loop_ok_fuel_independent m sa fuel fuel' 0 _ n H1 H2 Hdone).
  Qed.

  (* a budget that is one step short (max_steps + 1 = n - 1 where the batch needs n rounds): the pass returns what
     post_decoder_hook makes of the rows after fuel rounds -- truncated action lists, rows not done *)
  Theorem forward_fuel_exhausted m sa ms S sb fuel cfgs starts ors :
    (forall j, j < fuel -> all_done (after' m sa j 0 (pre_hook' sa ms S cfgs starts ors)) = false) ->
    forward' m sa ms S sb fuel cfgs starts ors =
    post_hook K E Hd rew S sb (after' m sa fuel 0 (pre_hook' sa ms S cfgs starts ors)).
  Proof. intros H. unfold forward', forward. f_equal. exact (loop_fuel_exhausted m sa fuel 0 _ H). Qed.

  (* ================================================================== select_best without replicas *)
  Theorem post_hook_no_replicas sb rows : post_hook K E Hd rew 0 sb rows = post_hook K E Hd rew 0 false rows.
  Proof. unfold post_hook. destruct (forallb _ rows); reflexivity. Qed.

  Theorem forward_select_best_without_replicas m sa ms sb fuel cfgs starts ors :
    forward' m sa ms 0 sb fuel cfgs starts ors = forward' m sa ms 0 false fuel cfgs starts ors.
  Proof. unfold forward', forward. apply post_hook_no_replicas. Qed.

  (* ... and then every row of the pass is returned, one per instance *)
  Theorem forward_no_replicas_rows m sa ms sb fuel cfgs starts ors outs :
    forward' m sa ms 0 sb fuel cfgs starts ors = Some outs ->
    outs = loop' m sa fuel 0 (pre_hook' sa ms 0 cfgs starts ors) /\ length outs = length (pre_hook' sa ms 0 cfgs starts ors).
  Proof.
    rewrite forward_select_best_without_replicas. unfold forward', forward, post_hook.
    destruct (forallb _ _); [discriminate|]. rewrite andb_false_r. intros H. inversion H. split; [reflexivity|].
    destruct (loop_iter K L lleb e clip tmp top_p top_k mask_logits E Hd dec m sa fuel 0 (pre_hook' sa ms 0 cfgs starts ors))
      as (n & _ & Hl & _). unfold loop', pre_hook' in *. rewrite Hl. apply after_length.
  Qed.
End Fuel.
