(* C10 -- the two closings of Decoding/ProcessLogits.v:
     (L := Z, K := Qc, e := 2^z)   executable, closed under the global context: this is the model that the
                                   correspondence check runs against the real process_logits (logits z * ln 2);
     (L := R, K := R,  e := exp)   the statement about the real softmax (axioms of Coq.Reals are listed by
                                   Print Assumptions).
   plus the counterexample to shift invariance under a saturating clip (tanh clipping). *)
From Coq Require Import ZArith QArith Qcanon List Bool Lia Reals Lra.
From RL4CO Require Import Base.OField Base.OFieldQc Base.OFieldR Decoding.PLTensor Decoding.ProcessLogits.
Import ListNotations.

(* ------------------------------------------------------------------ (Z, Qc, 2^z) *)
Definition pow2Q (z : Z) : Q := Qmake (2 ^ Z.max 0 z) (Z.to_pos (2 ^ Z.max 0 (- z))).
Definition pow2 (z : Z) : Qc := Q2Qc (pow2Q z).

Lemma Qcleb_Q2Qc a b : Qcleb (Q2Qc a) (Q2Qc b) = Qle_bool a b.
Proof.
  unfold Qcleb. cbn [this Q2Qc]. apply eq_true_iff_eq. rewrite !Qle_bool_iff, !Qred_correct. reflexivity.
Qed.

Lemma pow2_den z : Z.pos (Z.to_pos (2 ^ Z.max 0 z)) = (2 ^ Z.max 0 z)%Z.
Proof. apply Z2Pos.id. apply Z.pow_pos_nonneg; lia. Qed.

Lemma pow2_pos z : flt (K := QcF) f0 (pow2 z).
Proof.
  unfold flt, fltb. cbn [fleb f0 QcF]. change 0%Qc with (Q2Qc 0). unfold pow2. rewrite Qcleb_Q2Qc.
  unfold Qle_bool, pow2Q. cbn [Qnum Qden]. apply negb_true_iff. apply Z.leb_gt.
  assert (0 < 2 ^ Z.max 0 z)%Z by (apply Z.pow_pos_nonneg; lia). lia.
Qed.

Lemma pow2_mono x y : Z.leb x y = fleb (o := QcF) (pow2 x) (pow2 y).
Proof.
  cbn [fleb QcF]. unfold pow2. rewrite Qcleb_Q2Qc. unfold Qle_bool, pow2Q. cbn [Qnum Qden].
  rewrite !pow2_den, <- !Z.pow_add_r by lia.
  apply eq_true_iff_eq. rewrite !Z.leb_le.
  rewrite <- (Z.pow_le_mono_r_iff 2) by lia. lia.
Qed.

Lemma pow2_add x c : pow2 (x + c) = fmul (o := QcF) (pow2 x) (pow2 c).
Proof.
  cbn [fmul QcF]. unfold pow2, Qcmult. apply Qc_is_canon. cbn [this Q2Qc]. rewrite !Qred_correct.
  unfold Qeq, pow2Q, Qmult. cbn [Qnum Qden]. rewrite Pos2Z.inj_mul, !pow2_den.
  rewrite <- !Z.pow_add_r by lia. f_equal. lia.
Qed.

Definition plQ := process_logits QcF Z Z.leb pow2.
Definition filteredQ := filtered QcF Z Z.leb pow2.
Definition preQ := pre_logits Z.

(* temperature 1/m (m a positive integer): division by it is multiplication by m; temperature d : division by d *)
Definition tmul (m : Z) (z : Z) : Z := (z * m)%Z.
Definition tdiv (m d : Z) (z : Z) : Z := (z * m / d)%Z.
(* a concrete monotone saturating clip (stands for tanh(x) * C) *)
Definition satclip (c : Z) (z : Z) : Z := Z.max (- c) (Z.min c z).

Lemma tmul_mono m : (0 <= m)%Z -> forall a b, Z.leb a b = true -> Z.leb (tmul m a) (tmul m b) = true.
Proof. intros Hm a b H. apply Z.leb_le in H. apply Z.leb_le. unfold tmul. nia. Qed.
Lemma tdiv_mono m d : (0 <= m)%Z -> (0 < d)%Z -> forall a b, Z.leb a b = true -> Z.leb (tdiv m d a) (tdiv m d b) = true.
Proof.
  intros Hm Hd a b H. apply Z.leb_le in H. apply Z.leb_le. unfold tdiv. apply Z.div_le_mono; [exact Hd | nia].
Qed.
Lemma satclip_mono c : forall a b, Z.leb a b = true -> Z.leb (satclip c a) (satclip c b) = true.
Proof. intros a b H. apply Z.leb_le in H. apply Z.leb_le. unfold satclip. lia. Qed.

(* shift invariance at the executable instance: temperature 1/m *)
Theorem plQ_shift_invariant (m c : Z) mask p k logits :
  pl_wf Z mask logits ->
  plQ (fun x => x) (tmul m) mask p k (map (fun x => (x + c)%Z) logits) = plQ (fun x => x) (tmul m) mask p k logits.
Proof.
  intros Hwf. apply (pl_shift_invariant QcF Z Z.leb pow2 pow2_pos pow2_mono Z.add (tmul m) c (c * m)%Z).
  - exact pow2_add.
  - intros x. unfold tmul. ring.
  - exact Hwf.
Qed.

(* ... and it is FALSE as soon as a saturating clip (tanh clipping) sits in front: inherent to the feature *)
Theorem pl_shift_invariant_refuted_under_clipping :
  exists (clip : Z -> Z) (mask : list bool) (logits : list Z) (c : Z),
    (forall a b, Z.leb a b = true -> Z.leb (clip a) (clip b) = true) /\ pl_wf Z mask logits /\
    plQ clip (fun x => x) mask f0 0 (map (fun x => (x + c)%Z) logits) <> plQ clip (fun x => x) mask f0 0 logits.
Proof.
  exists (satclip 2), [true; true], [0; 1]%Z, 2%Z. split; [apply satclip_mono|]. split.
  - split; [reflexivity|]. exists 0%nat. split; [simpl; lia | reflexivity].
  - intros H. apply (f_equal (fun l => Qle_bool (this (nth 0 l 0%Qc)) (2 # 5))) in H. vm_compute in H. discriminate.
Qed.

(* readable view of a model distribution: numerator / denominator of every probability *)
Definition qnd (l : list Qc) : list Q := map this l.

(* non-vacuity / documentation examples (all by computation in the executable instance) *)
(* mask, top-k with a tie at the k-th value, top-p removing one of two tied maxima (stable ascending sort) *)
Example plQ_example_1 :
  qnd (plQ (fun x => x) (fun x => x) [true; false; true; true] (qc 1 2) 2 [3; 9; 1; 3]%Z)
  = [0 # 1; 0 # 1; 0 # 1; 1 # 1]%Q.
Proof. vm_compute. reflexivity. Qed.
(* the same without top-p: both tied maxima survive top-k = 2 ... *)
Example plQ_example_2 :
  qnd (plQ (fun x => x) (fun x => x) [true; false; true; true] f0 2 [3; 9; 1; 3]%Z)
  = [1 # 2; 0 # 1; 0 # 1; 1 # 2]%Q.
Proof. vm_compute. reflexivity. Qed.
(* ... k larger than the number of feasible actions removes nothing; temperature 1/2 doubles the logits *)
Example plQ_example_3 :
  qnd (plQ (fun x => x) (tmul 2) [true; false; true; false] f0 3 [1; 9; 0; 7]%Z) = [4 # 5; 0 # 1; 1 # 5; 0 # 1]%Q.
Proof. vm_compute. reflexivity. Qed.
(* top_p = 1 and top_p = 0 do not filter (as the code treats them); huge magnitudes are exact *)
Example plQ_example_4 :
  qnd (plQ (fun x => x) (fun x => x) [true; true] f1 0 [60; -60]%Z) = qnd (plQ (fun x => x) (fun x => x) [true; true] f0 0 [60; -60]%Z)
  /\ fsum (plQ (fun x => x) (fun x => x) [true; true] f1 0 [60; -60]%Z) = f1.
Proof. split; [vm_compute; reflexivity | apply Qc_is_canon; vm_compute; reflexivity]. Qed.
(* ties at the k-th value: more than k actions survive top-k (k = 2, three survive) *)
Example plQ_example_ties :
  nfeas Z (topk_stage Z Z.leb 2 [Some 1; Some 1; Some 5; Some 0]%Z) = 3%nat.
Proof. vm_compute. reflexivity. Qed.
Example plQ_example_wf : pl_wfb QcF Z [true; false; true; true] (qc 1 2) [3; 9; 1; 3]%Z = true.
Proof. vm_compute. reflexivity. Qed.
Example plQ_example_greedy :
  greedy QcF (plQ (fun x => x) (fun x => x) [true; false; true; true] f0 0 [3; 9; 1; 3]%Z) = 0%nat.
Proof. vm_compute. reflexivity. Qed.

(* distinct feasible logits: the hypothesis of topk_card_no_ties is satisfiable, and the count is min(k, #feasible) *)
Example plQ_example_no_ties : no_ties Z Z.leb [Some 3; None; Some 1]%Z /\
  nfeas Z (topk_filter Z Z.leb 1 [Some 3; None; Some 1]%Z) = 1%nat /\
  nfeas Z (topk_filter Z Z.leb 3 [Some 3; None; Some 1]%Z) = 2%nat.
Proof.
  split; [|split; vm_compute; reflexivity].
  intros [|[|[|i]]] [|[|[|j]]] Hi Hj Hs He; simpl in Hi, Hj; try lia; try reflexivity; vm_compute in Hs, He; discriminate.
Qed.

(* top-p: the support of the result carries at least top_p of the top-k-only distribution (here 3/4 >= 7/10) *)
Example plQ_example_topp_mass :
  let q := plQ (fun x => x) (fun x => x) [true; true; true] f0 0 [0; 0; 1]%Z in
  let pr := plQ (fun x => x) (fun x => x) [true; true; true] (qc 7 10) 0 [0; 0; 1]%Z in
  qnd pr = [0 # 1; 1 # 3; 2 # 3]%Q /\ this (mass_on QcF (support QcF pr) q) = (3 # 4)%Q.
Proof. vm_compute. split; reflexivity. Qed.

(* shift invariance, computed: adding 7 to every logit (temperature 1/2) leaves the distribution alone *)
Example plQ_example_shift :
  qnd (plQ (fun x => x) (tmul 2) [true; false; true; true] (qc 9 10) 2 (map (fun x => (x + 7)%Z) [3; 9; 1; 2]%Z))
  = qnd (plQ (fun x => x) (tmul 2) [true; false; true; true] (qc 9 10) 2 [3; 9; 1; 2]%Z).
Proof. vm_compute. reflexivity. Qed.

(* ... and the clipped counterexample, computed: (0, 1) ln2 gives (1/3, 2/3), shifted by 2 it saturates to (1/2, 1/2) *)
Example plQ_example_clip_shift :
  qnd (plQ (satclip 2) (fun x => x) [true; true] f0 0 [0; 1]%Z) = [1 # 3; 2 # 3]%Q /\
  qnd (plQ (satclip 2) (fun x => x) [true; true] f0 0 [2; 3]%Z) = [1 # 2; 1 # 2]%Q.
Proof. vm_compute. split; reflexivity. Qed.

(* the strong readings that the code does NOT satisfy (documented behaviour, not counted as defects):
   top-p cuts tied maxima in sorted order, so not EVERY most likely action survives (greedy with top-p may pick
   another of the tied actions than greedy without) ... *)
Theorem pl_keeps_every_argmax_refuted :
  exists (mask : list bool) (logits : list Z) (p : Qc) (k i : nat),
    pl_wf Z mask logits /\
    (forall j, fle (K := QcF) (nth j (plQ (fun x => x) (fun x => x) mask f0 0 logits) f0)
                              (nth i (plQ (fun x => x) (fun x => x) mask f0 0 logits) f0)) /\
    nth i (plQ (fun x => x) (fun x => x) mask p k logits) f0 = f0.
Proof.
  exists [true; false; true; true], [3; 9; 1; 3]%Z, (qc 1 2), 2%nat, 0%nat. split; [|split].
  - split; [reflexivity|]. exists 0%nat. split; [simpl; lia | reflexivity].
  - intros [|[|[|[|j]]]]; try (vm_compute; reflexivity). unfold plQ.
    rewrite (nth_overflow (process_logits _ _ _ _ _ _ _ _ _ _)) by (vm_compute; lia). vm_compute. reflexivity.
  - apply Qc_is_canon. vm_compute. reflexivity.
Qed.

(* ... and with ties at the k-th value top-k keeps more than k actions *)
Theorem topk_at_most_k_refuted :
  exists (k : nat) (m : list (option Z)), (0 < k)%nat /\ (k < nfeas Z (topk_stage Z Z.leb k m))%nat.
Proof. exists 2%nat, [Some 1; Some 1; Some 5; Some 0]%Z. split; [lia | vm_compute; lia]. Qed.

(* ------------------------------------------------------------------ (R, R, exp) *)
Local Open Scope R_scope.

Lemma exp_pos_F x : flt (K := RF) f0 (exp x).
Proof.
  unfold flt, fltb. cbn [fleb f0 RF]. apply negb_true_iff. destruct (Rleb (exp x) 0) eqn:E; [|reflexivity].
  apply Rleb_iff in E. pose proof (exp_pos x). lra.
Qed.

Lemma exp_mono_F x y : Rleb x y = fleb (o := RF) (exp x) (exp y).
Proof.
  cbn [fleb RF]. apply eq_true_iff_eq. rewrite !Rleb_iff. split; intros H.
  - destruct H as [H|H]; [left; apply exp_increasing; exact H | right; rewrite H; reflexivity].
  - apply Rnot_lt_le. intros C. apply exp_increasing in C. lra.
Qed.

Definition plR := process_logits RF R Rleb exp.

(* real softmax with temperature T: logits are divided by T *)
Theorem plR_shift_invariant (T c : R) mask p k logits :
  pl_wf R mask logits ->
  plR (fun x => x) (fun x => x / T) mask p k (map (fun x => x + c) logits) = plR (fun x => x) (fun x => x / T) mask p k logits.
Proof.
  intros Hwf. apply (pl_shift_invariant RF R Rleb exp exp_pos_F exp_mono_F Rplus (fun x => x / T) c (c / T)).
  - exact exp_plus.
  - intros x. unfold Rdiv. ring.
  - exact Hwf.
Qed.

Lemma Rdiv_mono T : 0 < T -> forall a b, Rleb a b = true -> Rleb (a / T) (b / T) = true.
Proof.
  intros HT a b H. apply Rleb_iff in H. apply Rleb_iff. unfold Rdiv.
  apply Rmult_le_compat_r; [left; apply Rinv_0_lt_compat; exact HT | exact H].
Qed.
