(* C11 -- the VALUE of outdict["entropy"] = calculate_entropy(logprobs) of a forward pass with store_all_logp
   (additions to Decoding/DecodeLoop.v, which has the structure out_entropy = gsum (map ent_entry buf) over an abstract
   term nplp; nothing there is changed).  Here the log domain is (K, 0, +) and the term is Entropy.nplp lg:

     out_entropyK cr  =  sum over the row's buffer entries (one per decoding step, each a vector over the actions)
                         of  sum_a  - p_a * lg p_a        (0 at p_a = 0)

     out_entropy_is_sum_of_step_entropies   for every returned row (Inv with sa = true): the entropy is the sum, over the
                          row's own returned (non-forced) actions, of the entropy of the masked normalised distribution
                          in the state reached by the previous actions; a forced multistart step (log-probs all 0)
                          contributes 0
     out_entropy_nonneg   >= 0 whenever the decoder's (logits, mask) are well-formed in every state
     out_entropy_zero_iff = 0 iff every step distribution along the row is a point mass *)
From Coq Require Import Ring Field Ring_theory Field_theory List Bool Arith Lia ZArith.
From RL4CO Require Import Base.OField Base.OFieldExtra Base.EnvSig Decoding.PLTensor Decoding.ProcessLogits
                          Decoding.DecodeLoop Decoding.Entropy.
Import ListNotations.

Section LoopEntropy.
  Variable K : ofield.
  Variable L : Type.
  Variable lleb : L -> L -> bool.
  Variable e : L -> K.
  Variables (clip tmp : L -> L) (top_p : K) (top_k : nat) (mask_logits : bool).
  Variable E : Env.
  Variable Hd : Type.
  Variable dec : Hd -> inst E -> st E -> list L * list bool.
  Variable rew : inst E -> st E -> list nat -> Z.
  Variable lg : K -> K.
  Open Scope of_scope.
  Add Field Kf_le : (Fth K).

  Definition out_entropyK (cr : brow K E Hd) : K := out_entropy K E Hd K f0 fadd (nplp lg) cr.

  Let spec_vecs' := spec_vecs K L lleb e clip tmp top_p top_k mask_logits E Hd dec.
  Let probs' := probs K L lleb e clip tmp top_p top_k mask_logits E Hd dec.
  Let Inv' := Inv K L lleb e clip tmp top_p top_k mask_logits E Hd dec.
  Let forward' := forward K L lleb e clip tmp top_p top_k mask_logits E Hd dec rew.

  Lemma gsum_fsum (l : list K) : gsum K f0 fadd l = fsum l.
  Proof. unfold gsum. induction l as [|x l IH]; cbn [fold_right fsum]; [reflexivity|]. rewrite IH. reflexivity. Qed.

  Lemma ent_entry_vec v : ent_entry K K f0 fadd (nplp lg) (PVec v) = entropy lg v.
  Proof. unfold ent_entry, entropy. apply gsum_fsum. Qed.

  (* the step distributions along a row, as a function of its returned actions (forced start excluded) *)
  Definition row_vecs (mse : bool) (c : rowcfg E Hd) (acts : list nat) : list (list K) :=
    spec_vecs' (rc_h c) (rc_i c) (spec_s0 E mse (rc_i c) acts) (spec_free mse acts).

  Lemma map_ent_trace_buf h i s acts :
    map (ent_entry K K f0 fadd (nplp lg)) (trace_buf K L lleb e clip tmp top_p top_k mask_logits E Hd dec true h i s acts)
    = map (entropy lg) (spec_vecs' h i s acts).
  Proof.
    revert s. induction acts as [|a acts IH]; intros s; [reflexivity|].
    cbn [trace_buf map]. unfold spec_vecs'. cbn [spec_vecs map]. fold spec_vecs'. rewrite IH.
    unfold entry. rewrite ent_entry_vec. reflexivity.
  Qed.

  Section Log.
    Hypothesis lg_1 : lg f1 = f0.

    (* a forced multistart step stores log-probabilities 0 = probabilities 1 for every action: its term is 0 *)
    Lemma ent_entry_forced i s : ent_entry K K f0 fadd (nplp lg) (forced_entry K E true i s) = f0.
    Proof.
      unfold forced_entry. rewrite ent_entry_vec. unfold entropy. rewrite map_map.
      apply fsum_all_zero_in. intros _ _. apply nplp_1. exact lg_1.
    Qed.

    (* ================================================================ THEOREM: the value *)
    Theorem out_entropy_is_sum_of_step_entropies mse cr : Inv' true mse cr ->
      out_entropyK cr = entropy_steps lg (row_vecs mse (fst cr) (r_acts (snd cr))).
    Proof.
      intros (_ & _ & Hb). unfold out_entropyK, out_entropy. rewrite Hb, gsum_fsum. unfold buf_spec.
      rewrite map_app, map_ent_trace_buf, fsum_app. unfold entropy_steps, row_vecs.
      destruct mse; cbn [map fsum].
      - rewrite ent_entry_forced. ring.
      - ring.
    Qed.

    Theorem forward_entropy_is_sum m ms S sb fuel cfgs starts ors outs :
      forward' m true ms S sb fuel cfgs starts ors = Some outs ->
      forall cr, In cr outs ->
        out_entropyK cr = entropy_steps lg (row_vecs (ms_eff ms S) (fst cr) (r_acts (snd cr))).
    Proof.
      intros H cr Hin. apply out_entropy_is_sum_of_step_entropies.
      pose proof (forward_rows_spec K L lleb e clip tmp top_p top_k mask_logits E Hd dec rew _ _ _ _ _ _ _ _ _ _ H) as HI.
      rewrite Forall_forall in HI. apply HI. exact Hin.
    Qed.

    Section Wf.
      Hypothesis lg_incr : forall x y : K, flt f0 x -> flt x y -> flt (lg x) (lg y).
      Hypothesis e_pos : forall x, flt f0 (e x).
      Hypothesis e_mono : forall x y, lleb x y = (e x <=? e y).
      (* the decoder hands over a mask with a feasible action and as many logits, in every state *)
      Hypothesis dec_wf : forall h i s, pl_wf L (eff_mask L mask_logits (dec h i s)) (fst (dec h i s)).

      Lemma probs_dist h i s : dist (probs' h i s).
      Proof. unfold probs', probs. apply (pl_dist K L lleb e e_pos e_mono). apply dec_wf. Qed.

      Lemma spec_vecs_dist h i s acts v : In v (spec_vecs' h i s acts) -> dist v.
      Proof.
        revert s. induction acts as [|a acts IH]; intros s Hv; [destruct Hv|].
        unfold spec_vecs' in Hv. cbn [spec_vecs] in Hv. destruct Hv as [<-|Hv]; [apply probs_dist | exact (IH _ Hv)].
      Qed.

      Theorem out_entropy_nonneg mse cr : Inv' true mse cr -> fle f0 (out_entropyK cr).
      Proof.
        intros HI. rewrite (out_entropy_is_sum_of_step_entropies mse cr HI).
        apply (entropy_steps_nonneg K lg lg_1 lg_incr). intros v Hv. exact (spec_vecs_dist _ _ _ _ v Hv).
      Qed.

      Theorem out_entropy_zero_iff mse cr : Inv' true mse cr ->
        (out_entropyK cr = f0 <-> forall v, In v (row_vecs mse (fst cr) (r_acts (snd cr))) -> point_mass v).
      Proof.
        intros HI. rewrite (out_entropy_is_sum_of_step_entropies mse cr HI).
        apply (entropy_steps_zero_iff K lg lg_1 lg_incr). intros v Hv. exact (spec_vecs_dist _ _ _ _ v Hv).
      Qed.

      Theorem forward_entropy_nonneg m ms S sb fuel cfgs starts ors outs :
        forward' m true ms S sb fuel cfgs starts ors = Some outs -> forall cr, In cr outs -> fle f0 (out_entropyK cr).
      Proof.
        intros H cr Hin. apply (out_entropy_nonneg (ms_eff ms S)).
        pose proof (forward_rows_spec K L lleb e clip tmp top_p top_k mask_logits E Hd dec rew _ _ _ _ _ _ _ _ _ _ H) as HI.
        rewrite Forall_forall in HI. apply HI. exact Hin.
      Qed.
    End Wf.
  End Log.
End LoopEntropy.
