(* C13 -- beam search.  Model of rl4co/utils/decoding.py : class BeamSearch, as it is driven by
   ConstructivePolicy.forward (rl4co/models/common/constructive/base.py).

   ---------------------------------------------------------------------------------------------------
   Source (abridged; R = aug_batch_size = W * B rows, W = beam_width, B = batch_size, N = num_nodes)

     pre_decoder_hook(td, env):
         assert self.beam_width > 1
         action = env.select_start_nodes(td, num_starts=W)        # forced first moves, one per row (C12)
         td = batchify(td, W)                                     # row r = instance r mod B
         td.set("action", action); td = env.step(td)["next"]
         logprobs = zeros_like(td["action_mask"])                 # [R, N]
         beam_parent = zeros(R)
         self.logprobs.append(logprobs); self.actions.append(action)
         self.parent_beam_logprobs = logprobs.gather(1, action[..., None]); self.beam_path.append(beam_parent)

     forward:   while not td["done"].all():
                    logits, mask = decoder(td, hidden, W)
                    td = strategy.step(logits, mask, td)          # process_logits, then _step, then buffers
                    td = env.step(td)["next"]

     _make_beam_step(logprobs):                                   # logprobs [R, N]
         log_beam_prob = logprobs + self.parent_beam_logprobs
         hstacked = cat(log_beam_prob.split(B), dim=1)            # [B, W*N] : row b = rows b, B+b, 2B+b, ...
         topk_logprobs, topk_ind = topk(hstacked, W, dim=1)       # [B, W]
         logprobs_selected = hstack(unbind(topk_logprobs, 1))     # position k*B + b  <-  [b][k]
         topk_ind = hstack(unbind(topk_ind, 1))
         selected = topk_ind % N ; beam_parent = topk_ind // N
         batch_beam_idx = arange(B).repeat(W) + beam_parent * B
         self.parent_beam_logprobs = logprobs_selected; self.beam_path.append(beam_parent)
     _step: td = td[batch_beam_idx]; logprobs = logprobs[batch_beam_idx]; mask = mask[batch_beam_idx]
            assert not (~mask).gather(1, selected).any()          # "infeasible action selected"
     step:  td.set("action", selected); self.actions.append(selected); self.logprobs.append(logprobs)

     _backtrack:  cur_parent = beam_path[-1]; seq = [actions[:, -1]]; lp = [logprobs[:, -1]]
                  for k in reversed(range(T - 1)):
                      idx = arange(B).repeat(W) + cur_parent * B
                      seq.append(actions[idx, k]); lp.append(logprobs[idx, k]); cur_parent = beam_path[k][idx]
                  reverse and stack
     _select_best_beam: rewards = env.get_reward(td, actions)
                  _, idx = cat(rewards.unsqueeze(1).split(B), 1).max(1); flat = arange(B) + idx * B
                  return logprobs[flat], actions[flat], td[flat]
     forward (end): reward = env.get_reward(td, actions)
                  log_likelihood = logprobs.gather(-1, actions).sum(1)   with  assert (logprobs > -1000).all()

   ---------------------------------------------------------------------------------------------------
   Modelling decisions
   * A tensor / TensorDict with leading dimension R is the list of its R rows.  A row of td is
     (instance data, environment state, ghost history); the ghost history (the actions applied to this
     state so far) is NOT in the code: it rides along with the state through every re-indexing and is what
     the theorems compare the code's own bookkeeping (actions / beam_path / backtracking) against.
   * The environment is abstract (Base/EnvSig.v); the neural decoder followed by process_logits is an
     abstract per-row function  lp : inst -> st -> list Sc  (instantiated with the C10 model in
     BeamProofs.v).  env.get_reward is an abstract per-row function rew.
   * Scores live in an abstract type Sc with an accumulation [sop] ("+" on log-probabilities), neutral
     [sone] (log 1 = 0), bottom [sbot] (-inf), a total preorder [sleb] and the test [fin] (> -inf).
     Instances: (K, *, 1, 0, <=, 0 < .) for an ordered field K of probabilities (the exponentials of the
     code's numbers: sums of logs are products, -inf is 0, the order is preserved) and
     (option Z, +, Some 0, None) for exact scaled log-probabilities.
   * Every index the code uses for a gather is a [nth_error]: an index out of range makes the model
     return None (= the code raises); the theorems prove Some.
   * torch.topk's order among equal values is unspecified; the model sorts by descending score and,
     among equal scores, ascending stacked index (stable insertion sort).
   * Lists of per-step buffers (actions, logprobs, beam_path) are kept most-recent-first. *)
From Coq Require Import List Bool Arith Lia ZArith Permutation Sorted.
From RL4CO Require Import Base.OField Base.EnvSig Decoding.PLTensor Decoding.Batchify Decoding.Nest Decoding.SelectBest.
Import ListNotations.

(* ------------------------------------------------------------------------------------------------ *)
(** * torch.topk on one row: indices of the k best entries, best first *)
Section TopK.
  Variable Sc : Type.
  Variable sleb : Sc -> Sc -> bool.
  Variable sbot : Sc.

  (* index i goes before index j when its value is at least as large *)
  Definition desc (xs : list Sc) (i j : nat) : bool := sleb (nth j xs sbot) (nth i xs sbot).
  Definition argsort_desc (xs : list Sc) : list nat := isort (desc xs) (seq 0 (length xs)).
  Definition topk_idx (k : nat) (xs : list Sc) : list nat := firstn k (argsort_desc xs).
End TopK.

Fixpoint forallb2 {A B} (f : A -> B -> bool) (a : list A) (b : list B) : bool :=
  match a, b with
  | x :: a', y :: b' => f x y && forallb2 f a' b'
  | [], [] => true
  | _, _ => false
  end.

(* x[idx] along the leading dimension; None = an index is out of range (IndexError) *)
Definition gather_rows {X} (l : list X) (idx : list nat) : option (list X) := mapM (nth_error l) idx.

Section Beam.
  Variable E : Env.
  Variable Sc : Type.
  Variable sop : Sc -> Sc -> Sc.
  Variables sone sbot : Sc.
  Variable sleb : Sc -> Sc -> bool.
  Variable fin : Sc -> bool.
  Variable lp : inst E -> st E -> list Sc.
  Variable rew : inst E -> st E -> list nat -> Z.

  (* one row of td: instance data, state, ghost history *)
  Definition row := (inst E * st E * list nat)%type.
  Definition r_inst (r : row) : inst E := fst (fst r).
  Definition r_st (r : row) : st E := snd (fst r).
  Definition r_hist (r : row) : list nat := snd r.

  Record bstate := mkB {
    b_rows : list row;                   (* td *)
    b_acts : list (list nat);            (* self.actions      : per step (latest first) the [R] tensor *)
    b_lps  : list (list (list Sc));       (* self.logprobs     : per step (latest first) the [R, N] tensor *)
    b_path : list (list nat);            (* self.beam_path    : per step (latest first) the [R] tensor *)
    b_pbl  : list Sc                      (* self.parent_beam_logprobs, [R] *)
  }.

  (* env.step on one row with the chosen action; the ghost history grows *)
  Definition row_step (r : row) (a : nat) : row :=
    (r_inst r, step E (r_inst r) (r_st r) a, r_hist r ++ [a]).
  Definition row_stepok (r : row) (a : nat) : bool := stepok E (r_inst r) (r_st r) a.
  Definition row_mask (r : row) : list bool := mask E (r_inst r) (r_st r).
  Definition row_lp (r : row) : list Sc := lp (r_inst r) (r_st r).
  Definition row_done (r : row) : bool := done E (r_inst r) (r_st r).

  (* ---------------------------------------------------------------- pre_decoder_hook *)
  Definition pre_hook (W : nat) (insts : list (inst E)) (starts : list nat) : option bstate :=
    if W <=? 1 then None else                                            (* assert self.beam_width > 1 *)
    let tdb := batchify_single W insts in                                (* batchify(td, W) *)
    if negb (length starts =? length tdb) then None else                 (* td.set("action", ..) of another batch size *)
    let rows0 := map2 (fun i a => (i, reset E i, @nil nat)) tdb starts in
    if negb (forallb2 row_stepok rows0 starts) then None else
    let rows1 := map2 row_step rows0 starts in                           (* env.step(td)["next"] *)
    let lp0 := map (fun r => map (fun _ : bool => sone) (row_mask r)) rows1 in   (* zeros_like(td["action_mask"]) *)
    match zipM (fun (a : nat) (v : list Sc) => nth_error v a) starts lp0 with     (* logprobs.gather(1, action) *)
    | None => None
    | Some pbl =>
        Some {| b_rows := rows1; b_acts := [starts]; b_lps := [lp0];
                b_path := [map (fun _ => 0) starts]; b_pbl := pbl |}
    end.

  (* ---------------------------------------------------------------- _make_beam_step / _step / step / env.step *)
  (* logprobs + self.parent_beam_logprobs, one row *)
  Definition lbp_row (v : list Sc) (p : Sc) : list Sc := map (fun x => sop x p) v.
  (* torch.cat(log_beam_prob.split(B), dim=1), row b: the rows b, B+b, ..., (W-1)B+b side by side *)
  Definition hstack (B W : nat) (lb : list (list Sc)) (b : nat) : list Sc :=
    concat (map (fun j => nth (j * B + b) lb []) (seq 0 W)).

  (* torch.topk(hstacked, W, dim=1)[1] : [B][W] *)
  Definition topk_all (W B : nat) (lb : list (list Sc)) : list (list nat) :=
    map (fun b => topk_idx Sc sleb sbot W (hstack B W lb b)) (seq 0 B).
  (* hstack(unbind(topk_ind, 1)): position r = k*B + b holds topk_ind[b][k] *)
  Definition stack_ind (B : nat) (tk : list (list nat)) (r : nat) : nat := nth (r / B) (nth (r mod B) tk []) 0.

  Definition beam_step (W : nat) (bs : bstate) : option bstate :=
    let rows := b_rows bs in
    let R := length rows in
    let B := R / W in                                                    (* aug_batch_size // self.beam_width *)
    let lpv := map row_lp rows in                                        (* process_logits(decoder(td)) : [R, N] *)
    let msk := map row_mask rows in
    let N := length (hd [] lpv) in                                       (* logprobs.shape[1] *)
    if N =? 0 then None else                                             (* topk(k = W) over W*0 entries raises *)
    let lb := map2 lbp_row lpv (b_pbl bs) in
    let tk := topk_all W B lb in
    let sel := map (fun r => stack_ind B tk r mod N) (seq 0 R) in
    let par := map (fun r => stack_ind B tk r / N) (seq 0 R) in
    let bbi := map (fun r => r mod B + (stack_ind B tk r / N) * B) (seq 0 R) in     (* batch_beam_idx *)
    let pbl' := map (fun r => nth (stack_ind B tk r) (hstack B W lb (r mod B)) sbot) (seq 0 R) in   (* hstack(unbind(topk_logprobs, 1)) *)
    match gather_rows rows bbi, gather_rows lpv bbi, gather_rows msk bbi with
    | Some rows1, Some lpv1, Some msk1 =>
        if negb (forallb2 (fun (m : list bool) a => nth a m false) msk1 sel) then None   (* assert "infeasible action selected" *)
        else if negb (forallb2 row_stepok rows1 sel) then None
        else Some {| b_rows := map2 row_step rows1 sel;
                     b_acts := sel :: b_acts bs; b_lps := lpv1 :: b_lps bs;
                     b_path := par :: b_path bs; b_pbl := pbl' |}
    | _, _, _ => None
    end.

  (* while not td["done"].all(): ... ; [fuel] = max_steps + 1 *)
  Definition all_done (bs : bstate) : bool := forallb row_done (b_rows bs).
  Fixpoint loop (fuel W : nat) (bs : bstate) : option bstate :=
    if all_done bs then Some bs else
    match fuel with
    | 0 => Some bs
    | S f => match beam_step W bs with None => None | Some bs' => loop f W bs' end
    end.

  (* ---------------------------------------------------------------- _backtrack, for output row r *)
  (* q = the row to read at the current (latest remaining) step; result latest-first *)
  Fixpoint bt_from {X} (B r : nat) (cols : list (list X)) (path : list (list nat)) (q : nat) : option (list X) :=
    match cols, path with
    | c :: cols', p :: path' =>
        match nth_error c q, nth_error p q with
        | Some x, Some pq => option_map (cons x) (bt_from B r cols' path' (r mod B + pq * B))
        | _, _ => None
        end
    | [], [] => Some []
    | _, _ => None                          (* assert actions.size(1) == len(self.beam_path) *)
    end.

  Definition backtrack (W : nat) (bs : bstate) : option (list (list nat) * list (list (list Sc))) :=
    let R := length (hd [] (b_acts bs)) in                                (* actions.size(0) *)
    let B := R / W in
    match mapM (fun r => bt_from B r (b_acts bs) (b_path bs) r) (seq 0 R),
          mapM (fun r => bt_from B r (b_lps bs) (b_path bs) r) (seq 0 R) with
    | Some a, Some l => Some (map (@rev nat) a, map (@rev (list Sc)) l)
    | _, _ => None
    end.

  (* ---------------------------------------------------------------- _select_best_beam *)
  Definition rewards_of (rows : list row) (acts : list (list nat)) : list Z :=
    map2 (fun r a => rew (r_inst r) (r_st r) a) rows acts.

  Definition best_flat (W : nat) (rewards : list Z) : option (list nat) :=
    let B := length rewards / W in
    let M := map (fun b => map (fun j => nth (j * B + b) rewards 0%Z) (seq 0 W)) (seq 0 B) in   (* cat(split(B), 1) *)
    match mapM argmax_row M with                                                                (* .max(1) *)
    | Some idx => Some (map2 (fun b i => b + i * B) (seq 0 B) idx)
    | None => None
    end.

  Definition out3 := (list (list (list Sc)) * list (list nat) * list row)%type.   (* logprobs, actions, td *)

  Definition select_best_beam (W : nat) (o : out3) : option out3 :=
    match o with (lps, acts, rows) =>
      match best_flat W (rewards_of rows acts) with
      | None => None
      | Some flat =>
          match gather_rows lps flat, gather_rows acts flat, gather_rows rows flat with
          | Some l, Some a, Some t => Some (l, a, t)
          | _, _, _ => None
          end
      end
    end.

  Definition post_hook (W : nat) (select_best : bool) (bs : bstate) : option out3 :=
    match backtrack W bs with
    | None => None
    | Some (acts, lps) =>
        if select_best then select_best_beam W (lps, acts, b_rows bs) else Some (lps, acts, b_rows bs)
    end.

  (* ---------------------------------------------------------------- get_log_likelihood (sum over the steps) *)
  Definition ll_row (lpsr : list (list Sc)) (actsr : list nat) : option Sc :=
    match zipM (fun (a : nat) (v : list Sc) => nth_error v a) actsr lpsr with    (* logprobs.gather(-1, actions) *)
    | None => None
    | Some g => if forallb fin g then Some (fold_left sop g sone) else None    (* assert (logprobs > -1000).all() ; .sum(1) *)
    end.

  (* what policy(td, env, decode_type="beam_search", beam_width=W, select_best=..) returns:
     (log_likelihood, actions, reward) per returned row, plus the final td rows *)
  Definition forward (fuel W : nat) (select_best : bool) (insts : list (inst E)) (starts : list nat)
    : option (list Sc * list (list nat) * list Z * list row) :=
    match pre_hook W insts starts with
    | None => None
    | Some bs0 =>
        match loop fuel W bs0 with
        | None => None
        | Some bs =>
            match post_hook W select_best bs with
            | None => None
            | Some (lps, acts, rows) =>
                match zipM (fun a l => ll_row l a) acts lps with
                | None => None
                | Some ll => Some (ll, acts, rewards_of rows acts, rows)
                end
            end
        end
    end.

  (* ================================================================================================ *)
  (** * Specification vocabulary (independent of the beam bookkeeping) *)

  (* the step log-probability vectors the policy assigns along a history (after the forced first move) *)
  Fixpoint lps_from (i : inst E) (s : st E) (acts : list nat) : list (list Sc) :=
    match acts with [] => [] | a :: r => lp i s :: lps_from i (step E i s a) r end.
  Definition lps_along (i : inst E) (h : list nat) : list (list Sc) :=
    match h with
    | [] => []
    | a0 :: r => let s1 := step E i (reset E i) a0 in
                 map (fun _ : bool => sone) (mask E i s1) :: lps_from i s1 r
    end.

  (* accumulated score of a history: the forced first move counts sone, every later move its log-probability *)
  Fixpoint score_from (i : inst E) (s : st E) (acts : list nat) (acc : Sc) : Sc :=
    match acts with
    | [] => acc
    | a :: r => score_from i (step E i s a) r (sop (nth a (lp i s) sbot) acc)
    end.
  Definition score (i : inst E) (h : list nat) : Sc :=
    match h with [] => sone | a0 :: r => score_from i (step E i (reset E i) a0) r sone end.

  (* the step scores along a history: sone for the forced first move, then the log-probability of each move *)
  Fixpoint steps_from (i : inst E) (s : st E) (acts : list nat) : list Sc :=
    match acts with [] => [] | a :: r => nth a (lp i s) sbot :: steps_from i (step E i s a) r end.
  Definition steps (i : inst E) (h : list nat) : list Sc :=
    match h with [] => [] | a0 :: r => sone :: steps_from i (step E i (reset E i) a0) r end.

  (* the score of expanding row q with action n *)
  Definition expansion_score (bs : bstate) (q n : nat) : Sc :=
    match nth_error (b_rows bs) q, nth_error (b_pbl bs) q with
    | Some r, Some p => sop (nth n (row_lp r) sbot) p
    | _, _ => sbot
    end.
End Beam.
