(* C12 part 5: forced start actions of multistart decoding.

   rl4co/utils/ops.py: get_num_starts, select_start_nodes (quoted at each definition below);
   overrides: envs/routing/pdp/env.py, envs/routing/mtvrp/env.py, envs/graph/flp/env.py,
   envs/graph/mcp/env.py; rl4co/utils/ops.py sample_n_random_actions (used by FJSPEnv.select_start_nodes
   and handed to the policy by tasks/eval.py SamplingEval); utils/decoding.py pre_decoder_hook.

   A batch is the list [masks] of the instances' reset action masks (row b = td["action_mask"][b], all of
   width N = td["action_mask"].shape[-1] = td["locs"].shape[-2] where the env has "locs").
   Every rule starts from  torch.arange(num_starts).repeat_interleave(td.shape[0]) : B zeros, B ones, ...
   so row r of the result carries replica number r / B, and -- batchify putting instance r mod B in row r
   (Batchify.nth_batchify) -- it is the start of instance r mod B.

   Randomness (torch.multinomial in the OP branch and in sample_n_random_actions) is an ORACLE input
   [draw : instance -> sample number -> index] with the documented contract of torch.multinomial (only
   indices of positive weight are returned; without replacement they are pairwise distinct per row).
   The distribution is not modelled. *)
From Coq Require Import ZArith List Bool Lia ZifyBool Arith.
From RL4CO Require Import Decoding.Batchify.
Import ListNotations.

(* ------------------------------------------------------------------------------------------------ *)
(** * Model *)

(* grid g k B : for j < k, for b < B : g j b   -- the "(n b)" row order, replica-major *)
Definition grid {Y : Type} (g : nat -> nat -> Y) (j0 k B : nat) : list Y :=
  flat_map (fun j => map (g j) (seq 0 B)) (seq j0 k).

(* torch.arange(k).repeat_interleave(B) *)
Definition arange_repeat_interleave (k B : nat) : list nat := flat_map (fun j => repeat j B) (seq 0 k).

(* num_loc = env.generator.num_loc if hasattr(env.generator, "num_loc") else 0xFFFFFFFF *)
Definition NO_NUM_LOC : Z := 4294967295%Z.
Definition gen_num_loc_value (gen_num_loc : option nat) : Z :=
  match gen_num_loc with Some n => Z.of_nat n | None => NO_NUM_LOC end.

(* x % num_loc for x >= 0 and a python int num_loc > 0 *)
Definition modz (j : nat) (m : Z) : nat := Z.to_nat (Z.of_nat j mod m).

(* torch.arange(num_starts).repeat_interleave(B) % num_loc (+ 1 when [offset] = 1).
   None: num_loc = 0 raises ZeroDivisionError; a negative num_loc is not a size (outside the model). *)
Definition starts_mod (offset : nat) (num_loc : Z) (k B : nat) : option (list nat) :=
  if (num_loc <=? 0)%Z then None
  else Some (map (fun j => modz j num_loc + offset) (arange_repeat_interleave k B)).

Inductive env_name :=
| Etsp | Eatsp | Eflp | Emcp | Ejssp | Efjsp | Eop
| Ecvrp | Ecvrptw | Esdvrp | Emtsp | Epctsp | Espctsp
| Epdp | Esvrp | Emtvrp | Eother.

(* ops.get_num_starts(td, env_name):
     num_starts = td["action_mask"].shape[-1]
     if env_name == "pdp": num_starts = (num_starts - 1) // 2
     elif env_name in ["cvrp","cvrptw","sdvrp","mtsp","op","pctsp","spctsp"]: num_starts = num_starts - 1 *)
Definition ops_get_num_starts (name : env_name) (N : nat) : Z :=
  match name with
  | Epdp => (Z.of_nat N - 1) / 2
  | Ecvrp | Ecvrptw | Esdvrp | Emtsp | Eop | Epctsp | Espctsp => Z.of_nat N - 1
  | _ => Z.of_nat N
  end.

(* env.get_num_starts(td): RL4COEnvBase delegates to ops.get_num_starts(td, self.name); PDPEnv returns
   (td["locs"].shape[-2] - 1) // 2, FLPEnv / MCPEnv return td["action_mask"].shape[-1] -- the same values;
   MTVRPEnv does not override (name "mtvrp" is in no list: N, depot included). *)
Definition env_get_num_starts (name : env_name) (N : nat) : Z := ops_get_num_starts name N.

Definition count_true (m : list bool) : nat := length (filter (fun x => x) m).

(* (td["action_mask"][..., 1:].float().sum(-1) < num_starts).any() *)
Definition op_needs_resample (k : nat) (masks : list (list bool)) : bool :=
  existsb (fun m => count_true (tl m) <? k) masks.

(* selected = torch.multinomial(td["action_mask"][..., 1:].float(), num_starts, replacement=True) + 1
   selected = rearrange(selected, "b n -> (n b)")
   None: multinomial raises on a row whose weights sum to 0 *)
Definition op_resample (k : nat) (masks : list (list bool)) (draw : nat -> nat -> nat) : option (list nat) :=
  if existsb (fun m => count_true (tl m) =? 0) masks then None
  else Some (grid (fun j b => draw b j + 1) 0 k (length masks)).

(* ops.select_start_nodes(td, env, num_starts) *)
Definition ops_select_start_nodes (name : env_name) (gen_num_loc : option nat) (k : nat)
           (masks : list (list bool)) (draw : nat -> nat -> nat) : option (list nat) :=
  let num_loc := gen_num_loc_value gen_num_loc in
  let B := length masks in
  match name with
  | Etsp | Eatsp | Eflp | Emcp => starts_mod 0 num_loc k B
  | Ejssp | Efjsp => None                              (* raise NotImplementedError *)
  | Eop =>
      match starts_mod 1 num_loc k B with
      | None => None
      | Some selected => if op_needs_resample k masks then op_resample k masks draw else Some selected
      end
  | _ => starts_mod 1 num_loc k B
  end.

(* env.select_start_nodes(td, num_starts) with the overrides:
     PDPEnv   : num_possible_starts = (td["locs"].shape[-2] - 1) // 2 ; arange.repeat_interleave % it + 1
     MTVRPEnv : num_loc = td["locs"].shape[-2] - 1                    ; ... % num_loc + 1
     FLPEnv / MCPEnv : num_loc = td["action_mask"].shape[-1]          ; ... % num_loc *)
Definition env_select_start_nodes (name : env_name) (gen_num_loc : option nat) (N k : nat)
           (masks : list (list bool)) (draw : nat -> nat -> nat) : option (list nat) :=
  let B := length masks in
  match name with
  | Epdp => starts_mod 1 (Z.of_nat ((N - 1) / 2)) k B
  | Emtvrp => starts_mod 1 (Z.of_nat (N - 1)) k B
  | Eflp | Emcp => starts_mod 0 (Z.of_nat N) k B
  | _ => ops_select_start_nodes name gen_num_loc k masks draw
  end.

(* ops.sample_n_random_actions(td, n):
     n_valid_actions = torch.sum(action_mask[:, 1:], 1).min(); replace = n_valid_actions < n
     ps = rand; ps[~action_mask] = -inf; ps = softmax(ps, dim=1)
     selected = torch.multinomial(ps, n, replacement=replace).squeeze(1)
     selected = rearrange(selected, "b n -> (n b)")
   None: n = 1 (squeeze(1) removes the axis the rearrange pattern needs); an all-false row (softmax of
   all -inf is nan, multinomial raises) *)
Definition sample_replace (n : nat) (masks : list (list bool)) : bool :=
  existsb (fun m => count_true (tl m) <? n) masks.
Definition sample_n_random_actions (n : nat) (masks : list (list bool)) (draw : nat -> nat -> nat)
  : option (list nat) :=
  if (n =? 1) || existsb (fun m => count_true m =? 0) masks then None
  else Some (grid (fun j b => draw b j) 0 n (length masks)).

(* contract of torch.multinomial on weights w (row b): every returned index has positive weight *)
Definition draw_positive (k : nat) (weights : list (list bool)) (draw : nat -> nat -> nat) : Prop :=
  forall b w j, nth_error weights b = Some w -> j < k -> nth (draw b j) w false = true.
(* ... and without replacement the k indices of a row are pairwise distinct *)
Definition draw_distinct (k : nat) (B : nat) (draw : nat -> nat -> nat) : Prop :=
  forall b j1 j2, b < B -> j1 < k -> j2 < k -> j1 <> j2 -> draw b j1 <> draw b j2.

(* DecodingStrategy.__init__ (the part that fixes multistart / multisample / num_starts):
     assert not (multistart and multisample)
     if num_samples and num_starts: assert not (num_samples > 1 and num_starts > 1)
     if num_samples is not None: multisample = num_samples > 1
     if num_starts  is not None: multistart  = num_starts > 1
     self.num_starts = num_starts if multistart else num_samples            *)
Definition strategy_init (multistart multisample : bool) (num_starts num_samples : option Z)
  : option (bool * bool * option Z) :=
  if multistart && multisample then None
  else
    let clash := match num_samples, num_starts with
                 | Some a, Some b => negb (a =? 0)%Z && negb (b =? 0)%Z && (1 <? a)%Z && (1 <? b)%Z
                 | _, _ => false
                 end in
    if clash then None
    else
      let multisample' := match num_samples with Some a => (1 <? a)%Z | None => multisample end in
      let multistart' := match num_starts with Some b => (1 <? b)%Z | None => multistart end in
      Some (multistart', multisample', if multistart' then num_starts else num_samples).

(* pre_decoder_hook, the computation of the number of replicas:
     if self.multistart or self.multisample:
         if self.num_starts is None: self.num_starts = env.get_num_starts(td)
     else: self.num_starts = 0                                                  *)
Definition hook_num_starts (multistart multisample : bool) (num_starts : option Z) (env_default : Z) : Z :=
  if multistart || multisample
  then match num_starts with Some n => n | None => env_default end
  else 0%Z.

(* pre_decoder_hook, the rows it hands to env.step (a row = the instance's row and the forced action):
     if self.num_starts >= 1:
         if self.multistart:
             action = select_start_nodes(...)            (unless given)
             td = batchify(td, self.num_starts); td.set("action", action); td = env.step(td)["next"]
         else: td = batchify(td, self.num_starts)
   None: select raised, or td.set rejects an action tensor whose length is not the new batch size *)
Definition pre_decoder_hook_rows {T : Type} (multistart : bool) (ns : Z) (select : nat -> option (list nat))
           (td : list T) : option (list (T * option nat)) :=
  if (1 <=? ns)%Z then
    if multistart then
      match select (Z.to_nat ns) with
      | None => None
      | Some action =>
          let td' := batchify [ns] td in
          if length action =? length td' then Some (combine td' (map Some action)) else None
      end
    else Some (map (fun t => (t, None)) (batchify [ns] td))
  else Some (map (fun t => (t, None)) td).

(* ------------------------------------------------------------------------------------------------ *)
(** * Row layout of the grid and of arange.repeat_interleave *)

Lemma grid_length : forall (Y : Type) (g : nat -> nat -> Y) k j0 B, length (grid g j0 k B) = k * B.
Proof.
  unfold grid. induction k as [|k IH]; intros j0 B; [reflexivity|].
  cbn [seq flat_map]. rewrite app_length, map_length, seq_length, IH. lia.
Qed.

Lemma grid_nth : forall (Y : Type) (g : nat -> nat -> Y) k j0 B r d,
  r < k * B -> nth r (grid g j0 k B) d = g (j0 + r / B) (r mod B).
Proof.
  unfold grid. induction k as [|k IH]; intros j0 B r d Hr; [lia|].
  assert (HB : B <> 0) by (intro E; subst; lia).
  cbn [seq flat_map]. destruct (Nat.lt_ge_cases r B) as [Hlt|Hge].
  - rewrite app_nth1 by (now rewrite map_length, seq_length).
    rewrite nth_map' with (d := 0) by (now rewrite seq_length).
    rewrite seq_nth by exact Hlt. rewrite Nat.div_small, Nat.mod_small, Nat.add_0_r by exact Hlt. reflexivity.
  - rewrite app_nth2 by (now rewrite map_length, seq_length). rewrite map_length, seq_length.
    rewrite IH by lia. rewrite mod_sub_self by assumption.
    rewrite <- (div_sub_self HB Hge). f_equal. lia.
Qed.

Lemma ari_is_grid : forall k B, arange_repeat_interleave k B = grid (fun j _ => j) 0 k B.
Proof.
  intros k B. unfold arange_repeat_interleave, grid. apply flat_map_ext. intro j.
  rewrite (map_const_repeat j (seq 0 B)), seq_length. reflexivity.
Qed.

Lemma ari_length : forall k B, length (arange_repeat_interleave k B) = k * B.
Proof. intros. rewrite ari_is_grid. apply grid_length. Qed.

Lemma ari_nth : forall k B r d, r < k * B -> nth r (arange_repeat_interleave k B) d = r / B.
Proof. intros. rewrite ari_is_grid, grid_nth by assumption. reflexivity. Qed.

Lemma modz_nat : forall j n, n <> 0 -> modz j (Z.of_nat n) = j mod n.
Proof. intros j n Hn. unfold modz. rewrite <- Nat2Z.inj_mod. apply Nat2Z.id. Qed.

Lemma modz_no_num_loc : forall j, (Z.of_nat j < NO_NUM_LOC)%Z -> modz j NO_NUM_LOC = j.
Proof. intros j Hj. unfold modz. rewrite Z.mod_small by lia. apply Nat2Z.id. Qed.

(* ------------------------------------------------------------------------------------------------ *)
(** * The deterministic rules *)

Section Mod.
Variables (offset num_loc k B : nat) (sel : list nat).
Hypothesis Hnz : num_loc <> 0.
Hypothesis Hsel : starts_mod offset (Z.of_nat num_loc) k B = Some sel.

Lemma starts_mod_eq : sel = map (fun j => j mod num_loc + offset) (arange_repeat_interleave k B).
Proof.
  unfold starts_mod in Hsel. destruct (Z.of_nat num_loc <=? 0)%Z eqn:E; [lia|].
  injection Hsel as <-. apply map_ext. intro j. now rewrite modz_nat.
Qed.

(* starts_layout: one start per row of the expanded batch; row r (instance r mod B, replica r / B)
   gets candidate number (r / B) mod num_loc *)
Theorem starts_mod_layout :
  length sel = k * B /\ forall r, r < k * B -> nth r sel 0 = (r / B) mod num_loc + offset.
Proof.
  rewrite starts_mod_eq. split; [now rewrite map_length, ari_length|].
  intros r Hr. rewrite nth_map' with (d := 0) by (now rewrite ari_length). now rewrite ari_nth.
Qed.

Theorem starts_mod_range : forall r, r < k * B -> offset <= nth r sel 0 < num_loc + offset.
Proof.
  intros r Hr. destruct starts_mod_layout as [_ H]. rewrite (H r Hr).
  pose proof (Nat.mod_upper_bound (r / B) num_loc Hnz). lia.
Qed.

(* starts_distinct: two different rows of the same instance get different starts when k <= num_loc *)
Theorem starts_mod_distinct : k <= num_loc ->
  forall r1 r2, r1 < k * B -> r2 < k * B -> r1 mod B = r2 mod B -> r1 <> r2 -> nth r1 sel 0 <> nth r2 sel 0.
Proof.
  intros Hk r1 r2 H1 H2 Hm Hne. destruct starts_mod_layout as [_ H]. rewrite (H r1 H1), (H r2 H2).
  assert (HB : B <> 0) by (intro E; subst B; lia).
  assert (Hd : r1 / B <> r2 / B).
  { intro E. apply Hne. rewrite (Nat.div_mod r1 B HB), (Nat.div_mod r2 B HB). congruence. }
  assert (r1 / B < k) by (apply Nat.div_lt_upper_bound; [exact HB|lia]).
  assert (r2 / B < k) by (apply Nat.div_lt_upper_bound; [exact HB|lia]).
  rewrite !Nat.mod_small by lia. lia.
Qed.

(* the starts of one instance are exactly the first min(k, num_loc) candidates: if the reset mask allows
   those, every forced start is feasible (for any k: a replica number beyond num_loc wraps around) *)
Theorem starts_mod_feasible : forall masks,
  length masks = B ->
  (forall m c, In m masks -> c < Nat.min k num_loc -> nth (c + offset) m false = true) ->
  forall r, r < k * B -> nth (nth r sel 0) (nth (r mod B) masks []) false = true.
Proof.
  intros masks Hlen Hadm r Hr. destruct starts_mod_layout as [_ H]. rewrite (H r Hr).
  assert (HB : B <> 0) by (intro E; subst B; lia).
  apply Hadm; [apply nth_In; rewrite Hlen; now apply Nat.mod_upper_bound|].
  assert (r / B < k) by (apply Nat.div_lt_upper_bound; [exact HB|lia]).
  pose proof (Nat.mod_upper_bound (r / B) num_loc Hnz). pose proof (Nat.mod_le (r / B) num_loc Hnz). lia.
Qed.

(* conversely a candidate among the first min(k, num_loc) that the reset mask forbids IS forced *)
Theorem starts_mod_forces : forall c b, c < Nat.min k num_loc -> b < B ->
  nth (c * B + b) sel 0 = c + offset /\ c * B + b < k * B /\ (c * B + b) mod B = b.
Proof.
  intros c b Hc Hb. destruct starts_mod_layout as [_ H].
  assert (HB : B <> 0) by lia. assert (Hr : c * B + b < k * B) by nia.
  rewrite (H _ Hr). rewrite Nat.div_add_l, Nat.div_small, Nat.add_0_r, Nat.mod_small by lia.
  repeat split; [exact Hr|]. rewrite Nat.add_comm, Nat.mod_add, Nat.mod_small by lia. reflexivity.
Qed.
End Mod.

(* ------------------------------------------------------------------------------------------------ *)
(** * Which modulus each environment uses, and the default number of starts *)

(* the modulus and offset of the deterministic branch taken by env.select_start_nodes *)
Definition env_modulus (name : env_name) (gen_num_loc : option nat) (N : nat) : Z :=
  match name with
  | Epdp => Z.of_nat ((N - 1) / 2)
  | Emtvrp => Z.of_nat (N - 1)
  | Eflp | Emcp => Z.of_nat N
  | _ => gen_num_loc_value gen_num_loc
  end.
Definition env_offset (name : env_name) : nat :=
  match name with Etsp | Eatsp | Eflp | Emcp => 0 | _ => 1 end.

Lemma env_select_deterministic : forall name gen N k masks draw,
  name <> Ejssp -> name <> Efjsp -> (name = Eop -> op_needs_resample k masks = false) ->
  env_select_start_nodes name gen N k masks draw =
  starts_mod (env_offset name) (env_modulus name gen N) k (length masks).
Proof.
  intros name gen N k masks draw H1 H2 H3.
  destruct name; try reflexivity; try contradiction.
  cbn [env_select_start_nodes ops_select_start_nodes env_offset env_modulus].
  rewrite (H3 eq_refl). destruct (starts_mod 1 (gen_num_loc_value gen) k (length masks)); reflexivity.
Qed.

(* With the environment's own default k = get_num_starts(td), the instance-sized rules (PDP, FLP, MCP and
   the generic rule when generator.num_loc matches the instance) satisfy k <= modulus: distinct starts. *)
Lemma default_k_le_modulus_pdp : forall N, 1 <= N ->
  (env_get_num_starts Epdp N <= env_modulus Epdp None N)%Z.
Proof.
  intros N HN. cbn [env_get_num_starts ops_get_num_starts env_modulus].
  rewrite Nat2Z.inj_div, Nat2Z.inj_sub by lia. cbn. lia.
Qed.
Lemma default_k_le_modulus_graph : forall N,
  (env_get_num_starts Eflp N <= env_modulus Eflp None N)%Z /\ (env_get_num_starts Emcp N <= env_modulus Emcp None N)%Z.
Proof. intro N. cbn. lia. Qed.
Lemma default_k_le_modulus_generic_depot : forall N, 1 <= N ->
  (env_get_num_starts Ecvrp N <= env_modulus Ecvrp (Some (N - 1)%nat) N)%Z.
Proof. intros N HN. cbn. lia. Qed.
Lemma default_k_le_modulus_tsp : forall N, (env_get_num_starts Etsp N <= env_modulus Etsp (Some N) N)%Z.
Proof. intro N. cbn. lia. Qed.

(* MTVRP (and every depot environment whose name is in none of get_num_starts' lists, e.g. "svrp"): the
   default k counts the depot, k = N > N - 1 candidates, so replica N - 1 repeats the start of replica 0.
   (No claim of the property is violated: fewer than k candidates exist.) *)
Lemma mtvrp_default_repeats_first_start : forall N B sel, 2 <= N -> B <> 0 ->
  env_get_num_starts Emtvrp N = Z.of_nat N ->
  starts_mod 1 (Z.of_nat (N - 1)) N B = Some sel ->
  nth ((N - 1) * B) sel 0 = nth 0 sel 0.
Proof.
  intros N B sel HN HB _ Hsel.
  destruct (starts_mod_layout 1 (N - 1) N B sel ltac:(lia) Hsel) as [_ H].
  rewrite (H ((N - 1) * B)) by nia. rewrite (H 0) by nia.
  rewrite Nat.div_mul, Nat.mod_same, Nat.div_0_l, Nat.mod_0_l by lia. reflexivity.
Qed.

(* ------------------------------------------------------------------------------------------------ *)
(** * The OP branch *)

Lemma filter_length_le' : forall (A : Type) (f : A -> bool) l, length (filter f l) <= length l.
Proof. induction l as [|a l IH]; [apply le_n|]. cbn [filter]. destruct (f a); cbn [length]; lia. Qed.

Lemma count_true_all : forall l, count_true l = length l -> forall i, i < length l -> nth i l false = true.
Proof.
  unfold count_true. induction l as [|a l IH]; intros H i Hi; [cbn in Hi; lia|].
  cbn [filter length] in *. pose proof (filter_length_le' _ (fun x => x) l) as Hle.
  destruct a; cbn [length] in H; [|lia]. destruct i as [|i]; [reflexivity|]. apply IH; lia.
Qed.

Lemma count_true_le : forall l, count_true l <= length l.
Proof. intro l. apply filter_length_le'. Qed.

Lemma existsb_false_In : forall (A : Type) (f : A -> bool) l, existsb f l = false -> forall a, In a l -> f a = false.
Proof.
  intros A f l H a Ha. destruct (f a) eqn:E; [|reflexivity].
  assert (existsb f l = true) by (apply existsb_exists; eauto). congruence.
Qed.

Theorem op_resample_layout : forall k masks draw sel,
  op_resample k masks draw = Some sel ->
  length sel = k * length masks /\
  forall r, r < k * length masks -> nth r sel 0 = draw (r mod length masks) (r / length masks) + 1.
Proof.
  intros k masks draw sel H. unfold op_resample in H.
  destruct (existsb _ masks); [discriminate|]. injection H as <-.
  split; [apply grid_length|]. intros r Hr. now rewrite grid_nth.
Qed.

(* in the resampling branch every forced start is feasible (contract of multinomial) *)
Theorem op_resample_feasible : forall k masks draw sel,
  draw_positive k (map (@tl bool) masks) draw ->
  op_resample k masks draw = Some sel ->
  forall r, r < k * length masks -> nth (nth r sel 0) (nth (r mod length masks) masks []) false = true.
Proof.
  intros k masks draw sel Hd H r Hr. destruct (op_resample_layout _ _ _ _ H) as [_ Hl]. rewrite (Hl r Hr).
  assert (HB : length masks <> 0) by (intro E; rewrite E in Hr; lia).
  set (b := r mod length masks). assert (Hb : b < length masks) by now apply Nat.mod_upper_bound.
  assert (Hj : r / length masks < k) by (apply Nat.div_lt_upper_bound; [exact HB|lia]).
  specialize (Hd b (tl (nth b masks [])) (r / length masks)).
  rewrite nth_error_map, (nth_error_nth' masks [] Hb) in Hd. specialize (Hd eq_refl Hj).
  destruct (nth b masks []) as [|a m]; [now destruct (draw b (r / length masks)) in Hd|].
  rewrite Nat.add_1_r. exact Hd.
Qed.

(* With the default k = get_num_starts = N - 1 = generator.num_loc, OP's rule is sound: either some row
   lacks a feasible node and all rows are resampled among feasible nodes, or every node of every row is
   feasible. *)
Theorem op_default_feasible : forall N masks draw sel,
  2 <= N -> Forall (fun m => length m = N) masks ->
  draw_positive (N - 1) (map (@tl bool) masks) draw ->
  ops_select_start_nodes Eop (Some (N - 1)) (N - 1) masks draw = Some sel ->
  forall r, r < (N - 1) * length masks -> nth (nth r sel 0) (nth (r mod length masks) masks []) false = true.
Proof.
  intros N masks draw sel HN Hw Hd H r Hr. cbn [ops_select_start_nodes gen_num_loc_value] in H.
  destruct (starts_mod 1 (Z.of_nat (N - 1)) (N - 1) (length masks)) as [sel0|] eqn:E0; [|discriminate].
  destruct (op_needs_resample (N - 1) masks) eqn:Er.
  - now apply (op_resample_feasible _ _ _ _ Hd H).
  - injection H as <-.
    apply (starts_mod_feasible 1 (N - 1) (N - 1) (length masks) sel0 ltac:(lia) E0 masks eq_refl); [|exact Hr].
    intros m c Hin Hc. unfold op_needs_resample in Er.
    pose proof (existsb_false_In _ _ _ Er m Hin) as Hm. cbn beta in Hm. apply Nat.ltb_ge in Hm.
    rewrite Forall_forall in Hw. specialize (Hw m Hin).
    destruct m as [|a m]; [cbn in Hw; lia|]. cbn [tl length] in *. rewrite Nat.add_1_r. cbn [nth].
    apply count_true_all; [pose proof (count_true_le m); lia|lia].
Qed.

(* ------------------------------------------------------------------------------------------------ *)
(** * sample_n_random_actions *)

Theorem sample_n_layout : forall n masks draw sel,
  sample_n_random_actions n masks draw = Some sel ->
  length sel = n * length masks /\
  forall r, r < n * length masks -> nth r sel 0 = draw (r mod length masks) (r / length masks).
Proof.
  intros n masks draw sel H. unfold sample_n_random_actions in H.
  destruct ((n =? 1) || existsb _ masks); [discriminate|]. injection H as <-.
  split; [apply grid_length|]. intros r Hr. now rewrite grid_nth.
Qed.

Theorem sample_n_feasible : forall n masks draw sel,
  draw_positive n masks draw -> sample_n_random_actions n masks draw = Some sel ->
  forall r, r < n * length masks -> nth (nth r sel 0) (nth (r mod length masks) masks []) false = true.
Proof.
  intros n masks draw sel Hd H r Hr. destruct (sample_n_layout _ _ _ _ H) as [_ Hl]. rewrite (Hl r Hr).
  assert (HB : length masks <> 0) by (intro E; rewrite E in Hr; lia).
  assert (Hb : r mod length masks < length masks) by now apply Nat.mod_upper_bound.
  apply (Hd (r mod length masks)); [now apply nth_error_nth'|].
  apply Nat.div_lt_upper_bound; [exact HB|lia].
Qed.

Theorem sample_n_distinct : forall n masks draw sel,
  sample_replace n masks = false -> draw_distinct n (length masks) draw ->
  sample_n_random_actions n masks draw = Some sel ->
  forall r1 r2, r1 < n * length masks -> r2 < n * length masks ->
    r1 mod length masks = r2 mod length masks -> r1 <> r2 -> nth r1 sel 0 <> nth r2 sel 0.
Proof.
  intros n masks draw sel _ Hd H r1 r2 H1 H2 Hm Hne. destruct (sample_n_layout _ _ _ _ H) as [_ Hl].
  rewrite (Hl r1 H1), (Hl r2 H2), <- Hm.
  assert (HB : length masks <> 0) by (intro E; rewrite E in H1; lia).
  apply Hd; try (apply Nat.div_lt_upper_bound; [exact HB|lia]); [now apply Nat.mod_upper_bound|].
  intro E. apply Hne. rewrite (Nat.div_mod r1 _ HB), (Nat.div_mod r2 _ HB). congruence.
Qed.

(* ------------------------------------------------------------------------------------------------ *)
(** * pre_decoder_hook: the rows handed to env.step *)

Theorem pre_decoder_hook_row : forall (T : Type) (k : nat) (select : nat -> option (list nat)) (td : list T) sel,
  k <> 0 -> select k = Some sel -> length sel = k * length td ->
  exists rows, pre_decoder_hook_rows true (Z.of_nat k) select td = Some rows /\ length rows = k * length td /\
    forall r, r < k * length td ->
      nth_error rows r = option_map (fun t => (t, Some (nth r sel 0))) (nth_error td (r mod length td)).
Proof.
  intros T k select td sel Hk Hs Hl. unfold pre_decoder_hook_rows.
  destruct (1 <=? Z.of_nat k)%Z eqn:E; [|lia]. rewrite Nat2Z.id, Hs.
  assert (Hbl : length (batchify [Z.of_nat k] td) = k * length td).
  { rewrite batchify_length. cbn [prodpos]. destruct (0 <? Z.of_nat k)%Z eqn:E'; [|lia]. rewrite Nat2Z.id. lia. }
  rewrite Hbl, Hl, Nat.eqb_refl. eexists. split; [reflexivity|]. split.
  - rewrite combine_length, map_length, Hbl, Hl. lia.
  - intros r Hr.
    assert (Hnb : nth_error (batchify [Z.of_nat k] td) r = nth_error td (r mod length td)).
    { apply nth_batchify. cbn [prodpos]. destruct (0 <? Z.of_nat k)%Z eqn:E'; [|lia]. rewrite Nat2Z.id. lia. }
    assert (HB : length td <> 0) by (intro E0; rewrite E0 in Hr; lia).
    destruct (nth_error td (r mod length td)) as [t|] eqn:Et;
      [|apply nth_error_None in Et; pose proof (Nat.mod_upper_bound r (length td) HB); lia].
    cbn [option_map].
    rewrite nth_error_nth' with (d := (t, Some 0)) by (rewrite combine_length, map_length, Hbl, Hl; lia).
    rewrite combine_nth by (now rewrite map_length, Hbl, Hl). f_equal. f_equal.
    + apply nth_error_nth with (d := t) in Hnb. exact Hnb.
    + now rewrite nth_map' with (d := 0) by lia.
Qed.

(* multisample (no forced action): plain replication *)
Theorem pre_decoder_hook_multisample : forall (T : Type) (ns : Z) select (td : list T),
  (1 <= ns)%Z ->
  pre_decoder_hook_rows false ns select td = Some (map (fun t => (t, None)) (batchify [ns] td)).
Proof. intros T ns select td H. unfold pre_decoder_hook_rows. destruct (1 <=? ns)%Z eqn:E; [reflexivity|lia]. Qed.

(* ------------------------------------------------------------------------------------------------ *)
(** * Refuted: inputs on which the rules (as written) break the property *)

Definition starts_of (sel : list nat) (B k b : nat) : list nat := map (fun j => nth (j * B + b) sel 0) (seq 0 k).

(* (1) OP, k < n: the instance has k = 2 feasible non-depot nodes (2 and 3) but node 1 -- out of reach at
   reset -- is forced, because resampling only happens when FEWER than k nodes are feasible *)
Theorem op_forced_start_infeasible_refuted :
  exists (num_loc k : nat) (masks : list (list bool)) (draw : nat -> nat -> nat) (sel : list nat) (r : nat),
    draw_positive k (map (@tl bool) masks) draw /\
    Forall (fun m => k <= count_true (tl m)) masks /\
    ops_select_start_nodes Eop (Some num_loc) k masks draw = Some sel /\
    r < k * length masks /\
    nth (nth r sel 0) (nth (r mod length masks) masks []) false = false.
Proof.
  exists 3, 2, [[true; false; true; true]], (fun _ _ => 1), [1; 2], 0.
  repeat split.
  - intros b w j Hb Hj. destruct b as [|b]; cbn in Hb; [injection Hb as <-; reflexivity|destruct b; discriminate].
  - repeat constructor.
  - cbn. lia.
Qed.

(* (2) OP, resampling is batch-global and with replacement: instance 0 has k = 2 feasible nodes, its
   batch-mate only one, so both rows are resampled with replacement and instance 0 may get node 1 twice *)
Theorem op_resample_duplicates_refuted :
  exists (num_loc k : nat) (masks : list (list bool)) (draw : nat -> nat -> nat) (sel : list nat),
    draw_positive k (map (@tl bool) masks) draw /\
    k <= count_true (tl (nth 0 masks [])) /\
    ops_select_start_nodes Eop (Some num_loc) k masks draw = Some sel /\
    starts_of sel (length masks) k 0 = [1; 1].
Proof.
  exists 2, 2, [[true; true; true]; [true; true; false]], (fun _ _ => 0), [1; 1; 1; 1].
  repeat split.
  - intros b w j Hb Hj. destruct b as [|[|b]]; cbn in Hb; try (injection Hb as <-; reflexivity).
    destruct b; discriminate.
  - cbn. lia.
Qed.

(* (3) generic rule, modulus taken from env.generator.num_loc instead of the instance: an env built for 2
   customers given a 4-customer instance, with the default k = get_num_starts(td) = 4 and all 4 customers
   feasible, starts only at nodes 1 and 2, each twice *)
Theorem generic_num_loc_mismatch_refuted :
  exists (gen_num_loc N k : nat) (masks : list (list bool)) (sel : list nat),
    Forall (fun m => length m = N) masks /\
    Z.of_nat k = env_get_num_starts Ecvrp N /\
    Forall (fun m => k <= count_true (tl m)) masks /\
    env_select_start_nodes Ecvrp (Some gen_num_loc) N k masks (fun _ _ => 0) = Some sel /\
    starts_of sel (length masks) k 0 = [1; 2; 1; 2].
Proof.
  exists 2, 5, 4, [[false; true; true; true; true]], [1; 2; 1; 2].
  repeat split; repeat constructor.
Qed.
Theorem tsp_num_loc_mismatch_refuted :
  exists (gen_num_loc N k : nat) (masks : list (list bool)) (sel : list nat),
    Forall (fun m => length m = N) masks /\ Z.of_nat k = env_get_num_starts Etsp N /\
    Forall (fun m => k <= count_true m) masks /\
    env_select_start_nodes Etsp (Some gen_num_loc) N k masks (fun _ _ => 0) = Some sel /\
    starts_of sel (length masks) k 0 = [0; 1; 0; 1].
Proof.
  exists 2, 4, 4, [[true; true; true; true]], [0; 1; 0; 1].
  repeat split; repeat constructor.
Qed.

(* (4) generic rule ignores the reset mask (SVRP: nodes whose skill the first technician lacks are masked
   at reset): k = 2 feasible nodes exist (2 and 3), node 1 is forced *)
Theorem generic_ignores_reset_mask_refuted :
  exists (gen_num_loc k : nat) (masks : list (list bool)) (sel : list nat) (r : nat),
    Forall (fun m => k <= count_true (tl m)) masks /\
    env_select_start_nodes Esvrp (Some gen_num_loc) 4 k masks (fun _ _ => 0) = Some sel /\
    r < k * length masks /\
    nth (nth r sel 0) (nth (r mod length masks) masks []) false = false.
Proof.
  exists 3, 2, [[false; false; true; true]], [1; 2], 0.
  repeat split; [repeat constructor|cbn; lia].
Qed.

(* ------------------------------------------------------------------------------------------------ *)
(** * Examples *)

Example ex_cvrp_starts : env_select_start_nodes Ecvrp (Some 3) 4 3 [[false; true; true; true]; [false; true; true; true]] (fun _ _ => 0)
  = Some [1; 1; 2; 2; 3; 3].
Proof. reflexivity. Qed.
Example ex_pdp_starts : env_select_start_nodes Epdp (Some 6) 7 3 [[true]; [true]] (fun _ _ => 0) = Some [1; 1; 2; 2; 3; 3].
Proof. reflexivity. Qed.
Example ex_mcp_no_num_loc : ops_select_start_nodes Emcp None 3 [[true]; [true]] (fun _ _ => 0) = Some [0; 0; 1; 1; 2; 2].
Proof. reflexivity. Qed.
Example ex_pdp_raises : env_select_start_nodes Epdp (Some 6) 2 3 [[true]] (fun _ _ => 0) = None.
Proof. reflexivity. Qed.
Example ex_op_resample :
  ops_select_start_nodes Eop (Some 3) 3 [[true; false; true; true]] (fun _ j => match j with 0 => 1 | _ => 2 end)
  = Some [2; 3; 3].
Proof. reflexivity. Qed.
Example ex_hook : pre_decoder_hook_rows true 2 (fun k => starts_mod 0 3 k 2) [10; 20]
  = Some [(10, Some 0); (20, Some 0); (10, Some 1); (20, Some 1)].
Proof. reflexivity. Qed.
Example ex_init_pomo : strategy_init true false None None = Some (true, false, None).
Proof. reflexivity. Qed.
Example ex_init_one_start : strategy_init true false (Some 1%Z) None = Some (false, false, None).
Proof. reflexivity. Qed.
