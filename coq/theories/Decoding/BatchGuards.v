(* C10 -- the guards of rl4co.utils.decoding / rl4co.utils.ops that look at a WHOLE BATCH at once
   (additions to Decoding/ProcessLogits.v, which models one batch row; nothing there is changed).

     DecodingStrategy.greedy(logprobs, mask):
         selected = logprobs.argmax(dim=-1)
         if mask is not None:
             assert not (~mask).gather(1, selected.unsqueeze(-1)).data.any(), "infeasible action selected"
     DecodingStrategy.sampling(logprobs, mask):
         selected = probs.multinomial(1).squeeze(1)
         if mask is not None:
             while (~mask).gather(1, selected.unsqueeze(-1)).data.any():
                 selected = probs.multinomial(1).squeeze(1)            # EVERY row is drawn again
             assert not (~mask).gather(1, selected.unsqueeze(-1)).data.any(), "infeasible action selected"
     BeamSearch._step:    selected, batch_beam_idx = self._make_beam_step(logprobs)
                          assert not (~mask).gather(1, selected.unsqueeze(-1)).data.any(), "infeasible action selected"
     ops.calculate_entropy:  assert entropy.isfinite().all(), "Entropy is not finite"

   Every one of them is the per-row verdict ("the action selected for this row is allowed by this row's mask" / "this
   row's entropy is finite") lifted to the batch by a conjunction: the call raises (resp. draws again) as soon as ONE
   row fails, whatever the other rows do.  The per-row verdicts are those of ProcessLogits.v (greedy = first arg-max;
   multinomial = an oracle with the contract "positive weight"). *)
From Coq Require Import List Bool Arith Lia.
From RL4CO Require Import Base.OField Base.OFieldExtra Decoding.PLTensor Decoding.ProcessLogits.
Import ListNotations.

(* ------------------------------------------------------------------ the lifted guard *)
(* not (~mask).gather(1, selected).any()  :  row by row, the selected action is allowed *)
Definition sel_ok (msk : list bool) (a : nat) : bool := nth a msk false.
Definition guard_batch (masks : list (list bool)) (sel : list nat) : bool :=
  forallb (fun ma => sel_ok (fst ma) (snd ma)) (combine masks sel).

Theorem guard_batch_iff masks sel : length sel = length masks ->
  (guard_batch masks sel = true <-> forall r, r < length masks -> sel_ok (nth r masks []) (nth r sel 0) = true).
Proof.
  intros Hl. unfold guard_batch. rewrite forallb_forall. split.
  - intros H r Hr. specialize (H (nth r masks [], nth r sel 0)). apply H.
    rewrite <- combine_nth by (symmetry; exact Hl). apply nth_In. rewrite combine_length. lia.
  - intros H [m a] Hin. apply (In_nth _ _ ([], 0)) in Hin as (r & Hr & Er). rewrite combine_length in Hr.
    rewrite combine_nth in Er by (symmetry; exact Hl). inversion Er; subst. cbn [fst snd]. apply H. lia.
Qed.

(* one bad row is enough, whatever the others do *)
Theorem guard_batch_one_bad_row masks sel r : length sel = length masks ->
  r < length masks -> sel_ok (nth r masks []) (nth r sel 0) = false -> guard_batch masks sel = false.
Proof.
  intros Hl Hr Hbad. destruct (guard_batch masks sel) eqn:G; [|reflexivity].
  apply (proj1 (guard_batch_iff masks sel Hl)) with (r := r) in G; [congruence | exact Hr].
Qed.

(* BeamSearch._step: the selection comes from _make_beam_step; None = the assertion fails *)
Definition beam_step_guard (masks : list (list bool)) (sel : list nat) : option (list nat) :=
  if guard_batch masks sel then Some sel else None.

(* DecodingStrategy.sampling with a mask: `rounds` are the successive results of probs.multinomial(1) for the whole
   batch; the first round that passes the guard is returned (None: none of the listed rounds passes) *)
Fixpoint sampling_batch (masks : list (list bool)) (rounds : list (list nat)) : option (list nat) :=
  match rounds with
  | [] => None
  | sel :: r => if guard_batch masks sel then Some sel else sampling_batch masks r
  end.

Theorem sampling_batch_first_feasible masks rounds sel :
  sampling_batch masks rounds = Some sel ->
  guard_batch masks sel = true /\
  exists j, nth_error rounds j = Some sel /\ forall i s, i < j -> nth_error rounds i = Some s -> guard_batch masks s = false.
Proof.
  induction rounds as [|s0 r IH]; cbn [sampling_batch]; [discriminate|].
  destruct (guard_batch masks s0) eqn:G.
  - intros H. inversion H; subst. split; [exact G|]. exists 0. split; [reflexivity|]. intros i s Hi. lia.
  - intros H. destruct (IH H) as (Hg & j & Hj & Hlt). split; [exact Hg|]. exists (S j). split; [exact Hj|].
    intros [|i] s Hi Hs; cbn [nth_error] in Hs; [inversion Hs; subst; exact G | apply (Hlt i s); [lia | exact Hs]].
Qed.

Theorem sampling_batch_terminates masks rounds :
  (exists s, In s rounds /\ guard_batch masks s = true) -> exists sel, sampling_batch masks rounds = Some sel.
Proof.
  induction rounds as [|s0 r IH]; intros (s & Hin & Hs); [destruct Hin|]. cbn [sampling_batch].
  destruct (guard_batch masks s0) eqn:G; [eexists; reflexivity|].
  destruct Hin as [->|Hin]; [congruence|]. apply IH. exists s. split; assumption.
Qed.

(* ------------------------------------------------------------------ calculate_entropy's guard *)
(* class of one entry of the log-probability tensor after nan_to_num(nan=0.0):
     0 finite,  1 -inf (-> most negative float: exp = 0, term 0),  2 +inf (-> largest float: exp = inf, term -inf),
     3 nan (-> 0: term 0)
   a row (all its steps and actions) has a finite entropy iff it holds no +inf entry *)
Definition ent_row_finite (r : list nat) : bool := forallb (fun c => negb (c =? 2)) r.
Definition entropy_guard (rows : list (list nat)) : bool := forallb ent_row_finite rows.     (* isfinite().all() *)

Theorem entropy_guard_iff rows : entropy_guard rows = true <-> forall r, In r rows -> ent_row_finite r = true.
Proof. unfold entropy_guard. apply forallb_forall. Qed.

Theorem entropy_guard_one_bad_row rows r : In r rows -> ent_row_finite r = false -> entropy_guard rows = false.
Proof.
  intros Hin Hbad. destruct (entropy_guard rows) eqn:G; [|reflexivity].
  rewrite entropy_guard_iff in G. rewrite (G r Hin) in Hbad. discriminate.
Qed.

Section Greedy.
  Variable K : ofield.
  Open Scope of_scope.

  (* DecodingStrategy.greedy on a batch of (probabilities, mask) rows; None = "infeasible action selected" *)
  Definition greedy_batch (rows : list (list K * list bool)) : option (list nat) :=
    let sel := map (fun r => greedy K (fst r)) rows in
    if guard_batch (map snd rows) sel then Some sel else None.

  Theorem greedy_batch_some_iff rows sel :
    greedy_batch rows = Some sel <->
    sel = map (fun r => greedy K (fst r)) rows /\ forall r, In r rows -> sel_ok (snd r) (greedy K (fst r)) = true.
  Proof.
    unfold greedy_batch, guard_batch.
    assert (E : combine (map snd rows) (map (fun r : list K * list bool => greedy K (fst r)) rows)
                = map (fun r => (snd r, greedy K (fst r))) rows).
    { induction rows as [|x rows IH]; cbn [map combine]; [reflexivity|]. rewrite IH. reflexivity. }
    rewrite E. split.
    - destruct (forallb _ _) eqn:G; [|discriminate]. intros H. inversion H. split; [reflexivity|].
      intros r Hr. rewrite forallb_forall in G. apply (G (snd r, greedy K (fst r))). apply in_map_iff. exists r. auto.
    - intros [-> H]. replace (forallb _ _) with true; [reflexivity|]. symmetry. apply forallb_forall.
      intros x Hx. apply in_map_iff in Hx as (r & <- & Hr). cbn [fst snd]. apply H. exact Hr.
  Qed.

  Theorem greedy_batch_none_iff rows :
    greedy_batch rows = None <-> exists r, In r rows /\ sel_ok (snd r) (greedy K (fst r)) = false.
  Proof.
    split.
    - intros HN. destruct (existsb (fun r => negb (sel_ok (snd r) (greedy K (fst r)))) rows) eqn:Ex.
      + apply existsb_exists in Ex as (r & Hr & Hb). exists r. split; [exact Hr|]. apply negb_true_iff. exact Hb.
      + exfalso. assert (HS : greedy_batch rows = Some (map (fun r => greedy K (fst r)) rows)).
        { apply greedy_batch_some_iff. split; [reflexivity|]. intros r Hr.
          destruct (sel_ok (snd r) (greedy K (fst r))) eqn:S; [reflexivity|]. exfalso.
          assert (X : existsb (fun r => negb (sel_ok (snd r) (greedy K (fst r)))) rows = true).
          { apply existsb_exists. exists r. split; [exact Hr|]. rewrite S. reflexivity. }
          congruence. }
        congruence.
    - intros (r & Hr & Hb). destruct (greedy_batch rows) as [sel|] eqn:G; [|reflexivity]. exfalso.
      apply greedy_batch_some_iff in G as [_ G]. rewrite (G r Hr) in Hb. discriminate.
  Qed.

  (* with the distributions that process_logits produces FROM THE SAME MASKS the guard never fires: C10's confinement,
     lifted to the batch *)
  Section PL.
    Variable L : Type.
    Variable lleb : L -> L -> bool.
    Variable e : L -> K.
    Hypothesis e_pos : forall x, flt f0 (e x).
    Hypothesis e_mono : forall x y, lleb x y = (e x <=? e y).

    Theorem greedy_batch_of_process_logits clip tmp p k (ins : list (list bool * list L)) :
      (forall ml, In ml ins -> pl_wf L (fst ml) (snd ml)) ->
      let rows := map (fun ml => (process_logits K L lleb e clip tmp (fst ml) p k (snd ml), fst ml)) ins in
      greedy_batch rows = Some (map (fun r => greedy K (fst r)) rows).
    Proof.
      intros Hwf rows. apply greedy_batch_some_iff. split; [reflexivity|].
      intros r Hr. apply in_map_iff in Hr as (ml & <- & Hml). cbn [fst snd]. unfold sel_ok.
      destruct (greedy_feasible K L lleb e e_pos e_mono clip tmp (fst ml) p k (snd ml) (Hwf ml Hml)) as (_ & Hm & _).
      exact Hm.
    Qed.
  End PL.
End Greedy.

Arguments greedy_batch {K}.

(* the two inputs of the audit: one bad row next to a good one *)
Example guard_batch_witness :
  guard_batch [[true; false]; [true; true]] [1; 0] = false /\ guard_batch [[true; false]; [true; true]] [0; 0] = true /\
  sampling_batch [[true; false]; [true; true]] [[1; 0]; [1; 1]; [0; 0]] = Some [0; 0] /\
  entropy_guard [[0; 0]; [2; 0]] = false /\ entropy_guard [[0; 0]; [1; 3]] = true.
Proof. vm_compute. repeat split. Qed.
