(* C10 / C11 -- the VALUE of rl4co.utils.ops.calculate_entropy:

     logprobs = torch.nan_to_num(logprobs, nan=0.0)
     entropy = -(logprobs.exp() * logprobs).sum(dim=-1)       # [batch, decoder steps]
     entropy = entropy.sum(dim=1)                             # [batch]
     assert entropy.isfinite().all(), "Entropy is not finite"

   As everywhere in Decoding/*.v the model stores PROBABILITIES p = exp(logprob) in an ordered field K (log-prob -inf is
   the probability f0: nan_to_num turns -inf into the most negative float, whose exp is 0, and 0 * finite = 0, so
   "0 log 0 = 0" AS CODED).  The logarithm is abstract:  lg : K -> K  with
       lg 1 = 0,   lg (x y) = lg x + lg y  (x, y > 0),   0 < x < y -> lg x < lg y
   (instances: (R, ln), see Decoding/EntropyInst.v; any other base changes the value by a positive factor only).

     nplp p      = 0 if p = 0, else - p * lg p          one term of the sum
     entropy v   = sum_i nplp v_i                       entropy of ONE step (one row of [batch, steps, actions])
     entropy_steps vs = sum_t entropy vs_t              entropy of an episode = sum over its decoding steps

   Theorems (for every K and lg as above, every length):
     entropy_nonneg      a probability vector has entropy >= 0
     entropy_zero_iff    ... = 0 iff the vector is a point mass
     entropy_uniform     the uniform distribution over the k feasible actions of a mask has entropy lg k
     pl_entropy_*        the same three for the output of process_logits (C10's model)
   The batch-level guard (isfinite().all()) is modelled in Decoding/BatchGuards.v. *)
From Coq Require Import Ring Field Ring_theory Field_theory List Bool Arith Lia.
From RL4CO Require Import Base.OField Base.OFieldExtra Decoding.PLTensor Decoding.ProcessLogits.
Import ListNotations.

Section Entropy.
  Variable K : ofield.
  Open Scope of_scope.
  Add Field Kf_ent : (Fth K).

  Variable lg : K -> K.

  Definition nplp (p : K) : K := if feqb p f0 then f0 else - (p * lg p).
  Definition entropy (v : list K) : K := fsum (map nplp v).
  Definition entropy_steps (vs : list (list K)) : K := fsum (map entropy vs).

  (* a probability vector / a point mass / the uniform distribution over the true entries of a mask *)
  Definition dist (v : list K) : Prop := (forall x, In x v -> fle f0 x) /\ fsum v = f1.
  Definition point_mass (v : list K) : Prop :=
    exists i, (i < length v)%nat /\ nth i v f0 = f1 /\ forall j, j <> i -> nth j v f0 = f0.
  Definition ntrue (m : list bool) : nat := length (filter (fun b : bool => b) m).
  Definition uniform_on (m : list bool) : list K := map (fun b : bool => if b then f1 / of_nat (ntrue m) else f0) m.

  (* ------------------------------------------------------------------ facts that need no logarithm *)
  Lemma nplp_0 : nplp f0 = f0.
  Proof. unfold nplp. replace (feqb f0 f0) with true; [reflexivity|]. symmetry. apply feqb_eq. reflexivity. Qed.

  Lemma feqb_false_pos (x : K) : fle f0 x -> feqb x f0 = false -> flt f0 x.
  Proof.
    intros Hx E. apply flt_iff. split; [exact Hx|]. intros C. subst x.
    assert (T : feqb (f0 : K) f0 = true) by (apply feqb_eq; reflexivity). congruence.
  Qed.

  Lemma fsum_all_zero_in {A} (f : A -> K) l : (forall x, In x l -> f x = f0) -> fsum (map f l) = f0.
  Proof.
    induction l as [|x l IH]; intros H; cbn [map fsum]; [reflexivity|].
    rewrite H by (left; reflexivity). rewrite IH by (intros y Hy; apply H; right; exact Hy). ring.
  Qed.

  (* non-negative numbers that add up to zero are all zero *)
  Lemma fsum_nonneg_zero (l : list K) : (forall x, In x l -> fle f0 x) -> fsum l = f0 -> forall x, In x l -> x = f0.
  Proof.
    induction l as [|y l IH]; intros Hnn Hs x Hx; [destruct Hx|].
    cbn [fsum] in Hs.
    assert (Hy : fle f0 y) by (apply Hnn; left; reflexivity).
    assert (Hr : fle f0 (fsum l)).
    { apply (fsum_nonneg K). apply Forall_forall. intros z Hz. apply Hnn. right. exact Hz. }
    assert (Ey : y = f0).
    { apply fle_antisym; [|exact Hy]. rewrite <- Hs. apply (fle_add_nonneg_r K). exact Hr. }
    destruct Hx as [->|Hx]; [exact Ey|].
    apply IH; [intros z Hz; apply Hnn; right; exact Hz | | exact Hx].
    rewrite Ey in Hs. rewrite <- Hs. ring.
  Qed.

  Lemma dist_le_1 (v : list K) (x : K) : dist v -> In x v -> fle x f1.
  Proof.
    intros [Hnn Hs] Hx. rewrite <- Hs. rewrite <- (map_id_fsum K v).
    apply (fsum_ge_member K (fun y : K => y)); assumption.
  Qed.

  Lemma nth_all_zero (l : list K) : (forall x, In x l -> x = f0) -> forall j, nth j l f0 = f0.
  Proof.
    intros H j. destruct (Nat.lt_ge_cases j (length l)) as [Hj|Hj].
    - apply H. apply nth_In. exact Hj.
    - apply nth_overflow. exact Hj.
  Qed.

  (* entries in {0, 1} that add up to one: exactly one of them is 1 *)
  Lemma zero_one_point_mass (v : list K) :
    (forall x, In x v -> x = f0 \/ x = f1) -> fsum v = f1 -> point_mass v.
  Proof.
    induction v as [|x v IH]; intros H01 Hs.
    - cbn [fsum] in Hs. exfalso. apply (one_neq_zero K). symmetry. exact Hs.
    - cbn [fsum] in Hs. destruct (H01 x (or_introl eq_refl)) as [->| ->].
      + destruct IH as (i & Hi & H1 & Hz).
        * intros y Hy. apply H01. right. exact Hy.
        * rewrite <- Hs. ring.
        * exists (S i). cbn [length nth]. split; [lia|]. split; [exact H1|].
          intros [|j] Hj; [reflexivity|]. apply Hz. lia.
      + assert (Hr : fsum v = f0) by (replace (fsum v) with (f1 + fsum v - f1) by ring; rewrite Hs; ring).
        assert (Hall : forall y, In y v -> y = f0).
        { apply fsum_nonneg_zero; [|exact Hr]. intros y Hy.
          destruct (H01 y (or_intror Hy)) as [->| ->]; [apply fle_refl | apply (fle_0_1 K)]. }
        exists 0%nat. cbn [length nth]. split; [lia|]. split; [reflexivity|].
        intros [|j] Hj; [lia|]. apply nth_all_zero. exact Hall.
  Qed.

  Lemma point_mass_zero_one (v : list K) (x : K) : point_mass v -> In x v -> x = f0 \/ x = f1.
  Proof.
    intros (i & Hi & H1 & Hz) Hx. apply (In_nth _ _ f0) in Hx as (j & Hj & <-).
    destruct (Nat.eq_dec j i) as [->|Hne]; [right; exact H1 | left; apply Hz; exact Hne].
  Qed.

  Lemma ntrue_cons b m : ntrue (b :: m) = ((if b then 1 else 0) + ntrue m)%nat.
  Proof. unfold ntrue. cbn [filter]. destruct b; reflexivity. Qed.

  (* ------------------------------------------------------------------ the logarithm *)
  Section Log.
    Hypothesis lg_1 : lg f1 = f0.
    Hypothesis lg_mul : forall x y : K, flt f0 x -> flt f0 y -> lg (x * y) = lg x + lg y.
    Hypothesis lg_incr : forall x y : K, flt f0 x -> flt x y -> flt (lg x) (lg y).

    Lemma nplp_1 : nplp f1 = f0.
    Proof. unfold nplp. destruct (feqb f1 f0); [reflexivity|]. rewrite lg_1. ring. Qed.

    (* 0 < p < 1: the term is strictly positive *)
    Lemma nplp_pos (p : K) : flt f0 p -> flt p f1 -> flt f0 (nplp p).
    Proof.
      intros Hp Hp1. unfold nplp.
      replace (feqb p f0) with false.
      2:{ symmetry. destruct (feqb p f0) eqn:E; [|reflexivity]. apply feqb_eq in E. subst p. exfalso. exact (flt_irrefl K _ Hp). }
      pose proof (lg_incr p f1 Hp Hp1) as Hl. rewrite lg_1 in Hl.
      assert (Hn : flt f0 (- lg p)).
      { apply flt_iff. split.
        - apply (fle_opp' K). apply (flt_le K). exact Hl.
        - intros C. apply (flt_neq K _ _ Hl). replace (lg p) with (- - lg p) by ring. rewrite <- C. ring. }
      replace (- (p * lg p)) with (p * - lg p) by ring. apply (fmul_pos K); assumption.
    Qed.

    Lemma nplp_nonneg (p : K) : fle f0 p -> fle p f1 -> fle f0 (nplp p).
    Proof.
      intros H0 H1. destruct (feqb p f0) eqn:E0.
      - apply feqb_eq in E0. subst p. rewrite nplp_0. apply fle_refl.
      - destruct (feqb p f1) eqn:E1.
        + apply feqb_eq in E1. subst p. rewrite nplp_1. apply fle_refl.
        + apply (flt_le K). apply nplp_pos; [apply feqb_false_pos; assumption|].
          apply flt_iff. split; [exact H1|]. intros C. subst p.
          assert (T : feqb (f1 : K) f1 = true) by (apply feqb_eq; reflexivity). congruence.
    Qed.

    Lemma nplp_zero_iff (p : K) : fle f0 p -> fle p f1 -> (nplp p = f0 <-> p = f0 \/ p = f1).
    Proof.
      intros H0 H1. split.
      - intros Hz. destruct (feqb p f0) eqn:E0; [left; apply feqb_eq; exact E0|].
        destruct (feqb p f1) eqn:E1; [right; apply feqb_eq; exact E1|]. exfalso.
        assert (Hp : flt f0 (nplp p)).
        { apply nplp_pos; [apply feqb_false_pos; assumption|]. apply flt_iff. split; [exact H1|]. intros C. subst p.
          assert (T : feqb (f1 : K) f1 = true) by (apply feqb_eq; reflexivity). congruence. }
        rewrite Hz in Hp. exact (flt_irrefl K _ Hp).
      - intros [->| ->]; [apply nplp_0 | apply nplp_1].
    Qed.

    (* ================================================================ THEOREM: H >= 0 *)
    Theorem entropy_nonneg (v : list K) : dist v -> fle f0 (entropy v).
    Proof.
      intros Hd. unfold entropy. apply (fsum_map_nonneg K). intros x Hx.
      apply nplp_nonneg; [apply (proj1 Hd); exact Hx | apply (dist_le_1 v); assumption].
    Qed.

    (* ================================================================ THEOREM: H = 0 iff point mass *)
    Theorem entropy_zero_iff (v : list K) : dist v -> (entropy v = f0 <-> point_mass v).
    Proof.
      intros Hd. split.
      - intros Hz. apply zero_one_point_mass; [|exact (proj2 Hd)].
        intros x Hx. apply nplp_zero_iff; [apply (proj1 Hd); exact Hx | apply (dist_le_1 v); assumption|].
        apply (fsum_nonneg_zero (map nplp v)); [| exact Hz | apply in_map; exact Hx].
        intros y Hy. apply in_map_iff in Hy as (z & <- & Hzv).
        apply nplp_nonneg; [apply (proj1 Hd); exact Hzv | apply (dist_le_1 v); assumption].
      - intros Hpm. unfold entropy. apply fsum_all_zero_in. intros x Hx.
        destruct (point_mass_zero_one v x Hpm Hx) as [->| ->]; [apply nplp_0 | apply nplp_1].
    Qed.

    (* ================================================================ THEOREM: uniform over k feasible actions: lg k *)
    Lemma entropy_two_valued (c : K) (m : list bool) :
      entropy (map (fun b : bool => if b then c else f0) m) = of_nat (ntrue m) * nplp c.
    Proof.
      unfold entropy. induction m as [|b m IH]; cbn [map fsum]; [unfold ntrue; cbn; ring|].
      rewrite IH, ntrue_cons. destruct b.
      - rewrite (of_nat_add K). cbn [of_nat]. ring.
      - rewrite nplp_0. cbn [plus]. ring.
    Qed.

    Theorem entropy_uniform (m : list bool) : (1 <= ntrue m)%nat -> entropy (uniform_on m) = lg (of_nat (ntrue m)).
    Proof.
      intros Hk. unfold uniform_on. rewrite entropy_two_valued.
      destruct (ntrue m) as [|k] eqn:Ek; [lia|].
      set (n := of_nat (S k) : K).
      assert (Hn : flt f0 n) by apply (of_nat_pos K).
      assert (Hn0 : n <> f0) by apply (of_nat_S_neq0 K).
      assert (Hc : flt f0 (f1 / n)) by (apply (finv_pos K); exact Hn).
      assert (Hlg : lg (f1 / n) = - lg n).
      { assert (E : lg (f1 / n) + lg n = f0).
        { rewrite <- lg_mul by assumption. replace (f1 / n * n) with (f1 : K) by (field; exact Hn0). exact lg_1. }
        replace (lg (f1 / n)) with (lg (f1 / n) + lg n - lg n) by ring. rewrite E. ring. }
      unfold nplp. replace (feqb (f1 / n) f0) with false.
      2:{ symmetry. destruct (feqb (f1 / n) f0) eqn:E; [|reflexivity]. apply feqb_eq in E. rewrite E in Hc.
          exfalso. exact (flt_irrefl K _ Hc). }
      rewrite Hlg. field. exact Hn0.
    Qed.

    (* the uniform vector is a probability vector (so the three theorems talk about the same objects) *)
    Lemma uniform_on_dist (m : list bool) : (1 <= ntrue m)%nat -> dist (uniform_on m).
    Proof.
      intros Hk. unfold uniform_on. destruct (ntrue m) as [|k] eqn:Ek; [lia|].
      set (n := of_nat (S k) : K).
      assert (Hn : flt f0 n) by apply (of_nat_pos K).
      assert (Hn0 : n <> f0) by apply (of_nat_S_neq0 K).
      split.
      - intros x Hx. apply in_map_iff in Hx as (b & <- & _). destruct b; [|apply fle_refl].
        apply (flt_le K). apply (finv_pos K). exact Hn.
      - assert (G : forall l : list bool, fsum (map (fun b : bool => if b then f1 / n else f0) l) = of_nat (ntrue l) * (f1 / n)).
        { induction l as [|b l IH]; cbn [map fsum]; [unfold ntrue; cbn; ring|].
          rewrite IH, ntrue_cons. destruct b; [rewrite (of_nat_add K); cbn [of_nat]; ring | cbn [plus]; ring]. }
        rewrite G, Ek. fold n. field. exact Hn0.
    Qed.

    (* ================================================================ the episode: sum over steps, >= 0 *)
    Theorem entropy_steps_nonneg (vs : list (list K)) : (forall v, In v vs -> dist v) -> fle f0 (entropy_steps vs).
    Proof. intros H. unfold entropy_steps. apply (fsum_map_nonneg K). intros v Hv. apply entropy_nonneg. apply H. exact Hv. Qed.

    Theorem entropy_steps_zero_iff (vs : list (list K)) : (forall v, In v vs -> dist v) ->
      (entropy_steps vs = f0 <-> forall v, In v vs -> point_mass v).
    Proof.
      intros H. split.
      - intros Hz v Hv. apply entropy_zero_iff; [apply H; exact Hv|].
        apply (fsum_nonneg_zero (map entropy vs)); [| exact Hz | apply in_map; exact Hv].
        intros y Hy. apply in_map_iff in Hy as (u & <- & Hu). apply entropy_nonneg. apply H. exact Hu.
      - intros Hpm. unfold entropy_steps. apply fsum_all_zero_in. intros v Hv. apply entropy_zero_iff; [apply H | apply Hpm]; exact Hv.
    Qed.

    (* ================================================================ process_logits (C10's model of one step) *)
    Section PL.
      Variable L : Type.
      Variable lleb : L -> L -> bool.
      Variable e : L -> K.
      Hypothesis e_pos : forall x, flt f0 (e x).
      Hypothesis e_mono : forall x y, lleb x y = (e x <=? e y).

      Lemma pl_dist clip tmp mask p k logits : pl_wf L mask logits ->
        dist (process_logits K L lleb e clip tmp mask p k logits).
      Proof.
        intros Hwf. split.
        - intros x Hx. apply (In_nth _ _ f0) in Hx as (i & _ & <-). apply pl_nonneg; assumption.
        - apply pl_normalised; assumption.
      Qed.

      Theorem pl_entropy_nonneg clip tmp mask p k logits : pl_wf L mask logits ->
        fle f0 (entropy (process_logits K L lleb e clip tmp mask p k logits)).
      Proof. intros Hwf. apply entropy_nonneg. apply pl_dist. exact Hwf. Qed.

      Theorem pl_entropy_zero_iff clip tmp mask p k logits : pl_wf L mask logits ->
        (entropy (process_logits K L lleb e clip tmp mask p k logits) = f0 <->
         point_mass (process_logits K L lleb e clip tmp mask p k logits)).
      Proof. intros Hwf. apply entropy_zero_iff. apply pl_dist. exact Hwf. Qed.

      (* all feasible logits equal after clipping and temperature, filters off: the uniform distribution over the feasible
         actions -- so its entropy is lg (number of feasible actions) *)
      Lemma pre_const clip tmp (y : L) mask logits :
        (forall x, In x logits -> tmp (clip x) = y) -> length mask = length logits ->
        pre_logits L clip tmp mask logits = map (fun b : bool => if b then Some y else None) mask.
      Proof.
        unfold pre_logits, scale, mask_fill. revert logits.
        induction mask as [|b mask IH]; intros [|x logits] Hy Hl; cbn [length] in Hl; try discriminate; [reflexivity|].
        cbn [map map2]. rewrite IH by (try (intros z Hz; apply Hy; right; exact Hz); lia).
        destruct b; cbn [option_map]; [rewrite (Hy x (or_introl eq_refl))|]; reflexivity.
      Qed.

      Lemma mass_const (y : L) mask :
        fsum (map (w K L e) (map (fun b : bool => if b then Some y else None) mask)) = of_nat (ntrue mask) * e y.
      Proof.
        induction mask as [|b mask IH]; cbn [map fsum]; [unfold ntrue; cbn; ring|].
        rewrite IH, ntrue_cons. destruct b; cbn [w].
        - rewrite (of_nat_add K). cbn [of_nat]. ring.
        - cbn [plus]. ring.
      Qed.

      Theorem pl_uniform clip tmp (y : L) mask logits :
        (forall x, In x logits -> tmp (clip x) = y) -> length mask = length logits -> (1 <= ntrue mask)%nat ->
        process_logits K L lleb e clip tmp mask f0 0 logits = uniform_on mask.
      Proof.
        intros Hy Hl Hk. unfold process_logits. rewrite filtered_off, (pre_const clip tmp y mask logits Hy Hl).
        unfold softmax, uniform_on. rewrite mass_const, map_map.
        destruct (ntrue mask) as [|k] eqn:Ek; [lia|].
        assert (Hn0 : of_nat (S k) <> (f0 : K)) by apply (of_nat_S_neq0 K).
        assert (He : e y <> f0) by (intros C; pose proof (e_pos y) as P; rewrite C in P; exact (flt_irrefl K _ P)).
        apply map_ext. intros [|]; cbn [w]; field; auto.
      Qed.

      Theorem pl_uniform_entropy clip tmp (y : L) mask logits :
        (forall x, In x logits -> tmp (clip x) = y) -> length mask = length logits -> (1 <= ntrue mask)%nat ->
        entropy (process_logits K L lleb e clip tmp mask f0 0 logits) = lg (of_nat (ntrue mask)).
      Proof. intros Hy Hl Hk. rewrite (pl_uniform clip tmp y mask logits Hy Hl Hk). apply entropy_uniform. exact Hk. Qed.
    End PL.
  End Log.
End Entropy.

Arguments nplp {K}. Arguments entropy {K}. Arguments entropy_steps {K}. Arguments dist {K}. Arguments point_mass {K}.
Arguments uniform_on {K}.
