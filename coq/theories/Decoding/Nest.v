(* C12 part 2: unbatchify for any nesting of factors, its inverse, gather_by_index.

   After unbatchify(x, (f1, ..., fm)) the tensor / TensorDict has leading dimensions [B, f1, ..., fm].
   Such a value is modelled as a tree of nested lists ([nest X]): [Leaf r] is an (opaque) row r : X,
   [Node l] one more leading axis.  The loop of ops.unbatchify

       for s in reversed(shape): x = _unbatchify_single(x, s) if s > 0 else x

   is modelled literally ([unbatchify]: fold over the reversed shape, python ints as Z, factors <= 0
   skipped, [None] = the real code raises).  *)
From Coq Require Import ZArith List Bool Lia ZifyBool Arith.
From RL4CO Require Import Decoding.Batchify.
Import ListNotations.

Set Implicit Arguments.

Inductive nest (X : Type) : Type :=
| Leaf (x : X)
| Node (l : list (nest X)).
Arguments Leaf {X} x.
Arguments Node {X} l.

Section MapM.
Context {A B C : Type}.
Variable f : A -> option B.
Fixpoint mapM (l : list A) : option (list B) :=
  match l with
  | [] => Some []
  | a :: l' => match f a, mapM l' with Some b, Some r => Some (b :: r) | _, _ => None end
  end.
Variable g : C -> A -> option B.
Fixpoint zipM (cs : list C) (l : list A) : option (list B) :=
  match cs, l with
  | [], [] => Some []
  | c :: cs', a :: l' => match g c a, zipM cs' l' with Some b, Some r => Some (b :: r) | _, _ => None end
  | _, _ => None
  end.
End MapM.

Section Nest.
Context {X : Type}.
Notation nestX := (nest X).

(* ------------------------------------------------------------------------------------------------ *)
(** * Model *)

Definition rows_of (x : list X) : nestX := Node (map Leaf x).

Definition children (t : nestX) : list nestX := match t with Node l => l | Leaf _ => [] end.

(* _unbatchify_single on a value whose leading axis is the list [rows] *)
Definition unbatchify_single_nest (repeats : nat) (t : nestX) : option nestX :=
  match t with
  | Leaf _ => None                                    (* 0-dim value: x.shape[0] raises *)
  | Node rows => option_map (fun y => Node (map Node y)) (unbatchify_single repeats rows)
  end.

Definition unbatchify_step (acc : option nestX) (s : Z) : option nestX :=
  match acc with
  | None => None
  | Some t => if (0 <? s)%Z then unbatchify_single_nest (Z.to_nat s) t else Some t
  end.

(* an int argument k is the one-element shape [k] *)
Definition unbatchify (shape : list Z) (t : nestX) : option nestX :=
  fold_left unbatchify_step (rev shape) (Some t).

(* row-major leaves and leading dimensions (what the harness compares) *)
Fixpoint flat (t : nestX) : list X :=
  match t with Leaf x => [x] | Node l => flat_map flat l end.
Fixpoint dims_of (t : nestX) : list nat :=
  match t with
  | Leaf _ => []
  | Node l => length l :: match l with [] => [] | c :: _ => dims_of c end
  end.

(* path lookup  t[i0][i1]...  *)
Fixpoint get (p : list nat) (t : nestX) : option nestX :=
  match p with
  | [] => Some t
  | i :: p' => match t with
               | Node l => match nth_error l i with Some c => get p' c | None => None end
               | Leaf _ => None
               end
  end.

(* gather_by_index(src, idx, dim=idx.dim()) with squeeze (the use made by unbatchify_and_gather, POMO,
   SymNCO, eval.py):  out[path] = src[path][idx[path]].
     idx = idx.view(idx.shape + (1,)*(src.dim()-idx.dim())).expand(src.shape with [dim] = -1)
     src.gather(dim, idx).squeeze(dim)
   expand broadcasts an index axis of size 1 against the source axis (branch [i]); any other size
   mismatch makes expand raise (None); an index outside the gathered axis makes gather raise (None). *)
Fixpoint gather_nest (idx : nest nat) (src : nestX) {struct idx} : option nestX :=
  match idx with
  | Leaf i => match src with Node rows => nth_error rows i | Leaf _ => None end
  | Node ixs =>
      match src with
      | Leaf _ => None
      | Node rows =>
          match ixs with
          | [i] => option_map Node (mapM (gather_nest i) rows)
          | _ => option_map Node (zipM gather_nest ixs rows)
          end
      end
  end.

(* ops.unbatchify_and_gather(x, idx, n) = gather_by_index(unbatchify(x, n), idx, dim=idx.dim()) *)
Definition unbatchify_and_gather (x : nestX) (idx : nest nat) (n : Z) : option nestX :=
  match unbatchify [n] x with
  | Some u => gather_nest idx u
  | None => None
  end.

(* the inverse rearrangement "b f ... -> (f b) ..." one level, and for a whole shape *)
Definition regroup_nest (f : nat) (t : nestX) : nestX :=
  match t with
  | Node rows => Node (regroup f (map children rows))
  | Leaf _ => t
  end.
Definition rebatchify_nat (fs : list nat) (t : nestX) : nestX := fold_left (fun acc f => regroup_nest f acc) fs t.

(* ------------------------------------------------------------------------------------------------ *)
(** * Reduction to the positive factors *)

Fixpoint posfactors (shape : list Z) : list nat :=
  match shape with
  | [] => []
  | s :: rest => if (0 <? s)%Z then Z.to_nat s :: posfactors rest else posfactors rest
  end.

Definition prod (fs : list nat) : nat := fold_right Nat.mul 1 fs.

Fixpoint unbatchify_nat (fs : list nat) (t : nestX) : option nestX :=
  match fs with
  | [] => Some t
  | f :: fs' => match unbatchify_nat fs' t with
                | Some u => unbatchify_single_nest f u
                | None => None
                end
  end.

Lemma unbatchify_cons : forall s shape t,
  unbatchify (s :: shape) t = unbatchify_step (unbatchify shape t) s.
Proof. intros. unfold unbatchify. cbn [rev]. rewrite fold_left_app. reflexivity. Qed.

Lemma unbatchify_posfactors : forall shape t, unbatchify shape t = unbatchify_nat (posfactors shape) t.
Proof.
  induction shape as [|s shape IH]; intro t; [reflexivity|].
  rewrite unbatchify_cons, IH. cbn [posfactors]. unfold unbatchify_step.
  destruct (0 <? s)%Z; cbn [unbatchify_nat]; destruct (unbatchify_nat (posfactors shape) t); reflexivity.
Qed.

Lemma posfactors_nz : forall shape, Forall (fun f => f <> 0) (posfactors shape).
Proof.
  induction shape as [|s shape IH]; cbn [posfactors]; [constructor|].
  destruct (0 <? s)%Z eqn:E; [constructor; [lia|exact IH]|exact IH].
Qed.

Lemma prodpos_posfactors : forall shape, prodpos shape = prod (posfactors shape).
Proof.
  induction shape as [|s shape IH]; cbn [prodpos posfactors]; [reflexivity|].
  destruct (0 <? s)%Z; cbn [prod fold_right]; fold (prod (posfactors shape)); now rewrite IH.
Qed.

(* ------------------------------------------------------------------------------------------------ *)
(** * unbatchify_entry for any nesting:  result[b][j1]...[jm] = x[b + B*(j1 + f1*(j2 + f2*(...)))] *)

Fixpoint radix (js fs : list nat) : nat :=
  match js, fs with
  | j :: js', f :: fs' => j + f * radix js' fs'
  | _, _ => 0
  end.

Lemma get_cons_nth : forall (l : list nestX) i p d, i < length l ->
  get (i :: p) (Node l) = get p (nth i l d).
Proof. intros l i p d Hi. cbn [get]. now rewrite (nth_error_nth' l d Hi). Qed.

Theorem unbatchify_nat_entry : forall fs B (rows : list nestX),
  Forall (fun f => f <> 0) fs -> length rows = B * prod fs ->
  exists rows', unbatchify_nat fs (Node rows) = Some (Node rows') /\ length rows' = B /\
    forall b js, b < B -> Forall2 lt js fs ->
      get (b :: js) (Node rows') = nth_error rows (b + B * radix js fs).
Proof.
  induction fs as [|f fs IH]; intros B rows Hnz Hlen.
  - exists rows. cbn [prod fold_right] in Hlen. repeat split; [lia|].
    intros b js Hb Hjs. inversion Hjs; subst. cbn [get radix].
    rewrite Nat.mul_0_r, Nat.add_0_r. destruct (nth_error rows b); reflexivity.
  - inversion Hnz as [|? ? Hf Hnz']; subst.
    cbn [prod fold_right] in Hlen. fold (prod fs) in Hlen.
    destruct (IH (B * f) rows Hnz' ltac:(lia)) as (rows1 & Hrun & Hlen1 & Hent).
    exists (map Node (unb1 f rows1)).
    assert (Hl1 : length rows1 = f * B) by lia.
    cbn [unbatchify_nat]. rewrite Hrun. cbn [unbatchify_single_nest].
    rewrite unbatchify_single_some with (B := B) by assumption. cbn [option_map].
    split; [reflexivity|]. split; [rewrite map_length; now apply unb1_length|].
    intros b js Hb Hjs. inversion Hjs as [|j f' js' fs' Hj Hjs']; subst.
    set (d := @Node X []).
    rewrite get_cons_nth with (d := d) by (rewrite map_length, unb1_length with (B := B); assumption).
    change d with (Node (@nil nestX)). rewrite map_nth. fold d.
    assert (Hw : length (nth b (unb1 f rows1) []) = f).
    { pose proof (@unb1_widths _ f B rows1 Hf Hl1) as Hall. rewrite Forall_forall in Hall.
      apply Hall, nth_In. now rewrite unb1_length with (B := B). }
    rewrite get_cons_nth with (d := d) by lia.
    rewrite unb1_entry with (B := B) by assumption.
    assert (Hi : j * B + b < B * f) by nia.
    specialize (Hent (j * B + b) js' Hi Hjs').
    rewrite get_cons_nth with (d := d) in Hent by lia. rewrite Hent.
    cbn [radix]. f_equal. ring.
Qed.

(* ------------------------------------------------------------------------------------------------ *)
(** * unbatchify after batchify: the constant nested structure, for any nesting *)

Fixpoint replicate_under (fs : list nat) (t : nestX) : nestX :=
  match fs with
  | [] => t
  | f :: fs' => Node (repeat (replicate_under fs' t) f)
  end.

Theorem unbatchify_nat_batchify : forall fs (rows : list nestX),
  Forall (fun f => f <> 0) fs ->
  unbatchify_nat fs (Node (batchify_single (prod fs) rows)) = Some (Node (map (replicate_under fs) rows)).
Proof.
  induction fs as [|f fs IH]; intros rows Hnz.
  - cbn [prod fold_right unbatchify_nat replicate_under]. rewrite batchify_single_1, map_id. reflexivity.
  - inversion Hnz as [|? ? Hf Hnz']; subst.
    cbn [prod fold_right]. fold (prod fs). rewrite (Nat.mul_comm f), <- batchify_single_mul.
    cbn [unbatchify_nat]. rewrite IH by exact Hnz'.
    cbn [unbatchify_single_nest]. rewrite batchify_single_map.
    rewrite unbatchify_single_some with (B := length rows); [|exact Hf|now rewrite batchify_single_length, map_length].
    cbn [option_map]. rewrite unb1_batchify_single by exact Hf. rewrite !map_map. reflexivity.
Qed.

Theorem unbatchify_batchify : forall shape (rows : list nestX),
  unbatchify shape (Node (batchify shape rows)) = Some (Node (map (replicate_under (posfactors shape)) rows)).
Proof.
  intros. rewrite unbatchify_posfactors, batchify_is_single, prodpos_posfactors.
  apply unbatchify_nat_batchify, posfactors_nz.
Qed.

(* ------------------------------------------------------------------------------------------------ *)
(** * unbatchify is a bijection onto the values of dimensions B :: fs; its inverse is rebatchify_nat *)

Fixpoint has_dims (ds : list nat) (t : nestX) : Prop :=
  match ds with
  | [] => True
  | d :: ds' => match t with
                | Node l => length l = d /\ Forall (has_dims ds') l
                | Leaf _ => False
                end
  end.

Lemma rebatchify_cons : forall f fs t, rebatchify_nat (f :: fs) t = rebatchify_nat fs (regroup_nest f t).
Proof. reflexivity. Qed.

Lemma map_children_Node : forall (y : list (list nestX)), map children (map Node y) = y.
Proof. intro y. rewrite map_map. cbn [children]. apply map_id. Qed.

(* direction 1: regrouping the unbatchified value gives the rows back (any content, any nesting) *)
Theorem rebatchify_unbatchify_nat : forall fs B (rows : list nestX),
  Forall (fun f => f <> 0) fs -> length rows = B * prod fs ->
  exists u, unbatchify_nat fs (Node rows) = Some u /\ rebatchify_nat fs u = Node rows.
Proof.
  induction fs as [|f fs IH]; intros B rows Hnz Hlen.
  - exists (Node rows). split; reflexivity.
  - inversion Hnz as [|? ? Hf Hnz']; subst.
    cbn [prod fold_right] in Hlen. fold (prod fs) in Hlen.
    destruct (@unbatchify_nat_entry fs (B * f) rows Hnz' ltac:(lia)) as (rows1 & Hrun & Hlen1 & _).
    destruct (IH (B * f) rows Hnz' ltac:(lia)) as (u1 & Hrun' & Hinv).
    rewrite Hrun in Hrun'. injection Hrun' as <-.
    exists (Node (map Node (unb1 f rows1))). cbn [unbatchify_nat]. rewrite Hrun.
    cbn [unbatchify_single_nest]. rewrite unbatchify_single_some with (B := B) by lia.
    split; [reflexivity|]. rewrite rebatchify_cons. cbn [regroup_nest].
    rewrite map_children_Node, regroup_unb1 with (B := B) by lia. exact Hinv.
Qed.

Lemma Forall_zipcons : forall (P : nestX -> Prop) r cols,
  Forall P r -> Forall (Forall P) cols -> Forall (Forall P) (zipcons r cols).
Proof.
  induction r as [|a r IH]; intros [|c cols] Hr Hc; cbn [zipcons]; try constructor.
  - constructor; [now inversion Hr|now inversion Hc].
  - apply IH; [now inversion Hr|now inversion Hc].
Qed.

Lemma Forall_transpose : forall (P : nestX -> Prop) w rows,
  Forall (Forall P) rows -> Forall (Forall P) (transpose w rows).
Proof.
  induction rows as [|r rs IH]; intro H; cbn [transpose].
  - apply Forall_forall. intros c Hc. apply repeat_spec in Hc. subst. constructor.
  - inversion H; subst. apply Forall_zipcons; [assumption|now apply IH].
Qed.

Lemma Forall_concat' : forall (P : nestX -> Prop) (t : list (list nestX)),
  Forall (Forall P) t -> Forall P (concat t).
Proof.
  induction 1 as [|c t Hc Ht IH]; cbn [concat]; [constructor|]. apply Forall_app. now split.
Qed.

Lemma has_dims_children : forall f ds (l : list nestX),
  Forall (has_dims (f :: ds)) l ->
  Forall (fun r => length r = f) (map children l) /\ Forall (Forall (has_dims ds)) (map children l) /\
  map Node (map children l) = l.
Proof.
  induction l as [|t l IH]; intro H; cbn [map]; [repeat split; constructor|].
  inversion H as [|? ? Ht Hl]; subst. destruct (IH Hl) as (H1 & H2 & H3).
  destruct t as [x|c]; cbn [has_dims] in Ht; [contradiction|]. destruct Ht as [Hc Hin].
  cbn [children]. repeat split; [now constructor|now constructor|now rewrite H3].
Qed.

(* direction 2: every value of dimensions B :: fs is the unbatchify of its regrouping *)
Theorem unbatchify_rebatchify_nat : forall fs B (u : nestX),
  Forall (fun f => f <> 0) fs -> has_dims (B :: fs) u ->
  unbatchify_nat fs (rebatchify_nat fs u) = Some u.
Proof.
  induction fs as [|f fs IH]; intros B u Hnz Hd; [reflexivity|].
  inversion Hnz as [|? ? Hf Hnz']; subst.
  destruct u as [x|l]; [contradiction|]. destruct Hd as [Hl Hin].
  destruct (has_dims_children Hin) as (Hw & Hdeep & Hback).
  rewrite rebatchify_cons. cbn [regroup_nest unbatchify_nat].
  rewrite (IH (f * B)); [|exact Hnz'|].
  - cbn [unbatchify_single_nest].
    rewrite unbatchify_single_some with (B := B); [|exact Hf|rewrite regroup_length by exact Hw; now rewrite map_length, Hl].
    cbn [option_map]. rewrite unb1_regroup by assumption. now rewrite Hback.
  - cbn [has_dims]. split.
    + rewrite regroup_length by exact Hw. now rewrite map_length, Hl.
    + unfold regroup. apply Forall_concat', Forall_transpose. exact Hdeep.
Qed.

(* ------------------------------------------------------------------------------------------------ *)
(** * The same three theorems for the function as called (python shape, non-positive factors skipped) *)

Theorem unbatchify_entry : forall shape B (rows : list nestX),
  length rows = B * prodpos shape ->
  exists rows', unbatchify shape (Node rows) = Some (Node rows') /\ length rows' = B /\
    forall b js, b < B -> Forall2 lt js (posfactors shape) ->
      get (b :: js) (Node rows') = nth_error rows (b + B * radix js (posfactors shape)).
Proof.
  intros shape B rows H. rewrite unbatchify_posfactors. apply unbatchify_nat_entry; [apply posfactors_nz|].
  now rewrite <- prodpos_posfactors.
Qed.

Theorem rebatchify_unbatchify : forall shape B (rows : list nestX),
  length rows = B * prodpos shape ->
  exists u, unbatchify shape (Node rows) = Some u /\ rebatchify_nat (posfactors shape) u = Node rows.
Proof.
  intros shape B rows H. rewrite unbatchify_posfactors.
  apply rebatchify_unbatchify_nat with (B := B); [apply posfactors_nz|]. now rewrite <- prodpos_posfactors.
Qed.

Theorem unbatchify_rebatchify : forall shape B (u : nestX),
  has_dims (B :: posfactors shape) u ->
  unbatchify shape (rebatchify_nat (posfactors shape) u) = Some u.
Proof.
  intros shape B u H. rewrite unbatchify_posfactors.
  apply unbatchify_rebatchify_nat with (B := B); [apply posfactors_nz|exact H].
Qed.

(* when the length is not a multiple of the (single) factor the real code raises *)
Theorem unbatchify_raises : forall (k : nat) (rows : list nestX),
  k <> 0 -> length rows mod k <> 0 -> unbatchify [Z.of_nat k] (Node rows) = None.
Proof.
  intros k rows Hk Hm. rewrite unbatchify_posfactors. cbn [posfactors].
  destruct (0 <? Z.of_nat k)%Z eqn:E; [|lia]. rewrite Nat2Z.id. cbn [unbatchify_nat unbatchify_single_nest].
  now rewrite unbatchify_single_none.
Qed.

(* ------------------------------------------------------------------------------------------------ *)
(** * gather: the one-dimensional index case (used by _select_best, eval.py) *)

Lemma mapM_length : forall (A B : Type) (f : A -> option B) l r, mapM f l = Some r -> length r = length l.
Proof.
  induction l as [|a l IH]; intros r H; cbn [mapM] in H; [injection H as <-; reflexivity|].
  destruct (f a); [|discriminate]. destruct (mapM f l) eqn:E; [|discriminate].
  injection H as <-. cbn [length]. f_equal. now apply IH.
Qed.

Lemma zipM_nth : forall (A B C : Type) (g : C -> A -> option B) cs l r,
  zipM g cs l = Some r ->
  length r = length l /\ length cs = length l /\
  forall b c a, nth_error cs b = Some c -> nth_error l b = Some a ->
    exists v, g c a = Some v /\ nth_error r b = Some v.
Proof.
  induction cs as [|c cs IH]; intros [|a l] r H; cbn [zipM] in H; try discriminate.
  - injection H as <-. repeat split. intros [|b] ? ? Hc; discriminate.
  - destruct (g c a) as [v|] eqn:Eg; [|discriminate]. destruct (zipM g cs l) as [r'|] eqn:E; [|discriminate].
    injection H as <-. destruct (IH l r' E) as (H1 & H2 & H3). cbn [length]. repeat split; [lia|lia|].
    intros [|b] c' a' Hc Ha; cbn [nth_error] in *.
    + injection Hc as <-. injection Ha as <-. exists v. now split.
    + now apply H3.
Qed.

Lemma zipM_total : forall (A B C : Type) (g : C -> A -> option B) cs l,
  length cs = length l ->
  (forall b c a, nth_error cs b = Some c -> nth_error l b = Some a -> g c a <> None) ->
  exists r, zipM g cs l = Some r.
Proof.
  induction cs as [|c cs IH]; intros [|a l] Hlen Hok; try discriminate; [now exists []|].
  cbn [zipM]. destruct (g c a) as [v|] eqn:Eg; [|exfalso; now apply (Hok 0 c a)].
  destruct (IH l) as (r & Hr); [now injection Hlen| |rewrite Hr; now exists (v :: r)].
  intros b c' a' Hc Ha. now apply (Hok (S b) c' a').
Qed.

(* out[b] = src[b][idx[b]] *)
Theorem gather_nest_1d : forall (idx : list nat) (src : list (list nestX)),
  length idx = length src ->
  (forall b i r, nth_error idx b = Some i -> nth_error src b = Some r -> i < length r) ->
  exists out, gather_nest (Node (map Leaf idx)) (Node (map Node src)) = Some (Node out) /\
    length out = length src /\
    forall b i r, nth_error idx b = Some i -> nth_error src b = Some r ->
      nth_error out b = nth_error r i.
Proof.
  intros idx src Hlen Hrange.
  assert (Hz : exists out, zipM gather_nest (map Leaf idx) (map Node src) = Some out).
  { apply zipM_total; [now rewrite !map_length|].
    intros b c a Hc Ha. rewrite nth_error_map in Hc, Ha.
    destruct (nth_error idx b) as [i|] eqn:Ei; [|discriminate].
    destruct (nth_error src b) as [r|] eqn:Er; [|discriminate].
    injection Hc as <-. injection Ha as <-. cbn [gather_nest].
    apply nth_error_Some. now apply (Hrange b i r). }
  destruct Hz as (out & Hz). exists out.
  destruct (zipM_nth _ _ _ Hz) as (H1 & _ & H3). rewrite map_length in H1.
  assert (Hent : forall b i r, nth_error idx b = Some i -> nth_error src b = Some r ->
                               nth_error out b = nth_error r i).
  { intros b i r Hi Hr.
    destruct (H3 b (Leaf i) (Node r)) as (v & Hv & Hnth);
      [now rewrite nth_error_map, Hi|now rewrite nth_error_map, Hr|].
    cbn [gather_nest] in Hv. now rewrite Hnth, Hv. }
  split; [|split; assumption].
  cbn [gather_nest]. destruct idx as [|i [|i' idx']].
  - destruct src; [|discriminate]. cbn in Hz |- *. now injection Hz as <-.
  - (* single index: the broadcast branch coincides with the zipped one on a single source row *)
    destruct src as [|r [|r' src']]; try discriminate. cbn [map mapM zipM] in Hz |- *.
    destruct (gather_nest (Leaf i) (Node r)); [|discriminate]. now injection Hz as <-.
  - cbn [map] in Hz |- *. now rewrite Hz.
Qed.

End Nest.

(* ------------------------------------------------------------------------------------------------ *)
(** * Examples *)

Example ex_unbatchify_nested :
  option_map (@flat nat) (unbatchify [2%Z; 3%Z] (rows_of (seq 0 12))) = Some [0; 4; 8; 2; 6; 10; 1; 5; 9; 3; 7; 11].
Proof. reflexivity. Qed.
(* [b][p][j] = x[b + 2*(p + 2*j)] with B = 2, (f1, f2) = (2, 3):  [1][1][2] = x[1 + 2*(1 + 2*2)] = 11 *)
Example ex_unbatchify_entry :
  match unbatchify [2%Z; 3%Z] (rows_of (seq 0 12)) with Some u => get [1; 1; 2] u | None => None end = Some (Leaf 11).
Proof. reflexivity. Qed.
Example ex_unbatchify_skips_nonpositive :
  unbatchify [0%Z; 2%Z; (-1)%Z] (rows_of (seq 0 4)) = unbatchify [2%Z] (rows_of (seq 0 4)).
Proof. reflexivity. Qed.
Example ex_unbatchify_raises : unbatchify [2%Z; 3%Z] (rows_of (seq 0 9)) = None.
Proof. reflexivity. Qed.
Example ex_gather :
  unbatchify_and_gather (rows_of [10; 11; 12; 13; 14; 15]) (Node [Leaf 2; Leaf 0]) 3 = Some (Node [Leaf 14; Leaf 11]).
Proof. reflexivity. Qed.
Example ex_rebatchify :
  option_map (rebatchify_nat [2; 3]) (unbatchify [2%Z; 3%Z] (rows_of (seq 0 12))) = Some (rows_of (seq 0 12)).
Proof. reflexivity. Qed.
