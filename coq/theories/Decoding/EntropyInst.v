(* C10 / C11 -- closings of Decoding/Entropy.v.

     real:        K = R, lg = ln : the hypotheses of Entropy.v hold (ln_1, ln_mult, ln_increasing); the three theorems for
                  the real softmax (axioms of Coq.Reals are listed by Print Assumptions)
     executable:  K = Qc.  Qc has no logarithm, so the correspondence evaluates the entropy through a rational
                  approximation  lnQ  of the natural logarithm:
                      p = m * 2^e with 3/4 <= m < 3/2  (exact, by halving / doubling)
                      ln m = 2 atanh ((m - 1) / (m + 1)),  atanh x = x + x^3/3 + x^5/5 + ...   (|x| <= 1/5: 6 terms)
                      lnQ p = 2 * atanh_6 ((m - 1) / (m + 1)) + e * ln2Q,    ln2Q = floor(ln 2 * 2^62) / 2^62
                  evaluated in FIXED POINT with 62 fractional bits (integers: ~1 ms per logarithm under vm_compute).
                  The truncation error (< 2e-10 for the mantissa part, < 1e-17 for ln2Q) is NOT proved (Coq's R is not
                  executable); it is validated by the Examples below and is far inside the 1e-6 tolerance of the
                  comparison.  For probabilities that are powers of two (m = 1) lnQ p = e * ln2Q EXACTLY: the entropy in
                  bits is an exact rational and only the constant ln2Q carries an approximation.
   entropyQ / entropy_stepsQ are Entropy.entropy / entropy_steps at (QcF, lnQ): the same definitions the theorems are
   about, evaluated. *)
From Coq Require Import ZArith QArith Qcanon List Bool Lia Reals Lra.
From RL4CO Require Import Base.OField Base.OFieldExtra Base.OFieldQc Base.OFieldR Decoding.PLTensor Decoding.ProcessLogits
                          Decoding.PLInst Decoding.Entropy.
Import ListNotations.

(* ------------------------------------------------------------------ (R, ln) *)
Local Open Scope R_scope.
Lemma RF_flt_iff (x y : RF) : flt x y <-> x < y.
Proof.
  unfold flt, fltb. cbn [fleb RF]. rewrite negb_true_iff. split.
  - intros H. destruct (Rle_lt_dec y x) as [C|C]; [|exact C]. apply Rleb_iff in C. congruence.
  - intros H. destruct (Rleb y x) eqn:E; [|reflexivity]. apply Rleb_iff in E. lra.
Qed.
Lemma R_ln_1 : ln (f1 (o := RF)) = f0 (o := RF).
Proof. exact ln_1. Qed.
Lemma R_ln_mul : forall x y : RF, flt f0 x -> flt f0 y -> ln (fmul x y) = fadd (o := RF) (ln x) (ln y).
Proof. intros x y Hx Hy. apply ln_mult; apply RF_flt_iff; assumption. Qed.
Lemma R_ln_incr : forall x y : RF, flt f0 x -> flt x y -> flt (K := RF) (ln x) (ln y).
Proof. intros x y Hx Hxy. apply RF_flt_iff. apply ln_increasing; apply RF_flt_iff; assumption. Qed.
Local Close Scope R_scope.

Definition entropyR : list R -> R := entropy (K := RF) ln.

Theorem entropyR_nonneg (v : list R) : dist (K := RF) v -> fle (K := RF) f0 (entropyR v).
Proof. exact (entropy_nonneg RF ln R_ln_1 R_ln_incr v). Qed.

Theorem entropyR_zero_iff (v : list R) : dist (K := RF) v -> (entropyR v = 0%R <-> point_mass (K := RF) v).
Proof. exact (entropy_zero_iff RF ln R_ln_1 R_ln_incr v). Qed.

Theorem entropyR_uniform (m : list bool) :
  (1 <= ntrue m)%nat -> entropyR (uniform_on (K := RF) m) = ln (of_nat (K := RF) (ntrue m)).
Proof. exact (entropy_uniform RF ln R_ln_1 R_ln_mul m). Qed.

(* the input of the audit: log([[[.5, .5]]]) -> + ln 2 *)
Example entropyR_half_half : entropyR [(1 / 2)%R; (1 / 2)%R] = ln 2.
Proof.
  pose proof (entropyR_uniform [true; true] ltac:(cbn; lia)) as H.
  unfold uniform_on, ntrue in H. cbn [filter length map of_nat] in H. cbn [f0 f1 fadd fdiv RF] in H.
  replace (0 + 1 + 1)%R with 2%R in H by lra. exact H.
Qed.

(* ------------------------------------------------------------------ (Qc, lnQ) *)
Local Open Scope Qc_scope.
Definition qz (z : Z) : Qc := Q2Qc (inject_Z z).

(* fixed point with 62 fractional bits: a number y is represented by floor(y * 2^62) : Z.  (Exact rational arithmetic on
   the series costs ~50 ms per logarithm under vm_compute, fixed point ~1 ms; every operation rounds down by < 2^-62.) *)
Definition FXB : Z := 62%Z.
Definition fx_mul (a b : Z) : Z := Z.shiftr (a * b) FXB.
Fixpoint atanh_fx (n : nat) (k : Z) (pw x2 : Z) : Z :=
  match n with
  | O => 0%Z
  | S n' => (pw / (2 * k + 1) + atanh_fx n' (k + 1)%Z (fx_mul pw x2) x2)%Z
  end.
Definition LN2_fx : Z := 3196577161300663914%Z.                                  (* floor(ln 2 * 2^62) *)
Definition of_fx (a : Z) : Qc := Q2Qc (a # Z.to_pos (2 ^ FXB)).
Definition ln2Q : Qc := of_fx LN2_fx.

(* p = m * 2^e with 3/4 <= m < 3/2 *)
Fixpoint normQ (fuel : nat) (p : Qc) (e : Z) : Qc * Z :=
  match fuel with
  | O => (p, e)
  | S f => if Qcleb (qc 3 2) p then normQ f (p / qz 2) (e + 1)%Z
           else if Qcleb (qc 3 4) p then (p, e) else normQ f (p * qz 2) (e - 1)%Z
  end.
Definition lnQ (p : Qc) : Qc :=
  let me := normQ 600 p 0%Z in
  let a := Qnum (this (fst me)) in
  let b := Z.pos (Qden (this (fst me))) in
  let x := (Z.shiftl (a - b) FXB / (a + b))%Z in                  (* (m - 1) / (m + 1),  |x| <= 1/5 *)
  of_fx (2 * atanh_fx 6 0 x (fx_mul x x) + snd me * LN2_fx)%Z.

(* the same constant from the series, in exact rational arithmetic (validation only) *)
Fixpoint atanh_from (n : nat) (k : Z) (pw x2 : Qc) : Qc :=
  match n with
  | O => 0
  | S n' => pw / qz (2 * k + 1) + atanh_from n' (k + 1) (pw * x2) x2
  end.
Definition atanhQ (n : nat) (x : Qc) : Qc := atanh_from n 0 x (x * x).
Definition ln2Q_series : Qc := qz 2 * atanhQ 24 (1 / qz 3).

Definition entropyQ : list Qc -> Qc := entropy (K := QcF) lnQ.
Definition entropy_stepsQ : list (list Qc) -> Qc := entropy_steps (K := QcF) lnQ.

Definition Qcabs' (x : Qc) : Qc := if Qcleb 0 x then x else - x.
Definition closeQ (a b tol : Qc) : bool := Qcleb (Qcabs' (a - b)) tol.

(* powers of two are exact multiples of ln2Q; 0 log 0 = 0; the audit's input gives + ln 2 *)
Definition eqQ (a b : Qc) : bool := Qeq_bool a b.
Example lnQ_exact :
  eqQ (lnQ 1) 0 = true /\ eqQ (lnQ (qc 1 2)) (- ln2Q) = true /\ eqQ (lnQ (qc 1 8)) (- (qz 3 * ln2Q)) = true /\
  eqQ (entropyQ [qc 1 2; qc 1 2]) ln2Q = true /\ eqQ (entropyQ [0; 1; 0]) 0 = true /\
  eqQ (entropyQ [qc 1 2; qc 1 4; qc 1 4; 0]) (qc 3 2 * ln2Q) = true /\
  eqQ (entropy_stepsQ [[qc 1 2; qc 1 2]; [1; 0]; [qc 1 4; qc 1 4; qc 1 4; qc 1 4]]) (qz 3 * ln2Q) = true.
Proof. vm_compute. repeat split. Qed.

(* validation of the approximation against the decimal expansions of ln 2, ln 3, ln 5/7 *)
Example lnQ_validation :
  closeQ ln2Q (Q2Qc (6931471805599453094 # 10000000000000000000)) (Q2Qc (1 # 100000000000000000)) = true /\
  closeQ ln2Q ln2Q_series (Q2Qc (1 # 100000000000000000)) = true /\
  closeQ (lnQ (qc 1 3)) (- Q2Qc (10986122886681098 # 10000000000000000)) (Q2Qc (1 # 1000000000)) = true /\
  closeQ (lnQ (qc 5 7)) (- Q2Qc (3364722366212129 # 10000000000000000)) (Q2Qc (1 # 1000000000)) = true /\
  closeQ (lnQ (qc 1 1000001)) (- Q2Qc (138155115579643 # 10000000000000)) (Q2Qc (1 # 1000000000)) = true /\
  closeQ (entropyQ [qc 1 3; qc 1 3; qc 1 3]) (Q2Qc (10986122886681098 # 10000000000000000)) (Q2Qc (1 # 1000000000)) = true.
Proof. vm_compute. repeat split. Qed.
