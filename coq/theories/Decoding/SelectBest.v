(* C12 part 4: unbatchify_and_gather and DecodingStrategy._select_best.

   rl4co/utils/decoding.py
     def _select_best(self, logprobs, actions, td, env):
         rewards = env.get_reward(td, actions)
         _, max_idxs = unbatchify(rewards, self.num_starts).max(dim=-1)
         actions  = unbatchify_and_gather(actions,  max_idxs, self.num_starts)
         logprobs = unbatchify_and_gather(logprobs, max_idxs, self.num_starts)
         td       = unbatchify_and_gather(td,       max_idxs, self.num_starts)
         return logprobs, actions, td, env
   (called from post_decoder_hook only when self.num_starts > 0)

   torch.max(dim) returns, for several maximal values in a reduced row, the index of the first one
   (documented behaviour; trusted base item 5).  Rewards are numbers that are only compared here: Z.  *)
From Coq Require Import ZArith List Bool Lia ZifyBool Arith.
From RL4CO Require Import Decoding.Batchify Decoding.Nest.
Import ListNotations.

Set Implicit Arguments.

(* ------------------------------------------------------------------------------------------------ *)
(** * Model *)

(* (index of the first maximal entry, the maximum) of the non-empty row x :: r *)
Fixpoint argmax_val (x : Z) (r : list Z) : nat * Z :=
  match r with
  | [] => (0, x)
  | y :: r' => let (m, v) := argmax_val y r' in if (v <=? x)%Z then (0, x) else (S m, v)
  end.

(* None: max over an empty dimension raises *)
Definition argmax_row (row : list Z) : option nat :=
  match row with [] => None | x :: r => Some (fst (argmax_val x r)) end.

(* unbatchify(rewards, k).max(dim=-1)[1] *)
Definition max_idxs (k : nat) (rewards : list Z) : option (list nat) :=
  match unbatchify_single k rewards with
  | Some rw => mapM argmax_row rw
  | None => None
  end.

Definition select_best (A L T : Type) (k : nat) (rewards : list Z)
           (actions : list A) (logprobs : list L) (td : list T)
  : option (nest L * nest A * nest T) :=
  match max_idxs k rewards with
  | None => None
  | Some ids =>
      let idx := Node (map Leaf ids) in
      match unbatchify_and_gather (rows_of actions) idx (Z.of_nat k),
            unbatchify_and_gather (rows_of logprobs) idx (Z.of_nat k),
            unbatchify_and_gather (rows_of td) idx (Z.of_nat k) with
      | Some a, Some l, Some t => Some (l, a, t)
      | _, _, _ => None
      end
  end.

(* ------------------------------------------------------------------------------------------------ *)
(** * Specification (independent of unbatchify): the best of instance b's own rollouts *)

(* rollouts of instance b are the rows r < k*B with r mod B = b (batchify's layout, nth_batchify);
   r is the best of them with torch's tie rule: maximal reward, and the earliest such row *)
Definition is_best (B k : nat) (rewards : list Z) (b r : nat) : Prop :=
  r < k * B /\ r mod B = b /\
  (forall r', r' < k * B -> r' mod B = b -> (nth r' rewards 0 <= nth r rewards 0)%Z) /\
  (forall r', r' < r -> r' mod B = b -> (nth r' rewards 0 < nth r rewards 0)%Z).

(* ------------------------------------------------------------------------------------------------ *)
(** * argmax *)

Lemma argmax_val_spec : forall r x m v,
  argmax_val x r = (m, v) ->
  m < S (length r) /\ nth m (x :: r) 0%Z = v /\
  (forall i, i < S (length r) -> (nth i (x :: r) 0 <= v)%Z) /\
  (forall i, i < m -> (nth i (x :: r) 0 < v)%Z).
Proof.
  induction r as [|y r IH]; intros x m v H; cbn [argmax_val] in H.
  - injection H as <- <-. cbn [length]. repeat split; [lia| |intros; lia].
    intros i Hi. assert (i = 0) by lia. subst. cbn. lia.
  - destruct (argmax_val y r) as [m' v'] eqn:E. destruct (IH y m' v' E) as (Hm & Hv & Hmax & Hfirst).
    destruct (v' <=? x)%Z eqn:C; injection H as <- <-; cbn [length].
    + repeat split; [lia| |intros; lia].
      intros [|i] Hi; [cbn [nth]; lia|]. specialize (Hmax i ltac:(lia)).
      change (nth (S i) (x :: y :: r) 0%Z) with (nth i (y :: r) 0%Z). lia.
    + repeat split; [lia|exact Hv| |].
      * intros [|i] Hi; [cbn [nth]; lia|]. apply (Hmax i). lia.
      * intros [|i] Hi; [cbn [nth]; lia|]. apply (Hfirst i). lia.
Qed.

Lemma argmax_row_spec : forall row m,
  argmax_row row = Some m ->
  m < length row /\ (forall i, i < length row -> (nth i row 0 <= nth m row 0)%Z) /\
  (forall i, i < m -> (nth i row 0 < nth m row 0)%Z).
Proof.
  intros [|x r] m H; [discriminate|]. cbn [argmax_row] in H. injection H as <-.
  destruct (argmax_val x r) as [m v] eqn:E. destruct (argmax_val_spec _ _ E) as (H1 & H2 & H3 & H4).
  cbn [fst length]. rewrite H2. repeat split; assumption.
Qed.

Lemma argmax_row_total : forall row, row <> [] -> exists m, argmax_row row = Some m.
Proof. intros [|x r] H; [contradiction|]. eexists. reflexivity. Qed.

(* ------------------------------------------------------------------------------------------------ *)
(** * unbatchify_and_gather with a one-dimensional index:  out[b] = x[idx[b]*B + b] *)

Theorem unbatchify_and_gather_rows : forall (Y : Type) (x : list Y) (ids : list nat) k B,
  k <> 0 -> length x = k * B -> length ids = B -> Forall (fun i => i < k) ids ->
  exists out, unbatchify_and_gather (rows_of x) (Node (map Leaf ids)) (Z.of_nat k) = Some (Node out) /\
    length out = B /\
    forall b, b < B -> nth_error out b = option_map Leaf (nth_error x (nth b ids 0 * B + b)).
Proof.
  intros Y x ids k B Hk Hx Hids Hrange.
  unfold unbatchify_and_gather. rewrite unbatchify_posfactors. cbn [posfactors].
  destruct (0 <? Z.of_nat k)%Z eqn:E; [|lia]. rewrite Nat2Z.id. cbn [unbatchify_nat].
  unfold rows_of. cbn [unbatchify_single_nest].
  assert (Hlx : length (map (@Leaf Y) x) = k * B) by now rewrite map_length.
  rewrite unbatchify_single_some with (B := B) by assumption. cbn [option_map].
  set (src := unb1 k (map (@Leaf Y) x)).
  assert (Hls : length src = B) by (unfold src; now apply unb1_length).
  assert (Hws : forall b, b < B -> length (nth b src []) = k).
  { intros b Hb. pose proof (@unb1_widths _ k B _ Hk Hlx) as Hall. rewrite Forall_forall in Hall.
    apply Hall, nth_In. fold src. lia. }
  destruct (@gather_nest_1d Y ids src) as (out & Hg & Hlo & Hent).
  - lia.
  - intros b i r Hi Hr. rewrite Forall_forall in Hrange.
    assert (Hb : b < B) by (rewrite <- Hids; apply nth_error_Some; congruence).
    apply nth_error_nth with (d := @nil (nest Y)) in Hr. rewrite <- Hr, Hws by exact Hb.
    apply Hrange. eapply nth_error_In; eassumption.
  - exists out. split; [exact Hg|]. split; [lia|]. intros b Hb.
    assert (Hi : nth_error ids b = Some (nth b ids 0)) by (apply nth_error_nth'; lia).
    assert (Hr : nth_error src b = Some (nth b src [])) by (apply nth_error_nth'; lia).
    rewrite (Hent b _ _ Hi Hr).
    assert (Hj : nth b ids 0 < k).
    { rewrite Forall_forall in Hrange. apply Hrange, nth_In. lia. }
    set (d := @Node Y []).
    rewrite nth_error_nth' with (d := d) by (rewrite Hws by exact Hb; exact Hj).
    unfold src. rewrite unb1_entry with (B := B) by assumption.
    assert (Hr' : nth b ids 0 * B + b < k * B) by nia.
    rewrite <- nth_error_nth' with (d := d) by (rewrite Hlx; exact Hr').
    apply nth_error_map.
Qed.

(* ------------------------------------------------------------------------------------------------ *)
(** * select_best_correct *)

Lemma mapM_spec : forall (A B : Type) (f : A -> option B) l r,
  mapM f l = Some r ->
  length r = length l /\
  forall b a, nth_error l b = Some a -> exists v, f a = Some v /\ nth_error r b = Some v.
Proof.
  induction l as [|a l IH]; intros r H; cbn [mapM] in H.
  - injection H as <-. split; [reflexivity|]. intros [|b] ? Hb; discriminate.
  - destruct (f a) as [v|] eqn:Ef; [|discriminate]. destruct (mapM f l) as [r'|] eqn:E; [|discriminate].
    injection H as <-. destruct (IH r' eq_refl) as (Hl & Hn). split; [cbn [length]; lia|].
    intros [|b] a' Hb; cbn [nth_error] in *.
    + injection Hb as <-. exists v. now split.
    + now apply Hn.
Qed.

Lemma mapM_total : forall (A B : Type) (f : A -> option B) l,
  (forall a, In a l -> f a <> None) -> exists r, mapM f l = Some r.
Proof.
  induction l as [|a l IH]; intro H; [now exists []|]. cbn [mapM].
  destruct (f a) as [v|] eqn:Ef; [|exfalso; apply (H a); [now left|exact Ef]].
  destruct IH as (r & Hr); [intros a' Ha'; apply H; now right|]. rewrite Hr. now exists (v :: r).
Qed.

(* the index tensor: one entry per instance, each the first-maximal column of the instance's own rewards *)
Lemma max_idxs_spec : forall k B rewards,
  k <> 0 -> length rewards = k * B ->
  exists ids, max_idxs k rewards = Some ids /\ length ids = B /\ Forall (fun i => i < k) ids /\
    forall b, b < B ->
      let m := nth b ids 0 in
      (forall j, j < k -> (nth (j * B + b) rewards 0 <= nth (m * B + b) rewards 0)%Z) /\
      (forall j, j < m -> (nth (j * B + b) rewards 0 < nth (m * B + b) rewards 0)%Z).
Proof.
  intros k B rewards Hk Hlen. unfold max_idxs.
  rewrite unbatchify_single_some with (B := B) by assumption.
  set (rw := unb1 k rewards).
  assert (Hlr : length rw = B) by (unfold rw; now apply unb1_length).
  assert (Hw : forall row, In row rw -> length row = k).
  { pose proof (@unb1_widths _ k B rewards Hk Hlen) as Hall. rewrite Forall_forall in Hall. exact Hall. }
  destruct (@mapM_total _ _ argmax_row rw) as (ids & Hids).
  { intros row Hin. destruct row as [|x r]; [apply Hw in Hin; cbn in Hin; lia|discriminate]. }
  exists ids. destruct (mapM_spec _ _ Hids) as (Hl & Hn).
  assert (Hent : forall b, b < B -> argmax_row (nth b rw []) = Some (nth b ids 0)).
  { intros b Hb. destruct (Hn b (nth b rw [])) as (v & Hv & Hnth); [apply nth_error_nth'; lia|].
    rewrite Hv. f_equal. symmetry. now apply nth_error_nth. }
  split; [exact Hids|]. split; [lia|]. split.
  - apply Forall_forall. intros i Hin. destruct (In_nth _ _ 0 Hin) as (b & Hb & <-).
    assert (Hb' : b < B) by lia. destruct (argmax_row_spec _ (Hent b Hb')) as (Hm & _ & _).
    rewrite (Hw (nth b rw [])) in Hm by (apply nth_In; lia). exact Hm.
  - intros b Hb. cbv zeta. set (m := nth b ids 0).
    destruct (argmax_row_spec _ (Hent b Hb)) as (Hm & Hmax & Hfirst). fold m in Hm, Hmax, Hfirst.
    rewrite (Hw (nth b rw [])) in Hm, Hmax by (apply nth_In; lia).
    assert (Hrow : forall j, j < k -> nth j (nth b rw []) 0%Z = nth (j * B + b) rewards 0%Z).
    { intros j Hj. unfold rw. now apply unb1_entry. }
    split.
    + intros j Hj. rewrite <- !Hrow by assumption. now apply Hmax.
    + intros j Hj. rewrite <- !Hrow by lia. now apply Hfirst.
Qed.

Theorem select_best_correct : forall (A L T : Type) k B (rewards : list Z)
    (actions : list A) (logprobs : list L) (td : list T),
  k <> 0 -> length rewards = k * B -> length actions = k * B -> length logprobs = k * B -> length td = k * B ->
  exists ol oa ot,
    select_best k rewards actions logprobs td = Some (Node ol, Node oa, Node ot) /\
    length ol = B /\ length oa = B /\ length ot = B /\
    forall b, b < B -> exists r,
      is_best B k rewards b r /\
      nth_error oa b = option_map Leaf (nth_error actions r) /\
      nth_error ol b = option_map Leaf (nth_error logprobs r) /\
      nth_error ot b = option_map Leaf (nth_error td r).
Proof.
  intros A L T k B rewards actions logprobs td Hk Hr Ha Hl Ht.
  destruct (@max_idxs_spec k B rewards Hk Hr) as (ids & Hids & Hlen & Hrange & Hbest).
  destruct (@unbatchify_and_gather_rows A actions ids k B Hk Ha Hlen Hrange) as (oa & Hoa & Hloa & Hea).
  destruct (@unbatchify_and_gather_rows L logprobs ids k B Hk Hl Hlen Hrange) as (ol & Hol & Hlol & Hel).
  destruct (@unbatchify_and_gather_rows T td ids k B Hk Ht Hlen Hrange) as (ot & Hot & Hlot & Het).
  exists ol, oa, ot. unfold select_best. rewrite Hids, Hoa, Hol, Hot.
  split; [reflexivity|]. repeat (split; [assumption|]).
  intros b Hb. exists (nth b ids 0 * B + b).
  split; [|now rewrite Hea, Hel, Het].
  assert (HB : B <> 0) by lia.
  assert (Hm : nth b ids 0 < k) by (rewrite Forall_forall in Hrange; apply Hrange, nth_In; lia).
  destruct (Hbest b Hb) as (Hmax & Hfirst). unfold is_best. repeat split.
  - nia.
  - rewrite Nat.add_comm, Nat.mod_add, Nat.mod_small by assumption. reflexivity.
  - intros r' Hr' Hmod. pose proof (Nat.div_mod r' B HB) as Hdm. rewrite Hmod in Hdm.
    assert (Hj : r' / B < k) by (apply Nat.div_lt_upper_bound; [exact HB|lia]).
    replace r' with (r' / B * B + b) by lia. now apply Hmax.
  - intros r' Hr' Hmod. pose proof (Nat.div_mod r' B HB) as Hdm. rewrite Hmod in Hdm.
    assert (Hj : r' / B < nth b ids 0) by nia.
    replace r' with (r' / B * B + b) by lia. now apply Hfirst.
Qed.

(* is_best determines the row: the specification is not loose *)
Lemma is_best_unique : forall B k rewards b r1 r2,
  is_best B k rewards b r1 -> is_best B k rewards b r2 -> r1 = r2.
Proof.
  intros B k rewards b r1 r2 (H1 & M1 & X1 & F1) (H2 & M2 & X2 & F2).
  destruct (Nat.lt_trichotomy r1 r2) as [Hlt|[Heq|Hgt]]; [|exact Heq|].
  - specialize (F2 r1 Hlt M1). specialize (X1 r2 H2 M2). lia.
  - specialize (F1 r2 Hgt M2). specialize (X2 r1 H1 M1). lia.
Qed.

(* ------------------------------------------------------------------------------------------------ *)
(** * Examples *)

(* B = 2 instances, k = 3 rollouts; rows 0,2,4 belong to instance 0 (rewards 5,7,7 -> first max = row 2),
   rows 1,3,5 to instance 1 (rewards 9,1,9 -> row 1) *)
Example ex_select_best :
  select_best 3 [5; 9; 7; 1; 7; 9]%Z [100; 101; 102; 103; 104; 105] [200; 201; 202; 203; 204; 205] [0; 1; 2; 3; 4; 5]
  = Some (Node [Leaf 202; Leaf 201], Node [Leaf 102; Leaf 101], Node [Leaf 2; Leaf 1]).
Proof. reflexivity. Qed.
Example ex_is_best : is_best 2 3 [5; 9; 7; 1; 7; 9]%Z 0 2.
Proof.
  unfold is_best. repeat split; try reflexivity; try lia.
  - intros r' Hr' Hm. do 6 (destruct r' as [|r']; [cbn in *; try lia|]). lia.
  - intros r' Hr' Hm. do 2 (destruct r' as [|r']; [cbn in *; try lia|]). lia.
Qed.
