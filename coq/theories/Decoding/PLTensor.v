(* Per-row list versions of the tensor primitives used by rl4co/utils/decoding.py
   (index_put / scatter / gather / sort / count), with the facts the C10 proofs need.
   Pure list theory: no numbers here. *)
From Coq Require Import List Bool Arith Lia Permutation Sorted.
Import ListNotations.

Section Lists.
  Context {A : Type}.

  (* out-of-place write at one position (out of range: no-op, never used out of range) *)
  Fixpoint set_nth (i : nat) (v : A) (l : list A) : list A :=
    match l, i with
    | [], _ => []
    | _ :: r, O => v :: r
    | x :: r, S j => x :: set_nth j v r
    end.

  Lemma set_nth_length i v l : length (set_nth i v l) = length l.
  Proof. revert i. induction l as [|x l IH]; intros [|i]; simpl; auto. Qed.

  Lemma nth_set_nth_eq i v l d : i < length l -> nth i (set_nth i v l) d = v.
  Proof. revert i. induction l as [|x l IH]; intros [|i] H; simpl in *; try lia; auto. apply IH. lia. Qed.

  Lemma nth_set_nth_neq i j v l d : i <> j -> nth j (set_nth i v l) d = nth j l d.
  Proof.
    revert i j. induction l as [|x l IH]; intros [|i] [|j] H; simpl; try reflexivity; try lia.
    apply IH. lia.
  Qed.

  (* self.scatter(-1, idx, src): out[idx[j]] = src[j], other positions keep self *)
  Definition scatter (idx : list nat) (src self : list A) : list A :=
    fold_left (fun out ib => set_nth (fst ib) (snd ib) out) (combine idx src) self.

  Lemma scatter_length idx src self : length (scatter idx src self) = length self.
  Proof.
    unfold scatter. revert src self. induction idx as [|i idx IH]; intros [|b src] self; simpl; auto.
    rewrite IH. apply set_nth_length.
  Qed.

  Lemma scatter_notin idx src self i d : ~ In i idx -> nth i (scatter idx src self) d = nth i self d.
  Proof.
    unfold scatter. revert src self. induction idx as [|i0 idx IH]; intros [|b src] self H; simpl; auto.
    rewrite IH by (intros C; apply H; right; exact C).
    apply nth_set_nth_neq. intros ->. apply H. left. reflexivity.
  Qed.

  Lemma scatter_cons i idx b src self : scatter (i :: idx) (b :: src) self = scatter idx src (set_nth i b self).
  Proof. reflexivity. Qed.

  Lemma scatter_nodup_nth idx src self d j :
    NoDup idx -> (forall i, In i idx -> i < length self) -> length idx = length src -> j < length idx ->
    nth (nth j idx 0) (scatter idx src self) d = nth j src d.
  Proof.
    revert src self j. induction idx as [|i0 idx IH]; intros [|b src] self j Hnd Hlt Hlen Hj;
      cbn [length] in *; try lia.
    inversion Hnd as [|? ? Hni Hnd']; subst. rewrite scatter_cons.
    destruct j as [|j]; cbn [nth].
    - rewrite scatter_notin by exact Hni. apply nth_set_nth_eq. apply Hlt. left. reflexivity.
    - apply IH; try assumption; try lia.
      intros i Hi. rewrite set_nth_length. apply Hlt. right. exact Hi.
  Qed.

  (* gather: l[idx] *)
  Definition gather (d : A) (l : list A) (idx : list nat) : list A := map (fun i => nth i l d) idx.

  Lemma gather_length d l idx : length (gather d l idx) = length idx.
  Proof. apply map_length. Qed.

  Lemma map_nth_seq (l : list A) d : map (fun i => nth i l d) (seq 0 (length l)) = l.
  Proof.
    apply (nth_ext _ _ d d).
    - rewrite map_length, seq_length. reflexivity.
    - intros n Hn. rewrite map_length, seq_length in Hn.
      rewrite (nth_indep _ d (nth 0 l d)) by (rewrite map_length, seq_length; exact Hn).
      change (nth 0 l d) with ((fun i => nth i l d) 0). rewrite map_nth. rewrite seq_nth by exact Hn. reflexivity.
  Qed.

  (* counting *)
  Fixpoint count (P : A -> bool) (l : list A) : nat :=
    match l with [] => 0 | x :: r => (if P x then 1 else 0) + count P r end.

  Lemma count_le_length P l : count P l <= length l.
  Proof. induction l as [|x l IH]; simpl; [lia | destruct (P x); lia]. Qed.

  Lemma count_perm P l l' : Permutation l l' -> count P l = count P l'.
  Proof. induction 1; simpl; try lia. Qed.

  Lemma count_mono (P Q : A -> bool) l : (forall x, In x l -> P x = true -> Q x = true) -> count P l <= count Q l.
  Proof.
    induction l as [|x l IH]; intros H; simpl; [lia|].
    assert (count P l <= count Q l) by (apply IH; intros y Hy; apply H; right; exact Hy).
    destruct (P x) eqn:E; [rewrite (H x (or_introl eq_refl) E); lia | destruct (Q x); lia].
  Qed.

  Lemma count_ext (P Q : A -> bool) l : (forall x, In x l -> P x = Q x) -> count P l = count Q l.
  Proof.
    induction l as [|x l IH]; intros H; simpl; [reflexivity|].
    rewrite (H x (or_introl eq_refl)). rewrite IH; [reflexivity|]. intros y Hy. apply H. right. exact Hy.
  Qed.

  Lemma count_split (P Q R : A -> bool) l :
    (forall x, P x = Q x || R x) -> (forall x, Q x && R x = false) -> count P l = count Q l + count R l.
  Proof.
    intros H1 H2. induction l as [|x l IH]; simpl; [reflexivity|].
    rewrite IH. specialize (H1 x). specialize (H2 x). destruct (P x), (Q x), (R x); simpl in *; try discriminate; lia.
  Qed.

  Lemma count_pos_exists P l : 0 < count P l -> exists x, In x l /\ P x = true.
  Proof.
    induction l as [|x l IH]; simpl; [lia|]. destruct (P x) eqn:E.
    - intros _. exists x. auto.
    - intros H. destruct (IH H) as (y & Hy & Py). exists y. auto.
  Qed.

  Lemma count_exists_pos P l x : In x l -> P x = true -> 0 < count P l.
  Proof.
    induction l as [|y l IH]; simpl; [tauto|]. intros [->|H] Px.
    - rewrite Px. lia.
    - specialize (IH H Px). lia.
  Qed.

  Lemma count_all P l : (forall x, In x l -> P x = true) -> count P l = length l.
  Proof.
    induction l as [|x l IH]; intros H; simpl; [reflexivity|].
    rewrite (H x (or_introl eq_refl)). rewrite IH; [reflexivity|]. intros y Hy. apply H. right. exact Hy.
  Qed.

  Lemma count_none P l : (forall x, In x l -> P x = false) -> count P l = 0.
  Proof.
    induction l as [|x l IH]; intros H; simpl; [reflexivity|].
    rewrite (H x (or_introl eq_refl)). rewrite IH; [reflexivity|]. intros y Hy. apply H. right. exact Hy.
  Qed.
End Lists.

Lemma count_map {A B} (f : A -> B) (P : B -> bool) l : count P (map f l) = count (fun x => P (f x)) l.
Proof. induction l as [|x l IH]; simpl; [reflexivity | rewrite IH; reflexivity]. Qed.


Lemma nth_map_in {A B} (f : A -> B) (l : list A) i d d' : i < length l -> nth i (map f l) d' = f (nth i l d).
Proof. intros H. rewrite (nth_indep _ d' (f d)) by (rewrite map_length; exact H). apply map_nth. Qed.

Lemma last_nth {A} (l : list A) d : last l d = nth (length l - 1) l d.
Proof.
  induction l as [|x l IH]; [reflexivity|]. destruct l as [|y l]; [reflexivity|].
  change (last (x :: y :: l) d) with (last (y :: l) d). rewrite IH. cbn [length].
  replace (S (S (length l)) - 1) with (S (length l)) by lia. cbn [nth].
  replace (S (length l) - 1) with (length l) by lia. reflexivity.
Qed.


Lemma nth_map_fix {A} (f : A -> A) (l : list A) i d : f d = d -> nth i (map f l) d = f (nth i l d).
Proof. intros H. rewrite <- H at 1. apply map_nth. Qed.

(* at most one element satisfies P when any two positions satisfying it coincide *)
Lemma count_le_1 {A} (P : A -> bool) (l : list A) d :
  (forall i j, i < length l -> j < length l -> P (nth i l d) = true -> P (nth j l d) = true -> i = j) -> count P l <= 1.
Proof.
  induction l as [|x l IH]; intros H; simpl; [lia|].
  destruct (P x) eqn:E.
  - rewrite count_none; [lia|]. intros y Hy. destruct (P y) eqn:Ey; [|reflexivity].
    apply (In_nth _ _ d) in Hy as (j & Hj & <-).
    specialize (H 0 (S j) ltac:(simpl; lia) ltac:(simpl; lia) E Ey). discriminate.
  - simpl. apply IH. intros i j Hi Hj Pi Pj.
    specialize (H (S i) (S j) ltac:(simpl; lia) ltac:(simpl; lia) Pi Pj). lia.
Qed.

Lemma count_lt_length {A} (P : A -> bool) (l : list A) x : In x l -> P x = false -> count P l < length l.
Proof.
  induction l as [|y l IH]; simpl; [tauto|]. intros [->|H] Px.
  - rewrite Px. pose proof (count_le_length P l). lia.
  - specialize (IH H Px). destruct (P y); lia.
Qed.

(* two-list map as in Base/OField.v: positions *)
From RL4CO Require Import Base.OField.

Lemma map2_length {A B C} (f : A -> B -> C) a b : length (map2 f a b) = Nat.min (length a) (length b).
Proof. revert b. induction a as [|x a IH]; intros [|y b]; simpl; auto. Qed.

Lemma nth_map2 {A B C} (f : A -> B -> C) a b i da db dc :
  i < length a -> i < length b -> nth i (map2 f a b) dc = f (nth i a da) (nth i b db).
Proof.
  revert b i. induction a as [|x a IH]; intros [|y b] [|i] Ha Hb; simpl in *; try lia; auto.
  apply IH; lia.
Qed.

(* ---------------------------------------------------------------- stable insertion sort *)
Section Sort.
  Variable A : Type.
  Variable leb : A -> A -> bool.

  Fixpoint insert (x : A) (s : list A) : list A :=
    match s with
    | [] => [x]
    | y :: r => if leb x y then x :: y :: r else y :: insert x r
    end.
  Definition isort (l : list A) : list A := fold_right insert [] l.

  Lemma insert_perm x s : Permutation (insert x s) (x :: s).
  Proof.
    induction s as [|y r IH]; simpl; [apply Permutation_refl|].
    destruct (leb x y); [apply Permutation_refl|].
    eapply perm_trans; [apply perm_skip; exact IH | apply perm_swap].
  Qed.

  Lemma isort_perm l : Permutation (isort l) l.
  Proof.
    induction l as [|x l IH]; simpl; [apply Permutation_refl|].
    eapply perm_trans; [apply insert_perm | apply perm_skip; exact IH].
  Qed.

  Lemma isort_length l : length (isort l) = length l.
  Proof. apply Permutation_length. apply isort_perm. Qed.

  Hypothesis leb_total : forall x y, leb x y = true \/ leb y x = true.
  Hypothesis leb_trans : forall x y z, leb x y = true -> leb y z = true -> leb x z = true.

  Definition lebP (a b : A) : Prop := leb a b = true.

  Lemma leb_refl x : leb x x = true.
  Proof. destruct (leb_total x x); assumption. Qed.

  Lemma insert_sorted x s : StronglySorted lebP s -> StronglySorted lebP (insert x s).
  Proof.
    induction 1 as [|y r Hs IH Hall]; simpl.
    - constructor; constructor.
    - destruct (leb x y) eqn:E.
      + constructor; [constructor; assumption|]. constructor; [exact E|].
        eapply Forall_impl; [|exact Hall]. intros z Hz. eapply leb_trans; eassumption.
      + constructor; [exact IH|].
        assert (Hyx : lebP y x) by (destruct (leb_total x y) as [C|C]; [congruence | exact C]).
        eapply Permutation_Forall; [apply Permutation_sym; apply insert_perm|].
        constructor; assumption.
  Qed.

  Lemma isort_sorted l : StronglySorted lebP (isort l).
  Proof. induction l as [|x l IH]; simpl; [constructor | apply insert_sorted; exact IH]. Qed.

  (* in a sorted list the last element dominates *)
  Lemma last_in (s : list A) d : s <> [] -> In (last s d) s.
  Proof.
    induction s as [|y r IH]; intros H; [congruence|].
    destruct r as [|z r']; [left; reflexivity|].
    right. apply IH. discriminate.
  Qed.

  Lemma sorted_last s d x : StronglySorted lebP s -> In x s -> lebP x (last s d).
  Proof.
    induction 1 as [|y r Hs IH Hall]; intros Hx; [destruct Hx|].
    destruct r as [|z r'].
    - destruct Hx as [->|[]]. simpl. apply leb_refl.
    - change (last (y :: z :: r') d) with (last (z :: r') d).
      destruct Hx as [->|Hx]; [|apply IH; exact Hx].
      rewrite Forall_forall in Hall. apply Hall. apply last_in. discriminate.
  Qed.

  (* rank facts: in a sorted list at most t elements come strictly before position t,
     and at least t+1 elements come before-or-level with it *)
  Lemma sorted_count_before s d t :
    StronglySorted lebP s -> t < length s -> count (fun x => negb (leb (nth t s d) x)) s <= t.
  Proof.
    intros Hs. revert t. induction Hs as [|y r Hs IH Hall]; intros t Ht; simpl in Ht; [lia|].
    destruct t as [|t].
    - cbn [nth count]. rewrite leb_refl. cbn [negb].
      rewrite count_none; [lia|]. intros x Hx. rewrite Forall_forall in Hall.
      rewrite (Hall x Hx). reflexivity.
    - cbn [nth count]. specialize (IH t ltac:(lia)). destruct (negb (leb (nth t r d) y)); lia.
  Qed.

  Lemma sorted_count_upto s d t :
    StronglySorted lebP s -> t < length s -> t + 1 <= count (fun x => leb x (nth t s d)) s.
  Proof.
    intros Hs. revert t. induction Hs as [|y r Hs IH Hall]; intros t Ht; simpl in Ht; [lia|].
    destruct t as [|t].
    - cbn [nth count]. rewrite leb_refl. lia.
    - cbn [nth count]. specialize (IH t ltac:(lia)).
      rewrite Forall_forall in Hall. rewrite (Hall (nth t r d)) by (apply nth_In; lia). lia.
  Qed.
End Sort.

Arguments insert {A}. Arguments isort {A}.

(* sorting commutes with a map that preserves the comparison *)
Lemma insert_map {A B} (lebA : A -> A -> bool) (lebB : B -> B -> bool) (f : A -> B) x s :
  (forall a b, lebB (f a) (f b) = lebA a b) -> insert lebB (f x) (map f s) = map f (insert lebA x s).
Proof.
  intros H. induction s as [|y r IH]; simpl; [reflexivity|].
  rewrite H. destruct (lebA x y); simpl; [reflexivity | rewrite IH; reflexivity].
Qed.

Lemma isort_map {A B} (lebA : A -> A -> bool) (lebB : B -> B -> bool) (f : A -> B) l :
  (forall a b, lebB (f a) (f b) = lebA a b) -> isort lebB (map f l) = map f (isort lebA l).
Proof.
  intros H. induction l as [|x l IH]; simpl; [reflexivity|].
  rewrite IH. apply insert_map. exact H.
Qed.

Lemma insert_ext {A} (leb1 leb2 : A -> A -> bool) x s : (forall a b, leb1 a b = leb2 a b) -> insert leb1 x s = insert leb2 x s.
Proof. intros H. induction s as [|y r IH]; simpl; [reflexivity|]. rewrite H, IH. reflexivity. Qed.

Lemma isort_ext {A} (leb1 leb2 : A -> A -> bool) l : (forall a b, leb1 a b = leb2 a b) -> isort leb1 l = isort leb2 l.
Proof. intros H. induction l as [|x l IH]; simpl; [reflexivity|]. rewrite IH. apply insert_ext. exact H. Qed.
