(* C16, tie 1.2: the dual-number definitions regenerated from /repo's source on every run (Gen/GenC16.v, by
   translator/ext_c16.py) are proved equal to the hand models the C16 theorems are stated about.  Because the
   translation is at the dual-number level, a removed / added .detach(), a changed sign, a mean over another
   axis or a different baseline formula in the source makes one of these lemmas fail. *)
From Coq Require Import List Arith Bool Ring Field.
From RL4CO Require Import Base.OField Base.OFieldExtraC16 Train.Dual Train.Loss Train.LossShared Gen.GenC16.
Import ListNotations.

Section GenEqC16.
  Variable K : ofield.
  Variable TM : tmod K.
  Open Scope of_scope.
  Notation D := (dual K TM).

  (* NoBaseline.eval *)
  Lemma no_eval_gen_eq :
    (BScalar (fst (gen16_no_eval K TM)), snd (gen16_no_eval K TM)) = no_eval.
  Proof. reflexivity. Qed.

  (* SharedBaseline.eval on a [B,S] reward *)
  Lemma shared_eval_gen_eq (R : list (list D)) : gen16_shared_eval K TM R = shared_eval R.
  Proof. reflexivity. Qed.

  (* ExponentialBaseline.eval (MeanBaseline = beta 0), including self.v = v.detach() *)
  Lemma ema_eval_d_gen_eq (beta : K) (st : option K) (reward : list D) :
    (let '(st', v, l) := gen16_ema_eval K TM beta st reward in (st', (BScalar v, l))) = ema_eval_d beta st reward.
  Proof. destruct st; reflexivity. Qed.

  (* CriticBaseline.eval: v.detach(), F.mse_loss(v, c.detach()) *)
  Lemma critic_eval_gen_eq (v c : list D) :
    (let '(b, l) := gen16_critic_eval K TM v c in (BRows b, l)) = critic_eval v c.
  Proof. reflexivity. Qed.

  (* symnco losses on a 2-D tensor (the groups along the reduced axis are the rows) *)
  Lemma sym_core_eq (R L : list (list D)) :
    dmean (concat (map2 (map2 dmul) (map (map dopp) (map2 (fun g m => map (fun r => dsub r m) g) R (map dmean R))) L)) =
    sym_loss2 R L.
  Proof.
    unfold sym_loss2. f_equal. f_equal.
    revert L. induction R as [|g R IH]; intros [|l L]; try reflexivity.
    cbn [map map2]. rewrite IH. f_equal. unfold group_adv.
    generalize (dmean g). intros m. revert l. induction g as [|r g IHg]; intros [|x l]; try reflexivity.
    cbn [map map2]. rewrite IHg. reflexivity.
  Qed.

  Lemma ps_loss_gen_eq (R L : list (list D)) :
    gen16_ps_loss K TM R L = sym_guard (length (hd [] R)) (sym_loss2 R L).
  Proof. unfold gen16_ps_loss, sym_guard. cbv zeta. rewrite sym_core_eq. reflexivity. Qed.

  Lemma ss_loss_gen_eq (R L : list (list D)) :
    gen16_ss_loss K TM R L = sym_guard (length (hd [] R)) (sym_loss2 R L).
  Proof. unfold gen16_ss_loss, sym_guard. cbv zeta. rewrite sym_core_eq. reflexivity. Qed.

  (* REINFORCE.calculate_loss *)
  Lemma calculate_loss_gen_eq (sc : scaler K) (bl : blval K TM) (bll : D) (extra : option (list D)) (reward ll : list D) :
    gen16_calculate_loss K TM sc bl bll extra reward ll =
      (let o := calculate_loss sc reward ll extra (bl, bll) in (lo_loss o, lo_reinforce o, lo_bl_loss o, lo_bl_val o)).
  Proof. destruct extra; reflexivity. Qed.

  (* consequences stated about the code as translated on this run *)
  Theorem gen_calculate_loss_value (bl : blval K TM) (bll : D) (extra : option (list D)) (reward ll : list D) :
    let b := the_bl extra (bl, bll) in
    dv (fst (fst (fst (gen16_calculate_loss K TM SNone bl bll extra reward ll)))) =
      ref_surrogate (map dv reward) (map dv (bl_rows (length reward) (fst b))) (map dv ll) (dv (snd b)).
  Proof. cbv zeta. rewrite calculate_loss_gen_eq. cbv zeta. cbn [fst]. apply calculate_loss_value. Qed.

  Theorem gen_calculate_loss_grad (bl : blval K TM) (bll : D) (extra : option (list D)) (reward ll : list D) :
    let b := the_bl extra (bl, bll) in
    Forall is_const reward -> bl_const (fst b) ->
    dt (fst (fst (fst (gen16_calculate_loss K TM SNone bl bll extra reward ll)))) =
      ref_grad (map dv reward) (map dv (bl_rows (length reward) (fst b))) (map dt ll) (dt (snd b)).
  Proof. cbv zeta. intros Hr Hb. rewrite calculate_loss_gen_eq. cbv zeta. cbn [fst]. apply calculate_loss_grad; assumption. Qed.

  Theorem gen_sym_loss_value (R L : list (list D)) :
    wf2 R L -> 2 <= length (hd [] R) ->
    dv (gen16_ps_loss K TM R L) =
      ref_surrogate (concat (map (map dv) R)) (shared_bl_vals (map (map dv) R)) (concat (map (map dv) L)) f0 /\
    gen16_ss_loss K TM R L = gen16_ps_loss K TM R L.
  Proof.
    intros Hwf Hn. rewrite ps_loss_gen_eq, ss_loss_gen_eq. split; [|reflexivity].
    unfold sym_guard. replace (Nat.ltb (length (hd [] R)) 2) with false by (symmetry; apply Nat.ltb_ge; exact Hn).
    apply sym_loss2_value. exact Hwf.
  Qed.
End GenEqC16.
