(* C16, PPO: the loss arithmetic of PPO.shared_step (one mini-batch of the inner loop) as coded.
   exp is the abstract [e] (derivative e), sqrt (only inside the optional advantage normalisation, applied
   to constants) the abstract [sq].  Not modelled: the DataLoader that forms the mini-batches, the
   optimiser step, gradient clipping. *)
From Coq Require Import List Arith Bool Lia Ring Field.
From RL4CO Require Import Base.OField Base.OFieldExtraC16 Train.Welford Train.Dual Train.Loss.
Import ListNotations.

Section PPO.
  Variable K : ofield.
  Variable TM : tmod K.
  Variable e : K -> K.
  Variable sq : K -> K.
  Open Scope of_scope.
  Add Field Kf_p : (Fth K).
  Notation D := (dual K TM).

  Record ppo_cfg := { clip_range : K; vf_lambda : K; entropy_lambda : K; normalize_adv : bool; adv_eps : K }.

  (* ratio = torch.exp(ll.sum(dim=-1) - sub_td["logprobs"]).view(-1, 1);  logprobs were computed under no_grad *)
  Definition ppo_ratio (lls : list D) (old : K) : D := dexp e (dsub (dsum lls) (dconst old)).
  (* adv = previous_reward - value_pred.detach() *)
  Definition ppo_adv_raw (rew : K) (vp : D) : D := dsub (dconst rew) (detach vp).
  (* if normalize_adv: adv = (adv - adv.mean()) / (adv.std() + 1e-8)   (unbiased std) *)
  Definition std_unbiased (xs : list K) : K := sq (ssd xs (fmean xs) / (of_nat (length xs) - f1)).
  Definition ppo_normalize (cfg : ppo_cfg) (adv : list D) : list D :=
    if normalize_adv cfg
    then let m := dmean adv in
         let s := std_unbiased (map dv adv) + adv_eps cfg in
         map (fun a => ddivc (dsub a m) s) adv
    else adv.
  (* torch.min(ratio * adv, torch.clamp(ratio, 1 - clip, 1 + clip) * adv) *)
  Definition ppo_surr (cfg : ppo_cfg) (ratio adv : D) : D :=
    dmin (dmul ratio adv)
         (dmul (dclamp ratio (of_nat 1 - clip_range cfg) (of_nat 1 + clip_range cfg)) adv).

  Record ppo_out := { po_loss : D; po_surrogate : D; po_value : D; po_entropy : D; po_adv : list D }.

  Definition ppo_loss (cfg : ppo_cfg) (lls : list (list D)) (old rew : list K) (vpred ent : list D) : ppo_out :=
    let ratio := map2 ppo_ratio lls old in
    let adv := ppo_normalize cfg (map2 ppo_adv_raw rew vpred) in
    let surrogate_loss := dopp (dmean (map2 (ppo_surr cfg) ratio adv)) in
    (* value_loss = F.huber_loss(value_pred, previous_reward) *)
    let value_loss := dmean (map2 (fun v r => dhuber (dsub v (dconst r))) vpred rew) in
    let entropy := dmean ent in
    (* loss = surrogate_loss + vf_lambda * value_loss - entropy_lambda * entropy.mean() *)
    {| po_loss := dsub (dadd surrogate_loss (dscale (vf_lambda cfg) value_loss)) (dscale (entropy_lambda cfg) entropy);
       po_surrogate := surrogate_loss; po_value := value_loss; po_entropy := entropy; po_adv := adv |}.

  (* ---------------------------------------------------------------- reference (values only) *)
  Definition ref_ratio (lls : list K) (old : K) : K := e (fsum lls - old).
  Definition ref_adv (cfg : ppo_cfg) (rew v : list K) : list K :=
    let a := map2 fsub rew v in
    if normalize_adv cfg
    then map (fun x => (x - fmean a) / (std_unbiased a + adv_eps cfg)) a
    else a.
  Definition ref_clipped (cfg : ppo_cfg) (rho A : K) : K :=
    fmin (rho * A) (fclamp rho (f1 - clip_range cfg) (f1 + clip_range cfg) * A).
  Definition ref_ppo (cfg : ppo_cfg) (lls : list (list K)) (old rew v ent : list K) : K :=
    - fmean (map2 (ref_clipped cfg) (map2 ref_ratio lls old) (ref_adv cfg rew v))
    + vf_lambda cfg * fmean (map2 (fun x r => fhuber (x - r)) v rew)
    - entropy_lambda cfg * fmean ent.

  (* ---------------------------------------------------------------- advantage: constant *)
  Lemma adv_raw_const rew vpred : Forall is_const (map2 ppo_adv_raw rew vpred).
  Proof.
    revert vpred. induction rew as [|r rew IH]; intros [|v vpred]; try constructor; [|apply IH].
    unfold ppo_adv_raw. apply dsub_const; reflexivity.
  Qed.

  Lemma ppo_adv_const cfg rew vpred : Forall is_const (ppo_normalize cfg (map2 ppo_adv_raw rew vpred)).
  Proof.
    unfold ppo_normalize. pose proof (adv_raw_const rew vpred) as H. destruct (normalize_adv cfg); [|exact H].
    apply Forall_forall. intros x Hx. apply in_map_iff in Hx as (a & <- & Ha).
    apply ddivc_const. apply dsub_const; [|apply dmean_const; exact H].
    rewrite Forall_forall in H. apply H. exact Ha.
  Qed.

  Lemma adv_raw_values rew vpred : map dv (map2 ppo_adv_raw rew vpred) = map2 fsub rew (map dv vpred).
  Proof. revert vpred. induction rew as [|r rew IH]; intros [|v vpred]; try reflexivity. cbn [map2 map]. rewrite IH. reflexivity. Qed.

  Lemma ppo_adv_values cfg rew vpred :
    map dv (po_adv (ppo_loss cfg [] [] rew vpred [])) = ref_adv cfg rew (map dv vpred).
  Proof.
    cbn [ppo_loss po_adv]. unfold ppo_normalize, ref_adv. rewrite <- adv_raw_values.
    destruct (normalize_adv cfg); [|reflexivity].
    rewrite !map_map. apply map_ext. intros a. cbn [ddivc dsub dv]. rewrite dv_dmean. reflexivity.
  Qed.

  Lemma po_adv_indep cfg lls old rew vpred ent :
    po_adv (ppo_loss cfg lls old rew vpred ent) = po_adv (ppo_loss cfg [] [] rew vpred []).
  Proof. reflexivity. Qed.

  (* ---------------------------------------------------------------- ppo_value *)
  Lemma ratio_values lls old :
    map dv (map2 ppo_ratio lls old) = map2 ref_ratio (map (map dv) lls) old.
  Proof.
    revert old. induction lls as [|l lls IH]; intros [|o old]; try reflexivity.
    cbn [map2 map]. rewrite IH. f_equal. unfold ppo_ratio, ref_ratio. cbn [dexp dv dsub dconst]. rewrite dv_dsum. reflexivity.
  Qed.

  Lemma surr_value cfg rho A : dv (ppo_surr cfg rho A) = ref_clipped cfg (dv rho) (dv A).
  Proof. unfold ppo_surr, ref_clipped. rewrite dv_dmin. cbn [dmul dv dclamp of_nat]. f_equal; f_equal; f_equal; ring. Qed.

  Theorem ppo_value (cfg : ppo_cfg) (lls : list (list D)) (old rew : list K) (vpred ent : list D) :
    dv (po_loss (ppo_loss cfg lls old rew vpred ent)) =
      ref_ppo cfg (map (map dv) lls) old rew (map dv vpred) (map dv ent).
  Proof.
    unfold ref_ppo. rewrite <- ppo_adv_values, <- ratio_values.
    cbn [ppo_loss po_loss po_adv dsub dadd dscale dopp dv]. rewrite !dv_dmean.
    rewrite (map_dv_map2 K TM (ppo_surr cfg) (ref_clipped cfg)) by (apply surr_value).
    assert (E : map dv (map2 (fun v r => dhuber (dsub v (dconst r))) vpred rew) =
                map2 (fun x r => fhuber (x - r)) (map dv vpred) rew).
    { rewrite map_map2, map2_map_l. apply map2_ext_in. intros v r _ _. rewrite dv_dhuber. reflexivity. }
    rewrite E. reflexivity.
  Qed.

  (* ---------------------------------------------------------------- ppo_grad_at_ratio_one *)
  (* at the first inner step the re-evaluated log-likelihood equals the stored one: ratio = e(0) = 1, which lies
     strictly inside the clip range, so both arguments of the min are the same dual number (the tie convention
     is irrelevant) and the surrogate's tangent is the REINFORCE tangent with the same advantage *)
  Hypothesis e_0 : e f0 = f1.

  Lemma ratio_at_one (lls : list D) (old : K) :
    fsum (map dv lls) = old -> ppo_ratio lls old = mkD f1 (tsum (map dt lls)).
  Proof.
    intros H. unfold ppo_ratio, dexp. cbn [dsub dconst dv dt]. rewrite dv_dsum, dt_dsum, H.
    replace (old - old) with (f0 : K) by ring. rewrite e_0, topp_0, tadd_0_r, tscale_1. reflexivity.
  Qed.

  Lemma surr_at_one cfg (t : TM) (A : D) :
    flt f0 (clip_range cfg) -> is_const A ->
    ppo_surr cfg (mkD f1 t) A = mkD (dv A) (tscale (dv A) t).
  Proof.
    intros Heps HA. unfold ppo_surr. destruct (clip_inside K _ Heps) as [H1 H2].
    rewrite dclamp_inside.
    - rewrite dmin_same. unfold dmul. cbn [dv dt]. unfold is_const in HA. rewrite HA, tscale_0_r, tadd_0_l.
      f_equal. ring.
    - cbn [dv of_nat]. replace (f0 + f1 - clip_range cfg) with (f1 - clip_range cfg) by ring. exact H1.
    - cbn [dv of_nat]. replace (f0 + f1 + clip_range cfg) with (f1 + clip_range cfg) by ring. exact H2.
  Qed.

  Theorem ppo_grad_at_ratio_one (cfg : ppo_cfg) (lls : list (list D)) (old rew : list K) (vpred ent : list D) :
    flt f0 (clip_range cfg) ->
    Forall2 (fun l o => fsum (map dv l) = o) lls old ->
    let o := ppo_loss cfg lls old rew vpred ent in
    dt (po_surrogate o) = ref_pg_grad (map dv (po_adv o)) (map (fun l => dt (dsum l)) lls) /\
    dv (po_surrogate o) = ref_pg (map dv (po_adv o)) (map (fun _ => f1) lls).
  Proof.
    intros Heps Hone. cbv zeta. cbn [ppo_loss po_surrogate po_adv].
    pose proof (ppo_adv_const cfg rew vpred) as Hc.
    set (adv := ppo_normalize cfg (map2 ppo_adv_raw rew vpred)) in *. clearbody adv.
    assert (E : map2 (ppo_surr cfg) (map2 ppo_ratio lls old) adv =
                map2 dmul adv (map (fun l => mkD f1 (dt (dsum l))) lls)).
    { revert adv Hc. induction Hone as [|l o lls old Hlo _ IH]; intros [|A adv] Hc; try reflexivity.
      inversion_clear Hc as [|? ? HA Hc']. cbn [map2 map]. rewrite IH by exact Hc'. f_equal.
      rewrite ratio_at_one by exact Hlo. rewrite surr_at_one by assumption.
      unfold dmul. cbn [dv dt]. unfold is_const in HA. rewrite HA, tscale_0_r, tadd_0_r, dt_dsum. f_equal. ring. }
    rewrite E. split.
    - rewrite pg_tangent_const by exact Hc. rewrite map_map. reflexivity.
    - rewrite pg_value. rewrite map_map. reflexivity.
  Qed.
End PPO.

Arguments clip_range {K}. Arguments vf_lambda {K}. Arguments entropy_lambda {K}. Arguments normalize_adv {K}.
Arguments adv_eps {K}. Arguments ppo_ratio {K TM}. Arguments ppo_adv_raw {K TM}. Arguments ppo_normalize {K TM}.
Arguments ppo_surr {K TM}. Arguments ppo_loss {K TM}. Arguments po_loss {K TM}. Arguments po_surrogate {K TM}.
Arguments po_value {K TM}. Arguments po_entropy {K TM}. Arguments po_adv {K TM}.
Arguments ref_ratio {K}. Arguments ref_adv {K}. Arguments ref_clipped {K}. Arguments ref_ppo {K}. Arguments std_unbiased {K}.
