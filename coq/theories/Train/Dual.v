(* C16: forward-mode dual numbers over the abstract ordered field, w.r.t. a finite list of formal
   params of the networks.  A dual number is a value together with a tangent (the vector of partial
   derivatives w.r.t. the formal params).  Tangents live in a [tmod] (a semimodule over K: zero, sum,
   scaling by field elements), instantiated by K itself (one formal param) and by finite lists over K
   (any number of formal params; a missing trailing entry reads as zero).

   [detach] zeroes the tangent.  min / max / clamp follow the sub-gradient conventions of the torch
   build the correspondence runs against (binary min/max: the selected argument, ties split evenly;
   clamp: pass-through strictly inside the range, zero elsewhere); theorems that depend on a convention
   say at which points they hold.  exp is an abstract function [e] whose derivative is [e] itself.

   Not modelled: autograd (that torch's .grad equals these tangents is what the correspondence checks). *)
From Coq Require Import List Arith Bool Lia Ring Field.
From RL4CO Require Import Base.OField Base.OFieldExtraC16.
Import ListNotations.

Record tmod (K : ofield) := {
  tcar :> Type;
  t0 : tcar;
  tadd : tcar -> tcar -> tcar;
  tscale : K -> tcar -> tcar;
  tadd_comm : forall u v, tadd u v = tadd v u;
  tadd_assoc : forall u v w, tadd u (tadd v w) = tadd (tadd u v) w;
  tadd_0_l : forall u, tadd t0 u = u;
  tscale_add_r : forall a u v, tscale a (tadd u v) = tadd (tscale a u) (tscale a v);
  tscale_add_l : forall a b u, tscale (fadd a b) u = tadd (tscale a u) (tscale b u);
  tscale_mul : forall a b u, tscale (fmul a b) u = tscale a (tscale b u);
  tscale_1 : forall u, tscale f1 u = u;
  tscale_0_r : forall a, tscale a t0 = t0;
}.
Arguments t0 {K t}. Arguments tadd {K t}. Arguments tscale {K t}.

Fixpoint map3 {A B C D} (f : A -> B -> C -> D) (a : list A) (b : list B) (c : list C) : list D :=
  match a, b, c with x :: a', y :: b', z :: c' => f x y z :: map3 f a' b' c' | _, _, _ => [] end.

Section Dual.
  Variable K : ofield.
  Variable TM : tmod K.
  Open Scope of_scope.
  Add Field Kf_d : (Fth K).

  Record dual := mkD { dv : K; dt : TM }.

  Definition topp (u : TM) : TM := tscale (- f1) u.
  Definition tsum (l : list TM) : TM := fold_right tadd t0 l.
  Definition tmean (l : list TM) : TM := tscale (f1 / of_nat (length l)) (tsum l).

  Definition dconst (c : K) : dual := mkD c t0.
  Definition detach (x : dual) : dual := mkD (dv x) t0.
  Definition dadd (x y : dual) : dual := mkD (dv x + dv y) (tadd (dt x) (dt y)).
  Definition dopp (x : dual) : dual := mkD (- dv x) (topp (dt x)).
  Definition dsub (x y : dual) : dual := mkD (dv x - dv y) (tadd (dt x) (topp (dt y))).
  Definition dmul (x y : dual) : dual :=
    mkD (dv x * dv y) (tadd (tscale (dv x) (dt y)) (tscale (dv y) (dt x))).
  Definition ddiv (x y : dual) : dual :=
    mkD (dv x / dv y) (tadd (tscale (f1 / dv y) (dt x)) (tscale (- (dv x / (dv y * dv y))) (dt y))).
  (* python number times tensor / tensor divided by a python number *)
  Definition dscale (c : K) (x : dual) : dual := mkD (c * dv x) (tscale c (dt x)).
  Definition ddivc (x : dual) (c : K) : dual := mkD (dv x / c) (tscale (f1 / c) (dt x)).

  Definition dsum (l : list dual) : dual := fold_right dadd (dconst f0) l.
  Definition dmean (l : list dual) : dual := ddivc (dsum l) (of_nat (length l)).

  (* binary torch.min / torch.max (elementwise): gradient to the selected argument, split evenly at a tie *)
  Definition dmin (x y : dual) : dual :=
    if fltb (dv x) (dv y) then x else if fltb (dv y) (dv x) then y
    else mkD (dv x) (tscale fhalf (tadd (dt x) (dt y))).
  Definition dmax (x y : dual) : dual :=
    if fltb (dv y) (dv x) then x else if fltb (dv x) (dv y) then y
    else mkD (dv x) (tscale fhalf (tadd (dt x) (dt y))).
  (* torch.clamp(x, lo, hi) with python-number bounds: value min(max(x,lo),hi); gradient passes strictly inside *)
  Definition dclamp (x : dual) (lo hi : K) : dual :=
    mkD (fclamp (dv x) lo hi) (if fltb lo (dv x) && fltb (dv x) hi then dt x else t0).
  (* one element of F.huber_loss(delta = 1) applied to d = input - target (C^1, no tie convention involved) *)
  Definition dhuber (d : dual) : dual :=
    if fltb (fabs (dv d)) f1 then dscale fhalf (dmul d d)
    else if f0 <=? dv d then dsub d (dconst fhalf) else dsub (dopp d) (dconst fhalf).
  (* F.mse_loss(a, b) with mean reduction *)
  Definition dmse (a b : list dual) : dual :=
    dmean (map2 (fun x y => let d := dsub x y in dmul d d) a b).

  Definition is_const (x : dual) : Prop := dt x = t0.

  (* ------------------------------------------------------------ tangent-space lemmas *)
  Lemma tadd_0_r (u : TM) : tadd u t0 = u.
  Proof. rewrite tadd_comm. apply tadd_0_l. Qed.

  Lemma topp_0 : topp t0 = t0.
  Proof. apply tscale_0_r. Qed.

  Lemma tsum_app (a b : list TM) : tsum (a ++ b) = tadd (tsum a) (tsum b).
  Proof.
    induction a as [|x a IH]; cbn [app tsum fold_right]; [symmetry; apply tadd_0_l|].
    fold (tsum (a ++ b)). fold (tsum a). rewrite IH. apply tadd_assoc.
  Qed.

  Lemma tscale_tsum (c : K) (l : list TM) : tscale c (tsum l) = tsum (map (tscale c) l).
  Proof.
    induction l as [|x l IH]; cbn [tsum fold_right map]; [apply tscale_0_r|].
    fold (tsum l). fold (tsum (map (tscale c) l)). rewrite tscale_add_r, IH. reflexivity.
  Qed.

  Lemma tsum_all_0 (l : list TM) : Forall (fun u => u = t0) l -> tsum l = t0.
  Proof.
    induction 1 as [|x l Hx _ IH]; [reflexivity|]. cbn [tsum fold_right]. fold (tsum l).
    rewrite Hx, IH. apply tadd_0_l.
  Qed.

  Lemma tsum_concat (ls : list (list TM)) : tsum (concat ls) = tsum (map tsum ls).
  Proof.
    induction ls as [|l ls IH]; [reflexivity|]. cbn [concat map]. rewrite tsum_app, IH. reflexivity.
  Qed.

  Lemma tscale_half_double (u : TM) : tscale fhalf (tadd u u) = u.
  Proof. rewrite tscale_add_r, <- tscale_add_l, fhalf_double. apply tscale_1. Qed.

  (* ------------------------------------------------------------ value / tangent of sums and means *)
  Lemma dv_dsum (l : list dual) : dv (dsum l) = fsum (map dv l).
  Proof. induction l as [|x l IH]; [reflexivity|]. cbn [dsum fold_right dadd dv map fsum]. fold (dsum l). rewrite IH. reflexivity. Qed.

  Lemma dt_dsum (l : list dual) : dt (dsum l) = tsum (map dt l).
  Proof. induction l as [|x l IH]; [reflexivity|]. cbn [dsum fold_right dadd dt map tsum]. fold (dsum l). fold (tsum (map dt l)). rewrite IH. reflexivity. Qed.

  Lemma dv_dmean (l : list dual) : dv (dmean l) = fmean (map dv l).
  Proof. unfold dmean, ddivc, fmean. cbn [dv]. rewrite dv_dsum, map_length. reflexivity. Qed.

  Lemma dt_dmean (l : list dual) : dt (dmean l) = tmean (map dt l).
  Proof. unfold dmean, ddivc, tmean. cbn [dt]. rewrite dt_dsum, map_length. reflexivity. Qed.

  Lemma map_dv_map2 (f : dual -> dual -> dual) (g : K -> K -> K) (a b : list dual) :
    (forall x y, dv (f x y) = g (dv x) (dv y)) ->
    map dv (map2 f a b) = map2 g (map dv a) (map dv b).
  Proof.
    intros H. revert b. induction a as [|x a IH]; intros [|y b]; try reflexivity.
    cbn [map2 map]. rewrite H, IH. reflexivity.
  Qed.

  Lemma map2_length {A B C} (f : A -> B -> C) (a : list A) (b : list B) :
    length (map2 f a b) = Nat.min (length a) (length b).
  Proof. revert b. induction a as [|x a IH]; intros [|y b]; try reflexivity. cbn [map2 length Nat.min]. rewrite IH. reflexivity. Qed.

  Lemma map2_map_l {A A' B C} (f : A' -> B -> C) (h : A -> A') (a : list A) (b : list B) :
    map2 f (map h a) b = map2 (fun x y => f (h x) y) a b.
  Proof. revert b. induction a as [|x a IH]; intros [|y b]; try reflexivity. cbn [map map2]. rewrite IH. reflexivity. Qed.

  Lemma map2_map_r {A B B' C} (f : A -> B' -> C) (h : B -> B') (a : list A) (b : list B) :
    map2 f a (map h b) = map2 (fun x y => f x (h y)) a b.
  Proof. revert b. induction a as [|x a IH]; intros [|y b]; try reflexivity. cbn [map map2]. rewrite IH. reflexivity. Qed.

  Lemma map_map2 {A B C D} (h : C -> D) (f : A -> B -> C) (a : list A) (b : list B) :
    map h (map2 f a b) = map2 (fun x y => h (f x y)) a b.
  Proof. revert b. induction a as [|x a IH]; intros [|y b]; try reflexivity. cbn [map map2]. rewrite IH. reflexivity. Qed.

  Lemma map2_ext_in {A B C} (f g : A -> B -> C) (a : list A) (b : list B) :
    (forall x y, In x a -> In y b -> f x y = g x y) -> map2 f a b = map2 g a b.
  Proof.
    revert b. induction a as [|x a IH]; intros [|y b] H; try reflexivity.
    cbn [map2]. rewrite H by (left; reflexivity). rewrite IH; [reflexivity|].
    intros x' y' Hx Hy. apply H; right; assumption.
  Qed.

  Lemma map2_same {A C} (f : A -> A -> C) (a : list A) : map2 f a a = map (fun x => f x x) a.
  Proof. induction a as [|x a IH]; [reflexivity|]. cbn [map2 map]. rewrite IH. reflexivity. Qed.

  (* ------------------------------------------------------------ elementary facts used by Train/Loss.v *)
  Lemma detach_const (x : dual) : is_const (detach x).
  Proof. reflexivity. Qed.
  Lemma dconst_const (c : K) : is_const (dconst c).
  Proof. reflexivity. Qed.
  Lemma detach_value (x : dual) : dv (detach x) = dv x.
  Proof. reflexivity. Qed.

  Lemma dsub_const (x y : dual) : is_const x -> is_const y -> is_const (dsub x y).
  Proof. unfold is_const. intros Hx Hy. cbn [dsub dt]. rewrite Hx, Hy, topp_0. apply tadd_0_l. Qed.

  Lemma dmean_const (l : list dual) : Forall is_const l -> is_const (dmean l).
  Proof.
    intros H. unfold is_const. rewrite dt_dmean. unfold tmean.
    rewrite tsum_all_0; [apply tscale_0_r|]. apply Forall_forall. intros u Hu.
    apply in_map_iff in Hu as (x & <- & Hx). rewrite Forall_forall in H. apply H. exact Hx.
  Qed.

  Lemma dscale_const (c : K) (x : dual) : is_const x -> is_const (dscale c x).
  Proof. unfold is_const. intros H. cbn [dscale dt]. rewrite H. apply tscale_0_r. Qed.

  Lemma ddivc_const (x : dual) (c : K) : is_const x -> is_const (ddivc x c).
  Proof. unfold is_const. intros H. cbn [ddivc dt]. rewrite H. apply tscale_0_r. Qed.

  Lemma dadd_const (x y : dual) : is_const x -> is_const y -> is_const (dadd x y).
  Proof. unfold is_const. intros Hx Hy. cbn [dadd dt]. rewrite Hx, Hy. apply tadd_0_l. Qed.

  (* product with a constant left factor: only the right factor's tangent survives *)
  Lemma dt_dmul_const_l (a l : dual) : is_const a -> dt (dmul a l) = tscale (dv a) (dt l).
  Proof. unfold is_const. intros H. cbn [dmul dt]. rewrite H, tscale_0_r. apply tadd_0_r. Qed.

  Lemma dmin_same (x : dual) : dmin x x = x.
  Proof. destruct x as [v t]. unfold dmin. cbn [dv dt]. rewrite fltb_irrefl. rewrite tscale_half_double. reflexivity. Qed.

  Lemma dv_dmin (x y : dual) : dv (dmin x y) = fmin (dv x) (dv y).
  Proof.
    unfold dmin, fmin, fltb.
    destruct (dv y <=? dv x) eqn:E1; destruct (dv x <=? dv y) eqn:E2; cbn [negb dv]; try reflexivity.
    destruct (fle_total K (dv x) (dv y)); congruence.
  Qed.

  Lemma dclamp_inside (x : dual) (lo hi : K) : flt lo (dv x) -> flt (dv x) hi -> dclamp x lo hi = x.
  Proof.
    intros H1 H2. destruct x as [v t]. unfold dclamp. cbn [dv dt] in *.
    rewrite fclamp_inside by assumption. unfold flt in H1, H2. rewrite H1, H2. reflexivity.
  Qed.

  Lemma dv_dclamp (x : dual) (lo hi : K) : dv (dclamp x lo hi) = fclamp (dv x) lo hi.
  Proof. reflexivity. Qed.

  Lemma dv_dhuber (d : dual) : dv (dhuber d) = fhuber (dv d).
  Proof.
    unfold dhuber, fhuber, fabs. destruct (fltb _ f1); [reflexivity|].
    destruct (f0 <=? dv d); reflexivity.
  Qed.

  (* ------------------------------------------------------------ exp through an abstract e with e' = e *)
  Section Exp.
    Variable e : K -> K.
    Definition dexp (x : dual) : dual := mkD (e (dv x)) (tscale (e (dv x)) (dt x)).
    Lemma dv_dexp x : dv (dexp x) = e (dv x).
    Proof. reflexivity. Qed.
  End Exp.
End Dual.

Arguments mkD {K TM}. Arguments dv {K TM}. Arguments dt {K TM}.
Arguments topp {K TM}. Arguments tsum {K TM}. Arguments tmean {K TM}.
Arguments dconst {K TM}. Arguments detach {K TM}. Arguments dadd {K TM}. Arguments dopp {K TM}.
Arguments dsub {K TM}. Arguments dmul {K TM}. Arguments ddiv {K TM}. Arguments dscale {K TM}.
Arguments ddivc {K TM}. Arguments dsum {K TM}. Arguments dmean {K TM}. Arguments dmin {K TM}.
Arguments dmax {K TM}. Arguments dclamp {K TM}. Arguments dhuber {K TM}. Arguments dmse {K TM}.
Arguments is_const {K TM}. Arguments dexp {K TM}.

(* ---------------------------------------------------------------- instances of the tangent space *)
Section Instances.
  Variable K : ofield.
  Open Scope of_scope.
  Add Field Kf_di : (Fth K).

  (* one formal param: the tangent is a field element *)
  Lemma self_comm (u v : K) : u + v = v + u. Proof. ring. Qed.
  Lemma self_assoc (u v w : K) : u + (v + w) = (u + v) + w. Proof. ring. Qed.
  Lemma self_0_l (u : K) : f0 + u = u. Proof. ring. Qed.
  Lemma self_add_r (a u v : K) : a * (u + v) = a * u + a * v. Proof. ring. Qed.
  Lemma self_add_l (a b u : K) : (a + b) * u = a * u + b * u. Proof. ring. Qed.
  Lemma self_mul (a b u : K) : (a * b) * u = a * (b * u). Proof. ring. Qed.
  Lemma self_1 (u : K) : f1 * u = u. Proof. ring. Qed.
  Lemma self_0_r (a : K) : a * f0 = f0. Proof. ring. Qed.
  Definition tmod_self : tmod K :=
    {| tcar := K; t0 := f0; tadd := fadd; tscale := fmul;
       tadd_comm := self_comm; tadd_assoc := self_assoc; tadd_0_l := self_0_l; tscale_add_r := self_add_r;
       tscale_add_l := self_add_l; tscale_mul := self_mul; tscale_1 := self_1; tscale_0_r := self_0_r |}.

  (* finitely many formal params: the tangent is a list (entry i = partial derivative w.r.t. param i);
     a list that is too short is read as padded with zeros, so [] is the zero vector of every dimension *)
  Fixpoint ladd (u v : list K) : list K :=
    match u, v with
    | [], _ => v
    | _, [] => u
    | x :: u', y :: v' => (x + y) :: ladd u' v'
    end.
  Definition lscale (a : K) (u : list K) : list K := map (fmul a) u.

  Lemma ladd_nil_r u : ladd u [] = u.
  Proof. destruct u; reflexivity. Qed.
  Lemma ladd_comm : forall u v, ladd u v = ladd v u.
  Proof. induction u as [|x u IH]; intros [|y v]; cbn [ladd]; try reflexivity. rewrite IH. f_equal. ring. Qed.
  Lemma ladd_assoc : forall u v w, ladd u (ladd v w) = ladd (ladd u v) w.
  Proof. induction u as [|x u IH]; intros [|y v] [|z w]; cbn [ladd]; try reflexivity. rewrite IH. f_equal. ring. Qed.
  Lemma ladd_0_l : forall u, ladd [] u = u.
  Proof. reflexivity. Qed.
  Lemma lscale_add_r : forall a u v, lscale a (ladd u v) = ladd (lscale a u) (lscale a v).
  Proof.
    intros a. induction u as [|x u IH]; intros [|y v]; cbn [ladd lscale map]; try reflexivity.
    unfold lscale in IH. rewrite IH. f_equal. ring.
  Qed.
  Lemma lscale_add_l : forall a b u, lscale (a + b) u = ladd (lscale a u) (lscale b u).
  Proof.
    intros a b. induction u as [|x u IH]; cbn [ladd lscale map]; [reflexivity|].
    unfold lscale in IH. rewrite IH. f_equal. ring.
  Qed.
  Lemma lscale_mul : forall a b u, lscale (a * b) u = lscale a (lscale b u).
  Proof.
    intros a b. induction u as [|x u IH]; cbn [lscale map]; [reflexivity|].
    unfold lscale in IH. rewrite IH. f_equal. ring.
  Qed.
  Lemma lscale_1 : forall u, lscale f1 u = u.
  Proof. induction u as [|x u IH]; cbn [lscale map]; [reflexivity|]. unfold lscale in IH. rewrite IH. f_equal. ring. Qed.
  Lemma lscale_0_r : forall a, lscale a [] = [].
  Proof. reflexivity. Qed.

  Definition tmod_list : tmod K :=
    {| tcar := list K; t0 := []; tadd := ladd; tscale := lscale;
       tadd_comm := ladd_comm; tadd_assoc := ladd_assoc; tadd_0_l := ladd_0_l; tscale_add_r := lscale_add_r;
       tscale_add_l := lscale_add_l; tscale_mul := lscale_mul; tscale_1 := lscale_1; tscale_0_r := lscale_0_r |}.

  (* the i-th unit tangent: derivative of the i-th formal param w.r.t. the list of all params *)
  Definition unit_tan (i : nat) : list K := repeat f0 i ++ [f1].
  (* a leaf of the computation graph: value x, identified with formal param number i *)
  Definition leaf (x : K) (i : nat) : dual K tmod_list := @mkD K tmod_list x (unit_tan i).
  (* partial derivative number i read off a tangent *)
  Definition tan_at (u : list K) (i : nat) : K := nth i u f0.
End Instances.

Arguments ladd {K}. Arguments lscale {K}. Arguments unit_tan {K}. Arguments leaf {K}. Arguments tan_at {K}.
