(* C15: POMO.shared_step / SymNCO.shared_step (rl4co/models/zoo/{pomo,symnco}/model.py) over the whole
   configuration grid  num_augment x num_starts (None / 0 / 1 / >1) x phase:  does the step raise or return, and
   which max_reward / max_aug_reward does it hand to log_metrics.  AS CODED, branch by branch.
   The policy returns one reward per ROW of the replicated batch (flat list); rows are regrouped by
   rl4co.utils.ops.unbatchify (Train/LossShared.v unbatch1 / unbatch2); torch.max = first maximum (ev_max). *)
From Coq Require Import List Arith Bool Lia ZArith.
From RL4CO Require Import Train.EvalRegroup Train.LossShared.
Import ListNotations.

Inductive ss_phase := PhTrain | PhVal | PhTest.
(* SSRaises 1 = the constructor raises, SSRaises 2 = shared_step raises;
   SSReturns max_reward max_aug_reward : the (flattened) tensors put into `out`, None = key absent *)
Inductive ss_outcome (R : Type) :=
  | SSRaises (stage : nat)
  | SSReturns (max_reward max_aug_reward : option (list R)).
Arguments SSRaises {R}. Arguments SSReturns {R}.

(* general position lemma for unbatchify(x, (s, a)) (LossShared.unbatch2_index states it for x = arange) *)
Lemma unbatch2_nth {A} (d : A) (x : list A) (B s a b i j : nat) :
  length x = B * s * a -> 0 < s -> 0 < a -> b < B -> i < s -> j < a ->
  nth j (nth i (nth b (unbatch2 d x s a) []) []) d = nth (j * (s * B) + i * B + b) x d.
Proof.
  intros Hlen Hs Ha Hb Hi Hj. unfold unbatch2.
  assert (L1 : length x / a = B * s) by (rewrite Hlen; apply Nat.div_mul; lia).
  assert (L2 : length (unbatch1 d x a) / s = B).
  { rewrite unbatch1_length, L1. apply Nat.div_mul. lia. }
  rewrite (unbatch1_nth [] _ s b i []) by (rewrite ?L2; assumption).
  rewrite L2.
  assert (Hib : i * B + b < B * s) by nia.
  rewrite (unbatch1_nth d _ a (i * B + b) j []) by (rewrite ?L1; assumption).
  rewrite L1. f_equal. ring.
Qed.

Lemma unbatch2_length {A} (d : A) (x : list A) (B s a : nat) :
  length x = B * s * a -> 0 < s -> 0 < a -> length (unbatch2 d x s a) = B.
Proof.
  intros Hlen Hs Ha. unfold unbatch2. rewrite unbatch1_length, unbatch1_length, Hlen.
  rewrite Nat.div_mul by lia. apply Nat.div_mul. lia.
Qed.

Lemma unbatch2_block_len {A} (d : A) (x : list A) (s a b : nat) :
  b < length (unbatch2 d x s a) -> length (nth b (unbatch2 d x s a) []) = s.
Proof.
  intros Hb. pose proof (unbatch1_row_length [] (unbatch1 d x a) s) as H. rewrite Forall_forall in H.
  apply H. apply nth_In. exact Hb.
Qed.

Lemma unbatch2_row_len {A} (d : A) (x : list A) (B s a b i : nat) :
  length x = B * s * a -> 0 < s -> 0 < a -> b < B -> i < s ->
  length (nth i (nth b (unbatch2 d x s a) []) []) = a.
Proof.
  intros Hlen Hs Ha Hb Hi. unfold unbatch2.
  assert (L1 : length x / a = B * s) by (rewrite Hlen; apply Nat.div_mul; lia).
  assert (L2 : length (unbatch1 d x a) / s = B).
  { rewrite unbatch1_length, L1. apply Nat.div_mul. lia. }
  rewrite (unbatch1_nth [] _ s b i []) by (rewrite ?L2; assumption).
  pose proof (unbatch1_row_length d x a) as H. rewrite Forall_forall in H. apply H. apply nth_In.
  rewrite L2, unbatch1_length, L1. nia.
Qed.

Section Grid.
  Variable R : Type.
  Variable leb : R -> R -> bool.
  Variable dR : R.
  Hypothesis leb_refl : forall x, leb x x = true.
  Hypothesis leb_trans : forall x y z, leb x y = true -> leb y z = true -> leb x z = true.
  Hypothesis leb_total : forall x y, leb x y = true \/ leb y x = true.

  Definition rmax (l : list R) : R := snd (ev_max R leb dR l).

  Definition resolve_starts (num_starts : option nat) (env_starts : nat) : nat :=
    match num_starts with None => env_starts | Some s => s end.

  (* ---------------------------------------------------------------- POMO.shared_step *)
  (* env_starts = env.get_num_starts(td); has_actions = the policy's output carries "actions" *)
  Definition pomo_shared_step (num_augment : nat) (num_starts : option nat) (env_starts : nat) (ph : ss_phase)
             (has_actions : bool) (reward : list R) : ss_outcome R :=
    let n_start := resolve_starts num_starts env_starts in
    match ph with
    | PhTrain =>
        (* n_aug = 0: reward = unbatchify(out["reward"], (0, n_start)) = [B, n_start]; assert n_start > 1 *)
        if Nat.ltb 1 n_start then SSReturns (Some (map rmax (unbatch1 dR reward n_start))) None
        else SSRaises 2
    | _ =>
        (* (num_augment = 1 : self.augment is None and is not called, `elif n_aug > 1`) *)
        let R3 := unbatch2 dR reward (Nat.max num_augment 1) (Nat.max n_start 1) in   (* [b][a][s] *)
        let mr := map (map rmax) R3 in                      (* reward.max(dim=-1): over the starts, [b][a] *)
        let max_reward := if Nat.ltb 1 n_start then Some (concat mr) else None in
        if Nat.ltb 1 num_augment then
          if Nat.ltb 1 n_start then SSReturns max_reward (Some (map rmax mr))
          else if has_actions && Nat.ltb 1 (length reward / (Nat.max num_augment 1 * Nat.max n_start 1))
               (* actions_ = out["actions"] is still [A*B, L] (only unbatchified when n_start > 1):
                  gather_by_index(actions_, max_idxs [B(,1)]) raises RuntimeError (expand size mismatch: B -> A*B)
                  unless the batch holds a single instance (a size-1 dimension expands) *)
               then SSRaises 2
               else SSReturns None (Some (map rmax mr))
        else SSReturns max_reward None
    end.

  (* ---------------------------------------------------------------- SymNCO.__init__ + shared_step *)
  Definition symnco_shared_step (num_augment : nat) (num_starts : option nat) (ph : ss_phase)
             (reward : list R) : ss_outcome R :=
    match num_starts with
    | None => SSRaises 1        (* __init__: `if self.num_starts > 1` with None: TypeError *)
    | Some n_start =>
        match ph with
        | PhTrain => SSReturns None None
        | _ =>
            let A := Nat.max num_augment 1 in
            let R3 := unbatch2 dR reward (Nat.max n_start 1) A in                     (* [b][s][a] *)
            let mr := map (fun blk => map rmax (cols dR A blk)) R3 in   (* reward.max(dim=1): over the starts, [b][a] *)
            let max_reward := if Nat.ltb 1 n_start then Some (concat mr) else None in
            if Nat.ltb 1 num_augment then
              if Nat.ltb 1 n_start then SSReturns max_reward (Some (map rmax mr))
              else if Nat.eqb n_start 1
                   (* reward_ = reward is [B, 1, A]: .max(dim=1) runs over the singleton START axis, the result
                      is the [B, A] tensor of all per-augmentation rewards, nothing is maximised *)
                   then SSReturns None (Some (concat mr))
                   else SSReturns None (Some (map rmax mr))        (* n_start = 0: reward is [B, A] *)
            else SSReturns max_reward None
        end
    end.

  (* ================================================================ which configurations raise *)
  Theorem pomo_raises_iff num_augment num_starts env_starts ph has_actions reward stage :
    pomo_shared_step num_augment num_starts env_starts ph has_actions reward = SSRaises stage <->
    stage = 2 /\
    let n_start := resolve_starts num_starts env_starts in
    ((ph = PhTrain /\ n_start <= 1) \/
     (ph <> PhTrain /\ 1 < num_augment /\ n_start <= 1 /\ has_actions = true /\
      1 < length reward / (Nat.max num_augment 1 * Nat.max n_start 1))).
  Proof.
    unfold pomo_shared_step. cbv zeta. set (n := resolve_starts num_starts env_starts).
    destruct (Nat.ltb_spec 1 n) as [En|En]; destruct (Nat.ltb_spec 1 num_augment) as [Ea|Ea];
      destruct (Nat.ltb_spec 1 (length reward / (Nat.max num_augment 1 * Nat.max n 1))) as [Eb|Eb];
      destruct ph; destruct has_actions; cbn [andb];
      (split;
       [ intros H; try discriminate H; injection H as <-; (split; try reflexivity);
         first [ left; split; [reflexivity | lia]
               | right; repeat split; first [discriminate | lia | reflexivity] ]
       | intros (-> & [(Hp & Hn) | (Hp & Ha & Hn & Hact & Hb)]); first [reflexivity | congruence | lia] ]).
  Qed.

  Theorem symnco_raises_iff num_augment num_starts ph reward stage :
    symnco_shared_step num_augment num_starts ph reward = SSRaises stage <-> stage = 1 /\ num_starts = None.
  Proof.
    unfold symnco_shared_step. destruct num_starts as [n|].
    - split; [|intros (_ & H); discriminate H].
      destruct ph; try discriminate; cbv zeta;
        destruct (Nat.ltb 1 num_augment); destruct (Nat.ltb 1 n); try destruct (Nat.eqb n 1); discriminate.
    - split; [intros H; injection H as <-; split; reflexivity | intros (-> & _); reflexivity].
  Qed.

  (* ================================================================ POMO: max_aug_reward is the instance's best *)
  Lemma rmax_ge (l : list R) j : j < length l -> leb (nth j l dR) (rmax l) = true.
  Proof.
    intros Hj. assert (Hne : l <> []) by (destruct l; [simpl in Hj; lia | discriminate]).
    pose proof (ev_max_spec R leb leb_refl leb_trans leb_total dR l Hne) as H. unfold rmax.
    destruct (ev_max R leb dR l) as [i m]. destruct H as (_ & _ & H3 & _). apply H3. exact Hj.
  Qed.

  Lemma rmax_attained (l : list R) : l <> [] -> exists j, j < length l /\ nth j l dR = rmax l.
  Proof.
    intros Hne. pose proof (ev_max_spec R leb leb_refl leb_trans leb_total dR l Hne) as H. unfold rmax.
    destruct (ev_max R leb dR l) as [i m]. destruct H as (H1 & H2 & _). exists i. split; assumption.
  Qed.

  (* multi-start and augmentation on, validation / test: entry b of max_aug_reward is >= the reward of EVERY
     row of the replicated batch that holds a copy of instance b (row s*(A*B) + a*B + b) and is one of them *)
  Theorem pomo_max_aug_reward_is_instance_best (A S B : nat) (ph : ss_phase) (has_actions : bool) (reward : list R) :
    ph <> PhTrain -> 1 < A -> 1 < S -> length reward = B * A * S ->
    exists mr mar,
      pomo_shared_step A (Some S) 0 ph has_actions reward = SSReturns (Some mr) (Some mar) /\
      length mar = B /\ length mr = B * A /\
      forall b, b < B ->
        (forall a s, a < A -> s < S -> leb (nth (s * (A * B) + a * B + b) reward dR) (nth b mar dR) = true) /\
        (exists a s, a < A /\ s < S /\ nth b mar dR = nth (s * (A * B) + a * B + b) reward dR).
  Proof.
    intros Hph HA HS Hlen. unfold pomo_shared_step, resolve_starts.
    assert (EA : Nat.max A 1 = A) by lia. assert (ES : Nat.max S 1 = S) by lia. rewrite EA, ES.
    assert (LA : Nat.ltb 1 A = true) by (apply Nat.ltb_lt; exact HA).
    assert (LS : Nat.ltb 1 S = true) by (apply Nat.ltb_lt; exact HS).
    set (R3 := unbatch2 dR reward A S).
    assert (L3 : length R3 = B) by (apply unbatch2_length; [exact Hlen | lia | lia]).
    exists (concat (map (map rmax) R3)), (map rmax (map (map rmax) R3)).
    split; [destruct ph; [congruence | |]; cbv zeta; fold R3; rewrite LA, LS; reflexivity|].
    split; [rewrite !map_length; exact L3|].
    assert (Hblk : forall b, b < B -> length (nth b R3 []) = A).
    { intros b Hb. apply unbatch2_block_len. fold R3. rewrite L3. exact Hb. }
    split.
    { assert (G : forall (l : list (list (list R))) n, (forall b, b < length l -> length (nth b l []) = n) ->
                  length (concat (map (map rmax) l)) = length l * n).
      { induction l as [|blk l IH]; intros n H; [reflexivity|]. cbn [map concat length].
        rewrite app_length, map_length, (IH n).
        - pose proof (H 0 ltac:(cbn; lia)) as H0. cbn in H0. rewrite H0. cbn. lia.
        - intros b Hb. apply (H (1 + b)). cbn. lia. }
      rewrite (G R3 A); [rewrite L3; reflexivity|]. intros b Hb. apply Hblk. rewrite <- L3. exact Hb. }
    intros b Hb.
    assert (E1 : nth b (map rmax (map (map rmax) R3)) dR = rmax (map rmax (nth b R3 []))).
    { rewrite (nth_indep _ dR (rmax (map rmax []))) by (rewrite !map_length, L3; exact Hb).
      rewrite (map_nth rmax), (map_nth (map rmax)). reflexivity. }
    rewrite E1.
    assert (Hrow : forall a, a < A -> length (nth a (nth b R3 []) []) = S).
    { intros a Ha. apply (unbatch2_row_len dR reward B A S b a); try assumption; lia. }
    assert (Hent : forall a s, a < A -> s < S ->
                     nth s (nth a (nth b R3 []) []) dR = nth (s * (A * B) + a * B + b) reward dR).
    { intros a s Ha Hs. apply unbatch2_nth; try assumption; lia. }
    assert (Hmap : forall a, a < A -> nth a (map rmax (nth b R3 [])) dR = rmax (nth a (nth b R3 []) [])).
    { intros a Ha. rewrite (nth_indep _ dR (rmax [])) by (rewrite map_length, Hblk; assumption).
      apply (map_nth rmax). }
    split.
    - intros a s Ha Hs. rewrite <- Hent by assumption.
      eapply leb_trans; [apply rmax_ge; rewrite Hrow by exact Ha; exact Hs|].
      rewrite <- Hmap by exact Ha. apply rmax_ge. rewrite map_length, Hblk by exact Hb. exact Ha.
    - destruct (rmax_attained (map rmax (nth b R3 []))) as (a & Ha & Ea).
      { intros E. apply (f_equal (@length R)) in E. rewrite map_length, Hblk in E by exact Hb. cbn in E. lia. }
      rewrite map_length, Hblk in Ha by exact Hb. rewrite Hmap in Ea by exact Ha.
      destruct (rmax_attained (nth a (nth b R3 []) [])) as (s & Hs & Es).
      { intros E. apply (f_equal (@length R)) in E. rewrite Hrow in E by exact Ha. cbn in E. lia. }
      rewrite Hrow in Hs by exact Ha.
      exists a, s. repeat split; try assumption. rewrite <- Ea, <- Es. apply Hent; assumption.
  Qed.
End Grid.

Arguments pomo_shared_step {R}. Arguments symnco_shared_step {R}. Arguments rmax {R}.

(* ================================================================ the corners where the code does not deliver *)
(* (a) POMO with a single start and augmentation: a documented evaluation mode (the `else` branches of
       `reward_ = max_reward if n_start > 1 else reward` exist for it) raises in every val / test step *)
Theorem pomo_single_start_augment_refuted :
  exists (num_augment num_starts : nat) (reward : list Z),
    1 < num_augment /\ num_starts = 1 /\
    pomo_shared_step Z.leb 0%Z num_augment (Some num_starts) 0 PhVal true reward = SSRaises 2.
Proof. exists 2, 1, [1; 2; 3; 4; 5; 6]%Z. repeat split; try lia. Qed.

(* ... except when the batch holds a single instance (B = 1) *)
Example pomo_single_start_augment_one_instance :
  pomo_shared_step Z.leb 0%Z 2 (Some 1) 0 PhVal true [1; 5]%Z = SSReturns None (Some [5%Z]).
Proof. reflexivity. Qed.

(* (b) SymNCO with num_starts = 1 and augmentation: `max_aug_reward` is the [B, A] tensor of ALL per-copy rewards,
       not the per-instance maximum: B = 1, A = 2, rewards 1 and 5 give [1; 5] instead of [5] *)
Theorem symnco_single_start_max_aug_refuted :
  exists (num_augment : nat) (reward : list Z) (mar : list Z),
    symnco_shared_step Z.leb 0%Z num_augment (Some 1) PhVal reward = SSReturns None (Some mar) /\
    length reward = 1 * num_augment /\          (* one instance *)
    mar <> [rmax Z.leb 0%Z reward] /\ length mar = num_augment.
Proof. exists 2, [1; 5]%Z, [1; 5]%Z. vm_compute. repeat split; try reflexivity. discriminate. Qed.

(* with num_starts = 0 (the class default) the same input gives the maximum *)
Example symnco_zero_starts_max_aug_ok :
  symnco_shared_step Z.leb 0%Z 2 (Some 0) PhVal [1; 5]%Z = SSReturns None (Some [5%Z]).
Proof. reflexivity. Qed.

(* (c) observation, outside C15 (constructor crash): SymNCO(num_starts=None), the value the docstring describes ("If None, use the number of available
       actions"), is rejected by the constructor *)
Lemma symnco_num_starts_none_raises :
  forall (num_augment : nat) (ph : ss_phase) (reward : list Z),
    symnco_shared_step Z.leb 0%Z num_augment None ph reward = SSRaises 1.
Proof. reflexivity. Qed.

Example pomo_grid_example :    (* B = 2, A = 2, S = 2: rows s*(A*B) + a*B + b *)
  pomo_shared_step Z.leb 0%Z 2 (Some 2) 0 PhTest true [1; 2; 3; 4; 5; 6; 7; 0]%Z
  = SSReturns (Some [5; 7; 6; 4]%Z) (Some [7; 6]%Z).
Proof. reflexivity. Qed.
