(* C15 (evaluation part): the regrouping / best-of-k logic of rl4co/tasks/eval.py, over lists.

   Modelled as coded (one list element = one batch row):
     ops.batchify(x, k)          x.expand(k, B).view(k*B)                 -> [ev_batchify]
     ops.unbatchify(x, k)        x.view(k, len//k).permute(1, 0)          -> [ev_unbatchify]
     Tensor.max(dim)             value and index of the FIRST maximum      -> [ev_max]
     ops.gather_by_index         row-wise pick                             -> [nth]
     AugmentationEval._inner, GreedyMultiStartEval._inner                  -> [ev_select]
     GreedyMultiStartAugmentEval._inner (nested batchify (A, S))           -> [ev_inner_msa]
     SamplingEval._inner = policy(..., select_best=True): DecodingStrategy._select_best followed by the
       policy's own env.get_reward on the gathered rows                    -> [ev_inner_sampling]
     EvalBase.__call__: zero padding of the action tensors of the loader batches + concatenation
                                                                           -> [ev_pad_concat]
   The policy and env.get_reward are not modelled: the candidate actions are an arbitrary list
   (one entry per row the policy returned) and [rew] is an arbitrary row-wise function (instance,
   actions) -> reward.  The few index-layout facts needed are proved here (prefix ev_); this file
   deliberately does not depend on Decoding/Batchify.v. *)
From Coq Require Import List Arith Bool Lia PeanoNat.
Import ListNotations.

Fixpoint ev_map2 {A B C} (f : A -> B -> C) (a : list A) (b : list B) : list C :=
  match a, b with x :: a', y :: b' => f x y :: ev_map2 f a' b' | _, _ => [] end.

Lemma ev_map2_length {A B C} (f : A -> B -> C) a b : length (ev_map2 f a b) = Nat.min (length a) (length b).
Proof. revert b. induction a as [|x a IH]; intros [|y b]; simpl; auto. Qed.

Lemma ev_map2_nth {A B C} (f : A -> B -> C) a b i da db dc :
  i < length a -> i < length b -> nth i (ev_map2 f a b) dc = f (nth i a da) (nth i b db).
Proof.
  revert b i. induction a as [|x a IH]; intros [|y b] i Ha Hb; simpl in *; try lia.
  destruct i; [reflexivity|]. apply IH; lia.
Qed.

(* ------------------------------------------------------------------ row layout *)
Definition ev_batchify {A} (k : nat) (xs : list A) : list A := concat (repeat xs k).

Definition ev_unbatchify {A} (d : A) (k : nat) (ys : list A) : list (list A) :=
  let B := length ys / k in
  map (fun b => map (fun j => nth (j * B + b) ys d) (seq 0 k)) (seq 0 B).

Lemma ev_batchify_length {A} k (xs : list A) : length (ev_batchify k xs) = k * length xs.
Proof. unfold ev_batchify. induction k as [|k IH]; simpl; [reflexivity|]. rewrite app_length, IH. reflexivity. Qed.

(* all rows of [ls] have length B: entry r of the concatenation is entry (r mod B) of block (r / B) *)
Lemma ev_nth_concat_uniform {A} (ls : list (list A)) (B : nat) (d : A) :
  Forall (fun l => length l = B) ls ->
  forall j b, b < B -> nth (j * B + b) (concat ls) d = nth b (nth j ls []) d.
Proof.
  intros H. induction H as [|l ls Hl _ IH]; intros j b Hb.
  - simpl. destruct (j * B + b); destruct j; destruct b; reflexivity.
  - destruct j as [|j]; simpl.
    + rewrite app_nth1 by lia. reflexivity.
    + rewrite app_nth2 by lia. replace (B + j * B + b - length l) with (j * B + b) by lia. apply IH. exact Hb.
Qed.

Lemma ev_repeat_Forall {A} (x : A) (P : A -> Prop) k : P x -> Forall P (repeat x k).
Proof. intros H. induction k; simpl; constructor; auto. Qed.

Lemma ev_nth_repeat {A} (x d : A) k j : j < k -> nth j (repeat x k) d = x.
Proof. revert j. induction k as [|k IH]; intros j H; [lia|]. destruct j; simpl; [reflexivity | apply IH; lia]. Qed.

(* row j*B + b of a batchified list is element b: "row r holds instance r mod B" *)
Lemma ev_nth_batchify {A} k (xs : list A) d j b :
  j < k -> b < length xs -> nth (j * length xs + b) (ev_batchify k xs) d = nth b xs d.
Proof.
  intros Hj Hb. unfold ev_batchify.
  rewrite (ev_nth_concat_uniform (repeat xs k) (length xs) d) by (try apply ev_repeat_Forall; auto).
  rewrite ev_nth_repeat by exact Hj. reflexivity.
Qed.

Lemma ev_nth_batchify_mod {A} k (xs : list A) d r :
  r < k * length xs -> nth r (ev_batchify k xs) d = nth (r mod length xs) xs d.
Proof.
  intros Hr. assert (HB : length xs <> 0) by (intros E0; rewrite E0, Nat.mul_0_r in Hr; lia).
  pose proof (Nat.div_mod r (length xs) HB) as E. pose proof (Nat.mod_upper_bound r _ HB) as Hm.
  assert (Hj : r / length xs < k) by (apply Nat.div_lt_upper_bound; [exact HB | lia]).
  rewrite E at 1. replace (length xs * (r / length xs)) with (r / length xs * length xs) by lia.
  apply ev_nth_batchify; assumption.
Qed.

(* batchify(x, (A, S)) folds reversed(shape): first S, then A -- the same rows as batchify(x, A*S) *)
Lemma ev_concat_repeat_app {A} (xs : list A) a b : concat (repeat xs (a + b)) = concat (repeat xs a) ++ concat (repeat xs b).
Proof. induction a as [|a IH]; simpl; [reflexivity|]. rewrite IH, app_assoc. reflexivity. Qed.

Lemma ev_batchify_nested {A} (a s : nat) (xs : list A) :
  ev_batchify a (ev_batchify s xs) = ev_batchify (a * s) xs.
Proof.
  unfold ev_batchify. induction a as [|a IH]; simpl; [reflexivity|].
  rewrite IH, ev_concat_repeat_app. reflexivity.
Qed.

Lemma ev_unbatchify_length {A} (d : A) k ys : length (ev_unbatchify d k ys) = length ys / k.
Proof. unfold ev_unbatchify. rewrite map_length, seq_length. reflexivity. Qed.

(* unbatchify(x, k)[b][j] = x[j*B + b] *)
Lemma ev_unbatchify_entry {A} (d : A) k ys b j :
  b < length ys / k -> j < k ->
  nth j (nth b (ev_unbatchify d k ys) []) d = nth (j * (length ys / k) + b) ys d.
Proof.
  intros Hb Hj. unfold ev_unbatchify.
  rewrite (nth_indep _ [] (map (fun j0 => nth (j0 * (length ys / k) + 0) ys d) (seq 0 k)))
    by (rewrite map_length, seq_length; exact Hb).
  rewrite (map_nth (fun b0 => map (fun j0 => nth (j0 * (length ys / k) + b0) ys d) (seq 0 k)) (seq 0 (length ys / k)) 0 b).
  rewrite seq_nth by exact Hb. cbn [plus].
  rewrite (nth_indep _ d (nth (0 * (length ys / k) + b) ys d)) by (rewrite map_length, seq_length; exact Hj).
  rewrite (map_nth (fun j0 => nth (j0 * (length ys / k) + b) ys d) (seq 0 k) 0 j).
  rewrite seq_nth by exact Hj. reflexivity.
Qed.

Lemma ev_unbatchify_row_length {A} (d : A) k ys b :
  b < length ys / k -> length (nth b (ev_unbatchify d k ys) []) = k.
Proof.
  intros Hb. unfold ev_unbatchify.
  rewrite (nth_indep _ [] (map (fun j0 => nth (j0 * (length ys / k) + 0) ys d) (seq 0 k)))
    by (rewrite map_length, seq_length; exact Hb).
  rewrite (map_nth (fun b0 => map (fun j0 => nth (j0 * (length ys / k) + b0) ys d) (seq 0 k)) (seq 0 (length ys / k)) 0 b).
  rewrite map_length, seq_length. reflexivity.
Qed.

(* policy-side layout of GreedyMultiStartAugmentEval: augmentation first (row a*B + b), then the decoding
   strategy's batchify by S (row s*(A*B) + r): the row of (start s, augmentation a, instance b) is candidate
   j = s*A + a of instance b in the layout unbatchify(., S*A) reads *)
Lemma ev_msa_row (A S B s a b : nat) : s * (A * B) + (a * B + b) = (s * A + a) * B + b.
Proof. nia. Qed.

(* ------------------------------------------------------------------ first-maximum selection *)
Section Select.
  Variable R : Type.
  Variable leb : R -> R -> bool.
  Hypothesis leb_refl : forall x, leb x x = true.
  Hypothesis leb_trans : forall x y z, leb x y = true -> leb y z = true -> leb x z = true.
  Hypothesis leb_total : forall x y, leb x y = true \/ leb y x = true.

  (* torch.max(dim): a later entry replaces the running best only when it is strictly greater *)
  Fixpoint ev_max_from (i bi : nat) (bv : R) (l : list R) : nat * R :=
    match l with
    | [] => (bi, bv)
    | v :: r => if leb v bv then ev_max_from (S i) bi bv r else ev_max_from (S i) i v r
    end.
  Definition ev_max (d : R) (l : list R) : nat * R :=
    match l with [] => (0, d) | v :: r => ev_max_from 1 0 v r end.

  Lemma leb_false_lt x y : leb x y = false -> leb y x = true.
  Proof. intros H. destruct (leb_total x y) as [H'|H']; [congruence | exact H']. Qed.

  (* invariant of the scan: (bi, bv) is the first maximum of the prefix [pre] *)
  Definition first_max (d : R) (l : list R) (i : nat) (m : R) : Prop :=
    i < length l /\ nth i l d = m /\
    (forall j, j < length l -> leb (nth j l d) m = true) /\
    (forall j, j < i -> leb m (nth j l d) = false).

  Lemma ev_max_from_spec d (l pre : list R) bi bv :
    first_max d pre bi bv ->
    let (i, m) := ev_max_from (length pre) bi bv l in first_max d (pre ++ l) i m.
  Proof.
    revert pre bi bv. induction l as [|v r IH]; intros pre bi bv H; cbn [ev_max_from].
    - rewrite app_nil_r. exact H.
    - destruct H as (H1 & H2 & H3 & H4).
      assert (Hlen : length (pre ++ [v]) = S (length pre)) by (rewrite app_length; simpl; lia).
      destruct (leb v bv) eqn:E.
      + specialize (IH (pre ++ [v]) bi bv). rewrite Hlen, <- app_assoc in IH. apply IH.
        repeat split.
        * rewrite Hlen. lia.
        * rewrite app_nth1 by lia. exact H2.
        * intros j Hj. rewrite Hlen in Hj. destruct (Nat.eq_dec j (length pre)) as [->|Hne].
          -- rewrite app_nth2 by lia. rewrite Nat.sub_diag. exact E.
          -- rewrite app_nth1 by lia. apply H3. lia.
        * intros j Hj. rewrite app_nth1 by lia. apply H4. exact Hj.
      + specialize (IH (pre ++ [v]) (length pre) v). rewrite Hlen, <- app_assoc in IH. apply IH.
        pose proof (leb_false_lt _ _ E) as Hlt.
        repeat split.
        * rewrite Hlen. lia.
        * rewrite app_nth2 by lia. rewrite Nat.sub_diag. reflexivity.
        * intros j Hj. rewrite Hlen in Hj. destruct (Nat.eq_dec j (length pre)) as [->|Hne].
          -- rewrite app_nth2 by lia. rewrite Nat.sub_diag. apply leb_refl.
          -- rewrite app_nth1 by lia. eapply leb_trans; [apply H3; lia | exact Hlt].
        * intros j Hj. rewrite app_nth1 by lia.
          destruct (leb v (nth j pre d)) eqn:E2; [|reflexivity].
          exfalso. assert (leb v bv = true) by (eapply leb_trans; [exact E2 | apply H3; lia]). congruence.
  Qed.

  Lemma ev_max_spec d (l : list R) : l <> [] -> let (i, m) := ev_max d l in first_max d l i m.
  Proof.
    destruct l as [|v r]; [congruence|]. intros _. unfold ev_max.
    pose proof (ev_max_from_spec d r [v] 0 v) as H. cbn [length app] in H. apply H.
    repeat split; simpl; try lia.
    - intros j Hj. assert (j = 0) by lia. subst. apply leb_refl.
  Qed.

  (* ------------------------------------------------------------------ the _inner functions *)
  Variables inst act : Type.
  Variable rew : inst -> act -> R.     (* env.get_reward on one row: (instance, actions) -> reward *)
  Variables (dI : inst) (dA : act) (dR : R).

  (* AugmentationEval._inner (k = num_augment) and GreedyMultiStartEval._inner (k = num_starts):
       rewards = env.get_reward(batchify(td_init, k), out["actions"])
       rewards, actions = unbatchify(rewards, k), unbatchify(out["actions"], k)
       rewards, max_idxs = rewards.max(dim=1); actions = gather_by_index(actions, max_idxs, dim=1)
     [insts] = the rows of td_init (the ORIGINAL batch), [acts] = the rows of out["actions"]. *)
  Definition ev_pick (rs : list R) (cs : list act) : act * R :=
    let (i, m) := ev_max dR rs in (nth i cs dA, m).
  Definition ev_select (k : nat) (insts : list inst) (acts : list act) : list (act * R) :=
    let rewards := ev_map2 rew (ev_batchify k insts) acts in
    ev_map2 ev_pick (ev_unbatchify dR k rewards) (ev_unbatchify dA k acts).

  (* GreedyMultiStartAugmentEval._inner: td = batchify(td_init, (num_augment, num_starts)),
     unbatchify(., num_starts * num_augment) *)
  Definition ev_inner_msa (A S : nat) (insts : list inst) (acts : list act) : list (act * R) :=
    let rewards := ev_map2 rew (ev_batchify A (ev_batchify S insts)) acts in
    ev_map2 ev_pick (ev_unbatchify dR (S * A) rewards) (ev_unbatchify dA (S * A) acts).

  (* SamplingEval._inner: the policy is called with num_starts = samples, select_best = True.
     DecodingStrategy.pre_decoder_hook: td = batchify(td, k); post hook -> _select_best:
       rewards = env.get_reward(td, actions); _, idx = unbatchify(rewards, k).max(dim=-1)
       actions, td = unbatchify_and_gather(actions / td, idx, k)
     then ConstructivePolicy.forward recomputes reward = env.get_reward(td, actions) on the gathered rows. *)
  Definition ev_inner_sampling (k : nat) (insts : list inst) (acts : list act) : list (act * R) :=
    let tds := ev_batchify k insts in
    let rewards := ev_map2 rew tds acts in
    let idx := map (fun rs => fst (ev_max dR rs)) (ev_unbatchify dR k rewards) in
    let a := ev_map2 (fun i cs => nth i cs dA) idx (ev_unbatchify dA k acts) in
    let t := ev_map2 (fun i cs => nth i cs dI) idx (ev_unbatchify dI k tds) in
    ev_map2 (fun ti ai => (ai, rew ti ai)) t a.

  (* what "true best of k, first maximiser, scored on the original instance b" means *)
  Definition best_of (k B : nat) (insts : list inst) (acts : list act) (b : nat) (res : act * R) : Prop :=
    exists j, j < k /\
      fst res = nth (j * B + b) acts dA /\
      snd res = rew (nth b insts dI) (fst res) /\
      (forall j', j' < k -> leb (rew (nth b insts dI) (nth (j' * B + b) acts dA)) (snd res) = true) /\
      (forall j', j' < j -> leb (snd res) (rew (nth b insts dI) (nth (j' * B + b) acts dA)) = false).

  Lemma ev_div_mul k B : 0 < k -> k * B / k = B.
  Proof. intros H. rewrite Nat.mul_comm. apply Nat.div_mul. lia. Qed.

  Lemma ev_rewards_nth k insts acts j b :
    length acts = k * length insts -> j < k -> b < length insts ->
    nth (j * length insts + b) (ev_map2 rew (ev_batchify k insts) acts) dR
      = rew (nth b insts dI) (nth (j * length insts + b) acts dA).
  Proof.
    intros Hl Hj Hb.
    assert (Hr : j * length insts + b < k * length insts) by nia.
    rewrite (ev_map2_nth rew _ _ _ dI dA) by (try rewrite ev_batchify_length; lia).
    rewrite ev_nth_batchify by assumption. reflexivity.
  Qed.

  Theorem eval_regroup_select k insts acts :
    0 < k -> length acts = k * length insts ->
    length (ev_select k insts acts) = length insts /\
    forall b, b < length insts ->
      best_of k (length insts) insts acts b (nth b (ev_select k insts acts) (dA, dR)).
  Proof.
    intros Hk Hl. set (B := length insts).
    set (rewards := ev_map2 rew (ev_batchify k insts) acts).
    assert (Hrl : length rewards = k * B).
    { unfold rewards. rewrite ev_map2_length, ev_batchify_length. fold B. lia. }
    assert (HRB : length rewards / k = B) by (rewrite Hrl; apply ev_div_mul; exact Hk).
    assert (HAB : length acts / k = B) by (rewrite Hl; apply ev_div_mul; exact Hk).
    split.
    { unfold ev_select. fold rewards. rewrite ev_map2_length, !ev_unbatchify_length, HRB, HAB. apply Nat.min_id. }
    intros b Hb. unfold ev_select. fold rewards.
    rewrite (ev_map2_nth ev_pick _ _ _ [] []) by (rewrite ev_unbatchify_length; lia).
    set (rs := nth b (ev_unbatchify dR k rewards) []).
    set (cs := nth b (ev_unbatchify dA k acts) []).
    assert (Hrs : length rs = k) by (apply ev_unbatchify_row_length; lia).
    assert (Hrsj : forall j, j < k -> nth j rs dR = rew (nth b insts dI) (nth (j * B + b) acts dA)).
    { intros j Hj. unfold rs. rewrite ev_unbatchify_entry by lia. rewrite HRB.
      unfold rewards, B. apply ev_rewards_nth; assumption. }
    assert (Hcsj : forall j, j < k -> nth j cs dA = nth (j * B + b) acts dA).
    { intros j Hj. unfold cs. rewrite ev_unbatchify_entry by lia. rewrite HAB. reflexivity. }
    unfold ev_pick. pose proof (ev_max_spec dR rs) as M.
    destruct (ev_max dR rs) as [i m]. destruct M as (M1 & M2 & M3 & M4).
    { intros E. rewrite E in Hrs. simpl in Hrs. lia. }
    rewrite Hrs in *. exists i. cbn [fst snd]. repeat split.
    - exact M1.
    - apply Hcsj. exact M1.
    - rewrite <- M2, Hrsj, Hcsj by exact M1. reflexivity.
    - intros j' Hj'. rewrite <- Hrsj by exact Hj'. apply M3. exact Hj'.
    - intros j' Hj'. rewrite <- Hrsj by lia. apply M4. exact Hj'.
  Qed.

  Lemma ev_inner_msa_eq A S insts acts : ev_inner_msa A S insts acts = ev_select (S * A) insts acts.
  Proof. unfold ev_inner_msa, ev_select. rewrite ev_batchify_nested, (Nat.mul_comm A S). reflexivity. Qed.

  Theorem eval_regroup_msa A S insts acts :
    0 < A -> 0 < S -> length acts = S * A * length insts ->
    length (ev_inner_msa A S insts acts) = length insts /\
    forall b, b < length insts ->
      best_of (S * A) (length insts) insts acts b (nth b (ev_inner_msa A S insts acts) (dA, dR)).
  Proof. intros HA HS Hl. rewrite ev_inner_msa_eq. apply eval_regroup_select; [nia | exact Hl]. Qed.

  Theorem eval_regroup_sampling k insts acts :
    0 < k -> length acts = k * length insts ->
    ev_inner_sampling k insts acts = ev_select k insts acts.
  Proof.
    intros Hk Hl. set (B := length insts).
    unfold ev_inner_sampling, ev_select.
    set (rewards := ev_map2 rew (ev_batchify k insts) acts).
    assert (Hrl : length rewards = k * B).
    { unfold rewards. rewrite ev_map2_length, ev_batchify_length. fold B. lia. }
    assert (HRB : length rewards / k = B) by (rewrite Hrl; apply ev_div_mul; exact Hk).
    assert (HAB : length acts / k = B) by (rewrite Hl; apply ev_div_mul; exact Hk).
    assert (HTB : length (ev_batchify k insts) / k = B) by (rewrite ev_batchify_length; apply ev_div_mul; exact Hk).
    set (tds := ev_batchify k insts).
    set (idx := map (fun rs => fst (ev_max dR rs)) (ev_unbatchify dR k rewards)).
    assert (LR : length (ev_unbatchify dR k rewards) = B) by (rewrite ev_unbatchify_length; exact HRB).
    assert (LA : length (ev_unbatchify dA k acts) = B) by (rewrite ev_unbatchify_length; exact HAB).
    assert (LT : length (ev_unbatchify dI k tds) = B) by (rewrite ev_unbatchify_length; exact HTB).
    assert (LI : length idx = B) by (unfold idx; rewrite map_length; exact LR).
    set (av := ev_map2 (fun i cs => nth i cs dA) idx (ev_unbatchify dA k acts)).
    set (tv := ev_map2 (fun i cs => nth i cs dI) idx (ev_unbatchify dI k tds)).
    assert (Lav : length av = B) by (unfold av; rewrite ev_map2_length, LI, LA; apply Nat.min_id).
    assert (Ltv : length tv = B) by (unfold tv; rewrite ev_map2_length, LI, LT; apply Nat.min_id).
    apply (nth_ext _ _ (dA, dR) (dA, dR)).
    { rewrite !ev_map2_length, Lav, Ltv, LR, LA. reflexivity. }
    intros b Hb. rewrite ev_map2_length, Lav, Ltv, Nat.min_id in Hb.
    rewrite (ev_map2_nth _ tv av b dI dA) by lia.
    unfold av, tv.
    rewrite (ev_map2_nth _ idx _ b 0 []) by lia.
    rewrite (ev_map2_nth _ idx _ b 0 []) by lia.
    rewrite (ev_map2_nth ev_pick _ _ b [] []) by lia.
    unfold idx. rewrite (nth_indep _ 0 (fst (ev_max dR []))) by (rewrite map_length; lia).
    rewrite (map_nth (fun rs => fst (ev_max dR rs))).
    set (rs := nth b (ev_unbatchify dR k rewards) []).
    set (cs := nth b (ev_unbatchify dA k acts) []).
    assert (Hrs : length rs = k) by (apply ev_unbatchify_row_length; lia).
    unfold ev_pick. pose proof (ev_max_spec dR rs) as M.
    destruct (ev_max dR rs) as [i m]. destruct M as (M1 & M2 & M3 & M4).
    { intros E. rewrite E in Hrs. simpl in Hrs. lia. }
    rewrite Hrs in M1. cbn [fst]. f_equal.
    (* the gathered td row is the original instance b, and its reward is the maximum *)
    unfold tds. rewrite ev_unbatchify_entry by (rewrite ?HTB; lia). rewrite HTB.
    unfold B. rewrite ev_nth_batchify by (fold B; lia).
    rewrite <- M2. unfold rs. rewrite ev_unbatchify_entry by (rewrite ?HRB; lia). rewrite HRB.
    unfold rewards, B. rewrite ev_rewards_nth by (fold B; lia).
    unfold cs. rewrite ev_unbatchify_entry by (rewrite ?HAB; lia). rewrite HAB. reflexivity.
  Qed.

  (* reported >= every member; in particular >= the rollout of row 0*B + b (first augmented copy) *)
  Corollary best_ge_member k insts acts b j :
    0 < k -> length acts = k * length insts -> b < length insts -> j < k ->
    leb (rew (nth b insts dI) (nth (j * length insts + b) acts dA)) (snd (nth b (ev_select k insts acts) (dA, dR))) = true.
  Proof.
    intros Hk Hl Hb Hj. destruct (eval_regroup_select k insts acts Hk Hl) as [_ H].
    destruct (H b Hb) as (j0 & _ & _ & _ & H3 & _). apply H3. exact Hj.
  Qed.

  Corollary best_ge_first_copy k insts acts b g :
    0 < k -> length acts = k * length insts -> b < length insts ->
    nth b acts dA = g ->     (* row b = first copy of instance b carries the plain greedy rollout g *)
    leb (rew (nth b insts dI) g) (snd (nth b (ev_select k insts acts) (dA, dR))) = true.
  Proof.
    intros Hk Hl Hb <-. pose proof (best_ge_member k insts acts b 0 Hk Hl Hb Hk) as H.
    cbn [Nat.mul Nat.add] in H. exact H.
  Qed.
End Select.

(* ------------------------------------------------------------------ EvalBase.__call__: pad + concat *)
(* a loader batch = the rows of one action tensor (all rows of one tensor have the same width) *)
Definition ev_width (batch : list (list nat)) : nat := length (hd [] batch).
Definition ev_pad (L : nat) (a : list nat) : list nat := a ++ repeat 0 (L - length a).
Definition ev_pad_concat (batches : list (list (list nat))) : list (list nat) :=
  let L := list_max (map ev_width batches) in
  concat (map (map (ev_pad L)) batches).

Definition ev_rect (batch : list (list nat)) : Prop := Forall (fun a => length a = ev_width batch) batch.

Lemma ev_pad_rows_gen L batches :
  Forall ev_rect batches -> Forall (fun b => ev_width b <= L) batches ->
  Forall2 (fun orig padded => padded = orig ++ repeat 0 (L - length orig) /\ length padded = L)
          (concat batches) (concat (map (map (ev_pad L)) batches)).
Proof.
  intros H HL. induction H as [|bt bs Hb _ IH]; simpl; [constructor|].
  inversion HL as [|? ? Hw HL']; subst.
  apply Forall2_app; [|apply IH; exact HL'].
  clear IH HL HL'. unfold ev_rect in Hb. set (w := ev_width bt) in *. clearbody w.
  induction Hb as [|a r Ha _ IH]; simpl; constructor; [|exact IH].
  split; [reflexivity|]. unfold ev_pad. rewrite app_length, repeat_length. lia.
Qed.

(* every returned row is the row the eval class produced followed by zeros up to the global maximum width *)
Lemma ev_pad_concat_rows batches :
  Forall ev_rect batches ->
  let L := list_max (map ev_width batches) in
  Forall2 (fun orig padded => padded = orig ++ repeat 0 (L - length orig) /\ length padded = L)
          (concat batches) (ev_pad_concat batches).
Proof.
  intros H L. unfold ev_pad_concat. fold L. apply ev_pad_rows_gen; [exact H|].
  pose proof (list_max_le (map ev_width batches) L) as [HL _]. specialize (HL (Nat.le_refl _)).
  rewrite Forall_map in HL. exact HL.
Qed.

(* fixed-length environments (TSP, PDP, ...): every loader batch has the same width, nothing is appended *)
Lemma ev_pad_noop_rows L n batches :
  L <= n -> Forall ev_rect batches -> Forall (fun b => ev_width b = n) batches ->
  map (map (ev_pad L)) batches = batches.
Proof.
  intros HL Hr Hn. induction Hr as [|bt bs Hb _ IH]; [reflexivity|].
  inversion Hn as [|? ? Hw Hn']; subst. simpl. f_equal; [|apply IH; exact Hn'].
  unfold ev_rect in Hb. rewrite <- (map_id bt) at 2. apply map_ext_in. intros a Ha.
  rewrite Forall_forall in Hb. specialize (Hb a Ha). unfold ev_pad.
  replace (L - length a) with 0 by lia. simpl. apply app_nil_r.
Qed.

Lemma ev_pad_fixed_length_noop batches n :
  Forall ev_rect batches -> Forall (fun b => ev_width b = n) batches -> ev_pad_concat batches = concat batches.
Proof.
  intros Hr Hn. unfold ev_pad_concat. f_equal. apply (ev_pad_noop_rows _ n); try assumption.
  apply list_max_le. rewrite Forall_map. eapply Forall_impl; [|exact Hn]. simpl. intros; lia.
Qed.
