(* Tie 1.2: the definitions regenerated from /repo's source on every run (Gen/*.v) are proved equal to
   the hand models the theorems are stated about.  A source edit that changes the arithmetic makes
   one of these lemmas fail: a precisely named broken obligation. *)
From Coq Require Import List Arith Bool Ring Field.
From RL4CO Require Import Base.OField Train.Welford Train.Baselines Gen.GenWelford Gen.GenBaselines.
Import ListNotations.

Section GenEq.
  Variable K : ofield.
  Open Scope of_scope.
  Add Field Kf_g : (Fth K).

  (* the batch is a tensor of any rank >= 1, given as the list of its rows along the leading dimension ([B] = B rows of
     one entry, [B,S] = B rows of S entries): the code itself must flatten it (`batch.reshape(-1)`) before it takes
     `len(batch)` -- if it does not, the translated count is the number of ROWS and this lemma no longer holds *)
  Lemma scaler_update_gen_eq (s : wstate K) (b : list (list K)) :
    gen_scaler_update K (w_count s) (w_mean s) (w_M2 s) b =
      (w_count (w_update s (concat b)), w_mean (w_update s (concat b)), w_M2 (w_update s (concat b))).
  Proof. reflexivity. Qed.

  Lemma ema_eval_gen_eq (beta : K) (v : option K) (r : list K) :
    gen_ema_eval K beta v r = ema_eval beta v r.
  Proof. destruct v; reflexivity. Qed.

  Lemma warmup_eval_gen_eq (alpha v_b l_b v_wb l_wb : K) :
    gen_warmup_eval K alpha v_b l_b v_wb l_wb = warmup_eval alpha v_b l_b v_wb l_wb.
  Proof. reflexivity. Qed.

  Lemma warmup_epoch_callback_gen_eq (alpha : K) (n e : nat) :
    gen_warmup_epoch_callback K alpha n e = warmup_epoch_callback alpha n e.
  Proof. reflexivity. Qed.

  (* the running statistics computed by the translated code over any history of batches *)
  Definition gen_scaler_run (bs : list (list (list K))) : nat * K * K :=
    fold_left (fun st b => match st with (c, m, M2) => gen_scaler_update K c m M2 b end) bs (0%nat, f0, f0).

  Lemma gen_scaler_run_eq bs :
    gen_scaler_run bs = (w_count (w_run (map (@concat K) bs)), w_mean (w_run (map (@concat K) bs)), w_M2 (w_run (map (@concat K) bs))).
  Proof.
    unfold gen_scaler_run, w_run.
    change (0%nat, f0, f0) with (w_count (@w_init K), w_mean (@w_init K), w_M2 (@w_init K)).
    generalize (@w_init K). induction bs as [|b bs IH]; intros s; [reflexivity|].
    cbn [fold_left map]. rewrite scaler_update_gen_eq. apply IH.
  Qed.

  (* every value of every batch (of any shape) counts once *)
  Theorem gen_welford_exact (bs : list (list (list K))) :
    let xs := concat (map (@concat K) bs) in
    match gen_scaler_run bs with
    | (c, m, M2) => c = length xs /\ of_nat (length xs) * m = fsum xs /\ M2 = ssd xs m
    end.
  Proof. cbv zeta. rewrite gen_scaler_run_eq. apply welford_exact. Qed.
End GenEq.

(* instance at R with the standard library's own sum and INR, so the statement is readable without OField *)
From Coq Require Import Reals.
From RL4CO Require Import Base.OFieldR.
Lemma of_nat_INR n : @of_nat RF n = INR n.
Proof.
  induction n as [|n IH]; [reflexivity|]. rewrite S_INR. cbn [of_nat]. rewrite IH. reflexivity.
Qed.
Lemma fsum_fold_right (l : list R) : @fsum RF l = fold_right Rplus 0%R l.
Proof. induction l as [|x l IH]; simpl; [reflexivity | rewrite IH; reflexivity]. Qed.
Lemma welford_exact_R (bs : list (list (list R))) :
  let xs := concat (map (@concat R) bs) in
  match gen_scaler_run RF bs with
  | (c, m, M2) => c = length xs /\ (INR (length xs) * m = fold_right Rplus 0 xs)%R
  end.
Proof.
  cbv zeta. pose proof (gen_welford_exact RF bs) as H. cbv zeta in H.
  destruct (gen_scaler_run RF bs) as [[c m] M2]. destruct H as (H1 & H2 & _).
  split; [exact H1|]. rewrite <- of_nat_INR, <- fsum_fold_right. exact H2.
Qed.
