(* C15: the aggregates EvalBase.__call__ (rl4co/tasks/eval.py) reports next to the padded actions:
     rewards    = torch.cat(rewards_list)          (one entry per instance, loader order)
     avg_reward = rewards.cpu().mean()
   over the abstract ordered field (the pad/concat of the ACTIONS is Train/EvalRegroup.v ev_pad_concat). *)
From Coq Require Import List Arith Bool Lia Ring Field.
From RL4CO Require Import Base.OField Base.OFieldExtra Base.OFieldExtraC16.
Import ListNotations.

Section EvalAggregate.
  Variable K : ofield.
  Open Scope of_scope.
  Add Field Kf_ea : (Fth K).

  (* a loader batch = the reward tensor its _inner returned, as a list *)
  Definition ev_rewards (batches : list (list K)) : list K := concat batches.
  Definition ev_avg_reward (batches : list (list K)) : K := fmean (ev_rewards batches).

  (* count x avg_reward = the total of all per-instance rewards = the sum of the per-batch totals *)
  Theorem ev_avg_reward_total (batches : list (list K)) :
    ev_rewards batches <> [] ->
    of_nat (length (ev_rewards batches)) * ev_avg_reward batches = fsum (map fsum batches).
  Proof.
    intros Hne. unfold ev_avg_reward, fmean. rewrite <- (fsum_concat K). unfold ev_rewards in *.
    destruct (concat batches) as [|x l]; [congruence|]. field. apply of_nat_S_neq0.
  Qed.

  (* the reported average does not depend on how the data loader cut the instances into batches *)
  Theorem ev_avg_reward_batching_irrelevant (bs bs' : list (list K)) :
    concat bs = concat bs' -> ev_avg_reward bs = ev_avg_reward bs'.
  Proof. unfold ev_avg_reward, ev_rewards. intros ->. reflexivity. Qed.

  (* it is the size-weighted mean of the batch means (NOT the mean of the batch means when the last batch is short) *)
  Lemma fsum_len_mean (b : list K) : of_nat (length b) * fmean b = fsum b.
  Proof.
    unfold fmean. destruct b as [|x l]; [cbn [length of_nat fsum]; ring|]. field. apply of_nat_S_neq0.
  Qed.

  Theorem ev_avg_reward_weighted (batches : list (list K)) :
    ev_rewards batches <> [] ->
    ev_avg_reward batches =
      fsum (map (fun b => of_nat (length b) * fmean b) batches) / of_nat (length (ev_rewards batches)).
  Proof.
    intros Hne. unfold ev_avg_reward, fmean at 1. f_equal. unfold ev_rewards. rewrite (fsum_concat K).
    f_equal. apply map_ext. intros b. symmetry. apply fsum_len_mean.
  Qed.

  (* it lies between the worst and the best per-instance reward *)
  Theorem ev_avg_reward_bounds (lo hi : K) (batches : list (list K)) :
    ev_rewards batches <> [] ->
    Forall (fun r => fle lo r /\ fle r hi) (ev_rewards batches) ->
    fle lo (ev_avg_reward batches) /\ fle (ev_avg_reward batches) hi.
  Proof.
    unfold ev_avg_reward. generalize (ev_rewards batches). intros l Hne H.
    destruct l as [|x0 l0]; [congruence|]. set (l := x0 :: l0) in *.
    assert (Hn : flt f0 (of_nat (length l) : K)) by (unfold l; cbn [length]; apply of_nat_pos).
    assert (Hn0 : (of_nat (length l) : K) <> f0) by (apply flt_neq'; exact Hn).
    rewrite Forall_forall in H. unfold fmean. split.
    - replace lo with ((of_nat (length l) * lo) / of_nat (length l)) by (field; exact Hn0).
      apply (fle_div_pos K); [exact Hn|]. rewrite <- (fsum_map_const K lo l).
      rewrite <- (map_id_fsum K l). apply (fsum_map_le K). intros x Hx. apply H. exact Hx.
    - replace hi with ((of_nat (length l) * hi) / of_nat (length l)) by (field; exact Hn0).
      apply (fle_div_pos K); [exact Hn|]. rewrite <- (fsum_map_const K hi l).
      rewrite <- (map_id_fsum K l). apply (fsum_map_le K). intros x Hx. apply H. exact Hx.
  Qed.

  (* mean and sum are different numbers as soon as there are two instances and the total is not 0
     (rewards are negative costs): what separates `rewards.mean()` from `rewards.sum()` *)
  Theorem ev_avg_is_not_the_total (l : list K) :
    2 <= length l -> fsum l <> f0 -> fmean l <> fsum l.
  Proof.
    intros Hlen Hs E. apply Hs. unfold fmean in E.
    destruct l as [|x [|y l']]; cbn [length] in Hlen; try lia.
    set (s := fsum (x :: y :: l')) in *. set (m := length l') in *.
    assert (Hn : (of_nat (S (S m)) : K) <> f0) by apply of_nat_S_neq0.
    assert (Hm : (of_nat (S m) : K) <> f0) by apply of_nat_S_neq0.
    assert (E2 : s * of_nat (S m) = f0).
    { assert (E3 : s = s * of_nat (S (S m))).
      { change (s / of_nat (S (S m)) = s) in E.
        transitivity (s / of_nat (S (S m)) * of_nat (S (S m))); [field; exact Hn | rewrite E; reflexivity]. }
      cbn [of_nat] in *. replace (s * (of_nat m + f1)) with (s * (of_nat m + f1 + f1) - s) by ring.
      rewrite <- E3. ring. }
    replace s with (s * of_nat (S m) / of_nat (S m)) by (field; exact Hm). rewrite E2. field. exact Hm.
  Qed.
  Theorem ev_avg_reward_spec (batches : list (list K)) :
    ev_rewards batches <> [] ->
    (ev_rewards batches = concat batches) /\
    (ev_avg_reward batches = fsum (ev_rewards batches) / of_nat (length (ev_rewards batches))) /\
    (of_nat (length (ev_rewards batches)) * ev_avg_reward batches = fsum (map fsum batches)).
  Proof. intros H. split; [reflexivity|]. split; [reflexivity|]. exact (ev_avg_reward_total batches H). Qed.
End EvalAggregate.

Arguments ev_rewards {K}. Arguments ev_avg_reward {K}.
