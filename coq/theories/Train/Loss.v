(* C16: the training losses AS CODED (dual-number models mirroring reinforce.py, baselines.py, a2c.py,
   ppo.py, pomo/model.py, symnco/model.py + losses.py), the reference surrogates, and the proofs that
   relate them -- value and tangent (= gradient w.r.t. any finite list of formal params).

   Reading guide.  A tensor of n rows is a [list D]; a [B,S] tensor a list of B rows; D = dual number.
   Network outputs (log-likelihoods, critic values, entropies, projected embeddings) are INPUTS of these
   models, with arbitrary tangents: the networks and autograd are not modelled.  Rewards come out of
   the environment / a no-grad rollout; the code does not detach them, so their constness is a
   hypothesis ([Forall is_const reward]) wherever it is needed, and the as-coded tangent without that
   hypothesis is stated too ([calculate_loss_tangent_as_coded]). *)
From Coq Require Import List Arith Bool Lia Ring Field.
From RL4CO Require Import Base.OField Base.OFieldExtraC16 Train.Welford Train.Baselines Train.Dual.
Import ListNotations.

Section Loss.
  Variable K : ofield.
  Variable TM : tmod K.
  Open Scope of_scope.
  Add Field Kf_l : (Fth K).
  Notation D := (dual K TM).

  (* ================================================================ reference surrogate (the spec) *)
  (* - mean_j (A_j * ll_j)  and its gradient  - mean_j (A_j * d ll_j)  for a fixed advantage vector A *)
  Definition ref_pg (A l : list K) : K := - fmean (map2 fmul A l).
  Definition ref_pg_grad (A : list K) (tl : list TM) : TM := topp (tmean (map2 tscale A tl)).
  (* REINFORCE: A = reward - baseline, plus the baseline's own loss *)
  Definition ref_surrogate (r b l : list K) (bl_loss : K) : K := ref_pg (map2 fsub r b) l + bl_loss.
  Definition ref_grad (r b : list K) (tl : list TM) (t_bl : TM) : TM :=
    tadd (ref_pg_grad (map2 fsub r b) tl) t_bl.

  (* ================================================================ REINFORCE.calculate_loss as coded *)
  (* bl_val is a python number / 0-dim tensor (broadcast over the rows) or a [n] tensor *)
  Inductive blval := BScalar (s : D) | BRows (l : list D).
  Definition sub_bl (reward : list D) (b : blval) : list D :=
    match b with
    | BScalar s => map (fun r => dsub r s) reward
    | BRows l => map2 dsub reward l
    end.
  Definition bl_rows (n : nat) (b : blval) : list D :=
    match b with BScalar s => repeat s n | BRows l => l end.
  Definition bl_wf (n : nat) (b : blval) : Prop :=
    match b with BScalar _ => True | BRows l => length l = n end.

  (* RewardScaler(None) = identity; RewardScaler(int) = division by it.  ('norm'/'scale' are C20's.) *)
  Inductive scaler := SNone | SInt (c : K).
  Definition apply_scaler (s : scaler) (adv : list D) : list D :=
    match s with SNone => adv | SInt c => map (fun a => ddivc a c) adv end.

  Record loss_out := { lo_loss : D; lo_reinforce : D; lo_bl_loss : D; lo_bl_val : blval; lo_adv : list D }.

  (* extra = batch.get("extra"); bl_val, bl_loss = baseline.eval(..) if extra is None else (extra, 0)
     advantage = reward - bl_val; advantage = scaler(advantage)
     reinforce_loss = -(advantage * log_likelihood).mean(); loss = reinforce_loss + bl_loss *)
  Definition calculate_loss (sc : scaler) (reward ll : list D) (extra : option (list D))
             (bl_eval : blval * D) : loss_out :=
    let bl := match extra with None => bl_eval | Some ex => (BRows ex, dconst (of_nat 0)) end in
    let advantage := sub_bl reward (fst bl) in
    let advantage := apply_scaler sc advantage in
    let reinforce_loss := dopp (dmean (map2 dmul advantage ll)) in
    {| lo_loss := dadd reinforce_loss (snd bl); lo_reinforce := reinforce_loss;
       lo_bl_loss := snd bl; lo_bl_val := fst bl; lo_adv := advantage |}.

  (* ---------------------------------------------------------------- generic facts about the core *)
  Lemma sub_bl_rows (reward : list D) (b : blval) :
    sub_bl reward b = map2 dsub reward (bl_rows (length reward) b).
  Proof.
    destruct b as [s|l]; [|reflexivity]. cbn [sub_bl bl_rows].
    induction reward as [|r reward IH]; [reflexivity|]. cbn [map length repeat map2]. rewrite IH. reflexivity.
  Qed.

  Lemma map_dv_dmul_dsub (r b l : list D) :
    map dv (map2 dmul (map2 dsub r b) l) = map2 fmul (map2 fsub (map dv r) (map dv b)) (map dv l).
  Proof.
    revert b l. induction r as [|x r IH]; intros [|y b] [|z l]; try reflexivity.
    cbn [map2 map]. rewrite IH. reflexivity.
  Qed.

  Lemma map_dt_dmul_const (a l : list D) :
    Forall is_const a ->
    map dt (map2 dmul a l) = map2 tscale (map dv a) (map dt l).
  Proof.
    intros H. revert l. induction H as [|x a Hx _ IH]; intros [|z l]; try reflexivity.
    cbn [map2 map]. rewrite IH, dt_dmul_const_l by exact Hx. reflexivity.
  Qed.

  Lemma map2_dsub_const (r b : list D) :
    Forall is_const r -> Forall is_const b -> Forall is_const (map2 dsub r b).
  Proof.
    intros Hr. revert b. induction Hr as [|x r Hx _ IH]; intros [|y b] Hb; try constructor.
    - inversion Hb; subst. apply dsub_const; assumption.
    - inversion Hb; subst. apply IH. assumption.
  Qed.

  Lemma map_dv_map2_dsub (r b : list D) : map dv (map2 dsub r b) = map2 fsub (map dv r) (map dv b).
  Proof. apply map_dv_map2. reflexivity. Qed.

  (* value and tangent of  -(adv * ll).mean()  for an arbitrary advantage list *)
  Lemma pg_value (adv ll : list D) :
    dv (dopp (dmean (map2 dmul adv ll))) = ref_pg (map dv adv) (map dv ll).
  Proof.
    unfold ref_pg. cbn [dopp dv]. rewrite dv_dmean.
    rewrite (map_dv_map2 K TM dmul fmul) by reflexivity. reflexivity.
  Qed.

  Lemma pg_tangent_const (adv ll : list D) :
    Forall is_const adv ->
    dt (dopp (dmean (map2 dmul adv ll))) = ref_pg_grad (map dv adv) (map dt ll).
  Proof.
    intros H. unfold ref_pg_grad. cbn [dopp dt]. rewrite dt_dmean, map_dt_dmul_const by exact H. reflexivity.
  Qed.

  (* the tangent exactly as the code computes it, no constness assumed: every factor contributes *)
  Lemma pg_tangent_as_coded (adv ll : list D) :
    dt (dopp (dmean (map2 dmul adv ll))) =
      topp (tmean (map2 (fun a l => tadd (tscale (dv a) (dt l)) (tscale (dv l) (dt a))) adv ll)).
  Proof. cbn [dopp dt]. rewrite dt_dmean, map_map2. reflexivity. Qed.

  Definition the_bl (extra : option (list D)) (ble : blval * D) : blval * D :=
    match extra with None => ble | Some ex => (BRows ex, dconst (of_nat 0)) end.

  (* ---------------------------------------------------------------- reinforce_value *)
  Theorem calculate_loss_value (reward ll : list D) (extra : option (list D)) (ble : blval * D) :
    let bl := the_bl extra ble in
    dv (lo_loss (calculate_loss SNone reward ll extra ble)) =
      ref_surrogate (map dv reward) (map dv (bl_rows (length reward) (fst bl))) (map dv ll) (dv (snd bl)).
  Proof.
    cbv zeta. unfold calculate_loss, ref_surrogate. cbn [lo_loss apply_scaler]. fold (the_bl extra ble).
    cbn [dadd dv]. rewrite pg_value, sub_bl_rows, map_dv_map2_dsub. reflexivity.
  Qed.

  (* with an integer reward scale c the advantage is divided by c, nothing else changes *)
  Theorem calculate_loss_value_scaled (c : K) (reward ll : list D) (extra : option (list D)) (ble : blval * D) :
    let bl := the_bl extra ble in
    dv (lo_loss (calculate_loss (SInt c) reward ll extra ble)) =
      ref_pg (map (fun a => a / c) (map2 fsub (map dv reward) (map dv (bl_rows (length reward) (fst bl))))) (map dv ll)
      + dv (snd bl).
  Proof.
    cbv zeta. unfold calculate_loss. cbn [lo_loss apply_scaler]. fold (the_bl extra ble).
    cbn [dadd dv]. rewrite pg_value, sub_bl_rows, map_map, <- map_dv_map2_dsub, map_map. reflexivity.
  Qed.

  (* ---------------------------------------------------------------- reinforce_grad *)
  Definition bl_const (b : blval) : Prop :=
    match b with BScalar s => is_const s | BRows l => Forall is_const l end.

  Lemma bl_rows_const n b : bl_const b -> Forall is_const (bl_rows n b).
  Proof.
    destruct b as [s|l]; cbn [bl_const bl_rows]; [|tauto].
    intros H. apply Forall_forall. intros x Hx. apply repeat_spec in Hx. subst. exact H.
  Qed.

  Theorem calculate_loss_grad (reward ll : list D) (extra : option (list D)) (ble : blval * D) :
    let bl := the_bl extra ble in
    Forall is_const reward -> bl_const (fst bl) ->
    dt (lo_loss (calculate_loss SNone reward ll extra ble)) =
      ref_grad (map dv reward) (map dv (bl_rows (length reward) (fst bl))) (map dt ll) (dt (snd bl)).
  Proof.
    cbv zeta. intros Hr Hb. unfold calculate_loss, ref_grad. cbn [lo_loss apply_scaler]. fold (the_bl extra ble).
    cbn [dadd dt]. rewrite sub_bl_rows, pg_tangent_const, map_dv_map2_dsub; [reflexivity|].
    apply map2_dsub_const; [exact Hr | apply bl_rows_const; exact Hb].
  Qed.

  Theorem calculate_loss_tangent_as_coded (sc : scaler) (reward ll : list D) (extra : option (list D)) (ble : blval * D) :
    let o := calculate_loss sc reward ll extra ble in
    dt (lo_loss o) =
      tadd (topp (tmean (map2 (fun a l => tadd (tscale (dv a) (dt l)) (tscale (dv l) (dt a))) (lo_adv o) ll)))
           (dt (lo_bl_loss o)).
  Proof. cbv zeta. unfold calculate_loss. cbn [lo_loss lo_adv lo_bl_loss dadd dt]. rewrite pg_tangent_as_coded. reflexivity. Qed.

  (* ================================================================ the bundled baselines as coded *)
  (* NoBaseline.eval: return 0, 0 *)
  Definition no_eval : blval * D := (BScalar (dconst (of_nat 0)), dconst (of_nat 0)).

  (* ExponentialBaseline.eval (MeanBaseline = beta 0): v = reward.mean() | beta*self.v + (1.-beta)*reward.mean();
     self.v = v.detach(); return self.v, 0.   State: the stored value (None before the first call). *)
  Definition ema_eval_d (beta : K) (st : option K) (reward : list D) : option K * (blval * D) :=
    let v := match st with
             | None => dmean reward
             | Some old => dadd (dscale beta (dconst old)) (dscale (of_nat 1 - beta) (dmean reward))
             end in
    (Some (dv v), (BScalar (detach v), dconst (of_nat 0))).

  (* RolloutBaseline.eval: the greedy policy copy's rewards, computed under inference mode *)
  Definition rollout_eval (vals : list K) : blval * D := (BRows (map dconst vals), dconst (of_nat 0)).

  (* CriticBaseline.eval: v = critic(x).squeeze(-1); return v.detach(), F.mse_loss(v, c.detach()) *)
  Definition critic_eval (v reward : list D) : blval * D :=
    (BRows (map detach v), dmse v (map detach reward)).

  (* WarmupBaseline.eval *)
  Definition mix (alpha : K) (x y : D) : D := dadd (dscale alpha x) (dscale (of_nat 1 - alpha) y).
  Definition mix_bl (alpha : K) (x y : blval) : blval :=
    match x, y with
    | BScalar a, BScalar b => BScalar (mix alpha a b)
    | BRows l, BScalar b => BRows (map (fun a => mix alpha a b) l)
    | BScalar a, BRows l => BRows (map (fun b => mix alpha a b) l)
    | BRows l, BRows l' => BRows (map2 (mix alpha) l l')
    end.
  (* state = the warm-up ExponentialBaseline's stored value; [inner] = what the wrapped baseline's eval
     returns on this batch (it is evaluated only when alpha <> 0) *)
  Definition warmup_eval_d (alpha beta : K) (st : option K) (inner : blval * D) (reward : list D)
    : option K * (blval * D) :=
    if feqb alpha (of_nat 1) then (st, inner)
    else let wb := ema_eval_d beta st reward in
         if feqb alpha (of_nat 0) then wb
         else (fst wb, (mix_bl alpha (fst inner) (fst (snd wb)), mix alpha (snd inner) (snd (snd wb)))).

  (* ---------------------------------------------------------------- their values, via Train/Baselines.v *)
  Lemma ema_eval_d_model beta st reward :
    let o := ema_eval beta st (map dv reward) in
    fst (ema_eval_d beta st reward) = ema_state o /\
    fst (snd (ema_eval_d beta st reward)) = BScalar (dconst (ema_value o)) /\
    snd (snd (ema_eval_d beta st reward)) = dconst f0.
  Proof.
    cbv zeta. destruct st as [old|]; unfold ema_eval_d, ema_eval, ema_state, ema_value, detach, dconst;
      cbn [fst snd dv dadd dscale]; rewrite dv_dmean; repeat split; reflexivity.
  Qed.

  Lemma ema_bl_const beta st reward : bl_const (fst (snd (ema_eval_d beta st reward))).
  Proof. reflexivity. Qed.
  Lemma rollout_bl_const vals : bl_const (fst (rollout_eval vals)).
  Proof. cbn [rollout_eval fst bl_const]. apply Forall_forall. intros x Hx. apply in_map_iff in Hx as (c & <- & _). reflexivity. Qed.
  Lemma critic_bl_const v reward : bl_const (fst (critic_eval v reward)).
  Proof. cbn [critic_eval fst bl_const]. apply Forall_forall. intros x Hx. apply in_map_iff in Hx as (c & <- & _). reflexivity. Qed.
  Lemma no_bl_const : bl_const (fst no_eval).
  Proof. reflexivity. Qed.

  Lemma mix_const alpha x y : is_const x -> is_const y -> is_const (mix alpha x y).
  Proof. intros Hx Hy. unfold mix. apply dadd_const; apply dscale_const; assumption. Qed.

  Lemma mix_bl_const alpha x y : bl_const x -> bl_const y -> bl_const (mix_bl alpha x y).
  Proof.
    destruct x as [a|l], y as [b|l']; cbn [mix_bl bl_const]; intros Hx Hy.
    - apply mix_const; assumption.
    - apply Forall_forall. intros z Hz. apply in_map_iff in Hz as (b & <- & Hb).
      apply mix_const; [exact Hx|]. rewrite Forall_forall in Hy. apply Hy. exact Hb.
    - apply Forall_forall. intros z Hz. apply in_map_iff in Hz as (a & <- & Ha).
      apply mix_const; [|exact Hy]. rewrite Forall_forall in Hx. apply Hx. exact Ha.
    - revert l' Hy. induction Hx as [|a l Ha _ IH]; intros [|b l'] Hy; try constructor.
      + inversion Hy; subst. apply mix_const; assumption.
      + inversion Hy; subst. apply IH. assumption.
  Qed.

  Lemma warmup_bl_const alpha beta st inner reward :
    bl_const (fst inner) -> bl_const (fst (snd (warmup_eval_d alpha beta st inner reward))).
  Proof.
    intros Hi. unfold warmup_eval_d. destruct (feqb alpha (of_nat 1)); [exact Hi|].
    destruct (feqb alpha (of_nat 0)); [apply ema_bl_const|]. cbn [fst snd].
    apply mix_bl_const; [exact Hi | apply ema_bl_const].
  Qed.

  (* the warm-up mixture, row by row, is the convex combination that Train/Baselines.v's model returns *)
  Theorem warmup_rows_value alpha beta st (vb : list D) (lb : D) (reward : list D) :
    let o := ema_eval beta st (map dv reward) in
    let w := warmup_eval_d alpha beta st (BRows vb, lb) reward in
    length vb = length reward ->
    map dv (bl_rows (length reward) (fst (snd w))) =
      map (fun b => fst (warmup_eval alpha (dv b) (dv lb) (ema_value o) f0)) vb /\
    dv (snd (snd w)) = snd (warmup_eval alpha f0 (dv lb) (ema_value o) f0).
  Proof.
    cbv zeta. intros Hlen. unfold warmup_eval_d, warmup_eval.
    destruct (feqb alpha (of_nat 1)) eqn:E1; cbn [fst snd bl_rows].
    - split; [|reflexivity]. apply map_ext. reflexivity.
    - destruct (ema_eval_d_model beta st reward) as (_ & Hv & Hl). cbv zeta in Hv, Hl.
      destruct (feqb alpha (of_nat 0)) eqn:E0.
      + rewrite Hv, Hl. cbn [bl_rows]. split; [|reflexivity].
        rewrite <- Hlen. clear. induction vb as [|b vb IH]; [reflexivity|]. cbn [length repeat map]. rewrite IH. reflexivity.
      + cbn [fst snd]. rewrite Hv, Hl. cbn [mix_bl bl_rows]. split.
        * rewrite map_map. apply map_ext. intros b. reflexivity.
        * reflexivity.
  Qed.

  (* ---------------------------------------------------------------- critic: A2C / REINFORCE('critic') *)
  Lemma map_dv_detach (l : list D) : map dv (map detach l) = map dv l.
  Proof. rewrite map_map. apply map_ext. reflexivity. Qed.

  (* value of the baseline loss: mean squared error *)
  Lemma critic_bl_loss_value (v reward : list D) :
    dv (snd (critic_eval v reward)) = fmean (map2 (fun a c => (a - c) * (a - c)) (map dv v) (map dv reward)).
  Proof.
    cbn [critic_eval snd]. unfold dmse. rewrite dv_dmean.
    rewrite (map_dv_map2 K TM _ (fun a c => (a - c) * (a - c))) by reflexivity.
    rewrite map_dv_detach. reflexivity.
  Qed.

  (* its tangent: (1/n) sum_j 2 (v_j - c_j) dv_j -- only the critic outputs' tangents enter *)
  Lemma critic_bl_loss_tangent (v reward : list D) :
    dt (snd (critic_eval v reward)) =
      tmean (map2 (fun a c => tscale ((dv a - dv c) + (dv a - dv c)) (dt a)) v reward).
  Proof.
    cbn [critic_eval snd]. unfold dmse. rewrite dt_dmean. f_equal.
    rewrite map_map2, map2_map_r. apply map2_ext_in. intros a c _ _.
    cbn [dsub dmul detach dv dt]. rewrite topp_0, tadd_0_r. symmetry. apply tscale_add_l.
  Qed.

  (* critic_grad_only_through_bl_loss: the policy-gradient term does not see the critic's tangents at all --
     replacing the critic outputs by any others with the same values leaves it unchanged as a dual number *)
  Theorem critic_grad_only_through_bl_loss (sc : scaler) (reward ll v v' : list D) :
    map dv v = map dv v' ->
    lo_reinforce (calculate_loss sc reward ll None (critic_eval v reward)) =
    lo_reinforce (calculate_loss sc reward ll None (critic_eval v' reward)).
  Proof.
    intros H. unfold calculate_loss. cbn [lo_reinforce critic_eval fst].
    assert (E : map detach v = map detach v').
    { revert v' H. induction v as [|x v IH]; intros [|y v'] H; try discriminate; [reflexivity|].
      cbn [map] in *. injection H as H1 H2. unfold detach at 1 3. rewrite H1. f_equal. apply IH. exact H2. }
    rewrite E. reflexivity.
  Qed.

  (* A2C / critic baseline: loss value and full tangent *)
  Theorem a2c_value (reward ll v : list D) :
    length v = length reward ->
    dv (lo_loss (calculate_loss SNone reward ll None (critic_eval v reward))) =
      ref_surrogate (map dv reward) (map dv v) (map dv ll)
        (fmean (map2 (fun a c => (a - c) * (a - c)) (map dv v) (map dv reward))).
  Proof.
    intros _. pose proof (calculate_loss_value reward ll None (critic_eval v reward)) as H. cbv zeta in H.
    rewrite H. cbn [the_bl]. rewrite critic_bl_loss_value. cbn [critic_eval fst bl_rows]. rewrite map_dv_detach. reflexivity.
  Qed.

  Theorem a2c_grad (reward ll v : list D) :
    Forall is_const reward ->
    dt (lo_loss (calculate_loss SNone reward ll None (critic_eval v reward))) =
      tadd (ref_pg_grad (map2 fsub (map dv reward) (map dv v)) (map dt ll))
           (tmean (map2 (fun a c => tscale ((dv a - dv c) + (dv a - dv c)) (dt a)) v reward)).
  Proof.
    intros Hr. pose proof (calculate_loss_grad reward ll None (critic_eval v reward)) as H. cbv zeta in H.
    rewrite H; [|exact Hr | apply critic_bl_const]. cbn [the_bl]. unfold ref_grad.
    rewrite critic_bl_loss_tangent. cbn [critic_eval fst bl_rows]. rewrite map_dv_detach. reflexivity.
  Qed.

  (* every bundled baseline hands out a value without tangent (detach / inference mode / python number) *)
  Theorem bundled_baselines_const :
    bl_const (fst no_eval) /\
    (forall beta st reward, bl_const (fst (snd (ema_eval_d beta st reward)))) /\
    (forall vals, bl_const (fst (rollout_eval vals))) /\
    (forall v reward, bl_const (fst (critic_eval v reward))) /\
    (forall alpha beta st inner reward, bl_const (fst inner) ->
        bl_const (fst (snd (warmup_eval_d alpha beta st inner reward)))).
  Proof.
    split; [apply no_bl_const|]. split; [intros; apply ema_bl_const|]. split; [apply rollout_bl_const|].
    split; [apply critic_bl_const|]. intros. apply warmup_bl_const. assumption.
  Qed.

  (* warm-up mixture = alpha * wrapped + (1 - alpha) * EMA, for every alpha (incl. the two short-cut branches) *)
  Theorem warmup_rows_convex alpha beta st (vb : list D) (lb : D) (reward : list D) :
    let o := ema_eval beta st (map dv reward) in
    let w := warmup_eval_d alpha beta st (BRows vb, lb) reward in
    length vb = length reward ->
    map dv (bl_rows (length reward) (fst (snd w))) =
      map (fun b => alpha * dv b + (f1 - alpha) * ema_value o) vb /\
    dv (snd (snd w)) = alpha * dv lb + (f1 - alpha) * f0.
  Proof.
    cbv zeta. intros Hlen. destruct (warmup_rows_value alpha beta st vb lb reward Hlen) as [H1 H2].
    cbv zeta in H1, H2. rewrite H1, H2. split.
    - apply map_ext. intros b. rewrite warmup_convex. reflexivity.
    - rewrite warmup_convex. reflexivity.
  Qed.

  (* ================================================================ successive training steps (stateful EMA) *)
  Definition train_step := (list D * list D)%type.       (* reward, log-likelihood of one batch *)

  Fixpoint ema_train_run (beta : K) (st : option K) (hist : list train_step) : list D :=
    match hist with
    | [] => []
    | (reward, ll) :: rest =>
        let o := ema_eval_d beta st reward in
        lo_loss (calculate_loss SNone reward ll None (snd o)) :: ema_train_run beta (fst o) rest
    end.

  (* what a loss has to be, given the scalar baseline value b handed out at that step *)
  Definition step_ok (loss : D) (s : train_step) (b : K) : Prop :=
    let n := length (fst s) in
    dv loss = ref_surrogate (map dv (fst s)) (repeat b n) (map dv (snd s)) f0 /\
    (Forall is_const (fst s) -> dt loss = ref_grad (map dv (fst s)) (repeat b n) (map dt (snd s)) t0).

  Lemma map_repeat {A B} (f : A -> B) (x : A) n : map f (repeat x n) = repeat (f x) n.
  Proof. induction n as [|n IH]; [reflexivity|]. cbn [repeat map]. rewrite IH. reflexivity. Qed.

  Theorem reinforce_ema_history (beta : K) (hist : list train_step) :
    forall st,
    Forall2 (fun loss sb => step_ok loss (fst sb) (snd sb))
            (ema_train_run beta st hist)
            (combine hist (ema_run beta st (map (fun s => map dv (fst s)) hist))).
  Proof.
    induction hist as [|[reward ll] hist IH]; intros st; [constructor|].
    cbn [ema_train_run map ema_run combine].
    destruct (ema_eval_d_model beta st reward) as (Hst & Hv & Hl). cbv zeta in Hst, Hv, Hl.
    constructor.
    - cbn [fst snd]. unfold step_ok. cbn [fst snd]. split.
      + pose proof (calculate_loss_value reward ll None (snd (ema_eval_d beta st reward))) as H. cbv zeta in H.
        rewrite H. cbn [the_bl]. rewrite Hv, Hl. cbn [bl_rows dconst dv]. rewrite map_repeat. reflexivity.
      + intros Hr.
        pose proof (calculate_loss_grad reward ll None (snd (ema_eval_d beta st reward))) as H. cbv zeta in H.
        rewrite H; [|exact Hr | apply ema_bl_const]. cbn [the_bl]. rewrite Hv, Hl. cbn [bl_rows dconst dv dt].
        rewrite map_repeat. reflexivity.
    - rewrite Hst. apply IH.
  Qed.
End Loss.

Arguments ref_pg {K}. Arguments ref_pg_grad {K TM}. Arguments ref_surrogate {K}. Arguments ref_grad {K TM}.
Arguments BScalar {K TM}. Arguments BRows {K TM}. Arguments sub_bl {K TM}. Arguments bl_rows {K TM}.
Arguments bl_wf {K TM}. Arguments SNone {K}. Arguments SInt {K}. Arguments apply_scaler {K TM}.
Arguments lo_loss {K TM}. Arguments lo_reinforce {K TM}. Arguments lo_bl_loss {K TM}. Arguments lo_bl_val {K TM}.
Arguments lo_adv {K TM}. Arguments calculate_loss {K TM}. Arguments the_bl {K TM}. Arguments bl_const {K TM}.
Arguments no_eval {K TM}. Arguments ema_eval_d {K TM}. Arguments rollout_eval {K TM}. Arguments critic_eval {K TM}.
Arguments mix {K TM}. Arguments mix_bl {K TM}. Arguments warmup_eval_d {K TM}. Arguments ema_train_run {K TM}.
Arguments step_ok {K TM}.
