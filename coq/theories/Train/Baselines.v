(* C20 (and C16): stateful REINFORCE baselines -- ExponentialBaseline, MeanBaseline (= beta 0),
   WarmupBaseline; models mirroring rl4co/models/rl/reinforce/baselines.py. *)
From Coq Require Import List Arith Bool Lia Ring Field.
From RL4CO Require Import Base.OField.
Import ListNotations.

Section Baselines.
  Variable K : ofield.
  Open Scope of_scope.
  Add Field Kf_b : (Fth K).

  (* ExponentialBaseline.eval : state v (None before the first call), returns (new state, value, loss) *)
  Definition ema_eval (beta : K) (v : option K) (reward : list K) : option K * K * K :=
    match v with
    | None => let v' := fmean reward in (Some v', v', of_nat 0)
    | Some old => let v' := beta * old + (of_nat 1 - beta) * fmean reward in (Some v', v', of_nat 0)
    end.

  Definition ema_state (r : option K * K * K) : option K := fst (fst r).
  Definition ema_value (r : option K * K * K) : K := snd (fst r).
  Definition ema_loss (r : option K * K * K) : K := snd r.

  (* run over a history of reward batches; returns the list of baseline values handed out *)
  Fixpoint ema_run (beta : K) (v : option K) (hist : list (list K)) : list K :=
    match hist with
    | [] => []
    | r :: rest => let o := ema_eval beta v r in ema_value o :: ema_run beta (ema_state o) rest
    end.

  (* the recurrence, as a specification on the sequence of batch means *)
  Fixpoint ema_spec (beta : K) (prev : K) (means : list K) : list K :=
    match means with
    | [] => []
    | m :: rest => let v := beta * prev + (f1 - beta) * m in v :: ema_spec beta v rest
    end.

  Theorem ema_recurrence beta (r0 : list K) (hist : list (list K)) :
    ema_run beta None (r0 :: hist) = fmean r0 :: ema_spec beta (fmean r0) (map fmean hist).
  Proof.
    cbn [ema_run ema_eval ema_value ema_state fst snd]. f_equal.
    generalize (fmean r0). induction hist as [|r hist IH]; intros v; [reflexivity|].
    cbn [ema_run ema_eval ema_value ema_state fst snd map ema_spec].
    assert (E : beta * v + (of_nat 1 - beta) * fmean r = beta * v + (f1 - beta) * fmean r) by (simpl; ring).
    rewrite E. f_equal. apply IH.
  Qed.

  Theorem ema_no_loss beta v r : ema_loss (ema_eval beta v r) = f0.
  Proof. destruct v; reflexivity. Qed.

  (* MeanBaseline = ExponentialBaseline(beta = 0): the value is the mean of the current batch *)
  Theorem mean_baseline_is_beta0 v (r : list K) : ema_value (ema_eval f0 v r) = fmean r.
  Proof. destruct v; cbn [ema_eval ema_value fst snd]; [simpl; ring | reflexivity]. Qed.

  (* closed form: v_t = beta^t m_0 + (1-beta) sum_{i=1..t} beta^(t-i) m_i *)
  Fixpoint fpow (b : K) (n : nat) : K := match n with O => f1 | S k => b * fpow b k end.
  Fixpoint ema_closed (beta : K) (acc : K) (means : list K) : K :=
    match means with [] => acc | m :: rest => ema_closed beta (beta * acc + (f1 - beta) * m) rest end.
  Lemma ema_spec_last beta prev means d :
    last (prev :: ema_spec beta prev means) d = ema_closed beta prev means.
  Proof.
    revert prev. induction means as [|m means IH]; intros prev; [reflexivity|].
    cbn [ema_spec ema_closed]. rewrite <- IH. reflexivity.
  Qed.

  (* convexity: with 0 <= beta <= 1 every value stays between bounds that hold for all batch means *)
  Theorem ema_bounded beta lo hi prev means :
    fle f0 beta -> fle beta f1 -> fle lo prev -> fle prev hi ->
    Forall (fun m => fle lo m /\ fle m hi) means ->
    Forall (fun v => fle lo v /\ fle v hi) (ema_spec beta prev means).
  Proof.
    intros Hb0 Hb1. revert prev. induction means as [|m means IH]; intros prev Hlo Hhi Hall; [constructor|].
    inversion Hall as [|? ? [Hml Hmh] Hrest]; subst. cbn [ema_spec].
    assert (H1b : fle f0 (f1 - beta)) by (apply fle_sub_nonneg; exact Hb1).
    assert (Lo : fle lo (beta * prev + (f1 - beta) * m)).
    { apply fle_of_sub.
      replace (beta * prev + (f1 - beta) * m - lo) with (beta * (prev - lo) + (f1 - beta) * (m - lo)) by ring.
      replace (f0 : K) with ((f0 : K) + f0) by ring.
      apply fle_add; apply fmul_nonneg; try assumption; apply fle_sub_nonneg; assumption. }
    assert (Hi : fle (beta * prev + (f1 - beta) * m) hi).
    { apply fle_of_sub.
      replace (hi - (beta * prev + (f1 - beta) * m)) with (beta * (hi - prev) + (f1 - beta) * (hi - m)) by ring.
      replace (f0 : K) with ((f0 : K) + f0) by ring.
      apply fle_add; apply fmul_nonneg; try assumption; apply fle_sub_nonneg; assumption. }
    constructor; [split; assumption|]. apply IH; assumption.
  Qed.

  (* ------------------------------------------------------------------ WarmupBaseline *)
  (* eval: inner results are inputs (v_b,l_b) of the wrapped baseline and (v_wb,l_wb) of the warm-up EMA *)
  Definition warmup_eval (alpha v_b l_b v_wb l_wb : K) : K * K :=
    if feqb alpha (of_nat 1) then (v_b, l_b)
    else if feqb alpha (of_nat 0) then (v_wb, l_wb)
    else (alpha * v_b + (of_nat 1 - alpha) * v_wb, alpha * l_b + (of_nat 1 - alpha) * l_wb).

  Definition warmup_epoch_callback (alpha : K) (n_epochs epoch : nat) : K :=
    if Nat.ltb epoch n_epochs then of_nat (epoch + 1) / of_nat n_epochs else alpha.

  Theorem warmup_convex alpha v_b l_b v_wb l_wb :
    warmup_eval alpha v_b l_b v_wb l_wb =
      (alpha * v_b + (f1 - alpha) * v_wb, alpha * l_b + (f1 - alpha) * l_wb).
  Proof.
    unfold warmup_eval.
    destruct (feqb alpha (of_nat 1)) eqn:E1.
    - apply feqb_eq in E1. rewrite E1. simpl. f_equal; ring.
    - destruct (feqb alpha (of_nat 0)) eqn:E0.
      + apply feqb_eq in E0. rewrite E0. simpl. f_equal; ring.
      + simpl. f_equal; ring.
  Qed.

  (* alpha after the callbacks of epochs 0,1,...,e-1 (Lightning calls them in order) *)
  Definition warmup_alpha_after (n_epochs e : nat) : K :=
    fold_left (fun a ep => warmup_epoch_callback a n_epochs ep) (seq 0 e) f0.

  Lemma of_nat_le n m : (n <= m)%nat -> fle (of_nat n : K) (of_nat m).
  Proof.
    intros H. replace m with (n + (m - n))%nat by lia. rewrite of_nat_add.
    set (a := of_nat n : K). set (b := of_nat (m - n) : K).
    replace a with (f0 + a) at 1 by ring.
    replace (a + b) with (b + a) by ring.
    apply fadd_le. apply of_nat_nonneg.
  Qed.

  Theorem warmup_alpha (n_epochs e : nat) :
    (0 < n_epochs)%nat ->
    warmup_alpha_after n_epochs e =
      if Nat.leb n_epochs e then f1 else of_nat e / of_nat n_epochs.
  Proof.
    intros Hn. unfold warmup_alpha_after.
    induction e as [|e IH].
    - simpl. destruct n_epochs as [|n]; [lia|]. cbn [Nat.leb]. field. apply of_nat_S_neq0.
    - rewrite seq_S, fold_left_app. cbn [fold_left]. rewrite IH. cbn [plus].
      unfold warmup_epoch_callback.
      destruct (Nat.ltb e n_epochs) eqn:El.
      + apply Nat.ltb_lt in El. destruct (Nat.leb n_epochs (S e)) eqn:E2.
        * apply Nat.leb_le in E2. assert (S e = n_epochs) as <- by lia.
          replace (e + 1)%nat with (S e) by lia. field. apply of_nat_S_neq0.
        * replace (e + 1)%nat with (S e) by lia. reflexivity.
      + apply Nat.ltb_ge in El.
        replace (Nat.leb n_epochs e) with true by (symmetry; apply Nat.leb_le; lia).
        replace (Nat.leb n_epochs (S e)) with true by (symmetry; apply Nat.leb_le; lia). reflexivity.
  Qed.

  Theorem warmup_alpha_range n_epochs e :
    (0 < n_epochs)%nat -> fle f0 (warmup_alpha_after n_epochs e) /\ fle (warmup_alpha_after n_epochs e) f1.
  Proof.
    intros Hn. rewrite warmup_alpha by exact Hn.
    destruct (Nat.leb n_epochs e) eqn:E.
    - split; [apply fle_0_1 | apply fle_refl].
    - apply Nat.leb_gt in E. destruct n_epochs as [|n]; [lia|]. split.
      + apply fdiv_nonneg; [apply of_nat_nonneg | apply of_nat_pos].
      + apply fle_of_sub.
        replace (f1 - of_nat e / of_nat (S n)) with ((of_nat (S n) - of_nat e) / (of_nat (S n) : K))
          by (field; apply of_nat_S_neq0).
        apply fdiv_nonneg; [|apply of_nat_pos]. apply fle_sub_nonneg. apply of_nat_le. lia.
  Qed.

  Theorem warmup_alpha_monotone n_epochs e :
    (0 < n_epochs)%nat -> fle (warmup_alpha_after n_epochs e) (warmup_alpha_after n_epochs (S e)).
  Proof.
    intros Hn. rewrite !warmup_alpha by exact Hn.
    destruct (Nat.leb n_epochs e) eqn:E.
    - apply Nat.leb_le in E. replace (Nat.leb n_epochs (S e)) with true by (symmetry; apply Nat.leb_le; lia).
      apply fle_refl.
    - apply Nat.leb_gt in E. destruct n_epochs as [|n]; [lia|].
      destruct (Nat.leb (S n) (S e)) eqn:E2.
      + apply Nat.leb_le in E2. assert (e = n) as -> by lia.
        apply fle_of_sub.
        replace (f1 - of_nat n / of_nat (S n)) with (f1 / (of_nat (S n) : K)).
        * apply fdiv_nonneg; [apply fle_0_1 | apply of_nat_pos].
        * simpl. field. apply (of_nat_S_neq0 K n).
      + apply fle_of_sub.
        replace (of_nat (S e) / of_nat (S n) - of_nat e / of_nat (S n)) with (f1 / (of_nat (S n) : K)).
        * apply fdiv_nonneg; [apply fle_0_1 | apply of_nat_pos].
        * simpl. field. apply (of_nat_S_neq0 K n).
  Qed.
End Baselines.

Arguments ema_eval {K}. Arguments ema_run {K}. Arguments ema_spec {K}. Arguments ema_value {K}.
Arguments ema_state {K}. Arguments ema_loss {K}. Arguments warmup_eval {K}.
Arguments warmup_epoch_callback {K}. Arguments warmup_alpha_after {K}.
