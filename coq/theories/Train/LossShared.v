(* C16, shared-baseline variants: POMO.shared_step and SymNCO.shared_step as coded.
   The policy returns one reward / log-likelihood per ROW of the replicated batch (a flat list indexed
   by row); [unbatchify] regroups rows by index arithmetic; the shared baseline is the mean of a group. *)
From Coq Require Import List Arith Bool Lia Ring Field.
From RL4CO Require Import Base.OField Base.OFieldExtraC16 Train.Dual Train.Loss.
Import ListNotations.

(* ================================================================ rl4co.utils.ops.unbatchify *)
(* _unbatchify_single(x, r) = x.view(r, m, ...).permute(1, 0, ...), m = len(x) / r:  out[b][j] = x[j*m + b] *)
Definition unbatch1 {A} (d : A) (x : list A) (r : nat) : list (list A) :=
  let m := length x / r in
  map (fun b => map (fun j => nth (j * m + b) x d) (seq 0 r)) (seq 0 m).
(* unbatchify(x, (s, a)) with s, a > 0: first by a, then by s:  out[b][i][j] = x[j*(s*B) + i*B + b] *)
Definition unbatch2 {A} (d : A) (x : list A) (s a : nat) : list (list (list A)) :=
  unbatch1 [] (unbatch1 d x a) s.
(* the groups along dim=1 of a [B][S][A] tensor: for every b and j, the column j of block b *)
Definition cols {A} (d : A) (a : nat) (m : list (list A)) : list (list A) :=
  map (fun j => map (fun row => nth j row d) m) (seq 0 a).

Lemma nth_map_seq {A} (f : nat -> A) n b d : b < n -> nth b (map f (seq 0 n)) d = f b.
Proof.
  intros H. rewrite (nth_indep _ d (f 0)) by (rewrite map_length, seq_length; exact H).
  rewrite map_nth, seq_nth by exact H. reflexivity.
Qed.

Lemma unbatch1_length {A} (d : A) x r : length (unbatch1 d x r) = length x / r.
Proof. unfold unbatch1. rewrite map_length, seq_length. reflexivity. Qed.

Lemma unbatch1_nth {A} (d : A) x r b j dl :
  b < length x / r -> j < r ->
  nth j (nth b (unbatch1 d x r) dl) d = nth (j * (length x / r) + b) x d.
Proof. intros Hb Hj. unfold unbatch1. rewrite nth_map_seq by exact Hb. rewrite nth_map_seq by exact Hj. reflexivity. Qed.

Lemma unbatch1_row_length {A} (d : A) x r : Forall (fun g => length g = r) (unbatch1 d x r).
Proof.
  unfold unbatch1. apply Forall_forall. intros g Hg. apply in_map_iff in Hg as (b & <- & _).
  rewrite map_length, seq_length. reflexivity.
Qed.

(* the row index that lands at position [b][i][j] *)
Theorem unbatch2_index (B s a b i j : nat) :
  0 < s -> 0 < a -> b < B -> i < s -> j < a ->
  nth j (nth i (nth b (unbatch2 0 (seq 0 (B * s * a)) s a) []) []) 0 = j * (s * B) + i * B + b.
Proof.
  intros Hs Ha Hb Hi Hj. unfold unbatch2.
  assert (L1 : length (seq 0 (B * s * a)) / a = B * s) by (rewrite seq_length; apply Nat.div_mul; lia).
  assert (L2 : length (unbatch1 0 (seq 0 (B * s * a)) a) / s = B).
  { rewrite unbatch1_length, L1. apply Nat.div_mul. lia. }
  rewrite (unbatch1_nth [] _ s b i []) by (rewrite ?L2; assumption).
  rewrite L2.
  assert (Hib : i * B + b < B * s) by nia.
  rewrite (unbatch1_nth 0 _ a (i * B + b) j []) by (rewrite ?L1; assumption).
  rewrite L1. rewrite seq_nth by nia. cbn [plus]. ring.
Qed.

(* the replicated batch stacks whole copies of the B instances, so row k holds instance k mod B:
   every row regrouped under [b] belongs to instance b, whatever the two inner factors are called *)
Theorem unbatch2_same_instance (B s a b i j : nat) :
  0 < s -> 0 < a -> b < B -> i < s -> j < a ->
  (nth j (nth i (nth b (unbatch2 0 (seq 0 (B * s * a)) s a) []) []) 0) mod B = b.
Proof.
  intros Hs Ha Hb Hi Hj. rewrite unbatch2_index by assumption.
  replace (j * (s * B) + i * B + b) with (b + (j * s + i) * B) by ring.
  rewrite Nat.mod_add by lia. apply Nat.mod_small. exact Hb.
Qed.

Theorem unbatch1_same_instance (B s b j : nat) :
  0 < s -> b < B -> j < s ->
  (nth j (nth b (unbatch1 0 (seq 0 (B * s)) s) []) 0) mod B = b.
Proof.
  intros Hs Hb Hj.
  assert (L1 : length (seq 0 (B * s)) / s = B) by (rewrite seq_length; apply Nat.div_mul; lia).
  rewrite (unbatch1_nth 0 _ s b j []) by (rewrite ?L1; assumption).
  rewrite L1, seq_nth by nia. cbn [plus].
  replace (j * B + b) with (b + j * B) by ring. rewrite Nat.mod_add by lia. apply Nat.mod_small. exact Hb.
Qed.

(* which rows share a group: SymNCO regroups with (n_start, n_aug) although the rows were replicated
   augmentation-first then start-first (row = st*(A*B) + au*B + b).  Position [b][i][j] holds the row with
   st*A + au = j*S + i: the instance is right, the two inner axes are a re-factorisation of the same S*A rows *)
Lemma unbatch2_inner_refactor (B s a b i j : nat) :
  0 < s -> 0 < a -> b < B -> i < s -> j < a ->
  let k := nth j (nth i (nth b (unbatch2 0 (seq 0 (B * s * a)) s a) []) []) 0 in
  k / B = j * s + i.
Proof.
  intros Hs Ha Hb Hi Hj. cbv zeta. rewrite unbatch2_index by assumption.
  replace (j * (s * B) + i * B + b) with (b + (j * s + i) * B) by ring.
  rewrite Nat.div_add by lia. rewrite Nat.div_small by exact Hb. reflexivity.
Qed.

Section Shared.
  Variable K : ofield.
  Variable TM : tmod K.
  Open Scope of_scope.
  Add Field Kf_s : (Fth K).
  Notation D := (dual K TM).

  Definition d0 : D := dconst f0.

  (* reward[b] - bl_val[b]   for one row b of a [B,S] tensor against a [B,1] tensor *)
  Definition group_adv (g : list D) (m : D) : list D := map (fun r => dsub r m) g.

  (* SharedBaseline.eval(td, reward, on_dim=1): return reward.mean(dim=1, keepdims=True), 0   -- not detached *)
  Definition shared_eval (R : list (list D)) : list D * D := (map dmean R, dconst (of_nat 0)).

  Record loss_out2 := { lo2_loss : D; lo2_reinforce : D; lo2_adv : list (list D) }.

  (* REINFORCE.calculate_loss on [B,S] reward / log-likelihood and a [B,1] baseline value *)
  Definition calculate_loss2 (sc : scaler K) (R L : list (list D)) (ble : list D * D) : loss_out2 :=
    let advantage := map2 group_adv R (fst ble) in
    let advantage := map (apply_scaler sc) advantage in
    let reinforce_loss := dopp (dmean (concat (map2 (map2 dmul) advantage L))) in
    {| lo2_loss := dadd reinforce_loss (snd ble); lo2_reinforce := reinforce_loss; lo2_adv := advantage |}.

  (* POMO.shared_step, phase "train" (n_aug = 0 is skipped by unbatchify) *)
  Definition pomo_step (sc : scaler K) (n_start : nat) (reward ll : list D) : loss_out2 :=
    let R := unbatch1 d0 reward n_start in
    let L := unbatch1 d0 ll n_start in
    calculate_loss2 sc R L (shared_eval R).

  (* symnco/losses.py: advantage = reward - reward.mean(dim, keepdim=True); loss = -advantage * ll; loss.mean()
     on a list of groups (the groups are the slices along [dim]) *)
  Definition sym_loss2 (R L : list (list D)) : D :=
    dmean (concat (map2 (fun g l => map2 (fun a x => dmul (dopp a) x) (group_adv g (dmean g)) l) R L)).
  (* num = reward.shape[dim]; if num < 2: return 0 *)
  Definition sym_guard (n : nat) (x : D) : D := if Nat.ltb n 2 then dconst (of_nat 0) else x.

  Record sym_out := { so_loss : D; so_ps : D; so_ss : D; so_inv : D }.

  (* SymNCO.shared_step, phase "train".  [inv] = invariance_loss(proj_embeddings, n_aug) (cosine similarities:
     outside the ordered-field vocabulary, enters as an opaque dual number). *)
  Definition symnco_step (n_start n_aug : nat) (beta alpha : K) (reward ll : list D) (inv : D) : sym_out :=
    let s := Nat.max n_start 1 in
    let a := Nat.max n_aug 1 in
    let R := unbatch2 d0 reward s a in
    let L := unbatch2 d0 ll s a in
    let loss_ps := if Nat.ltb 1 n_start
                   then sym_guard s (sym_loss2 (concat (map (cols d0 a) R)) (concat (map (cols d0 a) L)))
                   else dconst (of_nat 0) in
    let loss_ss := if Nat.ltb 1 n_aug then sym_guard a (sym_loss2 (concat R) (concat L)) else dconst (of_nat 0) in
    let loss_inv := if Nat.ltb 1 n_aug then inv else dconst (of_nat 0) in
    {| so_loss := dadd (dadd loss_ps (dscale beta loss_ss)) (dscale alpha loss_inv);
       so_ps := loss_ps; so_ss := loss_ss; so_inv := loss_inv |}.

  (* ---------------------------------------------------------------- flattening to the row-wise core *)
  Definition wf2 (R L : list (list D)) : Prop := Forall2 (fun g l => length g = length l) R L.

  Lemma map2_app {A B C} (f : A -> B -> C) a a' b b' :
    length a = length b -> map2 f (a ++ a') (b ++ b') = map2 f a b ++ map2 f a' b'.
  Proof.
    revert b. induction a as [|x a IH]; intros [|y b] H; try discriminate; [reflexivity|].
    cbn [app map2]. rewrite IH by (cbn [length] in H; lia). reflexivity.
  Qed.

  Lemma concat_map2_map2 (f : D -> D -> D) (A L : list (list D)) :
    wf2 A L -> concat (map2 (map2 f) A L) = map2 f (concat A) (concat L).
  Proof.
    induction 1 as [|a l A L Hal _ IH]; [reflexivity|]. cbn [map2 concat].
    rewrite IH, map2_app by exact Hal. reflexivity.
  Qed.

  Lemma group_adv_rows g m : group_adv g m = map2 dsub g (repeat m (length g)).
  Proof. unfold group_adv. induction g as [|r g IH]; [reflexivity|]. cbn [map length repeat map2]. rewrite IH. reflexivity. Qed.

  Definition bl_expand (R : list (list D)) (ms : list D) : list D :=
    concat (map2 (fun g m => repeat m (length g)) R ms).

  Lemma concat_group_adv (R : list (list D)) (ms : list D) :
    length ms = length R ->
    concat (map2 group_adv R ms) = map2 dsub (concat R) (bl_expand R ms).
  Proof.
    unfold bl_expand. revert ms. induction R as [|g R IH]; intros [|m ms] H; try discriminate; [reflexivity|].
    cbn [map2 concat]. rewrite IH by (cbn [length] in H; lia).
    rewrite map2_app by (rewrite repeat_length; reflexivity). rewrite group_adv_rows. reflexivity.
  Qed.

  Lemma wf2_group_adv (R L : list (list D)) (ms : list D) :
    wf2 R L -> length ms = length R -> wf2 (map2 group_adv R ms) L.
  Proof.
    intros H. revert ms. induction H as [|g l R L Hgl _ IH]; intros [|m ms] Hm; try discriminate; [constructor|].
    cbn [map2]. constructor.
    - unfold group_adv. rewrite map_length. exact Hgl.
    - apply IH. cbn [length] in Hm. lia.
  Qed.

  (* the [B,S] loss is the row-wise loss of Train/Loss.v on the flattened tensors *)
  Lemma calculate_loss2_flat (R L : list (list D)) (ble : list D * D) :
    wf2 R L -> length (fst ble) = length R ->
    lo2_loss (calculate_loss2 (SNone) R L ble) =
      lo_loss (calculate_loss SNone (concat R) (concat L) None (BRows (bl_expand R (fst ble)), snd ble)).
  Proof.
    intros Hwf Hm. unfold calculate_loss2, calculate_loss. cbn [lo2_loss lo_loss apply_scaler fst snd sub_bl].
    rewrite map_id. rewrite concat_map2_map2 by (apply wf2_group_adv; assumption).
    rewrite concat_group_adv by exact Hm. reflexivity.
  Qed.

  (* per-row baseline values of the shared baseline: every row of group g gets the mean of g *)
  Definition shared_bl_vals (Rv : list (list K)) : list K :=
    concat (map (fun g => repeat (fmean g) (length g)) Rv).

  Lemma bl_expand_shared_vals (R : list (list D)) :
    map dv (bl_expand R (map dmean R)) = shared_bl_vals (map (map dv) R).
  Proof.
    unfold bl_expand, shared_bl_vals. induction R as [|g R IH]; [reflexivity|].
    cbn [map map2 concat]. rewrite map_app, IH. f_equal.
    rewrite map_repeat, dv_dmean, map_length. reflexivity.
  Qed.

  Lemma bl_expand_const (R : list (list D)) (ms : list D) : Forall is_const ms -> Forall is_const (bl_expand R ms).
  Proof.
    intros H. unfold bl_expand. revert R. induction H as [|m ms Hm _ IH]; intros [|g R]; try constructor.
    cbn [map2 concat]. apply Forall_app. split; [|apply IH].
    apply Forall_forall. intros x Hx. apply repeat_spec in Hx. subst. exact Hm.
  Qed.

  Lemma concat_const (R : list (list D)) : Forall (Forall is_const) R -> Forall is_const (concat R).
  Proof. induction 1 as [|g R Hg _ IH]; [constructor|]. cbn [concat]. apply Forall_app. split; assumption. Qed.

  Lemma map_dmean_const (R : list (list D)) : Forall (Forall is_const) R -> Forall is_const (map dmean R).
  Proof. induction 1 as [|g R Hg _ IH]; constructor; [apply dmean_const; exact Hg | exact IH]. Qed.

  (* ---------------------------------------------------------------- shared baseline: value, gradient *)
  Theorem shared_value (R L : list (list D)) :
    wf2 R L ->
    dv (lo2_loss (calculate_loss2 SNone R L (shared_eval R))) =
      ref_surrogate (concat (map (map dv) R)) (shared_bl_vals (map (map dv) R)) (concat (map (map dv) L)) f0.
  Proof.
    intros Hwf. rewrite calculate_loss2_flat by (try exact Hwf; cbn [shared_eval fst]; apply map_length).
    pose proof (calculate_loss_value K TM (concat R) (concat L) None
                  (BRows (bl_expand R (fst (shared_eval R))), snd (shared_eval R))) as H.
    cbv zeta in H. rewrite H. cbn [the_bl fst snd bl_rows shared_eval dconst dv of_nat].
    rewrite bl_expand_shared_vals, !concat_map. reflexivity.
  Qed.

  Theorem shared_grad (R L : list (list D)) :
    wf2 R L -> Forall (Forall is_const) R ->
    dt (lo2_loss (calculate_loss2 SNone R L (shared_eval R))) =
      ref_grad (concat (map (map dv) R)) (shared_bl_vals (map (map dv) R)) (concat (map (map dt) L)) t0.
  Proof.
    intros Hwf Hc. rewrite calculate_loss2_flat by (try exact Hwf; cbn [shared_eval fst]; apply map_length).
    pose proof (calculate_loss_grad K TM (concat R) (concat L) None
                  (BRows (bl_expand R (fst (shared_eval R))), snd (shared_eval R))) as H.
    cbv zeta in H. rewrite H.
    - cbn [the_bl fst snd bl_rows shared_eval dconst dt]. rewrite bl_expand_shared_vals, !concat_map. reflexivity.
    - apply concat_const. exact Hc.
    - cbn [the_bl fst bl_const shared_eval]. apply bl_expand_const. apply map_dmean_const. exact Hc.
  Qed.

  (* ---------------------------------------------------------------- shared_adv_zero_mean *)
  Lemma group_adv_values (g : list D) :
    map dv (group_adv g (dmean g)) = map (fun x => x - fmean (map dv g)) (map dv g).
  Proof. unfold group_adv. rewrite !map_map. apply map_ext. intros r. cbn [dsub dv]. rewrite dv_dmean. reflexivity. Qed.

  Theorem group_adv_zero_sum (g : list D) :
    g <> [] -> fsum (map dv (group_adv g (dmean g))) = f0 /\ fmean (map dv (group_adv g (dmean g))) = f0.
  Proof.
    intros Hg. rewrite group_adv_values.
    assert (map dv g <> []) by (destruct g; [congruence | discriminate]).
    split; [apply fsum_dev_zero | apply fmean_dev_zero]; assumption.
  Qed.

  (* every group of advantages the shared baseline produces sums (and averages) to zero -- for every
     grouping into non-empty groups, equal-sized or not *)
  Theorem shared_adv_zero_mean (R L : list (list D)) :
    Forall (fun g => g <> []) R ->
    Forall (fun a => fsum (map dv a) = f0 /\ fmean (map dv a) = f0)
           (lo2_adv (calculate_loss2 SNone R L (shared_eval R))).
  Proof.
    intros H. cbn [calculate_loss2 lo2_adv shared_eval fst apply_scaler]. rewrite map_id.
    induction H as [|g R Hg _ IH]; [constructor|]. cbn [map map2]. constructor; [|exact IH].
    apply group_adv_zero_sum. exact Hg.
  Qed.

  (* ---------------------------------------------------------------- symnco losses = the same surrogate *)
  Lemma dmul_dopp_l (a x : D) : dmul (dopp a) x = dopp (dmul a x).
  Proof.
    destruct a as [va ta], x as [vx tx]. unfold dmul, dopp, topp. cbn [dv dt]. f_equal; [ring|].
    rewrite tscale_add_r, <- !tscale_mul. f_equal; f_equal; ring.
  Qed.

  Lemma dsum_map_dopp (l : list D) : dsum (map dopp l) = dopp (dsum l).
  Proof.
    induction l as [|x l IH].
    - cbn [map dsum fold_right]. unfold dconst, dopp. cbn [dv dt]. rewrite topp_0. f_equal. ring.
    - cbn [map dsum fold_right]. fold (dsum (map dopp l)). fold (dsum l). rewrite IH.
      unfold dadd, dopp, topp. cbn [dv dt]. f_equal; [ring|]. rewrite tscale_add_r. reflexivity.
  Qed.

  Lemma dmean_map_dopp (l : list D) : dmean (map dopp l) = dopp (dmean l).
  Proof.
    unfold dmean. rewrite dsum_map_dopp, map_length. unfold ddivc, dopp, topp. cbn [dv dt]. f_equal.
    - rewrite !(Fdiv_def (Fth K)). ring.
    - rewrite <- !tscale_mul. f_equal. ring.
  Qed.

  Lemma sym_loss2_eq (R L : list (list D)) :
    sym_loss2 R L = lo2_reinforce (calculate_loss2 SNone R L (shared_eval R)).
  Proof.
    unfold sym_loss2, calculate_loss2. cbn [lo2_reinforce shared_eval fst apply_scaler]. rewrite map_id.
    rewrite <- dmean_map_dopp. f_equal.
    revert L. induction R as [|g R IH]; intros [|l L]; try reflexivity.
    cbn [map map2 concat]. rewrite map_app, IH. f_equal.
    rewrite map_map2. apply map2_ext_in. intros a x _ _. apply dmul_dopp_l.
  Qed.

  Lemma lo2_loss_reinforce (R L : list (list D)) :
    lo2_loss (calculate_loss2 SNone R L (shared_eval R)) =
      dadd (lo2_reinforce (calculate_loss2 SNone R L (shared_eval R))) (dconst (of_nat 0)).
  Proof. reflexivity. Qed.

  Theorem sym_loss2_value (R L : list (list D)) :
    wf2 R L ->
    dv (sym_loss2 R L) =
      ref_surrogate (concat (map (map dv) R)) (shared_bl_vals (map (map dv) R)) (concat (map (map dv) L)) f0.
  Proof.
    intros Hwf. rewrite <- shared_value by exact Hwf. rewrite sym_loss2_eq, lo2_loss_reinforce.
    cbn [dadd dv dconst of_nat]. ring.
  Qed.

  Theorem sym_loss2_grad (R L : list (list D)) :
    wf2 R L -> Forall (Forall is_const) R ->
    dt (sym_loss2 R L) =
      ref_grad (concat (map (map dv) R)) (shared_bl_vals (map (map dv) R)) (concat (map (map dt) L)) t0.
  Proof.
    intros Hwf Hc. rewrite <- shared_grad by assumption. rewrite sym_loss2_eq, lo2_loss_reinforce.
    cbn [dadd dt dconst]. symmetry. apply tadd_0_r.
  Qed.

  (* the SymNCO total, for multi-start and augmentation both switched on *)
  Theorem symnco_value (n_start n_aug : nat) (beta alpha : K) (reward ll : list D) (inv : D) :
    2 <= n_start -> 2 <= n_aug ->
    let R := unbatch2 d0 reward n_start n_aug in
    let L := unbatch2 d0 ll n_start n_aug in
    let o := symnco_step n_start n_aug beta alpha reward ll inv in
    so_ps o = sym_loss2 (concat (map (cols d0 n_aug) R)) (concat (map (cols d0 n_aug) L)) /\
    so_ss o = sym_loss2 (concat R) (concat L) /\
    dv (so_loss o) = dv (so_ps o) + beta * dv (so_ss o) + alpha * dv inv /\
    dt (so_loss o) = tadd (tadd (dt (so_ps o)) (tscale beta (dt (so_ss o)))) (tscale alpha (dt inv)).
  Proof.
    intros Hs Ha. cbv zeta. unfold symnco_step.
    replace (Nat.max n_start 1) with n_start by lia. replace (Nat.max n_aug 1) with n_aug by lia.
    assert (E1 : Nat.ltb 1 n_start = true) by (apply Nat.ltb_lt; lia).
    assert (E2 : Nat.ltb 1 n_aug = true) by (apply Nat.ltb_lt; lia).
    assert (E3 : Nat.ltb n_start 2 = false) by (apply Nat.ltb_ge; lia).
    assert (E4 : Nat.ltb n_aug 2 = false) by (apply Nat.ltb_ge; lia).
    rewrite E1, E2. unfold sym_guard. rewrite E3, E4. cbn [so_ps so_ss so_loss]. repeat split; reflexivity.
  Qed.
  (* ---------------------------------------------------------------- the regrouped tensors are well-shaped *)
  Lemma Forall2_map_same {A B C} (P : B -> C -> Prop) (f : A -> B) (g : A -> C) (l : list A) :
    (forall a, In a l -> P (f a) (g a)) -> Forall2 P (map f l) (map g l).
  Proof.
    induction l as [|a l IH]; intros H; [constructor|]. cbn [map]. constructor.
    - apply H. left. reflexivity.
    - apply IH. intros a' Ha'. apply H. right. exact Ha'.
  Qed.

  Lemma unbatch1_wf2 (x y : list D) r : length x = length y -> wf2 (unbatch1 d0 x r) (unbatch1 d0 y r).
  Proof.
    intros H. unfold unbatch1, wf2. rewrite H. apply Forall2_map_same. intros b _.
    rewrite !map_length. reflexivity.
  Qed.

  Lemma nth_const (x : list D) k : Forall is_const x -> is_const (nth k x d0).
  Proof.
    intros H. destruct (Nat.lt_ge_cases k (length x)) as [Hk|Hk].
    - rewrite Forall_forall in H. apply H. apply nth_In. exact Hk.
    - rewrite nth_overflow by exact Hk. reflexivity.
  Qed.

  Lemma unbatch1_const (x : list D) r : Forall is_const x -> Forall (Forall is_const) (unbatch1 d0 x r).
  Proof.
    intros H. unfold unbatch1. apply Forall_forall. intros g Hg. apply in_map_iff in Hg as (b & <- & _).
    apply Forall_forall. intros z Hz. apply in_map_iff in Hz as (j & <- & _). apply nth_const. exact H.
  Qed.

  Lemma unbatch1_nonempty (x : list D) r : 0 < r -> Forall (fun g => g <> []) (unbatch1 d0 x r).
  Proof.
    intros Hr. pose proof (unbatch1_row_length d0 x r) as H. rewrite Forall_forall in *. intros g Hg.
    specialize (H g Hg). intros E. subst g. cbn [length] in H. lia.
  Qed.

  (* ---------------------------------------------------------------- POMO.shared_step as a whole *)
  Theorem pomo_value (n_start : nat) (reward ll : list D) :
    length reward = length ll ->
    let R := map (map dv) (unbatch1 d0 reward n_start) in
    let L := map (map dv) (unbatch1 d0 ll n_start) in
    dv (lo2_loss (pomo_step SNone n_start reward ll)) = ref_surrogate (concat R) (shared_bl_vals R) (concat L) f0.
  Proof. intros H. cbv zeta. unfold pomo_step. apply shared_value. apply unbatch1_wf2. exact H. Qed.

  Theorem pomo_grad (n_start : nat) (reward ll : list D) :
    length reward = length ll -> Forall is_const reward ->
    let R := map (map dv) (unbatch1 d0 reward n_start) in
    let TL := map (map dt) (unbatch1 d0 ll n_start) in
    dt (lo2_loss (pomo_step SNone n_start reward ll)) = ref_grad (concat R) (shared_bl_vals R) (concat TL) t0.
  Proof.
    intros H Hc. cbv zeta. unfold pomo_step. apply shared_grad; [apply unbatch1_wf2; exact H | apply unbatch1_const; exact Hc].
  Qed.

  Theorem pomo_adv_zero_mean (n_start : nat) (reward ll : list D) :
    0 < n_start ->
    Forall (fun a => fsum (map dv a) = f0 /\ fmean (map dv a) = f0) (lo2_adv (pomo_step SNone n_start reward ll)).
  Proof. intros H. unfold pomo_step. apply shared_adv_zero_mean. apply unbatch1_nonempty. exact H. Qed.

  (* ---------------------------------------------------------------- SymNCO: shapes of the two groupings *)
  Lemma wf2_concat (R3 L3 : list (list (list D))) :
    Forall2 wf2 R3 L3 -> wf2 (concat R3) (concat L3).
  Proof. induction 1 as [|r l R3 L3 Hrl _ IH]; [constructor|]. cbn [concat]. apply Forall2_app; assumption. Qed.

  Lemma unbatch1_nth_length {A} (d : A) (x y : list A) r k :
    length x = length y -> length (nth k (unbatch1 d x r) []) = length (nth k (unbatch1 d y r) []).
  Proof.
    intros H. destruct (Nat.lt_ge_cases k (length x / r)) as [Hk|Hk].
    - unfold unbatch1. rewrite <- H. rewrite !nth_map_seq by exact Hk. rewrite !map_length. reflexivity.
    - rewrite !nth_overflow; [reflexivity | rewrite unbatch1_length, <- H; exact Hk | rewrite unbatch1_length; exact Hk].
  Qed.

  Lemma unbatch2_wf3 (x y : list D) s a :
    length x = length y -> Forall2 wf2 (unbatch2 d0 x s a) (unbatch2 d0 y s a).
  Proof.
    intros H. unfold unbatch2, unbatch1 at 1 3. rewrite !unbatch1_length, H.
    apply Forall2_map_same. intros b _. unfold wf2. apply Forall2_map_same. intros i _.
    apply unbatch1_nth_length. exact H.
  Qed.

  Lemma cols_wf2 (a : nat) (mR mL : list (list D)) : length mR = length mL -> wf2 (cols d0 a mR) (cols d0 a mL).
  Proof. intros H. unfold cols, wf2. apply Forall2_map_same. intros j _. rewrite !map_length. exact H. Qed.

  Lemma unbatch2_block_length {A} (d : A) (x : list A) s a : Forall (fun m => length m = s) (unbatch2 d x s a).
  Proof. apply unbatch1_row_length. Qed.

  Theorem symnco_groups_wf (n_start n_aug : nat) (reward ll : list D) :
    length reward = length ll ->
    let R := unbatch2 d0 reward n_start n_aug in
    let L := unbatch2 d0 ll n_start n_aug in
    wf2 (concat R) (concat L) /\ wf2 (concat (map (cols d0 n_aug) R)) (concat (map (cols d0 n_aug) L)).
  Proof.
    intros H. cbv zeta. split; [apply wf2_concat, unbatch2_wf3; exact H|].
    apply wf2_concat.
    pose proof (unbatch2_block_length d0 reward n_start n_aug) as HR.
    pose proof (unbatch2_block_length d0 ll n_start n_aug) as HL.
    pose proof (unbatch2_wf3 reward ll n_start n_aug H) as W.
    induction W as [|r l R3 L3 _ _ IH]; [constructor|]. cbn [map].
    inversion_clear HR as [|? ? Hr HR']. inversion_clear HL as [|? ? Hl HL'].
    constructor; [apply cols_wf2; congruence | apply IH; assumption].
  Qed.

  (* SymNCO total = problem-symmetricity surrogate + beta * solution-symmetricity surrogate + alpha * invariance term,
     each surrogate being the reference REINFORCE surrogate with the group mean as baseline *)
  Theorem symnco_total_value (n_start n_aug : nat) (beta alpha : K) (reward ll : list D) (inv : D) :
    2 <= n_start -> 2 <= n_aug -> length reward = length ll ->
    let R := unbatch2 d0 reward n_start n_aug in
    let L := unbatch2 d0 ll n_start n_aug in
    let Rps := map (map dv) (concat (map (cols d0 n_aug) R)) in
    let Lps := map (map dv) (concat (map (cols d0 n_aug) L)) in
    let Rss := map (map dv) (concat R) in
    let Lss := map (map dv) (concat L) in
    dv (so_loss (symnco_step n_start n_aug beta alpha reward ll inv)) =
      ref_surrogate (concat Rps) (shared_bl_vals Rps) (concat Lps) f0
      + beta * ref_surrogate (concat Rss) (shared_bl_vals Rss) (concat Lss) f0
      + alpha * dv inv.
  Proof.
    intros Hs Ha Hlen. cbv zeta.
    destruct (symnco_value n_start n_aug beta alpha reward ll inv Hs Ha) as (Hps & Hss & Hv & _). cbv zeta in *.
    destruct (symnco_groups_wf n_start n_aug reward ll Hlen) as [W1 W2]. cbv zeta in *.
    rewrite Hv, Hps, Hss. rewrite !sym_loss2_value by assumption. reflexivity.
  Qed.

End Shared.

Arguments d0 {K TM}. Arguments group_adv {K TM}. Arguments shared_eval {K TM}.
Arguments lo2_loss {K TM}. Arguments lo2_reinforce {K TM}. Arguments lo2_adv {K TM}.
Arguments calculate_loss2 {K TM}. Arguments pomo_step {K TM}. Arguments sym_loss2 {K TM}. Arguments sym_guard {K TM}.
Arguments so_loss {K TM}. Arguments so_ps {K TM}. Arguments so_ss {K TM}. Arguments so_inv {K TM}.
Arguments symnco_step {K TM}. Arguments wf2 {K TM}. Arguments shared_bl_vals {K}. Arguments bl_expand {K TM}.
