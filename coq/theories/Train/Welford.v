(* C20: RewardScaler (batched Welford) -- model mirroring rl4co/models/rl/common/utils.py and the
   exactness theorems, over the abstract ordered field. *)
From Coq Require Import List Arith Bool Lia Ring Field.
From RL4CO Require Import Base.OField.
Import ListNotations.

Section Welford.
  Variable K : ofield.
  Open Scope of_scope.
  Add Field Kf_w : (Fth K).

  Record wstate := { w_count : nat; w_mean : K; w_M2 : K }.
  Definition w_init : wstate := {| w_count := 0; w_mean := f0; w_M2 := f0 |}.

  (* RewardScaler.update, line by line *)
  Definition w_update (s : wstate) (batch : list K) : wstate :=
    let count := (w_count s + length batch)%nat in
    let delta := vs_op fsub batch (w_mean s) in
    let mean := w_mean s + fsum (vs_op fdiv delta (of_nat count)) in
    let delta2 := vs_op fsub batch mean in
    {| w_count := count; w_mean := mean; w_M2 := w_M2 s + fsum (map2 fmul delta delta2) |}.

  Definition w_run (bs : list (list K)) : wstate := fold_left w_update bs w_init.

  (* sum of squared deviations about m *)
  Definition ssd (l : list K) (m : K) : K := fsum (map (fun x => (x - m) * (x - m)) l).

  (* RewardScaler.__call__ for scale in {"norm","scale"}; sqrt is torch's (abstract [sq]), eps a constant *)
  Definition w_var (s : wstate) : K := w_M2 s / (of_nat (w_count s) - f1).
  Definition w_call_norm (sq : K -> K) (eps : K) (s : wstate) (scores : list K) : wstate * list K :=
    let s' := w_update s scores in
    (s', vs_op fdiv (vs_op fsub scores (w_mean s')) (sq (w_var s') + eps)).
  Definition w_call_scale (sq : K -> K) (eps : K) (s : wstate) (scores : list K) : wstate * list K :=
    let s' := w_update s scores in
    (s', vs_op fdiv scores (sq (w_var s') + eps)).

  (* ---------------------------------------------------------------- lemmas *)
  Lemma fsum_vs_fdiv (l : list K) (c : K) : c <> f0 -> fsum (vs_op fdiv l c) = fsum l / c.
  Proof.
    intros Hc. unfold vs_op. induction l as [|x l IH]; simpl.
    - field; exact Hc.
    - rewrite IH. field; exact Hc.
  Qed.

  Lemma fsum_vs_fsub (l : list K) (m : K) : fsum (vs_op fsub l m) = fsum l - of_nat (length l) * m.
  Proof. unfold vs_op. induction l as [|x l IH]; simpl; [ring | rewrite IH; ring]. Qed.

  Lemma fsum_map2_dev (l : list K) (a b : K) :
    fsum (map2 fmul (vs_op fsub l a) (vs_op fsub l b)) = fsum (map (fun x => (x - a) * (x - b)) l).
  Proof. unfold vs_op. induction l as [|x l IH]; simpl; [reflexivity | rewrite IH; reflexivity]. Qed.

  Lemma ssd_shift (l : list K) (m m' : K) :
    ssd l m' = ssd l m + (of_nat 2) * (m - m') * (fsum l - of_nat (length l) * m)
               + of_nat (length l) * ((m - m') * (m - m')).
  Proof. unfold ssd. induction l as [|x l IH]; simpl; [ring | rewrite IH; simpl; ring]. Qed.

  Lemma cross_dev (l : list K) (a b : K) :
    fsum (map (fun x => (x - a) * (x - b)) l) = ssd l b + (b - a) * (fsum l - of_nat (length l) * b).
  Proof. unfold ssd. induction l as [|x l IH]; simpl; [ring | rewrite IH; ring]. Qed.

  Lemma ssd_app l1 l2 m : ssd (l1 ++ l2) m = ssd l1 m + ssd l2 m.
  Proof. unfold ssd. rewrite map_app, fsum_app. reflexivity. Qed.

  (* the invariant: the state summarises exactly the multiset of values seen so far *)
  Record WInv (s : wstate) (xs : list K) : Prop := {
    wi_count : w_count s = length xs;
    wi_mean : of_nat (length xs) * w_mean s = fsum xs;
    wi_M2 : w_M2 s = ssd xs (w_mean s);
  }.

  Lemma w_init_inv : WInv w_init [].
  Proof. constructor; cbn [w_init w_count w_mean w_M2 length fsum ssd map]; try reflexivity; simpl; ring. Qed.

  Lemma w_update_inv s xs b : WInv s xs -> WInv (w_update s b) (xs ++ b).
  Proof.
    intros [Hc Hm HM].
    destruct b as [|b0 b'].
    { (* empty batch: nothing changes *)
      rewrite app_nil_r. unfold w_update. cbn [length vs_op map fsum map2]. rewrite Nat.add_0_r.
      constructor; cbn [w_count w_mean w_M2].
      - exact Hc.
      - rewrite <- Hm. ring.
      - replace (w_mean s + f0) with (w_mean s) by ring. rewrite HM. ring. }
    set (b := b0 :: b') in *.
    assert (HN : of_nat (w_count s + length b) <> (f0 : K)).
    { unfold b. cbn [length]. rewrite Nat.add_succ_r. apply of_nat_S_neq0. }
    set (mu1 := w_mean s + fsum (vs_op fdiv (vs_op fsub b (w_mean s)) (of_nat (w_count s + length b)))).
    assert (Hmu1 : of_nat (length xs + length b) * mu1 = fsum xs + fsum b).
    { unfold mu1. rewrite fsum_vs_fdiv by exact HN. rewrite fsum_vs_fsub. rewrite Hc in *.
      rewrite <- Hm. rewrite of_nat_add in *. field. exact HN. }
    constructor; unfold w_update; cbn [w_count w_mean w_M2]; fold mu1.
    - rewrite app_length. rewrite Hc. reflexivity.
    - rewrite app_length, fsum_app. exact Hmu1.
    - rewrite fsum_map2_dev, cross_dev, ssd_app, HM.
      rewrite (ssd_shift xs (w_mean s) mu1).
      rewrite of_nat_add in Hmu1.
      assert (E : fsum b = of_nat (length xs) * mu1 + of_nat (length b) * mu1 - of_nat (length xs) * w_mean s).
      { replace (of_nat (length xs) * mu1 + of_nat (length b) * mu1)
          with ((of_nat (length xs) + of_nat (length b)) * mu1) by ring.
        rewrite Hmu1, Hm. ring. }
      rewrite E. rewrite <- Hm. simpl. ring.
  Qed.

  Lemma w_fold_inv bs : forall s xs, WInv s xs -> WInv (fold_left w_update bs s) (xs ++ concat bs).
  Proof.
    induction bs as [|b bs IH]; intros s xs H; simpl.
    - rewrite app_nil_r. exact H.
    - rewrite app_assoc. apply IH. apply w_update_inv. exact H.
  Qed.

  (* ---------------------------------------------------------------- theorems *)
  Theorem welford_exact (bs : list (list K)) :
    let xs := concat bs in
    let s := w_run bs in
    w_count s = length xs /\
    of_nat (length xs) * w_mean s = fsum xs /\
    w_M2 s = ssd xs (w_mean s).
  Proof.
    cbv zeta. pose proof (w_fold_inv bs w_init [] w_init_inv) as [H1 H2 H3]. simpl in *.
    unfold w_run. auto.
  Qed.

  Corollary welford_mean (bs : list (list K)) :
    concat bs <> [] -> w_mean (w_run bs) = fmean (concat bs).
  Proof.
    intros Hne. destruct (welford_exact bs) as (_ & Hm & _). unfold fmean.
    destruct (concat bs) as [|x xs] eqn:E; [congruence|].
    rewrite <- Hm. field. apply of_nat_S_neq0.
  Qed.

  (* sample variance: M2 / (count - 1) is the unbiased variance about the true mean *)
  Corollary welford_variance (bs : list (list K)) :
    concat bs <> [] ->
    w_var (w_run bs) = ssd (concat bs) (fmean (concat bs)) / (of_nat (length (concat bs)) - f1).
  Proof.
    intros Hne. unfold w_var. destruct (welford_exact bs) as (Hc & _ & HM).
    rewrite HM, Hc, welford_mean by exact Hne. reflexivity.
  Qed.

  Theorem scaler_call_norm sq eps (bs : list (list K)) (x : list K) :
    let all := concat (bs ++ [x]) in
    all <> [] ->
    snd (w_call_norm sq eps (w_run bs) x) =
      map (fun v => (v - fmean all) / (sq (ssd all (fmean all) / (of_nat (length all) - f1)) + eps)) x.
  Proof.
    cbv zeta. intros Hne. unfold w_call_norm. cbn [snd].
    replace (w_update (w_run bs) x) with (w_run (bs ++ [x])) by (unfold w_run; rewrite fold_left_app; reflexivity).
    rewrite welford_variance, welford_mean by exact Hne.
    unfold vs_op. rewrite map_map. reflexivity.
  Qed.

  Theorem scaler_call_scale sq eps (bs : list (list K)) (x : list K) :
    let all := concat (bs ++ [x]) in
    all <> [] ->
    snd (w_call_scale sq eps (w_run bs) x) =
      map (fun v => v / (sq (ssd all (fmean all) / (of_nat (length all) - f1)) + eps)) x.
  Proof.
    cbv zeta. intros Hne. unfold w_call_scale. cbn [snd].
    replace (w_update (w_run bs) x) with (w_run (bs ++ [x])) by (unfold w_run; rewrite fold_left_app; reflexivity).
    rewrite welford_variance by exact Hne. reflexivity.
  Qed.

  (* the order of the batches and the way values are chunked do not matter for count and M2-about-mean:
     two histories with the same concatenation give the same statistics *)
  Corollary welford_chunking_irrelevant (bs bs' : list (list K)) :
    concat bs = concat bs' -> concat bs <> [] ->
    w_count (w_run bs) = w_count (w_run bs') /\ w_mean (w_run bs) = w_mean (w_run bs') /\
    w_M2 (w_run bs) = w_M2 (w_run bs').
  Proof.
    intros E Hne. destruct (welford_exact bs) as (C1 & _ & M1). destruct (welford_exact bs') as (C2 & _ & M2').
    assert (Hne' : concat bs' <> []) by (rewrite <- E; exact Hne).
    pose proof (welford_mean bs Hne) as A. pose proof (welford_mean bs' Hne') as B.
    repeat split.
    - rewrite C1, C2, E. reflexivity.
    - rewrite A, B, E. reflexivity.
    - rewrite M1, M2', A, B, E. reflexivity.
  Qed.

  (* count = 1 : the code divides by zero (count - 1 = 0); recorded, excluded from the variance claims *)
  Lemma count_one_divides_by_zero (x : K) : of_nat (w_count (w_run [[x]])) - f1 = (f0 : K).
  Proof. unfold w_run. simpl. ring. Qed.
End Welford.

Arguments w_count {K}. Arguments w_mean {K}. Arguments w_M2 {K}. Arguments w_init {K}.
Arguments w_update {K}. Arguments w_run {K}. Arguments ssd {K}. Arguments w_var {K}.
Arguments w_call_norm {K}. Arguments w_call_scale {K}.
