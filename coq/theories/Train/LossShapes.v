(* C16, shapes: the tensor shapes at every site where the loss code mixes [B], [B,1], [B,S] ... tensors,
   computed with torch's broadcasting rule, for every batch size -- no accidental B x B advantage matrix.
   Also: which rows symnco/losses.py::invariance_loss pairs (index arithmetic only). *)
From Coq Require Import List Arith Bool Lia.
Import ListNotations.

Definition shape := list nat.

(* torch broadcasting, dimensions aligned from the right; None = the operation raises *)
Fixpoint bcast_rev (a b : list nat) : option (list nat) :=
  match a, b with
  | [], _ => Some b
  | _, [] => Some a
  | x :: a', y :: b' =>
      match bcast_rev a' b' with
      | None => None
      | Some r => if Nat.eqb x y then Some (x :: r)
                  else if Nat.eqb x 1 then Some (y :: r)
                  else if Nat.eqb y 1 then Some (x :: r) else None
      end
  end.
Definition bcast (a b : shape) : option shape := option_map (@rev nat) (bcast_rev (rev a) (rev b)).
Definition bcast_o (a : option shape) (b : shape) : option shape :=
  match a with None => None | Some a' => bcast a' b end.
Definition numel (s : shape) : nat := fold_right Nat.mul 1 s.

(* ---------------------------------------------------------------- the sites, as coded *)
(* REINFORCE.calculate_loss on a flat batch: reward [n], log_likelihood [n]; bl_val is a python number or a
   0-dim tensor (no / mean / exponential baseline: shape []), or [n] (extra, rollout, critic after squeeze(-1)) *)
Definition shape_reinforce (n : nat) (bl_val : shape) : option shape :=
  let advantage := bcast [n] bl_val in          (* reward - bl_val *)
  bcast_o advantage [n].                        (* advantage * log_likelihood *)

(* CriticBaseline.eval: critic(x) is [n,1] (value_head(h).mean(1)); .squeeze(-1) gives [n];
   F.mse_loss(v, c.detach()) pairs [n] with reward [n] *)
Definition shape_critic_v (n : nat) : shape := [n].
Definition shape_critic_mse (n : nat) : option shape := bcast (shape_critic_v n) [n].

(* POMO / SharedBaseline: reward [B,S]; reward.mean(dim=1, keepdims=True) is [B,1]; log_likelihood [B,S] *)
Definition shape_shared (B S : nat) : option shape := bcast_o (bcast [B; S] [B; 1]) [B; S].
(* symnco losses on [B,S,A]: mean(dim=1, keepdim=True) -> [B,1,A];  mean(dim=-1, keepdim=True) -> [B,S,1] *)
Definition shape_sym_ps (B S A : nat) : option shape := bcast_o (bcast [B; S; A] [B; 1; A]) [B; S; A].
Definition shape_sym_ss (B S A : nat) : option shape := bcast_o (bcast [B; S; A] [B; S; 1]) [B; S; A].

(* PPO: previous_reward.view(-1,1) [n,1]; ll [n,T].sum(-1) [n] - logprobs [n] -> exp -> .view(-1,1) [n,1];
   value_pred [n,1]; adv = previous_reward - value_pred.detach(); ratio*adv; clamp(ratio)*adv; min; huber *)
Definition shape_ppo (n : nat) : option shape * option shape * option shape :=
  let delta := bcast [n] [n] in                 (* ll.sum(dim=-1) - logprobs *)
  let adv := bcast [n; 1] [n; 1] in             (* previous_reward - value_pred *)
  let prod := bcast_o adv [n; 1] in             (* ratio * adv *)
  let surr := match prod with None => None | Some p => bcast_o prod p end in   (* torch.min of the two products *)
  let hub := bcast [n; 1] [n; 1] in             (* F.huber_loss(value_pred, previous_reward) *)
  (delta, surr, hub).

(* ---------------------------------------------------------------- no_bxb_broadcast *)
Lemma bcast_same1 n : bcast [n] [n] = Some [n].
Proof. unfold bcast. cbn. rewrite Nat.eqb_refl. reflexivity. Qed.
Lemma bcast_scalar1 n : bcast [n] [] = Some [n].
Proof. reflexivity. Qed.

Lemma bcast_rev_refl a : bcast_rev a a = Some a.
Proof. induction a as [|x a IH]; [reflexivity|]. cbn [bcast_rev]. rewrite IH, Nat.eqb_refl. reflexivity. Qed.
Lemma bcast_refl s : bcast s s = Some s.
Proof. unfold bcast. rewrite bcast_rev_refl. cbn [option_map]. rewrite rev_involutive. reflexivity. Qed.

Theorem no_bxb_reinforce (n : nat) :
  shape_reinforce n [] = Some [n] /\ shape_reinforce n [n] = Some [n] /\ shape_critic_mse n = Some [n].
Proof.
  unfold shape_reinforce, shape_critic_mse, shape_critic_v. rewrite bcast_same1, bcast_scalar1. cbn [bcast_o].
  rewrite bcast_same1. auto.
Qed.

Theorem no_bxb_shared (B S A : nat) :
  shape_shared B S = Some [B; S] /\ shape_sym_ps B S A = Some [B; S; A] /\ shape_sym_ss B S A = Some [B; S; A].
Proof.
  unfold shape_shared, shape_sym_ps, shape_sym_ss, bcast. cbn.
  rewrite !Nat.eqb_refl.
  destruct (Nat.eqb S 1) eqn:ES; destruct (Nat.eqb A 1) eqn:EA;
    try (apply Nat.eqb_eq in ES; subst S); try (apply Nat.eqb_eq in EA; subst A);
    cbn; rewrite ?Nat.eqb_refl, ?ES, ?EA; cbn; rewrite ?Nat.eqb_refl; rewrite ?bcast_refl; auto.
Qed.

Theorem no_bxb_ppo (n : nat) : shape_ppo n = (Some [n], Some [n; 1], Some [n; 1]).
Proof. unfold shape_ppo. rewrite !bcast_refl. cbn [bcast_o]. rewrite !bcast_refl. cbn [bcast_o]. rewrite !bcast_refl. reflexivity. Qed.

(* every advantage tensor has exactly as many entries as there are log-likelihoods *)
Corollary no_bxb_numel (n : nat) :
  option_map numel (shape_reinforce n []) = Some (numel [n]) /\
  option_map numel (shape_reinforce n [n]) = Some (numel [n]).
Proof. destruct (no_bxb_reinforce n) as (H1 & H2 & _). rewrite H1, H2. auto. Qed.

(* the calculus does see the classic slip: a critic output left at [n,1] against reward [n] is an n x n matrix *)
Lemma unsqueezed_critic_would_be_bxb (n : nat) : 1 < n -> bcast [n] [n; 1] = Some [n; n].
Proof.
  intros H. unfold bcast. cbn.
  assert (E1 : Nat.eqb n 1 = false) by (apply Nat.eqb_neq; lia).
  rewrite E1. reflexivity.
Qed.
Example bxb_detected : shape_reinforce 3 [3; 1] = Some [3; 3].
Proof. reflexivity. Qed.

(* ---------------------------------------------------------------- invariance_loss: which rows are paired *)
(* StateAugmentation = batchify(td, A): row k of the A*B rows holds instance k mod B (augmentation k / B).
   invariance_loss: pe = rearrange(proj, "(b a) ... -> b a ...", a=A);  sum_i cos(pe[:,0], pe[:,i]), i = 1..A-1,
   i.e. for b' < B it pairs row b'*A with row b'*A + i. *)
Definition inv_pair_coded (A b' i : nat) : nat * nat := (b' * A, b' * A + i).
(* the pairing the augmentation layout calls for: instance b, augmentation 0 against augmentation i *)
Definition inv_pair_ref (B b i : nat) : nat * nat := (b, i * B + b).
Definition row_instance (B k : nat) : nat := k mod B.

Theorem inv_pair_ref_same_instance (B b i : nat) :
  b < B -> row_instance B (fst (inv_pair_ref B b i)) = b /\ row_instance B (snd (inv_pair_ref B b i)) = b.
Proof.
  intros H. unfold row_instance, inv_pair_ref. cbn [fst snd]. split; [apply Nat.mod_small; exact H|].
  replace (i * B + b) with (b + i * B) by lia. rewrite Nat.mod_add by lia. apply Nat.mod_small. exact H.
Qed.

(* with a single instance in the batch the coded pairing is harmless ... *)
Lemma inv_pair_coded_B1 (A b' i : nat) :
  row_instance 1 (fst (inv_pair_coded A b' i)) = row_instance 1 (snd (inv_pair_coded A b' i)).
Proof. unfold row_instance. rewrite !Nat.mod_1_r. reflexivity. Qed.

(* ... but in general it compares embeddings of two different instances *)
Theorem inv_pair_coded_refuted :
  exists B A b' i, b' < B /\ 0 < i < A /\
    row_instance B (fst (inv_pair_coded A b' i)) <> row_instance B (snd (inv_pair_coded A b' i)).
Proof. exists 3, 2, 0, 1. repeat split; try lia. vm_compute. discriminate. Qed.

(* for every batch of at least two instances and every augmentation factor >= 2, already the first pair is wrong *)
Theorem inv_pair_coded_wrong_for_all (B A : nat) :
  2 <= B -> 2 <= A ->
  row_instance B (fst (inv_pair_coded A 0 1)) <> row_instance B (snd (inv_pair_coded A 0 1)).
Proof.
  intros HB HA. unfold row_instance, inv_pair_coded. cbn [fst snd Nat.mul Nat.add].
  rewrite Nat.mod_0_l by lia. rewrite Nat.mod_small by lia. discriminate.
Qed.
