(* C16: the VALUE of rl4co/models/zoo/symnco/losses.py::invariance_loss over the abstract ordered field.

     pe = rearrange(proj_embed, "(b a) ... -> b a ...", a=num_augment)
     similarity = sum([cosine_similarity(pe[:, 0], pe[:, i], dim=-1) for i in range(1, num_augment)])
     return similarity.mean()

   Cosine similarity needs a square root; it is avoided by carrying every embedding together with its
   Euclidean norm as instance data (an [nvec]); the side condition  norm >= 0 /\ norm^2 = <u,u>  is a boolean the
   harness evaluates on every generated vector (Pythagorean vectors: rational norms).
   torch's cosine_similarity(x1, x2, eps = 1e-8) = <x1,x2> / (max(|x1|, eps) * max(|x2|, eps)).
   Which ROWS are paired is the index arithmetic of Train/LossShapes.v (inv_pair_coded: the known finding). *)
From Coq Require Import List Arith Bool Lia Ring Field.
From RL4CO Require Import Base.OField Base.OFieldExtra Base.OFieldExtraC16 Train.LossShapes.
Import ListNotations.

Section InvLoss.
  Variable K : ofield.
  Open Scope of_scope.
  Add Field Kf_il : (Fth K).

  Fixpoint dot (u v : list K) : K :=
    match u, v with x :: u', y :: v' => x * y + dot u' v' | _, _ => f0 end.

  (* an embedding with its Euclidean norm *)
  Definition nvec : Type := (list K * K)%type.
  Definition nv_ok (p : nvec) : Prop := fle f0 (snd p) /\ snd p * snd p = dot (fst p) (fst p).
  Definition nv_okb (p : nvec) : bool := (f0 <=? snd p) && feqb (snd p * snd p) (dot (fst p) (fst p)).
  Definition nv_scale (c : K) (p : nvec) : nvec := (map (fmul c) (fst p), c * snd p).

  Definition cos_sim (eps : K) (u v : nvec) : K :=
    dot (fst u) (fst v) / (fmax (snd u) eps * fmax (snd v) eps).
  (* the mathematical cosine, no clamping *)
  Definition cos_ref (u v : nvec) : K := dot (fst u) (fst v) / (snd u * snd v).

  (* proj_embed has layout [(b a), n, d]: a list of rows, each the list of its n node embeddings *)
  Definition dvec : nvec := ([], f0).
  Definition inv_row (rows : list (list nvec)) (r : nat) : list nvec := nth r rows [].
  Definition inv_node (rows : list (list nvec)) (r j : nat) : nvec := nth j (inv_row rows r) dvec.

  (* pe[b][i] = row b*A + i; similarity[b][j] = sum_{i=1}^{A-1} cos(pe[b][0][j], pe[b][i][j]) *)
  Definition inv_similarity (eps : K) (A : nat) (rows : list (list nvec)) (b j : nat) : K :=
    fsum (map (fun i => cos_sim eps (inv_node rows (b * A)%nat j) (inv_node rows (b * A + i)%nat j)) (seq 1 (A - 1)%nat)).
  Definition inv_sim_tensor (eps : K) (A : nat) (rows : list (list nvec)) : list K :=
    let B := (length rows / A)%nat in
    let n := length (inv_row rows 0) in
    flat_map (fun b => map (inv_similarity eps A rows b) (seq 0 n)) (seq 0 B).
  (* None = the code raises: A = 1 gives sum([]) = the python int 0, which has no .mean(); A = 0 or a row count
     that is not a multiple of A is rejected by einops.rearrange *)
  Definition inv_loss (eps : K) (A : nat) (rows : list (list nvec)) : option K :=
    if Nat.ltb A 2 || negb (Nat.eqb (length rows mod A)%nat 0) then None
    else Some (fmean (inv_sim_tensor eps A rows)).

  (* rectangular, non-empty input with correct norms (what the harness generates) *)
  Definition inv_wfb (rows : list (list nvec)) : bool :=
    negb (Nat.eqb (length rows) 0) && negb (Nat.eqb (length (inv_row rows 0)) 0) &&
    forallb (fun r => Nat.eqb (length r) (length (inv_row rows 0)) && forallb nv_okb r) rows.

  (* the rows that are compared are exactly those of LossShapes.inv_pair_coded (the pairing finding) *)
  Lemma inv_similarity_pairs eps A rows b j :
    inv_similarity eps A rows b j =
      fsum (map (fun i => cos_sim eps (inv_node rows (fst (inv_pair_coded A b i)) j)
                                      (inv_node rows (snd (inv_pair_coded A b i)) j)) (seq 1 (A - 1)%nat)).
  Proof. reflexivity. Qed.

  (* ---------------------------------------------------------------- dot product *)
  Lemma dot_comm u v : dot u v = dot v u.
  Proof. revert v. induction u as [|x u IH]; destruct v as [|y v]; cbn [dot]; try reflexivity. rewrite IH. ring. Qed.

  Lemma dot_scale_l c u v : dot (map (fmul c) u) v = c * dot u v.
  Proof. revert v. induction u as [|x u IH]; destruct v as [|y v]; cbn [dot map]; try ring. rewrite IH. ring. Qed.

  Lemma dot_self_nonneg u : fle f0 (dot u u).
  Proof.
    induction u as [|x u IH]; cbn [dot]; [apply fle_refl|].
    replace f0 with (f0 + f0 : K) by ring. apply (fle_add K); [apply sq_nonneg | exact IH].
  Qed.

  (* sum_i (u_i t - v_i)^2 = <u,u> t^2 - 2 <u,v> t + <v,v>  (equal lengths) *)
  Lemma quad_expand (t : K) u v : length u = length v ->
    dot (map2 (fun x y => x * t - y) u v) (map2 (fun x y => x * t - y) u v)
    = dot u u * (t * t) - (f1 + f1) * dot u v * t + dot v v.
  Proof.
    revert v. induction u as [|x u IH]; destruct v as [|y v]; cbn [length]; intros H; try discriminate.
    - cbn [map2 dot]. ring.
    - cbn [map2 dot]. rewrite IH by (injection H; auto). ring.
  Qed.

  (* Cauchy-Schwarz over an ordered field, without square roots *)
  Theorem cauchy_schwarz u v : length u = length v -> fle (dot u v * dot u v) (dot u u * dot v v).
  Proof.
    intros Hlen. set (U := dot u u). set (V := dot v v). set (D := dot u v).
    assert (HU : fle f0 U) by apply dot_self_nonneg.
    assert (HV : fle f0 V) by apply dot_self_nonneg.
    assert (Q : forall t, fle f0 (U * (t * t) - (f1 + f1) * D * t + V)).
    { intros t. unfold U, D, V. rewrite <- quad_expand by exact Hlen. apply dot_self_nonneg. }
    clearbody U V D. clear Hlen u v.
    destruct (fle_flt_dec K U f0) as [HU0 | HUpos].
    - (* <u,u> = 0: the quadratic is  -2 D t + V >= 0  for every t, which forces D = 0 *)
      assert (E0 : U = f0) by (apply fle_antisym; assumption). subst U.
      destruct (fle_flt_dec K (D * D) f0) as [HD0 | HDpos].
      + replace (f0 * V) with (f0 : K) by ring. exact HD0.
      + exfalso.
        assert (HDD : D * D <> f0) by (apply flt_neq'; exact HDpos).
        set (T := D * ((V + f1) / (D * D))).
        pose proof (Q T) as Q1.
        assert (E : f0 * (T * T) - (f1 + f1) * D * T + V = f0 - (V + (f1 + f1))) by (unfold T; field; intros E0; apply HDD; rewrite E0; ring).
        rewrite E in Q1.
        assert (P : flt f0 (V + (f1 + f1))).
        { apply flt_add_pos; [exact HV|]. apply flt_add_pos; [apply fle_0_1 | apply flt_0_1]. }
        apply (fle_not_flt K _ _ Q1). apply (flt_sub_pos K). exact P.
    - assert (HUne : U <> f0) by (apply flt_neq'; exact HUpos).
      pose proof (Q (D / U)) as Q1.
      assert (E : U * (D / U * (D / U)) - (f1 + f1) * D * (D / U) + V = (U * V - D * D) / U) by (field; exact HUne).
      rewrite E in Q1.
      apply (fle_of_sub K).
      replace (U * V - D * D) with ((U * V - D * D) / U * U) by (field; exact HUne).
      apply fmul_nonneg; [exact Q1 | apply flt_le; exact HUpos].
  Qed.

  (* ---------------------------------------------------------------- cosine similarity *)
  Lemma fmax_ge_eps (x eps : K) : fle eps x -> fmax x eps = x.
  Proof.
    intros H. unfold fmax. destruct (x <=? eps) eqn:E; [|reflexivity]. apply fle_antisym; assumption.
  Qed.

  Lemma fmax_pos (x eps : K) : flt f0 eps -> flt f0 (fmax x eps).
  Proof. intros H. eapply flt_le_trans; [exact H | apply fmax_ge_r]. Qed.

  Theorem cos_sim_value eps u v : fle eps (snd u) -> fle eps (snd v) -> cos_sim eps u v = cos_ref u v.
  Proof. intros Hu Hv. unfold cos_sim, cos_ref. rewrite !fmax_ge_eps by assumption. reflexivity. Qed.

  Theorem cos_sim_sym eps u v : cos_sim eps u v = cos_sim eps v u.
  Proof. unfold cos_sim. rewrite dot_comm. f_equal. ring. Qed.

  Lemma nv_scale_ok c p : fle f0 c -> nv_ok p -> nv_ok (nv_scale c p).
  Proof.
    intros Hc [H1 H2]. unfold nv_ok, nv_scale. cbn [fst snd]. split.
    - apply fmul_nonneg; assumption.
    - rewrite dot_scale_l, (dot_comm (fst p)), dot_scale_l, <- H2. ring.
  Qed.

  (* the loss only sees directions: scaling an embedding by c > 0 does not change its cosine with anything *)
  Theorem cos_sim_scale eps c u v :
    flt f0 eps -> flt f0 c -> fle eps (snd u) -> fle eps (c * snd u) ->
    cos_sim eps (nv_scale c u) v = cos_sim eps u v.
  Proof.
    intros He Hc Hu Hcu. unfold cos_sim, nv_scale. cbn [fst snd].
    rewrite dot_scale_l, (fmax_ge_eps (c * snd u) eps Hcu), (fmax_ge_eps (snd u) eps Hu).
    assert (Hn : snd u <> f0) by (apply flt_neq'; apply (flt_le_trans K f0 eps); assumption).
    assert (Hv : fmax (snd v) eps <> f0) by (apply flt_neq'; apply fmax_pos; exact He).
    field. repeat split; try assumption. apply flt_neq'. exact Hc.
  Qed.

  Theorem cos_sim_self eps u : nv_ok u -> flt f0 eps -> fle eps (snd u) -> cos_sim eps u u = f1.
  Proof.
    intros [_ H2] He Hu. unfold cos_sim. rewrite !fmax_ge_eps by assumption. rewrite <- H2.
    assert (Hn : snd u <> f0) by (apply flt_neq'; apply (flt_le_trans K f0 eps); assumption).
    field. exact Hn.
  Qed.

  Lemma sq_le_bound (d p : K) : fle f0 p -> fle (d * d) (p * p) -> fle d p.
  Proof.
    intros Hp H. destruct (fle_flt_dec K d p) as [Hle|Hlt]; [exact Hle|]. exfalso.
    assert (Hd : flt f0 d) by (eapply fle_lt_trans; eassumption).
    assert (H1 : fle (p * p) (p * d)).
    { replace (p * p) with (p * p) by ring. replace (p * d) with (d * p) by ring.
      apply (fle_mul_nonneg_r K); [apply flt_le; exact Hlt | exact Hp]. }
    assert (H2 : flt (p * d) (d * d)).
    { apply (flt_mul_pos_r K); assumption. }
    apply (fle_not_flt K _ _ H). eapply fle_lt_trans; eassumption.
  Qed.

  (* |cos| <= 1 under the Cauchy-Schwarz inequality stated for the supplied norms *)
  Theorem cos_sim_bound_under_cs eps u v :
    flt f0 eps -> fle eps (snd u) -> fle eps (snd v) ->
    fle (dot (fst u) (fst v) * dot (fst u) (fst v)) ((snd u * snd u) * (snd v * snd v)) ->
    fle (- f1) (cos_sim eps u v) /\ fle (cos_sim eps u v) f1.
  Proof.
    intros He Hu Hv CS. rewrite cos_sim_value by assumption. unfold cos_ref.
    set (D := dot (fst u) (fst v)) in *. set (p := snd u * snd v).
    assert (Hpu : flt f0 (snd u)) by (apply (flt_le_trans K f0 eps); assumption).
    assert (Hpv : flt f0 (snd v)) by (apply (flt_le_trans K f0 eps); assumption).
    assert (Hp : flt f0 p) by (apply fmul_pos; assumption).
    assert (Hpne : p <> f0) by (apply flt_neq'; exact Hp).
    assert (CS' : fle (D * D) (p * p)) by (unfold p; replace (snd u * snd v * (snd u * snd v)) with (snd u * snd u * (snd v * snd v)) by ring; exact CS).
    assert (H1 : fle D p) by (apply sq_le_bound; [apply flt_le; exact Hp | exact CS']).
    assert (H2 : fle (- D) p).
    { apply sq_le_bound; [apply flt_le; exact Hp|]. replace (- D * - D) with (D * D) by ring. exact CS'. }
    split.
    - replace (- f1) with ((- p) / p) by (field; exact Hpne). apply (fle_div_pos K); [exact Hp|].
      apply (fle_of_sub K). replace (D - - p) with (p - (- D)) by ring. apply (fle_sub_nonneg K). exact H2.
    - replace f1 with (p / p) by (field; exact Hpne). apply (fle_div_pos K); [exact Hp | exact H1].
  Qed.

  (* ... which holds for every pair of embeddings of equal dimension whose supplied norms are correct *)
  Theorem cos_sim_bound eps u v :
    nv_ok u -> nv_ok v -> length (fst u) = length (fst v) ->
    flt f0 eps -> fle eps (snd u) -> fle eps (snd v) ->
    fle (- f1) (cos_sim eps u v) /\ fle (cos_sim eps u v) f1.
  Proof.
    intros [_ Hu2] [_ Hv2] Hlen He Hu Hv. apply cos_sim_bound_under_cs; try assumption.
    rewrite Hu2, Hv2. apply cauchy_schwarz. exact Hlen.
  Qed.

  (* ---------------------------------------------------------------- the loss *)
  Lemma flat_map_length_const {A} (f : nat -> list A) (l : list nat) n :
    (forall b, In b l -> length (f b) = n) -> length (flat_map f l) = (length l * n)%nat.
  Proof.
    induction l as [|x l IH]; intros H; [reflexivity|]. cbn [flat_map length]. rewrite app_length, IH.
    - rewrite (H x) by (left; reflexivity). lia.
    - intros b Hb. apply H. right. exact Hb.
  Qed.

  Lemma inv_sim_tensor_length eps A rows :
    length (inv_sim_tensor eps A rows) = ((length rows / A) * length (inv_row rows 0))%nat.
  Proof.
    unfold inv_sim_tensor. rewrite (flat_map_length_const _ _ (length (inv_row rows 0))).
    - rewrite seq_length. reflexivity.
    - intros b _. rewrite map_length, seq_length. reflexivity.
  Qed.

  Lemma flat_map_ext_in {A B} (f g : A -> list B) l : (forall x, In x l -> f x = g x) -> flat_map f l = flat_map g l.
  Proof.
    induction l as [|x l IH]; intros H; [reflexivity|]. cbn [flat_map]. rewrite (H x) by (left; reflexivity).
    rewrite IH; [reflexivity|]. intros y Hy. apply H. right. exact Hy.
  Qed.

  (* value formula: with B = rows / A groups of A consecutive rows and n nodes,
       L_inv = 1/(B n) * sum_{b < B} sum_{j < n} sum_{i = 1}^{A-1} <u,v> / (|u| |v|),
       u = embedding of node j in row b*A, v = embedding of node j in row b*A + i *)
  Theorem inv_loss_value eps A rows :
    2 <= A -> (length rows mod A)%nat = 0 ->
    (forall r j, r < length rows -> j < length (inv_row rows 0) -> fle eps (snd (inv_node rows r j))) ->
    let B := (length rows / A)%nat in
    let n := length (inv_row rows 0) in
    inv_loss eps A rows =
      Some (fsum (flat_map (fun b => map (fun j =>
                    fsum (map (fun i => cos_ref (inv_node rows (b * A)%nat j) (inv_node rows (b * A + i)%nat j)) (seq 1 (A - 1)%nat)))
                    (seq 0 n)) (seq 0 B))
            / of_nat (B * n)%nat).
  Proof.
    intros HA Hmod Heps B n. unfold inv_loss.
    assert (E1 : Nat.ltb A 2 = false) by (apply Nat.ltb_ge; exact HA).
    assert (E2 : Nat.eqb (length rows mod A) 0 = true) by (apply Nat.eqb_eq; exact Hmod).
    rewrite E1, E2. cbn [orb negb]. f_equal. unfold fmean. rewrite inv_sim_tensor_length. fold B n. f_equal.
    unfold inv_sim_tensor. fold B n. f_equal.
    assert (Hrows : length rows = (B * A)%nat).
    { unfold B. pose proof (Nat.div_mod (length rows) A ltac:(lia)) as H. rewrite Hmod in H. lia. }
    apply flat_map_ext_in. intros b Hb. apply in_seq in Hb.
    apply map_ext_in. intros j Hj. apply in_seq in Hj. unfold inv_similarity.
    apply fsum_map_ext_in. intros i Hi. apply in_seq in Hi.
    apply cos_sim_value; apply Heps; try lia; rewrite Hrows; nia.
  Qed.
  Lemma inv_loss_raises_lt2 eps A rows : A < 2 -> inv_loss eps A rows = None.
  Proof. intros H. unfold inv_loss. apply Nat.ltb_lt in H. rewrite H. reflexivity. Qed.

  Theorem cos_sim_scale_ok eps c u v :
    flt f0 eps -> flt f0 c -> fle eps (snd u) -> fle eps (c * snd u) ->
    cos_sim eps (nv_scale c u) v = cos_sim eps u v /\ (nv_ok u -> nv_ok (nv_scale c u)).
  Proof.
    intros He Hc Hu Hcu. split; [exact (cos_sim_scale eps c u v He Hc Hu Hcu)|].
    apply nv_scale_ok. apply flt_le. exact Hc.
  Qed.
End InvLoss.

Arguments dot {K}. Arguments nv_ok {K}. Arguments nv_okb {K}. Arguments nv_scale {K}. Arguments cos_sim {K}.
Arguments cos_ref {K}. Arguments inv_row {K}. Arguments inv_node {K}. Arguments inv_similarity {K}.
Arguments inv_sim_tensor {K}. Arguments inv_loss {K}. Arguments inv_wfb {K}.

(* the worked input of the audit: B = 1, A = 2, two nodes, d = 2; views [[3,4],[1,0]] / [[4,3],[0,1]]:
   cosines 24/25 and 0, mean 12/25 = 0.48 *)
From RL4CO Require Import Base.OFieldQc.
From Coq Require Import QArith Qcanon.
Definition nv2 (x y n : Z) : nvec QcF := ([qc x 1; qc y 1], qc n 1).
Example inv_loss_example :
  let rows := [[nv2 3 4 5; nv2 1 0 1]; [nv2 4 3 5; nv2 0 1 1]] in
  inv_wfb rows = true /\ inv_loss (K:=QcF) (qc 1 100000000) 2 rows = Some (qc 12 25).
Proof. split; [reflexivity|]. vm_compute. f_equal. apply Qc_is_canon. reflexivity. Qed.
(* cos(v, v) = 1 (what `range(0, num_augment)` adds per node) and the 3-4-5 pair *)
Example inv_loss_example_self_similarity :
  cos_sim (K:=QcF) (qc 1 100000000) (nv2 3 4 5) (nv2 3 4 5) = qc 1 1 /\
  cos_sim (K:=QcF) (qc 1 100000000) (nv2 3 4 5) (nv2 4 3 5) = qc 24 25.
Proof. split; apply Qc_is_canon; reflexivity. Qed.
