(* C20: RewardScaler.__call__ on a history with a single distinct value (variance 0).
   The scaling factor is  std + eps  with std = sqrt(M2 / (count - 1)) = sqrt 0; with the (harmless) extra
   hypothesis  sq 0 = 0  on the abstract square root the factor is exactly eps, so
     scale = "scale" : output = x / eps          (the sign of the output is the sign of the input)
     scale = "norm"  : output = (x - mean) / eps = 0.
   A scaling factor coded as  std - eps  gives x / (-eps): the opposite sign (mutant rl_utils:...:29:plus_minus). *)
From Coq Require Import List Arith Bool Lia Ring Field.
From RL4CO Require Import Base.OField Train.Welford.
Import ListNotations.

Section WelfordZeroVar.
  Variable K : ofield.
  Open Scope of_scope.
  Add Field Kf_wz : (Fth K).

  (* every observed value is the same number c *)
  Definition all_eq (c : K) (l : list K) : Prop := Forall (fun v => v = c) l.

  Lemma all_eq_fsum c l : all_eq c l -> fsum l = of_nat (length l) * c.
  Proof.
    induction 1 as [|x l Hx _ IH]; cbn [fsum length of_nat]; [ring|]. rewrite IH, Hx. ring.
  Qed.

  Lemma all_eq_fmean c l : all_eq c l -> l <> [] -> fmean l = c.
  Proof.
    intros H Hne. unfold fmean. rewrite (all_eq_fsum c l H).
    destruct l as [|x l]; [congruence|]. field. apply of_nat_S_neq0.
  Qed.

  Lemma all_eq_ssd c l : all_eq c l -> ssd l c = f0.
  Proof.
    unfold ssd. induction 1 as [|x l Hx _ IH]; cbn [map fsum]; [reflexivity|]. rewrite IH, Hx. ring.
  Qed.

  Lemma zero_div (y : K) : f0 / y = f0.
  Proof. rewrite (Fdiv_def (Fth K)). ring. Qed.

  Lemma all_eq_map_const c (l : list K) (f g : K -> K) :
    all_eq c l -> (f c = g c) -> map f l = map g l.
  Proof.
    intros H E. induction H as [|x l Hx _ IH]; [reflexivity|]. cbn [map]. rewrite IH, Hx, E. reflexivity.
  Qed.

  (* the running sample variance of a single-valued history is 0 (also for count = 1, where the code's
     0 / 0 is the field's totalised division: the float code produces nan there, excluded in the harness) *)
  Lemma zero_variance c (all : list K) :
    all_eq c all -> all <> [] -> ssd all (fmean all) / (of_nat (length all) - f1) = f0.
  Proof.
    intros H Hne. rewrite (all_eq_fmean c all H Hne), (all_eq_ssd c all H). apply zero_div.
  Qed.

  Lemma all_eq_last c (bs : list (list K)) (x : list K) : all_eq c (concat (bs ++ [x])) -> all_eq c x.
  Proof.
    rewrite concat_app. cbn [concat]. rewrite app_nil_r. unfold all_eq. rewrite Forall_app. tauto.
  Qed.

  (* scale = "scale" *)
  Theorem scaler_call_scale_zero_variance (sq : K -> K) (eps c : K) (bs : list (list K)) (x : list K) :
    sq f0 = f0 ->
    let all := concat (bs ++ [x]) in
    all <> [] -> all_eq c all ->
    snd (w_call_scale sq eps (w_run bs) x) = map (fun v => v / eps) x.
  Proof.
    intros Hsq all Hne Hall. unfold all in *.
    rewrite (scaler_call_scale K sq eps bs x Hne).
    rewrite (zero_variance c _ Hall Hne), Hsq.
    apply map_ext. intros v. replace (f0 + eps) with eps by ring. reflexivity.
  Qed.

  (* scale = "norm" *)
  Theorem scaler_call_norm_zero_variance (sq : K -> K) (eps c : K) (bs : list (list K)) (x : list K) :
    sq f0 = f0 ->
    let all := concat (bs ++ [x]) in
    all <> [] -> all_eq c all ->
    snd (w_call_norm sq eps (w_run bs) x) = map (fun _ => f0) x.
  Proof.
    intros Hsq all Hne Hall. unfold all in *.
    rewrite (scaler_call_norm K sq eps bs x Hne).
    rewrite (zero_variance c _ Hall Hne), Hsq, (all_eq_fmean c _ Hall Hne).
    apply (all_eq_map_const c x); [exact (all_eq_last c bs x Hall)|].
    replace (c - c) with (f0 : K) by ring. apply zero_div.
  Qed.

  (* why the sign of the factor matters: with the factor  std - eps  (sq 0 = 0) the "scale" output would be
     x / (- eps) = - (x / eps) *)
  Lemma scale_by_minus_eps (eps v : K) : eps <> f0 -> v / (f0 - eps) = - (v / eps).
  Proof.
    intros H. assert (H2 : f0 - eps <> f0).
    { intros E. apply H. replace eps with (- (f0 - eps)) by ring. rewrite E. ring. }
    field. split; [exact H|]. intros E. apply H2. replace (f0 - eps) with (- eps) by ring. exact E.
  Qed.
End WelfordZeroVar.

Arguments all_eq {K}.
