(* Tie 1.2 for C15: the per-point arithmetic of dihedral_8_augmentation and symmetric_transform as translated
   from /repo's source on every run (Gen/GenAugment.v, by translator/ext_c15.py) is proved equal to the hand
   model of Train/Augment.v that the theorems are stated about.  An edit of one of the eight branches or of the
   rotation formula makes one of these lemmas fail: a precisely named broken obligation. *)
From Coq Require Import List Arith Bool Ring Field.
From RL4CO Require Import Base.OField Train.Augment Gen.GenAugment.
Import ListNotations.

Section GenEqC15.
  Variable K : ofield.
  Open Scope of_scope.
  Add Field Kf_g15 : (Fth K).

  Lemma of_nat_1 : @of_nat K 1 = f1.
  Proof. simpl. ring. Qed.

  (* the eight blocks, in the order of the source's torch.cat((z0, ..., z7), dim=0) *)
  Lemma dihedral8_gen_eq (p : K * K) : gen_dihedral8 K p = map (fun k => dih k p) (seq 0 8).
  Proof. unfold gen_dihedral8. rewrite !of_nat_1. destruct p as [x y]. reflexivity. Qed.

  Lemma symmetric_transform_gen_eq (c s : K) (flip : bool) (x y o : K) :
    gen_symmetric_transform K c s flip x y o = sym o c s flip (x, y).
  Proof. unfold gen_symmetric_transform, sym. destruct flip; reflexivity. Qed.

  (* the property of the translated code itself *)
  Theorem gen_dihedral8_isometries (p q : K * K) :
    Forall2 (fun p' q' => sqdist p' q' = sqdist p q) (gen_dihedral8 K p) (gen_dihedral8 K q) /\
    hd p (gen_dihedral8 K p) = p.
  Proof.
    rewrite !dihedral8_gen_eq. split.
    - cbn [seq map]. repeat constructor; apply dihedral_sqdist.
    - cbn [seq map hd]. apply dihedral_first_id.
  Qed.

  Theorem gen_symmetric_transform_isometry (c s : K) (flip : bool) (o x1 y1 x2 y2 : K) :
    c * c + s * s = f1 ->
    sqdist (gen_symmetric_transform K c s flip x1 y1 o) (gen_symmetric_transform K c s flip x2 y2 o)
      = sqdist (x1, y1) (x2, y2).
  Proof. intros H. rewrite !symmetric_transform_gen_eq. apply rotation_sqdist. exact H. Qed.

  Theorem gen_symmetric_transform_phi0 (o x y : K) : gen_symmetric_transform K f1 f0 false x y o = (x, y).
  Proof. rewrite symmetric_transform_gen_eq. apply rotation_phi0_id. Qed.
End GenEqC15.
