(* C16: instances of the loss theorems.
   - Qc with list tangents: executable, closed under the global context; concrete non-vacuity examples.
   - R with the real exponential: the statement about real arithmetic (depends on the axioms of Coq.Reals). *)
From Coq Require Import List ZArith QArith Qcanon Reals Bool.
From RL4CO Require Import Base.OField Base.OFieldQc Base.OFieldR Base.OFieldExtraC16 Train.Baselines Train.Dual
  Train.Loss Train.LossShared Train.LossPPO.
Import ListNotations.

Definition TLq := tmod_list QcF.
Definition Dq' := dual QcF TLq.
Definition q (a : Z) (b : positive) : QcF := qc a b.
Definition lf (x : QcF) (i : nat) : Dq' := @leaf QcF x i.
Definition cst (x : QcF) : Dq' := @dconst QcF TLq x.
Definition vals (l : list QcF) : list Q := map (fun x : Qc => this x) l.

(* REINFORCE with the mean baseline on a batch of three rows: rewards -1,-2,-6 (constants), log-likelihoods
   -1/2,-1/4,-1 as leaves 0,1,2.  baseline = -3; loss = -mean((r - b) ll) = -( -1 - 1/4 + 3)/3 = -7/12;
   d loss / d ll_j = -(r_j - b)/3 = -2/3, -1/3, 1 *)
Example ex_reinforce_mean :
  let reward := [cst (q (-1) 1); cst (q (-2) 1); cst (q (-6) 1)] in
  let ll := [lf (q (-1) 2) 0; lf (q (-1) 4) 1; lf (q (-1) 1) 2] in
  let o := calculate_loss SNone reward ll None (snd (ema_eval_d (q 0 1) None reward)) in
  this (dv (lo_loss o)) = (-7 # 12)%Q /\ vals (dt (lo_loss o)) = [(-2 # 3); (-1 # 3); 1]%Q.
Proof. vm_compute. split; reflexivity. Qed.
Example ex_reinforce_mean_hyps :
  Forall is_const [cst (q (-1) 1); cst (q (-2) 1); cst (q (-6) 1)].
Proof. repeat constructor. Qed.

(* the hypothesis "rewards are constants" of reinforce_grad is needed: calculate_loss does not detach the reward,
   so a reward that did depend on a formal param would contribute to the tangent *)
Theorem reinforce_grad_needs_const_reward :
  exists (reward ll : list (dual QcF (tmod_self QcF))),
    dt (lo_loss (calculate_loss SNone reward ll None no_eval)) <>
    ref_grad (map dv reward) (map dv (bl_rows (length reward) (fst (@no_eval QcF (tmod_self QcF))))) (map dt ll) t0.
Proof.
  exists [@mkD QcF (tmod_self QcF) (q (-1) 1) (q 1 1)], [@mkD QcF (tmod_self QcF) (q (-1) 2) (q 1 1)].
  intros H. apply (f_equal (fun x : Qc => this x)) in H. vm_compute in H. discriminate.
Qed.

(* critic baseline (A2C), two rows: the critic leaves (params 4,5) receive gradient only from the mse term
   2 (v - r) / n, the policy leaves (2,3) only -(r - v)/n *)
Example ex_a2c :
  let reward := [cst (q (-1) 1); cst (q (-3) 1)] in
  let ll := [lf (q (-1) 2) 2; lf (q (-1) 1) 3] in
  let v := [lf (q (-2) 1) 4; lf (q (-2) 1) 5] in
  let o := calculate_loss SNone reward ll None (critic_eval v reward) in
  this (dv (lo_loss o)) = (3 # 4)%Q /\ vals (dt (lo_loss o)) = [0; 0; (-1 # 2); (1 # 2); -1; 1]%Q.
Proof. vm_compute. split; reflexivity. Qed.

(* POMO: B = 2 instances, 2 starts; rows (s-major): [i0s0; i1s0; i0s1; i1s1]; per-instance advantages sum to 0 *)
Example ex_pomo :
  let reward := [cst (q (-1) 1); cst (q (-2) 1); cst (q (-3) 1); cst (q (-6) 1)] in
  let ll := [lf (q (-1) 1) 0; lf (q (-1) 1) 1; lf (q (-1) 2) 2; lf (q (-1) 2) 3] in
  let o := pomo_step SNone 2 reward ll in
  map (fun g => vals (map dv g)) (lo2_adv o) = [[1; -1]; [2; -2]]%Q /\
  vals (dt (lo2_loss o)) = [(-1 # 4); (-1 # 2); (1 # 4); (1 # 2)]%Q.
Proof. vm_compute. split; reflexivity. Qed.

(* PPO at ratio one with e := a table (0 |-> 1): surrogate tangent = REINFORCE tangent -A_j / n on every step's ll *)
Definition e_tab (x : QcF) : QcF := if Qc_eq_bool x (q 0 1) then q 1 1 else q 0 1.
Example ex_ppo_ratio_one :
  let cfg := {| clip_range := q 1 5; vf_lambda := q 1 2; entropy_lambda := q 0 1; normalize_adv := false; adv_eps := q 0 1 |} in
  let lls := [[lf (q (-1) 2) 0; lf (q (-1) 4) 1]; [lf (q (-1) 1) 2; lf (q (-1) 1) 3]] in
  let o := @ppo_loss QcF TLq e_tab (fun x => x) cfg lls [q (-3) 4; q (-2) 1] [q (-1) 1; q (-4) 1]
                     [lf (q (-2) 1) 4; lf (q (-2) 1) 5] [cst (q 1 1); cst (q 1 1)] in
  vals (dt (po_surrogate o)) = [(-1 # 2); (-1 # 2); 1; 1]%Q /\ e_tab (q 0 1) = q 1 1.
Proof. vm_compute. split; [reflexivity | apply Qc_is_canon; reflexivity]. Qed.

(* ------------------------------------------------------------------ the real-number instance *)
Local Open Scope R_scope.

Lemma Rflt_of_lt (x y : R) : x < y -> @flt RF x y.
Proof.
  intros H. unfold flt, fltb. cbn. unfold Rleb. destruct (Rle_dec y x) as [L|L]; [|reflexivity].
  exfalso. apply (Rlt_irrefl x). eapply Rlt_le_trans; eassumption.
Qed.

(* PPO over R with the real exponential: at the first inner step the surrogate's gradient is the REINFORCE gradient *)
Theorem ppo_grad_at_ratio_one_R (sq : R -> R) (cfg : ppo_cfg RF)
        (lls : list (list (dual RF (tmod_list RF)))) (old rew : list R) (vpred ent : list (dual RF (tmod_list RF))) :
  0 < clip_range cfg ->
  Forall2 (fun l o => @fsum RF (map dv l) = o) lls old ->
  let o := @ppo_loss RF (tmod_list RF) exp sq cfg lls old rew vpred ent in
  dt (po_surrogate o) = ref_pg_grad (map dv (po_adv o)) (map (fun l => dt (dsum l)) lls) /\
  dv (po_surrogate o) = ref_pg (map dv (po_adv o)) (map (fun _ => 1) lls).
Proof.
  intros Heps H. apply (ppo_grad_at_ratio_one RF (tmod_list RF) exp sq exp_0 cfg lls old rew vpred ent).
  - apply Rflt_of_lt. exact Heps.
  - exact H.
Qed.

Theorem reinforce_grad_R (reward ll : list (dual RF (tmod_list RF))) (b : list RF) :
  Forall is_const reward ->
  dt (lo_loss (calculate_loss SNone reward ll None (@rollout_eval RF (tmod_list RF) b))) =
    ref_grad (map dv reward) b (map dt ll) t0.
Proof.
  intros Hr.
  pose proof (calculate_loss_grad RF (tmod_list RF) reward ll None (@rollout_eval RF (tmod_list RF) b)) as H.
  cbv zeta in H. rewrite H; [|exact Hr | apply rollout_bl_const].
  cbn [the_bl fst snd rollout_eval bl_rows dconst dt]. rewrite map_map. cbn [dv]. rewrite map_id. reflexivity.
Qed.
