(* C15 (geometry part): rl4co/data/transforms.py over the abstract ordered field.

   Modelled as coded:
     dihedral_8_augmentation         the eight maps z0..z7 in the order of the source            -> [dih]
     dihedral_8_augmentation_wrapper xy[: len // 8] then the eight blocks concatenated on dim 0  -> [aug_dihedral_wrapper]
     symmetric_transform             rotation about (offset, offset), optional swap of the axes   -> [sym]
     symmetric_augmentation          phi[: len // num_augment] = 0, one (cos, sin, flip) per row  -> [aug_symmetric]
     min_max_normalize               (x - min) / (max - min), min/max over the WHOLE tensor       -> [aug_normalize]
     StateAugmentation.__call__      batchify, augmentation, normalize, and the
                                     `if not first_aug_identity` save/restore of [[B], 0]          -> [state_aug]
     ops.get_tour_length             sum of norms between each row and its roll(-1)               -> [tour_length]
     TSPEnv / CVRPEnv._get_reward    gather (+ depot in front), minus the tour length             -> [tsp_reward], [cvrp_reward]
   Not modelled: cos / sin (the pair (c, s) the code obtained from torch.cos / torch.sin is data; theorems
   assume c*c + s*s = 1), sqrt (an arbitrary function [f] applied to the squared distance), float rounding. *)
From Coq Require Import List Arith Bool Lia Ring Field PeanoNat.
From RL4CO Require Import Base.OField Train.EvalRegroup.
Import ListNotations.

Section Augment.
  Variable K : ofield.
  Open Scope of_scope.
  Add Field Kf_aug : (Fth K).

  Definition point : Type := (K * K)%type.
  Definition sqdist (p q : point) : K :=
    (fst p - fst q) * (fst p - fst q) + (snd p - snd q) * (snd p - snd q).
  Definition isometry (T : point -> point) : Prop := forall p q, sqdist (T p) (T q) = sqdist p q.
  Definition in_unit (p : point) : Prop :=
    fle f0 (fst p) /\ fle (fst p) f1 /\ fle f0 (snd p) /\ fle (snd p) f1.

  (* ---------------------------------------------------------------- dihedral_8_augmentation *)
  Definition dih (k : nat) (p : point) : point :=
    let x := fst p in let y := snd p in
    match k with
    | 0 => (x, y)
    | 1 => (f1 - x, y)
    | 2 => (x, f1 - y)
    | 3 => (f1 - x, f1 - y)
    | 4 => (y, x)
    | 5 => (f1 - y, x)
    | 6 => (y, f1 - x)
    | _ => (f1 - y, f1 - x)
    end.

  Theorem dihedral_sqdist k : isometry (dih k).
  Proof.
    intros [x1 y1] [x2 y2]. unfold sqdist.
    do 7 (destruct k as [|k]; [cbn [dih fst snd]; ring|]). cbn [dih fst snd]. ring.
  Qed.

  Theorem dihedral_first_id p : dih 0 p = p.
  Proof. destruct p. reflexivity. Qed.

  Lemma one_minus_unit (x : K) : fle f0 x -> fle x f1 -> fle f0 (f1 - x) /\ fle (f1 - x) f1.
  Proof.
    intros H0 H1. split.
    - apply fle_sub_nonneg. exact H1.
    - apply fle_of_sub. replace (f1 - (f1 - x)) with x by ring. exact H0.
  Qed.

  Theorem dihedral_stays_in_unit_square k p : in_unit p -> in_unit (dih k p).
  Proof.
    destruct p as [x y]. unfold in_unit. cbn [fst snd]. intros (Hx0 & Hx1 & Hy0 & Hy1).
    destruct (one_minus_unit x Hx0 Hx1) as [Ax Bx]. destruct (one_minus_unit y Hy0 Hy1) as [Ay By].
    do 7 (destruct k as [|k]; [cbn [dih fst snd]; auto|]). cbn [dih fst snd]. auto.
  Qed.

  (* ---------------------------------------------------------------- symmetric_transform *)
  (* o = offset (0.5 in every bundled call), c = torch.cos(phi), s = torch.sin(phi), flip = phi > 2*pi *)
  Definition sym (o c s : K) (flip : bool) (p : point) : point :=
    let x := fst p - o in
    let y := snd p - o in
    let x' := c * x - s * y in
    let y' := s * x + c * y in
    if flip then (y' + o, x' + o) else (x' + o, y' + o).

  Theorem rotation_sqdist o c s flip : c * c + s * s = f1 -> isometry (sym o c s flip).
  Proof.
    intros H [x1 y1] [x2 y2]. unfold sqdist, sym. cbn [fst snd].
    transitivity ((c * c + s * s) * ((x1 - x2) * (x1 - x2) + (y1 - y2) * (y1 - y2))).
    - destruct flip; cbn [fst snd]; ring.
    - rewrite H. ring.
  Qed.

  (* without the hypothesis the squared distance is scaled by c*c + s*s: this is what float cos/sin give *)
  Lemma rotation_sqdist_scaled o c s flip p q :
    sqdist (sym o c s flip p) (sym o c s flip q) = (c * c + s * s) * sqdist p q.
  Proof. destruct p as [x1 y1], q as [x2 y2]. unfold sqdist, sym. destruct flip; cbn [fst snd]; ring. Qed.

  Theorem rotation_phi0_id o p : sym o f1 f0 false p = p.
  Proof. destruct p as [x y]. unfold sym. cbn [fst snd]. f_equal; ring. Qed.

  (* the centre of the rotation is fixed; nothing else is in general (see [rotation_leaves_unit_square]) *)
  Lemma rotation_centre o c s flip : sym o c s flip (o, o) = (o, o).
  Proof. unfold sym. destruct flip; cbn [fst snd]; f_equal; ring. Qed.

  (* ---------------------------------------------------------------- costs *)
  Variable f : K -> K.      (* torch's norm: f = sqrt, applied to the squared distance *)

  Definition aug_roll (l : list point) : list point := match l with [] => [] | x :: r => r ++ [x] end.
  (* get_tour_length: get_distance(roll(ordered, -1), ordered).sum(-1) *)
  Definition tour_length (l : list point) : K :=
    fsum (map2 (fun nxt cur => f (sqdist nxt cur)) (aug_roll l) l).
  Definition aug_gather (locs : list point) (d : point) (acts : list nat) : list point :=
    map (fun a => nth a locs d) acts.
  (* TSPEnv._get_reward *)
  Definition tsp_reward (locs : list point) (d : point) (acts : list nat) : K :=
    - tour_length (aug_gather locs d acts).
  (* CVRPEnv._get_reward: the depot locs[0] is put in front of the gathered tour *)
  Definition cvrp_reward (locs : list point) (d : point) (acts : list nat) : K :=
    - tour_length (nth 0 locs d :: aug_gather locs d acts).

  Lemma map2_map_both (g : point -> point -> K) (T : point -> point) a b :
    map2 g (map T a) (map T b) = map2 (fun x y => g (T x) (T y)) a b.
  Proof. revert b. induction a as [|x a IH]; intros [|y b]; simpl; try reflexivity. rewrite IH. reflexivity. Qed.

  Lemma map2_ext_pt (g h : point -> point -> K) a b : (forall x y, g x y = h x y) -> map2 g a b = map2 h a b.
  Proof. intros E. revert b. induction a as [|x a IH]; intros [|y b]; simpl; try reflexivity. rewrite E, IH. reflexivity. Qed.

  Lemma aug_roll_map T l : aug_roll (map T l) = map T (aug_roll l).
  Proof. destruct l as [|x r]; simpl; [reflexivity|]. rewrite map_app. reflexivity. Qed.

  Lemma tour_length_isometry T l : isometry T -> tour_length (map T l) = tour_length l.
  Proof.
    intros HT. unfold tour_length. rewrite aug_roll_map, map2_map_both. f_equal.
    apply map2_ext_pt. intros x y. rewrite HT. reflexivity.
  Qed.

  Lemma aug_gather_map T locs d acts : aug_gather (map T locs) (T d) acts = map T (aug_gather locs d acts).
  Proof. unfold aug_gather. rewrite map_map. apply map_ext. intros a. apply map_nth. Qed.

  (* any action list, any length: the cost is a function of pairwise squared distances only *)
  Theorem tour_cost_invariant T locs d acts :
    isometry T ->
    tsp_reward (map T locs) (T d) acts = tsp_reward locs d acts /\
    cvrp_reward (map T locs) (T d) acts = cvrp_reward locs d acts.
  Proof.
    intros HT. unfold tsp_reward, cvrp_reward. rewrite aug_gather_map. split.
    - rewrite tour_length_isometry by exact HT. reflexivity.
    - rewrite (map_nth T locs d 0). change (T (nth 0 locs d) :: map T (aug_gather locs d acts))
        with (map T (nth 0 locs d :: aug_gather locs d acts)).
      rewrite tour_length_isometry by exact HT. reflexivity.
  Qed.

  (* the code rejects (raises on) actions outside the instance; inside, the totalisation default is irrelevant *)
  Definition actions_wfb (n : nat) (acts : list nat) : bool := forallb (fun a => a <? n) acts.

  Lemma aug_gather_default locs d d' acts :
    actions_wfb (length locs) acts = true -> aug_gather locs d acts = aug_gather locs d' acts.
  Proof.
    unfold actions_wfb, aug_gather. intros H. apply map_ext_in. intros a Ha.
    rewrite forallb_forall in H. specialize (H a Ha). apply Nat.ltb_lt in H. apply nth_indep. exact H.
  Qed.

  Corollary tour_cost_invariant_wf T locs d d' acts :
    isometry T -> locs <> [] -> actions_wfb (length locs) acts = true ->
    tsp_reward (map T locs) d' acts = tsp_reward locs d acts /\
    cvrp_reward (map T locs) d' acts = cvrp_reward locs d acts.
  Proof.
    intros HT Hne Hwf. destruct (tour_cost_invariant T locs d acts HT) as [E1 E2].
    rewrite <- E1, <- E2. unfold tsp_reward, cvrp_reward.
    rewrite (aug_gather_default (map T locs) d' (T d)) by (rewrite map_length; exact Hwf).
    rewrite (nth_indep (map T locs) d' (T d)); [split; reflexivity|].
    rewrite map_length. destruct locs; [congruence | simpl; lia].
  Qed.

  (* ---------------------------------------------------------------- zero padding (EvalBase.__call__) *)
  (* sum over consecutive pairs, used only to reason about [tour_length] *)
  Fixpoint path_sum (l : list point) : K :=
    match l with
    | a :: (b :: _) as t => f (sqdist b a) + path_sum t
    | _ => f0
    end.

  Lemma map2_roll_path x r :
    fsum (map2 (fun nxt cur => f (sqdist nxt cur)) (r ++ [x]) (x :: r)) = path_sum (x :: r ++ [x]).
  Proof.
    revert x. induction r as [|y r IH]; intros x; simpl.
    - reflexivity.
    - f_equal. specialize (IH y).
      (* generalise over the closing point *)
      clear IH. revert y. induction r as [|z r IH]; intros y; simpl; [reflexivity|].
      f_equal. apply IH.
  Qed.

  Lemma tour_length_path x r : tour_length (x :: r) = path_sum (x :: r ++ [x]).
  Proof. unfold tour_length. cbn [aug_roll]. apply map2_roll_path. Qed.

  Lemma path_sum_snoc2 l a b : path_sum (l ++ [a; b]) = path_sum (l ++ [a]) + f (sqdist b a).
  Proof.
    induction l as [|x l IH]; simpl.
    - ring.
    - destruct l as [|y l]; simpl in *; [ring|]. rewrite IH. ring.
  Qed.

  Lemma sqdist_refl p : sqdist p p = f0.
  Proof. unfold sqdist. ring. Qed.

  (* depot-based objective: appending n depot visits to the action row does not change it *)
  Theorem pad_concat_inert locs d acts n :
    f f0 = f0 -> cvrp_reward locs d (acts ++ repeat 0 n) = cvrp_reward locs d acts.
  Proof.
    intros Hf. unfold cvrp_reward. f_equal. set (dp := nth 0 locs d).
    unfold aug_gather. rewrite map_app. set (g := map (fun a => nth a locs d) acts).
    replace (map (fun a => nth a locs d) (repeat 0 n)) with (repeat dp n)
      by (induction n; simpl; [reflexivity | f_equal; assumption]).
    rewrite !tour_length_path. induction n as [|n IH]; simpl repeat.
    - rewrite app_nil_r. reflexivity.
    - rewrite <- IH. clear IH.
      replace ((g ++ dp :: repeat dp n) ++ [dp]) with ((g ++ repeat dp n) ++ [dp; dp]).
      + rewrite !app_comm_cons. rewrite path_sum_snoc2. rewrite sqdist_refl, Hf. ring.
      + rewrite <- !app_assoc. f_equal. clear. induction n; simpl; [reflexivity | f_equal; assumption].
  Qed.

  (* ---------------------------------------------------------------- the augmentation functions on a batch *)
  Definition rows : Type := list (list point).

  (* dihedral_8_augmentation: torch.cat((z0, ..., z7), dim=0), z_k = D_k applied to every row *)
  Definition aug_dihedral8 (xs : rows) : rows :=
    concat (map (fun k => map (map (dih k)) xs) (seq 0 8)).
  (* dihedral_8_augmentation_wrapper(xy, reduce): StateAugmentation passes reduce = num_augment (truthy) *)
  Definition aug_dihedral_wrapper (xs : rows) : rows := aug_dihedral8 (firstn (length xs / 8) xs).

  (* symmetric_augmentation(xy, num_augment): first_augment keeps its default False, so phi[: len // A] = 0,
     i.e. (cos, sin, flip) = (1, 0, false) for those rows; par r = what torch gave for row r otherwise *)
  Definition sym_param : Type := (K * K * bool)%type.
  Definition aug_sym_params (A : nat) (par : list sym_param) (n : nat) : list sym_param :=
    map (fun r => if r <? n / A then (f1, f0, false) else nth r par (f1, f0, false)) (seq 0 n).
  Definition aug_symmetric (o : K) (par : list sym_param) (A : nat) (xs : rows) : rows :=
    map2 (fun (q : sym_param) row => map (sym o (fst (fst q)) (snd (fst q)) (snd q)) row)
         (aug_sym_params A par (length xs)) xs.

  (* min_max_normalize: one global minimum and maximum over every coordinate of every row of the tensor *)
  Definition aug_coords (xs : rows) : list K := concat (map (fun row => concat (map (fun p => [fst p; snd p]) row)) xs).
  Definition aug_min (l : list K) : K := match l with [] => f0 | x :: r => fold_left fmin r x end.
  Definition aug_max (l : list K) : K := match l with [] => f0 | x :: r => fold_left fmax r x end.
  Definition nrm (m M : K) (p : point) : point := ((fst p - m) / (M - m), (snd p - m) / (M - m)).
  Definition aug_normalize (xs : rows) : rows :=
    let m := aug_min (aug_coords xs) in let M := aug_max (aug_coords xs) in map (map (nrm m M)) xs.

  Inductive family := FamDihedral8 | FamSymmetric (o : K) (par : list sym_param).

  Definition aug_set_node0 (row : list point) (p : point) : list point :=
    match row with [] => [] | _ :: r => p :: r end.
  Fixpoint aug_set_nth {A} (n : nat) (x : A) (l : list A) : list A :=
    match l, n with [], _ => [] | _ :: r, 0 => x :: r | y :: r, S n' => y :: aug_set_nth n' x r end.

  (* StateAugmentation.__call__ for one feature.  None = the code raises (IndexError). *)
  Definition state_aug (fam : family) (A : nat) (first_aug_identity normalize : bool) (d : point) (td : rows)
    : option rows :=
    let B := length td in
    let td_aug := ev_batchify A td in
    let aug := match fam with
               | FamDihedral8 => aug_dihedral_wrapper td_aug
               | FamSymmetric o par => aug_symmetric o par A td_aug
               end in
    let aug := if normalize then aug_normalize aug else aug in
    if first_aug_identity then Some aug
    else
      (* init_aug_feat = td_aug[feat][list(td.size()), 0]: row index B (not rows 0..B-1), node 0 *)
      if B <? length td_aug then
        Some (aug_set_nth B (aug_set_node0 (nth B aug []) (hd d (nth B td_aug []))) aug)
      else None.

  (* ---------------------------------------------------------------- layout of the augmented batch *)
  Lemma aug_dihedral8_row (xs : rows) k b :
    k < 8 -> b < length xs -> nth (k * length xs + b) (aug_dihedral8 xs) [] = map (dih k) (nth b xs []).
  Proof.
    intros Hk Hb. unfold aug_dihedral8.
    rewrite (ev_nth_concat_uniform _ (length xs) []).
    - rewrite (nth_indep _ [] (map (map (dih 0)) xs)) by (rewrite map_length, seq_length; exact Hk).
      rewrite (map_nth (fun k0 => map (map (dih k0)) xs) (seq 0 8) 0 k). rewrite seq_nth by exact Hk.
      cbn [plus]. rewrite (nth_indep _ [] (map (dih k) [])) by (rewrite map_length; exact Hb).
      apply (map_nth (map (dih k)) xs [] b).
    - rewrite Forall_map. apply Forall_forall. intros k0 _. apply map_length.
    - exact Hb.
  Qed.

  Lemma firstn_batchify8 (td : rows) : firstn (length (ev_batchify 8 td) / 8) (ev_batchify 8 td) = td.
  Proof.
    rewrite ev_batchify_length. rewrite (Nat.mul_comm 8), Nat.div_mul by lia.
    unfold ev_batchify. cbn [repeat concat]. rewrite firstn_app, Nat.sub_diag, firstn_all. simpl. apply app_nil_r.
  Qed.

  (* the dihedral path of StateAugmentation: block k of the output is D_k of the ORIGINAL batch *)
  Theorem state_aug_dihedral_row d (td : rows) k b :
    k < 8 -> b < length td ->
    exists out, state_aug FamDihedral8 8 true false d td = Some out /\ length out = (8 * length td)%nat /\
      nth (k * length td + b) out [] = map (dih k) (nth b td []).
  Proof.
    intros Hk Hb. unfold state_aug, aug_dihedral_wrapper. rewrite firstn_batchify8.
    eexists. split; [reflexivity|]. split.
    - unfold aug_dihedral8. cbn [seq map concat]. rewrite !app_length, !map_length. simpl. lia.
    - apply aug_dihedral8_row; assumption.
  Qed.

  Lemma aug_sym_params_length A par n : length (aug_sym_params A par n) = n.
  Proof. unfold aug_sym_params. rewrite map_length, seq_length. reflexivity. Qed.

  Lemma aug_sym_params_nth A par n r :
    r < n -> nth r (aug_sym_params A par n) (f1, f0, false) =
             if r <? n / A then (f1, f0, false) else nth r par (f1, f0, false).
  Proof.
    intros Hr. unfold aug_sym_params.
    rewrite (nth_indep _ _ ((fun r0 => if r0 <? n / A then (f1, f0, false) else nth r0 par (f1, f0, false)) 0))
      by (rewrite map_length, seq_length; exact Hr).
    rewrite (map_nth (fun r0 => if r0 <? n / A then (f1, f0, false) else nth r0 par (f1, f0, false))).
    rewrite seq_nth by exact Hr. reflexivity.
  Qed.

  Lemma map2_nth_gen {X Y Z} (g : X -> Y -> Z) a b i dx dy dz :
    i < length a -> i < length b -> nth i (map2 g a b) dz = g (nth i a dx) (nth i b dy).
  Proof.
    revert b i. induction a as [|x a IH]; intros [|y b] i Ha Hb; simpl in *; try lia.
    destruct i; [reflexivity|]. apply IH; lia.
  Qed.

  Lemma map2_length_gen {X Y Z} (g : X -> Y -> Z) a b : length (map2 g a b) = Nat.min (length a) (length b).
  Proof. revert b. induction a as [|x a IH]; intros [|y b]; simpl; auto. Qed.

  (* the symmetric path: row r of the output is the rotation with row r's (cos, sin, flip) applied to
     instance r mod B; rows 0..B-1 use (1, 0, false) *)
  Theorem state_aug_symmetric_row o par A d (td : rows) r :
    (0 < A)%nat -> (r < A * length td)%nat ->
    exists out, state_aug (FamSymmetric o par) A true false d td = Some out /\ length out = (A * length td)%nat /\
      let q := if r <? length td then (f1, f0, false) else nth r par (f1, f0, false) in
      nth r out [] = map (sym o (fst (fst q)) (snd (fst q)) (snd q)) (nth (r mod length td) td []).
  Proof.
    intros HA Hr. unfold state_aug, aug_symmetric. eexists. split; [reflexivity|].
    rewrite ev_batchify_length. split.
    - rewrite map2_length_gen, aug_sym_params_length, ev_batchify_length. apply Nat.min_id.
    - cbv zeta.
      rewrite (@map2_nth_gen sym_param (list point) (list point) _ _ _ r (f1, f0, false) [] [])
        by (rewrite ?aug_sym_params_length, ?ev_batchify_length; exact Hr).
      rewrite aug_sym_params_nth by exact Hr.
      rewrite (Nat.mul_comm A), Nat.div_mul by lia.
      rewrite ev_nth_batchify_mod by exact Hr. reflexivity.
  Qed.

  Definition unit_params (par : list sym_param) : Prop :=
    Forall (fun q : sym_param => fst (fst q) * fst (fst q) + snd (fst q) * snd (fst q) = f1) par.

  Lemma unit_params_nth par r : unit_params par ->
    let q := nth r par (f1, f0, false) in fst (fst q) * fst (fst q) + snd (fst q) * snd (fst q) = f1.
  Proof.
    intros H. cbv zeta. destruct (Nat.lt_ge_cases r (length par)) as [Hl|Hl].
    - unfold unit_params in H. rewrite Forall_forall in H. apply H. apply nth_In. exact Hl.
    - rewrite nth_overflow by exact Hl. cbn [fst snd]. ring.
  Qed.

  (* headline: with the default flags every row of the augmented batch is an isometric image of its own
     instance (r mod B), rows 0..B-1 are the instances themselves, hence every action list costs the same *)
  Theorem state_aug_cost_invariant (fam : family) A d (td : rows) :
    match fam with FamDihedral8 => A = 8 | FamSymmetric _ par => (0 < A)%nat /\ unit_params par end ->
    exists out, state_aug fam A true false d td = Some out /\ length out = (A * length td)%nat /\
      (forall r, r < length td -> nth r out [] = nth r td []) /\
      (forall r, (r < A * length td)%nat ->
         exists T, isometry T /\ nth r out [] = map T (nth (r mod length td) td []) /\
           forall d0 acts,
             tsp_reward (nth r out []) (T d0) acts = tsp_reward (nth (r mod length td) td []) d0 acts /\
             cvrp_reward (nth r out []) (T d0) acts = cvrp_reward (nth (r mod length td) td []) d0 acts).
  Proof.
    intros Hfam. destruct fam as [|o par].
    - subst A. destruct td as [|row0 td0] eqn:Etd.
      { eexists. split; [reflexivity|]. split; [reflexivity|]. split; intros r Hr; simpl in Hr; lia. }
      rewrite <- Etd. assert (Hne : length td <> 0) by (rewrite Etd; simpl; lia).
      destruct (state_aug_dihedral_row d td 0 0) as (out & E & L & _); [lia | lia |].
      exists out. split; [exact E|]. split; [exact L|]. split.
      + intros r Hr. destruct (state_aug_dihedral_row d td 0 r) as (out' & E' & _ & Hrow); [lia | exact Hr |].
        rewrite E in E'. injection E' as <-. cbn [Nat.mul Nat.add] in Hrow. rewrite Hrow.
        rewrite <- (map_id (nth r td [])) at 2. apply map_ext. apply dihedral_first_id.
      + intros r Hr. pose proof (Nat.div_mod r (length td) Hne) as Er.
        pose proof (Nat.mod_upper_bound r (length td) Hne) as Hm.
        assert (Hk : r / length td < 8) by (apply Nat.div_lt_upper_bound; [exact Hne | lia]).
        destruct (state_aug_dihedral_row d td (r / length td) (r mod length td)) as (out' & E' & _ & Hrow);
          [exact Hk | exact Hm |].
        rewrite E in E'. injection E' as <-.
        replace (r / length td * length td + r mod length td)%nat with r in Hrow by lia.
        exists (dih (r / length td)). split; [apply dihedral_sqdist|]. split; [exact Hrow|].
        intros d0 acts. rewrite Hrow. apply tour_cost_invariant. apply dihedral_sqdist.
    - destruct Hfam as [HA Hpar].
      destruct td as [|row0 td0] eqn:Etd.
      { eexists. split; [reflexivity|]. split.
        - unfold aug_symmetric. rewrite map2_length_gen, aug_sym_params_length, ev_batchify_length. simpl. lia.
        - split; intros r Hr; simpl in Hr; lia. }
      rewrite <- Etd. assert (Hne : length td <> 0) by (rewrite Etd; simpl; lia).
      destruct (state_aug_symmetric_row o par A d td 0 HA) as (out & E & L & _); [nia|].
      exists out. split; [exact E|]. split; [exact L|]. split.
      + intros r Hr. destruct (state_aug_symmetric_row o par A d td r HA) as (out' & E' & _ & Hrow); [nia|].
        rewrite E in E'. injection E' as <-. cbv zeta in Hrow.
        apply Nat.ltb_lt in Hr as Hr'. rewrite Hr' in Hrow. cbn [fst snd] in Hrow. rewrite Hrow.
        rewrite Nat.mod_small by exact Hr.
        rewrite <- (map_id (nth r td [])) at 2. apply map_ext. apply rotation_phi0_id.
      + intros r Hr. destruct (state_aug_symmetric_row o par A d td r HA Hr) as (out' & E' & _ & Hrow).
        rewrite E in E'. injection E' as <-. cbv zeta in Hrow.
        set (q := if r <? length td then (f1, f0, false) else nth r par (f1, f0, false)) in *.
        assert (Hq : fst (fst q) * fst (fst q) + snd (fst q) * snd (fst q) = f1).
        { unfold q. destruct (r <? length td); [cbn [fst snd]; ring | apply unit_params_nth; exact Hpar]. }
        exists (sym o (fst (fst q)) (snd (fst q)) (snd q)).
        split; [apply rotation_sqdist; exact Hq|]. split; [exact Hrow|].
        intros d0 acts. rewrite Hrow. apply tour_cost_invariant. apply rotation_sqdist. exact Hq.
  Qed.

  (* ---------------------------------------------------------------- normalize = True is a similarity, not an isometry *)
  Theorem normalize_similarity m M p q :
    M - m <> f0 -> sqdist (nrm m M p) (nrm m M q) = sqdist p q / ((M - m) * (M - m)).
  Proof. intros H. destruct p as [x1 y1], q as [x2 y2]. unfold sqdist, nrm. cbn [fst snd]. field. exact H. Qed.

  (* with several features each feature gets its own torch.rand draw (its own [par]); for the dihedral family
     the map of row r is the same for every feature, so distances ACROSS features are preserved as well *)
  Definition state_aug_feats (A : nat) (fai nrmz : bool) (d : point) (feats : list (family * rows))
    : list (option rows) :=
    map (fun fr : family * rows => state_aug (fst fr) A fai nrmz d (snd fr)) feats.

  Lemma dihedral_cross_feature k (p q : point) : sqdist (dih k p) (dih k q) = sqdist p q.
  Proof. apply dihedral_sqdist. Qed.
End Augment.

Arguments sqdist {K}. Arguments dih {K}. Arguments sym {K}. Arguments in_unit {K}. Arguments isometry {K}.
Arguments tour_length {K}. Arguments tsp_reward {K}. Arguments cvrp_reward {K}. Arguments aug_gather {K}.
Arguments state_aug {K}. Arguments FamDihedral8 {K}. Arguments FamSymmetric {K}. Arguments nrm {K}.
Arguments aug_dihedral8 {K}. Arguments aug_dihedral_wrapper {K}. Arguments aug_symmetric {K}.
Arguments aug_normalize {K}. Arguments unit_params {K}. Arguments state_aug_feats {K}.
Arguments actions_wfb n acts : rename.

(* for every field: with first_aug_identity = False and num_augment = 1 the index [B] is out of range *)
Lemma state_aug_first_aug_false_A1_raises (K : ofield) fam d (td : rows K) :
  td <> [] -> state_aug fam 1 false false d td = None.
Proof.
  intros Hne. unfold state_aug. rewrite ev_batchify_length, Nat.mul_1_l, Nat.ltb_irrefl. reflexivity.
Qed.

(* ==================================================================== executable instance: witnesses *)
From Coq Require Import QArith Qcanon.
From RL4CO Require Import Base.OFieldQc.
Close Scope Qc_scope.
Close Scope Q_scope.

Lemma Qc_neq_by_bool (x y : Qc) : Qc_eq_bool x y = false -> x <> y.
Proof. intros H E. subst. unfold Qc_eq_bool in H. destruct (Qc_eq_dec y y); congruence. Qed.

Definition qpt (a : Z) (b : positive) (c : Z) (d : positive) : point QcF := (qc a b, qc c d).
Definition sqd_row (row : list (point QcF)) (i j : nat) : Qc :=
  sqdist (K:=QcF) (nth i row (qpt 0 1 0 1)) (nth j row (qpt 0 1 0 1)).

(* non-vacuity of the headline theorem: one instance, dihedral family, eight distinct copies *)
Example state_aug_dihedral_example :
  exists out, state_aug (K:=QcF) FamDihedral8 8 true false (qpt 0 1 0 1) [[qpt 0 1 0 1; qpt 1 4 0 1; qpt 1 2 3 4]] = Some out /\
    length out = 8 /\
    map (fun row => Qc_eq_bool (sqd_row row 1 2) (qc 5 8)) out = repeat true 8.
Proof. eexists. split; [reflexivity|]. split; vm_compute; reflexivity. Qed.

(* FINDING 1 (StateAugmentation, first_aug_identity = False): the code saves td_aug[feat][[B], 0] -- node 0 of
   row B, i.e. of the SECOND copy of instance 0 -- and writes it back after the augmentation, so that one row
   is no longer an isometric image of its instance.  Witness: one instance (B = 1), two nodes. *)
Theorem first_aug_identity_false_refuted :
  exists (td out : rows QcF) (r i j : nat),
    state_aug (K:=QcF) FamDihedral8 8 false false (qpt 0 1 0 1) td = Some out /\ r < 8 * length td /\
    sqd_row (nth r out []) i j <> sqd_row (nth (r mod length td) td []) i j.
Proof.
  exists [[qpt 0 1 0 1; qpt 1 4 0 1]]. eexists. exists 1, 0, 1.
  split; [reflexivity|]. split; [simpl; lia|]. apply Qc_neq_by_bool. vm_compute. reflexivity.
Qed.

Theorem first_aug_identity_false_symmetric_refuted :
  exists (td out : rows QcF) (par : list (sym_param QcF)) (r i j : nat),
    unit_params par /\
    state_aug (K:=QcF) (FamSymmetric (K:=QcF) (qc 1 2) par) 2 false false (qpt 0 1 0 1) td = Some out /\ r < 2 * length td /\
    sqd_row (nth r out []) i j <> sqd_row (nth (r mod length td) td []) i j.
Proof.
  exists [[qpt 0 1 0 1; qpt 1 4 0 1]]. eexists.
  exists [(qc 1 1, qc 0 1, false); (qc 0 1, qc 1 1, false)], 1, 0, 1.
  split.
  { repeat constructor; cbn [fst snd]; apply Qc_is_canon; vm_compute; reflexivity. }
  split; [reflexivity|]. split; [simpl; lia|]. apply Qc_neq_by_bool. vm_compute. reflexivity.
Qed.

(* FINDING 2 (normalize = True): one global min-max rescaling; not an isometry and the first copy is no
   longer the original instance (here a single identity copy: A = 1, symmetric family). *)
Theorem normalize_refuted :
  exists (td out : rows QcF),
    state_aug (K:=QcF) (FamSymmetric (K:=QcF) (qc 1 2) []) 1 true true (qpt 0 1 0 1) td = Some out /\
    nth 0 out [] <> nth 0 td [] /\
    sqd_row (nth 0 out []) 0 1 <> sqd_row (nth 0 td []) 0 1.
Proof.
  exists [[qpt 0 1 0 1; qpt 1 2 0 1]]. eexists. split; [reflexivity|]. split.
  - intros E. apply (f_equal (fun row => sqd_row row 0 1)) in E. revert E. apply Qc_neq_by_bool. vm_compute. reflexivity.
  - apply Qc_neq_by_bool. vm_compute. reflexivity.
Qed.

(* FINDING 3 (several feats, symmetric family): every feature is augmented by its own call of
   symmetric_augmentation, i.e. its own torch.rand draw; a depot feature and a locs feature of the same row are
   then rotated by different angles and depot-customer distances change. *)
Theorem symmetric_multi_feat_refuted :
  exists (c1 s1 c2 s2 : Qc) (p q : point QcF),
    (c1 * c1 + s1 * s1 = 1)%Qc /\ (c2 * c2 + s2 * s2 = 1)%Qc /\
    sqdist (K:=QcF) (sym (K:=QcF) (qc 1 2) c1 s1 false p) (sym (K:=QcF) (qc 1 2) c2 s2 false q) <> sqdist (K:=QcF) p q.
Proof.
  exists (qc 0 1), (qc 1 1), (qc 1 1), (qc 0 1), (qpt 1 1 1 2), (qpt 1 1 1 2).
  split; [apply Qc_is_canon; vm_compute; reflexivity|]. split; [apply Qc_is_canon; vm_compute; reflexivity|].
  apply Qc_neq_by_bool. vm_compute. reflexivity.
Qed.

(* the rotation family does leave the unit square (cos, sin = 3/5, 4/5 maps (0,0) to (3/5, -1/5));
   no cost depends on it ([tour_cost_invariant] has no range hypothesis) *)
Theorem rotation_leaves_unit_square :
  exists (c s : Qc) (p : point QcF),
    (c * c + s * s = 1)%Qc /\ in_unit p /\ ~ in_unit (sym (K:=QcF) (qc 1 2) c s false p).
Proof.
  exists (qc 3 5), (qc 4 5), (qpt 0 1 0 1).
  split; [apply Qc_is_canon; vm_compute; reflexivity|]. split.
  - unfold in_unit, fle. repeat split; vm_compute; reflexivity.
  - unfold in_unit, fle. intros (_ & _ & H & _). vm_compute in H. discriminate.
Qed.

(* zero padding is NOT inert for the TSP objective (0 is a city there): [1;0;2] vs [1;0;2;0], f = identity.
   The code never pads TSP rows: all loader batches have width num_loc ([ev_pad_fixed_length_noop]). *)
Theorem tsp_pad_refuted :
  exists (locs : list (point QcF)) (acts : list nat),
    tsp_reward (K:=QcF) (fun x => x) locs (qpt 0 1 0 1) (acts ++ [0]) <> tsp_reward (K:=QcF) (fun x => x) locs (qpt 0 1 0 1) acts.
Proof.
  exists [qpt 0 1 0 1; qpt 1 1 0 1; qpt 1 1 1 1], [1; 0; 2]. apply Qc_neq_by_bool. vm_compute. reflexivity.
Qed.

Example pad_concat_inert_example :
  cvrp_reward (K:=QcF) (fun x => x) [qpt 0 1 0 1; qpt 1 1 0 1; qpt 1 1 1 1] (qpt 0 1 0 1) ([1; 0; 2] ++ repeat 0 3)
  = cvrp_reward (K:=QcF) (fun x => x) [qpt 0 1 0 1; qpt 1 1 0 1; qpt 1 1 1 1] (qpt 0 1 0 1) [1; 0; 2].
Proof. apply pad_concat_inert. reflexivity. Qed.

(* ==================================================================== the statements over Coq's reals *)
From Coq Require Import Reals.
From RL4CO Require Import Base.OFieldR.

Lemma dihedral_sqdist_R (k : nat) (x1 y1 x2 y2 : R) :
  let p := dih (K:=RF) k (x1, y1) in let q := dih (K:=RF) k (x2, y2) in
  ((fst p - fst q) * (fst p - fst q) + (snd p - snd q) * (snd p - snd q)
   = (x1 - x2) * (x1 - x2) + (y1 - y2) * (y1 - y2))%R.
Proof. exact (dihedral_sqdist RF k (x1, y1) (x2, y2)). Qed.

(* with the real cosine and sine: cos^2 + sin^2 = 1 is a theorem there, so the hypothesis disappears *)
Lemma rotation_sqdist_R (phi : R) (flip : bool) (x1 y1 x2 y2 : R) :
  let p := sym (K:=RF) (1 / 2)%R (cos phi) (sin phi) flip (x1, y1) in
  let q := sym (K:=RF) (1 / 2)%R (cos phi) (sin phi) flip (x2, y2) in
  ((fst p - fst q) * (fst p - fst q) + (snd p - snd q) * (snd p - snd q)
   = (x1 - x2) * (x1 - x2) + (y1 - y2) * (y1 - y2))%R.
Proof.
  apply (rotation_sqdist RF (1 / 2)%R (cos phi) (sin phi) flip).
  pose proof (sin2_cos2 phi) as H. unfold Rsqr in H. cbn. rewrite Rplus_comm. exact H.
Qed.

Lemma rotation_phi0_id_R (x y : R) : sym (K:=RF) (1 / 2)%R (cos 0) (sin 0) false (x, y) = (x, y).
Proof. rewrite cos_0, sin_0. exact (rotation_phi0_id RF (1 / 2)%R (x, y)). Qed.

(* Euclidean tour length with the real square root *)
Lemma tour_cost_invariant_R (phi : R) (flip : bool) (locs : list (R * R)) (d : R * R) (acts : list nat) :
  let T := sym (K:=RF) (1 / 2)%R (cos phi) (sin phi) flip in
  tsp_reward (K:=RF) sqrt (map T locs) (T d) acts = tsp_reward (K:=RF) sqrt locs d acts /\
  cvrp_reward (K:=RF) sqrt (map T locs) (T d) acts = cvrp_reward (K:=RF) sqrt locs d acts.
Proof.
  cbv zeta. apply (tour_cost_invariant RF sqrt). intros [x1 y1] [x2 y2]. apply (rotation_sqdist_R phi flip x1 y1 x2 y2).
Qed.
