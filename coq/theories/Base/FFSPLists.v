(* List helpers shared by the FFSP / SMTWTP unit of C07 (Env/SMTWTP.v, Env/FFSP.v, Env/FFSPProofs.v).
   Everything is structural; no classical or extensionality principle is used. *)
From Coq Require Import ZArith List Bool Lia ZifyBool Arith.
Import ListNotations.

(* in-place write  l[n] = x  (out of range: no effect; the models guard the index before calling it) *)
Fixpoint set_nth {A} (n : nat) (x : A) (l : list A) : list A :=
  match l, n with
  | [], _ => []
  | _ :: t, O => x :: t
  | h :: t, S k => h :: set_nth k x t
  end.

Lemma set_nth_length {A} n (x : A) l : length (set_nth n x l) = length l.
Proof. revert n; induction l as [|h t IH]; intros [|n]; simpl; auto. Qed.

Lemma nth_set_nth {A} n m (x d : A) l :
  nth m (set_nth n x l) d = if (Nat.eqb m n && Nat.ltb n (length l))%bool then x else nth m l d.
Proof.
  revert n m; induction l as [|h t IH]; intros n m.
  - simpl. rewrite andb_false_r. destruct n; reflexivity.
  - destruct n as [|n], m as [|m]; simpl; auto. rewrite IH. reflexivity.
Qed.

Lemma nth_set_nth_eq {A} n (x d : A) l : (n < length l)%nat -> nth n (set_nth n x l) d = x.
Proof.
  intros H. rewrite nth_set_nth, Nat.eqb_refl. simpl.
  destruct (Nat.ltb n (length l)) eqn:E; [reflexivity|]. apply Nat.ltb_ge in E. lia.
Qed.

Lemma nth_set_nth_neq {A} n m (x d : A) l : m <> n -> nth m (set_nth n x l) d = nth m l d.
Proof.
  intros H. rewrite nth_set_nth. destruct (Nat.eqb m n) eqn:E; [apply Nat.eqb_eq in E; contradiction|reflexivity].
Qed.

Lemma firstn_set_nth_ge {A} k n (x : A) l : (k <= n)%nat -> firstn k (set_nth n x l) = firstn k l.
Proof.
  revert n l; induction k as [|k IH]; intros n l H; [reflexivity|].
  destruct l as [|h t]; [destruct n; reflexivity|]. destruct n as [|n]; [lia|]. simpl. f_equal. apply IH. lia.
Qed.

(* number of true entries (torch.count_nonzero on a bool row) *)
Fixpoint count_true (l : list bool) : nat :=
  match l with [] => 0 | b :: r => (if b then 1 else 0) + count_true r end.

Lemma count_true_set_false n l :
  nth n l false = true -> count_true (set_nth n false l) = (count_true l - 1)%nat /\ (1 <= count_true l)%nat.
Proof.
  revert n; induction l as [|h t IH]; intros [|n] H; simpl in *; try discriminate.
  - subst h. lia.
  - destruct (IH n H) as [E L]. rewrite E. destruct h; lia.
Qed.

Lemma count_true_zero_nth l j : count_true l = 0%nat -> nth j l false = false.
Proof.
  revert j; induction l as [|h t IH]; intros [|j] H; simpl in *; auto.
  - destruct h; [lia|reflexivity].
  - apply IH. destruct h; lia.
Qed.

Lemma nth_repeat_lt {A} (x d : A) n k : (k < n)%nat -> nth k (repeat x n) d = x.
Proof. revert k; induction n as [|n IH]; intros [|k] H; simpl; try lia; auto. apply IH. lia. Qed.

Lemma nth_repeat_same {A} (x : A) n k : nth k (repeat x n) x = x.
Proof. revert k; induction n as [|n IH]; intros [|k]; simpl; auto. Qed.

(* maximum of a non-empty list, torch's  .max(dim=-1)  on a row; the empty case (rejected by torch) is
   excluded by well-formedness in every theorem that uses it *)
Definition maxl (l : list Z) : Z :=
  match l with [] => 0%Z | x :: r => fold_left Z.max r x end.

Lemma fold_max_ge_acc r : forall x, (x <= fold_left Z.max r x)%Z.
Proof. induction r as [|y r IH]; intros x; simpl; [lia|]. specialize (IH (Z.max x y)). lia. Qed.

Lemma fold_max_ge_in r : forall x y, In y r -> (y <= fold_left Z.max r x)%Z.
Proof.
  induction r as [|z r IH]; intros x y H; simpl in *; [contradiction|].
  destruct H as [->|H]; [|apply IH; exact H].
  pose proof (fold_max_ge_acc r (Z.max x y)). lia.
Qed.

Lemma fold_max_attained r : forall x, fold_left Z.max r x = x \/ In (fold_left Z.max r x) r.
Proof.
  induction r as [|z r IH]; intros x; simpl; [left; reflexivity|].
  destruct (IH (Z.max x z)) as [E|E].
  - rewrite E. destruct (Z.max_spec x z) as [[_ ->]|[_ ->]]; [right; left; reflexivity|left; reflexivity].
  - right; right; exact E.
Qed.

Lemma maxl_ge l y : In y l -> (y <= maxl l)%Z.
Proof.
  destruct l as [|x r]; [intros []|]. intros [->|H]; simpl.
  - apply fold_max_ge_acc.
  - apply fold_max_ge_in; exact H.
Qed.

Lemma maxl_in l : l <> [] -> In (maxl l) l.
Proof.
  destruct l as [|x r]; [congruence|]. intros _. simpl.
  destruct (fold_max_attained r x) as [E|E]; [left; symmetry; exact E|right; exact E].
Qed.

Fixpoint sumZ (l : list Z) : Z := match l with [] => 0%Z | x :: r => (x + sumZ r)%Z end.

Fixpoint map2 {A B C} (f : A -> B -> C) (l1 : list A) (l2 : list B) : list C :=
  match l1, l2 with x :: r1, y :: r2 => f x y :: map2 f r1 r2 | _, _ => [] end.
