(* Insertion sort on nat (model of torch.sort on index tensors) and the characterisation every
   routing checker needs: sort l = zeros ++ [1..n] iff l has each of 1..n exactly once and zeros otherwise. *)
From Coq Require Import List Arith Lia Permutation Sorted Bool.
From RL4CO Require Import Base.Num.
Import ListNotations.

Fixpoint insert_sorted (x : nat) (l : list nat) : list nat :=
  match l with [] => [x] | y :: r => if Nat.leb x y then x :: l else y :: insert_sorted x r end.
Definition sort_nat (l : list nat) : list nat := fold_right insert_sorted [] l.

Lemma insert_perm x l : Permutation (insert_sorted x l) (x :: l).
Proof.
  induction l as [|y l IH]; simpl; [apply Permutation_refl|].
  destruct (Nat.leb x y); [apply Permutation_refl|].
  eapply Permutation_trans; [apply perm_skip; exact IH | apply perm_swap].
Qed.
Lemma sort_perm l : Permutation (sort_nat l) l.
Proof.
  induction l as [|x l IH]; simpl; [constructor|].
  eapply Permutation_trans; [apply insert_perm | apply perm_skip; exact IH].
Qed.
Lemma sort_length l : length (sort_nat l) = length l.
Proof. apply Permutation_length, sort_perm. Qed.

Ltac leb_to_prop :=
  repeat match goal with
  | H : Nat.leb _ _ = true |- _ => apply Nat.leb_le in H
  | H : Nat.leb _ _ = false |- _ => apply Nat.leb_gt in H
  end.

Lemma insert_comm x y l : insert_sorted x (insert_sorted y l) = insert_sorted y (insert_sorted x l).
Proof.
  induction l as [|h l IH]; simpl.
  - destruct (Nat.leb x y) eqn:E1, (Nat.leb y x) eqn:E2; try reflexivity; leb_to_prop.
    + assert (x = y) by lia. subst. reflexivity.
    + lia.
  - destruct (Nat.leb y h) eqn:Eyh, (Nat.leb x h) eqn:Exh; simpl.
    + destruct (Nat.leb x y) eqn:E1, (Nat.leb y x) eqn:E2; simpl; rewrite ?Exh, ?Eyh; try reflexivity; leb_to_prop.
      * assert (x = y) by lia. subst. reflexivity.
      * lia.
    + rewrite Eyh. destruct (Nat.leb x y) eqn:E1; [leb_to_prop; lia|]. simpl. rewrite Exh. reflexivity.
    + rewrite Exh. destruct (Nat.leb y x) eqn:E1; [leb_to_prop; lia|]. simpl. rewrite Eyh. reflexivity.
    + rewrite Eyh, Exh, IH. reflexivity.
Qed.

Lemma sort_perm_eq l l' : Permutation l l' -> sort_nat l = sort_nat l'.
Proof.
  induction 1 as [| x l l' _ IH | x y l | l l' l'' _ IH1 _ IH2]; simpl.
  - reflexivity.
  - rewrite IH. reflexivity.
  - apply insert_comm.
  - congruence.
Qed.

(* sortedness as a boolean-free inductive: each element below its successor *)
Inductive sorted_le : list nat -> Prop :=
| sl_nil : sorted_le []
| sl_one x : sorted_le [x]
| sl_cons x y l : x <= y -> sorted_le (y :: l) -> sorted_le (x :: y :: l).

Lemma sort_sorted_id l : sorted_le l -> sort_nat l = l.
Proof.
  induction 1 as [| x | x y l Hxy Hs IH]; simpl; try reflexivity.
  simpl in IH. rewrite IH. simpl. apply Nat.leb_le in Hxy. rewrite Hxy. reflexivity.
Qed.

Lemma sorted_seq st n : sorted_le (seq st n).
Proof.
  revert st; induction n as [|n IH]; intros st; simpl; [constructor|].
  destruct n as [|n]; simpl; [constructor|]. constructor; [lia|]. apply (IH (S st)).
Qed.
Lemma sorted_zeros_seq k n : sorted_le (repeat 0 k ++ seq 1 n).
Proof.
  induction k as [|k IH]; simpl; [apply sorted_seq|].
  destruct (repeat 0 k ++ seq 1 n) as [|y l] eqn:E; [constructor|]. constructor; [lia | exact IH].
Qed.

Lemma occ_repeat0 x k : occ x (repeat 0 k) = if Nat.eqb x 0 then k else 0.
Proof.
  unfold occ. destruct (Nat.eqb x 0) eqn:E.
  - apply Nat.eqb_eq in E. apply count_occ_repeat_eq. exact E.
  - apply Nat.eqb_neq in E. apply count_occ_repeat_neq. exact E.
Qed.
Lemma occ_seq x st n : occ x (seq st n) = if (Nat.leb st x && Nat.ltb x (st + n))%bool then 1 else 0.
Proof.
  revert st; induction n as [|n IH]; intros st; cbn [seq].
  - rewrite occ_nil. destruct (Nat.leb st x) eqn:E1; [|reflexivity]. simpl.
    replace (Nat.ltb x (st + 0)) with false; [reflexivity|]. symmetry. apply Nat.ltb_ge. apply Nat.leb_le in E1. lia.
  - rewrite occ_cons, IH.
    destruct (Nat.eqb st x) eqn:E.
    + apply Nat.eqb_eq in E. subst.
      replace (Nat.leb (S x) x) with false by (symmetry; apply Nat.leb_gt; lia).
      rewrite Nat.leb_refl. replace (Nat.ltb x (x + S n)) with true by (symmetry; apply Nat.ltb_lt; lia). reflexivity.
    + apply Nat.eqb_neq in E.
      destruct (Nat.leb st x) eqn:E1, (Nat.leb (S st) x) eqn:E2; simpl;
        try (apply Nat.leb_le in E1); try (apply Nat.leb_gt in E1); try (apply Nat.leb_le in E2); try (apply Nat.leb_gt in E2); try lia;
        try (replace (st + S n) with (S st + n) by lia); reflexivity.
Qed.

(* the characterisation *)
Theorem sort_is_zeros_seq (l : list nat) (n : nat) :
  n <= length l ->
  (sort_nat l = repeat 0 (length l - n) ++ seq 1 n
   <-> (forall j, 1 <= j <= n -> occ j l = 1) /\ (forall a, In a l -> a <= n)).
Proof.
  intros Hlen. set (k := length l - n). split.
  - intros Hs.
    assert (P : Permutation l (repeat 0 k ++ seq 1 n)) by (rewrite <- Hs; apply Permutation_sym, sort_perm).
    split.
    + intros j Hj. unfold occ. rewrite (proj1 (Permutation_count_occ Nat.eq_dec _ _) P j).
      fold (occ j (repeat 0 k ++ seq 1 n)). rewrite occ_app, occ_repeat0, occ_seq.
      replace (Nat.eqb j 0) with false by (symmetry; apply Nat.eqb_neq; lia).
      replace (Nat.leb 1 j) with true by (symmetry; apply Nat.leb_le; lia).
      replace (Nat.ltb j (1 + n)) with true by (symmetry; apply Nat.ltb_lt; lia). reflexivity.
    + intros a Ha. apply (Permutation_in _ P) in Ha. apply in_app_iff in Ha as [Ha|Ha].
      * apply repeat_spec in Ha. lia.
      * apply in_seq in Ha. lia.
  - intros [Hocc Hrng].
    assert (P : Permutation l (repeat 0 k ++ seq 1 n)).
    { apply (Permutation_count_occ Nat.eq_dec). intros x.
      fold (occ x l). fold (occ x (repeat 0 k ++ seq 1 n)). rewrite occ_app, occ_repeat0, occ_seq.
      destruct (Nat.eqb x 0) eqn:E0.
      - apply Nat.eqb_eq in E0. subst x. change (occ 0 l = k + 0).
        (* number of zeros = length - n: count all elements by value *)
        assert (G : forall m l0, (forall a, In a l0 -> a <= m) -> length l0 = occ 0 l0 + length (filter (fun a => negb (Nat.eqb a 0)) l0)).
        { intros m l0 _. induction l0 as [|y l0 IH]; [reflexivity|]. rewrite occ_cons. simpl. destruct (Nat.eqb y 0); simpl; lia. }
        assert (Hf : length (filter (fun a => negb (Nat.eqb a 0)) l) = n).
        { assert (Pf : Permutation (filter (fun a => negb (Nat.eqb a 0)) l) (seq 1 n)).
          { apply (Permutation_count_occ Nat.eq_dec). intros y. fold (occ y (seq 1 n)). rewrite occ_seq.
            destruct (Nat.eqb y 0) eqn:Ey.
            - apply Nat.eqb_eq in Ey. subst y. cbn [Nat.leb andb].
              apply count_occ_not_In. intros H. apply filter_In in H as [_ H]. discriminate.
            - apply Nat.eqb_neq in Ey.
              assert (Hc : count_occ Nat.eq_dec (filter (fun a => negb (Nat.eqb a 0)) l) y = occ y l).
              { clear -Ey. induction l as [|z l IH]; [reflexivity|]. rewrite occ_cons. simpl.
                destruct (Nat.eqb z 0) eqn:Ez; simpl.
                - apply Nat.eqb_eq in Ez. subst z. replace (Nat.eqb 0 y) with false by (symmetry; apply Nat.eqb_neq; lia). exact IH.
                - destruct (Nat.eq_dec z y) as [->|Hn]; [rewrite Nat.eqb_refl; rewrite IH; reflexivity|].
                  apply Nat.eqb_neq in Hn. rewrite Hn. exact IH. }
              rewrite Hc. replace (Nat.leb 1 y) with true by (symmetry; apply Nat.leb_le; lia). cbn [andb].
              destruct (Nat.ltb y (1 + n)) eqn:El.
              + apply Nat.ltb_lt in El. apply Hocc. lia.
              + apply Nat.ltb_ge in El. apply occ_not_In. intros H. apply Hrng in H. lia. }
          rewrite (Permutation_length Pf), seq_length. reflexivity. }
        pose proof (G n l Hrng) as HG. unfold k. lia.
      - apply Nat.eqb_neq in E0. replace (Nat.leb 1 x) with true by (symmetry; apply Nat.leb_le; lia). cbn [andb plus].
        destruct (Nat.ltb x (S n)) eqn:El.
        + apply Nat.ltb_lt in El. rewrite Hocc by lia. reflexivity.
        + apply Nat.ltb_ge in El. cbn. apply occ_not_In. intros H. apply Hrng in H. lia. }
    rewrite (sort_perm_eq _ _ P). apply sort_sorted_id. apply sorted_zeros_seq.
Qed.
