(* Shared numeric and list infrastructure for the K1 (discrete / state-machine) models.
   Quantities are integers (Z): the harness scales every float32 datum exactly by 2^64.
   [arith] abstracts the rounding applied after each float32 operation of the code:
   theorems are proved at [exact] (rnd = identity: exact arithmetic); the correspondence check
   runs the very same model at [f32] (round-to-nearest-even to 24 significant bits), which makes the
   model bit-exact with the implementation's float32 accumulators. *)
From Coq Require Import ZArith List Bool Lia ZifyBool Arith.
Import ListNotations.
Open Scope Z_scope.

Record arith := { rnd : Z -> Z }.
Definition exact : arith := {| rnd := fun x => x |}.

(* round to nearest, ties to even, keeping 24 significant bits (float32 without exponent limits) *)
Definition round24 (v : Z) : Z :=
  if v =? 0 then 0 else
  let a := Z.abs v in
  let l := Z.log2 a in
  if l <? 24 then v else
  let sh := l - 23 in
  let q := Z.shiftr a sh in
  let r := a - Z.shiftl q sh in
  let half := Z.shiftl 1 (sh - 1) in
  let q' := if (half <? r) || ((half =? r) && Z.odd q) then q + 1 else q in
  Z.sgn v * Z.shiftl q' sh.
Definition f32 : arith := {| rnd := round24 |}.

Lemma rnd_exact x : rnd exact x = x.
Proof. reflexivity. Qed.

(* ---------------------------------------------------------------- lists *)
Fixpoint set_nth {A} (n : nat) (x : A) (l : list A) : list A :=
  match l, n with
  | [], _ => []
  | _ :: t, O => x :: t
  | h :: t, S k => h :: set_nth k x t
  end.

Lemma set_nth_length {A} n (x : A) l : length (set_nth n x l) = length l.
Proof. revert n; induction l as [|h t IH]; intros [|n]; simpl; auto. Qed.

Lemma nth_set_nth {A} n m (x d : A) l :
  nth m (set_nth n x l) d = if (Nat.eqb m n && Nat.ltb n (length l))%bool then x else nth m l d.
Proof.
  revert n m; induction l as [|h t IH]; intros n m.
  - simpl. rewrite andb_false_r. destruct n; reflexivity.
  - destruct n as [|n], m as [|m]; simpl; auto. rewrite IH. reflexivity.
Qed.

Lemma nth_set_nth_eq {A} n (x d : A) l : (n < length l)%nat -> nth n (set_nth n x l) d = x.
Proof. intros H. rewrite nth_set_nth, Nat.eqb_refl. apply Nat.ltb_lt in H. rewrite H. reflexivity. Qed.

Lemma nth_set_nth_neq {A} n m (x d : A) l : m <> n -> nth m (set_nth n x l) d = nth m l d.
Proof. intros H. rewrite nth_set_nth. apply Nat.eqb_neq in H. rewrite H. reflexivity. Qed.

Fixpoint sumZ (l : list Z) : Z := match l with [] => 0 | x :: r => x + sumZ r end.
Lemma sumZ_app a b : sumZ (a ++ b) = sumZ a + sumZ b.
Proof. induction a as [|x a IH]; simpl; lia. Qed.
Lemma sumZ_nonneg l : Forall (fun x => 0 <= x) l -> 0 <= sumZ l.
Proof. induction 1; simpl; lia. Qed.

Definition allb (l : list bool) : bool := forallb (fun b => b) l.
Definition anyb (l : list bool) : bool := existsb (fun b => b) l.
Definition countb (l : list bool) : nat := length (filter (fun b => b) l).

Lemma allb_nth l j : allb l = true -> (j < length l)%nat -> nth j l false = true.
Proof.
  unfold allb. revert j; induction l as [|h t IH]; intros [|j] H Hl; simpl in *; try lia;
    apply andb_prop in H as [H1 H2]; auto. apply IH; auto; lia.
Qed.
Lemma allb_forall l : allb l = true <-> (forall j, (j < length l)%nat -> nth j l false = true).
Proof.
  split; [intros H j; apply allb_nth; exact H|].
  unfold allb. induction l as [|h t IH]; intros H; simpl; [reflexivity|].
  pose proof (H 0%nat ltac:(simpl; lia)) as H0. simpl in H0. subst h. simpl.
  apply IH. intros j Hj. apply (H (S j)). simpl; lia.
Qed.
Lemma anyb_exists l : anyb l = true <-> exists j, (j < length l)%nat /\ nth j l false = true.
Proof.
  unfold anyb. induction l as [|h t IH]; simpl.
  - split; [discriminate | intros (j & Hj & _); lia].
  - rewrite orb_true_iff, IH. split.
    + intros [H | (j & Hj & Hn)]; [exists 0%nat; split; [lia | exact H] | exists (S j); split; [lia | exact Hn]].
    + intros ([|j] & Hj & Hn); [left; exact Hn | right; exists j; split; [lia | exact Hn]].
Qed.

(* matrix access with default 0 *)
Definition mget (m : list (list Z)) (i j : nat) : Z := nth j (nth i m []) 0.

(* boolean list comparison helpers used by the harness *)
Fixpoint subsetb (a b : list bool) : bool :=   (* every true of a is a true of b, same length *)
  match a, b with
  | [], [] => true
  | x :: a', y :: b' => (negb x || y) && subsetb a' b'
  | _, _ => false
  end.
Fixpoint eqlistb (a b : list bool) : bool :=
  match a, b with
  | [], [] => true
  | x :: a', y :: b' => Bool.eqb x y && eqlistb a' b'
  | _, _ => false
  end.

Lemma subsetb_nth a b j : subsetb a b = true -> nth j a false = true -> nth j b false = true.
Proof.
  revert b j; induction a as [|x a IH]; intros [|y b] j H Hn; simpl in *; try discriminate.
  - destruct j; discriminate.
  - apply andb_prop in H as [H1 H2]. destruct j as [|j].
    + subst x. simpl in H1. exact H1.
    + eapply IH; eassumption.
Qed.

(* count occurrences of a nat in a list *)
Definition occ (x : nat) (l : list nat) : nat := count_occ Nat.eq_dec l x.
Lemma occ_nil x : occ x [] = 0%nat.
Proof. reflexivity. Qed.
Lemma occ_app x a b : occ x (a ++ b) = (occ x a + occ x b)%nat.
Proof. unfold occ. apply count_occ_app. Qed.
Lemma occ_cons x y l : occ x (y :: l) = ((if Nat.eqb y x then 1 else 0) + occ x l)%nat.
Proof. unfold occ. simpl. destruct (Nat.eq_dec y x) as [->|H]; [rewrite Nat.eqb_refl; lia|]. apply Nat.eqb_neq in H. rewrite H. lia. Qed.
Lemma occ_In x l : In x l <-> (0 < occ x l)%nat.
Proof. unfold occ. apply count_occ_In. Qed.
Lemma occ_not_In x l : ~ In x l <-> occ x l = 0%nat.
Proof. unfold occ. apply count_occ_not_In. Qed.

Lemma nth_map_seq {B} (f : nat -> B) (d : B) (st n k : nat) :
  (k < n)%nat -> nth k (map f (seq st n)) d = f (st + k)%nat.
Proof.
  intros H. rewrite (nth_indep (map f (seq st n)) d (f 0%nat)) by (rewrite map_length, seq_length; exact H).
  rewrite map_nth, seq_nth by exact H. reflexivity.
Qed.

Lemma NoDup_app_l {A} (a b : list A) : NoDup (a ++ b) -> NoDup a.
Proof.
  induction a as [|x a IH]; intros H; [constructor|]. cbn in H. inversion H as [|? ? Hx Hn]; subst.
  constructor; [intros Hc; apply Hx; apply in_app_iff; left; exact Hc | apply IH; exact Hn].
Qed.
Lemma NoDup_app_r {A} (a b : list A) : NoDup (a ++ b) -> NoDup b.
Proof. induction a as [|x a IH]; intros H; [exact H|]. cbn in H. inversion H; subst. apply IH; assumption. Qed.
Lemma NoDup_app_disj {A} (a b : list A) x : NoDup (a ++ b) -> In x a -> In x b -> False.
Proof.
  induction a as [|y a IH]; intros H Ha Hb; [destruct Ha|]. cbn in H. inversion H as [|? ? Hy Hn]; subst.
  destruct Ha as [->|Ha]; [apply Hy; apply in_app_iff; right; exact Hb | eapply IH; eassumption].
Qed.
