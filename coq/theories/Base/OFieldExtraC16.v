(* Ordered-field lemmas used by C16 (Train/Dual.v, Train/Loss.v); additions to Base/OField.v. *)
From Coq Require Import List Arith Bool Lia Ring Field.
From RL4CO Require Import Base.OField.
Import ListNotations.

Section ExtraC16.
  Variable K : ofield.
  Open Scope of_scope.
  Add Field Kf_x16 : (Fth K).

  Definition fhalf : K := f1 / (f1 + f1).
  Definition fabs (x : K) : K := if f0 <=? x then x else - x.
  (* torch.clamp(x, lo, hi) = min(max(x, lo), hi), also when lo > hi *)
  Definition fclamp (x lo hi : K) : K := fmin (fmax x lo) hi.
  (* F.huber_loss with delta = 1, one element: z = |d|; z < 1 ? z*z/2 : z - 1/2 *)
  Definition fhuber (d : K) : K := if fltb (fabs d) f1 then fhalf * (d * d) else fabs d - fhalf.

  Lemma two_neq_0 : (f1 + f1 : K) <> f0.
  Proof.
    pose proof (of_nat_S_neq0 K 1) as H. cbn [of_nat] in H. intros E. apply H.
    replace (f0 + f1 + f1) with ((f1 : K) + f1) by ring. exact E.
  Qed.

  Lemma fhalf_double : fhalf + fhalf = (f1 : K).
  Proof. unfold fhalf. field. apply two_neq_0. Qed.

  Lemma fltb_irrefl (x : K) : fltb x x = false.
  Proof. unfold fltb. rewrite fle_refl. reflexivity. Qed.

  Lemma fltb_true_iff (x y : K) : fltb x y = true <-> flt x y.
  Proof. unfold flt. tauto. Qed.

  Lemma flt_not_le (x y : K) : flt x y -> (y <=? x) = false.
  Proof. unfold flt, fltb. destruct (y <=? x); [discriminate | reflexivity]. Qed.

  Lemma flt_sub_pos (x y : K) : flt f0 y -> flt (x - y) x.
  Proof.
    intros H. apply flt_iff. apply flt_iff in H as [H1 H2]. split.
    - apply fle_of_sub. replace (x - (x - y)) with y by ring. exact H1.
    - intros E. apply H2. replace y with (x - (x - y)) by ring. rewrite E. ring.
  Qed.

  Lemma flt_add_pos_r (x y : K) : flt f0 y -> flt x (x + y).
  Proof.
    intros H. apply flt_iff. apply flt_iff in H as [H1 H2]. split.
    - apply fle_of_sub. replace (x + y - x) with y by ring. exact H1.
    - intros E. apply H2. replace y with (x + y - x) by ring. rewrite <- E. ring.
  Qed.

  (* 1 lies strictly inside the PPO clip range when the range is positive *)
  Lemma clip_inside (eps : K) :
    flt f0 eps -> fltb (f1 - eps) f1 = true /\ fltb f1 (f1 + eps) = true.
  Proof. intros H. split; [apply flt_sub_pos | apply flt_add_pos_r]; exact H. Qed.

  Lemma fclamp_inside (x lo hi : K) : flt lo x -> flt x hi -> fclamp x lo hi = x.
  Proof.
    intros H1 H2. unfold fclamp, fmax, fmin.
    rewrite (flt_not_le _ _ H1). pose proof (flt_le _ _ _ H2) as L. unfold fle in L. rewrite L. reflexivity.
  Qed.

  (* deviations from the mean of a non-empty group sum to zero *)
  Lemma fsum_dev_zero (g : list K) :
    g <> [] -> fsum (map (fun x => x - fmean g) g) = f0.
  Proof.
    intros Hg. rewrite (fsum_map_sub K (fun x => x) (fun _ => fmean g)).
    rewrite map_id, fsum_map_const. unfold fmean.
    destruct g as [|x g]; [congruence|]. cbn [length].
    field. apply of_nat_S_neq0.
  Qed.

  Lemma fmean_dev_zero (g : list K) :
    g <> [] -> fmean (map (fun x => x - fmean g) g) = f0.
  Proof.
    intros Hg. unfold fmean at 1. rewrite fsum_dev_zero by exact Hg. rewrite map_length.
    destruct g as [|x g]; [congruence|]. cbn [length]. field. apply of_nat_S_neq0.
  Qed.

  Lemma fsum_concat (ls : list (list K)) : fsum (concat ls) = fsum (map fsum ls).
  Proof. induction ls as [|l ls IH]; [reflexivity|]. cbn [concat map fsum]. rewrite fsum_app, IH. reflexivity. Qed.

  Lemma fsum_all_zero (l : list K) : Forall (fun x => x = f0) l -> fsum l = f0.
  Proof. induction 1 as [|x l Hx _ IH]; [reflexivity|]. cbn [fsum]. rewrite Hx, IH. ring. Qed.
End ExtraC16.

Arguments fhalf {K}. Arguments fabs {K}. Arguments fclamp {K}. Arguments fhuber {K}.
