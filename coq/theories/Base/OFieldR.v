(* The real-number instance of the abstract ordered field (depends on the axioms of Coq.Reals). *)
From Coq Require Import Reals Field_theory Bool.
From RL4CO Require Import Base.OField.
Local Open Scope R_scope.

Definition Rleb (x y : R) : bool := if Rle_dec x y then true else false.
Lemma Rleb_iff x y : Rleb x y = true <-> x <= y.
Proof. unfold Rleb. destruct (Rle_dec x y); split; auto; discriminate. Qed.

Definition RF : ofield.
Proof.
  refine {| F := R; f0 := 0; f1 := 1; fadd := Rplus; fmul := Rmult; fsub := Rminus;
            fopp := Ropp; fdiv := Rdiv; finv := Rinv; fleb := Rleb; Fth := Rfield |}.
  - intros x. apply Rleb_iff. apply Rle_refl.
  - intros x y H1 H2. apply Rleb_iff in H1, H2. apply Rle_antisym; assumption.
  - intros x y z H1 H2. apply Rleb_iff in H1, H2. apply Rleb_iff. eapply Rle_trans; eassumption.
  - intros x y. destruct (Rle_lt_dec x y) as [H|H].
    + left. apply Rleb_iff. exact H.
    + right. apply Rleb_iff. apply Rlt_le. exact H.
  - intros x y z H. apply Rleb_iff in H. apply Rleb_iff. apply Rplus_le_compat_r. exact H.
  - intros x y H1 H2. apply Rleb_iff in H1, H2. apply Rleb_iff. apply Rmult_le_pos; assumption.
Defined.
