(* Generic signature of a constructive environment model (one batch row) and the generic
   notions every C01-C06 statement is phrased with: run, admitted action lists, traces. *)
From Coq Require Import ZArith List Bool Lia Arith.
From RL4CO Require Import Base.Num.
Import ListNotations.

Record Env := {
  inst : Type;
  st : Type;
  reset : inst -> st;
  step : inst -> st -> nat -> st;
  stepok : inst -> st -> nat -> bool;   (* false = the real code would index out of range / raise *)
  mask : inst -> st -> list bool;       (* true = action offered as feasible *)
  done : inst -> st -> bool;
}.

Section Generic.
  Variable E : Env.
  Variable i : inst E.

  Fixpoint run_from (s : st E) (acts : list nat) : st E :=
    match acts with [] => s | a :: r => run_from (step E i s a) r end.
  Definition run (acts : list nat) : st E := run_from (reset E i) acts.

  Definition offered (s : st E) (a : nat) : bool := nth a (mask E i s) false.

  (* every action lies inside the mask of the state it is taken in *)
  Fixpoint adm_from (s : st E) (acts : list nat) : bool :=
    match acts with [] => true | a :: r => offered s a && adm_from (step E i s a) r end.
  Definition adm (acts : list nat) : bool := adm_from (reset E i) acts.

  (* no step of the list would crash *)
  Fixpoint ok_from (s : st E) (acts : list nat) : bool :=
    match acts with [] => true | a :: r => stepok E i s a && ok_from (step E i s a) r end.

  Lemma run_from_app s a b : run_from s (a ++ b) = run_from (run_from s a) b.
  Proof. revert s; induction a as [|x a IH]; intros s; simpl; auto. Qed.
  Lemma run_app a b : run (a ++ b) = run_from (run a) b.
  Proof. apply run_from_app. Qed.
  Lemma run_snoc a x : run (a ++ [x]) = step E i (run a) x.
  Proof. rewrite run_app. reflexivity. Qed.

  Lemma adm_from_app s a b : adm_from s (a ++ b) = adm_from s a && adm_from (run_from s a) b.
  Proof. revert s; induction a as [|x a IH]; intros s; simpl; auto. rewrite IH, andb_assoc. reflexivity. Qed.
  Lemma adm_app a b : adm (a ++ b) = adm a && adm_from (run a) b.
  Proof. apply adm_from_app. Qed.
  Lemma adm_snoc a x : adm (a ++ [x]) = adm a && offered (run a) x.
  Proof. rewrite adm_app. simpl. rewrite andb_true_r. reflexivity. Qed.
  Lemma adm_prefix a b : adm (a ++ b) = true -> adm a = true.
  Proof. rewrite adm_app. intros H. apply andb_prop in H. tauto. Qed.

  (* induction principle over admitted prefixes: an invariant that holds initially and is preserved by every
     offered step holds in every state reached by an admitted action list *)
  Lemma adm_invariant (P : list nat -> st E -> Prop) :
    P [] (reset E i) ->
    (forall p s a, P p s -> offered s a = true -> P (p ++ [a]) (step E i s a)) ->
    forall acts, adm acts = true -> P acts (run acts).
  Proof.
    intros H0 Hs acts. induction acts as [|a acts IH] using rev_ind; intros Hadm; [exact H0|].
    rewrite adm_snoc in Hadm. apply andb_prop in Hadm as [Ha Ho].
    rewrite run_snoc. apply Hs; auto.
  Qed.

  (* ------------------------------------------------------------------ traces (correspondence) *)
  (* one recorded implementation step: mask seen before the action, the action, done flag after it *)
  Definition tstep := (list bool * nat * bool)%type.

  (* mode 0: impl mask must be a subset of the model mask (soundness direction, C01/C07/C08)
     mode 1: model mask must be a subset of the impl mask (completeness direction, C05)
     mode 2: equality *)
  Definition mask_rel (mode : nat) (impl model : list bool) : bool :=
    match mode with
    | O => subsetb impl model
    | S O => subsetb model impl
    | _ => eqlistb impl model
    end.

  (* result code: 0 agree; 1000*k + tag at the first disagreement in step k (1-based)
     tag 1 mask relation fails, 2 action not offered by the model, 3 done differs, 7 model step not ok *)
  Fixpoint check_trace_from (mode : nat) (k : Z) (s : st E) (tr : list tstep) : Z :=
    match tr with
    | [] => 0%Z
    | (m, a, d) :: rest =>
        if negb (mask_rel mode m (mask E i s)) then (1000 * k + 1)%Z
        else if negb (offered s a) then (1000 * k + 2)%Z
        else if negb (stepok E i s a) then (1000 * k + 7)%Z
        else let s' := step E i s a in
             if negb (Bool.eqb d (done E i s')) then (1000 * k + 3)%Z
             else check_trace_from mode (k + 1)%Z s' rest
    end.
  Definition check_trace (mode : nat) (tr : list tstep) : Z := check_trace_from mode 1%Z (reset E i) tr.

  Definition trace_actions (tr : list tstep) : list nat := map (fun t => snd (fst t)) tr.
End Generic.

Arguments run {E}. Arguments run_from {E}. Arguments adm {E}. Arguments adm_from {E}. Arguments offered {E}.
Arguments check_trace {E}. Arguments ok_from {E}.
