(* The executable, axiom-free instance of the abstract ordered field: canonical rationals. *)
From Coq Require Import QArith Qcanon Field_theory Bool.
From RL4CO Require Import Base.OField.

Definition Qcleb (x y : Qc) : bool := Qle_bool x y.

Lemma Qcleb_iff x y : Qcleb x y = true <-> (x <= y)%Qc.
Proof. unfold Qcleb, Qcle. apply Qle_bool_iff. Qed.

Definition QcF : ofield.
Proof.
  refine {| F := Qc; f0 := 0%Qc; f1 := 1%Qc; fadd := Qcplus; fmul := Qcmult; fsub := Qcminus;
            fopp := Qcopp; fdiv := Qcdiv; finv := Qcinv; fleb := Qcleb; Fth := Qcft |}.
  - intros x. apply Qcleb_iff. apply Qcle_refl.
  - intros x y H1 H2. apply Qcleb_iff in H1, H2. apply Qcle_antisym; assumption.
  - intros x y z H1 H2. apply Qcleb_iff in H1, H2. apply Qcleb_iff. eapply Qcle_trans; eassumption.
  - intros x y. destruct (Qclt_le_dec x y) as [H|H].
    + left. apply Qcleb_iff. apply Qclt_le_weak. exact H.
    + right. apply Qcleb_iff. exact H.
  - intros x y z H. apply Qcleb_iff in H. apply Qcleb_iff. apply Qcplus_le_compat; [exact H | apply Qcle_refl].
  - intros x y H1 H2. apply Qcleb_iff in H1, H2. apply Qcleb_iff.
    replace 0%Qc with (0 * y)%Qc by ring. apply Qcmult_le_compat_r; assumption.
Defined.

Definition qc (a : Z) (b : positive) : Qc := Q2Qc (a # b).
