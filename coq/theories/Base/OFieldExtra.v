(* More facts about the abstract ordered field of Base/OField.v (used by Decoding/ProcessLogits.v).
   Nothing here changes OField.v; everything is derived from its record laws. *)
From Coq Require Import Ring Field Ring_theory Field_theory List Bool Arith Lia Permutation.
From RL4CO Require Import Base.OField.
Import ListNotations.

Section Extra.
  Variable K : ofield.
  Open Scope of_scope.
  Add Field Kf_x : (Fth K).

  Lemma fleb_false_flt (x y : K) : (x <=? y) = false -> flt y x.
  Proof. intros H. unfold flt, fltb. rewrite H. reflexivity. Qed.

  Lemma flt_fleb_false (x y : K) : flt y x -> (x <=? y) = false.
  Proof. unfold flt, fltb. intros H. destruct (x <=? y); [discriminate | reflexivity]. Qed.

  Lemma fle_flt_dec (x y : K) : {fle x y} + {flt y x}.
  Proof. destruct (x <=? y) eqn:E; [left; exact E | right; apply fleb_false_flt; exact E]. Qed.

  Lemma fle_not_flt (x y : K) : fle x y -> ~ flt y x.
  Proof. unfold fle, flt, fltb. intros H1 H2. rewrite H1 in H2. discriminate. Qed.

  Lemma flt_neq (x y : K) : flt x y -> x <> y.
  Proof. intros H. apply (flt_iff K) in H. tauto. Qed.

  Lemma flt_neq' (x y : K) : flt x y -> y <> x.
  Proof. intros H E. symmetry in E. revert E. apply flt_neq. exact H. Qed.

  Lemma flt_trans (x y z : K) : flt x y -> flt y z -> flt x z.
  Proof. intros H1 H2. eapply (flt_le_trans K); [exact H1 | apply (flt_le K); exact H2]. Qed.

  Lemma fle_refl' (x y : K) : x = y -> fle x y.
  Proof. intros ->. apply fle_refl. Qed.

  Lemma fle_trans' (x y z : K) : fle x y -> fle y z -> fle x z.
  Proof. apply fle_trans. Qed.

  Lemma fle_mul_nonneg_r (x y c : K) : fle x y -> fle f0 c -> fle (x * c) (y * c).
  Proof.
    intros H Hc. apply (fle_of_sub K). replace (y * c - x * c) with ((y - x) * c) by ring.
    apply fmul_nonneg; [apply (fle_sub_nonneg K); exact H | exact Hc].
  Qed.

  Lemma flt_mul_pos_r (x y c : K) : flt x y -> flt f0 c -> flt (x * c) (y * c).
  Proof.
    intros H Hc. apply (flt_iff K). split.
    - apply fle_mul_nonneg_r; [apply (flt_le K); exact H | apply (flt_le K); exact Hc].
    - intros E. apply (flt_neq _ _ H).
      replace x with (x * c / c) by (field; apply flt_neq'; exact Hc).
      rewrite E. field. apply flt_neq'; exact Hc.
  Qed.

  Lemma fleb_mul_pos_r (x y c : K) : flt f0 c -> ((x * c) <=? (y * c)) = (x <=? y).
  Proof.
    intros Hc. destruct (x <=? y) eqn:E.
    - apply fle_mul_nonneg_r; [exact E | apply (flt_le K); exact Hc].
    - apply flt_fleb_false. apply flt_mul_pos_r; [apply fleb_false_flt; exact E | exact Hc].
  Qed.

  Lemma fle_div_pos (x y z : K) : flt f0 z -> fle x y -> fle (x / z) (y / z).
  Proof.
    intros Hz H. replace (x / z) with (x * (f1 / z)) by (field; apply flt_neq'; exact Hz).
    replace (y / z) with (y * (f1 / z)) by (field; apply flt_neq'; exact Hz).
    apply fle_mul_nonneg_r; [exact H | apply (flt_le K); apply (finv_pos K); exact Hz].
  Qed.

  Lemma fleb_div_pos (x y z : K) : flt f0 z -> ((x / z) <=? (y / z)) = (x <=? y).
  Proof.
    intros Hz. replace (x / z) with (x * (f1 / z)) by (field; apply flt_neq'; exact Hz).
    replace (y / z) with (y * (f1 / z)) by (field; apply flt_neq'; exact Hz).
    apply fleb_mul_pos_r. apply (finv_pos K). exact Hz.
  Qed.

  Lemma fdiv_self (z : K) : z <> f0 -> z / z = f1.
  Proof. intros H. field. exact H. Qed.

  Lemma fdiv_0_l (z : K) : z <> f0 -> f0 / z = f0.
  Proof. intros H. field. exact H. Qed.

  Lemma fsum_map_div (z : K) (l : list K) : z <> f0 -> fsum (map (fun x => x / z) l) = fsum l / z.
  Proof.
    intros Hz. induction l as [|x l IH]; simpl.
    - field; exact Hz.
    - rewrite IH. field; exact Hz.
  Qed.

  Lemma fsum_map_mul_r (c : K) (l : list K) : fsum (map (fun x => x * c) l) = fsum l * c.
  Proof. induction l as [|x l IH]; simpl; [ring | rewrite IH; ring]. Qed.

  Lemma fsum_perm (l l' : list K) : Permutation l l' -> fsum l = fsum l'.
  Proof.
    induction 1; simpl.
    - reflexivity.
    - rewrite IHPermutation. reflexivity.
    - ring.
    - congruence.
  Qed.

  Lemma fsum_map_perm {A} (f : A -> K) (l l' : list A) : Permutation l l' -> fsum (map f l) = fsum (map f l').
  Proof. intros H. apply fsum_perm. apply Permutation_map. exact H. Qed.

  Lemma fsum_map_ext_in {A} (f g : A -> K) (l : list A) :
    (forall x, In x l -> f x = g x) -> fsum (map f l) = fsum (map g l).
  Proof.
    induction l as [|x l IH]; intros H; simpl; [reflexivity|].
    rewrite H by (left; reflexivity). rewrite IH; [reflexivity|]. intros y Hy. apply H. right. exact Hy.
  Qed.

  Lemma fsum_map_nonneg {A} (f : A -> K) (l : list A) : (forall x, In x l -> fle f0 (f x)) -> fle f0 (fsum (map f l)).
  Proof.
    intros H. apply (fsum_nonneg K). apply Forall_forall. intros y Hy. apply in_map_iff in Hy as (x & <- & Hx).
    apply H. exact Hx.
  Qed.

  Lemma fsum_map_pos {A} (f : A -> K) (l : list A) :
    (forall x, In x l -> fle f0 (f x)) -> (exists x, In x l /\ flt f0 (f x)) -> flt f0 (fsum (map f l)).
  Proof.
    intros H (x & Hx & Hp). apply (fsum_pos K).
    - apply Forall_forall. intros y Hy. apply in_map_iff in Hy as (z & <- & Hz). apply H. exact Hz.
    - apply Exists_exists. exists (f x). split; [apply in_map; exact Hx | exact Hp].
  Qed.

  Lemma fsum_map_le {A} (f g : A -> K) (l : list A) :
    (forall x, In x l -> fle (f x) (g x)) -> fle (fsum (map f l)) (fsum (map g l)).
  Proof.
    induction l as [|x l IH]; intros H; simpl; [apply fle_refl|].
    apply (fle_add K); [apply H; left; reflexivity | apply IH; intros y Hy; apply H; right; exact Hy].
  Qed.

  Lemma fle_add_nonneg_r (x y : K) : fle f0 y -> fle x (x + y).
  Proof.
    intros H. replace x with (x + f0) at 1 by ring. apply (fle_add K); [apply fle_refl | exact H].
  Qed.

  (* a member of a list of non-negative numbers is at most their sum *)
  Lemma fsum_ge_member {A} (f : A -> K) (l : list A) (x : A) :
    (forall y, In y l -> fle f0 (f y)) -> In x l -> fle (f x) (fsum (map f l)).
  Proof.
    induction l as [|y l IH]; intros H Hx; simpl; [destruct Hx|].
    destruct Hx as [->|Hx].
    - apply fle_add_nonneg_r. apply fsum_map_nonneg. intros z Hz. apply H. right. exact Hz.
    - replace (f y + fsum (map f l)) with (fsum (map f l) + f y) by ring.
      eapply fle_trans; [apply IH; [intros z Hz; apply H; right; exact Hz | exact Hx]|].
      apply fle_add_nonneg_r. apply H. left. reflexivity.
  Qed.

  Lemma fmax_case (x y : K) : fmax x y = x \/ fmax x y = y.
  Proof. unfold fmax. destruct (x <=? y); auto. Qed.
End Extra.
