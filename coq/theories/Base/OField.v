(* Abstract ordered field: carrier of every K2 (numeric kernel) model.
   One record, two instances: Qc (executable, axiom-free) and R (the mathematical claim). *)
From Coq Require Import Ring Field Ring_theory Field_theory List Bool Arith Lia.
Import ListNotations.

Record ofield := {
  F :> Type;
  f0 : F; f1 : F;
  fadd : F -> F -> F; fmul : F -> F -> F; fsub : F -> F -> F; fopp : F -> F;
  fdiv : F -> F -> F; finv : F -> F;
  fleb : F -> F -> bool;
  Fth : field_theory f0 f1 fadd fmul fsub fopp fdiv finv (@eq F);
  fle_refl : forall x, fleb x x = true;
  fle_antisym : forall x y, fleb x y = true -> fleb y x = true -> x = y;
  fle_trans : forall x y z, fleb x y = true -> fleb y z = true -> fleb x z = true;
  fle_total : forall x y, fleb x y = true \/ fleb y x = true;
  fadd_le : forall x y z, fleb x y = true -> fleb (fadd x z) (fadd y z) = true;
  fmul_nonneg : forall x y, fleb f0 x = true -> fleb f0 y = true -> fleb f0 (fmul x y) = true;
}.

Arguments f0 {o}. Arguments f1 {o}. Arguments fadd {o}. Arguments fmul {o}. Arguments fsub {o}.
Arguments fopp {o}. Arguments fdiv {o}. Arguments finv {o}. Arguments fleb {o}.

Declare Scope of_scope.
Delimit Scope of_scope with of.
Notation "x + y" := (fadd x y) : of_scope.
Notation "x * y" := (fmul x y) : of_scope.
Notation "x - y" := (fsub x y) : of_scope.
Notation "x / y" := (fdiv x y) : of_scope.
Notation "- x" := (fopp x) : of_scope.
Notation "x <=? y" := (fleb x y) : of_scope.

Fixpoint map2 {A B C} (f : A -> B -> C) (a : list A) (b : list B) : list C :=
  match a, b with x :: a', y :: b' => f x y :: map2 f a' b' | _, _ => [] end.

Section Theory.
  Variable K : ofield.
  Open Scope of_scope.
  Add Field Kf : (Fth K).

  Definition fltb (x y : K) : bool := negb (y <=? x).
  Definition fle (x y : K) : Prop := (x <=? y) = true.
  Definition flt (x y : K) : Prop := fltb x y = true.
  Definition feqb (x y : K) : bool := (x <=? y) && (y <=? x).
  Definition vs_op (op : K -> K -> K) (v : list K) (s : K) : list K := map (fun x => op x s) v.
  Definition sv_op (op : K -> K -> K) (s : K) (v : list K) : list K := map (fun x => op s x) v.
  Definition fmin (x y : K) : K := if x <=? y then x else y.
  Definition fmax (x y : K) : K := if x <=? y then y else x.

  Fixpoint fsum (l : list K) : K := match l with [] => f0 | x :: r => x + fsum r end.
  Fixpoint of_nat (n : nat) : K := match n with O => f0 | S m => of_nat m + f1 end.
  Definition fmean (l : list K) : K := fsum l / of_nat (length l).

  Lemma feqb_eq x y : feqb x y = true <-> x = y.
  Proof.
    unfold feqb. split.
    - intros H. apply andb_prop in H as [H1 H2]. apply fle_antisym; assumption.
    - intros ->. rewrite fle_refl. reflexivity.
  Qed.

  Lemma one_neq_zero : (f1 : K) <> f0.
  Proof. exact (F_1_neq_0 (Fth K)). Qed.

  Lemma fsum_app a b : fsum (a ++ b) = fsum a + fsum b.
  Proof. induction a as [|x a IH]; simpl; [ring | rewrite IH; ring]. Qed.

  Lemma of_nat_add n m : of_nat (n + m) = of_nat n + of_nat m.
  Proof. induction n as [|n IH]; simpl; [ring | rewrite IH; ring]. Qed.

  Lemma fsum_map_const (c : K) (l : list K) : fsum (map (fun _ => c) l) = of_nat (length l) * c.
  Proof. induction l as [|x l IH]; simpl; [ring | rewrite IH; ring]. Qed.

  Lemma fsum_map_add (f g : K -> K) l :
    fsum (map (fun x => f x + g x) l) = fsum (map f l) + fsum (map g l).
  Proof. induction l as [|x l IH]; simpl; [ring | rewrite IH; ring]. Qed.

  Lemma fsum_map_sub (f g : K -> K) l :
    fsum (map (fun x => f x - g x) l) = fsum (map f l) - fsum (map g l).
  Proof. induction l as [|x l IH]; simpl; [ring | rewrite IH; ring]. Qed.

  Lemma fsum_map_scale (c : K) (f : K -> K) l :
    fsum (map (fun x => c * f x) l) = c * fsum (map f l).
  Proof. induction l as [|x l IH]; simpl; [ring | rewrite IH; ring]. Qed.

  Lemma fsum_map_ext (f g : K -> K) l : (forall x, f x = g x) -> fsum (map f l) = fsum (map g l).
  Proof. intros H. induction l as [|x l IH]; simpl; [reflexivity | rewrite H, IH; reflexivity]. Qed.

  Lemma map_id_fsum l : fsum (map (fun x : K => x) l) = fsum l.
  Proof. rewrite map_id. reflexivity. Qed.

  (* ---- order ---- *)
  Lemma fle_add_r x y z : fle x y -> fle (x + z) (y + z).
  Proof. apply fadd_le. Qed.

  Lemma fle_add x y z w : fle x y -> fle z w -> fle (x + z) (y + w).
  Proof.
    intros H1 H2. apply (fle_trans K _ (y + z)); [apply fadd_le; exact H1|].
    replace (y + z) with (z + y) by ring. replace (y + w) with (w + y) by ring. apply fadd_le; exact H2.
  Qed.

  Lemma fle_sub_iff x y : fle x y <-> fle f0 (y - x).
  Proof.
    split; intros H.
    - replace f0 with (x + (- x)) by ring. replace (y - x) with (y + (- x)) by ring. apply fadd_le; exact H.
    - replace x with (f0 + x) by ring. replace y with ((y - x) + x) by ring. apply fadd_le; exact H.
  Qed.

  Lemma fle_sub_nonneg x y : fle x y -> fle f0 (y - x).
  Proof. apply fle_sub_iff. Qed.
  Lemma fle_of_sub x y : fle f0 (y - x) -> fle x y.
  Proof. apply fle_sub_iff. Qed.

  Lemma fle_opp x : fle f0 x -> fle (- x) f0.
  Proof. intros H. replace (- x) with (f0 + (- x)) by ring. replace f0 with (x + (- x)) at 2 by ring. apply fadd_le; exact H. Qed.

  Lemma fle_opp' x : fle x f0 -> fle f0 (- x).
  Proof. intros H. replace (- x) with (f0 + (- x)) by ring. replace f0 with (x + (- x)) at 1 by ring. apply fadd_le; exact H. Qed.

  Lemma sq_nonneg x : fle f0 (x * x).
  Proof.
    destruct (fle_total K f0 x) as [H|H].
    - apply fmul_nonneg; exact H.
    - replace (x * x) with ((- x) * (- x)) by ring. apply fmul_nonneg; apply fle_opp'; exact H.
  Qed.

  Lemma fle_0_1 : fle f0 (f1 : K).
  Proof. replace (f1 : K) with ((f1 : K) * f1) by ring. apply sq_nonneg. Qed.

  Lemma flt_irrefl x : ~ flt x x.
  Proof. unfold flt, fltb. rewrite fle_refl. discriminate. Qed.

  Lemma flt_le x y : flt x y -> fle x y.
  Proof. unfold flt, fltb, fle. intros H. destruct (fle_total K x y) as [H'|H']; [exact H'|]. rewrite H' in H. discriminate. Qed.

  Lemma flt_iff x y : flt x y <-> fle x y /\ x <> y.
  Proof.
    split.
    - intros H. split; [apply flt_le; exact H|]. intros ->. exact (flt_irrefl _ H).
    - intros [H1 H2]. unfold flt, fltb. destruct (y <=? x) eqn:E; [|reflexivity].
      exfalso. apply H2. apply fle_antisym; assumption.
  Qed.

  Lemma flt_0_1 : flt f0 (f1 : K).
  Proof. apply flt_iff. split; [apply fle_0_1|]. intros H. apply one_neq_zero. symmetry. exact H. Qed.

  Lemma fle_lt_trans x y z : fle x y -> flt y z -> flt x z.
  Proof.
    intros H1 H2. apply flt_iff. apply flt_iff in H2 as [H2 H3]. split.
    - eapply fle_trans; eassumption.
    - intros ->. apply H3. apply fle_antisym; assumption.
  Qed.

  Lemma flt_le_trans x y z : flt x y -> fle y z -> flt x z.
  Proof.
    intros H1 H2. apply flt_iff. apply flt_iff in H1 as [H1 H3]. split.
    - eapply fle_trans; eassumption.
    - intros ->. apply H3. apply fle_antisym; assumption.
  Qed.

  Lemma flt_add_pos x y : fle f0 x -> flt f0 y -> flt f0 (x + y).
  Proof.
    intros H1 H2. eapply flt_le_trans; [exact H2|].
    replace y with (f0 + y) at 1 by ring. apply fadd_le. exact H1.
  Qed.

  Lemma of_nat_nonneg n : fle f0 (of_nat n).
  Proof. induction n as [|n IH]; simpl; [apply fle_refl|]. apply flt_le. apply flt_add_pos; [exact IH | apply flt_0_1]. Qed.

  Lemma of_nat_pos n : flt f0 (of_nat (S n)).
  Proof. simpl. apply flt_add_pos; [apply of_nat_nonneg | apply flt_0_1]. Qed.

  Lemma of_nat_S_neq0 n : of_nat (S n) <> f0.
  Proof. intros H. pose proof (of_nat_pos n) as P. rewrite H in P. exact (flt_irrefl _ P). Qed.

  Lemma fmul_pos x y : flt f0 x -> flt f0 y -> flt f0 (x * y).
  Proof.
    intros Hx Hy. apply flt_iff. split.
    - apply fmul_nonneg; apply flt_le; assumption.
    - intros H. apply flt_iff in Hx as [_ Hx]. apply flt_iff in Hy as [_ Hy].
      assert (x = f0 / y) as E.
      { replace x with (x * y / y) by (field; auto). rewrite <- H. reflexivity. }
      apply Hx. rewrite E. field. auto.
  Qed.

  Lemma finv_pos x : flt f0 x -> flt f0 (f1 / x).
  Proof.
    intros Hx. pose proof Hx as Hx'. apply flt_iff in Hx' as [_ Hne].
    destruct (fle_total K (f1 / x) f0) as [H|H].
    - exfalso. (* 1 = x * (1/x) <= 0 *)
      assert (fle (x * (f1 / x)) f0) as C.
      { replace (x * (f1 / x)) with (- (x * (- (f1 / x)))) by ring. apply fle_opp.
        apply fmul_nonneg; [apply flt_le; exact Hx | apply fle_opp'; exact H]. }
      replace (x * (f1 / x)) with (f1 : K) in C by (field; auto).
      pose proof flt_0_1 as P. unfold flt, fltb in P. unfold fle in C. rewrite C in P. discriminate.
    - apply flt_iff. split; [exact H|]. intros E.
      apply one_neq_zero. replace (f1 : K) with (x * (f1 / x)) by (field; auto). rewrite <- E. ring.
  Qed.

  Lemma fdiv_pos x y : flt f0 x -> flt f0 y -> flt f0 (x / y).
  Proof.
    intros Hx Hy. replace (x / y) with (x * (f1 / y)).
    - apply fmul_pos; [exact Hx | apply finv_pos; exact Hy].
    - field. apply flt_iff in Hy as [_ Hy]. auto.
  Qed.

  Lemma fdiv_nonneg x y : fle f0 x -> flt f0 y -> fle f0 (x / y).
  Proof.
    intros Hx Hy. replace (x / y) with (x * (f1 / y)).
    - apply fmul_nonneg; [exact Hx | apply flt_le; apply finv_pos; exact Hy].
    - field. apply flt_iff in Hy as [_ Hy]. auto.
  Qed.

  Lemma fsum_nonneg l : Forall (fun x => fle f0 x) l -> fle f0 (fsum l).
  Proof.
    induction 1 as [|x l Hx _ IH]; simpl; [apply fle_refl|].
    replace (f0 : K) with ((f0 : K) + f0) by ring. apply fle_add; assumption.
  Qed.

  Lemma fsum_pos l : Forall (fun x => fle f0 x) l -> Exists (fun x => flt f0 x) l -> flt f0 (fsum l).
  Proof.
    intros Hall Hex. induction Hex as [x l Hx | x l Hex IH]; simpl; inversion Hall; subst.
    - replace (x + fsum l) with (fsum l + x) by ring. apply flt_add_pos; [apply fsum_nonneg; assumption | exact Hx].
    - apply flt_add_pos; [assumption | apply IH; assumption].
  Qed.

  Lemma fmin_le_l x y : fle (fmin x y) x.
  Proof. unfold fmin. destruct (x <=? y) eqn:E; [apply fle_refl|]. destruct (fle_total K x y) as [H|H]; [congruence|exact H]. Qed.
  Lemma fmin_le_r x y : fle (fmin x y) y.
  Proof. unfold fmin. destruct (x <=? y) eqn:E; [exact E | apply fle_refl]. Qed.
  Lemma fmax_ge_l x y : fle x (fmax x y).
  Proof. unfold fmax. destruct (x <=? y) eqn:E; [exact E | apply fle_refl]. Qed.
  Lemma fmax_ge_r x y : fle y (fmax x y).
  Proof. unfold fmax. destruct (x <=? y) eqn:E; [apply fle_refl|]. destruct (fle_total K x y) as [H|H]; [congruence|exact H]. Qed.
End Theory.

Arguments fsum {K}. Arguments of_nat {K}. Arguments fmean {K}.
Arguments feqb {K}. Arguments vs_op {K}. Arguments sv_op {K}. Arguments fmin {K}. Arguments fmax {K}. Arguments fltb {K}. Arguments fle {K}. Arguments flt {K}.
