#!/bin/sh
# tools/verify_seed.sh <dir with patch.diff demo.py meta.json>
# Confirms, in a throw-away worktree of /repo outside /repo and /verif: the patch applies, the demonstration FAILS with it
# and PASSES without it, and the pinned test suite still passes with it (same 4 always-failing download tests).
# Appends the outcome to <dir>/verify.json.  The worktree is removed afterwards.
set -u
D="$(cd "$1" && pwd)"
WT="/tmp/seedverify_$$"
git -C /repo worktree add -q --detach "$WT" HEAD || exit 2
trap 'git -C /repo worktree remove --force "$WT"' EXIT INT TERM
cd "$WT" || exit 2
PYTHONPATH="$WT" timeout 1800 /venv/bin/python "$D/demo.py" > "$D/demo_clean.log" 2>&1; RC_CLEAN=$?
git apply "$D/patch.diff" || { echo "patch does not apply"; exit 2; }
PYTHONPATH="$WT" timeout 1800 /venv/bin/python "$D/demo.py" > "$D/demo_patched.log" 2>&1; RC_PATCHED=$?
PYTHONPATH="$WT" OMP_NUM_THREADS=4 timeout 5400 /venv/bin/python -m pytest -ra -q -p no:cacheprovider --timeout=900 --continue-on-collection-errors > "$D/tests_patched.log" 2>&1
TAIL="$(tail -n 1 "$D/tests_patched.log")"
FAILED="$(grep -E '^(FAILED|ERROR) tests/' "$D/tests_patched.log" | sed 's/ - .*//' | sort | tr '\n' ';')"
python3 - "$D" "$RC_CLEAN" "$RC_PATCHED" "$TAIL" "$FAILED" <<'PY'
import json, sys
d, rc_clean, rc_patched, tail, failed = sys.argv[1:6]
base = {"FAILED tests/test_envs.py::test_eda[DPPEnv]", "FAILED tests/test_envs.py::test_eda[MDPPEnv]",
        "FAILED tests/test_policy.py::test_am_policy[dpp]", "FAILED tests/test_policy.py::test_am_policy[mdpp]"}
f = set(x for x in failed.split(";") if x)
out = {"demo_rc_unchanged": int(rc_clean), "demo_rc_patched": int(rc_patched), "pytest_summary": tail,
       "failed_tests": sorted(f), "only_baseline_failures": f <= base,
       "ok": int(rc_clean) == 0 and int(rc_patched) != 0 and f <= base and "passed" in tail}
json.dump(out, open(d + "/verify.json", "w"), indent=1)
print(json.dumps(out))
PY
