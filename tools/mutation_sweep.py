#!/usr/bin/env python3
"""tools/mutation_sweep.py -- systematic MUTATION SWEEP (development audit, NOT a registered check).

Measures how sensitive the registered checks (./check Cxx --tier quick) are to small realistic single-site edits of the
environment code rl4co/envs/**/env.py.  Nothing here is imported by the checks; nothing under /repo is ever written:
every mutant is applied to a throw-away `git worktree` of /repo under /tmp (one per worker, removed at the end) and the
checks are pointed at it with RL4CO_REPO.  Evidence files go to a scratch directory (VERIF_EVIDENCE_DIR), replay files
written by the killed mutants are removed again.

usage (cwd anywhere; run with any python >= 3.8, the checks themselves use /venv/bin/python):
  tools/mutation_sweep.py list   [--envs tsp,cvrp] [--cap 25] [--all]      enumerate (selected | all) mutants
  tools/mutation_sweep.py run    [--envs ...] [--cap 25] [--workers 4] [--minutes 150] [--fresh]
                                                                             run the sweep (resumes audit/mutation_sweep.json)
  tools/mutation_sweep.py followup [--minutes 20]                           survivors in mask/step/reset code additionally vs C03
  tools/mutation_sweep.py report                                             regenerate audit/MUTATION_SWEEP.md from the json
  tools/mutation_sweep.py show  <mutant-id>                                  print the stored diff
  tools/mutation_sweep.py apply <mutant-id> <tree>                           apply one mutant to a scratch tree (for triage)

mutant id = <env>:<function>:<line>:<operator>[.k]   (k = k-th site of that operator on that line, in column order)

operators
  cmp_boundary   <  <-> <=,  >  <-> >=          (== -> != is too loud: skipped)
  and_or         &  <-> |   (also &= <-> |=)
  drop_not       ~x  ->  x
  plus_minus     +  <-> -   (also += <-> -=)
  drop_conjunct  a & b & c -> a & c   (one term of a maximal &-chain; also one conjunct of an `assert a and b`)
  drop_disjunct  a | b -> a           (one term of a maximal |-chain: "a dropped mask term")
  const+1/const-1  small integer constant +-1 inside a subscript, a range()/arange() or as operand of +/-
  any_all        .any() <-> .all()
  max_min        max <-> min, maximum <-> minimum, amax <-> amin, argmax <-> argmin
  col01          [..., 0] <-> [..., 1]
  drop_clone     x.clone() -> x
"""
from __future__ import annotations

import argparse
import ast
import difflib
import json
import os
import queue
import random
import re
import shutil
import subprocess
import sys
import threading
import time
from pathlib import Path

VERIF = Path(__file__).resolve().parent.parent
REPO = Path("/repo")
AUDIT = VERIF / "audit"
JSON_OUT = AUDIT / "mutation_sweep.json"
MD_OUT = AUDIT / "MUTATION_SWEEP.md"
PY = "/venv/bin/python"
CHECK_TIMEOUT = 300     # a quick-tier check restricted to one unit takes 15-70 s (budget 180 s); beyond this the mutant made the harness spin
TEST_TIMEOUT = 150      # the env tests take ~10-30 s; a mutant that makes the random rollout spin forever is "killed by tests (hang)"

# ---------------------------------------------------------------------------------------------- environments
# name, file (under rl4co/envs), primary class, VERIF_ONLY unit for C01..C06, pytest node ids, extras
T = "tests/test_envs.py::"
ENVS = [
    dict(name="tsp", file="routing/tsp/env.py", cls="TSPEnv", unit="tsp", tests=[T + "test_routing[TSPEnv]"]),
    dict(name="atsp", file="routing/atsp/env.py", cls="ATSPEnv", unit="atsp", tests=[T + "test_routing[ATSPEnv]"]),
    dict(name="pdp", file="routing/pdp/env.py", cls="PDPEnv", unit="pdp", tests=[T + "test_routing[PDPEnv]"]),
    dict(name="cvrp", file="routing/cvrp/env.py", cls="CVRPEnv", unit="cvrp", tests=[T + "test_routing[CVRPEnv]"]),
    dict(name="cvrptw", file="routing/cvrptw/env.py", cls="CVRPTWEnv", unit="cvrptw", tests=[T + "test_routing[CVRPTWEnv]"]),
    dict(name="sdvrp", file="routing/sdvrp/env.py", cls="SDVRPEnv", unit="sdvrp", tests=[T + "test_routing[SDVRPEnv]"]),
    dict(name="op", file="routing/op/env.py", cls="OPEnv", unit="op", tests=[T + "test_routing[OPEnv]"]),
    dict(name="pctsp", file="routing/pctsp/env.py", cls="PCTSPEnv", unit="pctsp",
         tests=[T + "test_routing[PCTSPEnv]", T + "test_routing[SPCTSPEnv]"]),
    dict(name="spctsp", file="routing/spctsp/env.py", cls="SPCTSPEnv", unit="spctsp", tests=[T + "test_routing[SPCTSPEnv]"]),
    dict(name="svrp", file="routing/svrp/env.py", cls="SVRPEnv", unit="svrp", tests=[T + "test_routing[SVRPEnv]"]),
    dict(name="mtsp", file="routing/mtsp/env.py", cls="MTSPEnv", unit="mtsp", tests=[T + "test_routing[MTSPEnv]"]),
    dict(name="mdcpdp", file="routing/mdcpdp/env.py", cls="MDCPDPEnv", unit="mdcpdp", tests=[T + "test_routing[MDCPDPEnv]"]),
    dict(name="mtvrp", file="routing/mtvrp/env.py", cls="MTVRPEnv", unit="mtvrp", tests=[T + "test_mtvrp"]),
    dict(name="fjsp", file="scheduling/fjsp/env.py", cls="FJSPEnv", unit="sched", group="sched", c07="fjsp",
         tests=[T + "test_scheduling[True-FJSPEnv]", T + "test_scheduling[False-FJSPEnv]", T + "test_scheduling[True-JSSPEnv]",
                T + "test_scheduling[False-JSSPEnv]", T + "test_jssp_lb", T + "test_scheduling_dataloader"]),
    dict(name="jssp", file="scheduling/jssp/env.py", cls="JSSPEnv", unit="sched", group="sched", c07="fjsp",
         extra_roots=["_translate_action"],
         tests=[T + "test_scheduling[True-JSSPEnv]", T + "test_scheduling[False-JSSPEnv]", T + "test_jssp_lb"]),
    dict(name="ffsp", file="scheduling/ffsp/env.py", cls="FFSPEnv", unit="sched", group="sched", c07="ffsp",
         extra_roots=["pre_step"],
         tests=[T + "test_scheduling[True-FFSPEnv]", T + "test_scheduling[False-FFSPEnv]"]),
    dict(name="smtwtp", file="scheduling/smtwtp/env.py", cls="SMTWTPEnv", unit="sched", group="sched", c07="ffsp",
         tests=[T + "test_smtwtp"]),
    dict(name="flp", file="graph/flp/env.py", cls="FLPEnv", unit="graph", group="graph", c08=True, tests=[T + "test_flp_mcp[FLPEnv]"]),
    dict(name="mcp", file="graph/mcp/env.py", cls="MCPEnv", unit="graph", group="graph", c08=True, tests=[T + "test_flp_mcp[MCPEnv]"]),
]
ENV_BY_NAME = {e["name"]: e for e in ENVS}

ROOTS = {"get_action_mask": "dyn", "_step": "dyn", "_reset": "dyn", "pre_step": "dyn", "_translate_action": "dyn",
         "_get_reward": "reward", "check_solution_validity": "checker"}
# never followed as helpers (not part of the properties' observables, or not reachable from reset/step/mask/reward/checker)
EXCLUDE = {"__init__", "_make_spec", "render", "load_data", "local_search", "select_start_nodes", "get_num_starts", "solve",
           "print_presets", "check_variants", "get_variant_names", "_get_features", "replace_selected_actions"}
CHECKS_BY_CAT = {"dyn": ["C01", "C02", "C04", "C05"], "reward": ["C03", "C04"], "checker": ["C06"]}

OP_PRIORITY = ["cmp_boundary", "drop_conjunct", "and_or", "drop_not", "plus_minus", "drop_disjunct", "const+1", "const-1",
               "any_all", "max_min", "col01", "drop_clone"]


# ---------------------------------------------------------------------------------------------- enumeration
class Src:
    def __init__(self, text: str):
        self.text = text
        self.b = text.encode("utf-8")
        self.line_off = [0]
        for ln in self.b.split(b"\n"):
            self.line_off.append(self.line_off[-1] + len(ln) + 1)

    def off(self, lineno, col):
        return self.line_off[lineno - 1] + col

    def span(self, node):
        return self.off(node.lineno, node.col_offset), self.off(node.end_lineno, node.end_col_offset)

    def pspan(self, node):
        """span of a node widened over the parentheses that wrap exactly this node"""
        s, e = self.span(node)
        b = self.b
        while True:
            i = s - 1
            while i >= 0 and b[i:i + 1] in (b" ", b"\t", b"\n"):
                i -= 1
            j = e
            while j < len(b) and b[j:j + 1] in (b" ", b"\t", b"\n"):
                j += 1
            if i >= 0 and j < len(b) and b[i:i + 1] == b"(" and b[j:j + 1] == b")":
                # make sure the "(" is a grouping paren, not a call paren: the char before it must not end a name / ] / )
                k = i - 1
                while k >= 0 and b[k:k + 1] in (b" ", b"\t"):
                    k -= 1
                if k >= 0 and (b[k:k + 1].isalnum() or b[k:k + 1] in (b"_", b"]", b")")):
                    # could still be a keyword (`assert (`, `return (`, `and (`, `not (`, `in (`, `if (`)
                    m = re.search(rb"(\w+)$", b[max(0, k - 12):k + 1])
                    if not (m and m.group(1) in (b"assert", b"return", b"and", b"or", b"not", b"in", b"if", b"else", b"elif")):
                        break
                s, e = i, j + 1
            else:
                break
        return s, e

    def between(self, a_end, b_start):
        """source between two offsets with comments blanked"""
        seg = self.b[a_end:b_start]
        return re.sub(rb"#[^\n]*", lambda m: b" " * len(m.group(0)), seg)


def flatten(node, optype):
    if isinstance(node, ast.BinOp) and isinstance(node.op, optype):
        return flatten(node.left, optype) + flatten(node.right, optype)
    return [node]


class Enumerator(ast.NodeVisitor):
    def __init__(self, src: Src, func: str):
        self.src, self.func = src, func
        self.edits = []          # (line, col, operator, start, end, replacement bytes)
        self.parents = []
        self.col01_consts = set()
        self.done_chain = set()

    def add(self, node, op, s, e, rep):
        self.edits.append((node.lineno, node.col_offset, op, s, e, rep))

    def generic_visit(self, node):
        self.parents.append(node)
        super().generic_visit(node)
        self.parents.pop()

    # -- helpers
    def op_token(self, left, right, table):
        s0 = self.src.span(left)[1]
        e0 = self.src.span(right)[0]
        seg = self.src.between(s0, e0)
        pat = b"|".join(re.escape(k) for k in sorted(table, key=len, reverse=True))
        m = re.search(pat, seg)
        if not m:
            return None
        return s0 + m.start(), s0 + m.end(), table[m.group(0)]

    def visit_Compare(self, node):
        operands = [node.left] + node.comparators
        for k, op in enumerate(node.ops):
            if isinstance(op, (ast.Lt, ast.LtE, ast.Gt, ast.GtE)):
                r = self.op_token(operands[k], operands[k + 1], {b"<=": b"<", b">=": b">", b"<": b"<=", b">": b">="})
                if r:
                    self.add(node, "cmp_boundary", *r)
        self.generic_visit(node)

    def visit_BinOp(self, node):
        if isinstance(node.op, (ast.BitAnd, ast.BitOr)):
            r = self.op_token(node.left, node.right, {b"&": b"|", b"|": b"&"})
            if r:
                self.add(node, "and_or", *r)
            if id(node) not in self.done_chain:
                optype = type(node.op)
                terms = flatten(node, optype)
                # mark inner chain nodes so the chain is handled once, from its top
                stack = [node]
                while stack:
                    n = stack.pop()
                    if isinstance(n, ast.BinOp) and isinstance(n.op, optype):
                        self.done_chain.add(id(n))
                        stack += [n.left, n.right]
                spans = [self.src.pspan(t) for t in terms]
                name = "drop_conjunct" if optype is ast.BitAnd else "drop_disjunct"
                for i, t in enumerate(terms):
                    if i + 1 < len(terms):
                        s, e = spans[i][0], spans[i + 1][0]
                    else:
                        s, e = spans[i - 1][1], spans[i][1]
                    self.edits.append((t.lineno, t.col_offset, name, s, e, b""))
        elif isinstance(node.op, (ast.Add, ast.Sub)):
            def is_str(x):
                return isinstance(x, ast.JoinedStr) or (isinstance(x, ast.Constant) and isinstance(x.value, str))

            def is_num(x):
                return isinstance(x, ast.Constant) and isinstance(x.value, (int, float)) and not isinstance(x.value, bool)
            if not (is_str(node.left) or is_str(node.right) or (is_num(node.left) and is_num(node.right))):
                r = self.op_token(node.left, node.right, {b"+": b"-", b"-": b"+"})
                if r:
                    self.add(node, "plus_minus", *r)
        self.generic_visit(node)

    def visit_BoolOp(self, node):
        if isinstance(node.op, ast.And) and any(isinstance(p, ast.Assert) for p in self.parents[-1:]):
            spans = [self.src.pspan(t) for t in node.values]
            for i, t in enumerate(node.values):
                if i + 1 < len(node.values):
                    s, e = spans[i][0], spans[i + 1][0]
                else:
                    s, e = spans[i - 1][1], spans[i][1]
                self.edits.append((t.lineno, t.col_offset, "drop_conjunct", s, e, b""))
        self.generic_visit(node)

    def visit_AugAssign(self, node):
        if isinstance(node.op, (ast.Add, ast.Sub)):
            r = self.op_token(node.target, node.value, {b"+=": b"-=", b"-=": b"+="})
            if r:
                self.add(node, "plus_minus", *r)
        elif isinstance(node.op, (ast.BitAnd, ast.BitOr)):
            r = self.op_token(node.target, node.value, {b"&=": b"|=", b"|=": b"&="})
            if r:
                self.add(node, "and_or", *r)
        self.generic_visit(node)

    def visit_UnaryOp(self, node):
        if isinstance(node.op, ast.Invert):
            s, _ = self.src.span(node)
            if self.src.b[s:s + 1] == b"~":
                self.add(node, "drop_not", s, s + 1, b"")
        self.generic_visit(node)

    SWAP = {"any": "all", "all": "any", "max": "min", "min": "max", "maximum": "minimum", "minimum": "maximum",
            "amax": "amin", "amin": "amax", "argmax": "argmin", "argmin": "argmax",
            "gt": "ge", "ge": "gt", "lt": "le", "le": "lt", "logical_and": "logical_or", "logical_or": "logical_and"}
    SWAP_OP = {"any": "any_all", "all": "any_all", "gt": "cmp_boundary", "ge": "cmp_boundary", "lt": "cmp_boundary", "le": "cmp_boundary",
               "logical_and": "and_or", "logical_or": "and_or"}

    def visit_Call(self, node):
        f = node.func
        if isinstance(f, ast.Attribute):
            if f.attr in self.SWAP:
                _, e = self.src.span(f)
                s = e - len(f.attr)
                if self.src.b[s:e] == f.attr.encode():
                    self.add(node, self.SWAP_OP.get(f.attr, "max_min"), s, e, self.SWAP[f.attr].encode())
            if f.attr == "clone" and not node.args and not node.keywords:
                _, vs = self.src.span(f.value)
                _, ce = self.src.span(node)
                self.add(node, "drop_clone", vs, ce, b"")
        # range()/arange() arguments count as index arithmetic
        fname = f.attr if isinstance(f, ast.Attribute) else (f.id if isinstance(f, ast.Name) else "")
        if fname in ("range", "arange"):
            for a in node.args:
                self.const_pm(a)
        self.generic_visit(node)

    def visit_Subscript(self, node):
        sl = node.slice
        if isinstance(sl, ast.Tuple) and len(sl.elts) >= 2:
            last = sl.elts[-1]
            head_ok = all(
                (isinstance(x, ast.Constant) and x.value is Ellipsis)
                or (isinstance(x, ast.Slice) and x.lower is None and x.upper is None and x.step is None)
                for x in sl.elts[:-1])
            if head_ok and isinstance(last, ast.Constant) and type(last.value) is int and last.value in (0, 1):
                s, e = self.src.span(last)
                self.add(last, "col01", s, e, b"1" if last.value == 0 else b"0")
                self.col01_consts.add(id(last))
        is_shape = isinstance(node.value, ast.Attribute) and node.value.attr == "shape"   # x.shape[-2] +-1 only crashes: skipped
        if not is_shape:
            for n in ast.walk(sl):
                self.const_pm(n)
        self.generic_visit(node)

    def const_pm(self, n):
        """n: a Constant int or -Constant int (small): +-1"""
        neg = False
        c = n
        if isinstance(n, ast.UnaryOp) and isinstance(n.op, ast.USub) and isinstance(n.operand, ast.Constant):
            c, neg = n.operand, True
        if not (isinstance(c, ast.Constant) and type(c.value) is int and abs(c.value) <= 3):
            return
        if id(c) in self.col01_consts or id(c) in getattr(self, "_pm_done", set()):
            return
        self.__dict__.setdefault("_pm_done", set()).add(id(c))
        v = -c.value if neg else c.value
        s, e = self.src.span(n)
        for d, name in ((1, "const+1"), (-1, "const-1")):
            self.edits.append((n.lineno, n.col_offset, name, s, e, str(v + d).encode()))


class ConstInArith(ast.NodeVisitor):
    """int constants that are direct operands of + / - with a non-constant partner (index / counter arithmetic)"""

    def __init__(self, enum: Enumerator):
        self.enum = enum

    def visit_BinOp(self, node):
        if isinstance(node.op, (ast.Add, ast.Sub)):
            for a, b in ((node.left, node.right), (node.right, node.left)):
                if isinstance(a, ast.Constant) and type(a.value) is int and not isinstance(b, ast.Constant):
                    # a negative literal on the right of a binary minus cannot be written in place: skip v-1 < 0 there
                    self.enum.const_pm(a)
        self.generic_visit(node)


def target_functions(tree: ast.Module, env):
    """{name: (FunctionDef, set(categories))} -- the property-carrying functions of the primary class and the helpers
    (same file) they call, transitively."""
    defs = {}
    primary = None
    for n in tree.body:
        if isinstance(n, ast.ClassDef):
            if n.name == env["cls"]:
                primary = n
            elif n.name.endswith("Env"):
                continue          # other env classes of the same file (improvement / dense-reward variants) are not swept
            for m in n.body:
                if isinstance(m, (ast.FunctionDef,)):
                    if n is primary or m.name not in defs:
                        defs[m.name] = m
        elif isinstance(n, ast.FunctionDef):
            defs.setdefault(n.name, n)
    if primary is None:
        return {}
    own = {m.name for m in primary.body if isinstance(m, ast.FunctionDef)}
    roots = {r: c for r, c in ROOTS.items() if r in own and (r in ("get_action_mask", "_step", "_reset", "_get_reward", "check_solution_validity")
                                                            or r in env.get("extra_roots", []))}
    out = {}
    work = list(roots.items())
    while work:
        name, cat = work.pop()
        if name in EXCLUDE or name not in defs:
            continue
        if name in out and cat in out[name][1]:
            continue
        out.setdefault(name, (defs[name], set()))[1].add(cat)
        for c in ast.walk(defs[name]):
            if isinstance(c, ast.Call):
                f = c.func
                callee = f.attr if isinstance(f, ast.Attribute) else (f.id if isinstance(f, ast.Name) else None)
                if callee and callee in defs and callee != name:
                    work.append((callee, cat))
    return out


def enumerate_mutants(env, repo=REPO):
    rel = "rl4co/envs/" + env["file"]
    text = (Path(repo) / rel).read_text()
    src = Src(text)
    tree = ast.parse(text)
    base_dump = ast.dump(tree)
    muts = []
    for fname, (fdef, cats) in sorted(target_functions(tree, env).items(), key=lambda kv: kv[1][0].lineno):
        en = Enumerator(src, fname)
        for stmt in fdef.body:
            en.parents = [fdef]
            en.visit(stmt)
        ca = ConstInArith(en)
        for stmt in fdef.body:
            ca.visit(stmt)
        seen = set()
        per_line = {}
        for (line, col, op, s, e, rep) in sorted(en.edits):
            if (s, e, rep) in seen:
                continue
            seen.add((s, e, rep))
            newb = src.b[:s] + rep + src.b[e:]
            try:
                new = newb.decode("utf-8")
                t2 = ast.parse(new)
                compile(new, rel, "exec")
            except (SyntaxError, ValueError, UnicodeDecodeError):
                continue
            if ast.dump(t2) == base_dump:
                continue
            k = per_line.setdefault((line, op), 0)
            per_line[(line, op)] = k + 1
            mid = "%s:%s:%d:%s%s" % (env["name"], fname, line, op, "" if k == 0 else ".%d" % (k + 1))
            diff = "".join(difflib.unified_diff(text.splitlines(True), new.splitlines(True), "a/" + rel, "b/" + rel, n=2))
            muts.append(dict(id=mid, env=env["name"], function=fname, line=line, col=col, operator=op, cats=sorted(cats),
                             file=rel, start=s, end=e, rep=rep.decode(), diff=diff))
    return muts


def select(muts, cap, seed=0):
    """deterministic choice of <= cap mutants: first one per (function, operator) group (so that every function and every
    operator kind is covered), then round-robin over the groups in operator-priority order."""
    if len(muts) <= cap:
        return list(muts)
    rng = random.Random("%d/%s" % (seed, muts[0]["env"]))
    groups = {}
    for m in muts:
        groups.setdefault((m["function"], m["operator"]), []).append(m)
    for g in groups.values():
        rng.shuffle(g)
    prio = {op: i for i, op in enumerate(OP_PRIORITY)}
    froot = {"get_action_mask": 0, "_step": 1, "check_solution_validity": 2, "_get_reward": 3, "_reset": 4}
    keys = sorted(groups, key=lambda k: (prio.get(k[1], 99), froot.get(k[0], 2.5), k[0]))
    chosen = []
    # pass 0 must cover every function and every operator kind: order keys so that new functions/operators come first
    cov_f, cov_o, first, rest = set(), set(), [], []
    for k in keys:
        if k[0] not in cov_f or k[1] not in cov_o:
            first.append(k)
            cov_f.add(k[0])
            cov_o.add(k[1])
        else:
            rest.append(k)
    order = first + rest
    while len(chosen) < cap:
        progressed = False
        for k in order:
            if groups[k] and len(chosen) < cap:
                chosen.append(groups[k].pop())
                progressed = True
        if not progressed:
            break
    return chosen


# ---------------------------------------------------------------------------------------------- running
LOCK = threading.Lock()
STATE = {"meta": {}, "mutants": {}}


def save_state():
    AUDIT.mkdir(exist_ok=True)
    tmp = JSON_OUT.with_suffix(".json.tmp")
    tmp.write_text(json.dumps(STATE, indent=1, sort_keys=True))
    tmp.replace(JSON_OUT)


def sh(cmd, cwd=None, env=None, timeout=None):
    t0 = time.time()
    try:
        p = subprocess.run(cmd, cwd=cwd, env=env, stdout=subprocess.PIPE, stderr=subprocess.STDOUT, text=True, timeout=timeout)
        return p.returncode, p.stdout, time.time() - t0
    except subprocess.TimeoutExpired as e:
        out = e.stdout or ""
        if isinstance(out, bytes):
            out = out.decode("utf-8", "replace")
        return 124, out + "\n[timeout]", time.time() - t0


def adapter_props():
    """which of C01..C06 each routing adapter serves, and which cXX_<unit>.py units exist"""
    code = ("import json\nfrom vt.envprops import adapters\n"
            "print('@@'+json.dumps({a.name: sorted(a.props) for a in adapters()}))\n")
    env = dict(os.environ, PYTHONPATH="/repo:%s" % VERIF, CUDA_VISIBLE_DEVICES="", PYTHONWARNINGS="ignore")
    rc, out, _ = sh([PY, "-W", "ignore", "-c", code], cwd=str(VERIF), env=env, timeout=300)
    m = re.search(r"@@(\{.*\})", out)
    props = json.loads(m.group(1)) if m else {}
    for unit in ("sched", "graph"):
        props[unit] = sorted("C%02d" % i for i in range(1, 7) if (VERIF / "vt" / "props" / ("c%02d_%s.py" % (i, unit))).exists())
    return props


def relevant_checks(env, mut, props):
    """ordered list of (property, VERIF_ONLY value or None)"""
    out = []
    served = props.get(env["unit"], [])
    for cat in ("dyn", "reward", "checker"):
        if cat in mut["cats"]:
            for p in CHECKS_BY_CAT[cat]:
                if p in served and (p, env["unit"]) not in out:
                    out.append((p, env["unit"]))
    if env.get("c07"):
        out.append(("C07", env["c07"]))
    if env.get("c08"):
        out.append(("C08", None))
    return out


class Worker:
    def __init__(self, k, props, deadline, replays_before):
        self.k = k
        self.tree = Path("/tmp/mutsweep_%d" % k)
        self.ev = Path("/tmp/mutsweep_ev_%d" % k)
        self.props = props
        self.deadline = deadline
        self.replays_before = replays_before
        self.baseline = {}

    def setup(self):
        sh(["git", "-C", str(REPO), "worktree", "remove", "--force", str(self.tree)])
        if self.tree.exists():
            shutil.rmtree(self.tree, ignore_errors=True)
        sh(["git", "-C", str(REPO), "worktree", "prune"])
        rc, out, _ = sh(["git", "-C", str(REPO), "worktree", "add", "-q", "--detach", str(self.tree), "HEAD"])
        if rc != 0:
            raise RuntimeError("cannot create worktree: " + out)
        self.ev.mkdir(exist_ok=True)

    def teardown(self):
        sh(["git", "-C", str(REPO), "worktree", "remove", "--force", str(self.tree)])
        sh(["git", "-C", str(REPO), "worktree", "prune"])
        shutil.rmtree(self.ev, ignore_errors=True)

    def drop_pyc(self, rel):
        d = (self.tree / rel).parent / "__pycache__"
        if d.exists():
            for p in d.glob(Path(rel).stem + ".*.pyc"):
                try:
                    p.unlink()
                except OSError:
                    pass

    def run_tests(self, env):
        e = dict(os.environ, PYTHONPATH=str(self.tree), OMP_NUM_THREADS="2", CUDA_VISIBLE_DEVICES="", PYTHONWARNINGS="ignore",
                 PYTHONHASHSEED="0")
        rc, out, secs = sh([PY, "-W", "ignore", "-m", "pytest", "-x", "-q", "-p", "no:cacheprovider", "--no-header"] + env["tests"],
                           cwd=str(self.tree), env=e, timeout=TEST_TIMEOUT)
        return rc, out, secs

    def run_check(self, prop, only):
        e = dict(os.environ, RL4CO_REPO=str(self.tree), VERIF_EVIDENCE_DIR=str(self.ev), OMP_NUM_THREADS="2")
        e.pop("VERIF_ONLY", None)
        if only:
            e["VERIF_ONLY"] = only
        rc, out, secs = sh([str(VERIF / "check"), prop, "--tier", "quick"], cwd=str(VERIF), env=e, timeout=CHECK_TIMEOUT)
        vio = [ln for ln in out.splitlines() if "VIOLATION" in ln]
        # replay files written by this run (printed, or named in the evidence): remove them again (they describe mutants)
        paths = set(re.findall(r"(/verif/replays/[\w.\-+@]+\.json)", out))
        evf = self.ev / ("%s.json" % prop)
        evtext = ""
        if evf.exists():
            evtext = evf.read_text()
            paths |= set(re.findall(r"(/verif/replays/[\w.\-+@]+\.json)", evtext))
        detail = ""
        kind = None
        if vio:
            kind = "concrete" if any("no-failing-input-found" not in ln for ln in vio) else "no-failing-input-found"
            if kind != "concrete" and re.search(r"check crashed|could not be evaluated|unit \w+ crashed", out + evtext):
                kind = "no-failing-input-found(harness crashed: fail-closed)"
            sigs = []
            for ln in vio:
                m = re.search(r"replay=(\S+)", ln)
                if m and os.path.exists(m.group(1)):
                    try:
                        o = json.load(open(m.group(1)))
                        sigs.append(o.get("signature") or "; ".join(str(x)[:200] for x in o.get("broken", []))[:400])
                    except Exception:
                        pass
            detail = " || ".join(s for s in sigs if s)[:700]
        for p in paths:
            if os.path.basename(p) not in self.replays_before:
                try:
                    os.unlink(p)
                except OSError:
                    pass
        return dict(rc=rc, violations=len(vio), kind=kind, detail=detail, seconds=round(secs, 1),
                    tail="" if vio or rc == 0 else out[-600:])

    def do_baseline(self, env, muts):
        """the unchanged worktree must pass the env's tests and every check that will be used"""
        need = []
        for m in muts:
            for c in relevant_checks(env, m, self.props):
                if c not in need:
                    need.append(c)
        rc, out, secs = self.run_tests(env)
        base = {"tests_rc": rc, "tests_s": round(secs, 1), "checks": {}}
        if rc != 0:
            base["tests_tail"] = out[-500:]
        for (p, only) in need:
            r = self.run_check(p, only)
            base["checks"]["%s/%s" % (p, only or "-")] = dict(violations=r["violations"], seconds=r["seconds"], rc=r["rc"], detail=r["detail"])
        with LOCK:
            STATE["meta"].setdefault("baseline", {})[env["name"]] = base
            save_state()
        return base

    def do_mutant(self, env, m, base):
        t0 = time.time()
        rel = m["file"]
        path = self.tree / rel
        orig = path.read_bytes()
        assert orig == (REPO / rel).read_bytes(), "worktree file differs from /repo before the edit"
        res = dict(id=m["id"], env=m["env"], function=m["function"], line=m["line"], operator=m["operator"], diff=m["diff"],
                   checks=[], worker=self.k)
        try:
            path.write_bytes(orig[:m["start"]] + m["rep"].encode() + orig[m["end"]:])
            self.drop_pyc(rel)
            rc, out, secs = self.run_tests(env)
            res["tests_s"] = round(secs, 1)
            if rc != 0:
                imp = bool(re.search(r"ImportError|SyntaxError|errors? during collection|ERROR collecting", out))
                res["status"] = "killed"
                res["killed_by"] = "import" if imp else "tests"
                fl = [ln for ln in out.splitlines() if re.match(r"^(E  |FAILED|ERROR)", ln)]
                res["detail"] = " | ".join(fl[:3])[:400]
                if rc in (124, -9) or (not fl and secs > TEST_TIMEOUT - 5):
                    res["detail"] = "hang: the env's test did not terminate within %d s (rollout never finishes)" % TEST_TIMEOUT
            else:
                checks = relevant_checks(env, m, self.props)
                res["relevant"] = ["%s/%s" % (p, o or "-") for p, o in checks]
                status = "survivor"
                if not checks:
                    status = "no_applicable_check"
                for (p, only) in checks:
                    key = "%s/%s" % (p, only or "-")
                    if base["checks"].get(key, {}).get("violations"):
                        res["checks"].append(dict(check=key, skipped="baseline prints VIOLATION on the unchanged tree"))
                        continue
                    r = self.run_check(p, only)
                    tries = 0
                    # an env edit cannot break a proof obligation (no env file is a translated unit): such a line is a build race with
                    # somebody else's make / a concurrent coqc of the same Properties file -> run the check again
                    while r["violations"] and re.search(r"proof obligation no longer checks|gate: forbidden", r["detail"]) and tries < 2:
                        tries += 1
                        res.setdefault("anomalies", []).append("%s: retried (%s)" % (key, r["detail"][:120]))
                        time.sleep(5)
                        r = self.run_check(p, only)
                    r["check"] = key
                    res["checks"].append(r)
                    if r["violations"]:
                        status = "killed"
                        res["killed_by"] = p
                        res["kill_kind"] = r["kind"]
                        res["detail"] = r["detail"]
                        break
                    if r["rc"] in (124, -9):
                        # the check did not finish (the mutant makes the real env spin inside the harness): neither a VIOLATION
                        # nor a clean pass; recorded separately, remaining checks skipped (they would spin as well)
                        status = "check_timeout"
                        res["timeout_in"] = p
                        res["detail"] = "%s did not terminate within %d s (no verdict printed)" % (key, CHECK_TIMEOUT)
                        break
                    if r["rc"] not in (0,):
                        res.setdefault("anomalies", []).append("%s rc=%d without VIOLATION" % (key, r["rc"]))
                res["status"] = status
        finally:
            path.write_bytes(orig)
            self.drop_pyc(rel)
        rc, out, _ = sh(["git", "-C", str(self.tree), "status", "--porcelain", "--untracked-files=no"])
        if out.strip():
            sh(["git", "-C", str(self.tree), "checkout", "--", "."])
        res["seconds"] = round(time.time() - t0, 1)
        return res

    def do_env(self, env, muts):
        todo = [m for m in muts if STATE["mutants"].get(m["id"], {}).get("status") is None]
        if not todo or time.time() > self.deadline:
            return
        base = self.do_baseline(env, todo)
        if base["tests_rc"] != 0:
            print("[w%d] %s: the env's own tests fail on the UNCHANGED tree; env skipped" % (self.k, env["name"]), flush=True)
            return
        for m in todo:
            if time.time() > self.deadline:
                print("[w%d] deadline reached in %s" % (self.k, env["name"]), flush=True)
                return
            res = self.do_mutant(env, m, base)
            with LOCK:
                STATE["mutants"][m["id"]] = res
                save_state()
                write_report()
            print("[w%d] %-58s %-9s %-8s %5.0fs" % (self.k, m["id"], res["status"], res.get("killed_by", ""), res["seconds"]), flush=True)


def run(args):
    global STATE
    names = [x for x in (args.envs.split(",") if args.envs else [e["name"] for e in ENVS]) if x]
    if JSON_OUT.exists() and not args.fresh:
        STATE = json.loads(JSON_OUT.read_text())
    STATE.setdefault("meta", {})
    STATE.setdefault("mutants", {})
    rc, head, _ = sh(["git", "-C", str(REPO), "rev-parse", "HEAD"])
    rc, dirty, _ = sh(["git", "-C", str(REPO), "status", "--porcelain", "--untracked-files=no"])
    if dirty.strip():
        print("WARNING: /repo has uncommitted changes; the worktrees are made from HEAD and will differ:\n" + dirty)
    props = adapter_props()
    plan = {}
    for n in names:
        env = ENV_BY_NAME[n]
        allm = enumerate_mutants(env)
        sel = select(allm, args.cap)
        plan[n] = sel
        STATE["meta"].setdefault("enumerated", {})[n] = dict(total=len(allm), selected=len(sel),
                                                            selected_ids=[m["id"] for m in sel])
    STATE["meta"].update(repo_head=head.strip(), cap=args.cap, seed=0, started=time.strftime("%Y-%m-%d %H:%M:%S"),
                         adapter_props=props, tool="tools/mutation_sweep.py")
    save_state()
    # groups: envs that share generated case files (units sched / graph; C08 has no VERIF_ONLY) are run by ONE worker
    groups, by_group = [], {}
    for n in names:
        g = ENV_BY_NAME[n].get("group", n)
        if g not in by_group:
            by_group[g] = []
            groups.append(g)
        by_group[g].append(n)
    # the long serial groups start first so that they do not become the tail; routing envs keep their order
    groups.sort(key=lambda g: 0 if g in ("sched",) else 1)
    q = queue.Queue()
    for g in groups:
        q.put(g)
    deadline = time.time() + args.minutes * 60
    replays_before = set(os.listdir(VERIF / "replays")) if (VERIF / "replays").exists() else set()
    workers = [Worker(k, props, deadline, replays_before) for k in range(min(args.workers, 4, len(groups)))]

    def loop(w):
        try:
            w.setup()
            while time.time() < deadline:
                try:
                    g = q.get_nowait()
                except queue.Empty:
                    break
                for n in by_group[g]:
                    print("[w%d] === %s (%d mutants)" % (w.k, n, len(plan[n])), flush=True)
                    w.do_env(ENV_BY_NAME[n], plan[n])
        finally:
            w.teardown()

    ths = [threading.Thread(target=loop, args=(w,)) for w in workers]
    for t in ths:
        t.start()
        time.sleep(2)
    for t in ths:
        t.join()
    STATE["meta"]["finished"] = time.strftime("%Y-%m-%d %H:%M:%S")
    save_state()
    write_report()
    print("done; see %s and %s" % (JSON_OUT, MD_OUT))


def followup(args):
    """Extra checks OUTSIDE the prescribed per-function sets, on survivors only: a survivor in mask/step/reset code is also
    run against C03 (several envs compute the reward from bookkeeping accumulated in `_step`).  A kill here is recorded with
    `followup_kill: true` (the prescribed set C01,C02,C04,C05 did not see the edit)."""
    global STATE
    STATE = json.loads(JSON_OUT.read_text())
    if args.merge:
        for mid, res in json.loads(Path(args.merge).read_text()).items():
            STATE["mutants"][mid] = res
        save_state()
        write_report()
        return
    props = adapter_props()
    replays_before = set(os.listdir(VERIF / "replays")) if (VERIF / "replays").exists() else set()
    w = Worker(9, props, time.time() + args.minutes * 60, replays_before)
    w.setup()
    try:
        cache = {}
        for mid, res in sorted(STATE["mutants"].items()):
            if res.get("status") != "survivor" or res.get("followup") is not None or time.time() > w.deadline:
                continue
            env = ENV_BY_NAME[res["env"]]
            if args.envs and res["env"] not in args.envs.split(","):
                continue
            if res["env"] not in cache:
                cache[res["env"]] = {m["id"]: m for m in enumerate_mutants(env)}
            m = cache[res["env"]].get(mid)
            if m is None or "dyn" not in m["cats"] or "C03" not in props.get(env["unit"], []):
                continue
            if any(c.get("check", "").startswith("C03/") for c in res.get("checks", [])):
                continue
            path = w.tree / m["file"]
            orig = path.read_bytes()
            try:
                path.write_bytes(orig[:m["start"]] + m["rep"].encode() + orig[m["end"]:])
                w.drop_pyc(m["file"])
                r = w.run_check("C03", env["unit"])
            finally:
                path.write_bytes(orig)
                w.drop_pyc(m["file"])
            r["check"] = "C03/%s" % env["unit"]
            res["followup"] = [r]
            if r["violations"]:
                res.update(status="killed", killed_by="C03", kill_kind=r["kind"], detail=r["detail"], followup_kill=True)
            STATE["mutants"][mid] = res
            if args.side:      # a sweep is still running and owns the json: keep the results aside, merge with `followup --merge`
                side = json.loads(Path(args.side).read_text()) if Path(args.side).exists() else {}
                side[mid] = res
                Path(args.side).write_text(json.dumps(side, indent=1))
            else:
                save_state()
                write_report()
            print("%-58s followup C03: %s" % (mid, "KILLED (%s)" % r["kind"] if r["violations"] else "still survives"), flush=True)
    finally:
        w.teardown()


# ---------------------------------------------------------------------------------------------- report
def write_report():
    ms = STATE.get("mutants", {})
    meta = STATE.get("meta", {})
    tri = {}
    tp = AUDIT / "mutation_sweep_triage.json"
    if tp.exists():
        try:
            tri = json.loads(tp.read_text())
        except Exception:
            tri = {}
    notes = tri.pop("_notes", []) if isinstance(tri, dict) else []
    L = []
    L.append("# Mutation sweep of rl4co/envs/**/env.py against the registered checks (development audit)\n")
    L.append("Generated by `tools/mutation_sweep.py` (not a registered check). /repo HEAD `%s`, cap %s mutants per environment, seed 0, "
             "started %s%s.\n" % (meta.get("repo_head", "?")[:10], meta.get("cap"), meta.get("started"),
                                  (", finished " + meta["finished"]) if meta.get("finished") else " (RUNNING / partial)"))
    L.append("One mutant = one single-site edit applied to a throw-away git worktree of /repo. Order per mutant: the env's own test in "
             "`tests/test_envs.py` (\"killed by tests\"), then the relevant checks `RL4CO_REPO=<tree> VERIF_ONLY=<unit> ./check Cxx --tier quick` "
             "(mask/step/reset: C01,C02,C04,C05; reward: C03,C04; checker: C06; scheduling +C07; FLP/MCP +C08), stopping at the first VIOLATION.\n")
    if notes:
        L.append("## Notes on this run\n")
        for n in notes:
            L.append("* " + n)
        L.append("")
    props = ["import", "tests", "C01", "C02", "C03", "C04", "C05", "C06", "C07", "C08"]
    L.append("## Kill matrix\n")
    L.append("| env | enumerated | selected | run | " + " | ".join(props) + " | survivors | check timeout | no check | concrete / no-input |")
    L.append("|---|---|---|---|" + "---|" * len(props) + "---|---|---|---|")
    tot = dict.fromkeys(props + ["run", "surv", "nochk", "conc", "noinp", "enum", "sel"], 0)
    for e in ENVS:
        n = e["name"]
        en = meta.get("enumerated", {}).get(n)
        rows = [m for m in ms.values() if m["env"] == n]
        if not en and not rows:
            continue
        cnt = {p: sum(1 for m in rows if m.get("killed_by") == p) for p in props}
        surv = sum(1 for m in rows if m["status"] == "survivor")
        nochk = sum(1 for m in rows if m["status"] == "no_applicable_check")
        tmo = sum(1 for m in rows if m["status"] == "check_timeout")
        tot["tmo"] = tot.get("tmo", 0) + tmo
        conc = sum(1 for m in rows if m.get("kill_kind") == "concrete")
        noinp = sum(1 for m in rows if str(m.get("kill_kind", "")).startswith("no-failing-input-found"))
        L.append("| %s | %s | %s | %d | %s | %d | %d | %d | %d / %d |" % (
            n, en["total"] if en else "?", en["selected"] if en else "?", len(rows), " | ".join(str(cnt[p] or "") for p in props), surv, tmo, nochk, conc, noinp))
        for p in props:
            tot[p] += cnt[p]
        tot["run"] += len(rows); tot["surv"] += surv; tot["nochk"] += nochk; tot["conc"] += conc; tot["noinp"] += noinp
        tot["enum"] += en["total"] if en else 0; tot["sel"] += en["selected"] if en else 0
    L.append("| **all** | %d | %d | %d | %s | %d | %d | %d | %d / %d |\n" % (
        tot["enum"], tot["sel"], tot["run"], " | ".join(str(tot[p] or "") for p in props), tot["surv"], tot.get("tmo", 0), tot["nochk"], tot["conc"], tot["noinp"]))
    L.append("\"concrete / no-input\": of the mutants killed by a check, how many were reported with a concrete replay of the property failing on "
             "the implementation vs. only as `no-failing-input-found` (model and implementation disagree, search found no property failure).\n")
    # operator matrix
    ops = sorted({m["operator"] for m in ms.values()}, key=lambda o: OP_PRIORITY.index(o) if o in OP_PRIORITY else 99)
    L.append("## By operator\n")
    L.append("| operator | run | killed by tests/import | killed by checks | survivors | no check |")
    L.append("|---|---|---|---|---|---|")
    for o in ops:
        rows = [m for m in ms.values() if m["operator"] == o]
        L.append("| %s | %d | %d | %d | %d | %d |" % (o, len(rows), sum(1 for m in rows if m.get("killed_by") in ("tests", "import")),
                                                  sum(1 for m in rows if str(m.get("killed_by", "")).startswith("C")),
                                                  sum(1 for m in rows if m["status"] == "survivor"),
                                                  sum(1 for m in rows if m["status"] == "no_applicable_check")))
    L.append("")
    if tri:
        L.append("## Triage of the survivors (by reading the code; distinguishing inputs confirmed on both trees)\n")
        for verdict, title in (("gap", "REAL GAPS"), ("equivalent", "EQUIVALENT mutants"), ("outside", "Outside the swept properties"), ("open", "Not yet triaged")):
            rows = [(k, v) for k, v in sorted(tri.items()) if v.get("verdict") == verdict]
            if not rows:
                continue
            L.append("### %s (%d)\n" % (title, len(rows)))
            for k, v in rows:
                L.append("* `%s` -- %s" % (k, v.get("reason", "")))
                if v.get("input"):
                    L.append("  * distinguishing input: %s" % v["input"])
                if v.get("stream"):
                    L.append("  * belongs in: %s" % v["stream"])
            L.append("")
    L.append("## Per environment\n")
    for e in ENVS:
        n = e["name"]
        rows = sorted((m for m in ms.values() if m["env"] == n), key=lambda m: (m["line"], m["id"]))
        en = meta.get("enumerated", {}).get(n)
        if not rows and not en:
            continue
        L.append("### %s (`rl4co/envs/%s`)\n" % (n, e["file"]))
        if en:
            pend = [i for i in en.get("selected_ids", []) if i not in ms]
            L.append("enumerated %d single-site mutants, selected %d, run %d%s.\n" % (en["total"], en["selected"], len(rows),
                                                                                  (", NOT RUN (budget): %d" % len(pend)) if pend else ""))
        b = meta.get("baseline", {}).get(n)
        if b:
            L.append("baseline on the unchanged worktree: tests rc=%s (%ss); checks %s\n" % (
                b["tests_rc"], b["tests_s"], ", ".join("%s %s %.0fs" % (k, "VIOLATION(!)" if v["violations"] else "ok", v["seconds"]) for k, v in b["checks"].items())))
        if rows:
            L.append("| mutant | outcome | by | kind | checks run | s | detail |")
            L.append("|---|---|---|---|---|---|---|")
            for m in rows:
                L.append("| `%s` | %s | %s | %s | %s | %.0f | %s |" % (
                    m["id"], m["status"].upper() if m["status"] == "survivor" else m["status"], m.get("killed_by", "") + (" (follow-up only)" if m.get("followup_kill") else ""), m.get("kill_kind", "") or "",
                    " ".join(c["check"].split("/")[0] for c in m.get("checks", []) if "skipped" not in c), m["seconds"],
                    (m.get("detail", "") or "").replace("|", "\\|").replace("\n", " ")[:160]))
            L.append("")
            surv = [m for m in rows if m["status"] in ("survivor", "no_applicable_check", "check_timeout")]
            if surv:
                L.append("Survivors / no applicable check, with their diffs:\n")
                for m in surv:
                    t = tri.get(m["id"], {})
                    L.append("* `%s` (%s)%s" % (m["id"], m["status"], (" -- **%s**: %s" % (t.get("verdict", "").upper(), t.get("reason", ""))) if t else ""))
                    L.append("```diff\n" + m["diff"].rstrip("\n") + "\n```")
                L.append("")
    MD_OUT.write_text("\n".join(L) + "\n")


def main():
    global STATE
    ap = argparse.ArgumentParser(description=__doc__, formatter_class=argparse.RawDescriptionHelpFormatter)
    sub = ap.add_subparsers(dest="cmd", required=True)
    a = sub.add_parser("list"); a.add_argument("--envs", default=""); a.add_argument("--cap", type=int, default=25); a.add_argument("--all", action="store_true")
    a = sub.add_parser("run"); a.add_argument("--envs", default=""); a.add_argument("--cap", type=int, default=25)
    a.add_argument("--workers", type=int, default=4); a.add_argument("--minutes", type=float, default=150); a.add_argument("--fresh", action="store_true")
    sub.add_parser("report")
    a = sub.add_parser("followup"); a.add_argument("--minutes", type=float, default=20); a.add_argument("--envs", default="")
    a.add_argument("--side", default=""); a.add_argument("--merge", default="")
    a = sub.add_parser("show"); a.add_argument("id")
    a = sub.add_parser("apply"); a.add_argument("id"); a.add_argument("tree")
    args = ap.parse_args()
    if args.cmd == "list":
        for n in (args.envs.split(",") if args.envs else [e["name"] for e in ENVS]):
            allm = enumerate_mutants(ENV_BY_NAME[n])
            sel = allm if args.all else select(allm, args.cap)
            byf = {}
            for m in allm:
                byf.setdefault(m["function"], 0)
                byf[m["function"]] += 1
            print("== %s: %d enumerated (%s), %d listed" % (n, len(allm), ", ".join("%s %d" % kv for kv in byf.items()), len(sel)))
            for m in sel:
                chg = [ln for ln in m["diff"].splitlines() if ln[:1] in "+-" and ln[:3] not in ("+++", "---")]
                print("  %-60s %s" % (m["id"], " => ".join(x[1:].strip() for x in chg)[:150]))
    elif args.cmd == "run":
        run(args)
    elif args.cmd == "followup":
        followup(args)
    elif args.cmd == "report":
        STATE = json.loads(JSON_OUT.read_text())
        write_report()
        print(MD_OUT)
    elif args.cmd in ("show", "apply"):
        env = ENV_BY_NAME[args.id.split(":")[0]]
        ms = [m for m in enumerate_mutants(env) if m["id"] == args.id]
        if not ms:
            sys.exit("no such mutant: " + args.id)
        m = ms[0]
        if args.cmd == "show":
            print(m["diff"])
        else:
            tree = Path(args.tree).resolve()
            if str(tree).startswith("/repo"):
                sys.exit("refusing to touch /repo")
            p = tree / m["file"]
            orig = p.read_bytes()
            if orig != (REPO / m["file"]).read_bytes():
                sys.exit("file in the tree is not pristine: " + str(p))
            p.write_bytes(orig[:m["start"]] + m["rep"].encode() + orig[m["end"]:])
            print("applied %s to %s" % (m["id"], p))


if __name__ == "__main__":
    main()
